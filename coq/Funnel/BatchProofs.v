(* Invariants of Batch preserved by every operation (C08 batch_wf_preserved), stated on the
   "shape" of a batch: per entry its split run (if any) and its original source position.

   WF b h:
     - the four parallel slices have equal length (records, statuses, positions, runs) and runs is
       allocated;
     - every run id is allocated in the ledger heap; an entry without a run has a non-nil position
       (an entry with a nil position is a tail piece and therefore belongs to a run);
     - a status flagged Nack carries an error.
   Besides WF every operation preserves the ledger accounting (total - members of a run in the
   batch is unchanged; a new run is created with total = members) and the multiset of positions
   the batch still owes to the source ([owed], see LedgerProofs).  filterCount is treated in
   FilterProofs (it is only exact for an untainted batch: nacking a piece of a split run overwrites
   the flags of filtered sibling pieces). *)
From Coq Require Import Permutation.
From Verif Require Import Funnel.Batch.

(* ---------- monad inversion ---------- *)

Lemma rbind_ok {A B} (m : res A) (k : A -> res B) v :
  rbind m k = Ok v -> exists a, m = Ok a /\ k a = Ok v.
Proof. destruct m; simpl; intros H; try discriminate. eauto. Qed.

Ltac bind_inv H x Hx := apply rbind_ok in H; destruct H as [x [Hx H]].

Ltac case_if H E := match type of H with (if ?c then _ else _) = _ => destruct c eqn:E end.

Ltac len_simpl :=
  repeat (progress (rewrite ?app_length, ?firstn_length, ?skipn_length, ?repeat_length, ?map_length; cbn [length])).

Ltac proj_simpl := cbn [records statuses positions filterCount tainted splitRecords runs fst snd] in *.

Ltac inv_ok :=
  repeat match goal with
         | H : rbind ?m ?k = Ok ?v |- _ =>
             let a := fresh "a" in let Ha := fresh "Ha" in let Hk := fresh "Hk" in
             apply rbind_ok in H; destruct H as [a [Ha Hk]]
         | H : Ok _ = Ok _ |- _ => inversion H; subst; clear H
         | H : Panic _ = Ok _ |- _ => discriminate H
         | H : Refused _ = Ok _ |- _ => discriminate H
         | H : OutOfFuel = Ok _ |- _ => discriminate H
         end.

(* ---------- list helpers ---------- *)

Lemma nth_chk_ok {A} (l : list A) i s a : nth_chk l i s = Ok a -> nth_error l i = Some a.
Proof. unfold nth_chk. destruct (nth_error l i); intros H; inversion H; auto. Qed.

Lemma upd_length {A} (l : list A) i f l' : upd l i f = Some l' -> length l' = length l.
Proof.
  revert i l'. induction l as [|a l IH]; intros [|i] l' H; simpl in *; try discriminate.
  - inversion H; reflexivity.
  - destruct (upd l i f) eqn:E; inversion H; subst. simpl. erewrite IH; eauto.
Qed.

Lemma upd_spec {A} (l : list A) i f l' :
  upd l i f = Some l' ->
  exists a, nth_error l i = Some a /\ l' = firstn i l ++ f a :: skipn (S i) l.
Proof.
  revert i l'. induction l as [|a l IH]; intros [|i] l' H; simpl in *; try discriminate.
  - inversion H; subst. eauto.
  - destruct (upd l i f) eqn:E; inversion H; subst.
    destruct (IH _ _ E) as [x [Hx Hl]]. exists x. split; auto. simpl. now rewrite Hl at 1.
Qed.

Lemma upd_chk_ok {A} (l : list A) i f s l' :
  upd_chk l i f s = Ok l' ->
  exists a, nth_error l i = Some a /\ l' = firstn i l ++ f a :: skipn (S i) l.
Proof. unfold upd_chk. destruct (upd l i f) eqn:E; intros H; inversion H; subst. eapply upd_spec; eauto. Qed.

Lemma upd_chk_length {A} (l : list A) i f s l' : upd_chk l i f s = Ok l' -> length l' = length l.
Proof. unfold upd_chk. destruct (upd l i f) eqn:E; intros H; inversion H; subst. eapply upd_length; eauto. Qed.

Lemma slice_chk_ok {A} (l : list A) from to x :
  slice_chk l from to = Ok x ->
  from <= to /\ to <= length l /\ x = firstn (to - from) (skipn from l).
Proof.
  unfold slice_chk. destruct (from <=? to) eqn:E1; destruct (to <=? length l) eqn:E2; simpl; intros H;
    inversion H; subst. apply Nat.leb_le in E1. apply Nat.leb_le in E2. auto.
Qed.

Lemma slice_chk_length {A} (l : list A) from to x :
  slice_chk l from to = Ok x -> length x = to - from.
Proof.
  intros H. apply slice_chk_ok in H. destruct H as [H1 [H2 ->]].
  rewrite firstn_length, skipn_length. lia.
Qed.

Lemma copy_into_length {A} (dst src : list A) : length (copy_into dst src) = length dst.
Proof.
  unfold copy_into. rewrite app_length, firstn_length, skipn_length. lia.
Qed.

Lemma insert_after_ok {A} (l : list A) i mid x :
  insert_after l i mid = Ok x -> i + 1 <= length l /\ x = firstn (i + 1) l ++ mid ++ skipn (i + 1) l.
Proof.
  unfold insert_after. destruct (i + 1 <=? length l) eqn:E; intros H; inversion H; subst.
  apply Nat.leb_le in E. auto.
Qed.

(* ---------- shapes ---------- *)

Notation entry := (option nat * pos)%type (only parsing).
Notation shape := (list (option nat * pos)) (only parsing).

Definition rl_of (b : batch) : list (option nat) := match runs b with Some rl => rl | None => [] end.
Definition shape_of (b : batch) : shape := combine (rl_of b) (positions b).

Definition lens_ok (b : batch) : Prop :=
  length (statuses b) = length (records b) /\
  length (positions b) = length (records b) /\
  exists rl, runs b = Some rl /\ length rl = length (records b).

Definition entry_ok (n : nat) (e : entry) : Prop :=
  match fst e with
  | Some r => r < n
  | None => snd e <> None
  end.

Definition nack_has_err (st : list status) : Prop :=
  Forall (fun s : status => fst s = FNack -> snd s <> None) st.

Record WF (b : batch) (h : heap) : Prop := mkWF {
  wf_lens : lens_ok b;
  wf_shape : Forall (entry_ok (length h)) (shape_of b);
  wf_nack : nack_has_err (statuses b) }.

(* ---------- operations that touch neither the shape nor the heap ---------- *)

Lemma set_flags_length st a f k n st' : set_flags st a f k n = Ok st' -> length st' = length st.
Proof.
  revert st k. induction n as [|n IH]; intros st k H; simpl in H.
  - inversion H; auto.
  - bind_inv H idx Hi. bind_inv H st1 Hu. apply IH in H. apply upd_chk_length in Hu. lia.
Qed.

Lemma Forall_firstn' {A} (P : A -> Prop) n l : Forall P l -> Forall P (firstn n l).
Proof. revert l. induction n; intros [|a l] H; simpl; auto. inversion H; subst. constructor; auto. Qed.
Lemma Forall_skipn' {A} (P : A -> Prop) n l : Forall P l -> Forall P (skipn n l).
Proof. revert l. induction n; intros [|a l] H; simpl; auto. inversion H; subst. auto. Qed.
Lemma Forall_nth_error {A} (P : A -> Prop) l i a : Forall P l -> nth_error l i = Some a -> P a.
Proof. intros H E. rewrite Forall_forall in H. apply H. eapply nth_error_In; eauto. Qed.

Lemma nack_has_err_upd st i (f : status -> status) st' s :
  nack_has_err st -> upd_chk st i f s = Ok st' ->
  (forall x, (fst x = FNack -> snd x <> None) -> fst (f x) = FNack -> snd (f x) <> None) ->
  nack_has_err st'.
Proof.
  intros H Hu Hf. apply upd_chk_ok in Hu. destruct Hu as [a [Ha ->]].
  unfold nack_has_err in *. apply Forall_app. split.
  - now apply Forall_firstn'.
  - constructor.
    + apply Hf. exact (Forall_nth_error _ _ _ _ H Ha).
    + now apply Forall_skipn'.
Qed.

Lemma set_flags_nack st a f k n st' :
  f <> FNack -> nack_has_err st -> set_flags st a f k n = Ok st' -> nack_has_err st'.
Proof.
  intros Hf. revert st k. induction n as [|n IH]; intros st k Hn H; simpl in H.
  - inversion H; subst; auto.
  - bind_inv H idx Hi. bind_inv H st1 Hu. eapply IH; [|eauto].
    eapply nack_has_err_upd; [exact Hn|exact Hu|]. intros x _ Hx. simpl in Hx. congruence.
Qed.

Definition same_shape (b b' : batch) : Prop :=
  positions b' = positions b /\ runs b' = runs b /\ length (records b') = length (records b)
  /\ splitRecords b' = splitRecords b.

Lemma same_shape_WF b b' h :
  same_shape b b' -> length (statuses b') = length (statuses b) -> nack_has_err (statuses b') ->
  WF b h -> WF b' h.
Proof.
  intros [Hp [Hr [Hl _]]] Hs Hn [[L1 [L2 [rl [Hrl L3]]]] Hsh _].
  constructor; auto.
  - unfold lens_ok. rewrite Hp, Hr, Hl, Hs. repeat split; auto. exists rl. auto.
  - unfold shape_of, rl_of in *. now rewrite Hp, Hr.
Qed.

Lemma set_flag_noerr_spec b f i j b' :
  set_flag_noerr b f i j = Ok b' ->
  same_shape b b' /\ length (statuses b') = length (statuses b) /\ records b' = records b
  /\ filterCount b' = filterCount b /\ tainted b' = tainted b
  /\ (f <> FNack -> nack_has_err (statuses b) -> nack_has_err (statuses b')).
Proof.
  unfold set_flag_noerr. intros H. bind_inv H a Ha. destruct j as [j|].
  - destruct (j <=? i); [discriminate|]. bind_inv H st Hs. inv_ok. simpl.
    repeat split; auto; try (eapply set_flags_length; eauto). intros; eapply set_flags_nack; eauto.
  - bind_inv H st Hs. inv_ok. simpl.
    repeat split; auto; try (eapply set_flags_length; eauto). intros; eapply set_flags_nack; eauto.
Qed.

Lemma batch_ack_WF b i j b' h : batch_ack b i j = Ok b' -> WF b h -> WF b' h.
Proof.
  unfold batch_ack. intros H W. apply set_flag_noerr_spec in H.
  destruct H as [S [L [_ [_ [_ N]]]]]. eapply same_shape_WF; eauto. apply N; [discriminate|apply W].
Qed.

Lemma batch_retry_WF b i j b' h : batch_retry b i j = Ok b' -> WF b h -> WF b' h.
Proof.
  unfold batch_retry. intros H W. bind_inv H b1 Ha. inv_ok. apply set_flag_noerr_spec in Ha.
  destruct Ha as [S [L [_ [_ [_ N]]]]]. eapply same_shape_WF; eauto; simpl; auto. apply N; [discriminate|apply W].
Qed.

Lemma batch_filter_WF b i j b' h : batch_filter b i j = Ok b' -> WF b h -> WF b' h.
Proof.
  unfold batch_filter. intros H W. bind_inv H b1 Ha. inv_ok. apply set_flag_noerr_spec in Ha.
  destruct Ha as [S [L [_ [_ [_ N]]]]]. eapply same_shape_WF; eauto; simpl; auto. apply N; [discriminate|apply W].
Qed.

Lemma batch_ack_shape b i j b' : batch_ack b i j = Ok b' -> same_shape b b'.
Proof. unfold batch_ack. intros H. now apply set_flag_noerr_spec in H. Qed.
Lemma batch_retry_shape b i j b' : batch_retry b i j = Ok b' -> same_shape b b'.
Proof. unfold batch_retry. intros H. bind_inv H b1 Ha. inv_ok. now apply set_flag_noerr_spec in Ha. Qed.
Lemma batch_filter_shape b i j b' : batch_filter b i j = Ok b' -> same_shape b b'.
Proof. unfold batch_filter. intros H. bind_inv H b1 Ha. inv_ok. now apply set_flag_noerr_spec in Ha. Qed.

(* Nack *)
Lemma set_status_range_spec st s k n st' :
  set_status_range st s k n = Ok st' ->
  length st' = length st /\
  (nack_has_err st -> (fst s = FNack -> snd s <> None) -> nack_has_err st').
Proof.
  revert st k. induction n as [|n IH]; intros st k H; simpl in H.
  - inversion H; subst; auto.
  - bind_inv H st1 Hu. destruct (IH _ _ H) as [L N]. split.
    + apply upd_chk_length in Hu. lia.
    + intros Hn Hs. apply N; auto. eapply nack_has_err_upd; eauto.
Qed.

Lemma set_status_range_skip_spec st s k n st' :
  set_status_range_skip st s k n = Ok st' ->
  length st' = length st /\
  (nack_has_err st -> (fst s = FNack -> snd s <> None) -> nack_has_err st').
Proof.
  revert st k. induction n as [|n IH]; intros st k H; simpl in H.
  - inversion H; subst; auto.
  - bind_inv H x Hx. bind_inv H st1 Hu. destruct (IH _ _ H) as [L N].
    destruct (is_filter x).
    + inversion Hu; subst st1. auto.
    + split.
      * apply upd_chk_length in Hu. lia.
      * intros Hn Hs. apply N; auto. eapply nack_has_err_upd; eauto.
Qed.

Lemma set_flags_err_spec fx b a st i errs st' :
  set_flags_err fx b a FNack st i errs = Ok st' ->
  length st' = length st /\ (nack_has_err st -> nack_has_err st').
Proof.
  revert st i. induction errs as [|e errs IH]; intros st i H; simpl in H.
  - inversion H; subst; auto.
  - bind_inv H idx Hi. bind_inv H st1 Hu. bind_inv H st2 Hs. destruct (IH _ _ H) as [L N].
    assert (L1 : length st1 = length st) by (eapply upd_chk_length; eauto).
    assert (N1 : nack_has_err st -> nack_has_err st1).
    { intros Hn. eapply nack_has_err_upd; eauto. intros x _ _. simpl. discriminate. }
    assert (length st2 = length st1 /\ (nack_has_err st1 -> nack_has_err st2)) as [L2 N2].
    { match type of Hs with (if ?c then _ else _) = _ => destruct c end; [|inv_ok; auto].
      bind_inv Hs p Hp.
      match type of Hs with (if ?c then _ else _) = _ => destruct c end; [|inv_ok; auto].
      bind_inv Hs ft Hft. destruct ft as [from to].
      assert (X : length st2 = length st1 /\ (nack_has_err st1 -> ((fst (FNack, Some e) = FNack -> snd (FNack, Some e) <> None)) -> nack_has_err st2)).
      { destruct fx; [apply set_status_range_skip_spec in Hs|apply set_status_range_spec in Hs]; exact Hs. }
      destruct X as [L' N']. split; auto. intros Hn. apply N'; auto. simpl. discriminate. }
    split; [lia|auto].
Qed.

Lemma batch_nack_spec fx b i errs b' :
  batch_nack fx b i errs = Ok b' ->
  same_shape b b' /\ length (statuses b') = length (statuses b) /\ records b' = records b
  /\ (nack_has_err (statuses b) -> nack_has_err (statuses b')).
Proof.
  unfold batch_nack. intros H. bind_inv H a Ha. bind_inv H st Hs. inv_ok.
  apply set_flags_err_spec in Hs. destruct Hs as [L N].
  simpl. repeat split; auto.
Qed.

Lemma batch_nack_WF fx b i errs b' h : batch_nack fx b i errs = Ok b' -> WF b h -> WF b' h.
Proof.
  intros H W. apply batch_nack_spec in H. destruct H as [S [L [_ N]]].
  eapply same_shape_WF; eauto. apply N, W.
Qed.

(* SetRecords *)
Lemma set_recs_loop_length a rs from recs fuel rs' :
  set_recs_loop a rs from recs fuel = Ok rs' -> length rs' = length rs.
Proof.
  revert rs from recs. induction fuel as [|f IH]; intros rs from recs H; destruct recs as [|r0 recs]; simpl in H;
    try (inversion H; subst; reflexivity); try discriminate.
  bind_inv H aFrom HaF. bind_inv H to Hto. bind_inv H aTo HaT.
  case_if H E; [|discriminate].
  apply andb_prop in E. destruct E as [E E3]. apply andb_prop in E. destruct E as [E1 E2].
  apply Nat.leb_le in E1. apply Nat.leb_le in E2.
  apply IH in H. rewrite H.
  rewrite !app_length, copy_into_length, !firstn_length, !skipn_length. lia.
Qed.

Lemma batch_set_records_spec b i recs b' :
  batch_set_records b i recs = Ok b' ->
  same_shape b b' /\ statuses b' = statuses b /\ filterCount b' = filterCount b /\ tainted b' = tainted b.
Proof.
  unfold batch_set_records. intros H. bind_inv H a Ha. destruct a as [a|].
  - bind_inv H rs Hrs. inv_ok. apply set_recs_loop_length in Hrs. unfold same_shape. simpl. repeat split; auto.
  - destruct (i <=? length (records b)) eqn:E; [|discriminate]. inv_ok. apply Nat.leb_le in E.
    unfold same_shape. simpl. repeat split; auto.
    rewrite app_length, copy_into_length, firstn_length, skipn_length. lia.
Qed.

Lemma batch_set_records_WF b i recs b' h : batch_set_records b i recs = Ok b' -> WF b h -> WF b' h.
Proof.
  intros H W. apply batch_set_records_spec in H. destruct H as [S [E _]].
  eapply same_shape_WF; eauto; rewrite E; auto. apply W.
Qed.

(* ---------- combine helpers ---------- *)

Lemma combine_app {A B} (l1 l2 : list A) (m1 m2 : list B) :
  length l1 = length m1 -> combine (l1 ++ l2) (m1 ++ m2) = combine l1 m1 ++ combine l2 m2.
Proof.
  revert m1. induction l1 as [|a l1 IH]; intros [|b m1] H; simpl in *; try discriminate; auto.
  f_equal. apply IH. lia.
Qed.

Lemma combine_firstn' {A B} (l : list A) (m : list B) n :
  combine (firstn n l) (firstn n m) = firstn n (combine l m).
Proof.
  revert l m. induction n; intros [|a l] [|b m]; simpl; auto. f_equal. apply IH || apply IHn.
Qed.

Lemma combine_skipn' {A B} (l : list A) (m : list B) n :
  combine (skipn n l) (skipn n m) = skipn n (combine l m).
Proof.
  revert l m. induction n; intros [|a l] [|b m]; simpl; auto.
  - destruct (skipn n l); reflexivity.
Qed.

Lemma combine_repeat {A B} (a : A) (b : B) n : combine (repeat a n) (repeat b n) = repeat (a, b) n.
Proof. induction n; simpl; congruence. Qed.

Lemma combine_nth_error {A B} (l : list A) (m : list B) i a b :
  nth_error l i = Some a -> nth_error m i = Some b -> nth_error (combine l m) i = Some (a, b).
Proof.
  revert l m. induction i; intros [|x l] [|y m]; simpl; intros H1 H2; try discriminate.
  - inversion H1; inversion H2; reflexivity.
  - auto.
Qed.

Lemma list_split_at {A} (l : list A) i a :
  nth_error l i = Some a -> l = firstn i l ++ a :: skipn (S i) l /\ length (firstn i l) = i.
Proof.
  revert l. induction i; intros [|x l] H; simpl in *; try discriminate.
  - inversion H; auto.
  - destruct (IHi _ H) as [E L]. split; [now rewrite <- E|now rewrite L].
Qed.

Lemma firstn_S_app {A} (l : list A) i a :
  nth_error l i = Some a -> firstn (i + 1) l = firstn i l ++ [a].
Proof.
  revert l. induction i; intros [|x l] H; simpl in *; try discriminate.
  - inversion H; auto.
  - f_equal. auto.
Qed.

Lemma upd_last {A} (h : list A) x y :
  firstn (length h) (h ++ [x]) ++ y :: skipn (S (length h)) (h ++ [x]) = h ++ [y].
Proof.
  rewrite firstn_app, firstn_all, Nat.sub_diag. cbn [firstn]. rewrite app_nil_r.
  rewrite skipn_all2 by (rewrite app_length; cbn [length]; lia). reflexivity.
Qed.

(* ---------- SplitRecord ---------- *)

Definition bump_total (x : srun) (d : nat) : srun :=
  mkRun (r_origPos x) (r_origRec x) (r_total x + d) (r_term x) (r_nacked x) (r_nackErr x) (r_nackTask x) (r_released x).

(* how SplitRecord changes the shape and the ledger: entry i = (x, p) is replaced by
   (Some run, p) followed by n1 tail entries (Some run, None) *)
Inductive split_effect (b : batch) (h : heap) (b' : batch) (h' : heap) : Prop :=
| SplitOld (pre post : shape) (r : nat) (p : pos) (n1 : nat) (a : srun) :
    shape_of b = pre ++ (Some r, p) :: post ->
    shape_of b' = pre ++ (Some r, p) :: repeat (Some r, None) n1 ++ post ->
    nth_error h r = Some a ->
    h' = firstn r h ++ bump_total a n1 :: skipn (S r) h ->
    split_effect b h b' h'
| SplitNew (pre post : shape) (p : pos) (n1 : nat) (orig : rec) :
    shape_of b = pre ++ (None, p) :: post ->
    p <> None ->
    shape_of b' = pre ++ (Some (length h), p) :: repeat (Some (length h), None) n1 ++ post ->
    h' = h ++ [mkRun p orig (1 + n1) 0 false None 0 false] ->
    split_effect b h b' h'.

Lemma skipn_S_nth {A} (l : list A) i a : nth_error l i = Some a -> skipn i l = a :: skipn (S i) l.
Proof.
  revert l. induction i; intros [|x l] H; simpl in *; try discriminate.
  - inversion H; auto.
  - auto.
Qed.

Lemma batch_split_record_spec b h i0 recs b' h' :
  batch_split_record b h i0 recs = Ok (b', h') -> WF b h ->
  split_effect b h b' h' /\ lens_ok b' /\ nack_has_err (statuses b').
Proof.
  unfold batch_split_record. intros H W.
  destruct W as [[L1 [L2 [rl [Hrl L3]]]] Wsh Wn].
  bind_inv H a Ha. bind_inv H i Hi. bind_inv H origPos Hop. bind_inv H run0 Hr0.
  rewrite Hrl in Hr0. apply nth_chk_ok in Hop. apply nth_chk_ok in Hr0.
  assert (Hsh : nth_error (shape_of b) i = Some (run0, origPos)).
  { unfold shape_of, rl_of. rewrite Hrl. now apply combine_nth_error. }
  destruct (list_split_at _ _ _ Hsh) as [Esh Lpre].
  bind_inv H t Ht. destruct t as [[run b1] h1].
  destruct recs as [|r0 tl]; [discriminate|].
  bind_inv H h2 Hh2.
  case_if H E; [|discriminate]. apply Nat.leb_le in E.
  bind_inv H st' Hst. bind_inv H ps' Hps. bind_inv H rl1 Hrl1. bind_inv H rl' Hrl'.
  inversion H; subst b' h'; clear H.
  apply insert_after_ok in Hst. destruct Hst as [Hs1 ->].
  apply insert_after_ok in Hps. destruct Hps as [Hp1 ->].
  apply insert_after_ok in Hrl'. destruct Hrl' as [Hq1 ->].
  set (n1 := length tl) in *.
  destruct run0 as [r|].
  - (* the entry already belongs to run r *)
    inversion Ht; subst run b1 h1; clear Ht.
    rewrite Hrl in Hrl1. inversion Hrl1; subst rl1; clear Hrl1.
    unfold run_add_total in Hh2. apply upd_chk_ok in Hh2. destruct Hh2 as [x [Hx ->]].
    split; [|split].
    + assert (Eb : shape_of b = combine rl (positions b)) by (unfold shape_of, rl_of; now rewrite Hrl).
      rewrite Eb in Esh.
      eapply SplitOld with (r := r) (p := origPos) (n1 := n1)
        (pre := firstn i (combine rl (positions b))) (post := skipn (S i) (combine rl (positions b)));
        [rewrite Eb; exact Esh| |exact Hx|reflexivity].
      unfold shape_of, rl_of; cbn [runs positions].
      rewrite (firstn_S_app _ _ _ Hr0), (firstn_S_app _ _ _ Hop).
      rewrite <- !app_assoc. cbn [app].
      rewrite combine_app by (rewrite !firstn_length; lia).
      cbn [combine]. rewrite combine_app by (rewrite !repeat_length; auto).
      rewrite combine_repeat, combine_firstn', combine_skipn'.
      replace (i + 1) with (S i) by lia. reflexivity.
    + unfold lens_ok; simpl. len_simpl. fold n1.
      repeat split; try lia. eexists; split; [reflexivity|]. len_simpl. lia.
    + simpl. unfold nack_has_err in *. apply Forall_app; split; [now apply Forall_firstn'|].
      apply Forall_app; split; [|now apply Forall_skipn'].
      apply Forall_forall. intros s Hs. apply repeat_spec in Hs. subst s. simpl. discriminate.
  - (* first split of this record: a new run *)
    destruct (pos_nil origPos) eqn:En; [discriminate|].
    bind_inv Ht rec0 Hrec0.
    destruct (sr_get (skey origPos) (splitRecords b)) as [e|] eqn:Eg.
    + bind_inv Ht rlx Hrlx. inversion Ht; subst run b1 h1; clear Ht. proj_simpl.
      rewrite Hrl in Hrlx. apply upd_chk_ok in Hrlx. destruct Hrlx as [y [Hy ->]].
      inversion Hrl1; subst rl1; clear Hrl1.
      unfold run_add_total in Hh2. apply upd_chk_ok in Hh2. destruct Hh2 as [x [Hx ->]].
      rewrite nth_error_app2 in Hx by lia. rewrite Nat.sub_diag in Hx. simpl in Hx. inversion Hx; subst x; clear Hx.
      assert (Hlen : length (firstn i rl ++ Some (length h) :: skipn (S i) rl) = length rl).
      { assert (i < length rl) by (apply nth_error_Some; congruence). len_simpl. lia. }
      split; [|split].
      * assert (Eb : shape_of b = combine rl (positions b)) by (unfold shape_of, rl_of; now rewrite Hrl).
        rewrite Eb in Esh.
        eapply SplitNew with (p := origPos) (n1 := n1) (orig := e)
          (pre := firstn i (combine rl (positions b))) (post := skipn (S i) (combine rl (positions b)));
          [rewrite Eb; exact Esh| | |].
        -- destruct origPos; [discriminate|discriminate En].
        -- unfold shape_of, rl_of; cbn [runs positions].
           assert (Hi' : i < length rl) by (apply nth_error_Some; congruence).
           assert (F1 : firstn (i + 1) (firstn i rl ++ Some (length h) :: skipn (S i) rl) = firstn i rl ++ [Some (length h)]).
           { rewrite firstn_app, firstn_length. replace (i + 1 - Nat.min i (length rl)) with 1 by lia.
             rewrite firstn_firstn. replace (Nat.min (i + 1) i) with i by lia. reflexivity. }
           assert (F2 : skipn (i + 1) (firstn i rl ++ Some (length h) :: skipn (S i) rl) = skipn (S i) rl).
           { rewrite skipn_app, firstn_length. replace (i + 1 - Nat.min i (length rl)) with 1 by lia.
             rewrite skipn_firstn_comm. replace (i - (i + 1)) with 0 by lia. reflexivity. }
           change (match rl with [] => [] | _ :: l => skipn i l end) with (skipn (S i) rl).
           rewrite F1, F2, (firstn_S_app _ _ _ Hop). rewrite <- !app_assoc. cbn [app].
           rewrite combine_app by (rewrite !firstn_length; lia).
           cbn [combine]. rewrite combine_app by (rewrite !repeat_length; auto).
           replace (i + 1) with (S i) by lia.
           rewrite combine_repeat, combine_firstn', combine_skipn'. reflexivity.
        -- rewrite upd_last. unfold bump_total. cbn. reflexivity.
      * change (match rl with [] => [] | _ :: l => skipn i l end) with (skipn (S i) rl) in *.
        unfold lens_ok; cbn [records statuses positions runs]. len_simpl. fold n1.
        repeat split; try lia. eexists; split; [reflexivity|]. len_simpl. lia.
      * simpl. unfold nack_has_err in *. apply Forall_app; split; [now apply Forall_firstn'|].
        apply Forall_app; split; [|now apply Forall_skipn'].
        apply Forall_forall. intros s Hs. apply repeat_spec in Hs. subst s. simpl. discriminate.
    + bind_inv Ht rlx Hrlx. inversion Ht; subst run b1 h1; clear Ht. proj_simpl.
      rewrite Hrl in Hrlx. apply upd_chk_ok in Hrlx. destruct Hrlx as [y [Hy ->]].
      inversion Hrl1; subst rl1; clear Hrl1.
      unfold run_add_total in Hh2. apply upd_chk_ok in Hh2. destruct Hh2 as [x [Hx ->]].
      rewrite nth_error_app2 in Hx by lia. rewrite Nat.sub_diag in Hx. simpl in Hx. inversion Hx; subst x; clear Hx.
      assert (Hi' : i < length rl) by (apply nth_error_Some; congruence).
      assert (Hlen : length (firstn i rl ++ Some (length h) :: skipn (S i) rl) = length rl).
      { len_simpl. lia. }
      split; [|split].
      * assert (Eb : shape_of b = combine rl (positions b)) by (unfold shape_of, rl_of; now rewrite Hrl).
        rewrite Eb in Esh.
        eapply SplitNew with (p := origPos) (n1 := n1) (orig := rec0)
          (pre := firstn i (combine rl (positions b))) (post := skipn (S i) (combine rl (positions b)));
          [rewrite Eb; exact Esh| | |].
        -- destruct origPos; [discriminate|discriminate En].
        -- unfold shape_of, rl_of; cbn [runs positions].
           assert (F1 : firstn (i + 1) (firstn i rl ++ Some (length h) :: skipn (S i) rl) = firstn i rl ++ [Some (length h)]).
           { rewrite firstn_app, firstn_length. replace (i + 1 - Nat.min i (length rl)) with 1 by lia.
             rewrite firstn_firstn. replace (Nat.min (i + 1) i) with i by lia. reflexivity. }
           assert (F2 : skipn (i + 1) (firstn i rl ++ Some (length h) :: skipn (S i) rl) = skipn (S i) rl).
           { rewrite skipn_app, firstn_length. replace (i + 1 - Nat.min i (length rl)) with 1 by lia.
             rewrite skipn_firstn_comm. replace (i - (i + 1)) with 0 by lia. reflexivity. }
           change (match rl with [] => [] | _ :: l => skipn i l end) with (skipn (S i) rl).
           rewrite F1, F2, (firstn_S_app _ _ _ Hop). rewrite <- !app_assoc. cbn [app].
           rewrite combine_app by (rewrite !firstn_length; lia).
           cbn [combine]. rewrite combine_app by (rewrite !repeat_length; auto).
           replace (i + 1) with (S i) by lia.
           rewrite combine_repeat, combine_firstn', combine_skipn'. reflexivity.
        -- rewrite upd_last. unfold bump_total. cbn. reflexivity.
      * change (match rl with [] => [] | _ :: l => skipn i l end) with (skipn (S i) rl) in *.
        unfold lens_ok; cbn [records statuses positions runs]. len_simpl. fold n1.
        repeat split; try lia. eexists; split; [reflexivity|]. len_simpl. lia.
      * simpl. unfold nack_has_err in *. apply Forall_app; split; [now apply Forall_firstn'|].
        apply Forall_app; split; [|now apply Forall_skipn'].
        apply Forall_forall. intros s Hs. apply repeat_spec in Hs. subst s. simpl. discriminate.
Qed.

(* ---------- sub ---------- *)

Definition slice {A} (l : list A) (from to : nat) : list A := firstn (to - from) (skipn from l).

Lemma batch_sub_spec b from to sb :
  batch_sub b from to = Ok sb -> lens_ok b ->
  from <= to /\ to <= length (records b) /\
  records sb = slice (records b) from to /\
  statuses sb = slice (statuses b) from to /\
  positions sb = slice (positions b) from to /\
  shape_of sb = slice (shape_of b) from to /\
  tainted sb = false /\ lens_ok sb.
Proof.
  unfold batch_sub. intros H [L1 [L2 [rl [Hrl L3]]]].
  bind_inv H fc Hfc. bind_inv H sr Hsr. bind_inv H orl Horl. bind_inv H rs Hrs. bind_inv H st Hst.
  bind_inv H ps Hps. inversion H; subst sb; clear H.
  rewrite Hrl in Horl. bind_inv Horl x Hx. inversion Horl; subst orl; clear Horl.
  apply slice_chk_ok in Hrs. destruct Hrs as [A1 [A2 ->]].
  apply slice_chk_ok in Hst. destruct Hst as [_ [_ ->]].
  apply slice_chk_ok in Hps. destruct Hps as [_ [_ ->]].
  apply slice_chk_ok in Hx. destruct Hx as [_ [_ ->]].
  cbn [records statuses positions tainted]. repeat split; auto.
  - unfold shape_of, rl_of. cbn [runs positions]. rewrite Hrl.
    unfold slice. now rewrite combine_firstn', combine_skipn'.
  - cbn. len_simpl. lia.
  - cbn. len_simpl. lia.
  - eexists. split; [reflexivity|]. cbn. len_simpl. lia.
Qed.

Lemma Forall_slice {A} (P : A -> Prop) l from to : Forall P l -> Forall P (slice l from to).
Proof. intros H. unfold slice. apply Forall_firstn', Forall_skipn', H. Qed.

Lemma batch_sub_WF b from to sb h : batch_sub b from to = Ok sb -> WF b h -> WF sb h.
Proof.
  intros H [L S N]. destruct (batch_sub_spec _ _ _ _ H L) as [_ [_ [_ [Es [_ [Esh [_ L']]]]]]].
  constructor; auto.
  - rewrite Esh. now apply Forall_slice.
  - rewrite Es. now apply Forall_slice.
Qed.

(* ---------- originalBatch ---------- *)

Definition nonnil (ps : list pos) : list pos := filter (fun p => negb (pos_nil p)) ps.

Lemma orig_collect_spec m rs st ps a b c :
  orig_collect m rs st ps = Ok (a, b, c) ->
  c = nonnil ps /\ length a = length c /\ length b = length c /\
  (forall P : status -> Prop, Forall P st -> Forall P b).
Proof.
  revert rs st a b c. induction ps as [|p ps IH]; intros rs st a b c H; simpl in H.
  - inversion H; subst. simpl. repeat split; auto.
  - destruct rs as [|r rs]; destruct st as [|s st].
    + destruct (pos_nil p) eqn:E; [|discriminate]. bind_inv H t Ht. destruct t as [[a' b'] c'].
      inversion H; subst; clear H. simpl in Ht. destruct (IH _ _ _ _ _ Ht) as [-> [L1 [L2 F]]].
      simpl. rewrite E. simpl. repeat split; auto.
    + destruct (pos_nil p) eqn:E; [|discriminate]. bind_inv H t Ht. destruct t as [[a' b'] c'].
      inversion H; subst; clear H. simpl in Ht. destruct (IH _ _ _ _ _ Ht) as [-> [L1 [L2 F]]].
      simpl. rewrite E. simpl. repeat split; auto. intros P HP. inversion HP; subst. auto.
    + destruct (pos_nil p) eqn:E; [|discriminate]. bind_inv H t Ht. destruct t as [[a' b'] c'].
      inversion H; subst; clear H. destruct (IH _ _ _ _ _ Ht) as [-> [L1 [L2 F]]].
      simpl. rewrite E. simpl. repeat split; auto.
    + bind_inv H t Ht. destruct t as [[a' b'] c']. destruct (IH _ _ _ _ _ Ht) as [-> [L1 [L2 F]]].
      destruct (pos_nil p) eqn:E; inversion H; subst; clear H; simpl; rewrite E; simpl.
      * repeat split; auto. intros P HP. inversion HP; subst. auto.
      * repeat split; auto. intros P HP. inversion HP; subst. constructor; auto.
Qed.

Lemma nonnil_all ps : Forall (fun p : pos => p <> None) ps -> nonnil ps = ps.
Proof.
  induction 1 as [|p ps Hp _ IH]; simpl; auto. destruct p; [simpl; now rewrite IH|congruence].
Qed.

Definition lens2 (b : batch) : Prop :=
  length (statuses b) = length (records b) /\ length (positions b) = length (records b).

Lemma lens_ok_lens2 b : lens_ok b -> lens2 b.
Proof. intros [A [B _]]. split; auto. Qed.

Lemma original_batch_spec b ob :
  original_batch b = Ok ob -> lens2 b -> Forall (fun p : pos => p <> None) (positions b) ->
  positions ob = positions b /\
  length (records ob) = length (positions ob) /\ length (statuses ob) = length (positions ob) /\
  (forall P : status -> Prop, Forall P (statuses b) -> Forall P (statuses ob)).
Proof.
  unfold original_batch. intros H [L1 L2] Hnn.
  destruct (length (splitRecords b) =? 0) eqn:E.
  - inversion H; subst ob; clear H. repeat split; auto; lia.
  - bind_inv H t Ht. destruct t as [[rs st] ps]. inversion H; subst ob; clear H.
    cbn [records statuses positions]. destruct (orig_collect_spec _ _ _ _ _ _ _ Ht) as [-> [A [B F]]].
    rewrite (nonnil_all _ Hnn) in *. repeat split; auto.
Qed.

(* ---------- WF through SplitRecord (C08 batch_wf_preserved) ---------- *)

Lemma Forall_entry_ok_mono n m (sh : shape) : n <= m -> Forall (entry_ok n) sh -> Forall (entry_ok m) sh.
Proof.
  intros H. apply Forall_impl. intros [[r|] p]; unfold entry_ok; simpl; auto. lia.
Qed.

Lemma batch_split_record_WF b h i recs b' h' :
  batch_split_record b h i recs = Ok (b', h') -> WF b h -> WF b' h'.
Proof.
  intros H W. destruct (batch_split_record_spec _ _ _ _ _ _ H W) as [S [L N]].
  constructor; auto. destruct W as [_ Wsh _].
  destruct S as [pre post r p n1 a Esh Esh' Ha Eh|pre post p n1 orig Esh Hp Esh' Eh].
  - assert (Hr : r < length h) by (apply nth_error_Some; congruence).
    assert (Ll : length h' = length h) by (subst h'; len_simpl; lia).
    rewrite Esh', Ll. rewrite Esh in Wsh. apply Forall_app in Wsh. destruct Wsh as [W1 W2].
    inversion W2; subst. apply Forall_app. split; auto. constructor; auto. apply Forall_app. split; auto.
    apply Forall_forall. intros e He. apply repeat_spec in He. subst e. assumption.
  - assert (Ll : length h' = S (length h)) by (subst h'; len_simpl; lia).
    rewrite Esh', Ll. rewrite Esh in Wsh. apply Forall_app in Wsh. destruct Wsh as [W1 W2].
    inversion W2; subst. apply Forall_app. split; [eapply Forall_entry_ok_mono; [|eauto]; lia|].
    constructor; [unfold entry_ok; simpl; lia|]. apply Forall_app. split.
    + apply Forall_forall. intros e He. apply repeat_spec in He. subst e. unfold entry_ok. simpl. lia.
    + eapply Forall_entry_ok_mono; [|eauto]. lia.
Qed.

(* statuses and filterCount after SplitRecord *)
Lemma batch_split_record_statuses b h k recs b' h' :
  batch_split_record b h k recs = Ok (b', h') ->
  exists i, i + 1 <= length (statuses b) /\
    statuses b' = firstn (i + 1) (statuses b) ++ repeat (FAck, None) (length recs - 1) ++ skipn (i + 1) (statuses b) /\
    filterCount b' = filterCount b.
Proof.
  unfold batch_split_record. intros H.
  bind_inv H a Ha. bind_inv H i Hi. bind_inv H origPos Hop. bind_inv H run0 Hr0.
  bind_inv H t Ht. destruct t as [[run b1] h1].
  assert (Eb1 : statuses b1 = statuses b /\ filterCount b1 = filterCount b).
  { destruct run0 as [r|].
    - inversion Ht; subst. auto.
    - destruct (pos_nil origPos); [discriminate|]. bind_inv Ht rec0 Hrec0.
      destruct (sr_get (skey origPos) (splitRecords b)); bind_inv Ht rlx Hrlx; inversion Ht; subst; auto. }
  destruct Eb1 as [Es Ef].
  destruct recs as [|r0 tl]; [discriminate|].
  bind_inv H h2 Hh2. case_if H E; [|discriminate].
  bind_inv H st' Hst. bind_inv H ps' Hps. bind_inv H rl1 Hrl1. bind_inv H rl' Hrl'.
  inversion H; subst b' h'; clear H.
  apply insert_after_ok in Hst. destruct Hst as [Hs1 ->].
  exists i. rewrite Es in *. cbn [statuses filterCount length].
  replace (S (length tl) - 1) with (length tl) by lia. auto.
Qed.
