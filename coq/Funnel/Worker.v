(* Model of Worker.doTask / doTaskAttempt / subBatchByFlag / doNextTask (worker.go) for a linear
   task chain: source task (index 0), processor tasks (1..np), one destination task (np+1).
   The recursion of doTaskAttempt (next task, retry of the same task) is bounded by an explicit
   fuel; running out of it is the distinct result OutOfFuel, excluded by WorkerProofs.fuel_suffices. *)
From Verif Require Export Funnel.Ledger.

Definition np (c : cfg) : nat := length (c_procs c).
Definition is_last (c : cfg) (ti : nat) : bool := np c <? ti.      (* the destination task has no next *)

(* Task.Do for task ti >= 1 *)
Definition task_do (c : cfg) (ti : nat) (b : batch) : M batch :=
  if is_last c ti then dest_do c DMain b (fun rs => EvWrite (map view rs))
  else
    ins <-- lift (active_records b) ;;;
    out <-- process c (ti - 1) ins ;;;
    h <-- get_heap ;;;
    ' (b', h') <-- lift (proc_do (c_fix c) b h (length ins) out) ;;;
    put_heap h' ;;;
    ret b'.

(* subBatchByFlag: Acks and Filters are collected together *)
Definition flag_group (f g : flag) : bool :=
  match f with
  | FAck | FFilter => match g with FAck | FFilter => true | _ => false end
  | FNack => match g with FNack => true | _ => false end
  | FRetry => match g with FRetry => true | _ => false end
  end.

Fixpoint same_group_prefix (f : flag) (st : list status) : nat :=
  match st with
  | [] => 0
  | s :: r => if flag_group f (fst s) then S (same_group_prefix f r) else 0
  end.

(* None: firstIndex is out of bounds *)
Definition sub_by_flag (b : batch) (first : nat) : res (option batch) :=
  match nth_error (statuses b) first with
  | None => Ok None
  | Some s =>
      let last := first + same_group_prefix (fst s) (skipn first (statuses b)) in
      sb <- batch_sub b first last ;; Ok (Some sb)
  end.

(* repaired (fx_procfatal): in the RecordFlagNack arm of doTaskAttempt an error of acker.Nack on the
   nacked records of a *processor* task comes back wrapped in cerrors.FatalError (the code of the
   error is kept); errors for records nacked by the destination task are returned as they are *)
Definition fatalize {A} (on : bool) (m : M A) : M A :=
  fun w => match m w with
           | (Refused e, w') => (Refused (if on then mkE true (e_code e) (e_at e) else e), w')
           | x => x
           end.

(* fatalize changes nothing but the payload of a refusal *)
Lemma fatalize_inv {A} on (m : M A) w r w' :
  fatalize on m w = (r, w') ->
  exists r0, m w = (r0, w') /\ (r0 = r \/ exists e e', r0 = Refused e /\ r = Refused e').
Proof.
  unfold fatalize. destruct (m w) as [r0 w1] eqn:E. destruct r0; intros H; inversion H; subst; eauto.
  eexists. split; [reflexivity|]. right. eauto.
Qed.

Definition nack_vote (c : cfg) (sb : batch) (ti : nat) : M unit :=
  fatalize (fx_procfatal (c_fix c) && negb (is_last c ti)) (vote c sb false ti).

(* retryAttempt: (count, size, stall) *)
Definition retry_t := (nat * nat * nat)%type.

(* the decision taken in the RecordFlagRetry arm before recursing *)
Definition retry_next (maxA maxS : nat) (retry : option retry_t) (size : nat) : res retry_t :=
  match retry with
  | None =>
      if maxA <? 1 then Refused (mkE true CRetry XRetryCap) else Ok (1, size, 0)
  | Some (count, psize, pstall) =>
      let stall := if psize <=? size then pstall + 1 else 0 in
      if maxS <=? stall then Refused (mkE true CRetry XRetryStall)
      else if maxA <? count + 1 then Refused (mkE true CRetry XRetryCap)
      else Ok (count + 1, size, stall)
  end.

(* the tainted-batch loop of doTaskAttempt over batch b (the batch after Task.Do): [next sb] is
   doNextTask on a sub-batch, [again sb nx] the retry recursion into the same task; n bounds the
   number of iterations (every iteration advances idx by span >= 1) *)
Fixpoint tloop (c : cfg) (ti : nat) (b : batch) (retry : option retry_t)
         (next : batch -> M unit) (again : batch -> retry_t -> M unit) (n idx : nat) : M unit :=
  match n with
  | 0 => if length (statuses b) <=? idx then ret tt else lift OutOfFuel
  | S n' =>
      osb <-- lift (sub_by_flag b idx) ;;;
      match osb with
      | None => ret tt
      | Some sb =>
          let span := length (positions sb) in
          s0 <-- lift (nth_chk (statuses sb) 0 SStatusIdx) ;;;
          (match fst s0 with
           | FAck | FFilter =>
               if is_last c ti || negb (has_active sb) then vote c sb true 0 else next sb
           | FNack => nack_vote c sb ti
           | FRetry =>
               sb' <-- lift (batch_ack sb 0 (Some (length (records sb)))) ;;;
               nx <-- lift (retry_next (N.to_nat (c_maxattempts c)) (N.to_nat (c_maxstall c))
                                      retry (length (records sb'))) ;;;
               again sb' nx
           end) ;;;
          tloop c ti b retry next again n' (idx + span)
      end
  end.

Fixpoint attempt (fuel : nat) (c : cfg) (ti : nat) (b0 : batch) (retry : option retry_t) : M unit :=
  match fuel with
  | 0 => lift OutOfFuel
  | S f =>
      b <-- task_do c ti b0 ;;;
      if negb (tainted b) then
        if is_last c ti || negb (has_active b) then vote c b true 0
        else attempt f c (ti + 1) b None
      else
        tloop c ti b retry (fun sb => attempt f c (ti + 1) sb None)
              (fun sb nx => attempt f c ti sb (Some nx)) (S (length (statuses b))) 0
  end.

(* one pass of Worker.Do: SourceTask.Do makes NewBatch(recs); the first task is never tainted *)
Definition pass (fuel : nat) (c : cfg) : M unit :=
  (* repaired: SourceTask.Do validates the positions of the batch it read (validateAckPositions);
     the coded, non-fatal error comes back wrapped as "task <id>: ..." *)
  if fx_srcpos (c_fix c) && existsb pos_len0 (map rpos (c_recs c))
  then fail (mkE false CEmptyPos XSourceEmptyPos)
  else
    let b := new_batch (c_recs c) in
    if negb (has_active b) then vote c b true 0
    else attempt fuel c 1 b None.

Definition w0 (c : cfg) : world :=
  mkW [] (repeat 0 (np c)) ds0 ds0 (new_win (c_dlqsize c) (c_dlqthr c)) 0 [].

Inductive terminal := TOk | TErr (fatal : bool) (code : ecode) | TPanic | THang | TFuel.

Definition fuel_for (c : cfg) : nat :=
  (np c + 2) * (N.to_nat (c_maxattempts c) + 2) + 1.

Definition run_case_fuel (fuel : nat) (c : cfg) : list event * terminal :=
  let (r, w) := pass fuel c (w0 c) in
  (rev (w_log w),
   match r with
   | Ok _ => TOk
   | Refused e => TErr (e_fatal e) (e_code e)
   | Panic _ => TPanic
   | OutOfFuel => TFuel
   end).

Definition run_case (c : cfg) : list event * terminal := run_case_fuel (fuel_for c) c.
