(* C08: the statements that go into Properties/C08.v, in the vocabulary of Funnel/Check.v. *)
From Coq Require Import Permutation.
From Verif Require Import Funnel.Check Funnel.Findings.
From Verif Require Import Funnel.BatchProofs Funnel.LedgerProofs Funnel.TaskProofs Funnel.WorkerProofs.

(* every Batch operation, ProcessorTask.Do and the sub-batch constructor preserve WF *)
Theorem batch_wf_preserved b h : WF b h ->
  (forall i j b', batch_ack b i j = Ok b' -> WF b' h) /\
  (forall i j b', batch_retry b i j = Ok b' -> WF b' h) /\
  (forall i j b', batch_filter b i j = Ok b' -> WF b' h) /\
  (forall fx i errs b', batch_nack fx b i errs = Ok b' -> WF b' h) /\
  (forall i recs b', batch_set_records b i recs = Ok b' -> WF b' h) /\
  (forall i recs b' h', batch_split_record b h i recs = Ok (b', h') -> WF b' h') /\
  (forall from to sb, batch_sub b from to = Ok sb -> WF sb h) /\
  (forall fx nIn out b' h', proc_do fx b h nIn out = Ok (b', h') -> WF b' h').
Proof.
  intros W. repeat match goal with |- _ /\ _ => split end; intros.
  - eapply batch_ack_WF; eauto.
  - eapply batch_retry_WF; eauto.
  - eapply batch_filter_WF; eauto.
  - eapply batch_nack_WF; eauto.
  - eapply batch_set_records_WF; eauto.
  - eapply batch_split_record_WF; eauto.
  - eapply batch_sub_WF; eauto.
  - eapply proc_do_WF; eauto.
Qed.

(* the tainted loop partitions [0, n) left to right into non-empty consecutive sub-batches *)
Theorem subbatches_partition st :
  contiguous (spans st 0 (S (length st))) 0 (length st).
Proof. apply spans_partition; lia. Qed.

(* a vote of k members of run q: the run's original position reaches the source only through the
   vote that leaves no unvoted member anywhere (ext q = 0), and then exactly once *)
Theorem ledger_forwards_once c b isAck task ext q w r w' :
  vote c b isAck task w = (r, w') -> Inv b (w_heap w) ext ->
  (isAck = false -> Forall (fun s : status => snd s <> None) (statuses b)) ->
  shape_of b <> [] -> Forall (fun e : option nat * pos => fst e = Some q) (shape_of b) ->
  exists newl rest,
    w_log w' = newl ++ w_log w /\
    Permutation (acks_of newl ++ rest) (if ext q =? 0 then [okey (w_heap w) q] else []) /\
    (r = Ok tt -> rest = []).
Proof.
  intros H I Hst Hne F.
  destruct (vote_spec _ _ _ _ _ _ _ _ H I Hst) as [newl [rest [L [P Hok]]]].
  assert (Hq : q < length (w_heap w)).
  { destruct I as [[_ Wsh _] _ _ _]. destruct (shape_of b) as [|e sh]; [congruence|].
    inversion Wsh; subst. inversion F; subst. unfold entry_ok in H2. rewrite H4 in H2. exact H2. }
  rewrite (owed_run _ _ _ q Hne F Hq) in P.
  exists newl, rest. repeat split; auto. intros E. apply Hok in E. tauto.
Qed.

(* the main accounting theorem, for every configuration (chain, conditions, reply scripts,
   destination and DLQ behaviour, retry bounds) and every fuel *)
Theorem accounting_exact_positions fuel c :
  Forall (fun r : rec => rpos r <> None) (c_recs c) ->
  exists rest,
    Permutation (acked_keys (fst (run_case_fuel fuel c)) ++ rest) (src_keys c) /\
    (snd (run_case_fuel fuel c) = TOk -> rest = []).
Proof. exact (accounting_positions fuel c). Qed.

(* nothing a processor (or a destination) returns changes WHICH positions are acked *)
Theorem position_immutable fuel c :
  Forall (fun r : rec => rpos r <> None) (c_recs c) ->
  incl (acked_keys (fst (run_case_fuel fuel c))) (src_keys c).
Proof.
  intros F. destruct (accounting_exact_positions fuel c F) as [rest [P _]].
  intros k Hk. eapply Permutation_in; [exact P|]. apply in_or_app. now left.
Qed.

(* with distinct source positions: no position is acked twice; all are acked when the pass ends
   without error *)
Theorem exactly_once fuel c :
  Forall (fun r : rec => rpos r <> None) (c_recs c) -> NoDup (src_keys c) ->
  NoDup (acked_keys (fst (run_case_fuel fuel c))) /\
  (snd (run_case_fuel fuel c) = TOk -> Permutation (acked_keys (fst (run_case_fuel fuel c))) (src_keys c)).
Proof.
  intros F N. destruct (accounting_exact_positions fuel c F) as [rest [P Hok]]. split.
  - assert (N' : NoDup (acked_keys (fst (run_case_fuel fuel c)) ++ rest)).
    { eapply Permutation_NoDup; [symmetry; exact P|exact N]. }
    clear - N'. induction (acked_keys (fst (run_case_fuel fuel c))) as [|a l IH]; [constructor|].
    simpl in N'. inversion N'; subst. constructor; [|auto]. intros Hin. apply H1. apply in_or_app. now left.
  - intros E. rewrite (Hok E), app_nil_r in P. exact P.
Qed.

(* bounded retry: a retry group that never shrinks is refused (fatal, pipeline.retry_not_converging)
   once maxStall consecutive rounds made no progress; a strictly shrinking one is never refused
   for stalling *)
Theorem retry_terminates maxA maxS :
  (forall sizes count psize pstall,
     Forall (fun s => s = psize) sizes -> maxS <= pstall + length sizes -> pstall < maxS ->
     exists e, retry_chain maxA maxS (Some (count, psize, pstall)) sizes = Refused e /\
               e_fatal e = true /\ e_code e = CRetry) /\
  (forall count psize pstall size,
     size < psize -> 0 < maxS -> count + 1 <= maxA ->
     retry_next maxA maxS (Some (count, psize, pstall)) size = Ok (count + 1, size, 0)).
Proof. split; [apply retry_chain_fixpoint|apply retry_next_progress]. Qed.
