(* fuel_suffices: the fuel of Worker.v is only a device to make doTaskAttempt's recursion structural.
   With fuel_for c (derived from the chain length and maxRetryAttempts) no part of a pass runs out
   of fuel: the retry recursion is cut by maxRetryAttempts, every other recursion moves to the next
   task; the tainted loop advances by a non-empty span; SetRecords consumes at least one record per
   round.  No hypothesis on the batch, the replies or the source is needed. *)
From Verif Require Import Funnel.Worker Funnel.BatchProofs Funnel.LedgerProofs.

Definition nfr {A} (r : res A) : Prop := r <> OutOfFuel.
Definition nfm {A} (m : M A) : Prop := forall w r w', m w = (r, w') -> r <> OutOfFuel.

Lemma nfr_rbind {A B} (m : res A) (k : A -> res B) : nfr m -> (forall a, nfr (k a)) -> nfr (rbind m k).
Proof. unfold nfr. intros Hm Hk. destruct m; simpl; auto; discriminate. Qed.

Lemma nfm_bind {A B} (m : M A) (k : A -> M B) : nfm m -> (forall a, nfm (k a)) -> nfm (bind m k).
Proof.
  intros Hm Hk w r w' H. apply bind_inv_M in H. destruct H as [[a [w1 [H1 H2]]]|[H1 Hr]].
  - eapply Hk; eauto.
  - intros ->. apply (Hm _ _ _ H1). reflexivity.
Qed.

Lemma nfm_ret {A} (a : A) : nfm (ret a). Proof. intros w r w' H. inversion H; subst. discriminate. Qed.
Lemma nfm_fail {A} e : nfm (@fail A e). Proof. intros w r w' H. inversion H; subst. discriminate. Qed.
Lemma nfm_lift {A} (x : res A) : nfr x -> nfm (lift x). Proof. intros Hx w r w' H. inversion H; subst. exact Hx. Qed.

Ltac nf :=
  repeat match goal with
         | |- nfr (rbind _ _) => apply nfr_rbind; [|intros]
         | |- nfr (Ok _) => discriminate
         | |- nfr (Panic _) => discriminate
         | |- nfr (Refused _) => discriminate
         | |- nfr (if ?c then _ else _) => destruct c
         | |- nfr (match ?x with _ => _ end) => destruct x
         | |- nfr (let '(_, _) := ?x in _) => destruct x
         | |- nfr _ => solve [auto with nofuel]
         end.

Lemma nfr_nth_chk {A} (l : list A) i s : nfr (nth_chk l i s).
Proof. unfold nth_chk. nf. Qed.
Lemma nfr_upd_chk {A} (l : list A) i f s : nfr (upd_chk l i f s).
Proof. unfold upd_chk. nf. Qed.
Lemma nfr_slice_chk {A} (l : list A) a b : nfr (slice_chk l a b).
Proof. unfold slice_chk. nf. Qed.
Lemma nfr_insert_after {A} (l : list A) i m : nfr (insert_after l i m).
Proof. unfold insert_after. nf. Qed.
#[export] Hint Resolve nfr_nth_chk nfr_upd_chk nfr_slice_chk nfr_insert_after : nofuel.

Lemma nfr_active_idx b : nfr (active_idx b). Proof. unfold active_idx. nf. Qed.
Lemma nfr_phys a i : nfr (phys a i). Proof. unfold phys. nf. Qed.
#[export] Hint Resolve nfr_active_idx nfr_phys : nofuel.

Lemma nfr_act_recs rs : forall st, nfr (act_recs rs st).
Proof. induction rs as [|r rs IH]; intros st; simpl; [discriminate|]. destruct st; [discriminate|]. nf; try apply IH. Qed.
Lemma nfr_active_records b : nfr (active_records b).
Proof. unfold active_records. nf. apply nfr_act_recs. Qed.
#[export] Hint Resolve nfr_act_recs nfr_active_records : nofuel.

Lemma nfr_set_flags a f : forall n st k, nfr (set_flags st a f k n).
Proof. induction n as [|n IH]; intros st k; simpl; nf; try apply IH. Qed.
#[export] Hint Resolve nfr_set_flags : nofuel.
Lemma nfr_set_flag_noerr b f i j : nfr (set_flag_noerr b f i j).
Proof. unfold set_flag_noerr. nf. Qed.
#[export] Hint Resolve nfr_set_flag_noerr : nofuel.
Lemma nfr_batch_ack b i j : nfr (batch_ack b i j). Proof. unfold batch_ack. nf. Qed.
Lemma nfr_batch_retry b i j : nfr (batch_retry b i j). Proof. unfold batch_retry. nf. Qed.
Lemma nfr_batch_filter b i j : nfr (batch_filter b i j). Proof. unfold batch_filter. nf. Qed.
#[export] Hint Resolve nfr_batch_ack nfr_batch_retry nfr_batch_filter : nofuel.

Lemma nfr_fsr_from ps : forall fuel from, nfr (fsr_from ps from fuel).
Proof. induction fuel as [|f IH]; intros from; simpl; nf; try apply IH. Qed.
Lemma nfr_fsr_to ps : forall fuel to, nfr (fsr_to ps to fuel).
Proof. induction fuel as [|f IH]; intros to; simpl; nf; try apply IH. Qed.
#[export] Hint Resolve nfr_fsr_from nfr_fsr_to : nofuel.
Lemma nfr_find_split_record ps i : nfr (find_split_record ps i).
Proof. unfold find_split_record. nf. Qed.
Lemma nfr_set_status_range s : forall n st k, nfr (set_status_range st s k n).
Proof. induction n as [|n IH]; intros st k; simpl; nf; try apply IH. Qed.
#[export] Hint Resolve nfr_find_split_record nfr_set_status_range : nofuel.
Lemma nfr_set_status_range_skip s : forall n st k, nfr (set_status_range_skip st s k n).
Proof. induction n as [|n IH]; intros st k; simpl; nf; try apply IH. Qed.
#[export] Hint Resolve nfr_set_status_range_skip : nofuel.
Lemma nfr_set_flags_err fx b a f : forall errs st i, nfr (set_flags_err fx b a f st i errs).
Proof. induction errs as [|e errs IH]; intros st i; cbn [set_flags_err]; nf; try apply IH. Qed.
#[export] Hint Resolve nfr_set_flags_err : nofuel.
Lemma nfr_batch_nack fx b i errs : nfr (batch_nack fx b i errs). Proof. unfold batch_nack. nf. Qed.
#[export] Hint Resolve nfr_batch_nack : nofuel.

(* SetRecords: every round consumes at least one record *)
Lemma find_to_ge a from aFrom : forall fuel maxT minF to, find_to a from aFrom maxT minF fuel = Ok to -> maxT <= to.
Proof.
  induction fuel as [|fu IH]; intros maxT minF to H; cbn [find_to] in H.
  - inversion H; lia.
  - destruct (maxT + 1 <? minF) eqn:E; [|inversion H; lia]. apply Nat.ltb_lt in E.
    bind_inv H am Ham. destruct (am + from =? (maxT + minF) / 2 + aFrom).
    + apply IH in H. assert (maxT <= (maxT + minF) / 2) by (apply Nat.div_le_lower_bound; lia). lia.
    + apply IH in H. exact H.
Qed.
Lemma nfr_find_to a from aFrom : forall fuel maxT minF, nfr (find_to a from aFrom maxT minF fuel).
Proof. induction fuel as [|fu IH]; intros maxT minF; cbn [find_to]; nf; try apply IH. Qed.
#[export] Hint Resolve nfr_find_to : nofuel.

Lemma nfr_set_recs_loop a : forall fuel recs from rs, length recs <= fuel -> nfr (set_recs_loop a rs from recs fuel).
Proof.
  induction fuel as [|fu IH]; intros recs from rs H; destruct recs as [|r0 recs]; cbn [set_recs_loop]; try discriminate.
  - simpl in H. lia.
  - apply nfr_rbind; [auto with nofuel|]. intros aFrom.
    destruct (find_to a from aFrom from (from + length (r0 :: recs)) (length (r0 :: recs))) as [to| | |] eqn:E;
      try (cbn [rbind]; discriminate).
    + cbn [rbind]. apply find_to_ge in E. apply nfr_rbind; [auto with nofuel|]. intros aTo.
      destruct (_ && _); [|discriminate]. apply IH. rewrite skipn_length. cbn [length] in *. lia.
    + exfalso. eapply nfr_find_to; eauto.
Qed.
Lemma nfr_batch_set_records b i recs : nfr (batch_set_records b i recs).
Proof.
  unfold batch_set_records. apply nfr_rbind; [auto with nofuel|]. intros [a|].
  - apply nfr_rbind; [apply nfr_set_recs_loop; lia|]. intros; discriminate.
  - destruct (i <=? length (records b)); discriminate.
Qed.
#[export] Hint Resolve nfr_batch_set_records : nofuel.

Lemma nfr_run_add_total h r d : nfr (run_add_total h r d). Proof. unfold run_add_total. apply nfr_upd_chk. Qed.
#[export] Hint Resolve nfr_run_add_total : nofuel.
Lemma nfr_batch_split_record b h i recs : nfr (batch_split_record b h i recs).
Proof. unfold batch_split_record. nf. Qed.
#[export] Hint Resolve nfr_batch_split_record : nofuel.

Lemma nfr_batch_sub b from to : nfr (batch_sub b from to). Proof. unfold batch_sub. nf. Qed.
#[export] Hint Resolve nfr_batch_sub : nofuel.
Lemma nfr_orig_collect m : forall ps rs st, nfr (orig_collect m rs st ps).
Proof. induction ps as [|p ps IH]; intros rs st; simpl; [discriminate|]. nf; try apply IH. Qed.
#[export] Hint Resolve nfr_orig_collect : nofuel.
Lemma nfr_original_batch b : nfr (original_batch b). Proof. unfold original_batch. nf. Qed.
#[export] Hint Resolve nfr_original_batch : nofuel.

Lemma nfr_mark_multi from : forall l b h, nfr (mark_multi b h from l).
Proof.
  induction l as [|[i p] l IH]; intros b h; simpl; [discriminate|].
  destruct p as [r| |e|rs|]; try apply IH. destruct rs as [|x [|y rs]]; nf; try apply IH.
Qed.
#[export] Hint Resolve nfr_mark_multi : nofuel.
Lemma nfr_mark_group fx b h from g : nfr (mark_group fx b h from g).
Proof. unfold mark_group. destruct g as [|[r| |e|rs|] g]; nf. Qed.
#[export] Hint Resolve nfr_mark_group : nofuel.
Lemma nfr_mark_groups fx : forall gs b h, nfr (mark_groups fx b h gs).
Proof. induction gs as [|[from g] gs IH]; intros b h; simpl; nf; try apply IH. Qed.
#[export] Hint Resolve nfr_mark_groups : nofuel.
Lemma nfr_proc_do fx b h n out : nfr (proc_do fx b h n out). Proof. unfold proc_do. nf. Qed.
#[export] Hint Resolve nfr_proc_do : nofuel.

Lemma nfr_dest_mark fx from : forall l b, nfr (dest_mark fx b from l).
Proof. induction l as [|[i [p [e|]]] l IH]; intros b; simpl; nf; try apply IH. Qed.
#[export] Hint Resolve nfr_dest_mark : nofuel.

Lemma nfr_oslice out cap lo hi : nfr (oslice out cap lo hi). Proof. unfold oslice. nf. Qed.
Lemma nfr_tmp_copy tmp lo hi src : nfr (tmp_copy tmp lo hi src). Proof. unfold tmp_copy. nf. Qed.
#[export] Hint Resolve nfr_oslice nfr_tmp_copy : nofuel.
Lemma nfr_merge_loop records out cap : forall pass tmp i pn, nfr (merge_loop records out cap tmp pass i pn).
Proof. induction pass as [|index pass IH]; intros tmp i pn; cbn [merge_loop]; nf; try apply IH. Qed.
#[export] Hint Resolve nfr_merge_loop : nofuel.
Lemma nfr_merge records out cap pass : nfr (merge records out cap pass). Proof. unfold merge. nf. Qed.
#[export] Hint Resolve nfr_merge : nofuel.

Lemma nfr_dlq_records task : forall rs st, nfr (dlq_records rs st task).
Proof. induction rs as [|r rs IH]; intros st; simpl; [discriminate|]. nf; try apply IH. Qed.
#[export] Hint Resolve nfr_dlq_records : nofuel.
Lemma nfr_run_at b i : nfr (run_at b i). Proof. unfold run_at. nf. Qed.
#[export] Hint Resolve nfr_run_at : nofuel.
Lemma nfr_scan_same b run : forall fuel j, nfr (scan_same b run j fuel).
Proof. induction fuel as [|f IH]; intros j; simpl; nf; try apply IH. Qed.
#[export] Hint Resolve nfr_scan_same : nofuel.
Lemma nfr_sub_by_flag b i : nfr (sub_by_flag b i). Proof. unfold sub_by_flag. nf. Qed.
Lemma nfr_retry_next a s r n : nfr (retry_next a s r n).
Proof. unfold retry_next. destruct r as [[[c p] st]|]; nf. Qed.
#[export] Hint Resolve nfr_sub_by_flag nfr_retry_next : nofuel.

(* ---------- the world monad ---------- *)

Ltac nfm_prim := let w := fresh "w" in let r := fresh "r" in let w' := fresh "w'" in let H := fresh "H" in
  intros w r w' H; inversion H; subst; discriminate.

Lemma nfm_emit e : nfm (emit e). Proof. nfm_prim. Qed.
Lemma nfm_get_heap : nfm get_heap. Proof. nfm_prim. Qed.
Lemma nfm_put_heap h : nfm (put_heap h). Proof. nfm_prim. Qed.
Lemma nfm_get_win : nfm get_win. Proof. nfm_prim. Qed.
Lemma nfm_put_win x : nfm (put_win x). Proof. nfm_prim. Qed.
Lemma nfm_call_plugin c p ins : nfm (call_plugin c p ins). Proof. nfm_prim. Qed.
Lemma nfm_src_ack c ps : nfm (src_ack c ps). Proof. nfm_prim. Qed.
Lemma nfm_do_write c d rs ev : nfm (do_write c d rs ev).
Proof. intros w r w' H. unfold do_write in H. destruct d; [destruct (dest_write (c_dest c) (w_dest w) rs)|destruct (dest_write (c_dlq c) (w_dlq w) rs)]; inversion H; subst; discriminate. Qed.
Lemma nfm_do_ack c d : nfm (do_ack c d).
Proof. intros w r w' H. unfold do_ack in H. destruct d; [destruct (dest_ack (c_dest c) (w_dest w)) as [[? ?] ?]|destruct (dest_ack (c_dlq c) (w_dlq w)) as [[? ?] ?]]; inversion H; subst; discriminate. Qed.
Lemma nfm_heap_get r : nfm (heap_get r).
Proof. intros w x w' H. unfold heap_get in H. inversion H; subst. apply nfr_nth_chk. Qed.
Lemma nfm_heap_set r x : nfm (heap_set r x).
Proof. intros w y w' H. unfold heap_set in H. destruct (upd (w_heap w) r (fun _ => x)); inversion H; subst; discriminate. Qed.
Lemma nfm_try {A} (m : M A) : nfm m -> nfm (try m).
Proof.
  intros Hm w r w' H. unfold try in H. destruct (m w) as [[a|e|s|] w1] eqn:E; inversion H; subst; try discriminate.
  exfalso. eapply Hm; eauto.
Qed.

Ltac nfmt :=
  repeat match goal with
         | |- nfm (bind _ _) => apply nfm_bind; [|intros]
         | |- nfm (ret _) => apply nfm_ret
         | |- nfm (fail _) => apply nfm_fail
         | |- nfm (lift _) => apply nfm_lift; nf
         | |- nfm (if ?c then _ else _) => destruct c
         | |- nfm (match ?x with _ => _ end) => destruct x
         | |- nfm (let '(_, _) := ?x in _) => destruct x
         | |- nfm _ => solve [auto with nofuel]
         end.
#[export] Hint Resolve nfm_emit nfm_get_heap nfm_put_heap nfm_get_win nfm_put_win nfm_call_plugin nfm_src_ack
  nfm_do_write nfm_do_ack nfm_heap_get nfm_heap_set : nofuel.

Lemma nfm_dest_loop c d ps : forall n b ackCount, nfm (dest_loop c d b ps ackCount n).
Proof. induction n as [|n IH]; intros b ackCount; simpl; nfmt; try apply IH. Qed.
#[export] Hint Resolve nfm_dest_loop : nofuel.
Lemma nfm_dest_do c d b wev : nfm (dest_do c d b wev). Proof. unfold dest_do. nfmt. Qed.
#[export] Hint Resolve nfm_dest_do : nofuel.

Lemma nfm_process c p recs : nfm (process c p recs).
Proof. unfold process. nfmt. Qed.
#[export] Hint Resolve nfm_process : nofuel.

Lemma nfm_send_to_dlq c b task : nfm (send_to_dlq c b task).
Proof. unfold send_to_dlq. apply nfm_bind; [nfmt|]. intros [rs qs]. apply nfm_bind; [apply nfm_try; nfmt|]. intros [db|e]; nfmt. Qed.
#[export] Hint Resolve nfm_send_to_dlq : nofuel.
Lemma nfm_dlq_nack c b task : nfm (dlq_nack c b task).
Proof.
  unfold dlq_nack. destruct (length (records b) =? 0); [nfmt|]. apply nfm_bind; [nfmt|]. intros wn.
  destruct (nackN wn (length (records b))) as [wn' nacked]. nfmt.
Qed.
#[export] Hint Resolve nfm_dlq_nack : nofuel.
Lemma nfm_worker_ack c b : nfm (worker_ack c b). Proof. unfold worker_ack. nfmt. Qed.
Lemma nfm_worker_nack c b task : nfm (worker_nack c b task). Proof. unfold worker_nack. nfmt. Qed.
#[export] Hint Resolve nfm_worker_ack nfm_worker_nack : nofuel.

Lemma nfm_vote_loop c b isAck task : forall fuel i, nfm (vote_loop c b isAck task i fuel).
Proof. induction fuel as [|f IH]; intros i; simpl; nfmt; try apply IH. Qed.
#[export] Hint Resolve nfm_vote_loop : nofuel.
Lemma nfm_vote c b isAck task : nfm (vote c b isAck task). Proof. unfold vote. apply nfm_vote_loop. Qed.
#[export] Hint Resolve nfm_vote : nofuel.

Lemma nfm_task_do c ti b : nfm (task_do c ti b). Proof. unfold task_do. nfmt. Qed.
#[export] Hint Resolve nfm_task_do : nofuel.

(* ---------- the two recursions that need an argument ---------- *)

Lemma nfm_bind_lift {A B} (x : res A) (k : A -> M B) :
  nfr x -> (forall a, x = Ok a -> nfm (k a)) -> nfm (bind (lift x) k).
Proof.
  intros Hx Hk w r w' H. unfold bind, lift in H. destruct x as [a|e|s|].
  - eapply Hk; eauto.
  - inversion H; subst; discriminate.
  - inversion H; subst; discriminate.
  - exfalso. apply Hx. reflexivity.
Qed.

Lemma sub_by_flag_span b idx sb : sub_by_flag b idx = Ok (Some sb) -> 1 <= length (positions sb).
Proof.
  unfold sub_by_flag. intros H. destruct (nth_error (statuses b) idx) as [s|] eqn:E; [|discriminate].
  bind_inv H x Hx. inversion H; subst x. clear H.
  assert (Hpos : 0 < same_group_prefix (fst s) (skipn idx (statuses b))).
  { rewrite (skipn_S_nth _ _ _ E). simpl. destruct (fst s); simpl; lia. }
  unfold batch_sub in Hx. bind_inv Hx fc Hfc. bind_inv Hx sr Hsr. bind_inv Hx rl Hrl. bind_inv Hx rs Hrs.
  bind_inv Hx st Hst. bind_inv Hx ps Hps. inversion Hx; subst sb. cbn [positions].
  apply slice_chk_length in Hps. lia.
Qed.

Definition rcount (r : option retry_t) : nat := match r with Some (c, _, _) => c | None => 0 end.

Lemma retry_next_count maxA maxS retry size nx :
  retry_next maxA maxS retry size = Ok nx -> fst (fst nx) = rcount retry + 1 /\ fst (fst nx) <= maxA.
Proof.
  unfold retry_next. destruct retry as [[[c p] st]|]; simpl.
  - destruct (maxS <=? _); [discriminate|]. destruct (maxA <? c + 1) eqn:E; [discriminate|].
    intros H. inversion H; subst. simpl. apply Nat.ltb_ge in E. lia.
  - destruct (maxA <? 1) eqn:E; [discriminate|]. intros H. inversion H; subst. simpl. apply Nat.ltb_ge in E. lia.
Qed.

Lemma nfm_tloop c ti b retry next again :
  (is_last c ti = false -> forall sb, nfm (next sb)) ->
  (forall sb size nx, retry_next (N.to_nat (c_maxattempts c)) (N.to_nat (c_maxstall c)) retry size = Ok nx ->
                      nfm (again sb nx)) ->
  forall n idx, length (statuses b) < n + idx -> nfm (tloop c ti b retry next again n idx).
Proof.
  intros Hn Ha. induction n as [|n IH]; intros idx Hlen; cbn [tloop].
  - destruct (length (statuses b) <=? idx) eqn:E; [apply nfm_ret|]. apply Nat.leb_gt in E. lia.
  - apply nfm_bind_lift; [apply nfr_sub_by_flag|]. intros [sb|] Hsb; [|apply nfm_ret].
    pose proof (sub_by_flag_span _ _ _ Hsb) as Hspan.
    apply nfm_bind; [apply nfm_lift, nfr_nth_chk|]. intros s0. apply nfm_bind; [|intros _; apply IH; lia].
    destruct (fst s0).
    + destruct (is_last c ti) eqn:El; simpl; [apply nfm_vote|]. destruct (negb (has_active sb)); [apply nfm_vote|auto].
    + intros w r w' H. unfold nack_vote in H. apply fatalize_inv in H. destruct H as [r0 [H [->|[e [e' [_ ->]]]]]]; [eapply nfm_vote; eauto|discriminate].
    + apply nfm_bind; [apply nfm_lift, nfr_batch_ack|]. intros sb'.
      apply nfm_bind_lift; [apply nfr_retry_next|]. intros nx Hnx. eapply Ha; eauto.
    + destruct (is_last c ti) eqn:El; simpl; [apply nfm_vote|]. destruct (negb (has_active sb)); [apply nfm_vote|auto].
Qed.

Definition need (c : cfg) (ti : nat) (retry : option retry_t) : nat :=
  (np c + 1 - ti) * (N.to_nat (c_maxattempts c) + 1) + (N.to_nat (c_maxattempts c) - rcount retry) + 1.

Lemma nfm_attempt : forall fuel c ti b retry,
  need c ti retry <= fuel -> rcount retry <= N.to_nat (c_maxattempts c) -> nfm (attempt fuel c ti b retry).
Proof.
  induction fuel as [|f IH]; intros c ti b retry Hneed Hcnt; [unfold need in Hneed; nia|].
  cbn [attempt]. apply nfm_bind; [apply nfm_task_do|]. intros b1.
  set (maxA := N.to_nat (c_maxattempts c)) in *.
  assert (Hnext : is_last c ti = false -> forall sb, nfm (attempt f c (ti + 1) sb None)).
  { intros El sb. apply IH; [|simpl; lia]. unfold is_last in El. apply Nat.ltb_ge in El.
    unfold need in *. fold maxA in Hneed |- *. simpl rcount.
    replace (np c + 1 - (ti + 1)) with (np c - ti) by lia.
    replace (np c + 1 - ti) with (S (np c - ti)) in Hneed by lia. simpl in Hneed. lia. }
  destruct (negb (tainted b1)).
  - destruct (is_last c ti) eqn:El; simpl; [apply nfm_vote|].
    destruct (negb (has_active b1)); [apply nfm_vote|auto].
  - apply nfm_tloop; auto; [|lia].
    intros sb size nx Hnx. destruct (retry_next_count _ _ _ _ _ Hnx) as [E1 E2]. fold maxA in E2.
    apply IH.
    + unfold need in *. fold maxA in Hneed |- *. destruct nx as [[cnt sz] stl]. simpl in *. lia.
    + destruct nx as [[cnt sz] stl]. simpl in *. exact E2.
Qed.

(* fuel_suffices: with the fuel run_case uses, the result is never "out of fuel" *)
Theorem fuel_suffices c : snd (run_case c) <> TFuel.
Proof.
  unfold run_case, run_case_fuel. destruct (pass (fuel_for c) c (w0 c)) as [r w'] eqn:E. simpl.
  assert (H : nfm (pass (fuel_for c) c)).
  { unfold pass. destruct (_ && _); [apply nfm_fail|].
    destruct (negb (has_active (new_batch (c_recs c)))); [apply nfm_vote|].
    apply nfm_attempt; [|simpl; lia]. unfold need, fuel_for. simpl rcount. nia. }
  specialize (H _ _ _ E). destruct r; try discriminate. congruence.
Qed.
