(* C09 no_panic_destination_acks: DestinationTask.Do never panics, whatever the destination
   replies (empty lists, too many acks, wrong / duplicate / out-of-order positions, errors), on a
   batch whose parallel slices have equal length and whose filterCount does not exceed it. *)
From Verif Require Import Funnel.Ledger Funnel.BatchProofs Funnel.LedgerProofs.

Definition no_panic {A} (r : res A) : Prop := forall s, r <> Panic s.

Lemma no_panic_ok {A} (a : A) : no_panic (Ok a). Proof. intros s; discriminate. Qed.
Lemma no_panic_refused {A} e : no_panic (@Refused A e). Proof. intros s; discriminate. Qed.

Lemma nth_chk_lt {A} (l : list A) i s : i < length l -> exists a, nth_chk l i s = Ok a.
Proof.
  intros H. unfold nth_chk. destruct (nth_error l i) eqn:E; eauto. apply nth_error_None in E. lia.
Qed.

Lemma upd_lt {A} (l : list A) i f : i < length l -> exists l', upd l i f = Some l'.
Proof.
  revert i. induction l as [|a l IH]; intros [|i] H; simpl in *; try lia; eauto.
  destruct (IH i ltac:(lia)) as [l' ->]. eauto.
Qed.

Lemma upd_chk_lt {A} (l : list A) i f s : i < length l -> exists l', upd_chk l i f s = Ok l' /\ length l' = length l.
Proof.
  intros H. destruct (upd_lt l i f H) as [l' E]. unfold upd_chk. rewrite E. eexists; split; eauto.
  eapply upd_length; eauto.
Qed.

(* number of records that are not filtered *)
Definition nf (st : list status) : nat := length (idx_active st 0).

Lemma idx_active_length st i j : length (idx_active st i) = length (idx_active st j).
Proof. revert i j. induction st as [|s st IH]; intros i j; simpl; auto. destruct (is_filter s); simpl; auto. Qed.

Lemma idx_active_bound st : forall i x, In x (idx_active st i) -> i <= x < i + length st.
Proof.
  induction st as [|s st IH]; intros i x H; simpl in *; [contradiction|].
  destruct (is_filter s).
  - apply IH in H. lia.
  - destruct H as [<-|H]; [lia|]. apply IH in H. lia.
Qed.

Lemma nf_app a b : nf (a ++ b) = nf a + nf b.
Proof.
  unfold nf. generalize 0. induction a as [|s a IH]; intros i; simpl.
  - apply idx_active_length.
  - destruct (is_filter s); simpl; rewrite IH; rewrite (idx_active_length b (S i) i); auto.
Qed.

(* overwriting a status with a Nack status never lowers the number of active records *)
Lemma nf_upd_nack st i e st' s :
  upd_chk st i (fun _ => (FNack, Some e)) s = Ok st' -> nf st <= nf st'.
Proof.
  intros H. apply upd_chk_ok in H. destruct H as [a [Ha ->]].
  rewrite (proj1 (list_split_at _ _ _ Ha)) at 1. rewrite !nf_app.
  change (a :: skipn (S i) st) with ([a] ++ skipn (S i) st).
  change ((FNack, Some e) :: skipn (S i) st) with ([(FNack, Some e)] ++ skipn (S i) st).
  rewrite !nf_app. unfold nf at 2 5. simpl. destruct (is_filter a); simpl; lia.
Qed.

Lemma set_status_range_nack e : forall n st k,
  k + n <= length st ->
  exists st', set_status_range st (FNack, Some e) k n = Ok st' /\ length st' = length st /\ nf st <= nf st'.
Proof.
  induction n as [|n IH]; intros st k H; simpl.
  - eexists; repeat split; eauto.
  - destruct (upd_chk_lt st k (fun _ => (FNack, Some e)) SStatusIdx ltac:(lia)) as [st1 [E1 L1]].
    rewrite E1. cbn [rbind].
    assert (N1 : nf st <= nf st1) by (eapply nf_upd_nack; eauto).
    destruct (IH st1 (S k) ltac:(lia)) as [st' [E' [L' N']]].
    exists st'. repeat split; auto; lia.
Qed.

Lemma set_status_range_skip_nack e : forall n st k,
  k + n <= length st ->
  exists st', set_status_range_skip st (FNack, Some e) k n = Ok st' /\ length st' = length st /\ nf st <= nf st'.
Proof.
  induction n as [|n IH]; intros st k H; simpl.
  - eexists; repeat split; eauto.
  - destruct (nth_chk_lt st k SStatusIdx ltac:(lia)) as [x ->]. cbn [rbind].
    destruct (is_filter x).
    + cbn [rbind]. destruct (IH st (S k) ltac:(lia)) as [st' [E' [L' N']]]. exists st'. auto.
    + destruct (upd_chk_lt st k (fun _ => (FNack, Some e)) SStatusIdx ltac:(lia)) as [st1 [E1 L1]].
      rewrite E1. cbn [rbind].
      assert (N1 : nf st <= nf st1) by (eapply nf_upd_nack; eauto).
      destruct (IH st1 (S k) ltac:(lia)) as [st' [E' [L' N']]].
      exists st'. repeat split; auto; lia.
Qed.

Lemma fsr_from_ok ps : forall fuel from, from < length ps -> exists x, fsr_from ps from fuel = Ok x /\ x <= from.
Proof.
  induction fuel as [|f IH]; intros from H; simpl; [eauto|].
  destruct (0 <? from) eqn:E; [|eauto].
  destruct (nth_chk_lt ps from SPositionsIdx H) as [p ->]. cbn [rbind].
  destruct (pos_nil p); [|eauto]. destruct (IH (from - 1) ltac:(lia)) as [x [Ex Hx]].
  exists x. split; auto. lia.
Qed.

Lemma fsr_to_ok ps : forall fuel to, exists x, fsr_to ps to fuel = Ok x /\ (to <= length ps -> x <= length ps) /\ to <= x.
Proof.
  induction fuel as [|f IH]; intros to; simpl; [eauto|].
  destruct (to <? length ps) eqn:E; [|eauto]. apply Nat.ltb_lt in E.
  destruct (nth_chk_lt ps to SPositionsIdx E) as [p ->]. cbn [rbind].
  destruct (pos_nil p); [|exists to; repeat split; auto; lia].
  destruct (IH (S to)) as [x [Ex [Hx1 Hx2]]]. exists x. repeat split; auto; lia.
Qed.

Lemma find_split_record_ok ps i :
  i < length ps -> exists from to, find_split_record ps i = Ok (from, to) /\ from <= i /\ i <= to /\ to < length ps.
Proof.
  intros H. unfold find_split_record.
  destruct (fsr_from_ok ps (S i) i H) as [from [-> Hf]]. cbn [rbind].
  destruct (fsr_to_ok ps (S (length ps)) (i + 1)) as [to [-> [Ht1 Ht2]]]. cbn [rbind].
  exists from, (to - 1). repeat split; auto; lia.
Qed.

(* Batch.Nack(i, err) on an index that is in range *)
Lemma batch_nack_ok fx b i e :
  lens2 b -> filterCount b <= length (records b) ->
  (filterCount b = 0 -> i < length (statuses b)) -> (filterCount b <> 0 -> i < nf (statuses b)) ->
  exists b', batch_nack fx b i [e] = Ok b' /\ lens2 b' /\ filterCount b' = filterCount b /\
             length (records b') = length (records b) /\ nf (statuses b) <= nf (statuses b') /\
             length (statuses b') = length (statuses b).
Proof.
  intros [L1 L2] Hfc H0 H1. unfold batch_nack, active_idx.
  destruct (filterCount b =? 0) eqn:E0.
  - apply Nat.eqb_eq in E0. cbn [rbind set_flags_err phys].
    destruct (upd_chk_lt (statuses b) i (fun _ => (FNack, Some e)) SStatusIdx (H0 E0)) as [st1 [E1 Ll1]].
    rewrite E1. cbn [rbind].
    assert (N1 : nf (statuses b) <= nf st1) by (eapply nf_upd_nack; eauto).
    assert (X : exists st2, (if negb (length (splitRecords b) =? 0) && flag_eqb FNack FNack
                then p <- nth_chk (positions b) i SPositionsIdx ;;
                     (if pos_nil p || match sr_get (skey p) (splitRecords b) with Some _ => true | None => false end
                      then ' (from, to) <- find_split_record (positions b) i ;;
                           (if fx then set_status_range_skip st1 (FNack, Some e) from (S to - from)
                            else set_status_range st1 (FNack, Some e) from (S to - from))
                      else Ok st1)
                else Ok st1) = Ok st2 /\ length st2 = length st1 /\ nf st1 <= nf st2).
    { destruct (negb (length (splitRecords b) =? 0) && flag_eqb FNack FNack); [|eauto].
      destruct (nth_chk_lt (positions b) i SPositionsIdx ltac:(rewrite L2, <- L1; auto)) as [p ->]. cbn [rbind].
      destruct (pos_nil p || _); [|eauto].
      destruct (find_split_record_ok (positions b) i ltac:(rewrite L2, <- L1; auto)) as [from [to [-> [A [B C]]]]].
      cbn [rbind]. destruct fx; [apply set_status_range_skip_nack|apply set_status_range_nack]; rewrite Ll1, L1, <- L2; lia. }
    destruct X as [st2 [-> [Ll2 N2]]]. cbn [rbind].
    eexists. split; [reflexivity|]. unfold lens2, nf in *. cbn. repeat split; auto; try lia.
  - apply Nat.eqb_neq in E0. destruct (length (records b) <? filterCount b) eqn:E1; [apply Nat.ltb_lt in E1; lia|].
    cbn [rbind set_flags_err phys].
    destruct (nth_chk_lt (idx_active (statuses b) 0) i SActiveIdx (H1 E0)) as [idx Hidx]. rewrite Hidx. cbn [rbind].
    assert (Hb : idx < length (statuses b)).
    { apply nth_chk_ok in Hidx. apply nth_error_In in Hidx. apply idx_active_bound in Hidx. lia. }
    destruct (upd_chk_lt (statuses b) idx (fun _ => (FNack, Some e)) SStatusIdx Hb) as [st1 [E1' Ll1]].
    rewrite E1'. cbn [rbind].
    assert (N1 : nf (statuses b) <= nf st1) by (eapply nf_upd_nack; eauto).
    assert (X : exists st2, (if negb (length (splitRecords b) =? 0) && flag_eqb FNack FNack
                then p <- nth_chk (positions b) idx SPositionsIdx ;;
                     (if pos_nil p || match sr_get (skey p) (splitRecords b) with Some _ => true | None => false end
                      then ' (from, to) <- find_split_record (positions b) idx ;;
                           (if fx then set_status_range_skip st1 (FNack, Some e) from (S to - from)
                            else set_status_range st1 (FNack, Some e) from (S to - from))
                      else Ok st1)
                else Ok st1) = Ok st2 /\ length st2 = length st1 /\ nf st1 <= nf st2).
    { destruct (negb (length (splitRecords b) =? 0) && flag_eqb FNack FNack); [|eauto].
      destruct (nth_chk_lt (positions b) idx SPositionsIdx ltac:(rewrite L2, <- L1; auto)) as [p ->]. cbn [rbind].
      destruct (pos_nil p || _); [|eauto].
      destruct (find_split_record_ok (positions b) idx ltac:(rewrite L2, <- L1; auto)) as [from [to [-> [A [B C]]]]].
      cbn [rbind]. destruct fx; [apply set_status_range_skip_nack|apply set_status_range_nack]; rewrite Ll1, L1, <- L2; lia. }
    destruct X as [st2 [-> [Ll2 N2]]]. cbn [rbind].
    eexists. split; [reflexivity|]. unfold lens2, nf in *. cbn. repeat split; auto; try lia.
Qed.

(* how many active-record indices Batch.Nack accepts *)
Definition bound (b : batch) : nat := if filterCount b =? 0 then length (statuses b) else nf (statuses b).

Lemma dest_mark_ok fx from : forall l b,
  (forall i a, In (i, a) l -> from + i < bound b) ->
  lens2 b -> filterCount b <= length (records b) ->
  exists b', dest_mark fx b from l = Ok b' /\ lens2 b' /\ filterCount b' = filterCount b /\
             length (records b') = length (records b) /\ bound b <= bound b'.
Proof.
  induction l as [|[i [p [e|]]] l IH]; intros b Hin L Hfc; simpl.
  - exists b. repeat split; auto; apply L.
  - assert (Hi : from + i < bound b) by (eapply Hin; left; reflexivity).
    destruct (batch_nack_ok fx b (from + i) e L Hfc) as [b1 [E1 [L1 [F1 [R1 [N1 S1]]]]]].
    { intros E0. unfold bound in Hi. rewrite E0 in Hi. exact Hi. }
    { intros E0. unfold bound in Hi. apply Nat.eqb_neq in E0. rewrite E0 in Hi. exact Hi. }
    rewrite E1. cbn [rbind].
    assert (B1 : bound b <= bound b1).
    { unfold bound. rewrite F1. destruct (filterCount b =? 0); lia. }
    destruct (IH b1) as [b' [E' [L' [F' [R' B']]]]]; auto.
    + intros j a Hj. specialize (Hin j a (or_intror Hj)). lia.
    + lia.
    + exists b'. split; [exact E'|]. split; [exact L'|]. split; [congruence|]. split; [congruence|lia].
  - apply IH; auto. intros j a Hj. apply (Hin j a). now right.
Qed.

Lemma acks_match_length acks ps : acks_match acks ps = true -> length acks <= length ps.
Proof.
  revert ps. induction acks as [|[p e] acks IH]; intros ps H; simpl in *; [lia|].
  destruct ps as [|q ps]; [discriminate|]. apply andb_prop in H. destruct H as [_ H]. apply IH in H. simpl. lia.
Qed.

Lemma in_rev_combine_seq {A} (l : list A) i a : In (i, a) (rev (combine (seq 0 (length l)) l)) -> i < length l.
Proof.
  intros H. apply in_rev in H. apply in_combine_l in H. apply in_seq in H. lia.
Qed.

Definition no_panic_M {A} (m : M A) : Prop := forall w r w', m w = (r, w') -> forall s, r <> Panic s.

Lemma dest_loop_no_panic c d ps n : forall b ackCount,
  lens2 b -> filterCount b <= length (records b) -> length ps <= bound b ->
  no_panic_M (dest_loop c d b ps ackCount n).
Proof.
  induction n as [|n IH]; intros b ackCount L Hfc Hb w r w' H s; simpl in H.
  - destruct (_ && _); unfold ret, fail in H; inversion H; subst; discriminate.
  - apply bind_inv_M in H. destruct H as [[acks [w1 [H1 H]]]|[H1 Hr]].
    2:{ unfold do_ack in H1. destruct d.
        - destruct (dest_ack (c_dest c) (w_dest w)) as [[? ?] ?]. inversion H1; subst. destruct r; discriminate.
        - destruct (dest_ack (c_dlq c) (w_dlq w)) as [[? ?] ?]. inversion H1; subst. destruct r; discriminate. }
    destruct acks as [acks|]; [|unfold fail in H; inversion H; subst; discriminate].
    destruct (_ && _); [unfold fail in H; inversion H; subst; discriminate|].
    destruct (acks_match acks (skipn ackCount ps)) eqn:Em; [|unfold fail in H; inversion H; subst; discriminate].
    apply acks_match_length in Em. rewrite skipn_length in Em.
    destruct (dest_mark_ok (fx_unfilter (c_fix c)) ackCount (rev (combine (seq 0 (length acks)) acks)) b) as [b1 [E1 [L1 [F1 [R1 B1]]]]]; auto.
    { intros i a Hi. apply in_rev_combine_seq in Hi. lia. }
    apply bind_inv_M in H. destruct H as [[b2 [w2 [H2 H]]]|[H2 Hr]].
    2:{ unfold lift in H2. rewrite E1 in H2. inversion H2; subst. destruct r; discriminate. }
    unfold lift in H2. rewrite E1 in H2. inversion H2; subst b2 w2. clear H2.
    destruct (length ps <=? ackCount + length acks).
    + unfold ret in H. inversion H; subst. discriminate.
    + apply bind_inv_M in H. destruct H as [[t [w3 [H3 H]]]|[H3 Hr]].
      * destruct t. unfold ret in H. inversion H; subst. discriminate.
      * destruct r; try discriminate. intros E. inversion E; subst.
        eapply (IH b1 (ackCount + length acks)); eauto; try lia.
Qed.

Lemma act_recs_length rs : forall st, length rs <= length st ->
  exists l, act_recs rs st = Ok l /\ length l = nf (firstn (length rs) st).
Proof.
  induction rs as [|r rs IH]; intros st H; simpl.
  - eexists; split; eauto.
  - destruct st as [|s st]; [simpl in H; lia|]. destruct (IH st ltac:(simpl in H; lia)) as [l [-> Ll]].
    cbn [rbind]. eexists; split; [reflexivity|]. unfold nf in *. simpl.
    destruct (is_filter s); simpl; rewrite Ll; [apply idx_active_length|f_equal; apply idx_active_length].
Qed.

(* C09 no_panic_destination_acks *)
Theorem dest_do_no_panic c d b wev :
  lens2 b -> filterCount b <= length (records b) -> no_panic_M (dest_do c d b wev).
Proof.
  intros L Hfc w r w' H s. unfold dest_do in H. pose proof L as [L1 L2].
  assert (Hact : exists rs, active_records b = Ok rs /\ length rs <= bound b).
  { unfold active_records, bound. destruct (filterCount b =? 0) eqn:E0; [eexists; split; eauto; lia|].
    destruct (filterCount b =? length (records b)) eqn:E1; [eexists; split; eauto; simpl; lia|].
    destruct (length (records b) <? filterCount b) eqn:E2; [apply Nat.ltb_lt in E2; lia|].
    destruct (act_recs_length (records b) (statuses b) ltac:(lia)) as [l [-> Ll]].
    exists l. split; auto. rewrite Ll, <- L1, firstn_all. lia. }
  destruct Hact as [rs [Ea Hrs]].
  apply bind_inv_M in H. destruct H as [[rs' [w1 [H1 H]]]|[H1 Hr]].
  2:{ unfold lift in H1. rewrite Ea in H1. inversion H1; subst. destruct r; discriminate. }
  unfold lift in H1. rewrite Ea in H1. inversion H1; subst rs' w1. clear H1.
  apply bind_inv_M in H. destruct H as [[ok [w1 [H1 H]]]|[H1 Hr]].
  2:{ unfold do_write in H1. destruct d.
      - destruct (dest_write (c_dest c) (w_dest w) rs). inversion H1; subst. destruct r; discriminate.
      - destruct (dest_write (c_dlq c) (w_dlq w) rs). inversion H1; subst. destruct r; discriminate. }
  destruct ok; [|unfold fail in H; inversion H; subst; discriminate].
  apply bind_inv_M in H. destruct H as [[t [w3 [H3 H]]]|[H3 Hr]].
  - destruct t. unfold ret in H. inversion H; subst. discriminate.
  - destruct r; try discriminate. intros E. inversion E; subst.
    eapply dest_loop_no_panic; eauto. now rewrite map_length.
Qed.

(* ---------- the repaired DestinationTask.Do returns nil only when every record was confirmed ---------- *)

Lemma acks_match_app a1 : forall a2 ps,
  acks_match a1 ps = true -> acks_match a2 (skipn (length a1) ps) = true -> acks_match (a1 ++ a2) ps = true.
Proof.
  induction a1 as [|[p e] a1 IH]; intros a2 ps H1 H2; simpl in *; auto.
  destruct ps as [|q ps]; [discriminate|]. apply andb_prop in H1. destruct H1 as [E H1].
  rewrite E. simpl. apply IH; auto.
Qed.

(* C09 refusal_leaves_unacked, DestinationTask half (repaired tree): if Do returns without error,
   the acks it received - all of them, in order - match the positions of the records it wrote one
   by one, and there are at least as many acks as records.  (On the shipped tree this is refuted by
   empty replies: Findings.s3_acks_unconfirmed.) *)
Theorem dest_loop_confirmed c d ps : fx_emptyack (c_fix c) = true ->
  forall n b k w b' all w',
    dest_loop c d b ps k n w = (Ok (b', all), w') ->
    acks_match all (skipn k ps) = true /\ length ps <= k + length all.
Proof.
  intros Hfx. induction n as [|n IH]; intros b k w b' all w' H; simpl in H; rewrite Hfx in H; cbn [andb] in H.
  - destruct (k <? length ps) eqn:E; [inversion H|]. unfold ret in H. inversion H; subst.
    apply Nat.ltb_ge in E. split; [reflexivity|simpl; lia].
  - mbind H r w1 H1. destruct r as [acks|]; [|inversion H].
    destruct (length acks =? 0); [inversion H|].
    destruct (acks_match acks (skipn k ps)) eqn:Em; [|inversion H].
    mbind H b1 w2 H2.
    destruct (length ps <=? k + length acks) eqn:El.
    + unfold ret in H. inversion H; subst. apply Nat.leb_le in El. auto.
    + mbind H t w3 H3. destruct t as [b2 more]. unfold ret in H. inversion H; subst.
      destruct (IH _ _ _ _ _ _ H3) as [M L]. split.
      * apply acks_match_app; auto. now rewrite skipn_skipn', Nat.add_comm.
      * rewrite app_length. lia.
Qed.

(* ---------- the repaired Batch.Nack never changes which records are filtered ---------- *)

Definition fpat (st : list status) : list bool := map is_filter st.

Lemma upd_keeps_fpat st k (g : status -> status) st' s :
  upd_chk st k g s = Ok st' -> (forall x, nth_error st k = Some x -> is_filter (g x) = is_filter x) ->
  fpat st' = fpat st.
Proof.
  intros H Hg. apply upd_chk_ok in H. destruct H as [a [Ha ->]]. unfold fpat.
  destruct (list_split_at _ _ _ Ha) as [E _].
  remember (firstn k st) as A. remember (skipn (S k) st) as B. rewrite E.
  rewrite !map_app. simpl. now rewrite (Hg _ Ha).
Qed.

Lemma set_status_range_skip_fpat s : is_filter s = false ->
  forall n st k st', set_status_range_skip st s k n = Ok st' -> fpat st' = fpat st.
Proof.
  intros Hs. induction n as [|n IH]; intros st k st' H; simpl in H.
  - inversion H; subst; auto.
  - bind_inv H x Hx. bind_inv H st1 Hu. apply nth_chk_ok in Hx. apply IH in H. rewrite H.
    destruct (is_filter x) eqn:Ex.
    + inversion Hu; subst; auto.
    + eapply upd_keeps_fpat; eauto. intros y Hy. rewrite Hx in Hy. inversion Hy; subst. now rewrite Ex.
Qed.

Lemma nth_fpat st x s : nth_error st x = Some s -> nth_error (fpat st) x = Some (is_filter s).
Proof. intros H. unfold fpat. now rewrite nth_error_map, H. Qed.

Lemma set_flags_err_fpat b a : forall errs st i st',
  set_flags_err true b a FNack st i errs = Ok st' ->
  (forall j x, phys a j = Ok x -> nth_error (fpat st) x <> Some true) ->
  fpat st' = fpat st.
Proof.
  induction errs as [|e errs IH]; intros st i st' H Ha; cbn [set_flags_err] in H.
  - inversion H; subst; auto.
  - bind_inv H idx Hidx. bind_inv H st1 Hu. bind_inv H st2 Hs.
    assert (F1 : fpat st1 = fpat st).
    { eapply upd_keeps_fpat; eauto. intros x Hx. pose proof (Ha _ _ Hidx) as Hf.
      rewrite (nth_fpat _ _ _ Hx) in Hf. simpl. destruct (is_filter x); [congruence|reflexivity]. }
    assert (F2 : fpat st2 = fpat st1).
    { match type of Hs with (if ?c then _ else _) = _ => destruct c end; [|inversion Hs; subst; auto].
      bind_inv Hs p Hp. match type of Hs with (if ?c then _ else _) = _ => destruct c end; [|inversion Hs; subst; auto].
      bind_inv Hs ft Hft. destruct ft as [from to]. eapply set_status_range_skip_fpat; [|exact Hs]. reflexivity. }
    apply IH in H.
    + rewrite H, F2, F1. reflexivity.
    + intros j x Hj. rewrite F2, F1. eauto.
Qed.

Lemma idx_active_nonfilter st : forall i0 x, In x (idx_active st i0) ->
  exists s, nth_error st (x - i0) = Some s /\ is_filter s = false /\ i0 <= x.
Proof.
  induction st as [|s st IH]; intros i0 x H; simpl in H; [contradiction|].
  destruct (is_filter s) eqn:E.
  - destruct (IH _ _ H) as [s' [A [B C]]]. exists s'. replace (x - i0) with (S (x - S i0)) by lia. simpl. repeat split; auto. lia.
  - destruct H as [<-|H].
    + exists s. rewrite Nat.sub_diag. simpl. auto.
    + destruct (IH _ _ H) as [s' [A [B C]]]. exists s'. replace (x - i0) with (S (x - S i0)) by lia. simpl. repeat split; auto. lia.
Qed.

Lemma idx_active_fpat st st' : fpat st' = fpat st -> forall i, idx_active st' i = idx_active st i.
Proof.
  revert st'. induction st as [|s st IH]; intros [|s' st'] H i; simpl in *; try discriminate; auto.
  inversion H. rewrite H1. rewrite (IH _ H2). reflexivity.
Qed.

(* C08 (repaired tree), the positive form of the finding "a nack un-filters a filtered piece":
   Batch.Nack - however far it spreads over a split run - leaves the set of filtered records
   exactly as it was, so the active-record indices of the following ack chunks do not move *)
Theorem batch_nack_keeps_filters b i errs b' :
  filterCount b = count_filter (statuses b) ->
  batch_nack true b i errs = Ok b' ->
  fpat (statuses b') = fpat (statuses b) /\ idx_active (statuses b') 0 = idx_active (statuses b) 0 /\
  filterCount b' = count_filter (statuses b').
Proof.
  intros Hfc H. unfold batch_nack in H. bind_inv H a Ha. bind_inv H st Hs. inversion H; subst b'.
  cbn [statuses filterCount set_tainted set_statuses].
  assert (F : fpat st = fpat (statuses b)).
  { eapply set_flags_err_fpat; [exact Hs|]. intros j x Hj Hn. unfold active_idx in Ha.
    unfold fpat in Hn. rewrite nth_error_map in Hn.
    destruct (nth_error (statuses b) x) as [s|] eqn:Es; [|discriminate]. inversion Hn as [Ef].
    destruct (filterCount b =? 0) eqn:E0.
    - apply Nat.eqb_eq in E0. rewrite E0 in Hfc. apply nth_error_In in Es. unfold count_filter in Hfc.
      assert (In s (filter is_filter (statuses b))) by (apply filter_In; auto).
      destruct (filter is_filter (statuses b)); [contradiction|discriminate].
    - destruct (length (records b) <? filterCount b); [discriminate|]. inversion Ha; subst a.
      simpl in Hj. apply nth_chk_ok in Hj. apply nth_error_In in Hj.
      destruct (idx_active_nonfilter _ _ _ Hj) as [s' [A [B _]]]. rewrite Nat.sub_0_r in A.
      rewrite Es in A. inversion A; subst. congruence. }
  split; [exact F|]. split; [now apply idx_active_fpat|].
  rewrite Hfc. unfold count_filter. clear - F. revert st F. induction (statuses b) as [|s l IH]; intros [|s' st] F; simpl in *; try discriminate; auto.
  inversion F. rewrite H0. destruct (is_filter s); simpl; auto.
Qed.
