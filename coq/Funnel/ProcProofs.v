(* C09 no_panic_processor_replies for ProcessorTask.Do (arch-v2): for every well-formed batch
   (also one that already holds pieces of split records, filtered records, nacked runs) ANY result
   vector no longer than the number of active records - any mix of single, filter, error,
   multi(0), multi(1), multi(n) and nil (retry) entries - is marked without a panic.
   The proof is a counting argument: while the results are applied from the last to the first,
   with f results still to go, (1) at least f records are active and (2) filterCount + f does not
   exceed the number of records; neither needs to know WHICH record an index resolves to. *)
From Coq Require Import Permutation.
From Verif Require Import Funnel.Tasks Funnel.BatchProofs Funnel.DestProofs.

(* ---------- active indices ---------- *)

Lemma idx_active_app st1 st2 i :
  idx_active (st1 ++ st2) i = idx_active st1 i ++ idx_active st2 (i + length st1).
Proof.
  revert i. induction st1 as [|s st1 IH]; intros i; simpl.
  - now rewrite Nat.add_0_r.
  - rewrite IH. replace (S i + length st1) with (i + S (length st1)) by lia.
    destruct (is_filter s); reflexivity.
Qed.

Lemma idx_active_shift st i : idx_active st i = map (fun x => x + i) (idx_active st 0).
Proof.
  revert i. induction st as [|s st IH]; intros i; simpl; auto.
  rewrite (IH (S i)), (IH 1).
  destruct (is_filter s); simpl; rewrite map_map; [|f_equal]; apply map_ext; intros; lia.
Qed.

Lemma nf_cons s st : nf (s :: st) = (if is_filter s then 0 else 1) + nf st.
Proof. unfold nf. simpl. destruct (is_filter s); simpl; rewrite (idx_active_length st 1 0); reflexivity. Qed.

Lemma nf_count st : nf st + count_filter st = length st.
Proof.
  induction st as [|s st IH]; [reflexivity|]. rewrite nf_cons. unfold count_filter in *. simpl.
  destruct (is_filter s); simpl; lia.
Qed.

(* the k-th active record: where it is *)
Lemma active_split st : forall k, k < nf st ->
  exists pre s post, st = pre ++ s :: post /\ nf pre = k /\ is_filter s = false /\
                     nth_error (idx_active st 0) k = Some (length pre).
Proof.
  induction st as [|s0 st IH]; intros k Hk; [unfold nf in Hk; simpl in Hk; lia|].
  rewrite nf_cons in Hk. destruct (is_filter s0) eqn:E.
  - destruct (IH k ltac:(simpl in Hk; lia)) as [pre [s [post [E1 [E2 [E3 E4]]]]]].
    exists (s0 :: pre), s, post. repeat split; auto.
    + now rewrite E1.
    + rewrite nf_cons, E. simpl. exact E2.
    + simpl. rewrite E. rewrite idx_active_shift, nth_error_map, E4. simpl. f_equal. lia.
  - destruct k as [|k].
    + exists [], s0, st. repeat split; auto. simpl. now rewrite E.
    + destruct (IH k ltac:(simpl in Hk; lia)) as [pre [s [post [E1 [E2 [E3 E4]]]]]].
      exists (s0 :: pre), s, post. repeat split; auto.
      * now rewrite E1.
      * rewrite nf_cons, E. simpl. now rewrite E2.
      * simpl. rewrite E. simpl. rewrite idx_active_shift, nth_error_map, E4. simpl. f_equal. lia.
Qed.

Lemma nf_firstn_active pre s post :
  firstn (nf pre) (idx_active (pre ++ s :: post) 0) = idx_active pre 0.
Proof.
  rewrite idx_active_app. unfold nf. rewrite firstn_app, firstn_all, Nat.sub_diag. simpl. now rewrite app_nil_r.
Qed.

Lemma idx_active_all st : count_filter st = 0 -> idx_active st 0 = seq 0 (length st).
Proof.
  intros H. generalize 0. induction st as [|s st IH]; intros i; simpl; auto.
  unfold count_filter in *. simpl in H. destruct (is_filter s); [simpl in H; lia|]. f_equal. apply IH. exact H.
Qed.

(* resolving an active index: what activeRecordIndices()[k] is *)
Lemma phys_active b k :
  filterCount b = count_filter (statuses b) -> length (statuses b) = length (records b) ->
  k < nf (statuses b) ->
  exists a x, active_idx b = Ok a /\ phys a k = Ok x /\ nth_error (idx_active (statuses b) 0) k = Some x /\
              x < length (statuses b).
Proof.
  intros Hfc Hl Hk. pose proof (nf_count (statuses b)) as Hc.
  destruct (active_split _ _ Hk) as [pre [s [post [E1 [E2 [E3 E4]]]]]].
  assert (Hx : length pre < length (statuses b)) by (rewrite E1, app_length; simpl; lia).
  unfold active_idx. destruct (filterCount b =? 0) eqn:E0.
  - apply Nat.eqb_eq in E0. exists None, k. rewrite E0 in Hfc. symmetry in Hfc.
    rewrite (idx_active_all _ Hfc) in E4 |- *.
    assert (k < length (statuses b)) by lia.
    repeat split; auto. rewrite nth_error_nth' with (d := 0) by (rewrite seq_length; lia).
    now rewrite seq_nth by lia.
  - destruct (length (records b) <? filterCount b) eqn:E1'; [apply Nat.ltb_lt in E1'; lia|].
    exists (Some (idx_active (statuses b) 0)), (length pre). repeat split; auto.
    simpl. unfold nth_chk. now rewrite E4.
Qed.

(* idx_active is strictly increasing *)
Lemma idx_active_lt st : forall i j1 j2 x1 x2,
  j1 < j2 -> nth_error (idx_active st i) j1 = Some x1 -> nth_error (idx_active st i) j2 = Some x2 -> x1 < x2.
Proof.
  induction st as [|s st IH]; intros i j1 j2 x1 x2 Hj H1 H2; simpl in *; [destruct j1; discriminate|].
  destruct (is_filter s).
  - eapply IH; eauto.
  - destruct j1 as [|j1]; destruct j2 as [|j2]; try lia; simpl in *.
    + inversion H1; subst. apply nth_error_In in H2. apply idx_active_bound in H2. lia.
    + eapply IH; [|eauto|eauto]. lia.
Qed.

Lemma nth_idx_active_bound st k x : nth_error (idx_active st 0) k = Some x -> x < length st.
Proof. intros H. apply nth_error_In in H. apply idx_active_bound in H. lia. Qed.

(* ---------- the counting invariant ---------- *)

Record Q (b : batch) (h : heap) (f : nat) : Prop := mkQ {
  q_wf : WF b h;
  q_act : f <= nf (statuses b);
  q_fc : filterCount b + f <= length (statuses b) }.

Lemma Q_lens b h f : Q b h f -> lens2 b /\ filterCount b <= length (records b).
Proof.
  intros [[[L1 [L2 _]] _ _] _ Hfc]. split; [split; auto|]. lia.
Qed.

(* resolving an active index below f never panics *)
Lemma Q_phys b h f k :
  Q b h f -> k < f ->
  exists a x, active_idx b = Ok a /\ phys a k = Ok x /\ x < length (statuses b) /\
              (forall a', a = Some a' -> a' = idx_active (statuses b) 0).
Proof.
  intros [[[L1 [L2 _]] _ _] Hact Hfc] Hk. unfold active_idx.
  pose proof (nf_count (statuses b)) as Hc.
  destruct (filterCount b =? 0) eqn:E0.
  - exists None, k. repeat split; auto; [lia|discriminate].
  - destruct (length (records b) <? filterCount b) eqn:E1; [apply Nat.ltb_lt in E1; lia|].
    destruct (nth_error (idx_active (statuses b) 0) k) as [x|] eqn:E.
    + exists (Some (idx_active (statuses b) 0)), x. repeat split; auto.
      * simpl. unfold nth_chk. now rewrite E.
      * eapply nth_idx_active_bound; eauto.
      * intros a' Ha. now inversion Ha.
    + apply nth_error_None in E. unfold nf in Hact. lia.
Qed.

(* how one status update moves nf *)
Lemma nf_upd st x (g : status -> status) st' s :
  upd_chk st x g s = Ok st' ->
  exists a, nth_error st x = Some a /\
            nf st' + (if is_filter (g a) then 1 else 0) = nf st + (if is_filter a then 1 else 0).
Proof.
  intros H. apply upd_chk_ok in H. destruct H as [a [Ha ->]]. exists a. split; auto.
  destruct (list_split_at _ _ _ Ha) as [E _].
  remember (firstn x st) as A. remember (skipn (S x) st) as B. rewrite E.
  change (g a :: B) with ([g a] ++ B). change (a :: B) with ([a] ++ B). rewrite !nf_app.
  unfold nf at 2 5. simpl. destruct (is_filter (g a)), (is_filter a); simpl; lia.
Qed.

(* set_flags over active indices [k, k+n), all below the number of active records *)
Lemma set_flags_ok a fl : forall n st k,
  (forall j, k <= j < k + n -> exists x, phys a j = Ok x /\ x < length st) ->
  exists st', set_flags st a fl k n = Ok st' /\ length st' = length st /\
              nf st <= nf st' + n /\ (fl <> FFilter -> nf st <= nf st').
Proof.
  induction n as [|n IH]; intros st k H; simpl.
  - exists st. repeat split; auto; lia.
  - destruct (H k ltac:(lia)) as [x [Ex Hx]]. rewrite Ex. cbn [rbind].
    destruct (upd_chk_lt st x (fun s => (fl, snd s)) SStatusIdx Hx) as [st1 [E1 L1]]. rewrite E1. cbn [rbind].
    destruct (nf_upd _ _ _ _ _ E1) as [s0 [Hs0 Hn]]. simpl in Hn.
    destruct (IH st1 (S k)) as [st' [E' [L' [N' M']]]].
    { intros j Hj. destruct (H j ltac:(lia)) as [y [Ey Hy]]. exists y. split; auto. lia. }
    exists st'. repeat split; auto; try lia.
    + unfold is_filter in Hn at 1. simpl in Hn. destruct (flag_eqb fl FFilter), (is_filter s0); lia.
    + intros Hfl. specialize (M' Hfl). unfold is_filter in Hn at 1. simpl in Hn.
      destruct fl; try congruence; simpl in Hn; destruct (is_filter s0); lia.
Qed.

(* ---------- the operations under Q ---------- *)

Lemma Q_phys_range b h f k n :
  Q b h f -> k + n <= f ->
  exists a, active_idx b = Ok a /\
            (forall j, k <= j < k + n -> exists x, phys a j = Ok x /\ x < length (statuses b)) /\
            (forall a', a = Some a' -> a' = idx_active (statuses b) 0).
Proof.
  intros HQ Hk. destruct (Q_lens _ _ _ HQ) as [[L1 L2] Hfc].
  assert (Ha : exists a, active_idx b = Ok a /\ (forall a', a = Some a' -> a' = idx_active (statuses b) 0)).
  { unfold active_idx. destruct (filterCount b =? 0); [exists None; split; auto; discriminate|].
    destruct (length (records b) <? filterCount b) eqn:E; [apply Nat.ltb_lt in E; lia|].
    eexists; split; [reflexivity|]. intros a' Ha'. now inversion Ha'. }
  destruct Ha as [a [Ea Hsome]]. exists a. split; auto. split; auto.
  intros j Hj. destruct (Q_phys b h f j HQ ltac:(lia)) as [a2 [x [E2 [Ex [Hx _]]]]].
  rewrite Ea in E2. inversion E2; subst a2. eauto.
Qed.

Lemma set_flag_range_Q b h f f' fl :
  Q b h f -> f' < f -> fl <> FNack ->
  exists b', set_flag_noerr b fl f' (Some f) = Ok b' /\ same_shape b b' /\
             length (statuses b') = length (statuses b) /\ filterCount b' = filterCount b /\
             nf (statuses b) <= nf (statuses b') + (f - f') /\
             (fl <> FFilter -> nf (statuses b) <= nf (statuses b')) /\
             nack_has_err (statuses b').
Proof.
  intros HQ Hf Hfl. destruct (Q_phys_range b h f f' (f - f') HQ ltac:(lia)) as [a [Ea [Hr _]]].
  unfold set_flag_noerr. rewrite Ea. cbn [rbind].
  destruct (f <=? f') eqn:E; [apply Nat.leb_le in E; lia|].
  destruct (set_flags_ok a fl (f - f') (statuses b) f' Hr) as [st' [Es [Ls [N1 N2]]]].
  rewrite Es. cbn [rbind]. eexists. split; [reflexivity|].
  unfold same_shape. cbn. repeat split; auto.
  eapply set_flags_nack; eauto. apply HQ.
Qed.

Lemma Q_of_same_shape b b' h f :
  WF b h -> same_shape b b' -> length (statuses b') = length (statuses b) -> nack_has_err (statuses b') ->
  f <= nf (statuses b') -> filterCount b' + f <= length (statuses b') -> Q b' h f.
Proof.
  intros W S L N H1 H2. constructor; auto. eapply same_shape_WF; eauto.
Qed.

Lemma batch_retry_Q b h f f' :
  Q b h f -> f' < f -> exists b', batch_retry b f' (Some f) = Ok b' /\ Q b' h f'.
Proof.
  intros HQ Hf. destruct (set_flag_range_Q b h f f' FRetry HQ Hf ltac:(discriminate))
    as [b1 [E [S [L [F [_ [N Nk]]]]]]].
  unfold batch_retry. rewrite E. cbn [rbind]. eexists. split; [reflexivity|].
  specialize (N ltac:(discriminate)). destruct HQ as [W Ha Hc].
  apply (Q_of_same_shape b); auto.
  all: try (destruct S as [A [B [C D]]]; unfold same_shape; cbn; repeat split; auto; fail).
  all: cbn; unfold nf in *; try lia; auto.
Qed.

Lemma batch_filter_range_Q b h f f' :
  Q b h f -> f' < f -> exists b', batch_filter b f' (Some f) = Ok b' /\ Q b' h f'.
Proof.
  intros HQ Hf. destruct (set_flag_range_Q b h f f' FFilter HQ Hf ltac:(discriminate))
    as [b1 [E [S [L [F [N [_ Nk]]]]]]].
  unfold batch_filter. rewrite E. cbn [rbind]. eexists. split; [reflexivity|].
  destruct HQ as [W Ha Hc].
  apply (Q_of_same_shape b); auto.
  all: try (destruct S as [A [B [C D]]]; unfold same_shape; cbn; repeat split; auto; fail).
  all: cbn; unfold nf in *; try lia; auto.
Qed.

Lemma batch_filter_single_Q b h k :
  Q b h (S k) -> exists b', batch_filter b k None = Ok b' /\ Q b' h k.
Proof.
  intros HQ. destruct (Q_phys_range b h (S k) k 1 HQ ltac:(lia)) as [a [Ea [Hr _]]].
  unfold batch_filter, set_flag_noerr. rewrite Ea. cbn [rbind].
  destruct (set_flags_ok a FFilter 1 (statuses b) k Hr) as [st' [Es [Ls [N1 N2]]]].
  rewrite Es. cbn [rbind]. eexists. split; [reflexivity|].
  destruct HQ as [W Ha Hc].
  apply (Q_of_same_shape b); auto.
  all: try (unfold same_shape; cbn; repeat split; auto; fail).
  all: try (cbn; eapply set_flags_nack; eauto; [discriminate|apply W]; fail).
  all: cbn; unfold nf in *; try lia; auto.
Qed.

Lemma set_flags_err_ok fx b a : forall errs st i,
  length st = length (positions b) ->
  (forall j, i <= j < i + length errs -> exists x, phys a j = Ok x /\ x < length st) ->
  exists st', set_flags_err fx b a FNack st i errs = Ok st' /\ length st' = length st /\ nf st <= nf st'.
Proof.
  induction errs as [|e errs IH]; intros st i Lp H; cbn [set_flags_err].
  - exists st. repeat split; auto.
  - destruct (H i ltac:(simpl; lia)) as [x [Ex Hx]]. rewrite Ex. cbn [rbind].
    destruct (upd_chk_lt st x (fun _ => (FNack, Some e)) SStatusIdx Hx) as [st1 [E1 L1]]. rewrite E1. cbn [rbind].
    assert (N1 : nf st <= nf st1) by (eapply nf_upd_nack; eauto).
    assert (X : exists st2, (if negb (length (splitRecords b) =? 0) && flag_eqb FNack FNack
                then p <- nth_chk (positions b) x SPositionsIdx ;;
                     (if pos_nil p || match sr_get (skey p) (splitRecords b) with Some _ => true | None => false end
                      then ' (from, to) <- find_split_record (positions b) x ;;
                           (if fx then set_status_range_skip st1 (FNack, Some e) from (S to - from)
                            else set_status_range st1 (FNack, Some e) from (S to - from))
                      else Ok st1)
                else Ok st1) = Ok st2 /\ length st2 = length st1 /\ nf st1 <= nf st2).
    { destruct (negb (length (splitRecords b) =? 0) && flag_eqb FNack FNack); [|eauto].
      destruct (nth_chk_lt (positions b) x SPositionsIdx ltac:(lia)) as [p ->]. cbn [rbind].
      destruct (pos_nil p || _); [|eauto].
      destruct (find_split_record_ok (positions b) x ltac:(lia)) as [from [to [-> [A [B C]]]]].
      cbn [rbind]. destruct fx; [apply set_status_range_skip_nack|apply set_status_range_nack]; lia. }
    destruct X as [st2 [-> [L2 N2]]]. cbn [rbind].
    destruct (IH st2 (S i)) as [st' [E' [L' N']]]; [lia| |].
    { intros j Hj. destruct (H j ltac:(simpl; lia)) as [y [Ey Hy]]. exists y. split; auto. lia. }
    exists st'. repeat split; auto; lia.
Qed.

Lemma batch_nack_Q fx b h f f' errs :
  Q b h f -> f' + length errs <= f -> exists b', batch_nack fx b f' errs = Ok b' /\ Q b' h f'.
Proof.
  intros HQ Hf. destruct (Q_phys_range b h f f' (length errs) HQ Hf) as [a [Ea [Hr _]]].
  pose proof HQ as [[[L1 [L2 _]] _ _] Ha Hc].
  unfold batch_nack. rewrite Ea. cbn [rbind].
  destruct (set_flags_err_ok fx b a errs (statuses b) f' ltac:(lia) Hr) as [st' [Es [Ls N]]].
  rewrite Es. cbn [rbind]. eexists. split; [reflexivity|].
  assert (E : batch_nack fx b f' errs = Ok (set_tainted (set_statuses b st') true)).
  { unfold batch_nack. rewrite Ea. cbn [rbind]. rewrite Es. reflexivity. }
  constructor.
  - eapply batch_nack_WF; eauto. apply HQ.
  - cbn. unfold nf in *. lia.
  - cbn. lia.
Qed.

(* ---------- SetRecords ---------- *)

Lemma find_to_ok a from aFrom : forall fuel maxT minF,
  minF <= length a -> from <= maxT ->
  exists to, find_to a from aFrom maxT minF fuel = Ok to /\ maxT <= to /\ (to < minF \/ to = maxT).
Proof.
  induction fuel as [|fu IH]; intros maxT minF H1 H2; cbn [find_to].
  - exists maxT. repeat split; auto.
  - destruct (maxT + 1 <? minF) eqn:E; [|exists maxT; repeat split; auto].
    apply Nat.ltb_lt in E.
    assert (M1 : (maxT + minF) / 2 < minF) by (apply Nat.div_lt_upper_bound; lia).
    assert (M2 : maxT <= (maxT + minF) / 2) by (apply Nat.div_le_lower_bound; lia).
    destruct (nth_chk_lt a ((maxT + minF) / 2) SActiveIdx ltac:(lia)) as [am ->]. cbn [rbind].
    destruct (am + from =? (maxT + minF) / 2 + aFrom).
    + destruct (IH ((maxT + minF) / 2) minF H1 ltac:(lia)) as [to [Et [A B]]]. exists to. repeat split; auto; lia.
    + destruct (IH maxT ((maxT + minF) / 2) ltac:(lia) H2) as [to [Et [A B]]]. exists to. repeat split; auto. lia.
Qed.

Lemma set_recs_loop_no_panic a L :
  (forall j1 j2 x1 x2, j1 <= j2 -> nth_error a j1 = Some x1 -> nth_error a j2 = Some x2 -> x1 <= x2) ->
  (forall j x, nth_error a j = Some x -> x < L) ->
  forall fuel recs from rs,
    from + length recs <= length a -> length rs = L ->
    forall s, set_recs_loop a rs from recs fuel <> Panic s.
Proof.
  intros Hs Hb. induction fuel as [|fu IH]; intros recs from rs H1 H2 s; destruct recs as [|r0 recs];
    cbn [set_recs_loop]; try discriminate.
  cbn [length] in *.
  destruct (nth_chk_lt a from SActiveIdx ltac:(lia)) as [aFrom EaF]. rewrite EaF. cbn [rbind].
  destruct (find_to_ok a from aFrom (S (length recs)) from (from + S (length recs)) ltac:(lia) ltac:(lia))
    as [to [Et [T1 T2]]].
  rewrite Et. cbn [rbind].
  assert (Hto : to < from + S (length recs)) by lia.
  destruct (nth_chk_lt a to SActiveIdx ltac:(lia)) as [aTo EaT]. rewrite EaT. cbn [rbind].
  apply nth_chk_ok in EaF. apply nth_chk_ok in EaT.
  pose proof (Hs _ _ _ _ T1 EaF EaT) as Hle. pose proof (Hb _ _ EaT) as Hlt.
  destruct ((aFrom <=? aTo + 1) && (aTo + 1 <=? length rs) && (to - from + 1 <=? S (length recs))) eqn:E.
  - apply IH.
    + rewrite skipn_length. cbn [length]. lia.
    + rewrite !app_length, copy_into_length, !firstn_length, !skipn_length. lia.
  - exfalso. apply andb_false_iff in E. destruct E as [E|E].
    + apply andb_false_iff in E. destruct E as [E|E]; apply Nat.leb_gt in E; lia.
    + apply Nat.leb_gt in E. lia.
Qed.

Lemma batch_set_records_Q b h f k recs :
  Q b h f -> k + length recs <= f ->
  (forall s, batch_set_records b k recs <> Panic s) /\
  (forall b', batch_set_records b k recs = Ok b' -> Q b' h f).
Proof.
  intros HQ Hk. destruct (Q_phys_range b h f k (length recs) HQ Hk) as [a [Ea [Hr Hsome]]].
  pose proof HQ as [[[L1 [L2 _]] _ _] Ha Hc].
  split.
  - intros s. unfold batch_set_records. rewrite Ea. cbn [rbind]. destruct a as [a|].
    + specialize (Hsome _ eq_refl). subst a.
      pose proof (set_recs_loop_no_panic (idx_active (statuses b) 0) (length (records b))) as NP.
      destruct (set_recs_loop (idx_active (statuses b) 0) (records b) k recs (length recs)) eqn:E; try discriminate.
      exfalso. eapply NP; eauto.
      * intros j1 j2 x1 x2 Hj E1 E2. destruct (Nat.eq_dec j1 j2) as [->|]; [rewrite E1 in E2; inversion E2; lia|].
        assert (Hlt' : j1 < j2) by lia. pose proof (idx_active_lt (statuses b) 0 j1 j2 x1 x2 Hlt' E1 E2). lia.
      * intros j x Hx. apply nth_idx_active_bound in Hx. lia.
      * unfold nf in Ha. lia.
    + pose proof (nf_count (statuses b)). destruct (k <=? length (records b)) eqn:E; [discriminate|].
      apply Nat.leb_gt in E. lia.
  - intros b' E. pose proof (batch_set_records_spec _ _ _ _ E) as [S [Es [Ef Et]]].
    constructor.
    + eapply batch_set_records_WF; eauto. apply HQ.
    + now rewrite Es.
    + rewrite Es, Ef. exact Hc.
Qed.

(* ---------- SplitRecord ---------- *)

Lemma nf_repeat_ack n : nf (repeat (FAck, None) n) = n.
Proof. induction n; [reflexivity|]. simpl repeat. rewrite nf_cons. simpl. now rewrite IHn. Qed.

Lemma shape_nth b i x p :
  lens_ok b -> nth_error (rl_of b) i = Some x -> nth_error (positions b) i = Some p ->
  nth_error (shape_of b) i = Some (x, p).
Proof. intros _ H1 H2. unfold shape_of. now apply combine_nth_error. Qed.

Lemma upd_at_app' {A} (l : list A) x f : upd (l ++ [x]) (length l) f = Some (l ++ [f x]).
Proof. induction l as [|a l IH]; simpl; auto. now rewrite IH. Qed.

Lemma batch_split_record_Q b h k x y recs :
  Q b h (S k) ->
  exists b' h', batch_split_record b h k (x :: y :: recs) = Ok (b', h') /\ Q b' h' k.
Proof.
  intros HQ. destruct (Q_phys b h (S k) k HQ ltac:(lia)) as [a [i [Ea [Ei [Hi _]]]]].
  pose proof HQ as [[[L1 [L2 [rl [Hrl L3]]]] Wsh Wn] Ha Hc].
  assert (Hne : exists b' h', batch_split_record b h k (x :: y :: recs) = Ok (b', h')).
  { unfold batch_split_record. rewrite Ea. cbn [rbind]. rewrite Ei. cbn [rbind].
    destruct (nth_chk_lt (positions b) i SPositionsIdx ltac:(lia)) as [origPos Ep]. rewrite Ep. cbn [rbind].
    rewrite Hrl. destruct (nth_chk_lt rl i SRunsIdx ltac:(lia)) as [run0 Er]. rewrite Er. cbn [rbind].
    apply nth_chk_ok in Ep. apply nth_chk_ok in Er.
    assert (Hsh : nth_error (shape_of b) i = Some (run0, origPos)).
    { apply shape_nth; auto. { repeat split; eauto. } unfold rl_of. now rewrite Hrl. }
    pose proof (Forall_nth_error _ _ _ _ Wsh Hsh) as Hok. unfold entry_ok in Hok. simpl in Hok.
    destruct run0 as [r|].
    - cbn [rbind]. unfold run_add_total.
      destruct (upd_chk_lt h r (fun x0 => mkRun (r_origPos x0) (r_origRec x0) (r_total x0 + length (y :: recs)) (r_term x0)
                                             (r_nacked x0) (r_nackErr x0) (r_nackTask x0) (r_released x0)) SHeapIdx Hok)
        as [h2 [Eh _]].
      rewrite Eh. cbn [rbind].
      destruct (i + 1 <=? length (records b)) eqn:E1; [|apply Nat.leb_gt in E1; lia].
      unfold insert_after.
      destruct (i + 1 <=? length (statuses b)) eqn:E2; [|apply Nat.leb_gt in E2; lia].
      destruct (i + 1 <=? length (positions b)) eqn:E3; [|apply Nat.leb_gt in E3; lia].
      cbn [rbind]. rewrite Hrl. cbn [rbind].
      destruct (i + 1 <=? length rl) eqn:E4; [|apply Nat.leb_gt in E4; lia].
      cbn [rbind]. eauto.
    - destruct origPos as [kk|]; [|congruence]. cbn [pos_nil].
      destruct (nth_chk_lt (records b) i SRecordsIdx ltac:(lia)) as [rec0 Erec]. rewrite Erec. cbn [rbind].
      destruct (sr_get (skey (Some kk)) (splitRecords b)) eqn:Eg.
      + destruct (upd_chk_lt rl i (fun _ => Some (length h)) SRunsIdx ltac:(lia)) as [rl' [Erl Lrl]].
        rewrite Erl. cbn [rbind]. unfold run_add_total, upd_chk.
        rewrite upd_at_app'. cbn [rbind]. cbn [records statuses positions runs].
        destruct (i + 1 <=? length (records b)) eqn:E1; [|apply Nat.leb_gt in E1; lia].
        unfold insert_after.
        destruct (i + 1 <=? length (statuses b)) eqn:E2; [|apply Nat.leb_gt in E2; lia].
        destruct (i + 1 <=? length (positions b)) eqn:E3; [|apply Nat.leb_gt in E3; lia].
        cbn [rbind].
        destruct (i + 1 <=? length rl') eqn:E4; [|apply Nat.leb_gt in E4; lia].
        cbn [rbind]. eauto.
      + destruct (upd_chk_lt rl i (fun _ => Some (length h)) SRunsIdx ltac:(lia)) as [rl' [Erl Lrl]].
        rewrite Erl. cbn [rbind]. unfold run_add_total, upd_chk.
        rewrite upd_at_app'. cbn [rbind]. cbn [records statuses positions runs].
        destruct (i + 1 <=? length (records b)) eqn:E1; [|apply Nat.leb_gt in E1; lia].
        unfold insert_after.
        destruct (i + 1 <=? length (statuses b)) eqn:E2; [|apply Nat.leb_gt in E2; lia].
        destruct (i + 1 <=? length (positions b)) eqn:E3; [|apply Nat.leb_gt in E3; lia].
        cbn [rbind].
        destruct (i + 1 <=? length rl') eqn:E4; [|apply Nat.leb_gt in E4; lia].
        cbn [rbind]. eauto. }
  destruct Hne as [b' [h' E]]. exists b', h'. split; auto.
  destruct (batch_split_record_statuses _ _ _ _ _ _ E) as [j [Hj [Est Efc]]].
  assert (Hnf : nf (statuses b') = nf (statuses b) + S (length recs)).
  { rewrite Est. rewrite !nf_app, nf_repeat_ack.
    replace (length (x :: y :: recs) - 1) with (S (length recs)) by (cbn [length]; lia).
    assert (X : nf (statuses b) = nf (firstn (j + 1) (statuses b)) + nf (skipn (j + 1) (statuses b))).
    { rewrite <- nf_app. now rewrite firstn_skipn. }
    lia. }
  constructor.
  - eapply batch_split_record_WF; eauto. apply HQ.
  - lia.
  - rewrite Efc, Est. len_simpl. lia.
Qed.

(* ---------- markBatchRecords ---------- *)

Lemma Q_mono b h f f' : f' <= f -> Q b h f -> Q b h f'.
Proof. intros H [W A C]. constructor; auto; lia. Qed.

Definition np {A} (r : res A) : Prop := forall s, r <> Panic s.

Lemma mark_multi_one from i p b h :
  Q b h (S (from + i)) ->
  np (mark_multi b h from [(i, p)]) /\ (forall b' h', mark_multi b h from [(i, p)] = Ok (b', h') -> Q b' h' (from + i)).
Proof.
  intros HQ1. assert (HQ0 : Q b h (from + i)) by (eapply Q_mono; [|eauto]; lia).
  assert (Hskip : np (Ok (b, h)) /\ (forall b' h', Ok (b, h) = Ok (b', h') -> Q b' h' (from + i))).
  { split; [intros s; discriminate|]. intros b' h' E. inversion E; subst. auto. }
  simpl. destruct p as [r| |e|rs|]; auto.
  destruct rs as [|x [|y rs]].
  - destruct (batch_filter_single_Q b h (from + i) HQ1) as [b1 [E1 Q1]]. rewrite E1. cbn [rbind].
    split; [intros s; discriminate|]. intros b' h' E. inversion E; subst. auto.
  - destruct (batch_set_records_Q b h (S (from + i)) (from + i) [x] HQ1 ltac:(simpl; lia)) as [NP OK].
    destruct (batch_set_records b (from + i) [x]) as [b1| | |] eqn:E1; cbn [rbind].
    + split; [intros s; discriminate|]. intros b' h' E. inversion E; subst.
      eapply Q_mono; [|apply OK; reflexivity]. lia.
    + split; [intros s; discriminate|intros; discriminate].
    + exfalso. eapply NP; eauto.
    + split; [intros s; discriminate|intros; discriminate].
  - destruct (batch_split_record_Q b h (from + i) x y rs HQ1) as [b1 [h1 [E1 Q1]]]. rewrite E1. cbn [rbind].
    split; [intros s; discriminate|]. intros b' h' E. inversion E; subst. auto.
Qed.

Lemma mark_multi_app from l1 : forall l2 b h,
  mark_multi b h from (l1 ++ l2) =
  match mark_multi b h from l1 with
  | Ok (b1, h1) => mark_multi b1 h1 from l2
  | Refused e => Refused e
  | Panic s => Panic s
  | OutOfFuel => OutOfFuel
  end.
Proof.
  induction l1 as [|[i p] l1 IH]; intros l2 b h; simpl; auto.
  destruct p as [r| |e|rs|]; auto. destruct rs as [|x [|y rs]].
  - destruct (batch_filter b (from + i) None); simpl; auto.
  - destruct (batch_set_records b (from + i) [x]); simpl; auto.
  - destruct (batch_split_record b h (from + i) (x :: y :: rs)) as [[b1 h1]| | |]; simpl; auto.
Qed.

Lemma mark_multi_rev from : forall (g : list pr) s b h,
  Q b h (from + s + length g) ->
  np (mark_multi b h from (rev (combine (seq s (length g)) g))) /\
  (forall b' h', mark_multi b h from (rev (combine (seq s (length g)) g)) = Ok (b', h') -> Q b' h' (from + s)).
Proof.
  induction g as [|p g IH]; intros s b h HQ; simpl.
  - rewrite Nat.add_0_r in HQ. split; [intros x; discriminate|]. intros b' h' E. inversion E; subst. auto.
  - rewrite mark_multi_app.
    destruct (IH (S s) b h ltac:(eapply Q_mono; [|exact HQ]; simpl; lia)) as [NP OK].
    destruct (mark_multi b h from (rev (combine (seq (S s) (length g)) g))) as [[b1 h1]| | |] eqn:E.
    + specialize (OK _ _ eq_refl). apply mark_multi_one. eapply Q_mono; [|exact OK]. lia.
    + split; [intros x; discriminate|intros; discriminate].
    + exfalso. eapply NP; eauto.
    + split; [intros x; discriminate|intros; discriminate].
Qed.

Lemma flat_map_le {A B} (f : A -> list B) (l : list A) :
  (forall a, length (f a) <= 1) -> length (flat_map f l) <= length l.
Proof. intros H. induction l as [|a l IH]; simpl; auto. rewrite app_length. specialize (H a). lia. Qed.

(* markBatchRecords on the group [from, from + length g) *)
Lemma mark_group_Q fx b h from g :
  g <> [] -> Q b h (from + length g) ->
  np (mark_group fx b h from g) /\ (forall b' h', mark_group fx b h from g = Ok (b', h') -> Q b' h' from).
Proof.
  intros Hne HQ. unfold mark_group. destruct g as [|p0 g']; [congruence|].
  assert (Hlt : from < from + length (p0 :: g')) by (simpl; lia).
  destruct p0 as [r| |e|rs|].
  - set (recs := flat_map unsingle (PSingle r :: g')).
    assert (Lr : length recs <= length (PSingle r :: g')).
    { apply flat_map_le. intros [| | | |]; simpl; lia. }
    destruct (batch_set_records_Q b h (from + length (PSingle r :: g')) from recs HQ ltac:(lia)) as [NP OK].
    destruct (batch_set_records b from recs) as [b1| | |] eqn:E1; cbn [rbind].
    + split; [intros s; discriminate|]. intros b' h' E. inversion E; subst.
      eapply Q_mono; [|apply OK; reflexivity]. lia.
    + split; [intros s; discriminate|intros; discriminate].
    + exfalso. eapply NP; eauto.
    + split; [intros s; discriminate|intros; discriminate].
  - destruct (batch_filter_range_Q b h _ from HQ Hlt) as [b1 [E1 Q1]]. rewrite E1. cbn [rbind].
    split; [intros s; discriminate|]. intros b' h' E. inversion E; subst. auto.
  - set (errs := flat_map unerr (PError e :: g')).
    assert (Le : length errs <= length (PError e :: g')).
    { apply flat_map_le. intros [| | | |]; simpl; lia. }
    destruct (batch_nack_Q (fx_unfilter fx) b h (from + length (PError e :: g')) from errs HQ ltac:(lia)) as [b1 [E1 Q1]].
    rewrite E1. cbn [rbind]. split; [intros s; discriminate|]. intros b' h' E. inversion E; subst. auto.
  - pose proof (mark_multi_rev from (PMulti rs :: g') 0 b h) as X. rewrite Nat.add_0_r in X. apply X. exact HQ.
  - destruct (batch_retry_Q b h _ from HQ Hlt) as [b1 [E1 Q1]]. rewrite E1. cbn [rbind].
    split; [intros s; discriminate|]. intros b' h' E. inversion E; subst. auto.
Qed.

(* ---------- the groups of ProcessorTask.Do ---------- *)

Inductive chain : list (nat * list pr) -> nat -> nat -> Prop :=
| chain_nil i : chain [] i i
| chain_cons i g gs j : g <> [] -> chain gs (i + length g) j -> chain ((i, g) :: gs) i j.

Lemma groups_chain l : forall i, chain (groups l i) i (i + length l).
Proof.
  induction l as [|x r IH]; intros i; simpl.
  - rewrite Nat.add_0_r. constructor.
  - specialize (IH (S i)). destruct (groups r (S i)) as [|[j g] rest] eqn:E.
    + assert (L0 : length r = 0) by (inversion IH; lia).
      constructor; [discriminate|]. simpl. rewrite L0. replace (i + 1) with (i + 1) by lia. constructor.
    + assert (Ej : j = S i) by (inversion IH; auto). subst j.
      assert (Hg : g <> [] /\ chain rest (S i + length g) (S i + length r)) by (inversion IH; auto).
      destruct Hg as [Hg Hrest]. destruct g as [|y g]; [congruence|].
      destruct (same_type x y).
      * constructor; [discriminate|]. simpl in *.
        replace (i + S (S (length g))) with (S (i + S (length g))) by lia.
        replace (i + S (length r)) with (S (i + length r)) by lia. exact Hrest.
      * constructor; [discriminate|]. simpl. replace (i + 1) with (S i) by lia.
        replace (i + S (length r)) with (S i + length r) by lia. constructor; auto.
Qed.

Lemma mark_groups_app fx gs1 : forall gs2 b h,
  mark_groups fx b h (gs1 ++ gs2) =
  match mark_groups fx b h gs1 with
  | Ok (b1, h1) => mark_groups fx b1 h1 gs2
  | Refused e => Refused e
  | Panic s => Panic s
  | OutOfFuel => OutOfFuel
  end.
Proof.
  induction gs1 as [|[from g] gs1 IH]; intros gs2 b h; simpl; auto.
  destruct (mark_group fx b h from g) as [[b1 h1]| | |]; simpl; auto.
Qed.

Lemma mark_groups_Q fx gs i j : chain gs i j -> forall b h,
  Q b h j ->
  np (mark_groups fx b h (rev gs)) /\ (forall b' h', mark_groups fx b h (rev gs) = Ok (b', h') -> Q b' h' i).
Proof.
  induction 1 as [i|i g gs j Hne Hc IH]; intros b h HQ; simpl.
  - split; [intros s; discriminate|]. intros b' h' E. inversion E; subst. auto.
  - rewrite mark_groups_app. destruct (IH b h HQ) as [NP OK].
    destruct (mark_groups fx b h (rev gs)) as [[b1 h1]| | |] eqn:E.
    + specialize (OK _ _ eq_refl). simpl.
      destruct (mark_group_Q fx b1 h1 i g Hne OK) as [NP1 OK1].
      destruct (mark_group fx b1 h1 i g) as [[b2 h2]| | |] eqn:E2; cbn [rbind].
      * split; [intros s; discriminate|]. intros b' h' E'. inversion E'; subst. apply OK1. reflexivity.
      * split; [intros s; discriminate|intros; discriminate].
      * exfalso. eapply NP1; eauto.
      * split; [intros s; discriminate|intros; discriminate].
    + split; [intros s; discriminate|intros; discriminate].
    + exfalso. eapply NP; eauto.
    + split; [intros s; discriminate|intros; discriminate].
Qed.

(* C09 no_panic_processor_replies (arch-v2 ProcessorTask.Do): a well-formed batch whose filterCount
   is exact, nIn = number of active records handed to the plugin, a result vector of ANY content
   that is not longer than nIn: no panic (shipped and repaired tree) *)
Theorem proc_do_no_panic fx b h nIn out :
  WF b h -> filterCount b = count_filter (statuses b) -> nIn <= nf (statuses b) -> length out <= nIn ->
  np (proc_do fx b h nIn out).
Proof.
  intros W Hfc Hn Hl. unfold proc_do. destruct out as [|o out]; [intros s; discriminate|].
  destruct (_ && _); [intros s; discriminate|].
  set (out' := (o :: out) ++ repeat PNil (nIn - length (o :: out))).
  assert (Lo : length out' = nIn) by (unfold out'; rewrite app_length, repeat_length; lia).
  pose proof (groups_chain out' 0) as C. rewrite Nat.add_0_l, Lo in C.
  assert (HQ : Q b h nIn).
  { constructor; auto. pose proof (nf_count (statuses b)). lia. }
  apply (mark_groups_Q fx _ _ _ C b h HQ).
Qed.

(* the repaired ProcessorTask.Do (more results than records are refused): no hypothesis on the
   result vector at all *)
Theorem proc_do_no_panic_repaired fx b h nIn out :
  fx_more fx = true ->
  WF b h -> filterCount b = count_filter (statuses b) -> nIn <= nf (statuses b) ->
  np (proc_do fx b h nIn out).
Proof.
  intros Hfx W Hfc Hn. destruct (Nat.le_gt_cases (length out) nIn) as [Hl|Hl].
  - apply proc_do_no_panic; auto.
  - unfold proc_do. destruct out as [|o out]; [intros s; discriminate|]. rewrite Hfx.
    destruct (nIn <? length (o :: out)) eqn:E; [intros s; discriminate|]. apply Nat.ltb_ge in E. lia.
Qed.

(* and it keeps the invariant: after the marking the batch is well-formed again *)
Theorem proc_do_Q fx b h nIn out b' h' :
  WF b h -> filterCount b = count_filter (statuses b) -> nIn <= nf (statuses b) -> length out <= nIn ->
  proc_do fx b h nIn out = Ok (b', h') -> WF b' h' /\ filterCount b' <= length (statuses b').
Proof.
  intros W Hfc Hn Hl. unfold proc_do. destruct out as [|o out]; [discriminate|].
  destruct (_ && _); [discriminate|].
  set (out' := (o :: out) ++ repeat PNil (nIn - length (o :: out))).
  assert (Lo : length out' = nIn) by (unfold out'; rewrite app_length, repeat_length; lia).
  pose proof (groups_chain out' 0) as C. rewrite Nat.add_0_l, Lo in C.
  assert (HQ : Q b h nIn).
  { constructor; auto. pose proof (nf_count (statuses b)). lia. }
  intros E. destruct (mark_groups_Q fx _ _ _ C b h HQ) as [_ OK]. destruct (OK _ _ E) as [W' _ C']. split; auto. lia.
Qed.
