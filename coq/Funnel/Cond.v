(* Model of RunnableProcessor.Process (pkg/processor/runnable_processor.go): condition evaluation,
   the call of the plugin on the kept records and the merge of its results with the pass-through
   records, AS WRITTEN.  Slices of the plugin's result are modelled with their capacity (Go checks
   a slice bound against cap, and elements between len and cap of a fresh slice are nil).
   prevIndex starts at -1; the model carries prevIndex + 1. *)
From Verif Require Export Funnel.Tasks.

(* processorCondition.Evaluate on record r for processor p: Some b, or None = evaluation error *)
Definition eval_cond (p : nat) (r : rec) : option bool :=
  match nth p (rcond r) 2 with
  | 0 => Some false
  | 1 => Some true
  | _ => None
  end.

(* the evaluation loop: (kept records, pass-through indexes, error?) ; stops at the first error *)
Fixpoint cond_scan (p : nat) (rs : list rec) (i : nat) : list rec * list nat * bool :=
  match rs with
  | [] => ([], [], false)
  | r :: rs' =>
      match eval_cond p r with
      | None => ([], [], true)
      | Some keep =>
          let '(k, ps, e) := cond_scan p rs' (S i) in
          if keep then (r :: k, ps, e) else (k, i :: ps, e)
      end
  end.

(* out[lo:hi] of a slice with contents out and capacity cap (elements between len and cap are nil) *)
Definition oslice (out : list pr) (cap : nat) (lo hi : nat) : res (list pr) :=
  if (lo <=? hi) && (hi <=? cap)
  then Ok (firstn (hi - lo) (skipn lo (out ++ repeat PNil (cap - length out))))
  else Panic SCondMerge.

(* copy(tmp[lo:hi], src) *)
Definition tmp_copy (tmp : list pr) (lo hi : nat) (src : list pr) : res (list pr) :=
  if (lo <=? hi) && (hi <=? length tmp)
  then Ok (firstn lo tmp ++ copy_into (firstn (hi - lo) (skipn lo tmp)) src ++ skipn hi tmp)
  else Panic SCondMerge.

(* the loop over passthroughRecordIndexes; i = loop counter, pn = prevIndex + 1 (prevIndex starts
   at -1).  The Go index expressions prevIndex-i+1 and index-i are integers; a negative one would be
   a slice-bounds panic, hence the explicit checks before the natural subtraction. *)
Fixpoint merge_loop (records : list rec) (out : list pr) (cap : nat) (tmp : list pr)
         (pass : list nat) (i : nat) (pn : nat) : res (list pr * nat) :=
  match pass with
  | [] => Ok (tmp, pn)
  | index :: pass' =>
      if (pn <? i) || (index <? i) then Panic SCondMerge else
      src <- oslice out cap (pn - i) (index - i) ;;
      tmp1 <- tmp_copy tmp pn index src ;;
      r <- nth_chk records index SCondMerge ;;
      tmp2 <- upd_chk tmp1 index (fun _ => PSingle r) SCondMerge ;;
      merge_loop records out cap tmp2 pass' (i + 1) (index + 1)
  end.

Definition merge (records : list rec) (out : list pr) (cap : nat) (pass : list nat) : res (list pr) :=
  let tmp := repeat PNil (length out + length pass) in
  ' (tmp1, pn) <- merge_loop records out cap tmp pass 0 0 ;;
  (* passthrough[len-1] != len(tmp)-1 *)
  if last pass 0 + 1 =? length tmp1 then Ok tmp1
  else
    (* copy(tmp[prevIndex+1:], outRecs[prevIndex-len(passthrough)+1:]) *)
    if pn <? length pass then Panic SCondMerge
    else
      let lo := pn - length pass in
      if lo <=? length out then tmp_copy tmp1 pn (length tmp1) (skipn lo out)
      else Panic SCondMerge.

(* capacity after append(s, x) for a slice of length n and capacity cap (growslice doubles small
   slices; exact for n <= 12, the harness never goes beyond that) *)
Definition append_cap (n cap : nat) : nat :=
  if n <? cap then cap else if n =? 0 then 1 else 2 * n.

(* RunnableProcessor.Process for processor p *)
Definition process (c : cfg) (p : nat) (records : list rec) : M (list pr) :=
  let spec := nth p (c_procs c) (mkProc false []) in
  if negb (p_cond spec) then
    ' (out, _) <-- call_plugin c p records ;;; ret out
  else
    let '(kept, pass, e) := cond_scan p records 0 in
    r <-- (match kept with
           | [] => ret (Some ([], 0))
           | _ :: _ =>
               ' (out, cap) <-- call_plugin c p kept ;;;
               if length kept <? length out then ret None
               else if fx_cond_pad (c_fix c) && (length out <? length kept) then
                 (* repaired: the skipped kept records get empty (nil) results, so every kept record
                    has a slot in the merge; the capacity after this append is at least the length *)
                 ret (Some (out ++ repeat PNil (length kept - length out), Nat.max cap (length kept)))
               else ret (Some (out, cap))
           end) ;;;
    match r with
    | None => ret [PError EEng]
    | Some (out, cap) =>
        let '(out1, cap1) := if e then (out ++ [PError EEng], append_cap (length out) cap)
                             else (out, cap) in
        if length pass =? length records then ret (map PSingle records)
        else match pass with
             | [] => ret out1
             | _ :: _ => lift (merge records out1 cap1 pass)
             end
    end.
