(* Executable correspondence and property monitors for the C08 / C09 funnel cases.

   chk08 / chk09 return
     bit 0 (1)    the model's pass (events, terminal) differs from the observed one
     bit 1 (2)    the property monitor rejects the observed pass
   and, to say WHICH clause of the monitor failed (used for the finding key only):
     4   a panic or a hang was observed
     8   a source record was acked although neither the destination confirmed all of its
         written pieces nor the DLQ confirmed the record (unconfirmed ack)
     16  the set of acked positions is wrong (not an original position, acked twice, or - for a
         pass that ended without error - not acked at all)
     32  something still happened to a record after its position had been acked
     64  DLQ clause (a record dead-lettered twice, or a piece instead of the original)
     128 a conditional processor was handed a record whose condition is false *)
From Verif Require Import Base.CaseCheck.
From Verif Require Export Funnel.Worker.

Record fcase := mkCase { fc_cfg : cfg; fc_obs : list event * terminal }.

(* ---------- equality of observations ---------- *)

Definition nats_eqb := list_eqb Nat.eqb.
Definition rview_eqb (a b : rview) : bool := nats_eqb (fst a) (fst b) && nats_eqb (snd a) (snd b).
Definition conf_eqb (a b : rview * bool) : bool := rview_eqb (fst a) (fst b) && Bool.eqb (snd a) (snd b).
Definition err_eqb (a b : err) : bool :=
  match a, b with
  | EP p i, EP q j => (p =? q) && nats_eqb i j
  | ED i, ED j => nats_eqb i j
  | EEng, EEng => true
  | _, _ => false
  end.
Definition oerr_eqb (a b : option err) : bool :=
  match a, b with
  | None, None => true
  | Some x, Some y => err_eqb x y
  | _, _ => false
  end.
Definition dlqrec_eqb (a b : dlqrec) : bool :=
  nats_eqb (q_pos a) (q_pos b) && nats_eqb (q_id a) (q_id b) && oerr_eqb (q_err a) (q_err b)
  && (q_task a =? q_task b).

Definition event_eqb (a b : event) : bool :=
  match a, b with
  | EvProc p i k, EvProc q j l => (p =? q) && list_eqb rview_eqb i j && nats_eqb k l
  | EvWrite x, EvWrite y => list_eqb rview_eqb x y
  | EvDAck x, EvDAck y => list_eqb conf_eqb x y
  | EvDlqWrite x, EvDlqWrite y => list_eqb dlqrec_eqb x y
  | EvDlqAck x, EvDlqAck y => list_eqb conf_eqb x y
  | EvSAck x, EvSAck y => list_eqb nats_eqb x y
  | _, _ => false
  end.

Definition ecode_eqb (a b : ecode) : bool :=
  match a, b with
  | CNone, CNone | CEmptyPos, CEmptyPos | CRetry, CRetry | COther, COther => true
  | _, _ => false
  end.

Definition terminal_eqb (a b : terminal) : bool :=
  match a, b with
  | TOk, TOk | TPanic, TPanic | THang, THang | TFuel, TFuel => true
  | TErr f c, TErr g d => Bool.eqb f g && ecode_eqb c d
  | _, _ => false
  end.

Definition obs_eqb (a b : list event * terminal) : bool :=
  list_eqb event_eqb (fst a) (fst b) && terminal_eqb (snd a) (snd b).

(* ---------- monitors over the observed pass ---------- *)

Definition origin (id : list nat) : nat := hd 0 id.

Fixpoint nodup_keys (l : list key) : bool :=
  match l with
  | [] => true
  | k :: r => negb (existsb (key_eqb k) r) && nodup_keys r
  end.

Definition src_keys (c : cfg) : list key := map (fun r => pkey (rpos r)) (c_recs c).

(* the source did its part: record k has id [k], positions are non-empty and distinct *)
Definition wf_source (c : cfg) : bool :=
  forallb (fun k => match k with [] => false | _ => true end) (src_keys c)
  && nodup_keys (src_keys c)
  && list_eqb nats_eqb (map rid (c_recs c)) (map (fun k => [k]) (seq 0 (length (c_recs c)))).

Fixpoint index_of (k : key) (l : list key) (i : nat) : option nat :=
  match l with
  | [] => None
  | x :: r => if key_eqb k x then Some i else index_of k r (S i)
  end.

(* does event e involve a record of origin k (as plugin input, destination write or DLQ write)? *)
Definition mentions (k : nat) (e : event) : bool :=
  match e with
  | EvProc _ ins _ => existsb (fun v => origin (snd v) =? k) ins
  | EvWrite rs => existsb (fun v => origin (snd v) =? k) rs
  | EvDlqWrite rs => existsb (fun q => origin (q_id q) =? k) rs
  | _ => false
  end.

(* a failure was reported for a record of origin k *)
Fixpoint kind_err_at (k : nat) (ins : list rview) (kinds : list nat) : bool :=
  match ins, kinds with
  | v :: ins', kd :: kinds' => ((origin (snd v) =? k) && (kd =? 4)) || kind_err_at k ins' kinds'
  | _, _ => false
  end.

Definition reports_failure (k : nat) (e : event) : bool :=
  match e with
  | EvProc _ ins kinds =>
      (* a result vector longer than the input is refused or truncated as a whole *)
      (length kinds <=? length ins) && kind_err_at k ins kinds
  | EvDAck cf => existsb (fun x => (origin (snd (fst x)) =? k) && negb (snd x)) cf
  | _ => false
  end.

Definition written_of (k : nat) (evs : list event) : list rview :=
  flat_map (fun e => match e with
                     | EvWrite rs => filter (fun v => origin (snd v) =? k) rs
                     | _ => []
                     end) evs.

Definition confirmed_ok (evs : list event) : list rview :=
  flat_map (fun e => match e with
                     | EvDAck cf => map fst (filter (fun x => snd x) cf)
                     | _ => []
                     end) evs.

(* the DLQ was handed a record of origin k and confirmed it *)
Fixpoint dlq_done (k : nat) (evs : list event) : bool :=
  match evs with
  | [] => false
  | EvDlqWrite rs :: r =>
      (existsb (fun q => origin (q_id q) =? k) rs
       && existsb (fun e => match e with
                            | EvDlqAck cf => existsb (fun x => (origin (snd (fst x)) =? k) && snd x) cf
                            | _ => false
                            end) r)
      || dlq_done k r
  | _ :: r => dlq_done k r
  end.

(* may the record of origin k be acked after the events [before]? *)
Definition ack_justified (k : nat) (before : list event) : bool :=
  dlq_done k before
  || (negb (existsb (reports_failure k) before)
      && forallb (fun v => existsb (rview_eqb v) (confirmed_ok before)) (written_of k before)).

(* walk the log; [before] is the prefix (oldest first), [acked] the positions acked so far.
   returns the OR of the violated clause bits *)
Fixpoint walk (c : cfg) (before : list event) (acked : list key) (evs : list event) : nat :=
  match evs with
  | [] => 0
  | e :: r =>
      match e with
      | EvSAck ps =>
          let bits :=
            fold_left
              (fun (acc : nat * list key) (p : key) =>
                 let '(b, seen) := acc in
                 match index_of p (src_keys c) 0 with
                 | None => (Nat.lor b 16, p :: seen)
                 | Some k =>
                     let b1 := if existsb (key_eqb p) seen then Nat.lor b 16 else b in
                     let b2 := if ack_justified k before then b1 else Nat.lor b1 8 in
                     let b3 := if existsb (mentions k) r then Nat.lor b2 32 else b2 in
                     (b3, p :: seen)
                 end)
              ps (0, acked) in
          Nat.lor (fst bits) (walk c (before ++ [e]) (snd bits) r)
      | _ => walk c (before ++ [e]) acked r
      end
  end.

Definition acked_keys (evs : list event) : list key :=
  flat_map (fun e => match e with EvSAck ps => ps | _ => [] end) evs.

Definition dlq_ids (evs : list event) : list (list nat) :=
  flat_map (fun e => match e with EvDlqWrite rs => map q_id rs | _ => [] end) evs.

Fixpoint nodup_nat (l : list nat) : bool :=
  match l with
  | [] => true
  | k :: r => negb (existsb (Nat.eqb k) r) && nodup_nat r
  end.

(* a dead-lettered record is an original: after the origin only the markers 100 / 101 *)
Definition is_original_id (id : list nat) : bool := forallb (fun x => 100 <=? x) (tl id).

Definition dlq_bits (evs : list event) : nat :=
  let ids := dlq_ids evs in
  if nodup_nat (map origin ids) && forallb is_original_id ids then 0 else 64.

Definition complete_bits (c : cfg) (obs : list event * terminal) : nat :=
  match snd obs with
  | TOk => if forallb (fun k => existsb (key_eqb k) (acked_keys (fst obs))) (src_keys c) then 0 else 16
  | _ => 0
  end.

Definition crash_bits (t : terminal) : nat :=
  match t with TPanic | THang | TFuel => 4 | _ => 0 end.

(* a conditional processor only ever sees records whose condition is true *)
Definition cond_bits (c : cfg) (evs : list event) : nat :=
  if forallb (fun e => match e with
                       | EvProc p ins _ =>
                           negb (p_cond (nth p (c_procs c) (mkProc false [])))
                           || forallb (fun v => match nth_error (c_recs c) (origin (snd v)) with
                                                | Some r => match eval_cond p r with Some true => true | _ => false end
                                                | None => true
                                                end) ins
                       | _ => true
                       end) evs
  then 0 else 128.

(* no empty position is ever acked (also for an ill-behaved source) *)
Definition emptyack_bits (evs : list event) : nat :=
  if existsb (fun k => match k with [] => true | _ => false end) (acked_keys evs) then 16 else 0.

Definition bits08 (c : cfg) (obs : list event * terminal) : nat :=
  if wf_source c
  then Nat.lor (walk c [] [] (fst obs)) (Nat.lor (dlq_bits (fst obs)) (complete_bits c obs))
  else 0.

Definition bits09 (c : cfg) (obs : list event * terminal) : nat :=
  Nat.lor (crash_bits (snd obs))
    (Nat.lor (emptyack_bits (fst obs))
       (if wf_source c then Nat.lor (walk c [] [] (fst obs)) (cond_bits c (fst obs)) else 0)).

Definition mon08 (c : cfg) (obs : list event * terminal) : bool := bits08 c obs =? 0.
Definition mon09 (c : cfg) (obs : list event * terminal) : bool := bits09 c obs =? 0.

Definition chk_with (bits : cfg -> list event * terminal -> nat) (x : fcase) : nat :=
  let agree := obs_eqb (run_case (fc_cfg x)) (fc_obs x) in
  let b := bits (fc_cfg x) (fc_obs x) in
  code agree (b =? 0) + b.

Definition chk08 : fcase -> nat := chk_with bits08.
Definition chk09 : fcase -> nat := chk_with bits09.
