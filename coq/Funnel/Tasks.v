(* Model of ProcessorTask.Do (pkg/lifecycle-poc/funnel/processor.go) and DestinationTask.Do
   (destination.go), together with the scripted plugins ("oracles") the harness uses: the fake
   processor plugin, the fake destination and the fake source of harness/lib/funnelx.  The oracles
   are part of the test environment, not of the engine; they are modelled so that the model and
   the real engine can be run on the same case. *)
From Verif Require Export Funnel.Batch.
From Verif Require Export Dlq.Window.
From Coq Require Export NArith ZArith.

(* ---------- processor results ---------- *)

Inductive pr :=
| PSingle (r : rec) | PFilter | PError (e : err) | PMulti (rs : list rec) | PNil.

(* isSameType *)
Definition same_type (a b : pr) : bool :=
  match a, b with
  | PSingle _, PSingle _ | PFilter, PFilter | PError _, PError _ | PMulti _, PMulti _ | PNil, PNil => true
  | _, _ => false
  end.

(* maximal runs of results of the same type, with the index of their first element *)
Fixpoint groups (l : list pr) (i : nat) : list (nat * list pr) :=
  match l with
  | [] => []
  | x :: r =>
      match groups r (S i) with
      | (j, y :: g) :: rest => if same_type x y then (i, x :: y :: g) :: rest
                               else (i, [x]) :: (j, y :: g) :: rest
      | other => (i, [x]) :: other
      end
  end.

Definition unsingle (p : pr) : list rec := match p with PSingle r => [r] | _ => [] end.
Definition unerr (p : pr) : list err := match p with PError e => [e] | _ => [] end.

(* the MultiRecord arm of markBatchRecords: entries handled from the last to the first *)
Fixpoint mark_multi (b : batch) (h : heap) (from : nat) (l : list (nat * pr)) : res (batch * heap) :=
  match l with
  | [] => Ok (b, h)
  | (i, p) :: r =>
      match p with
      | PMulti [] => b' <- batch_filter b (from + i) None ;; mark_multi b' h from r
      | PMulti [x] => b' <- batch_set_records b (from + i) [x] ;; mark_multi b' h from r
      | PMulti rs => ' (b', h') <- batch_split_record b h (from + i) rs ;; mark_multi b' h' from r
      | _ => mark_multi b h from r
      end
  end.

(* markBatchRecords(b, from, records) *)
Definition mark_group (fx : fixes) (b : batch) (h : heap) (from : nat) (g : list pr) : res (batch * heap) :=
  match g with
  | [] => Ok (b, h)
  | PSingle _ :: _ => b' <- batch_set_records b from (flat_map unsingle g) ;; Ok (b', h)
  | PFilter :: _ => b' <- batch_filter b from (Some (from + length g)) ;; Ok (b', h)
  | PError _ :: _ => b' <- batch_nack (fx_unfilter fx) b from (flat_map unerr g) ;; Ok (b', h)
  | PMulti _ :: _ => mark_multi b h from (rev (combine (seq 0 (length g)) g))
  | PNil :: _ => b' <- batch_retry b from (Some (from + length g)) ;; Ok (b', h)
  end.

Fixpoint mark_groups (fx : fixes) (b : batch) (h : heap) (gs : list (nat * list pr)) : res (batch * heap) :=
  match gs with
  | [] => Ok (b, h)
  | (from, g) :: r => ' (b', h') <- mark_group fx b h from g ;; mark_groups fx b' h' r
  end.

(* ProcessorTask.Do after the plugin call: nIn = len(recsIn), out = recsOut *)
Definition proc_do (fx : fixes) (b : batch) (h : heap) (nIn : nat) (out : list pr) : res (batch * heap) :=
  match out with
  | [] => Refused (mkE false CNone XProcNoRecords)
  | _ :: _ =>
      (* repaired: len(recsOut) > len(recsIn) is refused *)
      if fx_more fx && (nIn <? length out) then Refused (mkE false CNone XProcTooMany)
      else
        let out' := out ++ repeat PNil (nIn - length out) in
        mark_groups fx b h (rev (groups out' 0))
  end.

(* ---------- scripted processor plugin ---------- *)

Inductive kind := KSame | KMod | KPos (p : pos) | KFilter | KErr | KMulti (n : nat) | KNil.

Record reply := mkReply { rp_kinds : list kind; rp_slack : nat; rp_exact : bool; rp_short : nat }.
Record procspec := mkProc { p_cond : bool; p_replies : list reply }.

Definition dummy_rec : rec := mkRec (Some [999]) [999] [].

Definition piece (r : rec) (j : nat) : rec :=
  mkRec (Some (pkey (rpos r) ++ [j])) (rid r ++ [j]) (rcond r).

Definition apply_kind (p : nat) (k : kind) (r : rec) : pr :=
  match k with
  | KSame => PSingle r
  | KMod => PSingle (mkRec (rpos r) (rid r ++ [100]) (rcond r))
  | KPos q => PSingle (mkRec q (rid r) (rcond r))
  | KFilter => PFilter
  | KErr => PError (EP p (rid r))
  | KMulti 1 => PMulti [piece r 101]        (* not a split: the single piece replaces the record *)
  | KMulti n => PMulti (map (piece r) (seq 0 n))
  | KNil => PNil
  end.

Fixpoint cycle_kinds (pat : list kind) (i n : nat) : list kind :=
  match n with
  | 0 => []
  | S n' => nth (i mod length pat) pat KSame :: cycle_kinds pat (S i) n'
  end.

Definition reply_kinds (rp : reply) (nIn : nat) : list kind :=
  if rp_exact rp then
    match rp_kinds rp with
    | [] => repeat KSame (nIn - rp_short rp)
    | pat => cycle_kinds pat 0 (nIn - rp_short rp)
    end
  else rp_kinds rp.

Fixpoint apply_kinds (p : nat) (ks : list kind) (ins : list rec) : list pr :=
  match ks with
  | [] => []
  | k :: ks' => apply_kind p k (match ins with r :: _ => r | [] => dummy_rec end)
                :: apply_kinds p ks' (tl ins)
  end.

Definition kind_code (k : kind) : nat :=
  match k with
  | KSame => 0 | KMod => 1 | KPos _ => 2 | KFilter => 3 | KErr => 4
  | KMulti 0 => 5 | KMulti 1 => 6 | KMulti _ => 7 | KNil => 8
  end.

Definition plugin_kinds (spec : procspec) (call : nat) (nIn : nat) : list kind :=
  match nth_error (p_replies spec) call with
  | None => repeat KSame nIn
  | Some rp => reply_kinds rp nIn
  end.

(* result vector and its capacity *)
Definition plugin_reply (p : nat) (spec : procspec) (call : nat) (ins : list rec) : list pr * nat :=
  let out := apply_kinds p (plugin_kinds spec call (length ins)) ins in
  (out, length out + match nth_error (p_replies spec) call with Some rp => rp_slack rp | None => 0 end).

(* ---------- scripted destination ---------- *)

Definition rview := (key * list nat)%type.                 (* (position bytes, record id) *)
Definition view (r : rec) : rview := (pkey (rpos r), rid r).

(* acts of a scripted plugin call. The destination acts carry an index or a count:
   AExtra m = m+1 surplus acks after the genuine ones; AWrongPos i / ADup i / ASwap i act on the
   i-th ack of the reply; AShort m = the last m+1 acks of the reply are lost *)
Inductive act := AEmpty | AErr | AExtra (m : nat) | AWrongPos (i : nat) | ADup (i : nat) | ASwap (i : nat)
               | AShort (m : nat) | AEof.

Record destspec := mkDest {
  d_werr : option nat; d_fail : list (list nat); d_failmod : option (nat * nat);
  d_chunks : list nat; d_acts : list (nat * act) }.

Record deststate := mkDS { ds_pending : list rec; ds_writes : nat; ds_acks : nat }.
Definition ds0 : deststate := mkDS [] 0 0.

Definition dack := (pos * option err)%type.

Fixpoint lookup_act (l : list (nat * act)) (i : nat) : option act :=
  match l with
  | [] => None
  | (c, a) :: r => if c =? i then Some a else lookup_act r i
  end.

Definition fails (s : destspec) (id : list nat) : bool :=
  existsb (key_eqb id) (d_fail s) ||
  match d_failmod s with
  | Some (m, r) => (0 <? m) && (list_sum id mod m =? r)
  | None => false
  end.

Definition junk_pos : pos := Some [9; 9; 9].

(* Write: the event is logged by the caller; false = the write call returned an error *)
Definition dest_write (s : destspec) (st : deststate) (rs : list rec) : deststate * bool :=
  let idx := ds_writes st in
  match d_werr s with
  | Some w => if w =? idx then (mkDS (ds_pending st) (S idx) (ds_acks st), false)
              else (mkDS (ds_pending st ++ rs) (S idx) (ds_acks st), true)
  | None => (mkDS (ds_pending st ++ rs) (S idx) (ds_acks st), true)
  end.

(* what the plugin told the engine about the i-th record it took from its queue *)
Fixpoint conf_of (taken : list rec) (acks : list dack) : list (rview * bool) :=
  match taken with
  | [] => []
  | r :: t => (view r, match acks with (_, None) :: _ => true | _ => false end) :: conf_of t (tl acks)
  end.

(* Ack: None = the call returned an error; the second component is what the plugin really
   confirmed (record id, ok?) - used only for the event log *)
Definition dest_ack (s : destspec) (st : deststate)
  : deststate * option (list dack) * list (rview * bool) :=
  let idx := ds_acks st in
  let st1 := mkDS (ds_pending st) (ds_writes st) (S idx) in
  let a := lookup_act (d_acts s) idx in
  match a with
  | Some AEmpty => (st1, Some [], [])
  | Some AErr => (st1, None, [])
  | _ =>
      let c0 := length (ds_pending st) in
      let c := match d_chunks s with
               | [] => c0
               | ch => let k := nth (idx mod length ch) ch 0 in
                       if (0 <? k) && (k <? c0) then k else c0
               end in
      let taken := firstn c (ds_pending st) in
      let acks := map (fun r => (rpos r, if fails s (rid r) then Some (ED (rid r)) else None)) taken in
      let acks' := match a with
                   | Some (AExtra m) => acks ++ repeat (junk_pos, None) (S m)
                   | Some (AWrongPos i) => firstn i acks ++ match skipn i acks with x :: r => (junk_pos, snd x) :: r | [] => [] end
                   | Some (ADup i) => firstn i acks ++ match skipn i acks with x :: r => x :: x :: r | [] => [] end
                   | Some (ASwap i) => firstn i acks ++ match skipn i acks with x :: y :: r => y :: x :: r | l => l end
                   | Some (AShort m) => firstn (length acks - S m) acks
                   | _ => acks
                   end in
      (* a plugin that sends more acks than it took records for has, as far as the engine can
         tell, confirmed that many records: it drops them from its queue as well *)
      let c2 := if c <? length acks' then Nat.min (length acks') c0 else c in
      let st2 := mkDS (skipn c2 (ds_pending st)) (ds_writes st) (S idx) in
      (st2, Some acks', conf_of (firstn c2 (ds_pending st)) acks')
  end.

(* ---------- the world: everything outside the batch ---------- *)


Record dlqrec := mkDlqRec { q_pos : key; q_id : list nat; q_err : option err; q_task : nat }.

(* result kinds as logged by the fake plugin: 0 same 1 mod 2 pos 3 filter 4 err 5 multi(0) 6 multi(1)
   7 multi(>=2) 8 nil *)
Inductive event :=
| EvProc (p : nat) (ins : list rview) (kinds : list nat)   (* plugin call: inputs, result kinds *)
| EvWrite (rs : list rview)
| EvDAck (conf : list (rview * bool))                       (* records the plugin confirmed; true = ok *)
| EvDlqWrite (rs : list dlqrec)
| EvDlqAck (conf : list (rview * bool))
| EvSAck (ps : list key).

Record cfg := mkCfg {
  c_recs : list rec;
  c_procs : list procspec;
  c_dest : destspec;
  c_dlq : destspec;
  c_dlqsize : nat; c_dlqthr : nat;
  c_srcacts : list (nat * act);
  c_maxattempts : N; c_maxstall : N;
  c_fix : fixes }.

Record world := mkW {
  w_heap : heap;
  w_pcalls : list nat;            (* Process calls made so far, per processor *)
  w_dest : deststate;
  w_dlq : deststate;
  w_win : win;
  w_sacks : nat;                  (* Source.Ack calls made so far *)
  w_log : list event }.           (* newest first *)

Definition M (A : Type) := world -> res A * world.
Definition ret {A} (a : A) : M A := fun w => (Ok a, w).
Definition bind {A B} (m : M A) (k : A -> M B) : M B :=
  fun w => match m w with
           | (Ok a, w') => k a w'
           | (Refused e, w') => (Refused e, w')
           | (Panic s, w') => (Panic s, w')
           | (OutOfFuel, w') => (OutOfFuel, w')
           end.
Definition lift {A} (r : res A) : M A := fun w => (r, w).
Definition fail {A} (e : einfo) : M A := fun w => (Refused e, w).
Definition emit (e : event) : M unit :=
  fun w => (Ok tt, mkW (w_heap w) (w_pcalls w) (w_dest w) (w_dlq w) (w_win w) (w_sacks w) (e :: w_log w)).
Definition get_heap : M heap := fun w => (Ok (w_heap w), w).
Definition put_heap (h : heap) : M unit :=
  fun w => (Ok tt, mkW h (w_pcalls w) (w_dest w) (w_dlq w) (w_win w) (w_sacks w) (w_log w)).

Notation "x <-- m ;;; k" := (bind m (fun x => k)) (at level 61, m at next level, right associativity).
Notation "' p <-- m ;;; k" := (bind m (fun p => k)) (at level 61, p pattern, m at next level, right associativity).
Notation "m ;;; k" := (bind m (fun _ => k)) (at level 61, right associativity).

(* one call of processor p's plugin *)
Definition call_plugin (c : cfg) (p : nat) (ins : list rec) : M (list pr * nat) :=
  fun w =>
    let n := nth p (w_pcalls w) 0 in
    let spec := nth p (c_procs c) (mkProc false []) in
    let pcs := match upd (w_pcalls w) p S with Some l => l | None => w_pcalls w end in
    (Ok (plugin_reply p spec n ins),
     mkW (w_heap w) pcs (w_dest w) (w_dlq w) (w_win w) (w_sacks w)
         (EvProc p (map view ins) (map kind_code (plugin_kinds spec n (length ins))) :: w_log w)).

(* which destination a DestinationTask talks to *)
Inductive dsel := DMain | DDlq.

Definition do_write (c : cfg) (d : dsel) (rs : list rec) (ev : event) : M bool :=
  fun w =>
    match d with
    | DMain => let (st, ok) := dest_write (c_dest c) (w_dest w) rs in
               (Ok ok, mkW (w_heap w) (w_pcalls w) st (w_dlq w) (w_win w) (w_sacks w) (ev :: w_log w))
    | DDlq => let (st, ok) := dest_write (c_dlq c) (w_dlq w) rs in
              (Ok ok, mkW (w_heap w) (w_pcalls w) (w_dest w) st (w_win w) (w_sacks w) (ev :: w_log w))
    end.

Definition do_ack (c : cfg) (d : dsel) : M (option (list dack)) :=
  fun w =>
    match d with
    | DMain => let '(st, r, cf) := dest_ack (c_dest c) (w_dest w) in
               (Ok r, mkW (w_heap w) (w_pcalls w) st (w_dlq w) (w_win w) (w_sacks w) (EvDAck cf :: w_log w))
    | DDlq => let '(st, r, cf) := dest_ack (c_dlq c) (w_dlq w) in
              (Ok r, mkW (w_heap w) (w_pcalls w) (w_dest w) st (w_win w) (w_sacks w) (EvDlqAck cf :: w_log w))
    end.

(* ---------- DestinationTask.Do ---------- *)

(* validateAcks(acks, positions[ackCount:]) *)
Fixpoint acks_match (acks : list dack) (ps : list pos) : bool :=
  match acks, ps with
  | [], _ => true
  | _ :: _, [] => false
  | (p, _) :: r, q :: ps' => key_eqb (pkey q) (pkey p) && acks_match r ps'
  end.

(* markBatchRecords: nack every errored ack, last to first *)
Fixpoint dest_mark (fx : bool) (b : batch) (from : nat) (l : list (nat * dack)) : res batch :=
  match l with
  | [] => Ok b
  | (i, (_, Some e)) :: r => b' <- batch_nack fx b (from + i) [e] ;; dest_mark fx b' from r
  | (_, (_, None)) :: r => dest_mark fx b from r
  end.

(* returns the batch and (for the theorems only) every ack received, in order *)
Fixpoint dest_loop (c : cfg) (d : dsel) (b : batch) (ps : list pos) (ackCount n : nat) : M (batch * list dack) :=
  match n with
  | 0 =>
      (* repaired: after the loop, ackCount < len(positions) is an error *)
      if fx_emptyack (c_fix c) && (ackCount <? length ps) then fail (mkE false CNone XAckShort) else ret (b, [])
  | S n' =>
      r <-- do_ack c d ;;;
      match r with
      | None => fail (mkE false CNone XAckFetch)
      | Some acks =>
          (* repaired: an empty reply confirms nothing and is refused *)
          if fx_emptyack (c_fix c) && (length acks =? 0) then fail (mkE false CNone XAckEmpty)
          else if acks_match acks (skipn ackCount ps) then
            b' <-- lift (dest_mark (fx_unfilter (c_fix c)) b ackCount (rev (combine (seq 0 (length acks)) acks))) ;;;
            let ackCount' := ackCount + length acks in
            if length ps <=? ackCount' then ret (b', acks)
            else ' (b'', more) <-- dest_loop c d b' ps ackCount' n' ;;; ret (b'', acks ++ more)
          else fail (mkE false CNone XAckValidate)
      end
  end.

(* wev: the event logged for the Write call *)
Definition dest_do (c : cfg) (d : dsel) (b : batch) (wev : list rec -> event) : M batch :=
  rs <-- lift (active_records b) ;;;
  let ps := map rpos rs in
  ok <-- do_write c d rs (wev rs) ;;;
  if ok then ' (b', _) <-- dest_loop c d b ps 0 (length ps) ;;; ret b'
  else fail (mkE false CNone XDestWrite).
