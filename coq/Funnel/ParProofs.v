(* Proofs about the ParallelNode job protocol (Par.v): no state of the transition system is stuck
   unless Run has returned and every dispatched job was collected (par_progress), every execution
   is finite (par_step_measure), every terminal state of an execution shows exactly one outcome
   per message handed in (par_terminal_monitor), and whatever the acceptor accepts satisfies the
   monitor (par_accept_monitor). *)
From Verif Require Import Base.CaseCheck Funnel.V1 Funnel.V1Proofs Funnel.Par.
From Coq Require Import Lia List Bool.
Import ListNotations.

Lemma par_dec_no_panic (m : pmsg) : exists d, par_dec m = V1Ok d.
Proof. unfold par_dec. apply proc_step_no_panic. Qed.

Lemma par_dec_forward_pos (m : pmsg) p id fl :
  par_dec m = V1Ok (DForward p id fl) -> p = pm_pos m.
Proof. unfold par_dec. intros H. apply proc_step_forward_pos in H. exact H. Qed.

(* ---------- progress ---------- *)

Theorem par_progress : forall s : pst, par_terminal s \/ exists s', par_step s s'.
Proof.
  intros [todo i d cq f e ob t].
  destruct cq as [|j cq].
  - destruct t as [b|].
    + left. split; cbn; [discriminate|reflexivity].
    + right. destruct todo as [|m todo].
      * eexists. apply PS_run_end.
      * destruct i as [|i].
        -- destruct d as [|d].
           ++ eexists. apply PS_no_worker.
           ++ eexists. apply PS_dispatch_dead.
        -- eexists. apply PS_dispatch.
  - right. destruct (j_st j) as [|a] eqn:Ej.
    + eexists. exact (PS_process todo i d [] cq j f e ob t Ej).
    + eexists. exact (PS_collect todo i d j a cq f e ob t Ej).
Qed.

(* ---------- termination ---------- *)

Lemma after_process_weight (m : pmsg) : job_weight (after_process m) = 1.
Proof.
  unfold after_process. destruct (par_dec m) as [[p id fl| |fa co]|s]; try reflexivity.
  destruct (nack_ok m); reflexivity.
Qed.

Lemma after_process_msg (m : pmsg) : j_msg (after_process m) = m.
Proof.
  unfold after_process. destruct (par_dec m) as [[p id fl| |fa co]|s]; try reflexivity.
  destruct (nack_ok m); reflexivity.
Qed.

Lemma list_sum_app_ (a b : list nat) : list_sum (a ++ b) = list_sum a + list_sum b.
Proof. apply list_sum_app. Qed.

Theorem par_step_measure : forall s s', par_step s s' -> par_measure s' < par_measure s.
Proof.
  intros s s' H. destruct H; unfold par_measure; cbn [s_todo s_cq s_term length].
  - rewrite map_app, list_sum_app_. cbn. lia.
  - rewrite map_app, list_sum_app_. cbn. lia.
  - cbn. lia.
  - rewrite !map_app, !list_sum_app_. cbn [map list_sum]. rewrite after_process_weight.
    unfold job_weight. rewrite H. cbn. lia.
  - destruct (collect f j) as [[o f'] k]. destruct a as [[|]|]; cbn;
      unfold job_weight; rewrite H; lia.
  - lia.
  - lia.
Qed.

(* ---------- the acceptor implies the monitor ---------- *)

Lemma only_nacked_outcome (m : pmsg) (o : pobs) :
  po_handed o = true -> only_nacked o = true -> outcome_ok m o = true.
Proof. intros Hh Hn. unfold outcome_ok. rewrite Hh, Hn. apply orb_true_r. Qed.

Lemma expect1_outcome (failed : bool) (m : pmsg) (o : pobs) :
  expect1 failed m o = true -> outcome_ok m o = true.
Proof.
  unfold expect1. destruct (po_handed o) eqn:Hh; cbn [negb].
  - destruct (po_processed o) eqn:Hp; cbn [negb].
    + destruct (par_dec m) as [[p id fl| |fa co]|s] eqn:Hd.
      * destruct failed.
        -- apply only_nacked_outcome; exact Hh.
        -- intros H. unfold outcome_ok. rewrite Hh.
           apply andb_prop in H as [H Hfl]. apply andb_prop in H as [H Hid].
           apply andb_prop in H as [H Hpos]. apply andb_prop in H as [Hst Hn].
           apply par_dec_forward_pos in Hd as Hpeq. subst p.
           unfold is_forward. rewrite Hd. rewrite Hn, Hpos.
           destruct (po_status o); cbn in Hst; try discriminate. reflexivity.
      * apply only_nacked_outcome; exact Hh.
      * apply only_nacked_outcome; exact Hh.
      * discriminate.
    + apply only_nacked_outcome; exact Hh.
  - intros H. apply andb_prop in H as [_ H]. unfold outcome_ok. rewrite Hh. exact H.
Qed.

Lemma expect_all_outcomes (ms : list pmsg) : forall failed os,
  expect_all failed ms os = true -> outcomes_ok ms os = true.
Proof.
  induction ms as [|m ms IH]; intros failed [|o os] H; cbn in *; try discriminate; [reflexivity|].
  apply andb_prop in H as [H1 H2]. rewrite (expect1_outcome _ _ _ H1). cbn. exact (IH _ _ H2).
Qed.

Lemma term_ok_live w ms os t :
  term_ok w ms os t = true ->
  pterm_live t = true /\ (if pterm_is_ok t then forallb po_handed os else true) = true.
Proof.
  unfold term_ok.
  destruct (Nat.ltb 0 (count2 fails ms os)).
  - intros H. apply andb_prop in H as [H _]. destruct t; cbn in *; try discriminate; auto.
  - destruct (Nat.leb _ _).
    + intros H. apply andb_prop in H as [H1 H2]. destruct t; cbn in *; try discriminate; auto.
    + intros H. apply andb_prop in H as [_ H]. destruct t; cbn in *; try discriminate; auto.
Qed.

Theorem par_accept_monitor : forall w ms os closed t,
  par_accept w ms os closed t = true -> par_monitor ms os closed t = true.
Proof.
  intros w ms os closed t H. unfold par_accept in H.
  apply andb_prop in H as [H Ht]. apply andb_prop in H as [H _]. apply andb_prop in H as [Hc He].
  apply term_ok_live in Ht as [Hl Hh]. apply expect_all_outcomes in He.
  unfold par_monitor. rewrite Hl, Hc, He, Hh. reflexivity.
Qed.

(* ---------- every terminal state satisfies the monitor ---------- *)

Definition job_ok (j : job) : Prop :=
  match j_st j with
  | JBusy => True
  | JDone _ => j_nacked j = true \/ is_forward (j_msg j) = true
  end.

Definition par_inv (ms : list pmsg) (s : pst) : Prop :=
  exists done,
    ms = done ++ map j_msg (s_cq s) ++ s_todo s /\
    outcomes_ok done (rev (s_obs s)) = true /\
    forallb po_handed (rev (s_obs s)) = true /\
    Forall job_ok (s_cq s) /\
    (s_term s = Some false -> s_todo s = []).

Lemma outcomes_ok_app a oa b ob :
  outcomes_ok a oa = true -> outcomes_ok b ob = true -> outcomes_ok (a ++ b) (oa ++ ob) = true.
Proof.
  revert oa. induction a as [|m a IH]; intros [|o oa] Ha Hb; cbn in *; try discriminate; [exact Hb|].
  apply andb_prop in Ha as [H1 H2]. rewrite H1. cbn. exact (IH _ H2 Hb).
Qed.

Lemma after_process_ok (m : pmsg) : job_ok (after_process m).
Proof.
  unfold job_ok. rewrite after_process_msg. unfold after_process, is_forward.
  destruct (par_dec m) as [[p id fl| |fa co]|s] eqn:Hd; cbn [j_st j_nacked].
  - right. reflexivity.
  - left. reflexivity.
  - destruct (nack_ok m); cbn [j_st j_nacked]; left; reflexivity.
  - destruct (par_dec_no_panic m) as [dd Hd']. congruence.
Qed.

Lemma collect_outcome (failed : bool) (j : job) a :
  j_st j = JDone a -> job_ok j ->
  let '(o, _, _) := collect failed j in
  outcome_ok (j_msg j) o = true /\ po_handed o = true.
Proof.
  intros Hs Hok. unfold job_ok in Hok. rewrite Hs in Hok. unfold collect.
  destruct (j_nacked j) eqn:Hn.
  - destruct (nack_ok (j_msg j)); split; reflexivity.
  - destruct Hok as [Hok|Hok]; [discriminate|].
    destruct failed.
    + split; reflexivity.
    + unfold is_forward in Hok.
      destruct (par_dec (j_msg j)) as [[p id fl| |fa co]|s] eqn:Hd; try discriminate.
      apply par_dec_forward_pos in Hd as Hp. subst p. split; [|reflexivity].
      unfold outcome_ok. cbn. unfold is_forward. rewrite Hd. rewrite v1key_eqb_refl. reflexivity.
Qed.

Lemma par_inv_init w ms : par_inv ms (par_init w ms).
Proof.
  exists []. cbn. repeat split; try reflexivity; [constructor|discriminate].
Qed.

Lemma par_inv_step ms s s' : par_inv ms s -> par_step s s' -> par_inv ms s'.
Proof.
  intros (done & Hms & Hout & Hh & Hj & Ht) H. destruct H; unfold par_inv; cbn [s_todo s_cq s_obs s_term] in *.
  - exists done. repeat split; try assumption.
    + rewrite Hms, map_app. cbn. rewrite <- !app_assoc. reflexivity.
    + apply Forall_app. split; [exact Hj|]. constructor; [exact I|constructor].
    + discriminate.
  - exists done. repeat split; try assumption.
    + rewrite Hms, map_app. cbn. rewrite <- !app_assoc. reflexivity.
    + apply Forall_app. split; [exact Hj|]. constructor; [left; reflexivity|constructor].
    + discriminate.
  - exists (done ++ [m]). repeat split.
    + rewrite Hms. cbn. rewrite <- app_assoc. reflexivity.
    + cbn [rev]. apply outcomes_ok_app; [exact Hout|reflexivity].
    + cbn [rev]. rewrite forallb_app, Hh. reflexivity.
    + constructor.
    + discriminate.
  - exists done. repeat split; try assumption.
    + rewrite Hms, !map_app. cbn [map]. rewrite after_process_msg. reflexivity.
    + apply Forall_app in Hj as [Hj1 Hj2]. apply Forall_app. split; [exact Hj1|].
      inversion Hj2 as [|j' cq' Hjok Hjrest]; subst j' cq'. constructor; [apply after_process_ok|assumption].
  - inversion Hj as [|j' cq' Hjok Hjrest]; subst j' cq'.
    pose proof (collect_outcome f j a H Hjok) as Hc.
    destruct (collect f j) as [[o f'] k]. destruct Hc as [Hc1 Hc2].
    destruct a as [[|]|]; cbn [idle_after s_idle s_dead s_todo s_cq s_obs s_term];
      (exists (done ++ [j_msg j]); repeat split;
       [ rewrite Hms; cbn; rewrite <- app_assoc; reflexivity
       | cbn [rev]; apply outcomes_ok_app; [exact Hout|cbn; rewrite Hc1; reflexivity]
       | cbn [rev]; rewrite forallb_app, Hh; cbn; rewrite Hc2; reflexivity
       | exact Hjrest
       | exact Ht ]).
  - exists done. repeat split; try assumption; try discriminate.
  - exists done. repeat split; try assumption; try reflexivity.
Qed.

Lemma par_reach_inv w ms s : par_reach w ms s -> par_inv ms s.
Proof.
  induction 1 as [|s s' _ IH Hstep]; [apply par_inv_init|exact (par_inv_step _ _ _ IH Hstep)].
Qed.

Lemma outcomes_ok_none (l : list pmsg) : outcomes_ok l (map (fun _ => po_none) l) = true.
Proof. induction l as [|m l IH]; cbn; [reflexivity|exact IH]. Qed.

(* every execution of the protocol that has come to rest shows the property: Run returned, every
   message handed in has exactly one outcome, a malformed reply is never forwarded, and Run
   returns nil only when every message was taken *)
Theorem par_terminal_monitor : forall w ms s,
  par_reach w ms s -> par_terminal s ->
  par_monitor ms (par_final_obs s) true (par_final_term s) = true.
Proof.
  intros w ms s Hr [Hterm Hcq]. apply par_reach_inv in Hr as (done & Hms & Hout & Hh & _ & Ht).
  rewrite Hcq in Hms. cbn in Hms.
  unfold par_monitor, par_final_obs, par_final_term.
  assert (Ho : outcomes_ok ms (rev (s_obs s) ++ map (fun _ => po_none) (s_todo s)) = true).
  { rewrite Hms. apply outcomes_ok_app; [exact Hout|apply outcomes_ok_none]. }
  rewrite Ho.
  destruct (s_term s) as [[|]|]; [reflexivity| |congruence].
  cbn. rewrite (Ht eq_refl). cbn. rewrite app_nil_r. exact Hh.
Qed.

(* no wedge, in one statement: a reachable state is at rest (Run returned, every dispatched job
   collected) or it can move, and every move takes it strictly closer (par_measure : nat) to rest:
   every execution, under every scheduling, ends at rest after at most par_measure steps *)
Theorem par_no_wedge : forall w ms s,
  par_reach w ms s ->
  par_terminal s \/
  exists s', par_step s s' /\ par_reach w ms s' /\ par_measure s' < par_measure s.
Proof.
  intros w ms s Hr. destruct (par_progress s) as [T|[s' Hs]]; [left; exact T|].
  right. exists s'. split; [exact Hs|]. split; [exact (PR_step _ _ _ _ Hr Hs)|].
  exact (par_step_measure _ _ Hs).
Qed.

(* ... and rest is reached: from every reachable state some terminal state is reachable *)
Theorem par_reaches_rest : forall w ms n s,
  par_measure s <= n -> par_reach w ms s ->
  exists s', par_reach w ms s' /\ par_terminal s'.
Proof.
  intros w ms n. induction n as [|n IH]; intros s Hn Hr;
    destruct (par_no_wedge _ _ _ Hr) as [T|(s' & _ & Hr' & Hm)]; try (exists s; split; assumption).
  - lia.
  - apply (IH s'); [lia|exact Hr'].
Qed.
