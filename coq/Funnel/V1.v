(* Classic engine (pipeline architecture v1) half of C09, plus the built-in connector sandbox.
   Definitions only; proofs are in V1Proofs.v.

   Modelled, transcribed from the Go code as written:
     pkg/lifecycle/stream/processor.go          ProcessorNode.Run, handleProcessedRecord, handleSingleRecord
     pkg/lifecycle/stream/destination_acker.go  DestinationAckerNode.Run, worker, handleAck, teardown
     pkg/lifecycle/stream/message.go            Message.Ack / Message.Nack (status, handler result,
                                                "no nack handler" error that wraps the reason)
     pkg/plugin/connector/builtin/sandbox.go    runSandbox, returnResponse

   Every partial Go operation is an explicit checked access: [recsOut[0]] and [acks[0]] return
   [V1Panic] when the slice is empty.

   Representation: a position is the list of numbers of its bytes "a.b.c" ([] for both the nil
   and the empty slice: the code under test only uses bytes.Equal, which does not tell them
   apart).  The plugins (processor, destination, nack/ack handlers, sandboxed function) are
   scripted: their replies are part of the input.  All names carry a v1/V1 prefix or are specific
   to this file so that it can be imported next to Funnel.Batch / Funnel.Tasks. *)
From Verif Require Import Base.CaseCheck.

Inductive v1site := SiteRecsOut0 | SiteAcks0.

Inductive v1res (A : Type) := V1Ok (a : A) | V1Panic (s : v1site).
Arguments V1Ok {A} a. Arguments V1Panic {A} s.

Definition v1key := list nat.

(* bytes.Equal *)
Fixpoint v1key_eqb (a b : v1key) : bool :=
  match a, b with
  | [], [] => true
  | x :: a', y :: b' => Nat.eqb x y && v1key_eqb a' b'
  | _, _ => false
  end.

Inductive mstat := SOpen | SAcked | SNacked.

Definition mstat_eqb (a b : mstat) : bool :=
  match a, b with
  | SOpen, SOpen | SAcked, SAcked | SNacked, SNacked => true
  | _, _ => false
  end.

(* ====================================================================================== *)
(* ProcessorNode                                                                          *)
(* ====================================================================================== *)

(* scripted processor: the kinds of the entries of the slice returned by Process *)
Inductive v1kind :=
| VSame | VMod | VPos (p : v1key) | VFilter | VErr | VMulti (n : nat) | VNil.

(* what the message's nack handler chain does: returns nil, returns an error, or no nack handler
   is registered (Message.Nack then returns an error that WRAPS the nack reason) *)
Inductive nackmode := NackOk | NackErr | NackNone.

Record pmsg := mkPMsg {
  pm_pos : v1key; pm_id : list nat; pm_filtered : bool; pm_nack : nackmode; pm_reply : list v1kind }.

(* sdk.ProcessedRecord *)
Inductive v1pr :=
| VPSingle (p : v1key) (id : list nat) | VPFilter | VPError | VPMulti (n : nat) | VPNil.

Definition v1_apply (m : pmsg) (k : v1kind) : v1pr :=
  match k with
  | VSame => VPSingle (pm_pos m) (pm_id m)
  | VMod => VPSingle (pm_pos m) (pm_id m ++ [100])
  | VPos p => VPSingle p (pm_id m)
  | VFilter => VPFilter
  | VErr => VPError
  | VMulti n => VPMulti n
  | VNil => VPNil
  end.

(* how Run ended: nil | error (cerrors.IsFatalError, carries the fan-out conduiterr code) |
   observed only: panic, hang *)
Inductive pterm := PTOk | PTErr (fatal coded : bool) | PTPanic | PTHang.

(* the decision taken for one message *)
Inductive pdec :=
| DForward (p : v1key) (id : list nat) (filtered : bool)   (* sent downstream, loop continues *)
| DNackContinue                                            (* nacked, handled, loop continues *)
| DNackStop (fatal coded : bool).                          (* nacked, Run returns an error   *)

(* Message.Nack(reason): None = nil; Some c = an error, c = it carries the code of the reason *)
Definition nack_result (n : nackmode) (reason_coded : bool) : option bool :=
  match n with
  | NackOk => None
  | NackErr => Some false
  | NackNone => Some reason_coded
  end.

(* if nackErr := msg.Nack(err); nackErr != nil { return [Fatal](nackErr) }; return [Fatal](err) *)
Definition nack_and_stop (fatal reason_coded : bool) (n : nackmode) : pdec :=
  match nack_result n reason_coded with
  | Some c => DNackStop fatal c
  | None => DNackStop fatal reason_coded
  end.

(* handleSingleRecord *)
Definition handle_single (m : pmsg) (p : v1key) (id : list nat) : pdec :=
  if negb (v1key_eqb p (pm_pos m)) then nack_and_stop false false (pm_nack m)
  else DForward p id false.

(* handleProcessedRecord *)
Definition handle_processed (m : pmsg) (r : v1pr) : pdec :=
  match r with
  | VPSingle p id => handle_single m p id
  | VPFilter => DForward (pm_pos m) (pm_id m) true
  | VPError =>
      match nack_result (pm_nack m) false with
      | Some _ => DNackStop true false       (* FatalError("error executing processor: %w") *)
      | None => DNackContinue
      end
  | VPMulti _ => nack_and_stop true true (pm_nack m)     (* coded: pipeline.fanout_requires_arch_v2 *)
  | VPNil => nack_and_stop true false (pm_nack m)        (* "unknown record type" *)
  end.

(* one iteration of the loop of Run *)
Definition proc_step (m : pmsg) : v1res pdec :=
  if pm_filtered m then V1Ok (DForward (pm_pos m) (pm_id m) true)
  else
    let out := map (v1_apply m) (pm_reply m) in
    if negb (Nat.eqb 1 (length out)) then V1Ok (nack_and_stop true false (pm_nack m))
    else match nth_error out 0 with                         (* recsOut[0] *)
         | None => V1Panic SiteRecsOut0
         | Some r => V1Ok (handle_processed m r)
         end.

Record fwd := mkFwd { f_idx : nat; f_pos : v1key; f_id : list nat; f_filtered : bool }.

Definition pout := (list fwd * list mstat * pterm)%type.

(* Run over the messages arriving on the inbound channel (then the channel is closed).
   i = index of the first message.  Stops at the first returned error: later messages are
   not consumed and stay open. *)
Fixpoint proc_run (i : nat) (ms : list pmsg) : v1res pout :=
  match ms with
  | [] => V1Ok ([], [], PTOk)
  | m :: r =>
      match proc_step m with
      | V1Panic s => V1Panic s
      | V1Ok (DNackStop f c) => V1Ok ([], SNacked :: map (fun _ => SOpen) r, PTErr f c)
      | V1Ok d =>
          match proc_run (S i) r with
          | V1Panic s => V1Panic s
          | V1Ok (fw, st, t) =>
              match d with
              | DForward p id fl => V1Ok (mkFwd i p id fl :: fw, SOpen :: st, t)
              | _ => V1Ok (fw, SNacked :: st, t)
              end
          end
      end
  end.

(* ---- property monitor on an observed run ---- *)

(* forwarded only with the ORIGINAL position of the message it came from, and a nacked message
   is never forwarded *)
Definition fwd_ok (ms : list pmsg) (st : list mstat) (f : fwd) : bool :=
  match nth_error ms (f_idx f) with
  | None => false
  | Some m =>
      v1key_eqb (f_pos f) (pm_pos m) &&
      match nth_error st (f_idx f) with
      | Some SNacked => false
      | _ => true
      end
  end.

Definition pterm_live (t : pterm) : bool :=
  match t with PTPanic | PTHang => false | _ => true end.

Definition proc_monitor (ms : list pmsg) (o : pout) : bool :=
  let '(fw, st, t) := o in
  pterm_live t && forallb (fwd_ok ms st) fw.

(* ====================================================================================== *)
(* DestinationAckerNode                                                                   *)
(* ====================================================================================== *)

Record amsg := mkAMsg {
  am_pos : v1key; am_filtered : bool;
  am_ack_err : bool;     (* the message's ack handler returns an error *)
  am_nack_err : bool }.  (* the message's nack handler returns an error *)

(* connector.DestinationAck: position, carries an error *)
Definition dack := (v1key * bool)%type.

(* one reply of Destination.Ack(ctx) *)
Inductive areply := RAcks (l : list dack) | RErr.

(* how Run ended; for an error: is it the context error (the script was exhausted, the harness
   cancelled the context while the worker was waiting in Ack) *)
Inductive aterm := ATOk | ATErr (ctx : bool) | ATPanic | ATHang.

Definition aout := (list mstat * aterm)%type.

(* teardown: every message still queued is nacked *)
Definition all_nacked (q : list amsg) : list mstat := map (fun _ => SNacked) q.

Definition acons (s : mstat) (r : v1res aout) : v1res aout :=
  match r with
  | V1Ok (st, t) => V1Ok (s :: st, t)
  | V1Panic x => V1Panic x
  end.

(* if len(acks) == 0 { acks, err = n.Destination.Ack(ctx) ... } *)
Inductive fetched := FAcks (acks : list dack) (script : list areply) | FErr | FExhausted.

Definition fetch (acks : list dack) (script : list areply) : fetched :=
  match acks with
  | _ :: _ => FAcks acks script
  | [] =>
      match script with
      | [] => FExhausted
      | RErr :: _ => FErr
      | RAcks l :: s => FAcks l s
      end
  end.

(* worker over the queue (all messages were pushed before the first reply arrives), followed by
   Run's deferred teardown.  acks = the worker's local buffer of fetched acks. *)
(* fx: the tree contains the repair "refuse an empty ack reply" (probed by the harness) *)
Fixpoint acker_worker (fx : bool) (q : list amsg) (acks : list dack) (script : list areply) : v1res aout :=
  match q with
  | [] => V1Ok ([], ATOk)              (* everything handled; inbound channel closed; Run = nil *)
  | m :: q' =>
      if am_filtered m then
        (* handleAck(msg, nil) *)
        if am_ack_err m then V1Ok (SAcked :: all_nacked q', ATErr false)
        else acons SAcked (acker_worker fx q' acks script)
      else
        match fetch acks script with
        | FExhausted => V1Ok (all_nacked (m :: q'), ATErr true)    (* handleError: pushed back *)
        | FErr => V1Ok (all_nacked (m :: q'), ATErr false)         (* handleError: pushed back *)
        | FAcks acks1 script1 =>
            match acks1 with
            | [] => if fx then V1Ok (all_nacked (m :: q'), ATErr false)   (* repaired: handleError *)
                    else V1Panic SiteAcks0                         (* shipped: ack := acks[0] *)
            | (p, e) :: rest =>
                if negb (v1key_eqb (am_pos m) p) then
                  V1Ok (all_nacked (m :: q'), ATErr false)         (* handleError: pushed back *)
                else if e then
                  if am_nack_err m then V1Ok (SNacked :: all_nacked q', ATErr false)
                  else acons SNacked (acker_worker fx q' rest script1)
                else
                  if am_ack_err m then V1Ok (SAcked :: all_nacked q', ATErr false)
                  else acons SAcked (acker_worker fx q' rest script1)
            end
        end
  end.

Definition acker_run (fx : bool) (q : list amsg) (script : list areply) : v1res aout :=
  acker_worker fx q [] script.

(* ---- the feeding schedule ----
   Run pushes a message into the queue when the previous node hands it over, which may be before or
   after the Ack() reply that covers it: the messages arrive in groups (phases), and between two
   groups the queue runs empty and the worker goes back to waiting for a signal.  The worker's
   buffer of fetched acks (acks) is a variable of the worker function, not of its loop body: it
   survives the idle period.  A message that was never handed over (Run ended before its group)
   stays open; a message in the queue when Run ends is nacked by teardown. *)

Definition all_open (q : list amsg) : list mstat := map (fun _ => SOpen) q.

(* one message in the worker's hands: go on with the next | Run ends (s = what becomes of this
   message) | the worker panics *)
Inductive astep :=
| StCont (s : mstat) (acks : list dack) (script : list areply)
| StStop (s : mstat) (t : aterm)
| StPanic.

Definition acker_step (fx : bool) (m : amsg) (acks : list dack) (script : list areply) : astep :=
  if am_filtered m then
    if am_ack_err m then StStop SAcked (ATErr false) else StCont SAcked acks script
  else
    match fetch acks script with
    | FExhausted => StStop SNacked (ATErr true)
    | FErr => StStop SNacked (ATErr false)
    | FAcks acks1 script1 =>
        match acks1 with
        | [] => if fx then StStop SNacked (ATErr false) else StPanic
        | (p, e) :: rest =>
            if negb (v1key_eqb (am_pos m) p) then StStop SNacked (ATErr false)
            else if e then
              if am_nack_err m then StStop SNacked (ATErr false) else StCont SNacked rest script1
            else
              if am_ack_err m then StStop SAcked (ATErr false) else StCont SAcked rest script1
        end
    end.

(* the worker over one group; und = the messages of the later groups; k = what happens once the
   queue is empty again (the next group arrives, with the buffer and the script as they are) *)
Fixpoint feed_worker (fx : bool) (q und : list amsg) (k : list dack -> list areply -> v1res aout)
         (acks : list dack) (script : list areply) : v1res aout :=
  match q with
  | [] => k acks script
  | m :: q' =>
      match acker_step fx m acks script with
      | StPanic => V1Panic SiteAcks0
      | StStop s t => V1Ok (s :: all_nacked q' ++ all_open und, t)
      | StCont s a sc => acons s (feed_worker fx q' und k a sc)
      end
  end.

Fixpoint acker_feed (fx : bool) (ph : list (list amsg)) (acks : list dack) (script : list areply)
  : v1res aout :=
  match ph with
  | [] => V1Ok ([], ATOk)            (* everything handled; inbound channel closed; Run = nil *)
  | q :: rest => feed_worker fx q (concat rest) (acker_feed fx rest) acks script
  end.

Definition acker_feed_run (fx : bool) (ph : list (list amsg)) (script : list areply) : v1res aout :=
  acker_feed fx ph [] script.

(* ---- property monitor ---- *)

(* the acks the destination sent, in order, up to its first error reply *)
Fixpoint ack_stream (script : list areply) : list dack :=
  match script with
  | [] => []
  | RErr :: _ => []
  | RAcks l :: s => l ++ ack_stream s
  end.

(* the k-th unfiltered message may be acked only if the k-th ack of the stream is positive and
   carries its position (filtered messages are acked by the node itself, by design) *)
Fixpoint acked_ok (q : list amsg) (st : list mstat) (strm : list dack) : bool :=
  match q, st with
  | m :: q', s :: st' =>
      if am_filtered m then acked_ok q' st' strm
      else
        match strm with
        | a :: strm' =>
            (match s with
             | SAcked => v1key_eqb (am_pos m) (fst a) && negb (snd a)
             | _ => true
             end) && acked_ok q' st' strm'
        | [] =>
            (match s with SAcked => false | _ => true end) && acked_ok q' st' []
        end
  | _, _ => true
  end.

(* number of unfiltered messages before index i: the rank of message i in the ack stream *)
Fixpoint unfiltered_before (q : list amsg) (i : nat) : nat :=
  match i, q with
  | S i', m :: q' => (if am_filtered m then 0 else 1) + unfiltered_before q' i'
  | _, _ => 0
  end.

Definition aterm_live (t : aterm) : bool :=
  match t with ATPanic | ATHang => false | _ => true end.

(* the unfiltered messages that were handed to the node (anything but open) *)
Fixpoint delivered_unf (q : list amsg) (st : list mstat) : nat :=
  match q, st with
  | m :: q', s :: st' =>
      (if am_filtered m then 0 else match s with SOpen => 0 | _ => 1 end) + delivered_unf q' st'
  | _, _ => 0
  end.

(* no wedge: the node may be found waiting for the destination (the harness had to cancel it in
   Ack, ATErr true) only if the destination still owes an ack - it sent fewer acks than unfiltered
   messages were handed to the node.  Otherwise an ack the destination did deliver was lost and
   the node would wait for ever (a graceful stop never completes). *)
Definition wedge_ok (q : list amsg) (st : list mstat) (t : aterm) (strm : list dack) : bool :=
  match t with
  | ATErr true => length strm <? delivered_unf q st
  | _ => true
  end.

Definition acker_monitor (q : list amsg) (script : list areply) (o : aout) : bool :=
  let '(st, t) := o in
  aterm_live t && acked_ok q st (ack_stream script) && wedge_ok q st t (ack_stream script).

(* ====================================================================================== *)
(* runSandbox                                                                             *)
(* ====================================================================================== *)

(* the sandboxed function: may first block (until the harness releases it, or forever), then
   returns (req+val, nil) | returns (val, its error) | panics with an error value | panics with a
   non-error value *)
Inductive sblock := BNo | BReleased | BForever.
Inductive sthen := SRet | SFail | SPanicErr | SPanicVal.
(* the caller's context: never cancelled | already cancelled at the call | cancelled while the
   function blocks (no effect when it does not block) *)
Inductive scancel := CNever | CBefore | CDuring.

Record scall := mkSCall {
  sc_block : sblock; sc_then : sthen; sc_cancel : scancel; sc_val : nat; sc_req : nat }.

(* class of the returned error *)
Inductive serr := ENil | EFn | EPanicErr | EPanicVal | ECtx | EOther.

(* what the caller of runSandbox sees: a return, or it is still waiting (only when the
   function never returns and the context is never cancelled) *)
Inductive sres := SReturns (v : nat) (e : serr) | SWaits.

(* res, err := f(ctx, req) under recover *)
Definition f_result (c : scall) : nat * serr :=
  match sc_then c with
  | SRet => (sc_req c + sc_val c, ENil)
  | SFail => (sc_val c, EFn)
  | SPanicErr => (0, EPanicErr)          (* recover: r.(error) ok -> that error, empty response *)
  | SPanicVal => (0, EPanicVal)          (* recover: cerrors.Errorf("panic: %v", r)           *)
  end.

Definition sandbox_call (c : scall) : sres :=
  match sc_cancel c with
  | CBefore => SReturns 0 ECtx          (* select: only ctx.Done() is ready on both sides *)
  | CDuring =>
      match sc_block c with
      | BNo => let '(v, e) := f_result c in SReturns v e
      | _ => SReturns 0 ECtx            (* detach from the plugin goroutine *)
      end
  | CNever =>
      match sc_block c with
      | BForever => SWaits
      | _ => let '(v, e) := f_result c in SReturns v e
      end
  end.

Inductive sterm := STOk | STPanic | STHang.

Definition serr_eqb (a b : serr) : bool :=
  match a, b with
  | ENil, ENil | EFn, EFn | EPanicErr, EPanicErr | EPanicVal, EPanicVal | ECtx, ECtx
  | EOther, EOther => true
  | _, _ => false
  end.

Definition sres_eqb (a b : sres) : bool :=
  match a, b with
  | SReturns v e, SReturns w g => Nat.eqb v w && serr_eqb e g
  | SWaits, SWaits => true
  | _, _ => false
  end.

(* the caller may be left waiting only by a function that never returns under a context that is
   never cancelled *)
Definition swait_ok (c : scall) (o : sres) : bool :=
  match o with
  | SReturns _ _ => true
  | SWaits => match sc_block c, sc_cancel c with BForever, CNever => true | _, _ => false end
  end.

Fixpoint swaits_ok (cs : list scall) (os : list sres) : bool :=
  match cs, os with
  | c :: cs', o :: os' => swait_ok c o && swaits_ok cs' os'
  | _, _ => true
  end.

Definition sterm_live (t : sterm) : bool := match t with STOk => true | _ => false end.

Definition sandbox_monitor (cs : list scall) (os : list sres) (t : sterm) : bool :=
  sterm_live t && Nat.eqb (length cs) (length os) && swaits_ok cs os.

(* ====================================================================================== *)
(* cases                                                                                  *)
(* ====================================================================================== *)

Inductive v1case :=
| CProc (ms : list pmsg) (ofw : list fwd) (ost : list mstat) (ot : pterm)
| CAcker (fx : bool) (ph : list (list amsg)) (script : list areply) (ost : list mstat) (ot : aterm)
| CSandbox (cs : list scall) (os : list sres) (ot : sterm).

Definition nats_eqb := list_eqb Nat.eqb.

Definition fwd_eqb (a b : fwd) : bool :=
  Nat.eqb (f_idx a) (f_idx b) && v1key_eqb (f_pos a) (f_pos b) && nats_eqb (f_id a) (f_id b) &&
  Bool.eqb (f_filtered a) (f_filtered b).

Definition pterm_eqb (a b : pterm) : bool :=
  match a, b with
  | PTOk, PTOk | PTPanic, PTPanic | PTHang, PTHang => true
  | PTErr f c, PTErr g d => Bool.eqb f g && Bool.eqb c d
  | _, _ => false
  end.

Definition aterm_eqb (a b : aterm) : bool :=
  match a, b with
  | ATOk, ATOk | ATPanic, ATPanic | ATHang, ATHang => true
  | ATErr c, ATErr d => Bool.eqb c d
  | _, _ => false
  end.

(* a panic of the real code kills the process: nothing but the panic is observed *)
Definition proc_agree (ms : list pmsg) (ofw : list fwd) (ost : list mstat) (ot : pterm) : bool :=
  match proc_run 0 ms with
  | V1Ok (fw, st, t) => list_eqb fwd_eqb fw ofw && list_eqb mstat_eqb st ost && pterm_eqb t ot
  | V1Panic _ => pterm_eqb ot PTPanic
  end.

Definition acker_agree (fx : bool) (ph : list (list amsg)) (script : list areply) (ost : list mstat) (ot : aterm) : bool :=
  match acker_feed_run fx ph script with
  | V1Ok (st, t) => list_eqb mstat_eqb st ost && aterm_eqb t ot
  | V1Panic _ => aterm_eqb ot ATPanic
  end.

Definition sandbox_agree (cs : list scall) (os : list sres) (ot : sterm) : bool :=
  list_eqb sres_eqb (map sandbox_call cs) os && sterm_live ot.

(* code agree monitor_ok  +  4 when a panic or a hang was observed *)
Definition chk_v1 (c : v1case) : nat :=
  match c with
  | CProc ms ofw ost ot =>
      code (proc_agree ms ofw ost ot) (proc_monitor ms (ofw, ost, ot))
      + (if pterm_live ot then 0 else 4)
  | CAcker fx ph script ost ot =>
      code (acker_agree fx ph script ost ot) (acker_monitor (concat ph) script (ost, ot))
      + (if aterm_live ot then 0 else 4)
  | CSandbox cs os ot =>
      code (sandbox_agree cs os ot) (sandbox_monitor cs os ot)
      + (if sterm_live ot then 0 else 4)
  end.
