(* The accounting theorem for whole passes of Worker.doTask over a linear chain (C08
   accounting_exact, position part): whatever the processors and the destination reply, the
   positions handed to Source.Ack during a pass are a sub-multiset of the positions of the batch
   read from the source, and all of them when the pass ends without error. *)
From Coq Require Import Permutation.
From Verif Require Import Funnel.Worker Funnel.BatchProofs Funnel.LedgerProofs Funnel.TaskProofs.

Definition noack (w w' : world) : Prop := exists newl, w_log w' = newl ++ w_log w /\ acks_of newl = [].

Lemma noack_refl w : noack w w. Proof. exists []. auto. Qed.
Lemma noack_trans w1 w2 w3 : noack w1 w2 -> noack w2 w3 -> noack w1 w3.
Proof.
  intros [l1 [L1 A1]] [l2 [L2 A2]]. exists (l2 ++ l1). rewrite L2, L1, app_assoc. split; auto.
  rewrite acks_of_app, A1, A2. reflexivity.
Qed.
Lemma quiet_noack {A} (m : M A) w r w' : quiet m -> m w = (r, w') -> noack w w'.
Proof. intros Q H. destruct (Q _ _ _ H) as [_ X]. exact X. Qed.

Lemma task_do_spec c ti b w r w' :
  task_do c ti b w = (r, w') ->
  noack w w' /\ (forall b', r = Ok b' -> keeps b (w_heap w) b' (w_heap w')).
Proof.
  unfold task_do. intros H. destruct (is_last c ti).
  - split.
    + eapply quiet_noack; [|exact H]. apply quiet_dest_do. intros rs. exact I.
    + intros b' ->. eapply dest_do_keeps; eauto.
  - apply bind_inv_M in H. destruct H as [[ins [w1 [H1 H]]]|[H1 Hr]].
    2:{ unfold lift in H1. inversion H1; subst. split; [apply noack_refl|]. intros b' E. exfalso. eapply Hr; eauto. }
    unfold lift in H1. inversion H1; subst w1. clear H1.
    apply bind_inv_M in H. destruct H as [[out [w1 [H1 H]]]|[H1 Hr]].
    2:{ split; [eapply quiet_noack; [apply quiet_process|exact H1]|]. intros b' E. exfalso. eapply Hr; eauto. }
    destruct (quiet_process _ _ _ _ _ _ H1) as [Eh1 N1].
    apply bind_inv_M in H. destruct H as [[h [w2 [H2' H]]]|[H2' Hr]].
    2:{ unfold get_heap in H2'. inversion H2'; subst. destruct r; discriminate. }
    unfold get_heap in H2'. inversion H2'; subst h w2. clear H2'.
    apply bind_inv_M in H. destruct H as [[t [w2 [H3 H]]]|[H3 Hr]].
    2:{ unfold lift in H3. inversion H3; subst. split; [exact N1|]. intros b' E. exfalso. eapply Hr; eauto. }
    unfold lift in H3. inversion H3; subst w2. clear H3. destruct t as [b1 h1].
    unfold bind, put_heap, ret in H. inversion H; subst. simpl.
    split.
    + destruct N1 as [l [L A]]. exists l. simpl. auto.
    + intros b' E. inversion E; subst b'. rewrite <- Eh1. eapply proc_do_keeps; eauto.
Qed.

(* ---------- sub-batches by flag ---------- *)

Lemma same_group_prefix_le f st : same_group_prefix f st <= length st.
Proof. induction st as [|s st IH]; simpl; [lia|]. destruct (flag_group f (fst s)); simpl; lia. Qed.

Lemma same_group_prefix_all f st :
  Forall (fun s : status => flag_group f (fst s) = true) (firstn (same_group_prefix f st) st).
Proof.
  induction st as [|s st IH]; simpl; [constructor|].
  destruct (flag_group f (fst s)) eqn:E; simpl; constructor; auto.
Qed.

Lemma sub_by_flag_spec b first sb :
  sub_by_flag b first = Ok (Some sb) -> lens_ok b ->
  exists last, first < last /\ last <= length (records b) /\
    batch_sub b first last = Ok sb /\ length (positions sb) = last - first /\
    (forall s0, nth_error (statuses sb) 0 = Some s0 -> fst s0 = FNack ->
       Forall (fun s : status => fst s = FNack) (statuses sb)).
Proof.
  unfold sub_by_flag. intros H L. destruct (nth_error (statuses b) first) as [s|] eqn:Es; [|inversion H].
  bind_inv H sb' Hs. inversion H; subst sb'. clear H.
  set (last := first + same_group_prefix (fst s) (skipn first (statuses b))) in *.
  destruct (batch_sub_spec _ _ _ _ Hs L) as [A1 [A2 [_ [Est [Eps _]]]]].
  assert (Hpos : 0 < same_group_prefix (fst s) (skipn first (statuses b))).
  { rewrite (skipn_S_nth _ _ _ Es). simpl. destruct (fst s); simpl; lia. }
  exists last. repeat split; auto; try lia.
  - rewrite Eps. unfold slice. len_simpl. destruct L as [_ [L2 _]]. lia.
  - intros s0 H0 Hf. rewrite Est in *. unfold slice in *.
    replace (last - first) with (same_group_prefix (fst s) (skipn first (statuses b))) in * by lia.
    assert (s0 = s).
    { rewrite (skipn_S_nth _ _ _ Es) in H0. simpl in H0. destruct (flag_group (fst s) (fst s)) eqn:E; simpl in H0.
      - inversion H0; auto.
      - destruct (fst s); discriminate. }
    subst s0. pose proof (same_group_prefix_all (fst s) (skipn first (statuses b))) as F.
    eapply Forall_impl; [|exact F]. intros x Hx. simpl in Hx. rewrite Hf in Hx. destruct (fst x); simpl in Hx; congruence.
Qed.

(* ---------- composition of settled parts ---------- *)

Lemma owed_heap_ext sh h h' ext :
  Forall (entry_ok (length h)) sh -> heap_ext h h' -> owed sh h' ext = owed sh h ext.
Proof.
  intros F [Hl Hx]. unfold owed. f_equal.
  replace (length h') with (length h + (length h' - length h)) by lia.
  rewrite seq_app, filter_app, map_app.
  assert (E2 : filter (due sh ext) (seq (0 + length h) (length h' - length h)) = []).
  { generalize (length h' - length h). intros d.
    assert (X : forall s, length h <= s -> filter (due sh ext) (seq s d) = []).
    { induction d; intros s Hs; simpl; auto. unfold due at 1. rewrite (cnt_zero_entry_ok _ _ _ F Hs). simpl.
      apply IHd. lia. }
    apply X. lia. }
  rewrite E2. simpl. rewrite app_nil_r. apply map_ext_in. intros q Hq.
  apply filter_In in Hq. destruct Hq as [Hq _]. apply in_seq in Hq.
  unfold okey. destruct (nth_error h q) as [x|] eqn:E.
  - destruct (Hx _ _ E) as [x' [E' P]]. rewrite E', P. reflexivity.
  - apply nth_error_None in E. lia.
Qed.

Lemma post_ok_next g tail ext w w1 :
  post g (fun q => ext q + cnt q tail) w (Ok tt) w1 ->
  acct tail (w_heap w1) ext /\ ext0 (w_heap w1) ext /\ heap_ok (w_heap w1) /\
  heap_ext (w_heap w) (w_heap w1).
Proof.
  intros [l [rest [_ [_ H]]]]. destruct (H eq_refl) as [_ [HE [HO [AC E0]]]].
  split; [|split; [|split; auto]].
  - intros q x Hx. pose proof (AC _ _ Hx) as A. rewrite cnt_nil in A. cbn beta in A. lia.
  - intros q Hq. pose proof (E0 _ Hq) as A. cbn beta in A. lia.
Qed.

Lemma post_seq g tail ext w r1 w1 r w' :
  Forall (entry_ok (length (w_heap w))) tail ->
  post g (fun q => ext q + cnt q tail) w r1 w1 ->
  ((forall v, r1 <> Ok v) /\ (forall v, r <> Ok v) /\ w' = w1 \/ r1 = Ok tt /\ post tail ext w1 r w') ->
  post (g ++ tail) ext w r w'.
Proof.
  intros Wt [l1 [rest1 [L1 [P1 H1]]]] [[Hr1 [Hr ->]]|[-> [l2 [rest2 [L2 [P2 H2]]]]]].
  - exists l1, (rest1 ++ owed tail (w_heap w) ext). split; auto. split.
    + rewrite app_assoc. etransitivity; [apply Permutation_app_tail, P1|]. symmetry. apply owed_app.
    + intros E. exfalso. eapply Hr; eauto.
  - destruct (H1 eq_refl) as [-> [HE [HO [AC E0]]]]. rewrite app_nil_r in P1.
    rewrite (owed_heap_ext tail (w_heap w) (w_heap w1)) in P2 by auto.
    exists (l2 ++ l1), rest2. split; [now rewrite L2, L1, app_assoc|]. split.
    + rewrite acks_of_app. etransitivity; [|symmetry; apply owed_app].
      rewrite <- app_assoc. etransitivity; [apply Permutation_app_head, Permutation_app_comm|].
      rewrite app_assoc. etransitivity; [apply Permutation_app_tail, P2|].
      etransitivity; [apply Permutation_app_comm|]. apply Permutation_app_tail. exact P1.
    + intros E. destruct (H2 E) as [-> [HE2 [HO2 [AC2 E02]]]].
      split; [reflexivity|]. split; [eapply heap_ext_trans; eauto|]. auto.
Qed.

(* a quiet prefix that keeps the invariants *)
Lemma post_transfer sh sh1 ext w w1 r w' :
  noack w w1 -> heap_ext (w_heap w) (w_heap w1) ->
  Permutation (owed sh1 (w_heap w1) ext) (owed sh (w_heap w) ext) ->
  post sh1 ext w1 r w' -> post sh ext w r w'.
Proof.
  intros [l0 [L0 A0]] HE P [l [rest [L [P1 H]]]].
  exists (l ++ l0), rest. split; [now rewrite L, L0, app_assoc|]. split.
  - rewrite acks_of_app, A0, app_nil_r. etransitivity; eauto.
  - intros E. destruct (H E) as [-> [HE2 X]]. split; [reflexivity|]. split; [eapply heap_ext_trans; eauto|auto].
Qed.

Lemma post_weaken sh ext w r r' w' :
  (r' = Ok tt -> r = Ok tt) -> post sh ext w r w' -> post sh ext w r' w'.
Proof.
  intros Hr [newl [rest [L [P H]]]]. exists newl, rest. split; [exact L|]. split; [exact P|]. intros E. apply H. apply Hr. exact E.
Qed.

Lemma vote_spec c b isAck task ext w r w' :
  vote c b isAck task w = (r, w') -> Inv b (w_heap w) ext ->
  (isAck = false -> Forall (fun s : status => snd s <> None) (statuses b)) ->
  post (shape_of b) ext w r w'.
Proof.
  intros H [[L Wsh Wn] AC E0 HO] Hst. unfold vote in H.
  change (shape_of b) with (skipn 0 (shape_of b)).
  eapply vote_loop_spec; eauto. lia.
Qed.

(* ---------- the tainted loop ---------- *)

Definition settles_all (f : batch -> M unit) : Prop :=
  forall sb w r w', f sb w = (r, w') -> forall ext, Inv sb (w_heap w) ext -> post (shape_of sb) ext w r w'.

Lemma post_done sh ext w : sh = [] -> acct sh (w_heap w) ext -> ext0 (w_heap w) ext -> heap_ok (w_heap w) ->
  post sh ext w (Ok tt) w.
Proof.
  intros -> AC E0 HO. exists [], []. rewrite owed_nil. simpl. repeat split; auto. apply heap_ext_refl.
Qed.

Lemma tloop_spec c ti b retry next again ext :
  lens_ok b -> nack_has_err (statuses b) ->
  settles_all next -> (forall nx, settles_all (fun sb => again sb nx)) ->
  forall n idx w r w',
    tloop c ti b retry next again n idx w = (r, w') ->
    Forall (entry_ok (length (w_heap w))) (skipn idx (shape_of b)) ->
    acct (skipn idx (shape_of b)) (w_heap w) ext -> ext0 (w_heap w) ext -> heap_ok (w_heap w) ->
    post (skipn idx (shape_of b)) ext w r w'.
Proof.
  intros L Wn Hnext Hagain.
  assert (Lsh : length (shape_of b) = length (statuses b)).
  { destruct L as [L1 [L2 [rl [Hrl L3]]]]. unfold shape_of, rl_of. rewrite Hrl, combine_length. lia. }
  induction n as [|n IH]; intros idx w r w' H Wsh AC E0 HO; simpl in H.
  { destruct (length (statuses b) <=? idx) eqn:E.
    - apply Nat.leb_le in E. unfold ret in H. inversion H; subst. apply post_done; auto.
      apply skipn_all2. lia.
    - unfold lift in H. inversion H; subst. apply post_fail; [discriminate|exists []; auto]. }
  apply bind_inv_M in H. destruct H as [[osb [w0 [H0 H]]]|[H0 Hr]].
  2:{ unfold lift in H0. inversion H0; subst. apply post_fail; auto. exists []; auto. }
  unfold lift in H0. inversion H0; subst w0. clear H0. rename H2 into Hsub.
  destruct osb as [sb|].
  2:{ unfold ret in H. inversion H; subst. apply post_done; auto.
      unfold sub_by_flag in Hsub. destruct (nth_error (statuses b) idx) eqn:E.
      - bind_inv Hsub x Hx. discriminate.
      - apply nth_error_None in E. apply skipn_all2. lia. }
  destruct (sub_by_flag_spec _ _ _ Hsub L) as [last [Hl1 [Hl2 [Hbs [Hspan Hnackall]]]]].
  destruct (batch_sub_spec _ _ _ _ Hbs L) as [_ [_ [Er [Est [Eps [Esh [_ Lsb]]]]]]].
  set (g := shape_of sb) in *. set (tail := skipn last (shape_of b)).
  assert (Esplit : skipn idx (shape_of b) = g ++ tail).
  { rewrite Esh. apply skipn_slice. lia. }
  rewrite Esplit in Wsh, AC |- *. apply Forall_app in Wsh. destruct Wsh as [Wg Wt].
  rewrite Hspan in H. replace (idx + (last - idx)) with last in H by lia.
  set (ext' := fun q => ext q + cnt q tail).
  assert (Isb : Inv sb (w_heap w) ext').
  { constructor; auto.
    - constructor; auto. rewrite Est. apply Forall_slice. exact Wn.
    - intros q x Hx. pose proof (AC _ _ Hx) as A. rewrite cnt_app in A. unfold ext'. fold g. lia.
    - intros q Hq. unfold ext'. rewrite (E0 _ Hq). rewrite (cnt_zero_entry_ok _ _ _ Wt Hq). reflexivity. }
  apply bind_inv_M in H. destruct H as [[s0 [w0 [H0 H]]]|[H0 Hr]].
  2:{ unfold lift in H0. inversion H0; subst. apply post_fail; auto. exists []; auto. }
  unfold lift in H0. inversion H0; subst w0. clear H0. rename H2 into Hs0. apply nth_chk_ok in Hs0.
  (* the work on the sub-batch *)
  set (mid := match fst s0 with
              | FAck | FFilter => if is_last c ti || negb (has_active sb) then vote c sb true 0 else next sb
              | FNack => nack_vote c sb ti
              | FRetry =>
                  sb' <-- lift (batch_ack sb 0 (Some (length (records sb)))) ;;;
                  nx <-- lift (retry_next (N.to_nat (c_maxattempts c)) (N.to_nat (c_maxstall c)) retry (length (records sb'))) ;;;
                  again sb' nx
              end) in *.
  assert (Hmid : forall r1 w1, mid w = (r1, w1) -> post g ext' w r1 w1).
  { intros r1 w1 Hm. unfold mid in Hm. destruct (fst s0) eqn:Ef.
    - destruct (is_last c ti || negb (has_active sb)).
      + eapply vote_spec; eauto. discriminate.
      + eapply Hnext; eauto.
    - unfold nack_vote in Hm. apply fatalize_inv in Hm. destruct Hm as [r0 [Hm Hr0]].
      eapply post_weaken with (r := r0).
      { destruct Hr0 as [->|[e [e' [_ ->]]]]; [auto|discriminate]. }
      eapply vote_spec; eauto. intros _.
      specialize (Hnackall _ Hs0 Ef). destruct Isb as [[_ _ Nsb] _ _ _].
      unfold nack_has_err in Nsb. rewrite Forall_forall in *. intros s Hs. apply Nsb; auto.
    - apply bind_inv_M in Hm. destruct Hm as [[sb' [w2 [H2 Hm]]]|[H2 Hr]].
      2:{ unfold lift in H2. inversion H2; subst. apply post_fail; auto. exists []; auto. }
      assert (Hack : batch_ack sb 0 (Some (length (records sb))) = Ok sb' /\ w2 = w)
        by (unfold lift in H2; inversion H2; auto).
      destruct Hack as [Hack ->]. clear H2.
      apply bind_inv_M in Hm. destruct Hm as [[nx [w2 [H2 Hm]]]|[H2 Hr]].
      2:{ unfold lift in H2. inversion H2; subst. apply post_fail; auto. exists []; auto. }
      unfold lift in H2. inversion H2; subst w2. clear H2.
      destruct (batch_ack_keeps _ _ _ _ (w_heap w) Hack ext' Isb) as [Isb' [_ _]].
      assert (Eg : shape_of sb' = g).
      { apply batch_ack_shape in Hack. destruct Hack as [Hp [Hr' _]]. unfold g, shape_of, rl_of. now rewrite Hp, Hr'. }
      rewrite <- Eg. eapply Hagain; eauto.
    - destruct (is_last c ti || negb (has_active sb)).
      + eapply vote_spec; eauto. discriminate.
      + eapply Hnext; eauto. }
  apply bind_inv_M in H. destruct H as [[u [w1 [H1 H]]]|[H1 Hr]].
  - destruct u. pose proof (Hmid _ _ H1) as P1.
    destruct (post_ok_next _ _ _ _ _ P1) as [AC1 [E01 [HO1 HE1]]].
    eapply post_seq; eauto. right. split; auto. apply IH; auto.
    eapply Forall_entry_ok_len; [|exact Wt]. apply HE1.
  - pose proof (Hmid _ _ H1) as P1. eapply post_seq; eauto. left.
    split; [|split; auto]. destruct r; discriminate.
Qed.

(* ---------- doTaskAttempt ---------- *)

Lemma attempt_spec : forall fuel c ti retry, settles_all (fun b => attempt fuel c ti b retry).
Proof.
  induction fuel as [|f IH]; intros c ti retry b w r w' H ext I; cbn [attempt] in H.
  { unfold lift in H. inversion H; subst. apply post_fail; [discriminate|exists []; auto]. }
  apply bind_inv_M in H. destruct H as [[b1 [w1 [H1 H]]]|[H1 Hr]].
  2:{ destruct (task_do_spec _ _ _ _ _ _ H1) as [N _]. apply post_fail; auto. }
  destruct (task_do_spec _ _ _ _ _ _ H1) as [N K]. specialize (K _ eq_refl ext I).
  destruct K as [I1 [HE P]].
  eapply post_transfer; eauto.
  destruct (negb (tainted b1)).
  - destruct (is_last c ti || negb (has_active b1)).
    + eapply vote_spec; eauto. discriminate.
    + eapply IH; eauto.
  - destruct I1 as [[L1 Wsh1 Wn1] AC1 E01 HO1].
    change (shape_of b1) with (skipn 0 (shape_of b1)).
    assert (Hn : settles_all (fun sb => attempt f c (ti + 1) sb None)) by apply IH.
    assert (Ha : forall nx, settles_all (fun sb => attempt f c ti sb (Some nx))) by (intros nx; apply IH).
    exact (tloop_spec c ti b1 retry _ _ ext L1 Wn1 Hn Ha _ _ _ _ _ H Wsh1 AC1 E01 HO1).
Qed.

(* ---------- one pass ---------- *)

Definition src_nonnil (c : cfg) : Prop := Forall (fun r : rec => rpos r <> None) (c_recs c).

Lemma shape_new_batch rs : shape_of (new_batch rs) = map (fun r => (None, rpos r)) rs.
Proof.
  unfold shape_of, rl_of, new_batch. cbn [runs positions]. induction rs; simpl; auto. f_equal. auto.
Qed.

Lemma Inv_new_batch rs :
  Forall (fun r : rec => rpos r <> None) rs -> Inv (new_batch rs) [] (fun _ => 0).
Proof.
  intros F. constructor.
  - constructor.
    + unfold lens_ok, new_batch. cbn. len_simpl. repeat split; auto. eexists; split; [reflexivity|]. now len_simpl.
    + rewrite shape_new_batch. apply Forall_forall. intros e He. apply in_map_iff in He.
      destruct He as [r [<- Hr]]. unfold entry_ok. simpl. rewrite Forall_forall in F. auto.
    + unfold nack_has_err, new_batch. cbn. apply Forall_forall. intros s Hs. apply repeat_spec in Hs. subst s.
      simpl. discriminate.
  - intros r x Hx. destruct r; discriminate.
  - intros r _. reflexivity.
  - constructor.
Qed.

Lemma owed_new_batch rs ext : owed (shape_of (new_batch rs)) [] ext = map (fun r => pkey (rpos r)) rs.
Proof.
  unfold owed. simpl. rewrite app_nil_r, shape_new_batch. unfold alone_keys.
  induction rs; simpl; auto. f_equal. auto.
Qed.

Lemma pass_spec fuel c w r w' :
  pass fuel c w = (r, w') -> w_heap w = [] -> src_nonnil c ->
  exists newl rest, w_log w' = newl ++ w_log w /\
    Permutation (acks_of newl ++ rest) (map (fun r => pkey (rpos r)) (c_recs c)) /\
    (r = Ok tt -> rest = []).
Proof.
  unfold pass. intros H Hh F.
  destruct (fx_srcpos (c_fix c) && existsb pos_len0 (map rpos (c_recs c))).
  { unfold fail in H. inversion H; subst. exists [], (map (fun r => pkey (rpos r)) (c_recs c)).
    repeat split; auto. discriminate. }
  pose proof (Inv_new_batch _ F) as I. rewrite <- Hh in I.
  assert (P : post (shape_of (new_batch (c_recs c))) (fun _ => 0) w r w').
  { destruct (negb (has_active (new_batch (c_recs c)))).
    - eapply vote_spec; eauto. discriminate.
    - eapply attempt_spec; eauto. }
  destruct P as [newl [rest [L [P Hok]]]]. rewrite Hh, owed_new_batch in P.
  exists newl, rest. repeat split; auto. intros E. apply Hok in E. tauto.
Qed.

Lemma acks_of_rev l : Permutation (acks_of (rev l)) (acks_of l).
Proof.
  induction l as [|e l IH]; simpl; auto. rewrite acks_of_app. simpl. rewrite app_nil_r.
  etransitivity; [apply Permutation_app_comm|]. apply Permutation_app_head. exact IH.
Qed.

(* C08 accounting_exact, position part, for every configuration, every reply script and every
   fuel: the positions acked to the source are a sub-multiset of the positions read, and exactly
   those when the pass ends without error *)
Theorem accounting_positions fuel c :
  src_nonnil c ->
  exists rest,
    Permutation (acks_of (fst (run_case_fuel fuel c)) ++ rest) (map (fun r => pkey (rpos r)) (c_recs c)) /\
    (snd (run_case_fuel fuel c) = TOk -> rest = []).
Proof.
  intros F. unfold run_case_fuel. destruct (pass fuel c (w0 c)) as [r w'] eqn:E.
  destruct (pass_spec _ _ _ _ _ E eq_refl F) as [newl [rest [L [P Hok]]]].
  simpl in L. rewrite app_nil_r in L. exists rest. simpl. split.
  - rewrite L. etransitivity; [apply Permutation_app_tail, acks_of_rev|]. exact P.
  - intros Ht. apply Hok. destruct r; try discriminate. destruct a. reflexivity.
Qed.

(* ---------- subbatches_partition (the #2722 class) ---------- *)

(* the (first, last) pairs of the sub-batches the tainted loop makes, as computed by subBatchByFlag
   with the cursor advanced by the span captured BEFORE the sub-batch is handed to a task *)
Fixpoint spans (st : list status) (idx n : nat) : list (nat * nat) :=
  match n with
  | 0 => []
  | S n' =>
      match nth_error st idx with
      | None => []
      | Some s => let last := idx + same_group_prefix (fst s) (skipn idx st) in
                  (idx, last) :: spans st last n'
      end
  end.

(* consecutive, non-empty, from [from] to [to] *)
Fixpoint contiguous (l : list (nat * nat)) (from to : nat) : Prop :=
  match l with
  | [] => from = to
  | (a, b) :: r => a = from /\ a < b /\ contiguous r b to
  end.

Lemma spans_partition st : forall n idx, length st - idx < n -> idx <= length st ->
  contiguous (spans st idx n) idx (length st).
Proof.
  induction n as [|n IH]; intros idx Hn Hi; [lia|]. simpl.
  destruct (nth_error st idx) as [s|] eqn:E.
  - assert (Hlt : idx < length st) by (apply nth_error_Some; congruence).
    pose proof (same_group_prefix_le (fst s) (skipn idx st)) as Hle. rewrite skipn_length in Hle.
    assert (Hpos : 0 < same_group_prefix (fst s) (skipn idx st)).
    { rewrite (skipn_S_nth _ _ _ E). simpl. destruct (fst s); simpl; lia. }
    simpl. repeat split; try lia. apply IH; lia.
  - apply nth_error_None in E. simpl. lia.
Qed.

(* the loop really uses these pairs: the sub-batch made at cursor idx is b[idx:last], and the next
   cursor is last whatever the callee did to the sub-batch *)
Lemma tloop_step c ti b retry next again n idx sb :
  lens_ok b -> sub_by_flag b idx = Ok (Some sb) ->
  exists s last, nth_error (statuses b) idx = Some s /\
    last = idx + same_group_prefix (fst s) (skipn idx (statuses b)) /\
    batch_sub b idx last = Ok sb /\
    tloop c ti b retry next again (S n) idx =
    (s0 <-- lift (nth_chk (statuses sb) 0 SStatusIdx) ;;;
     (match fst s0 with
      | FAck | FFilter => if is_last c ti || negb (has_active sb) then vote c sb true 0 else next sb
      | FNack => nack_vote c sb ti
      | FRetry =>
          sb' <-- lift (batch_ack sb 0 (Some (length (records sb)))) ;;;
          nx <-- lift (retry_next (N.to_nat (c_maxattempts c)) (N.to_nat (c_maxstall c)) retry (length (records sb'))) ;;;
          again sb' nx
      end) ;;;
     tloop c ti b retry next again n last).
Proof.
  intros L H. pose proof H as H'. unfold sub_by_flag in H'.
  destruct (nth_error (statuses b) idx) as [s|] eqn:E; [|discriminate].
  bind_inv H' x Hx. inversion H'; subst x. clear H'.
  exists s, (idx + same_group_prefix (fst s) (skipn idx (statuses b))). repeat split; auto.
  destruct (batch_sub_spec _ _ _ _ Hx L) as [A1 [A2 [_ [_ [Eps _]]]]].
  cbn [tloop]. rewrite H. unfold bind at 1. unfold lift at 1.
  assert (Es : idx + length (positions sb) = idx + same_group_prefix (fst s) (skipn idx (statuses b))).
  { rewrite Eps. unfold slice. len_simpl. destruct L as [_ [L2 _]]. lia. }
  rewrite Es. reflexivity.
Qed.

(* ---------- retry_terminates (the #2726 class) ---------- *)

(* the retry chain as a function of the sizes of the consecutive retry groups *)
Fixpoint retry_chain (maxA maxS : nat) (retry : option retry_t) (sizes : list nat) : res (option retry_t) :=
  match sizes with
  | [] => Ok retry
  | s :: r => nx <- retry_next maxA maxS retry s ;; retry_chain maxA maxS (Some nx) r
  end.

Lemma retry_next_stall maxA maxS count psize pstall size :
  psize <= size -> maxS <= pstall + 1 ->
  retry_next maxA maxS (Some (count, psize, pstall)) size = Refused (mkE true CRetry XRetryStall).
Proof.
  intros H1 H2. unfold retry_next. destruct (psize <=? size) eqn:E; [|apply Nat.leb_gt in E; lia].
  destruct (maxS <=? pstall + 1) eqn:E2; [reflexivity|apply Nat.leb_gt in E2; lia].
Qed.

(* sizes that never shrink: n further rounds raise the stall counter by n *)
Lemma retry_chain_fixpoint maxA maxS : forall sizes count psize pstall,
  Forall (fun s => s = psize) sizes -> maxS <= pstall + length sizes -> pstall < maxS ->
  exists e, retry_chain maxA maxS (Some (count, psize, pstall)) sizes = Refused e /\
            e_fatal e = true /\ e_code e = CRetry.
Proof.
  induction sizes as [|s sizes IH]; intros count psize pstall F Hm H0; simpl in *; [lia|].
  inversion F; subst. rewrite Nat.leb_refl.
  destruct (maxS <=? pstall + 1) eqn:E1; simpl.
  - eexists. repeat split; reflexivity.
  - apply Nat.leb_gt in E1. destruct (maxA <? count + 1); simpl.
    + eexists. repeat split; reflexivity.
    + apply IH; auto. lia.
Qed.

(* a strictly shrinking retry group is never refused for stalling *)
Lemma retry_next_progress maxA maxS count psize pstall size :
  size < psize -> 0 < maxS -> count + 1 <= maxA ->
  retry_next maxA maxS (Some (count, psize, pstall)) size = Ok (count + 1, size, 0).
Proof.
  intros H1 H2 H3. unfold retry_next. destruct (psize <=? size) eqn:E; [apply Nat.leb_le in E; lia|].
  destruct (maxS <=? 0) eqn:E2; [apply Nat.leb_le in E2; lia|].
  destruct (maxA <? count + 1) eqn:E3; [apply Nat.ltb_lt in E3; lia|reflexivity].
Qed.
