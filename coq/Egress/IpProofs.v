(* Proofs about the egress IP classifier model (Ip.v) and the interval cover (Cover.v).
   Everything here is for ALL addresses (2^32 / 2^128) and for ANY guard configuration: the
   tables of the code enter only through the hypothesis [covers_cfg cfg = true], which the
   driver re-establishes by vm_compute on the configuration regenerated from the Go source. *)
From Coq Require Import ZArith Lia ZifyBool ZifyN.
From Verif Require Import Egress.Ip Egress.Cover.
Local Open Scope N_scope.

Ltac Zify.zify_post_hook ::= Z.div_mod_to_equations.

(* evaluate closed powers of two so that lia sees literals (by rewriting with a proved
   equation, not by [change]: the kernel then never has to convert a whole goal) *)
Ltac norm_pow_in n :=
  let v := eval vm_compute in (2 ^ n) in
  let E := fresh "E" in
  assert (E : 2 ^ n = v) by (vm_compute; reflexivity);
  rewrite !E in *; clear E.
Ltac norm_pows :=
  repeat match goal with
         | |- context [2 ^ ?n] =>
             lazymatch n with
             | context [_ + _] => fail
             | _ => is_ground n; norm_pow_in n
             end
         | H : context [2 ^ ?n] |- _ =>
             lazymatch n with
             | context [_ + _] => fail
             | _ => is_ground n; norm_pow_in n
             end
         end.

Ltac norm_ip4 :=
  repeat match goal with
         | |- context [ip4 ?a ?b ?c ?d] =>
             let v := eval vm_compute in (ip4 a b c d) in
             let E := fresh "E" in
             assert (E : ip4 a b c d = v) by (vm_compute; reflexivity);
             rewrite !E in *; clear E
         | H : context [ip4 ?a ?b ?c ?d] |- _ =>
             let v := eval vm_compute in (ip4 a b c d) in
             let E := fresh "E" in
             assert (E : ip4 a b c d = v) by (vm_compute; reflexivity);
             rewrite !E in *; clear E
         end.

Lemma pow2_pos : forall s, 0 < 2 ^ s.
Proof. intros s. apply N.neq_0_lt_0, N.pow_nonzero. discriminate. Qed.

(* ---------- intervals and guards ---------- *)

Lemma in_iv_spec : forall x i, in_iv x i = true <-> fst i <= x <= snd i.
Proof. intros x [lo hi]; unfold in_iv; cbn [fst snd]. lia. Qed.

Lemma in_ivs_spec : forall x l, in_ivs x l = true <-> exists i, In i l /\ in_iv x i = true.
Proof. intros x l. unfold in_ivs. apply existsb_exists. Qed.

(* a CIDR contains every address of its interval *)
Lemma in_cidr_of_iv : forall bits c x,
  in_iv x (cidr_iv bits c) = true -> in_cidr bits c x = true.
Proof.
  intros bits c x Hx. apply in_iv_spec in Hx. unfold cidr_iv in Hx; cbn [fst snd] in Hx.
  unfold in_cidr. set (s := bits - snd c) in *.
  rewrite N.shiftl_mul_pow2 in Hx. rewrite !N.shiftr_div_pow2 in *.
  pose proof (pow2_pos s) as HP. set (P := 2 ^ s) in *.
  set (q := fst c / P) in *. destruct Hx as [Hlo Hhi].
  apply N.eqb_eq. symmetry. apply N.div_unique with (r := x - q * P); lia.
Qed.

Lemma div_mono : forall a b p, a <= b -> a / p <= b / p.
Proof.
  intros a b p H. destruct (N.eq_dec p 0) as [->|Hp].
  - destruct a, b; cbn; lia.
  - apply N.div_le_mono; assumption.
Qed.

(* a validated byte test holds on the whole interval *)
Lemma btest_of_iv : forall bits i t x,
  btest_on_iv bits i t = true -> in_iv x i = true ->
  match t with (k, c, v) => cmp_b c (byte bits x k) v = true end.
Proof.
  intros bits [lo hi] [[k c] v] x Hv Hx. apply in_iv_spec in Hx; cbn [fst snd] in Hx.
  unfold btest_on_iv in Hv; cbn [fst snd] in Hv. unfold byte.
  set (s := bits - 8 * (N.of_nat k + 1)) in *.
  rewrite !N.shiftr_div_pow2 in *.
  pose proof (div_mono lo x (2 ^ s) (proj1 Hx)) as H1.
  pose proof (div_mono x hi (2 ^ s) (proj2 Hx)) as H2.
  set (ql := lo / 2 ^ s) in *. set (qh := hi / 2 ^ s) in *. set (q := x / 2 ^ s) in *.
  apply andb_true_iff in Hv as [Hv Hc]. apply andb_true_iff in Hv as [_ Hq].
  apply N.eqb_eq in Hq.
  assert (Hb : ql mod 256 <= q mod 256 <= qh mod 256) by (clearbody ql qh q; clear - H1 H2 Hq; lia).
  set (bl := ql mod 256) in *. set (bh := qh mod 256) in *. set (bx := q mod 256) in *.
  clearbody bl bh bx. clear - Hb Hc. destruct c; cbn [cmp_b]; lia.
Qed.

Lemma btests_of_iv : forall bits i ts x,
  forallb (btest_on_iv bits i) ts = true -> in_iv x i = true -> btests_hold bits x ts = true.
Proof.
  intros bits i ts x Hall Hx. unfold btests_hold. apply forallb_forall. intros [[k c] v] Hin.
  rewrite forallb_forall in Hall. exact (btest_of_iv bits i (k, c, v) x (Hall _ Hin) Hx).
Qed.

Lemma byte_high_zero : forall x k, x < 2 ^ 32 -> (k < 12)%nat -> byte 128 x k = 0.
Proof.
  intros x k Hx Hk. unfold byte. rewrite N.shiftr_div_pow2.
  rewrite N.div_small; [reflexivity|].
  eapply N.lt_le_trans; [exact Hx|]. apply N.pow_le_mono_r; lia.
Qed.

Lemma compat_of_iv : forall x, in_iv x compat_iv = true -> v4compat x = true.
Proof.
  intros x Hx. apply in_iv_spec in Hx. unfold compat_iv in Hx; cbn [fst snd] in Hx.
  assert (Hlt : x < 2 ^ 32) by (norm_pows; norm_pows; lia).
  unfold v4compat. apply andb_true_iff; split.
  - apply forallb_forall. intros k Hk. apply in_seq in Hk.
    rewrite byte_high_zero by lia. reflexivity.
  - unfold byte. rewrite !N.shiftr_div_pow2.
    change (128 - 8 * (N.of_nat 12 + 1)) with 24. change (128 - 8 * (N.of_nat 13 + 1)) with 16.
    change (128 - 8 * (N.of_nat 14 + 1)) with 8. change (128 - 8 * (N.of_nat 15 + 1)) with 0.
    norm_pows. lia.
Qed.

Lemma table_reason_of_iv : forall bits t x i,
  In i (map (fun e => cidr_iv bits (fst e)) t) -> in_iv x i = true ->
  table_reason bits t x <> None.
Proof.
  intros bits t x i. induction t as [|[c r] t IH]; cbn [map In table_reason]; [tauto|].
  intros [<-|Hin] Hx.
  - cbn [fst] in Hx. rewrite (in_cidr_of_iv _ _ _ Hx). discriminate.
  - destruct (in_cidr bits c x); [discriminate|]. exact (IH Hin Hx).
Qed.

Lemma guard_ivs_sound : forall bits g i x,
  In i (guard_ivs bits g) -> in_iv x i = true -> guard_reason bits x g <> None.
Proof.
  intros bits g i x Hin Hx. destruct g as [t|c r|ts r|r]; cbn [guard_ivs guard_reason] in *.
  - exact (table_reason_of_iv bits t x i Hin Hx).
  - destruct Hin as [<-|[]]. rewrite (in_cidr_of_iv _ _ _ Hx). discriminate.
  - destruct ((fst (bytes_box bits ts) <=? snd (bytes_box bits ts))
              && forallb (btest_on_iv bits (bytes_box bits ts)) ts) eqn:Hv; [|destruct Hin].
    destruct Hin as [<-|[]]. apply andb_true_iff in Hv as [_ Hv].
    rewrite (btests_of_iv _ _ _ _ Hv Hx). discriminate.
  - destruct (bits =? 128) eqn:Hb; [|destruct Hin]. destruct Hin as [<-|[]].
    cbn [andb]. rewrite (compat_of_iv _ Hx). discriminate.
Qed.

Lemma first_reason_some : forall bits x gs g,
  In g gs -> guard_reason bits x g <> None -> first_reason bits x gs <> None.
Proof.
  intros bits x gs g. induction gs as [|g' gs IH]; cbn [In first_reason]; [tauto|].
  intros [Heq|Hin] Hg.
  - subst g'. destruct (guard_reason bits x g); [discriminate|congruence].
  - destruct (guard_reason bits x g'); [discriminate|]. exact (IH Hin Hg).
Qed.

Lemma first_reason_none : forall bits x gs,
  first_reason bits x gs = None -> forall g, In g gs -> guard_reason bits x g = None.
Proof.
  intros bits x gs. induction gs as [|g' gs IH]; cbn [In first_reason]; [tauto|].
  intros H g [Heq|Hin]; destruct (guard_reason bits x g') eqn:E; try discriminate; [subst g'; exact E|auto].
Qed.

Lemma clip_sound : forall lo hi i j x,
  In j (clip lo hi i) -> in_iv x j = true -> in_iv x i = true /\ lo <= x <= hi.
Proof.
  intros lo hi [a b] j x Hin Hx. unfold clip in Hin; cbn [fst snd] in Hin.
  destruct (N.max lo a <=? N.min hi b) eqn:E; [|destruct Hin]. destruct Hin as [<-|[]].
  apply in_iv_spec in Hx; cbn [fst snd] in Hx. rewrite in_iv_spec; cbn [fst snd]. lia.
Qed.

Lemma guards_ivs_sound : forall bits gs i x,
  In i (flat_map (guard_ivs bits) gs) -> in_iv x i = true -> first_reason bits x gs <> None.
Proof.
  intros bits gs i x Hin Hx. apply in_flat_map in Hin as [g [Hg Hi]].
  exact (first_reason_some bits x gs g Hg (guard_ivs_sound bits g i x Hi Hx)).
Qed.

Lemma ivs4_sound : forall cfg x,
  in_ivs x (ivs4 cfg) = true -> x <= max4 /\ first_reason 32 x (g4 cfg) <> None.
Proof.
  intros cfg x H. apply in_ivs_spec in H as [j [Hj Hx]]. unfold ivs4 in Hj.
  apply in_flat_map in Hj as [i [Hi Hj]].
  destruct (clip_sound _ _ _ _ _ Hj Hx) as [Hxi Hb]. split; [lia|].
  exact (guards_ivs_sound 32 _ i x Hi Hxi).
Qed.

(* ---------- refuse, by representation ---------- *)

Definition is_some {A} (o : option A) : bool := match o with Some _ => true | None => false end.

Lemma refused_A4 : forall cfg n, refused cfg (A4 n) = is_some (first_reason 32 n (g4 cfg)).
Proof. intros. unfold refused, refuse. cbn [to16 to4 is16]. destruct (first_reason 32 n (g4 cfg)); reflexivity. Qed.

Lemma to4_mapped : forall v, v <= max4 -> to4 (A16 (mapped_base + v)) = Some v.
Proof.
  intros v Hv. unfold max4 in Hv. cbn [to4]. rewrite N.shiftr_div_pow2.
  unfold mapped_base. norm_pows.
  replace ((65535 * 4294967296 + v) / 4294967296) with 65535 by lia.
  cbn [N.eqb Pos.eqb]. f_equal. lia.
Qed.

Lemma to4_not_mapped : forall x, x < mapped_base \/ mapped_base + 2 ^ 32 <= x -> to4 (A16 x) = None.
Proof.
  intros x Hx. cbn [to4]. rewrite N.shiftr_div_pow2. unfold mapped_base in Hx. norm_pows.
  destruct (x / 4294967296 =? 65535) eqn:E; [|reflexivity]. lia.
Qed.

Lemma refused_A16_mapped : forall cfg v, v <= max4 ->
  refused cfg (A16 (mapped_base + v)) = is_some (first_reason 32 v (g4 cfg)).
Proof.
  intros cfg v Hv. unfold refused, refuse. cbn [to16]. rewrite (to4_mapped v Hv).
  destruct (first_reason 32 v (g4 cfg)); reflexivity.
Qed.

Lemma refused_A16_plain : forall cfg x, x < mapped_base \/ mapped_base + 2 ^ 32 <= x ->
  refused cfg (A16 x) = is_some (first_reason 128 x (g6 cfg)).
Proof.
  intros cfg x Hx. unfold refused, refuse. cbn [to16]. rewrite (to4_not_mapped x Hx).
  destruct (first_reason 128 x (g6 cfg)); reflexivity.
Qed.

Lemma is_some_ne : forall A (o : option A), o <> None -> is_some o = true.
Proof. intros A [a|] H; [reflexivity|congruence]. Qed.

Lemma ivs6_sound : forall cfg x, in_ivs x (ivs6 cfg) = true -> refused cfg (A16 x) = true.
Proof.
  intros cfg x H. apply in_ivs_spec in H as [j [Hj Hx]]. unfold ivs6 in Hj.
  apply in_app_or in Hj as [Hj|Hj].
  - apply in_map_iff in Hj as [i [<- Hi]]. apply in_iv_spec in Hx. unfold shift_iv in Hx; cbn [fst snd] in Hx.
    assert (Hv : in_ivs (x - mapped_base) (ivs4 cfg) = true).
    { apply in_ivs_spec. exists i. split; [exact Hi|]. apply in_iv_spec. lia. }
    destruct (ivs4_sound cfg _ Hv) as [Hb Hr].
    replace x with (mapped_base + (x - mapped_base)) by lia.
    rewrite refused_A16_mapped by exact Hb. apply is_some_ne, Hr.
  - apply in_flat_map in Hj as [i [Hi Hj]]. apply in_app_or in Hj.
    assert (Hxi : in_iv x i = true /\ (x < mapped_base \/ mapped_base + 2 ^ 32 <= x)).
    { destruct Hj as [Hj|Hj]; destruct (clip_sound _ _ _ _ _ Hj Hx) as [Hxi Hb]; split; try exact Hxi.
      - left. unfold mapped_base in *. norm_pows. lia.
      - right. lia. }
    destruct Hxi as [Hxi Hnm]. rewrite refused_A16_plain by exact Hnm.
    apply is_some_ne. exact (guards_ivs_sound 128 _ i x Hi Hxi).
Qed.

(* ---------- the cover procedure ---------- *)

Lemma best_hi_sound : forall l p h, best_hi l p = Some h ->
  forall x, p <= x <= h -> in_ivs x l = true.
Proof.
  induction l as [|i l IH]; cbn [best_hi]; [discriminate|].
  intros p h Hb x Hx. cbn [in_ivs existsb]. fold (in_ivs x l).
  destruct (in_iv p i) eqn:Hpi.
  - apply in_iv_spec in Hpi.
    destruct (N.le_gt_cases x (snd i)) as [Hle|Hgt].
    + assert (in_iv x i = true) as -> by (apply in_iv_spec; lia). reflexivity.
    + destruct (best_hi l p) as [h'|] eqn:Hr.
      * injection Hb as <-. rewrite (IH p h' Hr x) by lia. apply orb_true_r.
      * injection Hb as <-. lia.
  - rewrite (IH p h Hb x Hx). apply orb_true_r.
Qed.

Lemma cover1_sound : forall fuel l lo hi, cover1 fuel l lo hi = None ->
  forall x, lo <= x <= hi -> in_ivs x l = true.
Proof.
  induction fuel as [|f IH]; cbn [cover1]; [discriminate|].
  intros l lo hi H x Hx. destruct (best_hi l lo) as [h|] eqn:Hb; [|discriminate].
  destruct (N.le_gt_cases x h) as [Hle|Hgt].
  - exact (best_hi_sound l lo h Hb x (conj (proj1 Hx) Hle)).
  - destruct (hi <=? h) eqn:E; [lia|]. apply (IH l (h + 1) hi H). lia.
Qed.

Theorem covers_sound : forall spec l, covers spec l = true ->
  forall x, in_ivs x spec = true -> in_ivs x l = true.
Proof.
  intros spec l Hc x Hx. apply in_ivs_spec in Hx as [i [Hi Hx]].
  unfold covers in Hc. rewrite forallb_forall in Hc. specialize (Hc i Hi).
  unfold gap in Hc. destruct (cover1 _ l (fst i) (snd i)) eqn:E; [discriminate|].
  apply in_iv_spec in Hx. exact (cover1_sound _ l _ _ E x Hx).
Qed.

(* ---------- the floor lies inside its interval form ---------- *)

Lemma floor4_spec4 : forall ip, ip < 2 ^ 32 -> floor4 ip = true -> in_ivs ip spec4 = true.
Proof.
  intros ip Hb H. unfold floor4 in H. unfold in_ivs, spec4, in_iv; cbn [existsb fst snd].
  norm_ip4. norm_pows. lia.
Qed.

Lemma spec4_floor4 : forall ip, in_ivs ip spec4 = true -> floor4 ip = true /\ ip < 2 ^ 32.
Proof.
  intros ip H. unfold in_ivs, spec4, in_iv in H; cbn [existsb fst snd] in H.
  unfold floor4. norm_ip4. norm_pows. lia.
Qed.

Lemma embed_iv_sound : forall p s v x l,
  N.shiftr x (s + 32) = p -> N.shiftr x s mod 2 ^ 32 = v -> in_ivs v l = true ->
  in_ivs x (map (embed_iv p s) l) = true.
Proof.
  intros p s v x l Hp Hv Hl. apply in_ivs_spec in Hl as [[a b] [Hi Hab]].
  apply in_ivs_spec. exists (embed_iv p s (a, b)). split; [apply in_map; exact Hi|].
  apply in_iv_spec in Hab; cbn [fst snd] in Hab. apply in_iv_spec. unfold embed_iv; cbn [fst snd].
  rewrite N.shiftr_div_pow2 in Hp, Hv. rewrite N.pow_add_r in *.
  pose proof (pow2_pos s) as HS. set (S := 2 ^ s) in *.
  rewrite <- N.div_div in Hp by (norm_pows; lia).
  set (q := x / S) in *.
  assert (Hx : x = q * S + x mod S) by (unfold q; rewrite N.mul_comm; apply N.div_mod; lia).
  assert (Hr : x mod S < S) by (apply N.mod_lt; lia).
  set (r := x mod S) in *.
  assert (Hq : q = p * 2 ^ 32 + v).
  { subst p v. rewrite N.mul_comm. apply N.div_mod. norm_pows. lia. }
  assert (H1 : a * S <= v * S) by (apply N.mul_le_mono_r; lia).
  assert (H2 : v * S <= b * S) by (apply N.mul_le_mono_r; lia).
  rewrite Hx, Hq. norm_pows. lia.
Qed.

Lemma embeds_spec : forall p s ip, embeds p s ip = true ->
  in_ivs ip (map (embed_iv p s) spec4) = true.
Proof.
  intros p s ip H. unfold embeds in H. apply andb_true_iff in H as [Hp Hf].
  apply N.eqb_eq in Hp. apply (embed_iv_sound p s (N.shiftr ip s mod 2 ^ 32)); auto.
  apply floor4_spec4; [|exact Hf]. apply N.mod_lt. norm_pows. lia.
Qed.

Lemma in_ivs_app : forall x l1 l2, in_ivs x (l1 ++ l2) = in_ivs x l1 || in_ivs x l2.
Proof. intros. unfold in_ivs. apply existsb_app. Qed.

Lemma floor6_spec6 : forall ip, ip < 2 ^ 128 -> floor6 ip = true -> in_ivs ip spec6 = true.
Proof.
  intros ip Hb H. unfold floor6 in H. unfold spec6. rewrite !in_ivs_app.
  repeat (apply orb_true_iff in H; destruct H as [H|H]);
    lazymatch type of H with
    | embeds _ _ _ = true =>
        rewrite (embeds_spec _ _ _ H); rewrite ?orb_true_r; reflexivity
    | (_ && _) = true =>
        (* Teredo client: the interval form asks for the whole block *)
        apply andb_true_iff in H as [H _]; rewrite N.shiftr_div_pow2 in H;
        assert (Hin : in_ivs ip spec6_teredo = true)
          by (unfold in_ivs, spec6_teredo, in_iv; cbn [existsb fst snd]; norm_pows; lia);
        rewrite Hin; rewrite ?orb_true_r; reflexivity
    | _ =>
        assert (Hin : in_ivs ip spec6_base = true)
          by (try rewrite N.shiftr_div_pow2 in H;
              unfold in_ivs, spec6_base, in_iv; cbn [existsb fst snd]; norm_pows; lia);
        rewrite Hin; reflexivity
    end.
Qed.

(* ---------- coverage theorems ---------- *)

Theorem refuse_covers_floor_v4 : forall cfg, covers spec4 (ivs4 cfg) = true ->
  forall ip, ip < 2 ^ 32 -> floor4 ip = true -> refused cfg (A4 ip) = true.
Proof.
  intros cfg Hc ip Hb Hf. rewrite refused_A4. apply is_some_ne.
  exact (proj2 (ivs4_sound cfg ip (covers_sound _ _ Hc ip (floor4_spec4 ip Hb Hf)))).
Qed.

Theorem refuse_covers_floor_v6 : forall cfg, covers spec6 (ivs6 cfg) = true ->
  forall ip, ip < 2 ^ 128 -> floor6 ip = true -> refused cfg (A16 ip) = true.
Proof.
  intros cfg Hc ip Hb Hf. apply ivs6_sound.
  exact (covers_sound _ _ Hc ip (floor6_spec6 ip Hb Hf)).
Qed.

Theorem refuse_covers_floor : forall cfg, covers_cfg cfg = true ->
  forall a, wf_addr a = true -> floor a = true -> refused cfg a = true.
Proof.
  intros cfg Hc a Hw Hf. unfold covers_cfg in Hc. apply andb_true_iff in Hc as [H4 H6].
  destruct a as [n|n|]; cbn [wf_addr floor] in *.
  - apply (refuse_covers_floor_v4 cfg H4 n); [lia|exact Hf].
  - apply (refuse_covers_floor_v6 cfg H6 n); [lia|exact Hf].
  - reflexivity.
Qed.

(* what "not refused" means: readable, outside the floor, and no guard of its path fires *)
Definition path_guards (cfg : guard_cfg) (a : addr) : list guard * N * N :=
  match to4 a, to16 a with
  | Some v4, _ => (g4 cfg, 32, v4)
  | None, Some x => (g6 cfg, 128, x)
  | None, None => ([], 0, 0)
  end.

Theorem not_refused_is_public : forall cfg, covers_cfg cfg = true ->
  forall a, wf_addr a = true -> refused cfg a = false ->
  a <> Abad /\ floor a = false /\
  (match path_guards cfg a with (gs, bits, x) => forall g, In g gs -> guard_reason bits x g = None end).
Proof.
  intros cfg Hc a Hw Hr. split; [|split].
  - intros ->. discriminate Hr.
  - destruct (floor a) eqn:Hf; [|reflexivity]. rewrite (refuse_covers_floor cfg Hc a Hw Hf) in Hr. discriminate.
  - unfold refused, refuse in Hr. unfold path_guards.
    destruct a as [n|n|]; cbn [to16 to4] in *; [| |discriminate].
    + destruct (first_reason 32 n (g4 cfg)) eqn:E; [discriminate|]. exact (first_reason_none _ _ _ E).
    + destruct (N.shiftr n 32 =? 65535).
      * destruct (first_reason 32 (n mod 2 ^ 32) (g4 cfg)) eqn:E; [discriminate|]. exact (first_reason_none _ _ _ E).
      * destruct (first_reason 128 n (g6 cfg)) eqn:E; [discriminate|]. exact (first_reason_none _ _ _ E).
Qed.

(* the verdict does not depend on the representation of an IPv4 address *)
Theorem refused_reparse : forall cfg a, wf_addr a = true -> refused cfg (reparse a) = refused cfg a.
Proof.
  intros cfg a Hw. destruct a as [n|n|]; cbn [reparse to16 wf_addr] in *; [|reflexivity|reflexivity].
  rewrite refused_A16_mapped by (unfold max4; norm_pows; lia). rewrite refused_A4. reflexivity.
Qed.

Lemma ip_equal_reparse_r : forall a b, ip_equal a (reparse b) = ip_equal a b.
Proof. intros a b. unfold ip_equal, reparse. destruct (to16 b); reflexivity. Qed.
