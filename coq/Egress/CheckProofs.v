(* The tie between the two bits of [chk]: whenever the real code did what the model does
   (bit 0 clear), the property monitor accepts it (bit 1 clear) - for every case, every
   configuration that covers the floor, positive default constants.  Hence a monitor
   rejection can only come from behaviour that left the model. *)
From Coq Require Import Lia.
From Verif Require Import Base.CaseCheck Egress.Ip Egress.Cover Egress.IpProofs Egress.Policy
  Egress.PolicyProofs Egress.Dial Egress.DialProofs Egress.Check.
Local Open Scope string_scope.

Lemma code_cases : forall a m, code a m <> 2%nat <-> (a = true -> m = true).
Proof. intros [|] [|]; cbn; split; intros; try congruence; try lia; try (exfalso; auto; fail). Qed.

Lemma bool_eqb_true : forall a b, Bool.eqb a b = true -> a = b.
Proof. intros [|] [|]; cbn; congruence. Qed.

Lemma addr_eqb_eq : forall a b, addr_eqb a b = true -> a = b.
Proof.
  intros [x|x|] [y|y|]; cbn; try discriminate; try reflexivity; intros H; apply N.eqb_eq in H; congruence.
Qed.

Lemma oaddr_eqb_eq : forall a b, oaddr_eqb a b = true -> a = b.
Proof. intros [x|] [y|]; cbn; try discriminate; try reflexivity. intros H. f_equal. apply addr_eqb_eq. exact H. Qed.

Lemma entry_eqb_eq : forall e c, entry_eqb e c = true -> e = c.
Proof.
  intros [s h p i] [s' h' p' i']. unfold entry_eqb. cbn [e_scheme e_host e_port e_ip]. intros H.
  apply andb_true_iff in H as [H Hi]. apply andb_true_iff in H as [H Hp]. apply andb_true_iff in H as [Hs Hh].
  apply String.eqb_eq in Hs, Hh, Hp. apply oaddr_eqb_eq in Hi. congruence.
Qed.

Lemma list_eqb_sound {A} (eqb : A -> A -> bool) :
  (forall a b, eqb a b = true -> a = b) -> forall l1 l2, list_eqb eqb l1 l2 = true -> l1 = l2.
Proof.
  intros H. induction l1 as [|a l1 IH]; intros [|b l2]; cbn; try discriminate; try reflexivity.
  intros E. apply andb_true_iff in E as [E1 E2]. f_equal; [apply H; exact E1|apply IH; exact E2].
Qed.

Lemma conn_eqb_eq : forall x y, conn_eqb x y = true -> x = y.
Proof.
  intros [a s] [b t]. unfold conn_eqb. cbn [fst snd]. intros H. apply andb_true_iff in H as [H1 H2].
  apply addr_eqb_eq in H1. apply String.eqb_eq in H2. congruence.
Qed.

Lemma policy_eqb_fields : forall p q, policy_eqb p q = true ->
  p_enabled p = p_enabled q /\ p_allow p = p_allow q /\ p_secrets p = p_secrets q /\
  p_timeout p = p_timeout q /\ p_maxresp p = p_maxresp q.
Proof.
  intros p q H. unfold policy_eqb in H.
  apply andb_true_iff in H as [H Hm]. apply andb_true_iff in H as [H Ht].
  apply andb_true_iff in H as [H Hs]. apply andb_true_iff in H as [He Ha].
  apply bool_eqb_true in He. apply (list_eqb_sound entry_eqb entry_eqb_eq) in Ha.
  apply (list_eqb_sound String.eqb (fun a b => proj1 (String.eqb_eq a b))) in Hs.
  apply Z.eqb_eq in Ht, Hm. tauto.
Qed.

Lemma policy_eqb_eq : forall p q, policy_eqb p q = true -> p = q.
Proof.
  intros p q H. destruct (policy_eqb_fields p q H) as (H1 & H2 & H3 & H4 & H5).
  destruct p, q. cbn in *. congruence.
Qed.

Theorem chk_agree_implies_monitor : forall cfg k c,
  covers_cfg cfg = true -> (0 < default_timeout k)%Z -> (0 < default_max k)%Z ->
  chk cfg k c <> 2%nat.
Proof.
  intros cfg k c Hc Ht Hm. destruct c; cbn [chk]; apply code_cases; intros Hag.
  - (* Refuse *)
    apply andb_true_iff in Hag as [Hag _]. apply andb_true_iff in Hag as [Hw Hr].
    apply bool_eqb_true in Hr. destruct (floor a) eqn:Hf; [|reflexivity]. cbn [negb orb].
    rewrite <- Hr. exact (refuse_covers_floor cfg Hc a Hw Hf).
  - (* ResolvePolicy *)
    apply andb_true_iff in Hag as [He _]. apply policy_eqb_eq in He. rewrite <- He.
    exact (resolve_monitor k req ceil Ht Hm).
  - reflexivity.
  - (* carve-out *)
    apply bool_eqb_true in Hag. rewrite Hag. destruct obs; reflexivity.
  - (* ParseAllowEntry *)
    destruct obs as [e|]; [|reflexivity]. unfold parse_entry in Hag.
    destruct (host =? ""); [discriminate|].
    destruct ((match scheme with Some s => s | None => "https" end) =? "http").
    + destruct ip as [a|]; [|discriminate]. destruct (refused cfg a); [|discriminate].
      cbn [oentry_eqb] in Hag. apply entry_eqb_eq in Hag. subst e. cbn [e_ip]. cbn. apply addr_eqb_refl.
    + cbn [oentry_eqb] in Hag. apply entry_eqb_eq in Hag. subst e. cbn [e_ip].
      destruct ip as [a|]; cbn; [apply addr_eqb_refl|reflexivity].
  - (* dial plan *)
    apply andb_true_iff in Hag as [Hw He]. apply (list_eqb_sound addr_eqb addr_eqb_eq) in He.
    rewrite <- He. exact (dial_plan_reparsed_connects_ok cfg Hc p cands port Hw).
  - (* Do against listeners *)
    apply andb_true_iff in Hag as [Hag Ho]. apply andb_true_iff in Hag as [Hw He].
    rewrite Ho, andb_true_r.
    apply (list_eqb_sound conn_eqb conn_eqb_eq) in He. rewrite <- He.
    destruct (p_enabled p && match_host_port p scheme host port reqip); [|reflexivity].
    destruct (dial cfg p port (fun a => existsb (ip_equal a) listening) cands) as [l oc] eqn:Ed. cbn [snd].
    destruct oc as [c0|]; [|reflexivity]. cbn [forallb fst snd]. rewrite String.eqb_refl, andb_true_r. cbn [andb].
    destruct (dial_attempts_in_plan cfg p port _ cands l (Some c0) Ed) as [Hpl Hconn].
    destruct (Hconn c0 eq_refl) as [Hin _]. specialize (Hpl c0 Hin).
    unfold dial_plan in Hpl. apply filter_In in Hpl as [Hc0 Had].
    rewrite forallb_forall in Hw.
    exact (admitted_connect_ok_reparsed cfg Hc p port c0 (Hw c0 Hc0) Had).
  - (* bulk *) reflexivity.
Qed.
