(* Reflective interval cover.  From a guard configuration we compute a list of closed
   intervals on which the classifier certainly refuses ([ivs4]/[ivs6]); [covers spec ivs]
   decides that every interval of [spec] lies inside the union of [ivs].  The per-run
   obligation over the regenerated configuration is just  [covers_cfg gen_cfg = true]
   (vm_compute); IpProofs.v proves once and for all that it implies the coverage theorems.
   The procedure is sound, not complete: a guard shape it cannot turn into an interval simply
   contributes none.  Definitions only. *)
From Verif Require Import Egress.Ip.
Local Open Scope N_scope.

Definition iv := (N * N)%type.          (* closed interval [lo, hi] *)

Definition in_iv (x : N) (i : iv) : bool := (fst i <=? x) && (x <=? snd i).
Definition in_ivs (x : N) (l : list iv) : bool := existsb (in_iv x) l.

(* ---------- intervals of guards ---------- *)

Definition cidr_iv (bits : N) (c : cidr) : iv :=
  let s := bits - snd c in
  let lo := N.shiftl (N.shiftr (fst c) s) s in
  (lo, lo + 2^s - 1).

(* does  ip[i] <cmp> v  hold for every address of the interval?  Checked through the range
   [bl, bh] the byte takes on it (valid when everything above the byte is constant). *)
Definition btest_on_iv (bits : N) (i : iv) (t : btest) : bool :=
  match t with
  | (k, c, v) =>
      let s := bits - 8 * (N.of_nat k + 1) in
      let ql := N.shiftr (fst i) s in
      let qh := N.shiftr (snd i) s in
      let bl := ql mod 256 in
      let bh := qh mod 256 in
      (8 * (N.of_nat k + 1) <=? bits) && (ql / 256 =? qh / 256) &&
      match c with
      | Ceq => (bl =? v) && (bh =? v)
      | Cne => (bh <? v) || (v <? bl)
      | Cge => v <=? bl
      | Cgt => v <? bl
      | Cle => bh <=? v
      | Clt => bh <? v
      end
  end.

(* candidate box of a conjunction of byte tests: per byte position the least and greatest
   admitted value (unconstrained bytes 0..255); used only if [btest_on_iv] validates it *)
Definition byte_min (ts : list btest) (k : nat) : N :=
  fold_left (fun acc t => match t with
                          | (k', c, v) => if Nat.eqb k k' then
                                            match c with Ceq | Cge => N.max acc v | Cgt => N.max acc (v + 1) | _ => acc end
                                          else acc
                          end) ts 0.
Definition byte_max (ts : list btest) (k : nat) : N :=
  fold_left (fun acc t => match t with
                          | (k', c, v) => if Nat.eqb k k' then
                                            match c with Ceq | Cle => N.min acc v | Clt => N.min acc (v - 1) | _ => acc end
                                          else acc
                          end) ts 255.

Definition bytes_box (bits : N) (ts : list btest) : iv :=
  let n := N.to_nat (bits / 8) in
  (fold_left (fun acc k => acc * 256 + byte_min ts k) (seq 0 n) 0,
   fold_left (fun acc k => acc * 256 + byte_max ts k) (seq 0 n) 0).

Definition compat_iv : iv := (2, 2^32 - 1).

Definition guard_ivs (bits : N) (g : guard) : list iv :=
  match g with
  | GTable t => map (fun e => cidr_iv bits (fst e)) t
  | GCidr c _ => [cidr_iv bits c]
  | GBytes ts _ =>
      let b := bytes_box bits ts in
      if (fst b <=? snd b) && forallb (btest_on_iv bits b) ts then [b] else []
  | GCompat _ => if bits =? 128 then [compat_iv] else []
  end.

Definition clip (lo hi : N) (i : iv) : list iv :=
  let a := N.max lo (fst i) in
  let b := N.min hi (snd i) in
  if a <=? b then [(a, b)] else [].

Definition max4 : N := 2^32 - 1.
Definition max6 : N := 2^128 - 1.

Definition ivs4 (cfg : guard_cfg) : list iv :=
  flat_map (clip 0 max4) (flat_map (guard_ivs 32) (g4 cfg)).

Definition shift_iv (d : N) (i : iv) : iv := (d + fst i, d + snd i).

(* 16-byte addresses: the v4-mapped block is classified by the v4 path, the rest by [g6] *)
Definition ivs6 (cfg : guard_cfg) : list iv :=
  map (shift_iv mapped_base) (ivs4 cfg)
  ++ flat_map (fun i => clip 0 (mapped_base - 1) i ++ clip (mapped_base + 2^32) max6 i)
              (flat_map (guard_ivs 128) (g6 cfg)).

(* ---------- cover ---------- *)

(* greatest upper end among the intervals containing p *)
Fixpoint best_hi (l : list iv) (p : N) : option N :=
  match l with
  | [] => None
  | i :: l' =>
      let r := best_hi l' p in
      if in_iv p i then
        match r with Some h => Some (N.max h (snd i)) | None => Some (snd i) end
      else r
  end.

(* None: [lo,hi] is covered; Some p: p is a point of [lo,hi] no interval contains *)
Fixpoint cover1 (fuel : nat) (l : list iv) (lo hi : N) : option N :=
  match fuel with
  | O => Some lo
  | S f =>
      match best_hi l lo with
      | None => Some lo
      | Some h => if hi <=? h then None else cover1 f l (h + 1) hi
      end
  end.

Definition gap (l : list iv) (i : iv) : option N := cover1 (S (List.length l)) l (fst i) (snd i).

Definition covers (spec l : list iv) : bool :=
  forallb (fun i => match gap l i with None => true | Some _ => false end) spec.

(* for the search after a broken obligation: every spec interval that is not covered, with
   the first uncovered point *)
Definition gaps (spec l : list iv) : list (iv * N) :=
  flat_map (fun i => match gap l i with None => [] | Some p => [(i, p)] end) spec.

(* ---------- the floor as intervals ---------- *)

Definition spec4 : list iv :=
  [ (0, ip4 0 255 255 255);
    (ip4 10 0 0 0, ip4 10 255 255 255);
    (ip4 100 64 0 0, ip4 100 127 255 255);
    (ip4 127 0 0 0, ip4 127 255 255 255);
    (ip4 169 254 0 0, ip4 169 254 255 255);
    (ip4 172 16 0 0, ip4 172 31 255 255);
    (ip4 192 168 0 0, ip4 192 168 255 255);
    (ip4 224 0 0 0, ip4 255 255 255 255) ].

(* the addresses  p : v4 : (s free bits)  with v4 in [a,b] *)
Definition embed_iv (p s : N) (i : iv) : iv :=
  (p * 2^(s + 32) + fst i * 2^s, p * 2^(s + 32) + snd i * 2^s + (2^s - 1)).

Definition spec6_base : list iv :=
  [ (0, 1);                                                  (* ::, ::1 *)
    (0x3fa * 2^118, 0x3fa * 2^118 + (2^118 - 1));            (* fe80::/10 *)
    (0x3fb * 2^118, 0x3fb * 2^118 + (2^118 - 1));            (* fec0::/10 *)
    (0x7e * 2^121, 0x7e * 2^121 + (2^121 - 1));              (* fc00::/7 *)
    (0xff * 2^120, 0xff * 2^120 + (2^120 - 1)) ].            (* ff00::/8 *)

(* Teredo client addresses are stored bit-inverted in the low 32 bits, under 2^64 different
   server/flag/port fields: not a small union of intervals.  The interval form of the spec
   asks for the whole Teredo block 2001:0::/32, a superset (floor6 itself is exact). *)
Definition spec6_teredo : list iv :=
  [ (0x20010000 * 2^96, 0x20010000 * 2^96 + (2^96 - 1)) ].

Definition spec6 : list iv :=
  spec6_base
  ++ map (embed_iv 0xffff 0) spec4
  ++ map (embed_iv 0 0) spec4
  ++ map (embed_iv 0xffff0000 0) spec4
  ++ map (embed_iv 0x64ff9b0000000000000000 0) spec4
  ++ map (embed_iv 0x2002 80) spec4
  ++ map (embed_iv 0x20010000 64) spec4
  ++ spec6_teredo.

Definition covers_cfg (cfg : guard_cfg) : bool :=
  covers spec4 (ivs4 cfg) && covers spec6 (ivs6 cfg).
