(* Executable correspondence + property monitors for the C18 case files.
   [chk cfg k c]: bit 0 = the model (over the regenerated configuration [cfg] and constants
   [k]) disagrees with what the real code did; bit 1 = the property monitor rejects what the
   real code did.  The monitors refer to the independent floor ([floor], [connect_ok],
   [le_ceiling_b]), never to the tables of the code. *)
From Verif Require Import Base.CaseCheck Egress.Ip Egress.Policy Egress.Dial.
Local Open Scope string_scope.

Inductive ecase :=
(* egress.Refuse(ip) *)
| CRefuse (a : addr) (obs_refused : bool) (obs_reason : string)
(* egress.ResolvePolicy(req, ceil) *)
| CResolve (req ceil : policy) (obs_eff : policy) (obs_dropped : list entry)
(* Policy.MatchHostPort; reqip = net.ParseIP(strings.ToLower(host)) *)
| CMatch (p : policy) (scheme host port : string) (reqip : option addr) (obs : bool)
(* Policy.matchesCarveOut (through the verif hook) *)
| CCarve (p : policy) (a : addr) (port : string) (obs : bool)
(* egress.ParseAllowEntry on the rendering of a structured entry; ip = net.ParseIP(host) *)
| CParse (scheme : option string) (host : string) (port : option string) (ip : option addr)
         (obs : option entry)
(* Service.dialContext over a recording base dialer whose Control is Service.dialControl:
   obs = the addresses (as parsed back from the text Control saw) for which Control let the
   connect proceed *)
| CPlan (p : policy) (port : string) (cands : list addr) (obs_attempts : list addr)
(* Service.Do against local listeners: listening = addresses with a listener on [port];
   obs_conns = accepted connections (listener address, listener port); obs_other = hits on
   the proxy listener named in HTTP(S)_PROXY and on redirect targets *)
| CDo (p : policy) (scheme host port : string) (reqip : option addr) (cands listening : list addr)
      (obs_conns : list (addr * string)) (obs_other : nat)
(* bulk comparison done Go-side against a Go transcription of the same configuration *)
| CBulk (n mismatches : N).

Definition policy_eqb (p q : policy) : bool :=
  Bool.eqb (p_enabled p) (p_enabled q)
  && list_eqb entry_eqb (p_allow p) (p_allow q)
  && list_eqb String.eqb (p_secrets p) (p_secrets q)
  && (p_timeout p =? p_timeout q)%Z && (p_maxresp p =? p_maxresp q)%Z.

Definition oentry_eqb (a b : option entry) : bool :=
  match a, b with
  | Some x, Some y => entry_eqb x y
  | None, None => true
  | _, _ => false
  end.

Definition conn_eqb (x y : addr * string) : bool :=
  addr_eqb (fst x) (fst y) && String.eqb (snd x) (snd y).

Definition chk (cfg : guard_cfg) (k : consts) (c : ecase) : nat :=
  match c with
  | CRefuse a obs r =>
      let m := refuse cfg a in
      code (wf_addr a && Bool.eqb (fst m) obs && String.eqb (snd m) r)
           (negb (floor a) || obs)
  | CResolve req ceil eff dropped =>
      let m := resolve k req ceil in
      code (policy_eqb (fst m) eff && list_eqb entry_eqb (snd m) dropped)
           (le_ceiling_b req ceil eff)
  | CMatch p scheme host port reqip obs =>
      code (Bool.eqb (match_host_port p scheme host port reqip) obs) true
  | CCarve p a port obs =>
      code (Bool.eqb (carve_out p a port) obs) (negb obs || carve_out p a port)
  | CParse scheme host port ip obs =>
      code (oentry_eqb (parse_entry cfg scheme host port ip) obs)
           (match obs with Some e => oaddr_eqb (e_ip e) ip | None => true end)
  | CPlan p port cands obs =>
      code (forallb wf_addr cands && list_eqb addr_eqb (map reparse (dial_plan cfg p cands port)) obs)
           (connects_ok p port obs)
  | CDo p scheme host port reqip cands listening conns other =>
      let expected :=
        if p_enabled p && match_host_port p scheme host port reqip then
          match snd (dial cfg p port (fun a => existsb (ip_equal a) listening) cands) with
          | Some c => [(reparse c, port)]
          | None => []
          end
        else [] in
      code (forallb wf_addr cands && list_eqb conn_eqb expected conns && Nat.eqb other 0)
           (forallb (fun x => String.eqb (snd x) port && connect_ok p port (fst x)) conns
            && Nat.eqb other 0)
  | CBulk _ mism => code (mism =? 0)%N true
  end.
