(* Static copy of what the translator (harness/cmd/c18 --mode snapshot) yields on the pinned tree,
   used only for the non-vacuity examples of Properties/C18.v; the per-run obligations are
   stated over the configuration regenerated on every run (out/C18/gen/GenEgress.v).
   GENERATED from /repo/pkg/plugin/processor/egress
   (ipguard.go, policy.go, service.go). Do not edit. *)
From Verif Require Import Egress.Ip Egress.Policy.
Local Open Scope string_scope.
Local Open Scope N_scope.

Definition snapshot_cfg : guard_cfg := mkCfg
  (* classifyV4 *)
  [
    GTable [
      ((2130706432, 8), "v4_loopback_or_any")  (* 127.0.0.0/8 *);
      ((0, 8), "v4_loopback_or_any")  (* 0.0.0.0/8 *);
      ((167772160, 8), "v4_private")  (* 10.0.0.0/8 *);
      ((2886729728, 12), "v4_private")  (* 172.16.0.0/12 *);
      ((3232235520, 16), "v4_private")  (* 192.168.0.0/16 *);
      ((2851995648, 16), "v4_link_local_or_metadata")  (* 169.254.0.0/16 *);
      ((1681915904, 10), "v4_cgnat")  (* 100.64.0.0/10 *)
    ];
    GBytes [(0%nat, Cge, 224)] "reserved_or_multicast"
  ]
  (* Refuse, after the To4 branch *)
  [
    GCidr (524413980667603649783483181312245760, 96) "nat64_embedded_v4";
    GCidr (18446462598732840960, 96) "v4_translated_embedded";
    GBytes [(0%nat, Ceq, 32); (1%nat, Ceq, 2)] "6to4_embedded_v4";
    GBytes [(0%nat, Ceq, 32); (1%nat, Ceq, 1); (2%nat, Ceq, 0); (3%nat, Ceq, 0)] "teredo_embedded_v4";
    GCompat "v4_compatible_embedded";
    GTable [
      ((1, 128), "v6_loopback_or_unspecified")  (* ::1/128 *);
      ((0, 128), "v6_loopback_or_unspecified")  (* ::/128 *);
      ((338288524927261089654018896841347694592, 10), "v6_link_local")  (* fe80::/10 *);
      ((338620831926207318622244848606417780736, 10), "v6_site_local")  (* fec0::/10 *);
      ((334965454937798799971759379190646833152, 7), "v6_ula")  (* fc00::/7 *)
    ];
    GBytes [(0%nat, Ceq, 255)] "reserved_or_multicast"
  ]
  "unparseable_ip" "v4_mapped_embedded" "".

Definition snapshot_consts : consts := mkConsts 30000000000%Z 4194304%Z.

Definition snapshot_reserved_headers : list string := [":authority"; "Accept-Encoding"; "Authorization"; "Connection"; "Content-Length"; "Host"; "Keep-Alive"; "Proxy-Authorization"; "Proxy-Connection"; "Te"; "Trailer"; "Transfer-Encoding"; "Upgrade"].
Definition snapshot_proxy_nil : bool := true.
Definition snapshot_redirect_refused : bool := true.
Definition snapshot_control_hooked : bool := true.
Definition snapshot_dialcontext_hooked : bool := true.
Definition snapshot_no_other_dialer : bool := true.
