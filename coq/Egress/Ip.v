(* Model of the egress IP classifier, pkg/plugin/processor/egress/ipguard.go.

   Addresses are numbers: an IPv4 address is an [N] below 2^32, an IPv6 address an [N] below
   2^128 (network byte order, byte 0 is the most significant).  A Go [net.IP] is a byte slice,
   so the same IPv4 address has two representations (4 bytes, or 16 bytes with ten zero bytes
   followed by ff ff); [addr] keeps that tag because [Refuse] looks at it ([To4], [len(ip)]).

   [refuse] is a branch-by-branch transcription of [Refuse]/[classifyV4] over a *configuration*
   ([guard_cfg]): the ordered list of guards of the v4 path and of the v6 path.  The
   configuration is not written here: it is regenerated from the Go source on every run
   (out/C18/gen/GenEgress.v) by the translator in harness/cmd/c18 (--mode gen); a copy of what
   the pinned tree yields is in Snapshot.v for the static non-vacuity examples.

   The second half of the file is the INDEPENDENT specification: [floor4]/[floor6] say which
   addresses the property requires to be refused, as interval tests written from the RFCs
   (RFC 1122, 1918, 3927, 6598, 5771/1112, 4291, 4193, 3879, 4038, 6052, 3056, 4380), without
   reference to the tables of the code.  Definitions only; proofs are in IpProofs.v. *)
From Coq Require Export NArith List Bool String.
Export ListNotations.
Local Open Scope N_scope.

(* ---------- addresses and their Go representation ---------- *)

Inductive addr :=
| A4 (n : N)      (* len(ip) == 4 *)
| A16 (n : N)     (* len(ip) == 16 *)
| Abad.           (* nil, or any other length *)

Definition wf_addr (a : addr) : bool :=
  match a with A4 n => n <? 2^32 | A16 n => n <? 2^128 | Abad => true end.

Definition mapped_base : N := 0xffff * 2^32.            (* ::ffff:0.0.0.0 *)

(* net.IP.To4: the 4-byte form, or the 16-byte form whose first ten bytes are 0 and the next
   two ff ff; nil otherwise. *)
Definition to4 (a : addr) : option N :=
  match a with
  | A4 n => Some n
  | A16 n => if N.shiftr n 32 =? 0xffff then Some (n mod 2^32) else None
  | Abad => None
  end.

(* net.IP.To16 *)
Definition to16 (a : addr) : option N :=
  match a with
  | A4 n => Some (mapped_base + n)
  | A16 n => Some n
  | Abad => None
  end.

Definition is16 (a : addr) : bool := match a with A16 _ => true | _ => false end.

(* net.IP.Equal: same bytes, or a 4-byte and a 16-byte v4-mapped form of one address *)
Definition ip_equal (a b : addr) : bool :=
  match to16 a, to16 b with
  | Some x, Some y => x =? y
  | _, _ => false
  end.

(* ip.String() followed by net.ParseIP (what dialContext hands to the base dialer and
   dialControl parses back): ParseIP returns the 16-byte form also for dotted IPv4 text. *)
Definition reparse (a : addr) : addr :=
  match to16 a with Some x => A16 x | None => Abad end.

(* ---------- guards ---------- *)

(* byte [i] of a [bits]-wide address *)
Definition byte (bits : N) (x : N) (i : nat) : N :=
  N.shiftr x (bits - 8 * (N.of_nat i + 1)) mod 256.

Inductive cmp := Ceq | Cne | Cge | Cgt | Cle | Clt.

Definition cmp_b (c : cmp) (x v : N) : bool :=
  match c with
  | Ceq => x =? v | Cne => negb (x =? v)
  | Cge => v <=? x | Cgt => v <? x
  | Cle => x <=? v | Clt => x <? v
  end.

(* one conjunct  ip[i] <cmp> v *)
Definition btest := (nat * cmp * N)%type.

Definition btests_hold (bits x : N) (ts : list btest) : bool :=
  forallb (fun t => match t with (i, c, v) => cmp_b c (byte bits x i) v end) ts.

(* a CIDR literal: (network address, prefix length); IPNet.Contains masks and compares *)
Definition cidr := (N * N)%type.

Definition in_cidr (bits : N) (c : cidr) (x : N) : bool :=
  N.shiftr x (bits - snd c) =? N.shiftr (fst c) (bits - snd c).

(* isV4Compatible(ip16): first 12 bytes zero and the last four not 0.0.0.0 / 0.0.0.1 *)
Definition v4compat (x : N) : bool :=
  forallb (fun i => byte 128 x i =? 0) (seq 0 12)
  && (negb (byte 128 x 12 =? 0) || negb (byte 128 x 13 =? 0) || negb (byte 128 x 14 =? 0)
      || (negb (byte 128 x 15 =? 0) && negb (byte 128 x 15 =? 1))).

Inductive guard :=
| GTable (t : list (cidr * string))   (* for _, r := range tbl { if r.net.Contains(ip) { return r.reason } } *)
| GCidr (c : cidr) (r : string)       (* if someNet.Contains(ip16) { return true, r } *)
| GBytes (ts : list btest) (r : string) (* if ip[i] == v && ... { return r } *)
| GCompat (r : string).               (* if isV4Compatible(ip16) { return true, r } *)

Fixpoint table_reason (bits : N) (t : list (cidr * string)) (x : N) : option string :=
  match t with
  | [] => None
  | (c, r) :: t' => if in_cidr bits c x then Some r else table_reason bits t' x
  end.

Definition guard_reason (bits : N) (x : N) (g : guard) : option string :=
  match g with
  | GTable t => table_reason bits t x
  | GCidr c r => if in_cidr bits c x then Some r else None
  | GBytes ts r => if btests_hold bits x ts then Some r else None
  | GCompat r => if (bits =? 128) && v4compat x then Some r else None
  end.

Fixpoint first_reason (bits : N) (x : N) (gs : list guard) : option string :=
  match gs with
  | [] => None
  | g :: gs' => match guard_reason bits x g with
                | Some r => Some r
                | None => first_reason bits x gs'
                end
  end.

Record guard_cfg := mkCfg {
  g4 : list guard;           (* classifyV4, in source order *)
  g6 : list guard;           (* Refuse after the To4 branch, in source order *)
  r_unparseable : string;
  r_mapped : string;
  r_none : string            (* reasonNotRefused *)
}.

(* Refuse(ip) = (refused, reason) *)
Definition refuse (cfg : guard_cfg) (a : addr) : bool * string :=
  match to16 a with
  | None => (true, r_unparseable cfg)                     (* ip == nil / To16() == nil *)
  | Some x16 =>
      match to4 a with
      | Some v4 =>                                        (* IPv4 or v4-mapped *)
          match first_reason 32 v4 (g4 cfg) with
          | Some r => (true, if is16 a then r_mapped cfg else r)
          | None => (false, r_none cfg)
          end
      | None =>                                           (* genuinely IPv6 *)
          match first_reason 128 x16 (g6 cfg) with
          | Some r => (true, r)
          | None => (false, r_none cfg)
          end
      end
  end.

Definition refused (cfg : guard_cfg) (a : addr) : bool := fst (refuse cfg a).

(* ---------- the independent floor ---------- *)

Definition ip4 (a b c d : N) : N := a * 2^24 + b * 2^16 + c * 2^8 + d.

(* addresses a processor's egress must never reach (unless carved out), IPv4 *)
Definition floor4 (ip : N) : bool :=
     (ip <? ip4 1 0 0 0)                                              (* 0.0.0.0/8      this network *)
  || ((ip4 10 0 0 0 <=? ip) && (ip <? ip4 11 0 0 0))                  (* 10.0.0.0/8     RFC 1918 *)
  || ((ip4 100 64 0 0 <=? ip) && (ip <? ip4 100 128 0 0))             (* 100.64.0.0/10  CGNAT RFC 6598 *)
  || ((ip4 127 0 0 0 <=? ip) && (ip <? ip4 128 0 0 0))                (* 127.0.0.0/8    loopback *)
  || ((ip4 169 254 0 0 <=? ip) && (ip <? ip4 169 255 0 0))            (* 169.254.0.0/16 link-local, metadata *)
  || ((ip4 172 16 0 0 <=? ip) && (ip <? ip4 172 32 0 0))              (* 172.16.0.0/12  RFC 1918 *)
  || ((ip4 192 168 0 0 <=? ip) && (ip <? ip4 192 169 0 0))            (* 192.168.0.0/16 RFC 1918 *)
  || (ip4 224 0 0 0 <=? ip).                                          (* multicast, reserved, broadcast *)

(* "the IPv4 address embedded at bit offset [s] under the prefix [p] is in the v4 floor":
   the address is  p : v4 : (s free bits)  *)
Definition embeds (p s : N) (ip : N) : bool :=
  (N.shiftr ip (s + 32) =? p) && floor4 (N.shiftr ip s mod 2^32).

Definition floor6 (ip : N) : bool :=
     (ip <=? 1)                                                       (* :: and ::1 *)
  || (N.shiftr ip 118 =? 0x3fa)                                       (* fe80::/10 link-local *)
  || (N.shiftr ip 118 =? 0x3fb)                                       (* fec0::/10 site-local (RFC 3879) *)
  || (N.shiftr ip 121 =? 0x7e)                                        (* fc00::/7  ULA *)
  || (N.shiftr ip 120 =? 0xff)                                        (* ff00::/8  multicast *)
  || embeds 0xffff 0 ip                                               (* ::ffff:a.b.c.d      v4-mapped *)
  || embeds 0 0 ip                                                    (* ::a.b.c.d           v4-compatible *)
  || embeds 0xffff0000 0 ip                                           (* ::ffff:0:a.b.c.d    IPv4-translated *)
  || embeds 0x64ff9b0000000000000000 0 ip                             (* 64:ff9b::a.b.c.d    NAT64 well-known *)
  || embeds 0x2002 80 ip                                              (* 2002:AABB:CCDD::/48 6to4 *)
  || embeds 0x20010000 64 ip                                          (* 2001:0:SERVER::     Teredo server *)
  || ((N.shiftr ip 96 =? 0x20010000)                                  (* Teredo client (stored inverted) *)
      && floor4 (2^32 - 1 - ip mod 2^32)).

Definition floor (a : addr) : bool :=
  match a with
  | A4 n => floor4 n
  | A16 n => floor6 n
  | Abad => true            (* an address the classifier cannot read must not be dialled *)
  end.
