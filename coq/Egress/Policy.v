(* Model of the egress policy, pkg/plugin/processor/egress/policy.go:
     ResolvePolicy (per-processor request clamped by the engine-wide ceiling), entryKey,
     intersectRefs, Policy.matchesCarveOut, Policy.MatchHostPort, and the structural part of
     ParseAllowEntry (defaults, "http only for a refused IP literal").
   Strings are Coq [string]s (the harness only produces ASCII); a SecretRefs map is the sorted
   list of its keys; durations and byte counts are [Z] (Go int64, may be <= 0).
   [DefaultTimeout]/[DefaultMaxResponseBytes] come in through [consts] (regenerated from the
   source on every run).  Definitions only. *)
From Coq Require Export ZArith Ascii.
From Verif Require Export Egress.Ip.
Local Open Scope string_scope.

Record entry := mkEntry {
  e_scheme : string;
  e_host : string;
  e_port : string;
  e_ip : option addr          (* AllowEntry.IP, set iff the entry is an IP literal *)
}.

Record policy := mkPolicy {
  p_enabled : bool;
  p_allow : list entry;
  p_secrets : list string;
  p_timeout : Z;
  p_maxresp : Z
}.

Record consts := mkConsts { default_timeout : Z; default_max : Z }.

Definition deny_all : policy := mkPolicy false [] [] 0 0.

(* entryKey(e) = e.Scheme + "|" + e.Host + "|" + e.Port *)
Definition entry_key (e : entry) : string :=
  e_scheme e ++ "|" ++ e_host e ++ "|" ++ e_port e.

Definition mem_str (s : string) (l : list string) : bool := existsb (String.eqb s) l.

(* intersectRefs *)
Definition inter_refs (requested ceiling : list string) : list string :=
  filter (fun s => mem_str s ceiling) requested.

Definition in_ceiling (ceiling : list entry) (e : entry) : bool :=
  existsb (fun c => String.eqb (entry_key c) (entry_key e)) ceiling.

(* the own value (default when <= 0), clamped down by a positive ceiling value *)
Definition clamp (own ceil dflt : Z) : Z :=
  let v := if (own <=? 0)%Z then dflt else own in
  if (0 <? ceil)%Z && (ceil <? v)%Z then ceil else v.

(* ResolvePolicy(perProcessor, ceiling) = (effective, dropped) *)
Definition resolve (k : consts) (req ceil : policy) : policy * list entry :=
  if negb (p_enabled req) then (deny_all, [])
  else if negb (p_enabled ceil) then (deny_all, p_allow req)
  else
    let t := clamp (p_timeout req) (p_timeout ceil) (default_timeout k) in
    let m := clamp (p_maxresp req) (p_maxresp ceil) (default_max k) in
    match p_allow ceil with
    | [] =>   (* enabled ceiling without entries: unrestricted host set *)
        (mkPolicy true (p_allow req)
                  (match p_secrets ceil with
                   | [] => p_secrets req
                   | _ => inter_refs (p_secrets req) (p_secrets ceil)
                   end) t m,
         [])
    | _ =>
        (mkPolicy true (filter (in_ceiling (p_allow ceil)) (p_allow req))
                  (inter_refs (p_secrets req) (p_secrets ceil)) t m,
         filter (fun e => negb (in_ceiling (p_allow ceil) e)) (p_allow req))
    end.

(* Policy.matchesCarveOut(ip, port): an IP-literal entry with this port and this IP *)
Definition carve_entry (a : addr) (port : string) (e : entry) : bool :=
  match e_ip e with
  | Some ip => String.eqb (e_port e) port && ip_equal ip a
  | None => false
  end.

Definition carve_out (p : policy) (a : addr) (port : string) : bool :=
  existsb (carve_entry a port) (p_allow p).

(* strings.ToLower on ASCII *)
Definition lower_ascii (c : ascii) : ascii :=
  let n := nat_of_ascii c in
  if (65 <=? n)%nat && (n <=? 90)%nat then ascii_of_nat (n + 32) else c.

Fixpoint lower (s : string) : string :=
  match s with
  | EmptyString => EmptyString
  | String c r => String (lower_ascii c) (lower r)
  end.

(* Policy.MatchHostPort(scheme, host, port); [reqip] = net.ParseIP(strings.ToLower(host)) *)
Definition match_host_port (p : policy) (scheme host port : string) (reqip : option addr) : bool :=
  let h := lower host in
  existsb (fun e =>
             String.eqb (e_scheme e) scheme && String.eqb (e_port e) port &&
             match e_ip e with
             | Some ip => match reqip with Some r => ip_equal ip r | None => false end
             | None => String.eqb (e_host e) h
             end) (p_allow p).

(* ParseAllowEntry on a structured input: optional scheme, host text (already lower case,
   brackets stripped), optional port, and [ip] = net.ParseIP(host).  None = error. *)
Definition parse_entry (cfg : guard_cfg) (scheme : option string) (host : string)
           (port : option string) (ip : option addr) : option entry :=
  let sch := match scheme with Some s => s | None => "https" end in
  let prt := match port with
             | Some p => p
             | None => if String.eqb sch "https" then "443" else "80"
             end in
  if String.eqb host "" then None
  else if String.eqb sch "http" then
         match ip with
         | None => None
         | Some a => if refused cfg a then Some (mkEntry sch host prt ip) else None
         end
       else Some (mkEntry sch host prt ip).

(* ---------- equality tests (for the correspondence) and the ceiling monitor ---------- *)

Definition addr_eqb (a b : addr) : bool :=
  match a, b with
  | A4 x, A4 y => (x =? y)%N
  | A16 x, A16 y => (x =? y)%N
  | Abad, Abad => true
  | _, _ => false
  end.

Definition oaddr_eqb (a b : option addr) : bool :=
  match a, b with
  | Some x, Some y => addr_eqb x y
  | None, None => true
  | _, _ => false
  end.

Definition entry_eqb (e c : entry) : bool :=
  String.eqb (e_scheme e) (e_scheme c) && String.eqb (e_host e) (e_host c)
  && String.eqb (e_port e) (e_port c) && oaddr_eqb (e_ip e) (e_ip c).

Definition is_nil {A} (l : list A) : bool := match l with [] => true | _ => false end.

Definition subset_str (l1 l2 : list string) : bool := forallb (fun s => mem_str s l2) l1.

(* "the effective policy does not exceed the ceiling (nor the request)", on an observed
   effective policy; an effective policy that is not enabled grants nothing *)
Definition le_ceiling_b (req ceil eff : policy) : bool :=
  if negb (p_enabled eff) then is_nil (p_allow eff) && is_nil (p_secrets eff)
  else
    p_enabled req && p_enabled ceil
    && forallb (fun e => existsb (entry_eqb e) (p_allow req)) (p_allow eff)
    && (is_nil (p_allow ceil) || forallb (in_ceiling (p_allow ceil)) (p_allow eff))
    && subset_str (p_secrets eff) (p_secrets req)
    && ((is_nil (p_allow ceil) && is_nil (p_secrets ceil)) || subset_str (p_secrets eff) (p_secrets ceil))
    && (0 <? p_timeout eff)%Z
    && ((p_timeout ceil <=? 0)%Z || (p_timeout eff <=? p_timeout ceil)%Z)
    && (0 <? p_maxresp eff)%Z
    && ((p_maxresp ceil <=? 0)%Z || (p_maxresp eff <=? p_maxresp ceil)%Z).
