(* Proofs about the policy model (Policy.v): the effective policy never exceeds the request
   nor the ceiling; a carve-out is an exact (IP, port) pair. For all policies, no size bound. *)
From Coq Require Import Lia ZifyBool.
From Verif Require Import Egress.Ip Egress.Policy.
Local Open Scope string_scope.

(* ---------- small facts ---------- *)

Lemma mem_str_In : forall s l, mem_str s l = true <-> In s l.
Proof.
  intros s l. unfold mem_str. rewrite existsb_exists. split.
  - intros [x [Hin Heq]]. apply String.eqb_eq in Heq. subst x. exact Hin.
  - intros Hin. exists s. split; [exact Hin|apply String.eqb_refl].
Qed.

Lemma inter_refs_In : forall s req ceil, In s (inter_refs req ceil) <-> In s req /\ In s ceil.
Proof. intros s req ceil. unfold inter_refs. rewrite filter_In, mem_str_In. tauto. Qed.

Lemma in_ceiling_spec : forall ceil e,
  in_ceiling ceil e = true <-> exists c, In c ceil /\ entry_key c = entry_key e.
Proof.
  intros ceil e. unfold in_ceiling. rewrite existsb_exists. split.
  - intros [c [Hin Heq]]. apply String.eqb_eq in Heq. exists c. tauto.
  - intros [c [Hin Heq]]. exists c. split; [exact Hin|]. apply String.eqb_eq. exact Heq.
Qed.

Lemma clamp_le_ceiling : forall own ceil d, (0 < ceil)%Z -> (clamp own ceil d <= ceil)%Z.
Proof. intros own ceil d H. unfold clamp. cbv zeta. destruct (own <=? 0)%Z eqn:E; match goal with |- context [if ?b then _ else _] => destruct b eqn:E2 end; lia. Qed.

Lemma clamp_le_own : forall own ceil d, (0 < own)%Z -> (clamp own ceil d <= own)%Z.
Proof. intros own ceil d H. unfold clamp. cbv zeta. destruct (own <=? 0)%Z eqn:E; match goal with |- context [if ?b then _ else _] => destruct b eqn:E2 end; lia. Qed.

Lemma clamp_pos : forall own ceil d, (0 < d)%Z -> (0 < clamp own ceil d)%Z.
Proof. intros own ceil d H. unfold clamp. cbv zeta. destruct (own <=? 0)%Z eqn:E; match goal with |- context [if ?b then _ else _] => destruct b eqn:E2 end; lia. Qed.

Lemma addr_eqb_refl : forall a, addr_eqb a a = true.
Proof. intros [n|n|]; cbn; try apply N.eqb_refl; reflexivity. Qed.

Lemma entry_eqb_refl : forall e, entry_eqb e e = true.
Proof.
  intros e. unfold entry_eqb. rewrite !String.eqb_refl. cbn [andb].
  destruct (e_ip e) as [a|]; cbn; [apply addr_eqb_refl|reflexivity].
Qed.

(* ---------- ResolvePolicy ---------- *)

(* the shape of the result in the enabled case, one record for both ceiling kinds *)
Definition restricted (ceil : policy) : Prop := p_allow ceil <> [].

Theorem resolve_le_ceiling : forall k req ceil eff dropped,
  resolve k req ceil = (eff, dropped) ->
  (* a closed ceiling (and a processor that did not opt in) gives deny-all *)
  (p_enabled ceil = false -> eff = deny_all) /\
  (p_enabled req = false -> eff = deny_all) /\
  (p_enabled eff = true -> p_enabled req = true /\ p_enabled ceil = true) /\
  (* hosts *)
  (forall e, In e (p_allow eff) -> In e (p_allow req)) /\
  (restricted ceil -> forall e, In e (p_allow eff) ->
                      exists c, In c (p_allow ceil) /\ entry_key c = entry_key e) /\
  (forall e, In e (p_allow req) -> p_enabled eff = true -> In e (p_allow eff) \/ In e dropped) /\
  (* secrets *)
  (forall s, In s (p_secrets eff) -> In s (p_secrets req)) /\
  (restricted ceil \/ p_secrets ceil <> [] -> forall s, In s (p_secrets eff) -> In s (p_secrets ceil)) /\
  (* timeout and response size *)
  (p_enabled eff = true -> (0 < p_timeout ceil)%Z -> (p_timeout eff <= p_timeout ceil)%Z) /\
  (p_enabled eff = true -> (0 < p_maxresp ceil)%Z -> (p_maxresp eff <= p_maxresp ceil)%Z) /\
  (p_enabled eff = true -> (0 < p_timeout req)%Z -> (p_timeout eff <= p_timeout req)%Z) /\
  (p_enabled eff = true -> (0 < p_maxresp req)%Z -> (p_maxresp eff <= p_maxresp req)%Z) /\
  (p_enabled eff = true -> (0 < default_timeout k)%Z -> (0 < p_timeout eff)%Z) /\
  (p_enabled eff = true -> (0 < default_max k)%Z -> (0 < p_maxresp eff)%Z).
Proof.
  intros k req ceil eff dropped H. unfold resolve in H.
  destruct (p_enabled req) eqn:Er; cbn [negb] in H.
  2:{ injection H as <- <-. cbn. repeat split; intros; try tauto; try discriminate; try contradiction. }
  destruct (p_enabled ceil) eqn:Ec; cbn [negb] in H.
  2:{ injection H as <- <-. cbn. repeat split; intros; try tauto; try discriminate; try contradiction. }
  destruct (p_allow ceil) as [|c0 cl] eqn:Ea.
  - (* unrestricted host set *)
    injection H as <- <-. cbn [p_enabled p_allow p_secrets p_timeout p_maxresp].
    unfold restricted. rewrite Ea.
    split; [discriminate|]. split; [discriminate|]. split; [tauto|].
    split; [tauto|]. split; [congruence|]. split; [tauto|].
    split.
    { intros s Hs. destruct (p_secrets ceil); [assumption|]. apply inter_refs_In in Hs. tauto. }
    split.
    { intros [Hor|Hor] s Hs; [congruence|].
      destruct (p_secrets ceil) as [|s0 sl]; [congruence|]. apply inter_refs_In in Hs. tauto. }
    split; [intros _ Hp; apply clamp_le_ceiling; exact Hp|].
    split; [intros _ Hp; apply clamp_le_ceiling; exact Hp|].
    split; [intros _ Hp; apply clamp_le_own; exact Hp|].
    split; [intros _ Hp; apply clamp_le_own; exact Hp|].
    split; intros _ Hp; apply clamp_pos; exact Hp.
  - (* restricted ceiling *)
    remember (c0 :: cl) as L eqn:EL.
    injection H as <- <-. cbn [p_enabled p_allow p_secrets p_timeout p_maxresp].
    split; [discriminate|]. split; [discriminate|]. split; [tauto|].
    split.
    { intros e He. apply filter_In in He. tauto. }
    split.
    { intros _ e He. apply filter_In in He. destruct He as [_ He]. apply in_ceiling_spec in He. exact He. }
    split.
    { intros e He _. destruct (in_ceiling L e) eqn:Ei.
      - left. apply filter_In. tauto.
      - right. apply filter_In. rewrite Ei. tauto. }
    split.
    { intros s Hs. apply inter_refs_In in Hs. tauto. }
    split.
    { intros _ s Hs. apply inter_refs_In in Hs. tauto. }
    split; [intros _ Hp; apply clamp_le_ceiling; exact Hp|].
    split; [intros _ Hp; apply clamp_le_ceiling; exact Hp|].
    split; [intros _ Hp; apply clamp_le_own; exact Hp|].
    split; [intros _ Hp; apply clamp_le_own; exact Hp|].
    split; intros _ Hp; apply clamp_pos; exact Hp.
Qed.

(* the boolean monitor used on the observed result of the real ResolvePolicy holds of the model *)
Theorem resolve_monitor : forall k req ceil,
  (0 < default_timeout k)%Z -> (0 < default_max k)%Z ->
  le_ceiling_b req ceil (fst (resolve k req ceil)) = true.
Proof.
  intros k req ceil Ht Hm. destruct (resolve k req ceil) as [eff dropped] eqn:E. cbn [fst].
  pose proof (resolve_le_ceiling k req ceil eff dropped E)
    as (Hc & Hr & Hen & Hh1 & Hh2 & _ & Hs1 & Hs2 & Ht1 & Hm1 & _ & _ & Ht2 & Hm2).
  unfold le_ceiling_b. destruct (p_enabled eff) eqn:Ee; cbn [negb].
  - destruct (Hen eq_refl) as [-> ->]. cbn [andb].
    assert (A1 : forallb (fun e => existsb (entry_eqb e) (p_allow req)) (p_allow eff) = true).
    { apply forallb_forall. intros e He. apply existsb_exists. exists e. split; [auto|apply entry_eqb_refl]. }
    assert (A2 : is_nil (p_allow ceil) || forallb (in_ceiling (p_allow ceil)) (p_allow eff) = true).
    { destruct (p_allow ceil) as [|c0 cl] eqn:Ea; [reflexivity|]. cbn [is_nil orb].
      apply forallb_forall. intros e He. apply in_ceiling_spec. apply Hh2; [unfold restricted; congruence|exact He]. }
    assert (A3 : subset_str (p_secrets eff) (p_secrets req) = true).
    { apply forallb_forall. intros s Hs. apply mem_str_In. auto. }
    assert (A4' : (is_nil (p_allow ceil) && is_nil (p_secrets ceil)) || subset_str (p_secrets eff) (p_secrets ceil) = true).
    { destruct (p_allow ceil) as [|c0 cl] eqn:Ea; destruct (p_secrets ceil) as [|s0 sl] eqn:Es; cbn [is_nil andb orb]; try reflexivity;
        apply forallb_forall; intros s Hs; apply mem_str_In; apply Hs2; auto;
        unfold restricted; try (left; congruence); try (right; congruence). }
    rewrite A1, A2, A3, A4'. cbn [andb].
    specialize (Ht1 eq_refl). specialize (Hm1 eq_refl). specialize (Ht2 eq_refl Ht). specialize (Hm2 eq_refl Hm).
    lia.
  - unfold resolve in E. destruct (p_enabled req); cbn [negb] in E; [|injection E as <- <-; reflexivity].
    destruct (p_enabled ceil); cbn [negb] in E; [|injection E as <- <-; reflexivity].
    destruct (p_allow ceil); injection E as <- <-; discriminate Ee.
Qed.

(* ---------- carve-outs ---------- *)

Theorem carve_out_is_exact_pair : forall p a port,
  carve_out p a port = true <->
  exists e ip, In e (p_allow p) /\ e_ip e = Some ip /\ e_port e = port /\ ip_equal ip a = true.
Proof.
  intros p a port. unfold carve_out. rewrite existsb_exists. split.
  - intros [e [Hin Hc]]. unfold carve_entry in Hc. destruct (e_ip e) as [ip|] eqn:Ei; [|discriminate].
    apply andb_true_iff in Hc as [Hp He]. apply String.eqb_eq in Hp. exists e, ip. tauto.
  - intros [e [ip [Hin [Hi [Hp He]]]]]. exists e. split; [exact Hin|].
    unfold carve_entry. rewrite Hi, He, Hp, String.eqb_refl. reflexivity.
Qed.

(* [ip_equal] is equality of the 128-bit address (a 4-byte and a 16-byte form of one IPv4
   address are the same destination) *)
Lemma ip_equal_same_address : forall x a, ip_equal x a = true ->
  exists n, to16 x = Some n /\ to16 a = Some n.
Proof.
  intros x a H. unfold ip_equal in H. destruct (to16 x) as [n|]; [|discriminate].
  destruct (to16 a) as [m|]; [|discriminate]. apply N.eqb_eq in H. subst m. exists n. tauto.
Qed.

(* the same IP with another port is not carved out *)
Theorem carve_out_needs_port : forall p a port,
  (forall e ip, In e (p_allow p) -> e_ip e = Some ip -> ip_equal ip a = true -> e_port e <> port) ->
  carve_out p a port = false.
Proof.
  intros p a port H. destruct (carve_out p a port) eqn:E; [|reflexivity].
  apply carve_out_is_exact_pair in E as [e [ip [Hin [Hi [Hp He]]]]]. exfalso. exact (H e ip Hin Hi He Hp).
Qed.

(* hostname entries never carve anything out *)
Theorem carve_out_only_ip_literals : forall p a port,
  (forall e, In e (p_allow p) -> e_ip e = None) -> carve_out p a port = false.
Proof.
  intros p a port H. destruct (carve_out p a port) eqn:E; [|reflexivity].
  apply carve_out_is_exact_pair in E as [e [ip [Hin [Hi _]]]]. rewrite (H e Hin) in Hi. discriminate.
Qed.

Lemma carve_out_incl : forall p q a port,
  (forall e, In e (p_allow p) -> In e (p_allow q)) -> carve_out p a port = true -> carve_out q a port = true.
Proof.
  intros p q a port Hi H. apply carve_out_is_exact_pair in H as [e [ip [Hin R]]].
  apply carve_out_is_exact_pair. exists e, ip. split; [auto|exact R].
Qed.

(* resolving never creates a carve-out the processor's own request did not contain, and under
   a restricted ceiling none the ceiling does not contain (entries are identified by their
   key; [Hkey] says the IP and port of an entry are determined by it, which holds for entries
   produced by ParseAllowEntry: IP = ParseIP(Host)) *)
Theorem resolve_carve_out_le : forall k req ceil eff dropped a port,
  resolve k req ceil = (eff, dropped) -> carve_out eff a port = true ->
  carve_out req a port = true /\
  (restricted ceil ->
   (forall e c, In e (p_allow req) -> In c (p_allow ceil) -> entry_key c = entry_key e ->
                e_ip c = e_ip e /\ e_port c = e_port e) ->
   carve_out ceil a port = true).
Proof.
  intros k req ceil eff dropped a port E H.
  pose proof (resolve_le_ceiling k req ceil eff dropped E) as (_ & _ & _ & Hh1 & Hh2 & _).
  split; [exact (carve_out_incl eff req a port Hh1 H)|].
  intros Hr Hkey. apply carve_out_is_exact_pair in H as [e [ip [Hin [Hi [Hp He]]]]].
  destruct (Hh2 Hr e Hin) as [c [Hc Hk]]. destruct (Hkey e c (Hh1 e Hin) Hc Hk) as [Hip Hport].
  apply carve_out_is_exact_pair. exists c, ip. rewrite Hip, Hport. tauto.
Qed.
