(* Model of the dial path, pkg/plugin/processor/egress/service.go:
     dialContext  - every candidate the resolver returned is classified; a refused candidate
                    that is not an exact (IP, port) carve-out is skipped; an admitted one is
                    handed to the base dialer as  ip.String():port
     dialControl  - the base dialer's Control hook parses that text back and applies the same
                    gate again immediately before connect(2)
   A connect is attempted for a candidate iff both gates pass.  The loop stops at the first
   candidate whose connect succeeds ([ok] is the network's answer).  Assumed, and checked by
   the harness on the real Service rather than proved: Transport.Proxy is nil, CheckRedirect
   refuses every redirect, so this dial path is the only way a connection is opened.
   Definitions only. *)
From Verif Require Export Egress.Policy.

(* Refuse(ip) refused && !matchesCarveOut(ip, port)  =>  skip *)
Definition gate (cfg : guard_cfg) (p : policy) (port : string) (a : addr) : bool :=
  negb (refused cfg a) || carve_out p a port.

(* dialContext's check followed by dialControl's on the re-parsed text *)
Definition admitted (cfg : guard_cfg) (p : policy) (port : string) (a : addr) : bool :=
  gate cfg p port a && gate cfg p port (reparse a).

(* every address for which connect(2) may be reached *)
Definition dial_plan (cfg : guard_cfg) (p : policy) (cands : list addr) (port : string) : list addr :=
  filter (admitted cfg p port) cands.

(* the attempts actually made, in order, and the address connected to *)
Fixpoint dial (cfg : guard_cfg) (p : policy) (port : string) (ok : addr -> bool)
         (cands : list addr) : list addr * option addr :=
  match cands with
  | [] => ([], None)
  | a :: r =>
      if admitted cfg p port a then
        if ok a then ([a], Some a)
        else let (l, c) := dial cfg p port ok r in (a :: l, c)
      else dial cfg p port ok r
  end.

(* the property, as a monitor over observed connects: an address in the floor is reached only
   as an exact carve-out pair.  It refers to the independent floor, not to the model. *)
Definition connect_ok (p : policy) (port : string) (a : addr) : bool :=
  negb (floor a) || carve_out p a port.

Definition connects_ok (p : policy) (port : string) (l : list addr) : bool :=
  forallb (connect_ok p port) l.
