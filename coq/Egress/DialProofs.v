(* Proofs about the dial model (Dial.v): a connect is attempted only for an address that the
   classifier does not refuse or that is an exact (IP, port) carve-out; with a configuration
   that covers the floor this means: public, or carved out.  For every candidate list (every
   resolver answer, any length, any order), every policy, every port, every network answer. *)
From Verif Require Import Egress.Ip Egress.Cover Egress.IpProofs Egress.Policy Egress.PolicyProofs Egress.Dial.
Local Open Scope N_scope.

Lemma carve_out_reparse : forall p a port, carve_out p (reparse a) port = carve_out p a port.
Proof.
  intros p a port. unfold carve_out. induction (p_allow p) as [|e l IH]; [reflexivity|].
  cbn [existsb]. rewrite IH. f_equal. unfold carve_entry. destruct (e_ip e); [|reflexivity].
  rewrite ip_equal_reparse_r. reflexivity.
Qed.

(* dialControl repeats dialContext's decision: the text handed to the base dialer denotes the
   same address *)
Theorem gate_reparse : forall cfg p port a, wf_addr a = true ->
  gate cfg p port (reparse a) = gate cfg p port a.
Proof.
  intros cfg p port a Hw. unfold gate. rewrite (refused_reparse cfg a Hw), carve_out_reparse. reflexivity.
Qed.

Lemma admitted_gate : forall cfg p port a, admitted cfg p port a = true -> gate cfg p port a = true.
Proof. intros cfg p port a H. unfold admitted in H. apply andb_true_iff in H. tauto. Qed.

(* every attempted address was a candidate and passed the gate; every candidate is gated,
   whatever its position in the resolver's answer *)
Theorem dial_only_admitted : forall cfg p cands port a,
  In a (dial_plan cfg p cands port) ->
  In a cands /\ (refused cfg a = false \/ carve_out p a port = true).
Proof.
  intros cfg p cands port a H. unfold dial_plan in H. apply filter_In in H as [Hin Ha].
  split; [exact Hin|]. apply admitted_gate in Ha. unfold gate in Ha.
  apply orb_true_iff in Ha as [Ha|Ha]; [left|right; exact Ha].
  destruct (refused cfg a); [discriminate|reflexivity].
Qed.

Theorem dial_skips_refused : forall cfg p cands port a,
  refused cfg a = true -> carve_out p a port = false -> ~ In a (dial_plan cfg p cands port).
Proof.
  intros cfg p cands port a Hr Hc Hin. apply dial_only_admitted in Hin as [_ [H|H]]; congruence.
Qed.

(* the attempts of an actual run (which stops at the first successful connect) are among the
   plan, and the connected address is one of them *)
Theorem dial_attempts_in_plan : forall cfg p port ok cands l c,
  dial cfg p port ok cands = (l, c) ->
  (forall a, In a l -> In a (dial_plan cfg p cands port)) /\
  (forall a, c = Some a -> In a l /\ ok a = true).
Proof.
  intros cfg p port ok. induction cands as [|x r IH]; intros l c H; cbn [dial] in H.
  - injection H as <- <-. split; [intros a []|discriminate].
  - unfold dial_plan. cbn [filter]. fold (dial_plan cfg p r port).
    destruct (admitted cfg p port x) eqn:Ex.
    + destruct (ok x) eqn:Eo.
      * injection H as <- <-. split.
        -- intros a [<-|[]]. left. reflexivity.
        -- intros a Ha. injection Ha as <-. split; [left; reflexivity|exact Eo].
      * destruct (dial cfg p port ok r) as [l' c'] eqn:Er. injection H as <- <-.
        destruct (IH l' c' eq_refl) as [IH1 IH2]. split.
        -- intros a [<-|Ha]; [left; reflexivity|right; exact (IH1 a Ha)].
        -- intros a Ha. destruct (IH2 a Ha) as [Hin Hok]. split; [right; exact Hin|exact Hok].
    + exact (IH l c H).
Qed.

(* with a configuration that covers the floor, the plan satisfies the property monitor:
   every attempted address is outside the floor (public unicast by the spec) or an exact
   operator-allowed (IP, port) pair *)
Theorem dial_plan_connects_ok : forall cfg, covers_cfg cfg = true ->
  forall p cands port, (forall a, In a cands -> wf_addr a = true) ->
  connects_ok p port (dial_plan cfg p cands port) = true.
Proof.
  intros cfg Hc p cands port Hw. unfold connects_ok. apply forallb_forall. intros a Ha.
  destruct (dial_only_admitted cfg p cands port a Ha) as [Hin [Hr|Hco]]; unfold connect_ok.
  - destruct (not_refused_is_public cfg Hc a (Hw a Hin) Hr) as [_ [Hf _]]. rewrite Hf. reflexivity.
  - rewrite Hco. apply orb_true_r.
Qed.

Theorem dial_connects_ok : forall cfg, covers_cfg cfg = true ->
  forall p cands port ok, (forall a, In a cands -> wf_addr a = true) ->
  connects_ok p port (fst (dial cfg p port ok cands)) = true.
Proof.
  intros cfg Hc p cands port ok Hw. destruct (dial cfg p port ok cands) as [l c] eqn:E. cbn [fst].
  pose proof (dial_plan_connects_ok cfg Hc p cands port Hw) as Hp.
  unfold connects_ok in *. rewrite forallb_forall in *. intros a Ha.
  apply Hp. exact (proj1 (dial_attempts_in_plan cfg p port ok cands l c E) a Ha).
Qed.

(* a floor address that is attempted is an exact pair of the policy: spelled out *)
Corollary floor_address_needs_exact_pair : forall cfg, covers_cfg cfg = true ->
  forall p cands port a, (forall a, In a cands -> wf_addr a = true) ->
  In a (dial_plan cfg p cands port) -> floor a = true ->
  exists e ip, In e (p_allow p) /\ e_ip e = Some ip /\ e_port e = port /\ ip_equal ip a = true.
Proof.
  intros cfg Hc p cands port a Hw Hin Hf.
  pose proof (dial_plan_connects_ok cfg Hc p cands port Hw) as Hp.
  unfold connects_ok in Hp. rewrite forallb_forall in Hp. specialize (Hp a Hin).
  unfold connect_ok in Hp. rewrite Hf in Hp. cbn [negb orb] in Hp.
  apply carve_out_is_exact_pair. exact Hp.
Qed.

(* ---------- the same statements on the text form dialControl sees ---------- *)

Lemma wf_reparse : forall a, wf_addr a = true -> wf_addr (reparse a) = true.
Proof.
  intros [n|n|] H; cbn [reparse to16 wf_addr] in *; try assumption; try reflexivity.
  apply N.ltb_lt in H. apply N.ltb_lt. unfold mapped_base.
  assert (E32 : 2 ^ 32 = 4294967296) by (vm_compute; reflexivity).
  assert (E128 : 2 ^ 128 = 340282366920938463463374607431768211456) by (vm_compute; reflexivity).
  rewrite E32 in *. rewrite E128. Lia.lia.
Qed.

Lemma admitted_connect_ok_reparsed : forall cfg, covers_cfg cfg = true ->
  forall p port a, wf_addr a = true -> admitted cfg p port a = true ->
  connect_ok p port (reparse a) = true.
Proof.
  intros cfg Hc p port a Hw Ha. unfold admitted in Ha. apply andb_true_iff in Ha as [_ Hg].
  unfold gate in Hg. unfold connect_ok. apply orb_true_iff in Hg as [Hr|Hco].
  - destruct (refused cfg (reparse a)) eqn:E; [discriminate|].
    destruct (not_refused_is_public cfg Hc (reparse a) (wf_reparse a Hw) E) as [_ [Hf _]].
    rewrite Hf. reflexivity.
  - rewrite Hco. apply orb_true_r.
Qed.

Theorem dial_plan_reparsed_connects_ok : forall cfg, covers_cfg cfg = true ->
  forall p cands port, forallb wf_addr cands = true ->
  connects_ok p port (map reparse (dial_plan cfg p cands port)) = true.
Proof.
  intros cfg Hc p cands port Hw. unfold connects_ok. apply forallb_forall. intros x Hx.
  apply in_map_iff in Hx as [a [<- Ha]]. unfold dial_plan in Ha. apply filter_In in Ha as [Hin Had].
  rewrite forallb_forall in Hw. exact (admitted_connect_ok_reparsed cfg Hc p port a (Hw a Hin) Had).
Qed.
