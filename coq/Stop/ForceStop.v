(* Model of stream.forceStopper (pkg/lifecycle/stream/force_stop.go): the latch that makes a force
   stop which races a node's start-up neither lost nor a nil dereference (#2539).
     start(): ctx, cancel := WithCancel; under mu: f.cancel = cancel; if f.stopped { cancel() }
     stop():  under mu: if f.cancel != nil { f.cancel(); return }; f.stopped = true
   Both bodies are one critical section of mu, so they are atomic actions.  The force path itself
   (Kill(FatalError(ErrForceStop)), per-node ForceStop, nack-on-cancel) is part of Stop.v
   (actions AForce, ACut, AAbortSrc).  Definitions only. *)
From Coq Require Export List Arith Bool Lia.
Export ListNotations.

Record fs := mkfs {
  has_cancel : bool;     (* f.cancel != nil *)
  stopped : bool;        (* f.stopped *)
  cancelled : bool;      (* the connector context handed out by start() is cancelled *)
  nil_called : bool      (* a nil cancel func was invoked (the pre-#2539 panic) *)
}.

Definition fs0 : fs := mkfs false false false false.

Inductive fop := FStart | FStop.

Definition fstep (f : fs) (o : fop) : fs :=
  match o with
  | FStart => mkfs true (stopped f) (stopped f) (nil_called f)
      (* a fresh context: cancelled at once iff a stop was latched *)
  | FStop =>
      if has_cancel f then mkfs true (stopped f) true (nil_called f)
      else mkfs false true (cancelled f) (nil_called f)
  end.

Definition frun (l : list fop) : fs := fold_left fstep l fs0.

Fixpoint count_start (l : list fop) : nat :=
  match l with [] => 0 | FStart :: r => S (count_start r) | _ :: r => count_start r end.
