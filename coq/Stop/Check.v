(* Acceptor and property monitors over the observed service-level event logs (C06, C12). *)
From Verif Require Import Base.CaseCheck Stop.Events.

(* ---------- small finite maps / sets over nat keys ---------- *)
Fixpoint lookup (k : nat) (m : list (nat * nat)) : nat :=
  match m with [] => 0 | (a, v) :: r => if Nat.eqb a k then v else lookup k r end.
Fixpoint update (k v : nat) (m : list (nat * nat)) : list (nat * nat) :=
  match m with
  | [] => [(k, v)]
  | (a, w) :: r => if Nat.eqb a k then (a, v) :: r else (a, w) :: update k v r
  end.

Definition p2_eqb (a b : nat * nat) : bool := Nat.eqb (fst a) (fst b) && Nat.eqb (snd a) (snd b).
Definition p3_eqb (a b : nat * nat * nat) : bool := p2_eqb (fst a) (fst b) && Nat.eqb (snd a) (snd b).
Fixpoint mem {A} (eqb : A -> A -> bool) (x : A) (l : list A) : bool :=
  match l with [] => false | y :: r => eqb x y || mem eqb x r end.
Fixpoint remove1 {A} (eqb : A -> A -> bool) (x : A) (l : list A) : list A :=
  match l with [] => [] | y :: r => if eqb x y then r else y :: remove1 eqb x r end.

Definition conn_eqb (a b : conn) : bool :=
  match a, b with
  | CSrc x, CSrc y | CDst x, CDst y | CDlq x, CDlq y => Nat.eqb x y
  | CProc p i, CProc q j => Nat.eqb p q && Nat.eqb i j
  | _, _ => false
  end.

(* ---------- one pass over the log ---------- *)
Record tst := mkT {
  opened : list conn;                 (* plugins open right now *)
  lastread : list (nat * nat);        (* per source: last record handed to the engine in this run *)
  lastpack : list (nat * nat);        (* per source: last record acked to the plugin *)
  stored : list (nat * nat);          (* durable positions (last commit) *)
  dpend : list (nat * nat * nat);     (* (d,s,k) written, answer outstanding; oldest first *)
  qpend : list (nat * nat * nat);     (* (q,s,k) dead letters written, answer outstanding *)
  dok : list (nat * nat * nat);       (* (d,s,k) confirmed by destination d *)
  qok : list (nat * nat);             (* (s,k) dead letter confirmed *)
  wrote : list (nat * nat);           (* (s,k) that reached a destination or the DLQ *)
  forced : bool;                      (* a force stop was called *)
  graceful : bool;                    (* a graceful stop was called *)
  (* acceptor: the code left the rules of the mechanism *)
  bad : bool;
  (* monitor flags *)
  pack_unhandled : bool;              (* an ack for a record some destination had not confirmed (and no dead letter) *)
  pack_disorder : bool;               (* acks of a source not 1,2,3,... from its resume position *)
  pack_closed : bool;                 (* ack delivered to a source plugin that is not open (after its Teardown) *)
  lifecycle_bad : bool;               (* double Open / Teardown without Open *)
  ntd : list (conn * nat);            (* teardown count per connector, as an association list *)
  fnil : bool                         (* a force stop returned nil and no status was written since *)
}.

Definition t0 : tst := mkT [] [] [] [] [] [] [] [] [] false false false false false false false [] false.

Definition is_open (c : conn) (t : tst) : bool := mem conn_eqb c (opened t).

(* record (s,k) is handled: every destination confirmed it, or its dead letter was confirmed *)
Definition handled (ndst : nat) (t : tst) (s k : nat) : bool :=
  forallb (fun d => mem p3_eqb (d, s, k) (dok t)) (seq 1 ndst) || mem p2_eqb (s, k) (qok t).

Fixpoint first_of_d (d : nat) (l : list (nat * nat * nat)) : option (nat * nat * nat) :=
  match l with
  | [] => None
  | x :: r => if Nat.eqb (fst (fst x)) d then Some x else first_of_d d r
  end.

Definition opt3_eqb (a : option (nat * nat * nat)) (b : nat * nat * nat) : bool :=
  match a with Some x => p3_eqb x b | None => false end.

Fixpoint snap_ge (snap old : list (nat * nat)) : bool :=
  match snap with [] => true | (s, v) :: r => Nat.leb (lookup s old) v && snap_ge r old end.

Fixpoint count_td (c : conn) (l : list (conn * nat)) : nat :=
  match l with [] => 0 | (a, n) :: r => if conn_eqb a c then n else count_td c r end.
Fixpoint bump_td (c : conn) (l : list (conn * nat)) : list (conn * nat) :=
  match l with
  | [] => [(c, 1)]
  | (a, n) :: r => if conn_eqb a c then (a, S n) :: r else (a, n) :: bump_td c r
  end.

Definition set_bad (b : bool) (t : tst) : tst :=
  mkT (opened t) (lastread t) (lastpack t) (stored t) (dpend t) (qpend t) (dok t) (qok t) (wrote t)
      (forced t) (graceful t) (bad t || b) (pack_unhandled t) (pack_disorder t) (pack_closed t)
      (lifecycle_bad t) (ntd t) (fnil t).

Definition srcs (n : nat) : list nat := seq 1 n.

(* every record that reached a destination or the DLQ: answered, and acked to its source *)
Definition all_written_acked (t : tst) : bool :=
  forallb (fun p => Nat.leb (snd p) (lookup (fst p) (lastpack t))) (wrote t).
Definition all_written_stored (snap : snapshot) (t : tst) : bool :=
  forallb (fun p => Nat.leb (snd p) (lookup (fst p) snap)) (wrote t).

(* every Open has its Teardown, none twice, nothing is left open *)
Definition torn_once (t : tst) : bool :=
  match opened t with [] => true | _ => false end && negb (lifecycle_bad t).

Definition drained (v1 slow : bool) (nsrc : nat) (snap : snapshot) (t : tst) : bool :=
  match dpend t, qpend t with [], [] => true | _, _ => false end            (* nothing half-handled *)
  && negb (pack_unhandled t) && negb (pack_disorder t) && negb (pack_closed t)  (* acks: handled, prefix, before Teardown *)
  && (if slow then all_written_stored snap t else all_written_acked t)
  && forallb (fun s =>
        (if slow then Nat.leb (lookup s (lastpack t)) (lookup s snap)
         else Nat.eqb (lookup s snap) (lookup s (lastpack t)))               (* stored position = last acked *)
        && (if v1 && negb slow then Nat.eqb (lookup s (lastread t)) (lookup s (lastpack t)) else true))
       (srcs nsrc)
  && torn_once t.

(* what a log is judged against: engine (true = v1), slow store, number of sources and destinations *)
Record cfg := mkC { c_v1 : bool; c_slow : bool; c_nsrc : nat; c_ndst : nat }.

(* the status a force stop that returned nil may end in: the force-stop failure, or "stopped by the
   user" when a graceful stop was already under way and completed first *)
Definition force_status_ok (graceful : bool) (st : status) (force : bool) : bool :=
  match st with
  | StDegraded => force
  | StUserStopped => graceful
  | _ => false
  end.

Definition tstep (c : cfg) (t : tst) (e : ev) : tst :=
  let ndst := c_ndst c in
  match e with
  | ERead s k =>
      (* logged by the plugin just before the hand-off; a failed hand-off is taken back by EUnread *)
      let ok := Nat.eqb k (S (lookup s (lastread t))) in
      set_bad (negb ok)
        (mkT (opened t) (update s k (lastread t)) (lastpack t) (stored t) (dpend t) (qpend t) (dok t) (qok t)
             (wrote t) (forced t) (graceful t) (bad t) (pack_unhandled t) (pack_disorder t) (pack_closed t)
             (lifecycle_bad t) (ntd t) (fnil t))
  | EUnread s k =>
      set_bad (negb (Nat.eqb k (lookup s (lastread t))) || Nat.eqb k 0)
        (mkT (opened t) (update s (pred k) (lastread t)) (lastpack t) (stored t) (dpend t) (qpend t) (dok t) (qok t)
             (wrote t) (forced t) (graceful t) (bad t) (pack_unhandled t) (pack_disorder t) (pack_closed t)
             (lifecycle_bad t) (ntd t) (fnil t))
  | EDWrite d s k =>
      let ok := is_open (CDst d) t && Nat.leb k (lookup s (lastread t)) && Nat.ltb 0 k in
      set_bad (negb ok)
        (mkT (opened t) (lastread t) (lastpack t) (stored t) (dpend t ++ [(d, s, k)]) (qpend t) (dok t) (qok t)
             ((s, k) :: wrote t) (forced t) (graceful t) (bad t) (pack_unhandled t) (pack_disorder t) (pack_closed t)
             (lifecycle_bad t) (ntd t) (fnil t))
  | EDConf d s k b =>
      (* a destination answers its writes in the order it received them *)
      let ok := opt3_eqb (first_of_d d (dpend t)) (d, s, k) in
      set_bad (negb ok)
        (mkT (opened t) (lastread t) (lastpack t) (stored t) (remove1 p3_eqb (d, s, k) (dpend t)) (qpend t)
             (if b then (d, s, k) :: dok t else dok t) (qok t)
             (wrote t) (forced t) (graceful t) (bad t) (pack_unhandled t) (pack_disorder t) (pack_closed t)
             (lifecycle_bad t) (ntd t) (fnil t))
  | EDUnconf d s k =>
      mkT (opened t) (lastread t) (lastpack t) (stored t) (dpend t) (qpend t)
          (remove1 p3_eqb (d, s, k) (dok t)) (qok t)
          (wrote t) (forced t) (graceful t) (bad t) (pack_unhandled t) (pack_disorder t) (pack_closed t)
          (lifecycle_bad t) (ntd t) (fnil t)
  | EQWrite q s k =>
      let ok := is_open (CDlq q) t && Nat.leb k (lookup s (lastread t)) && Nat.ltb 0 k in
      set_bad (negb ok)
        (mkT (opened t) (lastread t) (lastpack t) (stored t) (dpend t) (qpend t ++ [(q, s, k)]) (dok t) (qok t)
             ((s, k) :: wrote t) (forced t) (graceful t) (bad t) (pack_unhandled t) (pack_disorder t) (pack_closed t)
             (lifecycle_bad t) (ntd t) (fnil t))
  | EQConf q s k b =>
      let ok := opt3_eqb (first_of_d q (qpend t)) (q, s, k) in
      set_bad (negb ok)
        (mkT (opened t) (lastread t) (lastpack t) (stored t) (dpend t) (remove1 p3_eqb (q, s, k) (qpend t))
             (dok t) (if b then (s, k) :: qok t else qok t)
             (wrote t) (forced t) (graceful t) (bad t) (pack_unhandled t) (pack_disorder t) (pack_closed t)
             (lifecycle_bad t) (ntd t) (fnil t))
  | EQUnconf q s k =>
      mkT (opened t) (lastread t) (lastpack t) (stored t) (dpend t) (qpend t) (dok t)
          (remove1 p2_eqb (s, k) (qok t))
          (wrote t) (forced t) (graceful t) (bad t) (pack_unhandled t) (pack_disorder t) (pack_closed t)
          (lifecycle_bad t) (ntd t) (fnil t)
  | EPack s k =>
      (* C02: the position is durable before the plugin hears about it *)
      (* ... and is handled, in order, and the plugin is still up: the model's delivery rule *)
      let okacc := Nat.leb k (lookup s (stored t)) && handled ndst t s k
                   && Nat.eqb k (S (lookup s (lastpack t))) && is_open (CSrc s) t in
      set_bad (negb okacc)
        (mkT (opened t) (lastread t) (update s k (lastpack t)) (stored t) (dpend t) (qpend t) (dok t) (qok t)
             (wrote t) (forced t) (graceful t) (bad t)
             (pack_unhandled t || negb (handled ndst t s k))
             (pack_disorder t || negb (Nat.eqb k (S (lookup s (lastpack t)))))
             (pack_closed t || negb (is_open (CSrc s) t))
             (lifecycle_bad t) (ntd t) (fnil t))
  | ECommit snap =>
      (* positions only move forward, and only onto handled records *)
      let ok := snap_ge snap (stored t) &&
                forallb (fun p => Nat.eqb (snd p) 0 || handled ndst t (fst p) (snd p)) snap in
      set_bad (negb ok)
        (mkT (opened t) (lastread t) (lastpack t) snap (dpend t) (qpend t) (dok t) (qok t)
             (wrote t) (forced t) (graceful t) (bad t) (pack_unhandled t) (pack_disorder t) (pack_closed t)
             (lifecycle_bad t) (ntd t) (fnil t))
  | EOpen c pos =>
      (* a processor that runs with several workers is opened once per worker *)
      let dup := match c with CProc _ _ => false | _ => is_open c t end in
      let okpos := match c with CSrc s => Nat.eqb pos (lookup s (stored t)) | _ => true end in
      set_bad (negb okpos)
        (mkT (c :: opened t)
             (match c with CSrc s => update s pos (lastread t) | _ => lastread t end)
             (match c with CSrc s => update s pos (lastpack t) | _ => lastpack t end)
             (stored t)
             (match c with CDst d => filter (fun x => negb (Nat.eqb (fst (fst x)) d)) (dpend t) | _ => dpend t end)
             (match c with CDlq q => filter (fun x => negb (Nat.eqb (fst (fst x)) q)) (qpend t) | _ => qpend t end)
             (dok t) (qok t)
             (* a new run of a source starts over above its resume position *)
             (match c with
              | CSrc s => filter (fun p => negb (Nat.eqb (fst p) s) || Nat.leb (snd p) pos) (wrote t)
              | _ => wrote t end)
             (forced t) (graceful t) (bad t)
             (pack_unhandled t) (pack_disorder t) (pack_closed t) (lifecycle_bad t || dup) (ntd t) (fnil t))
  | ETd c =>
      mkT (remove1 conn_eqb c (opened t)) (lastread t) (lastpack t) (stored t) (dpend t) (qpend t) (dok t) (qok t)
          (wrote t) (forced t) (graceful t) (bad t) (pack_unhandled t) (pack_disorder t) (pack_closed t)
          (lifecycle_bad t || negb (is_open c t)) (bump_td c (ntd t)) (fnil t)
  | ECall KForce _ =>
      mkT (opened t) (lastread t) (lastpack t) (stored t) (dpend t) (qpend t) (dok t) (qok t)
          (wrote t) true (graceful t) (bad t) (pack_unhandled t) (pack_disorder t) (pack_closed t)
          (lifecycle_bad t) (ntd t) (fnil t)
  | ECall KStopWait _ | ECall KShutdown _ =>
      (* a graceful stop, by the user (reason nil) or by the engine's shutdown (with a reason) *)
      mkT (opened t) (lastread t) (lastpack t) (stored t) (dpend t) (qpend t) (dok t) (qok t)
          (wrote t) (forced t) true (bad t) (pack_unhandled t) (pack_disorder t) (pack_closed t)
          (lifecycle_bad t) (ntd t) (fnil t)
  | ECall KStart _ =>
      (* a new run: a force stop that found the previous run already ended has nothing left to say *)
      mkT (opened t) (lastread t) (lastpack t) (stored t) (dpend t) (qpend t) (dok t) (qok t)
          (wrote t) (forced t) (graceful t) (bad t) (pack_unhandled t) (pack_disorder t) (pack_closed t)
          (lifecycle_bad t) (ntd t) false
  | ERet KStopWait RNil _ snap | ERet KShutdown RNil _ snap =>
      (* StopAndWait - and equally StopAll + Wait + persister Wait of a shutdown - may return nil only from
         a drained pipeline (the model's AReturn): the drain does not depend on the reason of the stop *)
      set_bad (negb (drained (c_v1 c) (c_slow c) (c_nsrc c) snap t)) t
  | ERet KForce RNil _ _ =>
      mkT (opened t) (lastread t) (lastpack t) (stored t) (dpend t) (qpend t) (dok t) (qok t)
          (wrote t) (forced t) (graceful t) (bad t) (pack_unhandled t) (pack_disorder t) (pack_closed t)
          (lifecycle_bad t) (ntd t) true
  | EStatus st f =>
      (* the first status written after a force stop that returned nil *)
      set_bad (fnil t && negb (force_status_ok (graceful t) st f))
        (mkT (opened t) (lastread t) (lastpack t) (stored t) (dpend t) (qpend t) (dok t) (qok t)
             (wrote t) (forced t) (graceful t) (bad t) (pack_unhandled t) (pack_disorder t) (pack_closed t)
             (lifecycle_bad t) (ntd t) false)
  | EPanic => set_bad true t
  | _ => t
  end.

Definition track (c : cfg) (l : list ev) : tst := fold_left (tstep c) l t0.

(* ---------- C06: the state at the moment StopAndWait (or the shutdown sequence) returned ---------- *)
Fixpoint split_at_ret (l pre : list ev) : option (list ev * rcls * snapshot * list ev) :=
  match l with
  | [] => None
  | ERet KStopWait c _ snap :: r | ERet KShutdown c _ snap :: r => Some (rev pre, c, snap, r)
  | e :: r => split_at_ret r (e :: pre)
  end.

Definition mon_c06 (c : cfg) (healthy hung : bool) (l : list ev) : bool :=
  negb hung &&
  match split_at_ret l [] with
  | None => negb healthy                       (* a healthy stop must come back *)
  | Some (pre, RNil, snap, _) => drained (c_v1 c) (c_slow c) (c_nsrc c) snap (track c pre)
  | Some (_, RNotRunning, _, _) => true        (* nothing was running: the property does not speak *)
  | Some (_, _, _, _) => negb healthy          (* a healthy stop must complete without error *)
  end.

(* ---------- C12 ---------- *)
Fixpoint after_term (l : list ev) : option (list ev) :=
  match l with [] => None | ETerm :: r => Some r | _ :: r => after_term r end.
Fixpoint has_noterm (l : list ev) : bool :=
  match l with [] => false | ENoTerm :: _ => true | _ :: r => has_noterm r end.

(* between the end of the run and the harness's own restart: no plugin is opened again, the
   pipeline does not go back to running/recovering, and the status the harness then reads is
   the force-stop failure (or "stopped by the user" when a graceful stop was already under way
   and completed first) *)
Fixpoint watch (l : list ev) (last_force graceful : bool) : bool :=
  match l with
  | [] => false
  | EOpen _ _ :: _ => false
  | EStatus StRunning _ :: _ | EStatus StRecovering _ :: _ => false
  | EWatched StDegraded :: _ => last_force
  | EWatched StUserStopped :: _ => graceful
  | EWatched _ :: _ => false
  | EStatus _ f :: r => watch r f graceful
  | _ :: r => watch r last_force graceful
  end.

(* a fresh Init on the same store does not start the force-stopped pipeline *)
Fixpoint after_boot (l : list ev) : option (list ev) :=
  match l with [] => None | EBoot :: r => Some r | _ :: r => after_boot r end.
Fixpoint boot_quiet (l : list ev) : bool :=
  match l with
  | [] => false
  | EOpen _ _ :: _ => false
  | EStatus StRunning _ :: _ | EStatus StRecovering _ :: _ => false
  | EBooted StRunning :: _ | EBooted StRecovering :: _ => false
  | EBooted _ :: _ => true
  | _ :: r => boot_quiet r
  end.

(* cases without a process restart say so: the next start then goes through the very connector instances the
   force-stopped run used, so it succeeds only if that run released every one of them *)
Fixpoint same_proc (l : list ev) : bool :=
  match l with [] => false | ESameProc :: _ => true | _ :: r => same_proc r end.

Fixpoint last_status_force (l : list ev) (acc : bool) : bool :=
  match l with
  | [] => acc
  | ETerm :: _ => acc
  | EStatus _ f :: r => last_status_force r f
  | _ :: r => last_status_force r acc
  end.

Fixpoint force_ret (l : list ev) : option rcls :=
  match l with [] => None | ERet KForce c _ _ :: _ => Some c | _ :: r => force_ret r end.

Fixpoint after_restart (l : list ev) : option (snapshot * list ev) :=
  match l with [] => None | ERestart s :: r => Some (s, r) | _ :: r => after_restart r end.

(* the next run opens every source at its durable position, which no ack ever overtook and
   below which everything is handled *)
Definition resume_ok (c : cfg) (l : list ev) : bool :=
  match after_restart l with
  | None => false
  | Some (snap, rest) =>
      forallb (fun s =>
        existsb (fun e => match e with EOpen (CSrc s') pos => Nat.eqb s s' && Nat.eqb pos (lookup s snap) | _ => false end) rest)
        (srcs (c_nsrc c))
  end.

Fixpoint packs_below (l : list ev) (snap : snapshot) : bool :=
  match l with
  | [] => true
  | ERestart _ :: _ => true
  | EPack s k :: r => Nat.leb k (lookup s snap) && packs_below r snap
  | _ :: r => packs_below r snap
  end.

Definition mon_c12 (c : cfg) (hung : bool) (l : list ev) : bool :=
  let t := track c l in
  negb hung && negb (has_noterm l) &&
  negb (pack_unhandled t) &&                                   (* acks nothing undelivered *)
  match force_ret l with
  | Some RNil =>
      match after_term l with
      | None => false                                          (* the run must end *)
      | Some rest =>
          (* failed-by-force-stop, no automatic restart *)
          watch rest (last_status_force l false) (graceful t)
          && match after_boot rest with Some r => boot_quiet r | None => same_proc rest end
          && resume_ok c l
          && match after_restart l with Some (snap, _) => packs_below l snap | None => false end
      end
  | Some _ => true              (* the pipeline was not running when the force stop arrived *)
  | None => false
  end.

(* ---------- the acceptor ---------- *)
Definition accept (c : cfg) (l : list ev) : bool := negb (bad (track c l)).

Definition chk (c : scase) : nat :=
  match c with
  | SCase PC06 v1 nsrc ndst slow healthy hung evs =>
      let c := mkC v1 slow nsrc ndst in code (accept c evs) (mon_c06 c healthy hung evs)
  | SCase PC12 v1 nsrc ndst slow healthy hung evs =>
      let c := mkC v1 slow nsrc ndst in code (accept c evs) (mon_c12 c hung evs)
  end.
