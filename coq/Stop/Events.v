(* Observable events of the service-level runs of harness/cmd/c06 (properties C06 and C12).
   Sources, destinations, DLQ connectors and processors are numbered; record k of source s is (s,k). *)
From Coq Require Export List Arith Bool.
Export ListNotations.

Inductive conn := CSrc (s : nat) | CDst (d : nat) | CDlq (q : nat) | CProc (p inst : nat).
Inductive callk := KStart | KStopWait | KForce | KWait | KStop
| KShutdown.   (* the engine's graceful shutdown as conduit's runtime performs it: StopAll with the shutdown reason
                  (v1: pipeline.ErrGracefulShutdown; v2: StopAll(force=false)), Wait, then the persister's Wait *)
Inductive rcls := RNil | RNotRunning | RForce | RTimeout | RError.
Inductive status := StRunning | StUserStopped | StSystemStopped | StDegraded | StRecovering | StOther.

Definition snapshot := list (nat * nat).   (* source -> k of its durable position *)

Inductive ev :=
| ERead (s k : nat)                     (* the source plugin handed record k to the engine *)
| EUnread (s k : nat)                   (* ... the hand-off failed: k was not read after all *)
| EDWrite (d s k : nat)                 (* destination plugin d received (s,k) *)
| EDConf (d s k : nat) (ok : bool)      (* ... and answered *)
| EDUnconf (d s k : nat)                (* ... but the answer could not be sent *)
| EQWrite (q s k : nat)                 (* DLQ connector q received the dead letter of (s,k) *)
| EQConf (q s k : nat) (ok : bool)
| EQUnconf (q s k : nat)
| EPack (s k : nat)                     (* the source plugin received the ack of record k *)
| ECommit (snap : snapshot)             (* a store transaction committed; durable positions after it *)
| EOpen (c : conn) (pos : nat)          (* plugin Open (sources: the position they resume from) *)
| ETd (c : conn)                        (* plugin Teardown *)
| ECall (k : callk) (id : nat)
| ERet (k : callk) (c : rcls) (id : nat) (snap : snapshot)   (* StopAndWait: the store when it returned *)
| EStatus (st : status) (force : bool)  (* a status write became visible; force: the stored error is the force-stop error *)
| ERelease                              (* harness: every gate opened *)
| ESlow                                 (* harness: the store stalls longer than the source teardown budget *)
| ETerm | ENoTerm                       (* harness: WaitPipeline returned within the deadline after a force stop / did not *)
| EWatched (st : status)                (* harness: status after watching for an automatic restart *)
| EBoot                                 (* harness: fresh services on the same store, lifecycle Init about to run *)
| EBooted (st : status)                 (* harness: Init returned; pipeline status afterwards *)
| ERestart (snap : snapshot)            (* harness: about to start the pipeline again; durable positions *)
| EPanic
| ESameProc.                            (* harness: no process restart in this case: the force-stopped pipeline is started
                                           again through the SAME services (the connector instances of the ended run) *)

Inductive prop := PC06 | PC12.

(* property, engine (true = v1), #sources, #destinations, slow store, healthy, hung, log *)
Inductive scase := SCase (p : prop) (v1 : bool) (nsrc ndst : nat) (slow healthy hung : bool) (evs : list ev).
