(* Model of the stop protocols of both engines for one source connector (properties C06, C12).

   Code modelled
     v1  pkg/lifecycle/service.go      Stop -> stopGraceful / stopForceful, StopAndWait, runPipeline (cleanup)
         pkg/lifecycle/stream/source.go  SourceNode.Stop (Source.Stop -> stop position -> control message),
                                         SourceNode.Run (loop ends at the stop position; deferred:
                                         openMsgTracker.Wait, Source.Teardown, cleanup closes the out channel)
         pkg/lifecycle/stream/destination.go, destination_acker.go, dlq.go, fanout.go   close downstream in order;
                                         on a cancelled context open messages are nacked, never acked
     v2  pkg/lifecycle-poc/funnel/worker.go   Worker.Stop (processingLock: no batch in flight; stop flag;
                                         tearDownSource), Worker.Do / doTask (a batch read but not started is
                                         dropped), Worker.Close; service.go stopRunnablePipeline, StopAndWait
     both pkg/connector/source.go      Ack (position into the persister batch; the plugin ack is deferred),
                                         onPersistFlushed, deliverDeferredAcks, Teardown (flush, wait, close the
                                         deferred queue, drain it, close the stream, plugin teardown)
          pkg/connector/persister.go   Persist / Flush / WaitPendingWrites

   A source is described by counters over its records 1,2,3,... (acks travel in read order: C04):
       pack <= dq <= stored <= eack <= handled <= taken <= avail
   avail    records the plugin produced            taken    records the engine took into processing
   handled  records with their final outcome (every destination confirmed, or the dead letter confirmed)
   eack     records acked to connector.Source (position handed to the persister)
   stored   durable position                       dq       acks queued for delivery to the plugin
   pack     acks the plugin received
   The environment (plugins, store) and the engine are interleaved arbitrarily: [run init l] ranges
   over all schedules.  Definitions only; proofs in StopProofs.v. *)
From Coq Require Export List Arith Bool Lia.
Export ListNotations.

Inductive sph :=
| SRun                 (* source node / worker reading *)
| SStopping (pos : nat)(* v1: Source.Stop returned position pos, control message injected *)
| SWaitOpen            (* v1: loop ended at the stop position; openMsgTracker.Wait *)
| STearFlush           (* Source.Teardown: flush forced, waiting for the persister *)
| STearDrain           (* deferred-ack queue closed, waiting for the delivery goroutine *)
| STorn.               (* stream closed, plugin torn down *)

(* why the run ended (tomb: the first Kill wins) *)
Inductive reason := RNone | RFatalForce | RTransient.

Inductive pstatus := PRunning | PUserStopped | PDegradedForce | PRecovering.

Record st := mk {
  v1 : bool;
  avail : nat; taken : nat; handled : nat; eack : nat; stored : nat; dq : nat; pack : nat;
  nacked : nat;            (* records whose processing was cut off by a cancelled context (never acked) *)
  dirty : bool;            (* the persister batch holds a position that is not yet durable *)
  qclosed : bool;          (* deferredAckClosed *)
  ph : sph;
  stopreq : bool;          (* a graceful stop was requested *)
  killed : bool;           (* the run context is cancelled *)
  why : reason;
  downtorn : bool;         (* processors, destinations, DLQ stopped and torn down *)
  tds : nat;               (* Teardown calls on the source plugin *)
  dtds : nat;              (* Teardown rounds of the downstream connectors/processors *)
  status : pstatus;
  restarts : nat;          (* automatic restarts *)
  ret_ok : bool            (* StopAndWait returned nil *)
}.

Definition init (engine_v1 : bool) : st :=
  mk engine_v1 0 0 0 0 0 0 0 0 false false SRun false false RNone false 0 0 PRunning 0 false.

Inductive act :=
(* environment: plugins and store answer *)
| AEmit                (* the source plugin has one more record *)
| AHandled             (* the oldest unhandled record got its final outcome *)
| AFlush               (* a persister flush committed (timer, threshold, forced) and ran its callbacks *)
| ADeliver             (* the delivery goroutine handed one queued ack to the plugin *)
(* engine *)
| ATake                (* the engine takes the next record into processing *)
| AEAck                (* ack of the oldest handled record reaches connector.Source.Ack *)
| AStopCall            (* Stop / StopAndWait called *)
| AStopSrc             (* v1: SourceNode.Stop; v2: Worker.Stop got the processing lock *)
| ALoopEnd             (* v1: the source loop saw the record at the stop position *)
| ATearBegin           (* v1: open messages drained; Source.Teardown starts *)
| ATearFlushed         (* the forced flush and its callbacks are done; the deferred queue is closed *)
| ATearDrained         (* the delivery goroutine has drained; stream closed; plugin Teardown *)
| ADownTear            (* downstream nodes / tasks closed and torn down *)
| ACleanup             (* all goroutines joined: status written *)
| AReturn              (* WaitPipeline + WaitPersisted done: StopAndWait returns nil *)
(* force stop *)
| AForce               (* Stop(force): Kill(FatalError(ErrForceStop)) + ForceStop of every node *)
| ACut                 (* a record in processing is nacked because its context is cancelled *)
| AAbortSrc            (* the source node / worker ends on the cancelled context and tears the plugin down
                          without waiting for the persister (bounded wait given up) *)
| AErr                 (* some node fails with a transient error: Kill(err) *)
.

Definition flush (s : st) : st :=
  if dirty s then
    mk (v1 s) (avail s) (taken s) (handled s) (eack s) (eack s) (if qclosed s then dq s else eack s) (pack s)
       (nacked s) false (qclosed s) (ph s) (stopreq s) (killed s) (why s) (downtorn s) (tds s) (dtds s)
       (status s) (restarts s) (ret_ok s)
  else s.

Definition set_ph (s : st) (p : sph) : st :=
  mk (v1 s) (avail s) (taken s) (handled s) (eack s) (stored s) (dq s) (pack s)
     (nacked s) (dirty s) (qclosed s) p (stopreq s) (killed s) (why s) (downtorn s) (tds s) (dtds s)
     (status s) (restarts s) (ret_ok s).

Definition plugin_up (s : st) : bool := match ph s with STorn => false | _ => true end.
Definition reading (s : st) : bool :=
  match ph s with
  | SRun => true
  | SStopping pos => v1 s && Nat.ltb (taken s) pos
  | _ => false
  end.

Definition step (s : st) (a : act) : option st :=
  match a with
  | AEmit =>
      (* the plugin stops producing once it was told to stop / its stream is closed *)
      match ph s with
      | SRun => Some (mk (v1 s) (S (avail s)) (taken s) (handled s) (eack s) (stored s) (dq s) (pack s)
                         (nacked s) (dirty s) (qclosed s) (ph s) (stopreq s) (killed s) (why s) (downtorn s)
                         (tds s) (dtds s) (status s) (restarts s) (ret_ok s))
      | _ => None
      end
  | ATake =>
      if reading s && Nat.ltb (taken s) (avail s) && negb (killed s) then
        Some (mk (v1 s) (avail s) (S (taken s)) (handled s) (eack s) (stored s) (dq s) (pack s)
                 (nacked s) (dirty s) (qclosed s) (ph s) (stopreq s) (killed s) (why s) (downtorn s)
                 (tds s) (dtds s) (status s) (restarts s) (ret_ok s))
      else None
  | AHandled =>
      (* needs the downstream connectors alive; a record that was cut off is never handled *)
      if Nat.ltb (handled s + nacked s) (taken s) && negb (downtorn s) then
        Some (mk (v1 s) (avail s) (taken s) (S (handled s)) (eack s) (stored s) (dq s) (pack s)
                 (nacked s) (dirty s) (qclosed s) (ph s) (stopreq s) (killed s) (why s) (downtorn s)
                 (tds s) (dtds s) (status s) (restarts s) (ret_ok s))
      else None
  | AEAck =>
      (* Source.Ack fails once the plugin is torn down *)
      if Nat.ltb (eack s) (handled s) && plugin_up s then
        Some (mk (v1 s) (avail s) (taken s) (handled s) (S (eack s)) (stored s) (dq s) (pack s)
                 (nacked s) true (qclosed s) (ph s) (stopreq s) (killed s) (why s) (downtorn s)
                 (tds s) (dtds s) (status s) (restarts s) (ret_ok s))
      else None
  | AFlush => Some (flush s)
  | ADeliver =>
      if Nat.ltb (pack s) (dq s) && plugin_up s then
        Some (mk (v1 s) (avail s) (taken s) (handled s) (eack s) (stored s) (dq s) (S (pack s))
                 (nacked s) (dirty s) (qclosed s) (ph s) (stopreq s) (killed s) (why s) (downtorn s)
                 (tds s) (dtds s) (status s) (restarts s) (ret_ok s))
      else None
  | AStopCall =>
      match status s with
      | PRunning =>
          Some (mk (v1 s) (avail s) (taken s) (handled s) (eack s) (stored s) (dq s) (pack s)
                   (nacked s) (dirty s) (qclosed s) (ph s) true (killed s) (why s) (downtorn s)
                   (tds s) (dtds s) (status s) (restarts s) (ret_ok s))
      | _ => None
      end
  | AStopSrc =>
      match ph s with
      | SRun =>
          if stopreq s && negb (killed s) then
            if v1 s then Some (set_ph s (SStopping (avail s)))
            else
              (* the processing lock is free: no batch in flight, everything taken is acked *)
              if Nat.eqb (handled s) (taken s) && Nat.eqb (eack s) (handled s)
              then Some (flush (set_ph s STearFlush)) else None
          else None
      | _ => None
      end
  | ALoopEnd =>
      match ph s with
      | SStopping pos => if v1 s && Nat.eqb (taken s) pos && negb (killed s) then Some (set_ph s SWaitOpen) else None
      | _ => None
      end
  | ATearBegin =>
      match ph s with
      | SWaitOpen =>
          (* every message acked or nacked *)
          if Nat.eqb (eack s + nacked s) (taken s) && Nat.eqb (eack s) (handled s)
          then Some (flush (set_ph s STearFlush)) else None
      | _ => None
      end
  | ATearFlushed =>
      match ph s with
      | STearFlush =>
          if negb (dirty s) then
            Some (mk (v1 s) (avail s) (taken s) (handled s) (eack s) (stored s) (dq s) (pack s)
                     (nacked s) (dirty s) true STearDrain (stopreq s) (killed s) (why s) (downtorn s)
                     (tds s) (dtds s) (status s) (restarts s) (ret_ok s))
          else None
      | _ => None
      end
  | ATearDrained =>
      match ph s with
      | STearDrain =>
          if Nat.eqb (pack s) (dq s) then
            Some (mk (v1 s) (avail s) (taken s) (handled s) (eack s) (stored s) (dq s) (pack s)
                     (nacked s) (dirty s) (qclosed s) STorn (stopreq s) (killed s) (why s) (downtorn s)
                     (S (tds s)) (dtds s) (status s) (restarts s) (ret_ok s))
          else None
      | _ => None
      end
  | ADownTear =>
      match ph s with
      | STorn =>
          (* the inbound channels are closed one after the other; a destination tears down only after
             its open messages got their outcome (or were cut off) *)
          if negb (downtorn s) && Nat.eqb (handled s + nacked s) (taken s) then
            Some (mk (v1 s) (avail s) (taken s) (handled s) (eack s) (stored s) (dq s) (pack s)
                     (nacked s) (dirty s) (qclosed s) (ph s) (stopreq s) (killed s) (why s) true
                     (tds s) (S (dtds s)) (status s) (restarts s) (ret_ok s))
          else None
      | _ => None
      end
  | ACleanup =>
      match status s with
      | PRunning =>
          if downtorn s then
            match why s with
            | RNone =>
                Some (mk (v1 s) (avail s) (taken s) (handled s) (eack s) (stored s) (dq s) (pack s)
                         (nacked s) (dirty s) (qclosed s) (ph s) (stopreq s) (killed s) (why s) (downtorn s)
                         (tds s) (dtds s) PUserStopped (restarts s) (ret_ok s))
            | RFatalForce =>
                Some (mk (v1 s) (avail s) (taken s) (handled s) (eack s) (stored s) (dq s) (pack s)
                         (nacked s) (dirty s) (qclosed s) (ph s) (stopreq s) (killed s) (why s) (downtorn s)
                         (tds s) (dtds s) PDegradedForce (restarts s) (ret_ok s))
            | RTransient =>
                Some (mk (v1 s) (avail s) (taken s) (handled s) (eack s) (stored s) (dq s) (pack s)
                         (nacked s) (dirty s) (qclosed s) (ph s) (stopreq s) (killed s) (why s) (downtorn s)
                         (tds s) (dtds s) PRecovering (S (restarts s)) (ret_ok s))
            end
          else None
      | _ => None
      end
  | AReturn =>
      match status s with
      | PUserStopped =>
          (* WaitPipeline returned nil; WaitPersisted: the last flush and its callbacks are done *)
          if stopreq s && negb (dirty s) then
            Some (mk (v1 s) (avail s) (taken s) (handled s) (eack s) (stored s) (dq s) (pack s)
                     (nacked s) (dirty s) (qclosed s) (ph s) (stopreq s) (killed s) (why s) (downtorn s)
                     (tds s) (dtds s) (status s) (restarts s) true)
          else None
      | _ => None
      end
  | AForce =>
      match status s with
      | PRunning =>
          Some (mk (v1 s) (avail s) (taken s) (handled s) (eack s) (stored s) (dq s) (pack s)
                   (nacked s) (dirty s) (qclosed s) (ph s) (stopreq s) true
                   (match why s with RNone => RFatalForce | r => r end) (downtorn s)
                   (tds s) (dtds s) (status s) (restarts s) (ret_ok s))
      | _ => None
      end
  | AErr =>
      match status s with
      | PRunning =>
          Some (mk (v1 s) (avail s) (taken s) (handled s) (eack s) (stored s) (dq s) (pack s)
                   (nacked s) (dirty s) (qclosed s) (ph s) (stopreq s) true
                   (match why s with RNone => RTransient | r => r end) (downtorn s)
                   (tds s) (dtds s) (status s) (restarts s) (ret_ok s))
      | _ => None
      end
  | ACut =>
      if killed s && Nat.ltb (handled s + nacked s) (taken s) then
        Some (mk (v1 s) (avail s) (taken s) (handled s) (eack s) (stored s) (dq s) (pack s)
                 (S (nacked s)) (dirty s) (qclosed s) (ph s) (stopreq s) (killed s) (why s) (downtorn s)
                 (tds s) (dtds s) (status s) (restarts s) (ret_ok s))
      else None
  | AAbortSrc =>
      match ph s with
      | STorn => None
      | _ =>
          if killed s then
            Some (mk (v1 s) (avail s) (taken s) (handled s) (eack s) (stored s) (dq s) (pack s)
                     (nacked s) (dirty s) true STorn (stopreq s) (killed s) (why s) (downtorn s)
                     (S (tds s)) (dtds s) (status s) (restarts s) (ret_ok s))
          else None
      end
  end.

Fixpoint run (s : st) (l : list act) : option st :=
  match l with
  | [] => Some s
  | a :: r => match step s a with Some s' => run s' r | None => None end
  end.

(* what "drained" means for the model (the conclusion of C06) *)
Definition drained (s : st) : Prop :=
  pack s = stored s /\ stored s = eack s /\ eack s = handled s /\ handled s = taken s /\
  ph s = STorn /\ tds s = 1 /\ dtds s = 1 /\ nacked s = 0 /\ dirty s = false.

(* work left until a requested stop can return: open messages, unpersisted / undelivered acks, phases *)
Definition rank (p : sph) : nat :=
  match p with SRun => 6 | SStopping _ => 5 | SWaitOpen => 4 | STearFlush => 3 | STearDrain => 2 | STorn => 1 end.
Definition variant (s : st) : nat :=
  8 * (match ph s with SStopping pos => pos - taken s | SRun => avail s - taken s | _ => 0 end)
  + 2 * (taken s - handled s - nacked s) + 4 * (taken s - nacked s - eack s)
  + (if dirty s then 1 else 0) + (dq s - pack s) + (eack s - dq s)
  + 4 * rank (ph s) + (if downtorn s then 0 else 3)
  + (match status s with PRunning => 2 | _ => 0 end) + (if ret_ok s then 0 else 1).
