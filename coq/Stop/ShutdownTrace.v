(* The shutdown in the event vocabulary: the acceptor and the monitors treat "shutdown called / returned"
   (ECall / ERet KShutdown) exactly as "StopAndWait called / returned", so every trace of the generative model
   GenStop.v, read with its graceful stop being the engine's shutdown, is accepted as well - and therefore drained
   at the moment the shutdown returned nil. *)
From Verif Require Import Base.CaseCheck Stop.Events Stop.Check Stop.CheckProofs Stop.GenStop Stop.GenStopSim.

Definition as_shutdown_ev (e : ev) : ev :=
  match e with
  | ECall KStopWait id => ECall KShutdown id
  | ERet KStopWait c id snap => ERet KShutdown c id snap
  | e => e
  end.

Definition as_shutdown (l : list ev) : list ev := map as_shutdown_ev l.

Lemma tstep_as_shutdown c t e : tstep c t (as_shutdown_ev e) = tstep c t e.
Proof.
  destruct e; try reflexivity.
  - destruct k; reflexivity.
  - destruct k; try reflexivity; destruct c0; reflexivity.
Qed.

Lemma fold_as_shutdown c l : forall t, fold_left (tstep c) (as_shutdown l) t = fold_left (tstep c) l t.
Proof.
  induction l as [|e l IH]; intros t; simpl; [reflexivity|]. rewrite tstep_as_shutdown. apply IH.
Qed.

Lemma track_as_shutdown c l : track c (as_shutdown l) = track c l.
Proof. unfold track. apply fold_as_shutdown. Qed.

Theorem accept_as_shutdown : forall c l, accept c (as_shutdown l) = accept c l.
Proof. intros c l. unfold accept. rewrite track_as_shutdown. reflexivity. Qed.

Theorem gen_trace_accepted_as_shutdown : forall e m l s, grun (ginit e m) l = Some s ->
  accept (cfgof e m) (as_shutdown (trace s)) = true.
Proof. intros e m l s H. rewrite accept_as_shutdown. eapply gen_trace_accepted; eauto. Qed.

Theorem gen_shutdown_return_drained : forall e m l s pre snap rest, grun (ginit e m) l = Some s ->
  split_at_ret (as_shutdown (trace s)) [] = Some (pre, RNil, snap, rest) ->
  drained e false 1 snap (track (cfgof e m) pre) = true.
Proof.
  intros e m l s pre snap rest H Hs.
  exact (accepted_log_satisfies_mon_c06 (cfgof e m) _ _ _ _ (gen_trace_accepted_as_shutdown e m l s H) Hs).
Qed.
