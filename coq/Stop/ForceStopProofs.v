(* C12: the force-stop latch and the force path of the stop model. *)
From Verif Require Import Stop.Stop Stop.StopProofs Stop.ForceStop.

(* ---------- the latch ---------- *)
Lemma keep_cancelled l : forall f, cancelled f = true -> has_cancel f = true -> count_start l = 0 ->
  cancelled (fold_left fstep l f) = true /\ nil_called (fold_left fstep l f) = nil_called f.
Proof.
  induction l as [|o l IH]; intros f H1 H2 H3; [split; [exact H1|reflexivity]|].
  destruct o; simpl in H3; [discriminate|]. simpl. rewrite H2.
  destruct (IH (mkfs true (stopped f) true (nil_called f)) eq_refl eq_refl H3) as [A B].
  split; [exact A|exact B].
Qed.

Lemma stop_after_start l : forall f, has_cancel f = true -> count_start l = 0 -> In FStop l ->
  cancelled (fold_left fstep l f) = true /\ nil_called (fold_left fstep l f) = nil_called f.
Proof.
  induction l as [|o l IH]; intros f Hc Hn Hin; [contradiction|].
  destruct o; simpl in Hn; [discriminate|]. simpl. rewrite Hc.
  destruct (keep_cancelled l (mkfs true (stopped f) true (nil_called f)) eq_refl eq_refl Hn) as [A B].
  split; [exact A|exact B].
Qed.

Lemma start_after_stop l : forall f, has_cancel f = false -> stopped f = true -> count_start l = 1 ->
  cancelled (fold_left fstep l f) = true /\ nil_called (fold_left fstep l f) = nil_called f.
Proof.
  induction l as [|o l IH]; intros f Hc Hs Hn; [discriminate|].
  destruct o; simpl in Hn.
  - (* the start: the latched stop cancels the fresh context at once *)
    simpl. rewrite Hs. inversion Hn as [Hn'].
    destruct (keep_cancelled l (mkfs true true true (nil_called f)) eq_refl eq_refl Hn') as [A B].
    split; [exact A|exact B].
  - simpl. rewrite Hc.
    destruct (IH (mkfs false true (cancelled f) (nil_called f)) eq_refl eq_refl Hn) as [A B].
    split; [exact A|exact B].
Qed.

(* Whatever the order of the node's start() and any number of ForceStop calls: once both have
   happened the connector context is cancelled, and a nil cancel func is never invoked. *)
Theorem force_latch : forall l, count_start l = 1 -> In FStop l ->
  cancelled (frun l) = true /\ nil_called (frun l) = false.
Proof.
  intros l Hn Hin. unfold frun.
  assert (H : forall l f, has_cancel f = false -> count_start l = 1 -> In FStop l ->
            cancelled (fold_left fstep l f) = true /\ nil_called (fold_left fstep l f) = nil_called f).
  { clear. induction l as [|o l IH]; intros f Hc Hn Hin; [contradiction|].
    destruct o; simpl in Hn.
    - inversion Hn as [Hn']. destruct Hin as [E|Hin]; [discriminate|]. simpl.
      destruct (stop_after_start l (mkfs true (stopped f) (stopped f) (nil_called f)) eq_refl Hn' Hin) as [A B].
      split; [exact A|exact B].
    - simpl. rewrite Hc.
      destruct (start_after_stop l (mkfs false true (cancelled f) (nil_called f)) eq_refl eq_refl Hn) as [A B].
      split; [exact A|exact B]. }
  apply (H l fs0); auto.
Qed.

(* without a stop the context stays alive; with a stop but no start nothing is invoked at all *)
Theorem latch_no_spurious_cancel : forall l, ~ In FStop l -> cancelled (frun l) = false.
Proof.
  intros l. unfold frun.
  assert (H : forall l f, stopped f = false -> cancelled f = false -> ~ In FStop l ->
            cancelled (fold_left fstep l f) = false).
  { clear. induction l as [|o l IH]; intros f H1 H2 Hn; [exact H2|].
    destruct o; [|exfalso; apply Hn; left; reflexivity]. simpl. apply IH; simpl; auto.
    intros Hin. apply Hn. right. exact Hin. }
  apply H; reflexivity.
Qed.

(* ---------- the force path ---------- *)
(* No schedule - with or without force stop, at whatever instant - ever makes the plugin hear an
   ack for a record that is not handled, or for a position that is not durable; a record cut off by
   the cancellation is never acked. *)
Theorem force_stop_acks_only_handled : forall e l s, run (init e) l = Some s ->
  pack s <= stored s /\ stored s <= eack s /\ eack s <= handled s /\ handled s + nacked s <= taken s.
Proof.
  intros e l s Hr. destruct (J_reach e s (ex_intro _ l Hr)) as (J1 & J2 & J3 & J4 & J5 & _).
  repeat split; lia.
Qed.

(* every step of the cancellation leaves the acks alone: it can only turn open messages into nacked ones *)
Theorem cancellation_only_nacks : forall s a s', (a = AForce \/ a = ACut \/ a = AAbortSrc \/ a = AErr) ->
  step s a = Some s' ->
  pack s' = pack s /\ dq s' = dq s /\ stored s' = stored s /\ eack s' = eack s /\ handled s' = handled s /\
  taken s' = taken s /\ nacked s <= nacked s'.
Proof.
  intros s a s' [E|[E|[E|E]]] Hs; subst a; step_cases Hs; fsimpl; repeat split; lia.
Qed.

Lemma why_stable s a s' : why s <> RNone -> step s a = Some s' -> why s' = why s.
Proof.
  intros Hw Hs. step_cases Hs; fsimpl; try reflexivity; congruence.
Qed.

(* A force stop that is the first reason the run ends: the pipeline ends up degraded with the
   force-stop error, is never restarted automatically, and a StopAndWait in flight does not report success. *)
Theorem force_stop_degrades_no_restart : forall e l s, run (init e) l = Some s -> why s = RFatalForce ->
  restarts s = 0 /\ (status s = PRunning \/ status s = PDegradedForce) /\ ret_ok s = false.
Proof.
  intros e l s Hr Hw. destruct (JK_reach e s (ex_intro _ l Hr)) as [_ HK].
  destruct HK as [Kkill Kwhy Knack Kstopping Klate Klater Ktorn Ktds1 Ktds0 Kdtds1 Kdtds0 Kuser Kdegr Krecov Kret Krestart Krunning Kdown Kq Kwhyk Kv1].
  split; [apply Krestart; congruence|]. split.
  - destruct (status s) eqn:E; auto.
    + destruct (Kuser eq_refl) as (_ & Hx). congruence.
    + pose proof (Krecov eq_refl). congruence.
  - destruct (ret_ok s) eqn:E; [|reflexivity]. destruct (Kret eq_refl) as (Hst & _).
    destruct (Kuser Hst) as (_ & Hx). congruence.
Qed.

Theorem force_first_wins : forall s s' l s'', why s = RNone -> step s AForce = Some s' -> run s' l = Some s'' ->
  why s'' = RFatalForce.
Proof.
  intros s s' l s'' Hw Hs Hr.
  assert (H1 : why s' = RFatalForce)
    by (unfold step in Hs; destruct (status s); try discriminate; inversion Hs; subst; cbn [why]; rewrite Hw; reflexivity).
  clear Hs Hw. revert s' H1 Hr. induction l as [|a l IH]; intros s' H1 Hr; simpl in Hr.
  - inversion Hr; subst; exact H1.
  - destruct (step s' a) as [s1|] eqn:E; [|discriminate]. apply (IH s1); [|exact Hr].
    rewrite (why_stable s' a s1); [exact H1|congruence|exact E].
Qed.

(* progress: a force-stopped run can always end: every blocked plugin call returns on the cancelled
   context, open messages are nacked, nodes return, the status is written *)
Definition fvariant (s : st) : nat :=
  (taken s - handled s - nacked s) + (match ph s with STorn => 0 | _ => 1 end) + (if downtorn s then 0 else 1).

Theorem force_stop_terminates : forall e s, reach e s -> killed s = true -> status s = PRunning ->
  exists l s', run s l = Some s' /\ status s' <> PRunning /\ length l <= fvariant s + 1.
Proof.
  intros e s Hre. remember (fvariant s) as n eqn:Hn. revert s Hre Hn.
  induction n as [n IH] using lt_wf_ind. intros s Hre Hn Hk Hst. subst n.
  destruct (JK_reach e s Hre) as [HJ HK].
  destruct HJ as (J1 & J2 & J3 & J4 & J5 & J6 & J7 & J8).
  destruct HK as [Kkill Kwhy Knack Kstopping Klate Klater Ktorn Ktds1 Ktds0 Kdtds1 Kdtds0 Kuser Kdegr Krecov Kret Krestart Krunning Kdown Kq Kwhyk Kv1].
  assert (Hnext : forall a s1, step s a = Some s1 -> fvariant s1 < fvariant s -> killed s1 = true -> status s1 = PRunning ->
            exists l s', run s l = Some s' /\ status s' <> PRunning /\ length l <= fvariant s + 1).
  { intros a s1 Hs Hlt Hk1 Hst1.
    destruct (IH (fvariant s1) ltac:(lia) s1 (reach_step _ _ _ _ Hre Hs) eq_refl Hk1 Hst1) as (l & s2 & Hr & Hne & Hlen).
    exists (a :: l), s2. split; [simpl; rewrite Hs; exact Hr|]. split; [exact Hne|simpl; lia]. }
  destruct (ph s) eqn:Hph;
    try (eapply (Hnext AAbortSrc); [unfold step; rewrite Hph, Hk; reflexivity| | |];
         [unfold fvariant; cbn [ph taken handled nacked downtorn]; rewrite Hph; lia|reflexivity|exact Hst]).
  (* the plugin is torn down *)
  destruct (Nat.ltb (handled s + nacked s) (taken s)) eqn:E1.
  - eapply (Hnext ACut); [unfold step; rewrite Hk, E1; reflexivity| | |];
      [apply Nat.ltb_lt in E1; unfold fvariant; cbn [ph taken handled nacked downtorn]; rewrite Hph; lia|reflexivity|exact Hst].
  - apply Nat.ltb_ge in E1. destruct (downtorn s) eqn:Hd.
    + (* everything joined: the cleanup writes the status *)
      assert (Hw : why s <> RNone) by (apply Kkill; exact Hk).
      destruct (why s) eqn:Ew; [congruence| |].
      * eexists [ACleanup], _. unfold run, step. rewrite Hst, Hd, Ew. split; [reflexivity|]. split; [simpl; discriminate|simpl; lia].
      * eexists [ACleanup], _. unfold run, step. rewrite Hst, Hd, Ew. split; [reflexivity|]. split; [simpl; discriminate|simpl; lia].
    + eapply (Hnext ADownTear).
      * unfold step. rewrite Hph, Hd. cbn [negb andb].
        assert (E2 : Nat.eqb (handled s + nacked s) (taken s) = true) by (apply Nat.eqb_eq; lia). rewrite E2. reflexivity.
      * unfold fvariant; cbn [ph taken handled nacked downtorn]. rewrite Hph, Hd. lia.
      * cbn [killed]. exact Hk.
      * cbn [status]. exact Hst.
Qed.
