(* The generative model (GenStop.v) against the executable acceptor of observed logs (Check.v). *)
From Verif Require Stop.Stop Stop.StopProofs Stop.ForceStopProofs.
From Verif Require Import Base.CaseCheck Stop.Events Stop.Check Stop.CheckProofs Stop.GenStop.
From Coq Require Import Lia.

Definition greach (e : bool) (m : nat) (s : g) : Prop := exists l, grun (ginit e m) l = Some s.

Lemma grun_app l1 : forall s l2, grun s (l1 ++ l2) = match grun s l1 with Some s' => grun s' l2 | None => None end.
Proof.
  induction l1 as [|a l1 IH]; intros s l2; simpl; [reflexivity|]. destruct (gstep s a); [apply IH|reflexivity].
Qed.

Lemma ginv e m (P : g -> Prop) :
  P (ginit e m) -> (forall s a s', greach e m s -> P s -> gstep s a = Some s' -> P s') ->
  forall s, greach e m s -> P s.
Proof.
  intros H0 Hs s [l Hl]. revert s Hl. induction l as [|a l IH] using rev_ind; intros s Hl.
  - simpl in Hl. inversion Hl; subst; exact H0.
  - rewrite grun_app in Hl. destruct (grun (ginit e m) l) as [s1|] eqn:E; [|discriminate].
    simpl in Hl. destruct (gstep s1 a) eqn:E2; [|discriminate]. inversion Hl; subst.
    eapply Hs; [exists l; exact E|apply IH; reflexivity|exact E2].
Qed.

(* which protocol action (if any) a step of the generative model performs *)
Definition pact (a : gact) : option Stop.act :=
  match a with
  | GEmit => Some Stop.AEmit | GRead => Some Stop.ATake | GWrite _ | GConf _ => None
  | GHandled => Some Stop.AHandled | GEAck => Some Stop.AEAck | GFlush => Some Stop.AFlush
  | GDeliver => Some Stop.ADeliver | GStopCall => Some Stop.AStopCall | GStopSrc => Some Stop.AStopSrc
  | GLoopEnd => Some Stop.ALoopEnd | GTearBegin => Some Stop.ATearBegin | GTearFlushed => Some Stop.ATearFlushed
  | GTearDrained => Some Stop.ATearDrained | GDownTear => Some Stop.ADownTear | GCleanup => Some Stop.ACleanup
  | GReturn => Some Stop.AReturn | GForce => Some Stop.AForce | GCut => Some Stop.ACut
  | GAbortSrc => Some Stop.AAbortSrc
  end.

Lemma gstep_base s a s' : gstep s a = Some s' ->
  match pact a with
  | Some a0 => Stop.step (base s) a0 = Some (base s')
  | None => base s' = base s
  end.
Proof.
  intros H. destruct a; cbn [pact]; unfold gstep, via in H;
    repeat match type of H with
           | context [if ?c then _ else _] => destruct c eqn:?
           | context [match Stop.step ?b ?x with _ => _ end] => destruct (Stop.step b x) eqn:?
           end; try discriminate; inversion H; subst; cbn [base]; auto.
Qed.

(* the protocol state of the generative model is a reachable state of Stop.v: all its invariants
   and theorems (counter order, phases, graceful_stop_drains, force theorems) hold of it *)
Theorem base_reachable e m s : greach e m s -> StopProofs.reach e (base s).
Proof.
  revert s. apply ginv; [apply StopProofs.reach_init|].
  intros s a s' _ IH Hs. pose proof (gstep_base s a s' Hs) as Hb.
  destruct (pact a); [eapply StopProofs.reach_step; eauto|rewrite Hb; exact IH].
Qed.

(* ---------- per-destination counters ---------- *)
Lemma bump_length i l : length (bump i l) = length l.
Proof. revert i; induction l as [|x l IH]; intros [|i]; simpl; auto. Qed.
Lemma nth_bump_same i : forall l, i < length l -> nth i (bump i l) 0 = S (nth i l 0).
Proof. induction i as [|i IH]; intros [|x l] H; simpl in *; try lia; auto. apply IH. lia. Qed.
Lemma nth_bump_other i j : forall l, i <> j -> nth j (bump i l) 0 = nth j l 0.
Proof.
  revert j; induction i as [|i IH]; intros [|j] [|x l] H; simpl; auto; try congruence.
Qed.

(* every destination has confirmed at least what counts as handled, written at least what it confirmed,
   and nothing that was not read *)
Definition Cnt (m : nat) (s : g) : Prop :=
  length (wc s) = m /\ length (cc s) = m /\
  forall i, i < m -> Stop.handled (base s) <= nth i (cc s) 0 /\ nth i (cc s) 0 <= nth i (wc s) 0 /\
                     nth i (wc s) 0 <= Stop.taken (base s).

Lemma step_counters b a b' : Stop.step b a = Some b' ->
  match a with
  | Stop.ATake => Stop.taken b' = S (Stop.taken b) /\ Stop.handled b' = Stop.handled b
  | Stop.AHandled => Stop.taken b' = Stop.taken b /\ Stop.handled b' = S (Stop.handled b)
  | _ => Stop.taken b' = Stop.taken b /\ Stop.handled b' = Stop.handled b
  end.
Proof.
  intros H. destruct a; StopProofs.step_cases H; StopProofs.fsimpl; split; reflexivity.
Qed.

Lemma forallb_nth (f : nat -> bool) l : forallb f l = true -> forall i, i < length l -> f (nth i l 0) = true.
Proof.
  induction l as [|x l IH]; intros H i Hi; simpl in *; [lia|].
  apply andb_true_iff in H. destruct H as [H1 H2]. destruct i; [exact H1|apply IH; [exact H2|lia]].
Qed.

Lemma Cnt_reach e m s : greach e m s -> Cnt m s.
Proof.
  revert s. apply ginv.
  - unfold Cnt, ginit. cbn [wc cc base]. rewrite repeat_length. repeat split; auto;
      assert (E : nth i (repeat 0 m) 0 = 0) by (apply nth_repeat); rewrite E; simpl; lia.
  - intros s a s' _ (L1 & L2 & H) Hs. pose proof (gstep_base s a s' Hs) as Hb.
    unfold Cnt. destruct a; cbn [pact] in Hb;
      try (apply step_counters in Hb; cbn beta iota in Hb; destruct Hb as [Ht Hh]);
      unfold gstep, via in Hs;
      repeat match type of Hs with
             | context [if ?c then _ else _] => destruct c eqn:?
             | context [match Stop.step ?b ?x with _ => _ end] => destruct (Stop.step b x) eqn:?
             end; try discriminate; injection Hs as <-; cbn [wc cc base] in *;
      rewrite ?bump_length; (split; [assumption|split; [assumption|]]); intros j Hj; destruct (H j Hj) as (A & B & C);
      rewrite ?Ht, ?Hh; try (repeat split; lia).
    + (* GWrite *)
      apply andb_true_iff in Heqb. destruct Heqb as [Hx _]. apply andb_true_iff in Hx. destruct Hx as [Hi Hw].
      apply Nat.ltb_lt in Hi, Hw.
      destruct (Nat.eq_dec i j) as [->|Hne]; [rewrite nth_bump_same by lia|rewrite nth_bump_other by exact Hne]; lia.
    + (* GConf *)
      apply andb_true_iff in Heqb. destruct Heqb as [Hx _]. apply andb_true_iff in Hx. destruct Hx as [Hi Hw].
      apply Nat.ltb_lt in Hi, Hw.
      destruct (Nat.eq_dec i j) as [->|Hne]; [rewrite nth_bump_same by lia|rewrite nth_bump_other by exact Hne]; lia.
    + (* GHandled *)
      pose proof (forallb_nth _ _ Heqb j ltac:(lia)) as Hf. apply Nat.ltb_lt in Hf. lia.
Qed.

(* ---------- the acceptor's guards hold in the model whenever it emits the guarded event ---------- *)
Lemma J_of e m s : greach e m s -> StopProofs.J (base s).
Proof. intros H. apply (StopProofs.J_reach e). apply (base_reachable e m). exact H. Qed.

(* EPack: the record is durable, confirmed by EVERY destination, next in order, and the plugin is up *)
Theorem gen_ack_guard : forall e m s s', greach e m s -> gstep s GDeliver = Some s' ->
  evs s' = EPack 1 (S (Stop.pack (base s))) :: evs s /\
  S (Stop.pack (base s)) <= Stop.stored (base s) /\
  (forall i, i < m -> S (Stop.pack (base s)) <= nth i (cc s) 0) /\
  Stop.plugin_up (base s) = true.
Proof.
  intros e m s s' Hr Hs. destruct (J_of e m s Hr) as (J1 & J2 & J3 & J4 & _).
  destruct (Cnt_reach e m s Hr) as (_ & _ & Hc).
  unfold gstep, via in Hs. destruct (Stop.step (base s) Stop.ADeliver) as [b'|] eqn:E; [|discriminate].
  injection Hs as <-. cbn [evs]. split; [reflexivity|].
  unfold Stop.step in E. destruct (Nat.ltb (Stop.pack (base s)) (Stop.dq (base s)) && Stop.plugin_up (base s)) eqn:G; [|discriminate].
  apply andb_true_iff in G. destruct G as [G1 G2]. apply Nat.ltb_lt in G1.
  split; [lia|]. split; [|exact G2]. intros i Hi. destruct (Hc i Hi) as (A & _). lia.
Qed.

(* ECommit: the committed position only moves forward and lies on a record every destination confirmed *)
Theorem gen_commit_guard : forall e m s, greach e m s ->
  Stop.stored (base s) <= Stop.eack (base s) /\ forall i, i < m -> Stop.eack (base s) <= nth i (cc s) 0.
Proof.
  intros e m s Hr. destruct (J_of e m s Hr) as (J1 & J2 & J3 & J4 & _).
  destruct (Cnt_reach e m s Hr) as (_ & _ & Hc). split; [exact J3|]. intros i Hi. destruct (Hc i Hi) as (A & _). lia.
Qed.

(* ERet StopAndWait nil: the pipeline is drained, and every destination has confirmed everything it was
   given, which is everything that was read *)
Theorem gen_return_guard : forall e m s s', greach e m s -> gstep s GReturn = Some s' ->
  evs s' = ERet KStopWait RNil 1 [(1, Stop.stored (base s))] :: evs s /\
  Stop.drained (base s') /\ Stop.stored (base s) = Stop.pack (base s') /\
  forall i, i < m -> nth i (cc s') 0 = Stop.taken (base s') /\ nth i (wc s') 0 = Stop.taken (base s').
Proof.
  intros e m s s' Hr Hs.
  assert (Hr' : greach e m s').
  { destruct Hr as [l Hl]. exists (l ++ [GReturn]). rewrite grun_app, Hl. cbn [grun]. rewrite Hs. reflexivity. }
  pose proof (gstep_base s GReturn s' Hs) as Hb. cbn [pact] in Hb.
  assert (Hret : Stop.ret_ok (base s') = true).
  { unfold Stop.step in Hb. destruct (Stop.status (base s)); try discriminate.
    destruct (Stop.stopreq (base s) && negb (Stop.dirty (base s))); [|discriminate]. injection Hb as <-. reflexivity. }
  destruct (base_reachable e m s' Hr') as [l0 Hl0].
  pose proof (StopProofs.graceful_stop_drains e l0 (base s') Hl0 Hret) as Hd.
  assert (Hst : Stop.stored (base s') = Stop.stored (base s)).
  { unfold Stop.step in Hb. destruct (Stop.status (base s)); try discriminate.
    destruct (Stop.stopreq (base s) && negb (Stop.dirty (base s))); [|discriminate]. injection Hb as <-. reflexivity. }
  unfold gstep, via in Hs. rewrite Hb in Hs. injection Hs as Hs'. rewrite <- Hs' in *. cbn [evs base cc wc] in *.
  split; [reflexivity|]. split; [exact Hd|].
  destruct Hd as (D1 & D2 & D3 & D4 & _). split; [lia|].
  destruct (Cnt_reach e m _ Hr') as (_ & _ & Hc). cbn [cc wc base] in Hc.
  intros i Hi. destruct (Hc i Hi) as (A & B & C). lia.
Qed.

(* no node error in this model: the run ends for no reason or for the force stop *)
Theorem gen_no_transient : forall e m s, greach e m s -> Stop.why (base s) <> Stop.RTransient.
Proof.
  intros e m. apply ginv; [discriminate|].
  intros s a s' _ IH Hs. pose proof (gstep_base s a s' Hs) as Hb.
  destruct a; cbn [pact] in Hb; try (rewrite Hb; exact IH);
    StopProofs.step_cases Hb; StopProofs.fsimpl; try exact IH; try congruence.
Qed.

(* EStatus after a force stop that found the pipeline running: degraded with the force-stop error *)
Theorem gen_status_after_force : forall e m s1 s2 l s3 s4, greach e m s1 ->
  gstep s1 GForce = Some s2 -> grun s2 l = Some s3 -> gstep s3 GCleanup = Some s4 ->
  evs s4 = EStatus StDegraded true :: evs s3.
Proof.
  intros e m s1 s2 l s3 s4 Hr Hf Hl Hc.
  assert (Hw2 : Stop.why (base s2) = Stop.RFatalForce).
  { pose proof (gstep_base _ _ _ Hf) as Hb. cbn [pact] in Hb.
    pose proof (gen_no_transient e m s1 Hr) as Hn.
    unfold Stop.step in Hb. destruct (Stop.status (base s1)); try discriminate. injection Hb as <-.
    cbn [Stop.why]. destruct (Stop.why (base s1)); congruence. }
  assert (Hw3 : Stop.why (base s3) = Stop.RFatalForce).
  { clear Hc Hf Hr. revert s2 Hw2 Hl. induction l as [|a l IH]; intros s2 Hw2 Hl; simpl in Hl.
    - injection Hl as <-. exact Hw2.
    - destruct (gstep s2 a) as [sx|] eqn:E; [|discriminate]. apply (IH sx); [|exact Hl].
      pose proof (gstep_base _ _ _ E) as Hb. destruct (pact a); [|rewrite Hb; exact Hw2].
      assert (Hne : Stop.why (base s2) <> Stop.RNone) by (rewrite Hw2; discriminate).
      rewrite (ForceStopProofs.why_stable _ _ _ Hne Hb). exact Hw2. }
  unfold gstep, via in Hc. rewrite Hw3 in Hc.
  destruct (Stop.step (base s3) Stop.ACleanup); [|discriminate]. injection Hc as <-. reflexivity.
Qed.
