(* Invariants of the stop protocols over arbitrary schedules (C06, C12). *)
From Verif Require Import Stop.Stop.

Lemma run_app l1 : forall s l2, run s (l1 ++ l2) = match run s l1 with Some s' => run s' l2 | None => None end.
Proof.
  induction l1 as [|a l1 IH]; intros s l2; simpl; [reflexivity|].
  destruct (step s a); [apply IH|reflexivity].
Qed.

Definition reach (e : bool) (s : st) : Prop := exists l, run (init e) l = Some s.

Lemma reach_init e : reach e (init e).
Proof. exists []. reflexivity. Qed.

Lemma reach_step e s a s' : reach e s -> step s a = Some s' -> reach e s'.
Proof. intros [l Hl] Hs. exists (l ++ [a]). rewrite run_app, Hl. simpl. rewrite Hs. reflexivity. Qed.

Lemma reach_run e s l s' : reach e s -> run s l = Some s' -> reach e s'.
Proof. intros [l0 Hl] Hr. exists (l0 ++ l). rewrite run_app, Hl. exact Hr. Qed.

Lemma inv_reach e (P : st -> Prop) :
  P (init e) -> (forall s a s', P s -> step s a = Some s' -> P s') -> forall s, reach e s -> P s.
Proof.
  intros H0 Hs s [l Hl]. revert Hl. generalize (init e) H0. clear H0.
  induction l as [|a l IH]; intros s0 H0 Hr; simpl in Hr.
  - inversion Hr; subst; exact H0.
  - destruct (step s0 a) as [s1|] eqn:E; [|discriminate]. eapply IH; [|exact Hr]. eapply Hs; eauto.
Qed.

Ltac step_cases H :=
  unfold step, flush, set_ph, plugin_up, reading in H;
  repeat match type of H with
         | context [match ?x with _ => _ end] => destruct x eqn:?
         end;
  try discriminate; inversion H; subst; clear H.

Ltac fsimpl :=
  cbn [v1 avail taken handled eack stored dq pack nacked dirty qclosed ph stopreq killed why downtorn
       tds dtds status restarts ret_ok flush set_ph] in *.

Ltac bools :=
  repeat match goal with
         | H : _ && _ = true |- _ => apply andb_true_iff in H; destruct H
         | H : negb _ = true |- _ => apply negb_true_iff in H
         | H : Nat.ltb _ _ = true |- _ => apply Nat.ltb_lt in H
         | H : Nat.ltb _ _ = false |- _ => apply Nat.ltb_ge in H
         | H : Nat.eqb _ _ = true |- _ => apply Nat.eqb_eq in H
         | H : Nat.eqb _ _ = false |- _ => apply Nat.eqb_neq in H
         end.

(* ---------- J: the order of the counters (acked => durable => engine-acked => handled) ---------- *)
Definition J (s : st) : Prop :=
  pack s <= dq s /\ dq s <= stored s /\ stored s <= eack s /\ eack s <= handled s /\
  handled s + nacked s <= taken s /\ taken s <= avail s /\
  (dirty s = false -> stored s = eack s) /\
  (qclosed s = false -> dq s = stored s).

Lemma J_init e : J (init e).
Proof. unfold J; simpl. repeat split; intros; lia. Qed.

Lemma J_step s a s' : J s -> step s a = Some s' -> J s'.
Proof.
  intros (H1 & H2 & H3 & H4 & H5 & H6 & H7 & H8) Hs.
  step_cases Hs; unfold J; fsimpl; bools; repeat split; intros; try discriminate; try lia;
    try (specialize (H7 ltac:(assumption)); lia); try (specialize (H8 ltac:(assumption)); lia);
    try (rewrite H7 in * by assumption; lia); try congruence.
Qed.

Lemma J_reach e s : reach e s -> J s.
Proof. apply inv_reach; [apply J_init|intros; eapply J_step; eauto]. Qed.

(* ---------- K: the phases of a stop ---------- *)
Definition late (p : sph) : Prop := p = STearFlush \/ p = STearDrain \/ p = STorn.
Definition later (p : sph) : Prop := p = STearDrain \/ p = STorn.

Record K (s : st) : Prop := mkK {
  k_kill : killed s = true -> why s <> RNone;
  k_why : why s = RNone -> killed s = false;
  k_nack : killed s = false -> nacked s = 0;
  k_stopping : forall pos, ph s = SStopping pos -> pos = avail s /\ taken s <= pos;
  k_late : killed s = false -> late (ph s) -> eack s = handled s /\ handled s = taken s;
  k_later : killed s = false -> later (ph s) -> dirty s = false /\ qclosed s = true /\ dq s = stored s;
  k_torn : killed s = false -> ph s = STorn -> pack s = dq s;
  k_tds1 : ph s = STorn -> tds s = 1;
  k_tds0 : ph s <> STorn -> tds s = 0 /\ downtorn s = false;
  k_dtds1 : downtorn s = true -> dtds s = 1;
  k_dtds0 : downtorn s = false -> dtds s = 0;
  k_user : status s = PUserStopped -> downtorn s = true /\ why s = RNone;
  k_degr : status s = PDegradedForce -> why s = RFatalForce /\ downtorn s = true;
  k_recov : status s = PRecovering -> why s = RTransient;
  k_ret : ret_ok s = true -> status s = PUserStopped /\ dirty s = false /\ stopreq s = true;
  k_restart : why s <> RTransient -> restarts s = 0;
  k_running : status s = PRunning -> restarts s = 0 /\ ret_ok s = false;
  k_down : downtorn s = true -> ph s = STorn;
  k_q : killed s = false -> ph s <> STearDrain -> ph s <> STorn -> qclosed s = false;
  k_whyk : why s <> RNone -> killed s = true;
  k_v1 : forall pos, ph s = SStopping pos -> v1 s = true
}.

Lemma K_init e : K (init e).
Proof.
  constructor; simpl; intros; try discriminate; try tauto; try (split; [reflexivity|reflexivity]);
    try (destruct H as [?|[?|?]]; discriminate); try (destruct H0 as [?|[?|?]]; discriminate);
    try (destruct H0 as [?|?]; discriminate); try congruence; auto.
Qed.

Ltac inv_sph :=
  repeat match goal with
         | H : SStopping _ = SStopping _ |- _ => inversion H; subst; clear H
         end.

Ltac prem :=
  first [ assumption | congruence | (left; congruence) | (right; left; congruence)
        | (right; right; congruence) | (right; congruence) | lia ].

Ltac fwd :=
  repeat match goal with
         | H : forall pos, ph ?s = SStopping pos -> _, E : ph ?s = SStopping ?n |- _ => specialize (H n E)
         | H : ?A -> ?B |- _ =>
             lazymatch type of A with
             | Prop => let HA := fresh in assert (HA : A) by prem; specialize (H HA); clear HA
             end
         | H : _ /\ _ |- _ => destruct H
         end.

Lemma K_step s a s' : J s -> K s -> step s a = Some s' -> K s'.
Proof.
  intros (J1 & J2 & J3 & J4 & J5 & J6 & J7 & J8) HK Hs.
  step_cases Hs; destruct HK; constructor; fsimpl; unfold late, later in *; bools; intros;
    repeat match goal with
           | H : _ \/ _ |- _ => destruct H
           end;
    try discriminate; inv_sph; fwd;
    try discriminate; try congruence; try tauto; try lia;
    try (repeat split; first [congruence | lia]);
    try (match goal with H : match ph ?s with _ => _ end = true, E : ph ?s = _ |- _ => rewrite E in H; discriminate end).
Qed.

Lemma JK_reach e s : reach e s -> J s /\ K s.
Proof.
  revert s. apply (inv_reach e (fun s => J s /\ K s)); [split; [apply J_init|apply K_init]|].
  intros s a s' [HJ HK] Hs. split; [eapply J_step|eapply K_step]; eauto.
Qed.

(* ============================ C06 ============================ *)
(* If StopAndWait returned nil, the pipeline is drained: every record the engine took has its final
   outcome, was acked to connector.Source, is durable and was acked to the plugin before the plugin's
   Teardown; the source and the downstream connectors were torn down exactly once. *)
Theorem graceful_stop_drains : forall e l s, run (init e) l = Some s -> ret_ok s = true -> drained s.
Proof.
  intros e l s Hr Hret. destruct (JK_reach e s (ex_intro _ l Hr)) as [HJ HK].
  destruct HJ as (J1 & J2 & J3 & J4 & J5 & J6 & J7 & J8). destruct HK as [Kkill Kwhy Knack Kstopping Klate Klater Ktorn Ktds1 Ktds0 Kdtds1 Kdtds0 Kuser Kdegr Krecov Kret Krestart Krunning Kdown Kq Kwhyk Kv1].
  destruct (Kret Hret) as (Hst & Hd & _). destruct (Kuser Hst) as (Hdown & Hwhy).
  pose proof (Kwhy Hwhy) as Hk. pose proof (Kdown Hdown) as Hph.
  destruct (Klate Hk (or_intror (or_intror Hph))) as (E1 & E2).
  destruct (Klater Hk (or_intror Hph)) as (_ & _ & E3).
  pose proof (Ktorn Hk Hph) as E4. pose proof (J7 Hd) as E5.
  unfold drained. repeat split; try lia; try assumption; auto.
Qed.

(* the acks the plugin received precede its Teardown: once the plugin is torn down no ack is delivered *)
Theorem no_ack_after_teardown : forall s s', ph s = STorn -> step s ADeliver = Some s' -> False.
Proof.
  intros s s' Hp Hs. unfold step, plugin_up in Hs. rewrite Hp in Hs.
  destruct (Nat.ltb (pack s) (dq s)); discriminate.
Qed.

Ltac rw_eqs :=
  repeat match goal with
         | H : ph ?s = _ |- context [ph ?s] => rewrite H
         | H : dirty ?s = _ |- context [dirty ?s] => rewrite H
         | H : downtorn ?s = _ |- context [downtorn ?s] => rewrite H
         | H : status ?s = _ |- context [status ?s] => rewrite H
         | H : ret_ok ?s = _ |- context [ret_ok ?s] => rewrite H
         | H : nacked ?s = _ |- context [nacked ?s] => rewrite H
         | H : qclosed ?s = _ |- context [qclosed ?s] => rewrite H
         end.

Ltac vfin :=
  unfold variant, flush, set_ph;
  repeat (fsimpl; rw_eqs; match goal with |- context [if ?b then _ else _] => destruct b eqn:? end);
  fsimpl; rw_eqs;
  repeat match goal with |- context [match status ?s with _ => _ end] => destruct (status s) eqn:? end;
  cbn [rank]; repeat split; try assumption; try congruence; try lia.

(* progress: while the environment keeps answering, a requested stop of a healthy run completes:
   from every reachable state some enabled step brings the run closer to the return of StopAndWait *)
Lemma stop_progress_step e s : reach e s -> stopreq s = true -> killed s = false -> ret_ok s = false ->
  exists a s', step s a = Some s' /\ variant s' < variant s /\
               stopreq s' = true /\ killed s' = false.
Proof.
  intros Hre Hstop Hk Hret. destruct (JK_reach e s Hre) as [HJ HK].
  destruct HJ as (J1 & J2 & J3 & J4 & J5 & J6 & J7 & J8). destruct HK as [Kkill Kwhy Knack Kstopping Klate Klater Ktorn Ktds1 Ktds0 Kdtds1 Kdtds0 Kuser Kdegr Krecov Kret Krestart Krunning Kdown Kq Kwhyk Kv1].
  pose proof (Knack Hk) as Hn.
  assert (Hwhy : why s = RNone).
  { destruct (why s) eqn:E; [reflexivity| |]; exfalso;
      assert (Hx : killed s = true) by (apply Kwhyk; congruence); congruence. }
  destruct (ph s) eqn:Hph.
  - (* SRun *)
    destruct (Ktds0 ltac:(congruence)) as (_ & Hdt).
    destruct (v1 s) eqn:Hv.
    + exists AStopSrc. eexists. unfold step. rewrite Hph, Hstop, Hk, Hv. cbn [andb negb]. split; [reflexivity|].
      unfold variant, set_ph; cbn [ph taken avail handled nacked eack dirty dq pack downtorn status ret_ok rank stopreq killed].
      rewrite Hph. cbn [rank]. vfin.
    + destruct (Nat.ltb (handled s) (taken s)) eqn:E1.
      * exists AHandled. eexists. unfold step. rewrite Hn, Nat.add_0_r, E1, Hdt. cbn [andb negb]. split; [reflexivity|].
        apply Nat.ltb_lt in E1. unfold variant; cbn [ph taken avail handled nacked eack dirty dq pack downtorn status ret_ok stopreq killed].
        vfin.
      * apply Nat.ltb_ge in E1. destruct (Nat.ltb (eack s) (handled s)) eqn:E2.
        -- exists AEAck. eexists. unfold step, plugin_up. rewrite E2, Hph. cbn [andb]. split; [reflexivity|].
           apply Nat.ltb_lt in E2. unfold variant; cbn [ph taken avail handled nacked eack dirty dq pack downtorn status ret_ok stopreq killed].
           vfin.
        -- apply Nat.ltb_ge in E2. exists AStopSrc. eexists. unfold step. rewrite Hph, Hstop, Hk, Hv. cbn [andb negb].
           assert (E3 : Nat.eqb (handled s) (taken s) = true) by (apply Nat.eqb_eq; lia).
           assert (E4 : Nat.eqb (eack s) (handled s) = true) by (apply Nat.eqb_eq; lia).
           rewrite E3, E4. cbn [andb]. split; [reflexivity|].
           unfold variant, flush, set_ph; cbn [ph taken avail handled nacked eack dirty dq pack downtorn status ret_ok stopreq killed stored qclosed].
           vfin.
  - (* SStopping *)
    destruct (Kstopping _ eq_refl) as (Hpos & Hle). pose proof (Kv1 _ eq_refl) as Hv.
    destruct (Nat.ltb (taken s) pos) eqn:E1.
    + exists ATake. eexists. unfold step, reading. rewrite Hph, Hv, E1, Hk. apply Nat.ltb_lt in E1.
      assert (E2 : Nat.ltb (taken s) (avail s) = true) by (apply Nat.ltb_lt; lia). rewrite E2. cbn [andb negb].
      split; [reflexivity|].
      unfold variant; cbn [ph taken avail handled nacked eack dirty dq pack downtorn status ret_ok stopreq killed].
      rewrite Hph. vfin.
    + apply Nat.ltb_ge in E1. exists ALoopEnd. eexists. unfold step. rewrite Hph, Hv, Hk.
      assert (E2 : Nat.eqb (taken s) pos = true) by (apply Nat.eqb_eq; lia). rewrite E2. cbn [andb negb].
      split; [reflexivity|].
      unfold variant, set_ph; cbn [ph taken avail handled nacked eack dirty dq pack downtorn status ret_ok stopreq killed].
      rewrite Hph. cbn [rank]. vfin.
  - (* SWaitOpen *)
    destruct (Ktds0 ltac:(congruence)) as (_ & Hdt).
    destruct (Nat.ltb (handled s) (taken s)) eqn:E1.
    + exists AHandled. eexists. unfold step. rewrite Hn, Nat.add_0_r, E1, Hdt. cbn [andb negb]. split; [reflexivity|].
      apply Nat.ltb_lt in E1. unfold variant; cbn [ph taken avail handled nacked eack dirty dq pack downtorn status ret_ok stopreq killed].
      vfin.
    + apply Nat.ltb_ge in E1. destruct (Nat.ltb (eack s) (handled s)) eqn:E2.
      * exists AEAck. eexists. unfold step, plugin_up. rewrite E2, Hph. cbn [andb]. split; [reflexivity|].
        apply Nat.ltb_lt in E2. unfold variant; cbn [ph taken avail handled nacked eack dirty dq pack downtorn status ret_ok stopreq killed].
        vfin.
      * apply Nat.ltb_ge in E2. exists ATearBegin. eexists. unfold step. rewrite Hph.
        assert (E3 : Nat.eqb (eack s + nacked s) (taken s) = true) by (apply Nat.eqb_eq; lia).
        assert (E4 : Nat.eqb (eack s) (handled s) = true) by (apply Nat.eqb_eq; lia).
        rewrite E3, E4. cbn [andb]. split; [reflexivity|].
        unfold variant, flush, set_ph; cbn [ph taken avail handled nacked eack dirty dq pack downtorn status ret_ok stopreq killed stored qclosed].
        vfin.
  - (* STearFlush *)
    destruct (dirty s) eqn:Ed.
    + exists AFlush. eexists. unfold step. split; [reflexivity|].
      unfold variant, flush. rewrite Ed. cbn [ph taken avail handled nacked eack dirty dq pack downtorn status ret_ok stopreq killed stored qclosed].
      rewrite Hph. vfin.
    + exists ATearFlushed. eexists. unfold step. rewrite Hph, Ed. cbn [negb]. split; [reflexivity|].
      unfold variant; cbn [ph taken avail handled nacked eack dirty dq pack downtorn status ret_ok stopreq killed rank].
      rewrite Hph, Ed. cbn [rank]. vfin.
  - (* STearDrain *)
    destruct (Nat.ltb (pack s) (dq s)) eqn:E1.
    + exists ADeliver. eexists. unfold step, plugin_up. rewrite E1, Hph. cbn [andb]. split; [reflexivity|].
      apply Nat.ltb_lt in E1. unfold variant; cbn [ph taken avail handled nacked eack dirty dq pack downtorn status ret_ok stopreq killed].
      vfin.
    + apply Nat.ltb_ge in E1. exists ATearDrained. eexists. unfold step. rewrite Hph.
      assert (E2 : Nat.eqb (pack s) (dq s) = true) by (apply Nat.eqb_eq; lia). rewrite E2. split; [reflexivity|].
      unfold variant; cbn [ph taken avail handled nacked eack dirty dq pack downtorn status ret_ok stopreq killed rank].
      rewrite Hph. cbn [rank]. vfin.
  - (* STorn *)
    destruct (Klate Hk (or_intror (or_intror eq_refl))) as (E1 & E2).
    destruct (downtorn s) eqn:Hd.
    + destruct (status s) eqn:Hst.
      * exists ACleanup. eexists. unfold step. rewrite Hst, Hd, Hwhy. split; [reflexivity|].
        unfold variant; cbn [ph taken avail handled nacked eack dirty dq pack downtorn status ret_ok stopreq killed].
        rewrite Hst. vfin.
      * destruct (dirty s) eqn:Ed.
        -- exists AFlush. eexists. unfold step. split; [reflexivity|].
           unfold variant, flush. rewrite Ed. cbn [ph taken avail handled nacked eack dirty dq pack downtorn status ret_ok stopreq killed stored qclosed].
           rewrite Hph. vfin.
        -- exists AReturn. eexists. unfold step. rewrite Hst, Hstop, Ed. cbn [andb negb]. split; [reflexivity|].
           unfold variant; cbn [ph taken avail handled nacked eack dirty dq pack downtorn status ret_ok stopreq killed].
           rewrite Hret. vfin.
      * destruct (Kdegr eq_refl) as (Hx & _). congruence.
      * pose proof (Krecov eq_refl). congruence.
    + exists ADownTear. eexists. unfold step. rewrite Hph, Hd. cbn [negb andb].
      assert (E3 : Nat.eqb (handled s + nacked s) (taken s) = true) by (apply Nat.eqb_eq; lia). rewrite E3.
      split; [reflexivity|].
      unfold variant; cbn [ph taken avail handled nacked eack dirty dq pack downtorn status ret_ok stopreq killed].
      rewrite Hd. vfin.
Qed.

Theorem stop_completes : forall e s, reach e s -> stopreq s = true -> killed s = false ->
  exists l s', run s l = Some s' /\ ret_ok s' = true.
Proof.
  intros e s Hre. remember (variant s) as n eqn:Hn. revert s Hre Hn.
  induction n as [n IH] using lt_wf_ind. intros s Hre Hn Hstop Hk.
  destruct (ret_ok s) eqn:Hret.
  - exists [], s. split; [reflexivity|exact Hret].
  - destruct (stop_progress_step e s Hre Hstop Hk Hret) as (a & s1 & Hs & Hlt & Hstop1 & Hk1).
    destruct (IH (variant s1) ltac:(lia) s1 (reach_step _ _ _ _ Hre Hs) eq_refl Hstop1 Hk1) as (l & s2 & Hr & Hok).
    exists (a :: l), s2. split; [simpl; rewrite Hs; exact Hr|exact Hok].
Qed.
