(* What acceptance of an observed log means (coq/Stop/Check.v): the acceptor is prefix closed, and an
   accepted log obeys the rules the mechanism determines. *)
From Verif Require Import Base.CaseCheck Stop.Events Stop.Check.

Lemma bad_sticky nd t e : bad t = true -> bad (tstep nd t e) = true.
Proof.
  intros H. destruct e; try destruct k; try destruct c; cbn [tstep set_bad bad]; rewrite ?H; try reflexivity; exact H.
Qed.

Lemma bad_sticky_fold nd l : forall t, bad t = true -> bad (fold_left (tstep nd) l t) = true.
Proof. induction l as [|e l IH]; intros t H; simpl; [exact H|]. apply IH. apply bad_sticky. exact H. Qed.

Theorem accept_prefix_closed : forall nd l1 l2, accept nd (l1 ++ l2) = true -> accept nd l1 = true.
Proof.
  intros nd l1 l2 H. unfold accept, track in *. rewrite fold_left_app in H.
  destruct (bad (fold_left (tstep nd) l1 t0)) eqn:E; [|reflexivity].
  rewrite (bad_sticky_fold nd l2 _ E) in H. discriminate.
Qed.

Lemma accept_last nd l e : accept nd (l ++ [e]) = true ->
  bad (track nd l) = false /\ bad (tstep nd (track nd l) e) = false.
Proof.
  intros H. pose proof (accept_prefix_closed nd l [e] H) as H1. unfold accept in *.
  apply negb_true_iff in H1. split; [exact H1|].
  unfold track in *. rewrite fold_left_app in H. simpl in H. apply negb_true_iff in H. exact H.
Qed.

(* the plugin hears of a position only after a commit that covers it (C02), only for a handled record
   (every destination confirmed it, or its dead letter was confirmed), in order, before its Teardown *)
Theorem accepted_ack_is_durable : forall nd l s k, accept nd (l ++ [EPack s k]) = true ->
  k <= lookup s (stored (track nd l)).
Proof.
  intros nd l s k H. destruct (accept_last nd l _ H) as [H1 H2].
  cbn [tstep set_bad bad] in H2. rewrite H1 in H2. cbn [orb] in H2.
  apply negb_false_iff in H2. repeat (apply andb_true_iff in H2; destruct H2 as [H2 ?]).
  apply Nat.leb_le in H2. exact H2.
Qed.

Theorem accepted_ack_is_handled : forall nd l s k, accept nd (l ++ [EPack s k]) = true ->
  handled (c_ndst nd) (track nd l) s k = true /\
  k = S (lookup s (lastpack (track nd l))) /\ is_open (CSrc s) (track nd l) = true.
Proof.
  intros nd l s k H. destruct (accept_last nd l _ H) as [H1 H2].
  cbn [tstep set_bad bad] in H2. rewrite H1 in H2. cbn [orb] in H2.
  apply negb_false_iff in H2. repeat (apply andb_true_iff in H2; destruct H2 as [H2 ?]).
  repeat split; try assumption. apply Nat.eqb_eq. assumption.
Qed.

(* durable positions only move forward, and only onto handled records *)
Theorem accepted_commit_is_safe : forall nd l snap, accept nd (l ++ [ECommit snap]) = true ->
  snap_ge snap (stored (track nd l)) = true /\
  forall p, In p snap -> snd p = 0 \/ handled (c_ndst nd) (track nd l) (fst p) (snd p) = true.
Proof.
  intros nd l snap H. destruct (accept_last nd l _ H) as [H1 H2].
  cbn [tstep set_bad bad] in H2. rewrite H1 in H2. cbn [orb] in H2.
  apply negb_false_iff in H2. apply andb_true_iff in H2. destruct H2 as [Ha Hb].
  split; [exact Ha|]. intros p Hp. rewrite forallb_forall in Hb. specialize (Hb p Hp).
  apply orb_true_iff in Hb. destruct Hb as [Hb|Hb]; [left; apply Nat.eqb_eq; exact Hb|right; exact Hb].
Qed.

(* a source is (re)opened at its durable position *)
Theorem accepted_open_resumes_at_durable_position : forall nd l s pos,
  accept nd (l ++ [EOpen (CSrc s) pos]) = true -> pos = lookup s (stored (track nd l)).
Proof.
  intros nd l s pos H. destruct (accept_last nd l _ H) as [H1 H2].
  cbn [tstep set_bad bad] in H2. rewrite H1 in H2. cbn [orb] in H2.
  apply negb_false_iff in H2. apply Nat.eqb_eq in H2. exact H2.
Qed.

(* ---------- lifted to whole logs: every accepted log satisfies the log part of the monitors ---------- *)
Lemma track_app c l1 l2 : track c (l1 ++ l2) = fold_left (tstep c) l2 (track c l1).
Proof. unfold track. apply fold_left_app. Qed.

Lemma split_at_ret_spec : forall l pre0 pre cl snap rest,
  split_at_ret l pre0 = Some (pre, cl, snap, rest) ->
  exists mid k id, (k = KStopWait \/ k = KShutdown) /\
    pre = rev pre0 ++ mid /\ l = mid ++ ERet k cl id snap :: rest.
Proof.
  induction l as [|e l IH]; intros pre0 pre cl snap rest H; simpl in H; [discriminate|].
  assert (Hrec : split_at_ret l (e :: pre0) = Some (pre, cl, snap, rest) ->
                 exists mid k id, (k = KStopWait \/ k = KShutdown) /\
                   pre = rev pre0 ++ mid /\ e :: l = mid ++ ERet k cl id snap :: rest).
  { intros H'. destruct (IH _ _ _ _ _ H') as (mid & k & id & Hk & E1 & E2). exists (e :: mid), k, id.
    simpl in E1. rewrite <- app_assoc in E1. simpl in E1. split; [exact Hk|]. split; [exact E1|]. simpl. rewrite E2. reflexivity. }
  destruct e; try (apply Hrec; exact H).
  destruct k; try (apply Hrec; exact H).
  - inversion H; subst. exists [], KStopWait, id. split; [left; reflexivity|]. split; [rewrite app_nil_r; reflexivity|reflexivity].
  - inversion H; subst. exists [], KShutdown, id. split; [right; reflexivity|]. split; [rewrite app_nil_r; reflexivity|reflexivity].
Qed.

(* Mon_C06 on an accepted log: whenever StopAndWait - or the shutdown sequence StopAll, Wait, persister Wait -
   returned nil, the pipeline was drained at that moment (nothing half-handled, every written record acked
   before the teardown of its source, acks a prefix, stored position = last acked, every plugin torn down once) *)
Theorem accepted_log_satisfies_mon_c06 : forall c l pre snap rest,
  accept c l = true -> split_at_ret l [] = Some (pre, RNil, snap, rest) ->
  drained (c_v1 c) (c_slow c) (c_nsrc c) snap (track c pre) = true.
Proof.
  intros c l pre snap rest Ha Hs.
  destruct (split_at_ret_spec _ _ _ _ _ _ Hs) as (mid & k & id & Hk & E1 & E2). simpl in E1. subst pre l.
  assert (Ha' : accept c (mid ++ [ERet k RNil id snap]) = true).
  { apply (accept_prefix_closed c _ rest). rewrite <- app_assoc. exact Ha. }
  destruct (accept_last c mid _ Ha') as [H1 H2].
  destruct Hk as [Hk|Hk]; subst k;
    cbn [tstep set_bad bad] in H2; rewrite H1 in H2; cbn [orb] in H2;
    apply negb_false_iff in H2; exact H2.
Qed.

Corollary accepted_healthy_log_passes_mon_c06 : forall c l pre snap rest,
  accept c l = true -> split_at_ret l [] = Some (pre, RNil, snap, rest) ->
  mon_c06 c true false l = true.
Proof.
  intros c l pre snap rest Ha Hs. unfold mon_c06. rewrite Hs. cbn [negb andb].
  eapply accepted_log_satisfies_mon_c06; eauto.
Qed.

(* Mon_C12, acks: in an accepted log no ack was ever delivered for an unhandled record, out of order,
   or to a torn-down plugin *)
Lemma flags_imply_bad c t e :
  (pack_unhandled t = true \/ pack_disorder t = true \/ pack_closed t = true -> bad t = true) ->
  (pack_unhandled (tstep c t e) = true \/ pack_disorder (tstep c t e) = true \/ pack_closed (tstep c t e) = true ->
   bad (tstep c t e) = true).
Proof.
  intros IH. destruct e;
    try (match goal with k : callk |- _ => destruct k end);
    try (match goal with c0 : rcls |- _ => destruct c0 end);
    cbn [tstep set_bad bad pack_unhandled pack_disorder pack_closed];
    try (intros H; rewrite (IH H); reflexivity); try exact IH.
  (* EPack *)
  intros H.
  destruct (pack_unhandled t) eqn:E1; [rewrite IH by auto; reflexivity|].
  destruct (pack_disorder t) eqn:E2; [rewrite IH by auto; reflexivity|].
  destruct (pack_closed t) eqn:E3; [rewrite IH by auto; reflexivity|].
  cbn [orb] in H. apply orb_true_iff. right. apply negb_true_iff.
  destruct (handled (c_ndst c) t s k); destruct (Nat.eqb k (S (lookup s (lastpack t)))); destruct (is_open (CSrc s) t);
    cbn [negb andb] in *; rewrite ?andb_false_r; try reflexivity; destruct H as [H|[H|H]]; discriminate.
Qed.

Theorem accepted_log_acks_only_handled : forall c l, accept c l = true ->
  pack_unhandled (track c l) = false /\ pack_disorder (track c l) = false /\ pack_closed (track c l) = false.
Proof.
  intros c l Ha.
  assert (H : forall l t, (pack_unhandled t = true \/ pack_disorder t = true \/ pack_closed t = true -> bad t = true) ->
            let t' := fold_left (tstep c) l t in
            (pack_unhandled t' = true \/ pack_disorder t' = true \/ pack_closed t' = true -> bad t' = true)).
  { clear. induction l as [|e l IH]; intros t Ht; simpl; [exact Ht|]. apply IH. apply flags_imply_bad. exact Ht. }
  specialize (H l t0 ltac:(simpl; intros [?|[?|?]]; discriminate)). cbn zeta in H. fold (track c l) in H.
  unfold accept in Ha. apply negb_true_iff in Ha.
  destruct (pack_unhandled (track c l)) eqn:E1; [rewrite H in Ha; [discriminate|auto]|].
  destruct (pack_disorder (track c l)) eqn:E2; [rewrite H in Ha; [discriminate|auto]|].
  destruct (pack_closed (track c l)) eqn:E3; [rewrite H in Ha; [discriminate|auto]|].
  auto.
Qed.

(* Mon_C12, status: in an accepted log the first status written after a force stop that returned nil is
   the force-stop failure (or "stopped by the user" if a graceful stop was already under way) *)
Theorem accepted_status_after_force : forall c l st f, accept c (l ++ [EStatus st f]) = true ->
  fnil (track c l) = true -> force_status_ok (graceful (track c l)) st f = true.
Proof.
  intros c l st f H Hf. destruct (accept_last c l _ H) as [H1 H2].
  cbn [tstep set_bad bad] in H2. rewrite H1, Hf in H2. cbn [orb andb] in H2.
  apply negb_false_iff in H2. exact H2.
Qed.
