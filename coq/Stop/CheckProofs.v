(* What acceptance of an observed log means (coq/Stop/Check.v): the acceptor is prefix closed, and an
   accepted log obeys the rules the mechanism determines. *)
From Verif Require Import Base.CaseCheck Stop.Events Stop.Check.

Lemma bad_sticky nd t e : bad t = true -> bad (tstep nd t e) = true.
Proof.
  intros H. destruct e; try destruct k; cbn [tstep set_bad bad]; rewrite ?H; try reflexivity; exact H.
Qed.

Lemma bad_sticky_fold nd l : forall t, bad t = true -> bad (fold_left (tstep nd) l t) = true.
Proof. induction l as [|e l IH]; intros t H; simpl; [exact H|]. apply IH. apply bad_sticky. exact H. Qed.

Theorem accept_prefix_closed : forall nd l1 l2, accept nd (l1 ++ l2) = true -> accept nd l1 = true.
Proof.
  intros nd l1 l2 H. unfold accept, track in *. rewrite fold_left_app in H.
  destruct (bad (fold_left (tstep nd) l1 t0)) eqn:E; [|reflexivity].
  rewrite (bad_sticky_fold nd l2 _ E) in H. discriminate.
Qed.

Lemma accept_last nd l e : accept nd (l ++ [e]) = true ->
  bad (track nd l) = false /\ bad (tstep nd (track nd l) e) = false.
Proof.
  intros H. pose proof (accept_prefix_closed nd l [e] H) as H1. unfold accept in *.
  apply negb_true_iff in H1. split; [exact H1|].
  unfold track in *. rewrite fold_left_app in H. simpl in H. apply negb_true_iff in H. exact H.
Qed.

(* C02 in the logs: the plugin hears of a position only after a commit that covers it *)
Theorem accepted_ack_is_durable : forall nd l s k, accept nd (l ++ [EPack s k]) = true ->
  k <= lookup s (stored (track nd l)).
Proof.
  intros nd l s k H. destruct (accept_last nd l _ H) as [H1 H2].
  cbn [tstep set_bad bad] in H2. rewrite H1 in H2. cbn [orb] in H2.
  apply negb_false_iff in H2. apply Nat.leb_le in H2. exact H2.
Qed.

(* durable positions only move forward, and only onto handled records *)
Theorem accepted_commit_is_safe : forall nd l snap, accept nd (l ++ [ECommit snap]) = true ->
  snap_ge snap (stored (track nd l)) = true /\
  forall p, In p snap -> snd p = 0 \/ handled nd (track nd l) (fst p) (snd p) = true.
Proof.
  intros nd l snap H. destruct (accept_last nd l _ H) as [H1 H2].
  cbn [tstep set_bad bad] in H2. rewrite H1 in H2. cbn [orb] in H2.
  apply negb_false_iff in H2. apply andb_true_iff in H2. destruct H2 as [Ha Hb].
  split; [exact Ha|]. intros p Hp. rewrite forallb_forall in Hb. specialize (Hb p Hp).
  apply orb_true_iff in Hb. destruct Hb as [Hb|Hb]; [left; apply Nat.eqb_eq; exact Hb|right; exact Hb].
Qed.

(* a source is (re)opened at its durable position *)
Theorem accepted_open_resumes_at_durable_position : forall nd l s pos,
  accept nd (l ++ [EOpen (CSrc s) pos]) = true -> pos = lookup s (stored (track nd l)).
Proof.
  intros nd l s pos H. destruct (accept_last nd l _ H) as [H1 H2].
  cbn [tstep set_bad bad] in H2. rewrite H1 in H2. cbn [orb] in H2.
  apply negb_false_iff in H2. apply Nat.eqb_eq in H2. exact H2.
Qed.
