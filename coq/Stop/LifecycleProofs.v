(* Lifecycle.v: every state the life of a pipeline can reach - any number of runs, user stops, shutdowns
   (stops with a reason), force stops, Teardown calls failing on the cancelled context - projects onto a
   reachable state of Stop.v, so Stop.v's theorems hold of it; the connector instances are released exactly
   when their Teardown ran, so an ended run can always be started again, at its durable position. *)
From Verif Require Import Stop.Stop Stop.StopProofs Stop.ForceStopProofs Stop.Lifecycle.

Lemma xrun_app l1 : forall x l2, xrun x (l1 ++ l2) = match xrun x l1 with Some x' => xrun x' l2 | None => None end.
Proof.
  induction l1 as [|a l1 IH]; intros x l2; simpl; [reflexivity|].
  destruct (xstep x a); [apply IH|reflexivity].
Qed.

Definition xreach (e : bool) (x : xst) : Prop := exists l, xrun (xinit e) l = Some x.

Lemma xinv_reach e (P : xst -> Prop) :
  P (xinit e) -> (forall x a x', P x -> xstep x a = Some x' -> P x') -> forall x, xreach e x -> P x.
Proof.
  intros H0 Hs x [l Hl]. revert Hl. generalize (xinit e) H0. clear H0.
  induction l as [|a l IH]; intros x0 H0 Hr; simpl in Hr.
  - inversion Hr; subst; exact H0.
  - destruct (xstep x0 a) as [x1|] eqn:E; [|discriminate]. eapply IH; [|exact Hr]. eapply Hs; eauto.
Qed.

(* ---------- the engine never changes ---------- *)
Lemma v1_step s a s' : step s a = Some s' -> v1 s' = v1 s.
Proof. intros Hs. step_cases Hs; fsimpl; reflexivity. Qed.

Lemma v1_reach e s : reach e s -> v1 s = e.
Proof.
  revert s. apply (inv_reach e (fun s => v1 s = e)); [reflexivity|].
  intros s0 a s1 H Hs. rewrite (v1_step _ _ _ Hs). exact H.
Qed.

Lemma v1_flush s : v1 (flush s) = v1 s.
Proof. unfold flush. destruct (dirty s); reflexivity. Qed.

(* ---------- a freshly (re)started run is a reachable state of Stop.v ---------- *)
Lemma ltb_succ p : Nat.ltb p (S p) = true.
Proof. apply Nat.ltb_lt. lia. Qed.

Lemma quiet_reach e p : reach e (quiet e p).
Proof.
  induction p as [|p IH]; [exact (reach_init e)|].
  apply (reach_run e (quiet e p) [AEmit; ATake; AHandled; AEAck; AFlush; ADeliver]); [exact IH|].
  unfold quiet.
  repeat (progress (rewrite ?ltb_succ, ?Nat.add_0_r;
                    cbn [run step reading plugin_up flush Nat.add
                         v1 avail taken handled eack stored dq pack nacked dirty qclosed ph stopreq killed why downtorn
                         tds dtds status restarts ret_ok andb negb])).
  reflexivity.
Qed.

Lemma flush_reach e s : reach e s -> reach e (flush s).
Proof. intros H. apply (reach_step e s AFlush); [exact H|reflexivity]. Qed.

(* ---------- the projection: the protocol state of every reachable life is reachable in Stop.v ---------- *)
Theorem x_projects : forall e x, xreach e x -> reach e (xb x).
Proof.
  intros e. apply xinv_reach; [exact (reach_init e)|].
  intros x a x' H Hs. destruct a as [a fails| |]; cbn [xstep] in Hs.
  - destruct (fails && negb (killed (xb x) && (is_src_td a || is_down_td a))); [discriminate|].
    destruct (step (xb x) a) as [b'|] eqn:E; [|discriminate]. inversion Hs; subst; cbn [xb].
    eapply reach_step; eauto.
  - destruct (step (xb x) AStopCall) as [b'|] eqn:E; [|discriminate]. inversion Hs; subst; cbn [xb].
    eapply reach_step; eauto.
  - assert (Hq : reach e (quiet (v1 (flush (xb x))) (stored (flush (xb x))))).
    { rewrite v1_flush, (v1_reach e _ H). apply quiet_reach. }
    destruct (status (xb x)); try discriminate;
      (destruct (srcinst x || dstinst x); [discriminate|]); inversion Hs; subst; cbn [xb]; exact Hq.
Qed.

(* ---------- the "running" marks of the connector instances ---------- *)
Lemma step_torn s a s' : step s a = Some s' ->
  (ph s' = STorn <-> (ph s = STorn \/ is_src_td a = true)).
Proof.
  intros Hs. step_cases Hs; fsimpl; cbn [is_src_td]; split; intros; auto;
    try (match goal with H : _ \/ _ |- _ => destruct H end); try discriminate; try congruence; auto.
Qed.

Lemma step_down s a s' : step s a = Some s' ->
  downtorn s' = (downtorn s || is_down_td a)%bool.
Proof.
  intros Hs. step_cases Hs; fsimpl; cbn [is_down_td]; rewrite ?orb_false_r, ?orb_true_r; try reflexivity; congruence.
Qed.

Record I (x : xst) : Prop := mkI {
  i_src : srcinst x = true <-> ph (xb x) <> STorn;       (* released exactly by the Teardown of the source *)
  i_dst : dstinst x = negb (downtorn (xb x));              (* ... of the downstream connectors *)
  i_sys : sysstop x = true -> stopreq (xb x) = true;
  i_resume : resumed x <= prev_handled x /\ prev_pack x <= resumed x /\ resumed x <= stored (xb x)
}.

Lemma I_init e : I (xinit e).
Proof.
  constructor; cbn; try (split; [discriminate|reflexivity]); try reflexivity; try discriminate; auto.
Qed.

Lemma stored_mono s a s' : J s -> step s a = Some s' -> stored s <= stored s'.
Proof.
  intros (J1 & J2 & J3 & J4 & J5 & J6 & J7 & J8) Hs. step_cases Hs; fsimpl; lia.
Qed.

Lemma stopreq_mono s a s' : step s a = Some s' -> stopreq s = true -> stopreq s' = true.
Proof. intros Hs H. step_cases Hs; fsimpl; auto. Qed.

Lemma I_step e x a x' : xreach e x -> I x -> xstep x a = Some x' -> I x'.
Proof.
  intros Hre [Isrc Idst Isys Ires] Hs.
  pose proof (x_projects e x Hre) as Hb. destruct (JK_reach e _ Hb) as [HJ HK].
  destruct a as [a fails| |]; cbn [xstep] in Hs.
  - destruct (fails && negb (killed (xb x) && (is_src_td a || is_down_td a))) eqn:Eg; [discriminate|].
    destruct (step (xb x) a) as [b'|] eqn:E; [|discriminate]. inversion Hs; subst; clear Hs.
    pose proof (step_torn _ _ _ E) as Ht. pose proof (step_down _ _ _ E) as Hd.
    constructor; cbn [xb srcinst dstinst sysstop runs tdfails resumed prev_handled prev_pack].
    + destruct (is_src_td a) eqn:Ea.
      * split; [discriminate|]. intros Hn. exfalso. apply Hn. apply Ht. right. reflexivity.
      * rewrite Isrc. split; intros Hn Hc; apply Hn; [apply Ht in Hc; destruct Hc as [Hc|Hc]; [exact Hc|discriminate]|].
        apply Ht. left. exact Hc.
    + rewrite Hd. destruct (is_down_td a); [rewrite orb_true_r; reflexivity|]. rewrite orb_false_r. exact Idst.
    + intros Hy. eapply stopreq_mono; eauto.
    + destruct Ires as (R1 & R2 & R3). repeat split; try assumption.
      pose proof (stored_mono _ _ _ HJ E). lia.
  - destruct (step (xb x) AStopCall) as [b'|] eqn:E; [|discriminate]. inversion Hs; subst; clear Hs.
    pose proof (step_torn _ _ _ E) as Ht. pose proof (step_down _ _ _ E) as Hd. cbn [is_src_td is_down_td] in *.
    constructor; cbn [xb srcinst dstinst sysstop runs tdfails resumed prev_handled prev_pack].
    + rewrite Isrc. split; intros Hn Hc; apply Hn; [apply Ht in Hc; destruct Hc as [Hc|Hc]; [exact Hc|discriminate]|].
      apply Ht. left. exact Hc.
    + rewrite Hd, orb_false_r. exact Idst.
    + intros _. unfold step in E. destruct (status (xb x)); try discriminate. inversion E; subst. reflexivity.
    + destruct Ires as (R1 & R2 & R3). repeat split; try assumption.
      pose proof (stored_mono _ _ _ HJ E). lia.
  - assert (HJf : J (flush (xb x))) by (apply (J_reach e); apply flush_reach; exact Hb).
    destruct HJf as (F1 & F2 & F3 & F4 & F5 & F6 & F7 & F8).
    destruct (status (xb x)); try discriminate;
      (destruct (srcinst x || dstinst x); [discriminate|]); inversion Hs; subst; clear Hs;
      (constructor; cbn [xb srcinst dstinst sysstop runs tdfails resumed prev_handled prev_pack quiet
                         ph downtorn stopreq why stored negb];
       [split; [discriminate|reflexivity] | reflexivity | discriminate | repeat split; lia]).
Qed.

Lemma xreach_step e x a x' : xreach e x -> xstep x a = Some x' -> xreach e x'.
Proof. intros [l Hl] Hs. exists (l ++ [a]). rewrite xrun_app, Hl. simpl. rewrite Hs. reflexivity. Qed.

Theorem I_reach e x : xreach e x -> I x.
Proof.
  intros Hx. cut (xreach e x /\ I x); [tauto|]. revert x Hx.
  apply (xinv_reach e (fun x => xreach e x /\ I x)).
  - split; [exists []; reflexivity|apply I_init].
  - intros x a x' [Hre Hi] Hs. split; [eapply xreach_step; eauto|eapply I_step; eauto].
Qed.

(* ============================ C06 ============================ *)
(* Whatever the reason of the graceful stop (the user's StopAndWait, reason nil; the engine's shutdown,
   StopAll with a reason + Wait + persister Wait), in whichever run of the pipeline's life: when the stop
   returned nil the pipeline is drained, its connector instances are released, and the status is "stopped by
   the user" resp. "stopped by the system". *)
Theorem stop_with_any_reason_drains : forall e l x, xrun (xinit e) l = Some x -> ret_ok (xb x) = true ->
  drained (xb x) /\ srcinst x = false /\ dstinst x = false /\
  xstat x = (if sysstop x then XSystemStopped else XUserStopped).
Proof.
  intros e l x Hr Hret. assert (Hx : xreach e x) by (exists l; exact Hr).
  pose proof (x_projects e x Hx) as [lb Hb]. pose proof (graceful_stop_drains e lb _ Hb Hret) as Hd.
  destruct (I_reach e x Hx) as [Isrc Idst _ _].
  destruct (JK_reach e _ (ex_intro _ lb Hb)) as [_ HK].
  destruct HK as [Kkill Kwhy Knack Kstopping Klate Klater Ktorn Ktds1 Ktds0 Kdtds1 Kdtds0 Kuser Kdegr Krecov Kret Krestart Krunning Kdown Kq Kwhyk Kv1].
  destruct (Kret Hret) as (Hst & _). destruct (Kuser Hst) as (Hdown & _).
  split; [exact Hd|]. split.
  - destruct (srcinst x) eqn:Es; [|reflexivity]. exfalso. apply (proj1 Isrc eq_refl). apply Kdown. exact Hdown.
  - split; [rewrite Idst, Hdown; reflexivity|]. unfold xstat. rewrite Hst. reflexivity.
Qed.

(* the shutdown is not a different protocol: the protocol state of a life is a state of Stop.v, whose progress
   theorem therefore applies to a requested shutdown as it does to a requested stop *)
Theorem shutdown_completes : forall e x, xreach e x -> sysstop x = true -> killed (xb x) = false ->
  exists l s', run (xb x) l = Some s' /\ ret_ok s' = true.
Proof.
  intros e x Hx Hs Hk. destruct (I_reach e x Hx) as [_ _ Isys _].
  apply (stop_completes e); [apply x_projects; exact Hx|apply Isys; exact Hs|exact Hk].
Qed.

(* ============================ C12 ============================ *)
(* A run that ended - force-stopped (degraded with the force-stop error) or stopped gracefully - can be started
   again whatever its Teardown calls answered: every connector instance was released.  The new run opens the
   source at the durable position: nothing that lacked its final outcome is skipped (no gap), and nothing the
   plugin was ever acked lies beyond it. *)
Theorem ended_run_restartable : forall e l x, xrun (xinit e) l = Some x ->
  status (xb x) = PDegradedForce \/ status (xb x) = PUserStopped ->
  exists x', xstep x XRestart = Some x' /\
    status (xb x') = PRunning /\ srcinst x' = true /\ dstinst x' = true /\
    resumed x' = stored (flush (xb x)) /\ taken (xb x') = resumed x' /\ pack (xb x') = resumed x' /\
    resumed x' <= handled (xb x) /\ pack (xb x) <= resumed x'.
Proof.
  intros e l x Hr Hst. assert (Hx : xreach e x) by (exists l; exact Hr).
  pose proof (x_projects e x Hx) as Hb. destruct (I_reach e x Hx) as [Isrc Idst _ _].
  destruct (JK_reach e _ Hb) as [_ HK].
  destruct HK as [Kkill Kwhy Knack Kstopping Klate Klater Ktorn Ktds1 Ktds0 Kdtds1 Kdtds0 Kuser Kdegr Krecov Kret Krestart Krunning Kdown Kq Kwhyk Kv1].
  assert (Hdown : downtorn (xb x) = true).
  { destruct Hst as [Hst|Hst]; [destruct (Kdegr Hst) as (_ & H); exact H|destruct (Kuser Hst) as (H & _); exact H]. }
  assert (Es : srcinst x = false).
  { destruct (srcinst x) eqn:Es; [|reflexivity]. exfalso. apply (proj1 Isrc eq_refl). apply Kdown. exact Hdown. }
  assert (Ed : dstinst x = false) by (rewrite Idst, Hdown; reflexivity).
  assert (HJf : J (flush (xb x))) by (apply (J_reach e); apply flush_reach; exact Hb).
  destruct HJf as (F1 & F2 & F3 & F4 & F5 & F6 & F7 & F8).
  assert (Hh : handled (flush (xb x)) = handled (xb x)) by (unfold flush; destruct (dirty (xb x)); reflexivity).
  assert (Hp : pack (flush (xb x)) = pack (xb x)) by (unfold flush; destruct (dirty (xb x)); reflexivity).
  eexists. split.
  - cbn [xstep]. rewrite Es, Ed. cbn [orb]. destruct Hst as [Hst|Hst]; rewrite Hst; reflexivity.
  - cbn [xb srcinst dstinst resumed quiet status taken pack]. repeat split; lia.
Qed.

(* a Teardown that fails on the cancelled context changes nothing but the count of failures *)
Theorem teardown_answer_irrelevant : forall x a x1 x2,
  xstep x (XStep a false) = Some x1 -> xstep x (XStep a true) = Some x2 ->
  xb x2 = xb x1 /\ srcinst x2 = srcinst x1 /\ dstinst x2 = dstinst x1 /\ tdfails x2 = S (tdfails x1).
Proof.
  intros x a x1 x2 H1 H2. cbn [xstep andb] in H1, H2.
  destruct (negb (killed (xb x) && (is_src_td a || is_down_td a))); [discriminate|].
  destruct (step (xb x) a); [|discriminate]. inversion H1; inversion H2; subst. cbn. auto.
Qed.
