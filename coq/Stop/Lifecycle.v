(* The stop protocols of Stop.v over the LIFE of a pipeline (properties C06, C12): graceful stops with
   and without a reason, plugin calls that fail on a cancelled context, and the next start.

   Code modelled (on top of what Stop.v models)
     v1  pkg/lifecycle/service.go   StopAll(ctx, reason) -> stopGraceful(ctx, rp, reason) -> SourceNode.Stop(ctx, reason):
                                    the reason is stored (n.stop.reason) and is what SourceNode.Run RETURNS when the
                                    loop ends at the stop position; runPipeline maps ErrGracefulShutdown to "no error"
                                    (isGracefulShutdown) and the cleanup writes StatusSystemStopped instead of
                                    StatusUserStopped.  Wait(timeout) + Persister.Wait are to StopAll what
                                    WaitPipeline + WaitPersisted are to Stop in StopAndWait.
     v2  pkg/lifecycle-poc/service.go  StopAll(ctx, false): isGracefulShutdown flag, stopRunnablePipeline of every run
     both pkg/connector/source.go, destination.go  Teardown: the plugin's Teardown answer (an error when the call was
                                    made with the cancelled connector context of a force-stopped run: builtin.runSandbox
                                    answers ctx.Err(), a gRPC client Canceled) is looked at only AFTER the instance was
                                    released (plugin = nil, Instance.connector = nil, persister.ConnectorStopped)
         pkg/lifecycle*/service.go  Start -> buildNodes / buildRunnablePipeline: refused ("connector is running") while
                                    an instance of one of the pipeline's connectors is still marked running; a new run
                                    opens the source at the stored position (connector.Source.Open: State.Position)

   Nothing of the protocol depends on the reason of the stop or on what a Teardown call answered: a step of this
   model IS a step of Stop.v on the embedded protocol state [xb]; the model adds the labels (reason, answers), the
   "running" marks of the connector instances and the restart.  Definitions only; proofs in LifecycleProofs.v. *)
From Verif Require Export Stop.Stop.

Record xst := mkX {
  xb : st;                (* the current run (or the run that ended last): the protocol state of Stop.v *)
  sysstop : bool;         (* the graceful stop of this run carries a reason: it is the engine's shutdown *)
  srcinst : bool;         (* connector.Source: Instance.connector != nil, "connector is running" *)
  dstinst : bool;         (* the same mark of the destinations and the DLQ connector *)
  tdfails : nat;          (* plugin Teardown calls that were answered with an error *)
  runs : nat;             (* runs started *)
  resumed : nat;          (* the position the source of the current run was opened at *)
  prev_handled : nat;     (* records that had their final outcome when the previous run ended *)
  prev_pack : nat         (* acks the plugin had received when the previous run ended *)
}.

Definition xinit (e : bool) : xst := mkX (init e) false true true 0 1 0 0 0.

Inductive xact :=
| XStep (a : act) (fails : bool)   (* a step of the protocol; fails: the plugin Teardown call it makes answers with an error *)
| XShutdown                        (* StopAll with the shutdown reason: a graceful stop whose reason is not nil *)
| XRestart.                        (* Start, after the run ended *)

Definition is_src_td (a : act) : bool := match a with ATearDrained | AAbortSrc => true | _ => false end.
Definition is_down_td (a : act) : bool := match a with ADownTear => true | _ => false end.

(* a pipeline whose records 1..p are done and durable and whose plugins were just opened at position p *)
Definition quiet (e : bool) (p : nat) : st :=
  mk e p p p p p p p 0 false false SRun false false RNone false 0 0 PRunning 0 false.

Definition xstep (x : xst) (a : xact) : option xst :=
  match a with
  | XStep a fails =>
      (* a Teardown call can fail this way only if it was made with a cancelled context *)
      if fails && negb (killed (xb x) && (is_src_td a || is_down_td a)) then None else
      match step (xb x) a with
      | Some b' =>
          (* the instance is released whatever the plugin answered *)
          Some (mkX b' (sysstop x)
                    (if is_src_td a then false else srcinst x)
                    (if is_down_td a then false else dstinst x)
                    (if fails then S (tdfails x) else tdfails x)
                    (runs x) (resumed x) (prev_handled x) (prev_pack x))
      | None => None
      end
  | XShutdown =>
      match step (xb x) AStopCall with
      | Some b' => Some (mkX b' true (srcinst x) (dstinst x) (tdfails x) (runs x) (resumed x) (prev_handled x) (prev_pack x))
      | None => None
      end
  | XRestart =>
      match status (xb x) with
      | PUserStopped | PDegradedForce =>
          if srcinst x || dstinst x then None      (* "connector is running" *)
          else
            (* the persister has written out what it held (debounce delay / ConnectorStopped / orderly exit) *)
            let f := flush (xb x) in
            Some (mkX (quiet (v1 f) (stored f)) false true true (tdfails x) (S (runs x)) (stored f) (handled f) (pack f))
      | _ => None
      end
  end.

Fixpoint xrun (x : xst) (l : list xact) : option xst :=
  match l with
  | [] => Some x
  | a :: r => match xstep x a with Some x' => xrun x' r | None => None end
  end.

(* the status a user sees *)
Inductive xstatus := XRunning | XUserStopped | XSystemStopped | XDegradedForce | XRecovering.
Definition xstat (x : xst) : xstatus :=
  match status (xb x) with
  | PRunning => XRunning
  | PUserStopped => if sysstop x then XSystemStopped else XUserStopped
  | PDegradedForce => XDegradedForce
  | PRecovering => XRecovering
  end.
