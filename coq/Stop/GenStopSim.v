(* The simulation: every trace of the generative model GenStop.v is accepted by the executable
   acceptor of observed logs (Check.v).  The relation [Rel] ties the model's counters to the
   acceptor's list-based tracking state. *)
From Verif Require Stop.Stop Stop.StopProofs Stop.ForceStopProofs.
From Verif Require Import Base.CaseCheck Stop.Events Stop.Check Stop.CheckProofs Stop.GenStop Stop.GenStopProofs.
From Coq Require Import Lia.

(* ---------- finite maps, sets ---------- *)
Lemma lookup_update k v l : lookup k (update k v l) = v.
Proof.
  induction l as [|[a w] l IH]; simpl; [rewrite Nat.eqb_refl; reflexivity|].
  destruct (Nat.eqb a k) eqn:E; simpl; rewrite E; [reflexivity|exact IH].
Qed.

Lemma p2_eqb_eq a b : p2_eqb a b = true <-> a = b.
Proof.
  destruct a, b; unfold p2_eqb; simpl. rewrite andb_true_iff, !Nat.eqb_eq. split; [intros [-> ->]; reflexivity|intros H; inversion H; auto].
Qed.
Lemma p3_eqb_eq a b : p3_eqb a b = true <-> a = b.
Proof.
  destruct a as [a1 a2], b as [b1 b2]; unfold p3_eqb; simpl. rewrite andb_true_iff, p2_eqb_eq, Nat.eqb_eq.
  split; [intros [-> ->]; reflexivity|intros H; inversion H; auto].
Qed.
Lemma p3_eqb_refl a : p3_eqb a a = true.
Proof. apply p3_eqb_eq. reflexivity. Qed.

Lemma conn_eqb_eq a b : conn_eqb a b = true <-> a = b.
Proof.
  destruct a, b; simpl; try (split; [discriminate|congruence]);
    try (rewrite Nat.eqb_eq; split; [intros ->; reflexivity|intros H; inversion H; reflexivity]).
  rewrite andb_true_iff, !Nat.eqb_eq. split; [intros [-> ->]; reflexivity|intros H; inversion H; auto].
Qed.
Lemma conn_eqb_refl a : conn_eqb a a = true.
Proof. apply conn_eqb_eq. reflexivity. Qed.
Lemma conn_eqb_neq a b : a <> b -> conn_eqb a b = false.
Proof. intros H. destruct (conn_eqb a b) eqn:E; [apply conn_eqb_eq in E; contradiction|reflexivity]. Qed.

Lemma mem_In c l : mem conn_eqb c l = true <-> In c l.
Proof.
  induction l as [|x l IH]; simpl; [split; [discriminate|tauto]|].
  rewrite orb_true_iff, conn_eqb_eq, IH. split; intros [H|H]; auto.
Qed.

Lemma mem_remove1_other c c' l : c <> c' -> mem conn_eqb c (remove1 conn_eqb c' l) = mem conn_eqb c l.
Proof.
  intros Hne. induction l as [|x l IH]; simpl; [reflexivity|].
  destruct (conn_eqb c' x) eqn:E.
  - apply conn_eqb_eq in E. subst x. rewrite (conn_eqb_neq c c' Hne). reflexivity.
  - simpl. rewrite IH. reflexivity.
Qed.

Lemma mem_remove1_same c l : NoDup l -> mem conn_eqb c (remove1 conn_eqb c l) = false.
Proof.
  induction l as [|x l IH]; intros Hn; simpl; [reflexivity|]. inversion Hn as [|? ? Hni Hn']; subst.
  destruct (conn_eqb c x) eqn:E.
  - apply conn_eqb_eq in E. subst x. destruct (mem conn_eqb c l) eqn:M; [apply mem_In in M; contradiction|reflexivity].
  - simpl. rewrite E. simpl. apply IH. exact Hn'.
Qed.

Lemma In_remove1 c x l : In x (remove1 conn_eqb c l) -> In x l.
Proof.
  induction l as [|y l IH]; simpl; [tauto|]. destruct (conn_eqb c y); simpl; [auto|]. intros [H|H]; auto.
Qed.

Lemma NoDup_remove1 c l : NoDup l -> NoDup (remove1 conn_eqb c l).
Proof.
  induction l as [|y l IH]; intros Hn; simpl; [constructor|]. inversion Hn as [|? ? Hni Hn']; subst.
  destruct (conn_eqb c y); [exact Hn'|]. constructor; [|apply IH; exact Hn'].
  intros Hin. apply Hni. eapply In_remove1; eauto.
Qed.

(* ---------- the FIFO of outstanding answers, per destination ---------- *)
Definition dest3 (x : nat * nat * nat) : nat := fst (fst x).
Definition pd (d : nat) (l : list (nat * nat * nat)) := filter (fun x => Nat.eqb (dest3 x) d) l.
Definition pendl (d c w : nat) : list (nat * nat * nat) := map (fun k => (d, 1, k)) (seq (S c) (w - c)).

Lemma first_of_d_pd d l : first_of_d d l = hd_error (pd d l).
Proof.
  induction l as [|x l IH]; simpl; [reflexivity|]. unfold dest3. destruct (Nat.eqb (fst (fst x)) d); simpl; auto.
Qed.

Lemma pd_app d l x : pd d (l ++ [x]) = pd d l ++ (if Nat.eqb (dest3 x) d then [x] else []).
Proof. unfold pd. rewrite filter_app. simpl. destruct (Nat.eqb (dest3 x) d); reflexivity. Qed.

Lemma pd_remove_other d x l : dest3 x <> d -> pd d (remove1 p3_eqb x l) = pd d l.
Proof.
  intros Hne. induction l as [|y l IH]; simpl; [reflexivity|].
  destruct (p3_eqb x y) eqn:E.
  - apply p3_eqb_eq in E. subst y. apply Nat.eqb_neq in Hne. rewrite Hne. reflexivity.
  - simpl. rewrite IH. reflexivity.
Qed.

Lemma pd_remove_head d x l : hd_error (pd d l) = Some x -> pd d (remove1 p3_eqb x l) = tl (pd d l).
Proof.
  induction l as [|y l IH]; simpl; [discriminate|]. intros H.
  destruct (Nat.eqb (dest3 y) d) eqn:Ed.
  - simpl in H. inversion H; subst y. rewrite p3_eqb_refl. reflexivity.
  - destruct (p3_eqb x y) eqn:E.
    + apply p3_eqb_eq in E. subst y.
      assert (Hx : dest3 x = d).
      { clear IH. induction l as [|z l IHl]; simpl in H; [discriminate|].
        destruct (Nat.eqb (dest3 z) d) eqn:Ez; [simpl in H; inversion H; subst; apply Nat.eqb_eq; exact Ez|auto]. }
      apply Nat.eqb_neq in Ed. contradiction.
    + simpl. rewrite Ed. apply IH. exact H.
Qed.

Lemma In_remove1_p3 x y l : In y (remove1 p3_eqb x l) -> In y l.
Proof.
  induction l as [|z l IH]; simpl; [tauto|]. destruct (p3_eqb x z); simpl; [auto|]. intros [H|H]; auto.
Qed.

Lemma pendl_write d c w : c <= w -> pendl d c (S w) = pendl d c w ++ [(d, 1, S w)].
Proof.
  intros H. unfold pendl. replace (S w - c) with (S (w - c)) by lia. rewrite seq_S, map_app. simpl.
  replace (S (c + (w - c))) with (S w) by lia. reflexivity.
Qed.

Lemma pendl_conf d c w : c < w -> pendl d c w = (d, 1, S c) :: pendl d (S c) w.
Proof.
  intros H. unfold pendl. replace (w - c) with (S (w - S c)) by lia. simpl. reflexivity.
Qed.

Lemma pendl_nil d c : pendl d c c = [].
Proof. unfold pendl. rewrite Nat.sub_diag. reflexivity. Qed.

Lemma pd_pendl_other d d' c w : d <> d' -> pd d (pendl d' c w) = [].
Proof.
  intros H. unfold pd, pendl. induction (seq (S c) (w - c)) as [|k l IH]; simpl; [reflexivity|].
  unfold dest3 at 1. simpl. destruct (Nat.eqb_spec d' d); [congruence|exact IH].
Qed.

(* ---------- the relation ---------- *)
Definition cfgof (e : bool) (m : nat) : cfg := mkC e false 1 m.

Record Rel (m : nat) (s : g) (t : tst) : Prop := mkRel {
  r_bad : bad t = false;
  r_pu : pack_unhandled t = false;
  r_pdis : pack_disorder t = false;
  r_pc : pack_closed t = false;
  r_lb : lifecycle_bad t = false;
  r_read : lookup 1 (lastread t) = Stop.taken (base s);
  r_pack : lookup 1 (lastpack t) = Stop.pack (base s);
  r_stored : lookup 1 (stored t) = Stop.stored (base s);
  r_pend : forall i, i < m -> pd (S i) (dpend t) = pendl (S i) (nth i (cc s) 0) (nth i (wc s) 0);
  r_pendd : forall x, In x (dpend t) -> 1 <= dest3 x <= m;
  r_qp : qpend t = [];
  r_qok : qok t = [];
  r_dok : forall i k, i < m -> mem p3_eqb (S i, 1, k) (dok t) = Nat.leb 1 k && Nat.leb k (nth i (cc s) 0);
  r_wrote : forall p, In p (wrote t) -> fst p = 1 /\ snd p <= Stop.taken (base s);
  r_osrc : is_open (CSrc 1) t = Stop.plugin_up (base s);
  r_odst : forall i, i < m -> is_open (CDst (S i)) t = negb (Stop.downtorn (base s));
  r_odlq : is_open (CDlq 1) t = negb (Stop.downtorn (base s));
  r_oonly : forall c, is_open c t = true -> c = CSrc 1 \/ c = CDlq 1 \/ exists i, i < m /\ c = CDst (S i);
  r_nodup : NoDup (opened t);
  r_grace : graceful t = Stop.stopreq (base s);
  r_fnil : fnil t = true -> Stop.why (base s) = Stop.RFatalForce /\ Stop.status (base s) = Stop.PRunning
}.

Ltac tsimpl :=
  cbn [tstep set_bad fold_left rev app c_ndst c_v1 c_slow c_nsrc cfgof
       opened lastread lastpack stored dpend qpend dok qok wrote forced graceful bad
       pack_unhandled pack_disorder pack_closed lifecycle_bad ntd fnil is_open
       base wc cc evs] in *.

(* record (1,k) is handled for the acceptor once every destination confirmed it *)
Lemma handled_all m s t k : Rel m s t -> 1 <= k -> (forall i, i < m -> k <= nth i (cc s) 0) ->
  handled m t 1 k = true.
Proof.
  intros R Hk Hall. unfold handled. apply orb_true_iff. left. apply forallb_forall. intros d Hd.
  apply in_seq in Hd. destruct d as [|i]; [lia|]. rewrite (r_dok _ _ _ R i k) by lia.
  apply andb_true_iff. split; apply Nat.leb_le; [exact Hk|apply Hall; lia].
Qed.

Lemma stepped_reach e m s a s' : greach e m s -> gstep s a = Some s' -> greach e m s'.
Proof. intros [l Hl] Hs. exists (l ++ [a]). rewrite grun_app, Hl. cbn [grun]. rewrite Hs. reflexivity. Qed.

(* the steps that emit nothing and do not touch anything the relation mentions *)
Lemma sim_silent m s s' t : Rel m s t -> evs s' = evs s -> wc s' = wc s -> cc s' = cc s ->
  Stop.taken (base s') = Stop.taken (base s) -> Stop.pack (base s') = Stop.pack (base s) ->
  Stop.stored (base s') = Stop.stored (base s) -> Stop.plugin_up (base s') = Stop.plugin_up (base s) ->
  Stop.downtorn (base s') = Stop.downtorn (base s) -> Stop.stopreq (base s') = Stop.stopreq (base s) ->
  Stop.why (base s') = Stop.why (base s) -> Stop.status (base s') = Stop.status (base s) ->
  Rel m s' t.
Proof.
  intros [] _ Hw Hc Ht Hp Hs Hu Hd Hq Hy Hst.
  constructor; rewrite ?Hw, ?Hc, ?Ht, ?Hp, ?Hs, ?Hu, ?Hd, ?Hq, ?Hy, ?Hst; assumption.
Qed.

(* what a step of the model leaves alone *)
Record Fr (s s' : g) : Prop := mkFr {
  f_wc : wc s' = wc s; f_cc : cc s' = cc s;
  f_taken : Stop.taken (base s') = Stop.taken (base s);
  f_pack : Stop.pack (base s') = Stop.pack (base s);
  f_stored : Stop.stored (base s') = Stop.stored (base s);
  f_up : Stop.plugin_up (base s') = Stop.plugin_up (base s);
  f_down : Stop.downtorn (base s') = Stop.downtorn (base s);
  f_req : Stop.stopreq (base s') = Stop.stopreq (base s);
  f_why : Stop.why (base s') = Stop.why (base s);
  f_status : Stop.status (base s') = Stop.status (base s)
}.

Ltac use_fr F :=
  destruct F as [Fwc Fcc Ftk Fpk Fst Fup Fdn Frq Fwy Fss].

Section Events.
Variables (e : bool) (m : nat).
Let c := cfgof e m.

Lemma ev_read s s' t : Rel m s t ->
  wc s' = wc s -> cc s' = cc s -> Stop.taken (base s') = S (Stop.taken (base s)) ->
  Stop.pack (base s') = Stop.pack (base s) -> Stop.stored (base s') = Stop.stored (base s) ->
  Stop.plugin_up (base s') = Stop.plugin_up (base s) -> Stop.downtorn (base s') = Stop.downtorn (base s) ->
  Stop.stopreq (base s') = Stop.stopreq (base s) -> Stop.why (base s') = Stop.why (base s) ->
  Stop.status (base s') = Stop.status (base s) ->
  Rel m s' (tstep c t (ERead 1 (S (Stop.taken (base s))))).
Proof.
  intros [] Fwc Fcc Ftk Fpk Fst Fup Fdn Frq Fwy Fss. constructor; tsimpl; rewrite ?Fwc, ?Fcc, ?Ftk, ?Fpk, ?Fst, ?Fup, ?Fdn, ?Frq, ?Fwy, ?Fss; try assumption.
  - rewrite r_read0, Nat.eqb_refl, r_bad0. reflexivity.
  - apply lookup_update.
  - intros p Hp. destruct (r_wrote0 p Hp). split; [assumption|lia].
Qed.

Lemma ev_write s s' t i : Rel m s t -> i < m -> length (wc s) = m ->
  nth i (cc s) 0 <= nth i (wc s) 0 -> nth i (wc s) 0 < Stop.taken (base s) -> Stop.downtorn (base s) = false ->
  base s' = base s -> wc s' = bump i (wc s) -> cc s' = cc s ->
  Rel m s' (tstep c t (EDWrite (S i) 1 (S (nth i (wc s) 0)))).
Proof.
  intros [] Hi Hl Hcw Hw Hd Fb Fwc Fcc. constructor; tsimpl; rewrite ?Fb, ?Fcc; try assumption.
  - rewrite (r_odst0 i Hi), Hd, r_read0, r_bad0. cbn [negb andb orb].
    assert (E : Nat.leb (S (nth i (wc s) 0)) (Stop.taken (base s)) = true) by (apply Nat.leb_le; lia).
    rewrite E. reflexivity.
  - intros j Hj. rewrite pd_app, Fwc. unfold dest3 at 1. cbn [fst].
    destruct (Nat.eqb_spec (S i) (S j)) as [E|E].
    + inversion E; subst j. rewrite nth_bump_same by lia. rewrite pendl_write by exact Hcw. rewrite r_pend0 by exact Hi. reflexivity.
    + rewrite app_nil_r, nth_bump_other by congruence. apply r_pend0. exact Hj.
  - intros x Hx. apply in_app_or in Hx. destruct Hx as [Hx|[<-|[]]]; [apply r_pendd0; exact Hx|]. unfold dest3. cbn. lia.
  - intros p [<-|Hp]; [cbn; split; [reflexivity|lia]|apply r_wrote0; exact Hp].
Qed.

Lemma ev_conf s s' t i : Rel m s t -> i < m ->
  nth i (cc s) 0 < nth i (wc s) 0 ->
  base s' = base s -> wc s' = wc s -> cc s' = bump i (cc s) -> length (cc s) = m ->
  Rel m s' (tstep c t (EDConf (S i) 1 (S (nth i (cc s) 0)) true)).
Proof.
  intros [] Hi Hcw Fb Fwc Fcc Hl.
  assert (Hhd : hd_error (pd (S i) (dpend t)) = Some (S i, 1, S (nth i (cc s) 0))).
  { rewrite r_pend0 by exact Hi. rewrite pendl_conf by exact Hcw. reflexivity. }
  constructor; tsimpl; rewrite ?Fb, ?Fwc; try assumption.
  - rewrite first_of_d_pd, Hhd. cbn [opt3_eqb]. rewrite p3_eqb_refl, r_bad0. reflexivity.
  - intros j Hj. rewrite Fcc. destruct (Nat.eq_dec i j) as [<-|Hne].
    + rewrite pd_remove_head by exact Hhd. rewrite r_pend0 by exact Hi. rewrite pendl_conf by exact Hcw.
      rewrite nth_bump_same by lia. reflexivity.
    + rewrite pd_remove_other by (unfold dest3; cbn; congruence). rewrite nth_bump_other by exact Hne. apply r_pend0. exact Hj.
  - intros x Hx. apply r_pendd0. eapply In_remove1_p3; eauto.
  - intros j k Hj. rewrite Fcc. cbn [mem]. destruct (Nat.eq_dec i j) as [<-|Hne].
    + rewrite nth_bump_same by lia. rewrite r_dok0 by exact Hi.
      destruct (p3_eqb (S i, 1, k) (S i, 1, S (nth i (cc s) 0))) eqn:E.
      * apply p3_eqb_eq in E. inversion E; subst k. cbn [orb]. symmetry. apply andb_true_iff. split; apply Nat.leb_le; lia.
      * cbn [orb]. assert (k <> S (nth i (cc s) 0)) by (intros ->; rewrite p3_eqb_refl in E; discriminate).
        destruct (Nat.leb_spec 1 k); cbn [andb]; [|reflexivity].
        destruct (Nat.leb_spec k (nth i (cc s) 0)); destruct (Nat.leb_spec k (S (nth i (cc s) 0))); try reflexivity; lia.
    + rewrite nth_bump_other by exact Hne.
      assert (E : p3_eqb (S j, 1, k) (S i, 1, S (nth i (cc s) 0)) = false).
      { destruct (p3_eqb (S j, 1, k) (S i, 1, S (nth i (cc s) 0))) eqn:E; [|reflexivity]. apply p3_eqb_eq in E. inversion E. lia. }
      rewrite E. cbn [orb]. apply r_dok0. exact Hj.
Qed.

Lemma ev_commit s s' t v : Rel m s t -> Stop.stored (base s) <= v ->
  (forall i, i < m -> v <= nth i (cc s) 0) ->
  wc s' = wc s -> cc s' = cc s -> Stop.taken (base s') = Stop.taken (base s) ->
  Stop.pack (base s') = Stop.pack (base s) -> Stop.stored (base s') = v ->
  Stop.plugin_up (base s') = Stop.plugin_up (base s) -> Stop.downtorn (base s') = Stop.downtorn (base s) ->
  Stop.stopreq (base s') = Stop.stopreq (base s) -> Stop.why (base s') = Stop.why (base s) ->
  Stop.status (base s') = Stop.status (base s) ->
  Rel m s' (tstep c t (ECommit [(1, v)])).
Proof.
  intros R Hv Hall Fwc Fcc Ftk Fpk Fst Fup Fdn Frq Fwy Fss. pose proof R as [].
  constructor; tsimpl; rewrite ?Fwc, ?Fcc, ?Ftk, ?Fpk, ?Fup, ?Fdn, ?Frq, ?Fwy, ?Fss; try assumption.
  - cbn [snap_ge forallb fst snd]. rewrite r_stored0, r_bad0.
    assert (E1 : Nat.leb (Stop.stored (base s)) v = true) by (apply Nat.leb_le; exact Hv). rewrite E1.
    destruct v as [|v']; [reflexivity|]. change (c_ndst c) with m.
    rewrite (handled_all m s t (S v') R) by (try lia; exact Hall). reflexivity.
  - cbn [lookup]. rewrite Fst. reflexivity.
Qed.

Lemma ev_pack s s' t : Rel m s t ->
  S (Stop.pack (base s)) <= Stop.stored (base s) ->
  (forall i, i < m -> S (Stop.pack (base s)) <= nth i (cc s) 0) -> Stop.plugin_up (base s) = true ->
  wc s' = wc s -> cc s' = cc s -> Stop.taken (base s') = Stop.taken (base s) ->
  Stop.pack (base s') = S (Stop.pack (base s)) -> Stop.stored (base s') = Stop.stored (base s) ->
  Stop.plugin_up (base s') = Stop.plugin_up (base s) -> Stop.downtorn (base s') = Stop.downtorn (base s) ->
  Stop.stopreq (base s') = Stop.stopreq (base s) -> Stop.why (base s') = Stop.why (base s) ->
  Stop.status (base s') = Stop.status (base s) ->
  Rel m s' (tstep c t (EPack 1 (S (Stop.pack (base s))))).
Proof.
  intros R Hst Hall Hup Fwc Fcc Ftk Fpk Fst Fup Fdn Frq Fwy Fss. pose proof R as [].
  assert (Hh : handled m t 1 (S (Stop.pack (base s))) = true) by (apply (handled_all m s t _ R); [lia|exact Hall]).
  assert (Ho : mem conn_eqb (CSrc 1) (opened t) = true) by (rewrite <- Hup; exact r_osrc0).
  assert (E1 : Nat.leb (S (Stop.pack (base s))) (lookup 1 (stored t)) = true) by (apply Nat.leb_le; rewrite r_stored0; exact Hst).
  constructor; tsimpl; unfold is_open in *; rewrite ?Fwc, ?Fcc, ?Ftk, ?Fst, ?Fup, ?Fdn, ?Frq, ?Fwy, ?Fss; try assumption.
  - change (c_ndst c) with m. rewrite E1, Hh, r_pack0, Nat.eqb_refl, Ho, r_bad0. reflexivity.
  - change (c_ndst c) with m. rewrite Hh, r_pu0. reflexivity.
  - rewrite r_pack0, Nat.eqb_refl, r_pdis0. reflexivity.
  - rewrite Ho, r_pc0. reflexivity.
  - rewrite Fpk. apply lookup_update.
Qed.

Lemma ev_stopcall s s' t id : Rel m s t ->
  wc s' = wc s -> cc s' = cc s -> Stop.taken (base s') = Stop.taken (base s) ->
  Stop.pack (base s') = Stop.pack (base s) -> Stop.stored (base s') = Stop.stored (base s) ->
  Stop.plugin_up (base s') = Stop.plugin_up (base s) -> Stop.downtorn (base s') = Stop.downtorn (base s) ->
  Stop.why (base s') = Stop.why (base s) -> Stop.status (base s') = Stop.status (base s) ->
  Stop.stopreq (base s') = true ->
  Rel m s' (tstep c t (ECall KStopWait id)).
Proof.
  intros [] Fwc Fcc Ftk Fpk Fst Fup Fdn Fwy Fss Hq.
  constructor; tsimpl; rewrite ?Fwc, ?Fcc, ?Ftk, ?Fpk, ?Fst, ?Fup, ?Fdn, ?Fwy, ?Fss; try assumption.
  symmetry; exact Hq.
Qed.

Lemma ev_td_src s s' t : Rel m s t -> Stop.plugin_up (base s) = true -> Stop.plugin_up (base s') = false ->
  wc s' = wc s -> cc s' = cc s -> Stop.taken (base s') = Stop.taken (base s) ->
  Stop.pack (base s') = Stop.pack (base s) -> Stop.stored (base s') = Stop.stored (base s) ->
  Stop.downtorn (base s') = Stop.downtorn (base s) ->
  Stop.stopreq (base s') = Stop.stopreq (base s) -> Stop.why (base s') = Stop.why (base s) ->
  Stop.status (base s') = Stop.status (base s) ->
  Rel m s' (tstep c t (ETd (CSrc 1))).
Proof.
  intros [] Hup Hup' Fwc Fcc Ftk Fpk Fst Fdn Frq Fwy Fss.
  assert (Ho : mem conn_eqb (CSrc 1) (opened t) = true) by (rewrite <- Hup; exact r_osrc0).
  constructor; tsimpl; unfold is_open in *; tsimpl; rewrite ?Fwc, ?Fcc, ?Ftk, ?Fpk, ?Fst, ?Fdn, ?Frq, ?Fwy, ?Fss; try assumption.
  - rewrite Ho, r_lb0. reflexivity.
  - rewrite Hup'. apply mem_remove1_same. exact r_nodup0.
  - intros i Hi. rewrite mem_remove1_other by discriminate. apply r_odst0. exact Hi.
  - rewrite mem_remove1_other by discriminate. exact r_odlq0.
  - intros x Hx. apply r_oonly0. apply mem_In. apply mem_In in Hx. eapply In_remove1; eauto.
  - apply NoDup_remove1. exact r_nodup0.
Qed.

Lemma ev_status s s' t st f : Rel m s t ->
  (fnil t = true -> force_status_ok (graceful t) st f = true) ->
  wc s' = wc s -> cc s' = cc s -> Stop.taken (base s') = Stop.taken (base s) ->
  Stop.pack (base s') = Stop.pack (base s) -> Stop.stored (base s') = Stop.stored (base s) ->
  Stop.plugin_up (base s') = Stop.plugin_up (base s) -> Stop.downtorn (base s') = Stop.downtorn (base s) ->
  Stop.stopreq (base s') = Stop.stopreq (base s) ->
  Rel m s' (tstep c t (EStatus st f)).
Proof.
  intros [] Hok Fwc Fcc Ftk Fpk Fst Fup Fdn Frq.
  constructor; tsimpl; rewrite ?Fwc, ?Fcc, ?Ftk, ?Fpk, ?Fst, ?Fup, ?Fdn, ?Frq; try assumption; try discriminate.
  rewrite r_bad0. destruct (fnil t); [rewrite Hok by reflexivity|]; reflexivity.
Qed.

Lemma ev_force s s' t id : Rel m s t -> 
  wc s' = wc s -> cc s' = cc s -> Stop.taken (base s') = Stop.taken (base s) ->
  Stop.pack (base s') = Stop.pack (base s) -> Stop.stored (base s') = Stop.stored (base s) ->
  Stop.plugin_up (base s') = Stop.plugin_up (base s) -> Stop.downtorn (base s') = Stop.downtorn (base s) ->
  Stop.stopreq (base s') = Stop.stopreq (base s) ->
  Stop.why (base s') = Stop.RFatalForce -> Stop.status (base s') = Stop.PRunning ->
  Rel m s' (tstep c (tstep c t (ECall KForce id)) (ERet KForce RNil id [])).
Proof.
  intros [] Fwc Fcc Ftk Fpk Fst Fup Fdn Frq Hw Hs.
  constructor; tsimpl; rewrite ?Fwc, ?Fcc, ?Ftk, ?Fpk, ?Fst, ?Fup, ?Fdn, ?Frq; try assumption.
  intros _. split; assumption.
Qed.

Lemma opened_nil t : (forall x, is_open x t = true -> False) -> opened t = [].
Proof.
  intros H. destruct (opened t) as [|x l] eqn:E; [reflexivity|]. exfalso. apply (H x).
  unfold is_open. rewrite E. cbn [mem]. rewrite conn_eqb_refl. reflexivity.
Qed.

Lemma dpend_nil s t : Rel m s t -> (forall i, i < m -> nth i (cc s) 0 = nth i (wc s) 0) -> dpend t = [].
Proof.
  intros [] Hall.
  assert (Hno : forall x, In x (dpend t) -> False).
  { intros x Hin. pose proof (r_pendd0 x Hin) as Hx. destruct (dest3 x) as [|i] eqn:Ed; [lia|].
    assert (Hp : pd (S i) (dpend t) = []) by (rewrite r_pend0 by lia; rewrite Hall by lia; apply pendl_nil).
    assert (Hin2 : In x (pd (S i) (dpend t))) by (unfold pd; apply filter_In; split; [exact Hin|rewrite Ed; apply Nat.eqb_refl]).
    rewrite Hp in Hin2. exact Hin2. }
  destruct (dpend t) as [|x l]; [reflexivity|]. exfalso. apply (Hno x). left. reflexivity.
Qed.

Lemma ev_ret s s' t id : Rel m s t -> Fr s s' ->
  (forall i, i < m -> nth i (cc s) 0 = nth i (wc s) 0) ->
  Stop.pack (base s) = Stop.stored (base s) -> Stop.taken (base s) = Stop.pack (base s) ->
  Stop.plugin_up (base s) = false -> Stop.downtorn (base s) = true ->
  Rel m s' (tstep c t (ERet KStopWait RNil id [(1, Stop.stored (base s))])).
Proof.
  intros R F Hall Hps Htp Hup Hdn. pose proof R as []. use_fr F.
  assert (Hd : drained e false 1 [(1, Stop.stored (base s))] t = true).
  { unfold drained. rewrite (dpend_nil s t R Hall), r_qp0, r_pu0, r_pdis0, r_pc0. cbn [negb andb].
    unfold torn_once. rewrite r_lb0.
    rewrite (opened_nil t).
    2:{ intros x Hx. destruct (r_oonly0 x Hx) as [->|[->|(i & Hi & ->)]].
        - rewrite r_osrc0, Hup in Hx. discriminate.
        - rewrite r_odlq0, Hdn in Hx. discriminate.
        - rewrite (r_odst0 i Hi), Hdn in Hx. discriminate. }
    cbn [negb andb srcs seq forallb lookup Nat.eqb].
    rewrite r_pack0, r_read0, Htp, Hps, !Nat.eqb_refl. cbn [andb]. rewrite andb_true_r.
    assert (Hw : all_written_acked t = true).
    { unfold all_written_acked. apply forallb_forall. intros p Hp. destruct (r_wrote0 p Hp) as [E1 E2].
      rewrite E1, r_pack0. apply Nat.leb_le. lia. }
    rewrite Hw. destruct e; reflexivity. }
  constructor; tsimpl; rewrite ?Fwc, ?Fcc, ?Ftk, ?Fpk, ?Fst, ?Fup, ?Fdn, ?Frq, ?Fwy, ?Fss; try assumption.
  unfold c; cbn [cfgof c_v1 c_slow c_nsrc]. rewrite Hd, r_bad0. reflexivity.
Qed.
End Events.

(* ---------- opening / tearing down a list of destination-side plugins ---------- *)
Definition core (t : tst) :=
  (bad t, pack_unhandled t, pack_disorder t, pack_closed t, lastread t, lastpack t, stored t,
   dpend t, qpend t, dok t, qok t, wrote t, graceful t, fnil t).

Section Folds.
Variable c : cfg.

Lemma td_fold cs : forall t, NoDup (opened t) -> lifecycle_bad t = false -> NoDup cs ->
  (forall x, In x cs -> is_open x t = true) ->
  let t' := fold_left (tstep c) (map ETd cs) t in
  lifecycle_bad t' = false /\ NoDup (opened t') /\
  (forall x, is_open x t' = is_open x t && negb (mem conn_eqb x cs)) /\ core t' = core t.
Proof.
  induction cs as [|y cs IH]; intros t Hn Hl Hnc Hop; cbn [map fold_left].
  - repeat split; auto. intros x. cbn [mem negb]. rewrite andb_true_r. reflexivity.
  - inversion Hnc as [|? ? Hni Hnc']; subst.
    set (t1 := tstep c t (ETd y)).
    assert (Hy : is_open y t = true) by (apply Hop; left; reflexivity).
    assert (H1 : NoDup (opened t1)) by (apply NoDup_remove1; exact Hn).
    assert (H2 : lifecycle_bad t1 = false) by (cbn [t1 tstep lifecycle_bad]; rewrite Hy, Hl; reflexivity).
    assert (H3 : forall x, is_open x t1 = is_open x t && negb (conn_eqb x y)).
    { intros x. unfold is_open, t1. cbn [tstep opened]. destruct (conn_eqb x y) eqn:E.
      - apply conn_eqb_eq in E. subst x. rewrite mem_remove1_same by exact Hn. rewrite andb_false_r. reflexivity.
      - rewrite mem_remove1_other; [rewrite andb_true_r; reflexivity|]. intros ->. rewrite conn_eqb_refl in E. discriminate. }
    assert (H4 : forall x, In x cs -> is_open x t1 = true).
    { intros x Hx. rewrite H3, (Hop x (or_intror Hx)). rewrite conn_eqb_neq; [reflexivity|]. intros ->. contradiction. }
    destruct (IH t1 H1 H2 Hnc' H4) as (A & B & C & D). fold t1.
    split; [exact A|]. split; [exact B|]. split; [|rewrite D; reflexivity].
    intros x. rewrite C, H3. cbn [mem]. rewrite negb_orb, andb_assoc. reflexivity.
Qed.

Lemma open_fold ds : forall t, NoDup (opened t) -> lifecycle_bad t = false -> NoDup ds ->
  (forall d, In d ds -> is_open (CDst d) t = false) -> dpend t = [] -> qpend t = [] ->
  let t' := fold_left (tstep c) (map (fun d => EOpen (CDst d) 0) ds) t in
  lifecycle_bad t' = false /\ NoDup (opened t') /\
  (forall x, is_open x t' = is_open x t || match x with CDst d => existsb (Nat.eqb d) ds | _ => false end) /\
  core t' = core t.
Proof.
  induction ds as [|y ds IH]; intros t Hn Hl Hnc Hop Hd Hq; cbn [map fold_left].
  - repeat split; auto. intros x. destruct x; cbn [existsb andb]; rewrite ?orb_false_r; reflexivity.
  - inversion Hnc as [|? ? Hni Hnc']; subst.
    set (t1 := tstep c t (EOpen (CDst y) 0)).
    assert (Hy : is_open (CDst y) t = false) by (apply Hop; left; reflexivity).
    assert (H1 : NoDup (opened t1)).
    { cbn [t1 tstep opened]. constructor; [|exact Hn]. intros Hin. apply mem_In in Hin. unfold is_open in Hy. congruence. }
    assert (H2 : lifecycle_bad t1 = false) by (cbn [t1 tstep set_bad lifecycle_bad]; rewrite Hy, Hl; reflexivity).
    assert (H3 : forall x, is_open x t1 = conn_eqb x (CDst y) || is_open x t) by (intros x; reflexivity).
    assert (H4 : forall d, In d ds -> is_open (CDst d) t1 = false).
    { intros d Hin. rewrite H3, (Hop d (or_intror Hin)). rewrite conn_eqb_neq; [reflexivity|]. intros E; inversion E; subst. contradiction. }
    assert (H5 : dpend t1 = []) by (cbn [t1 tstep set_bad dpend]; rewrite Hd; reflexivity).
    assert (H6 : qpend t1 = []) by (cbn [t1 tstep set_bad qpend]; exact Hq).
    assert (H7 : core t1 = core t).
    { unfold core. cbn [t1 tstep set_bad bad pack_unhandled pack_disorder pack_closed lastread lastpack stored dpend qpend dok qok wrote graceful fnil].
      rewrite Hd. cbn [filter]. rewrite orb_false_r. reflexivity. }
    destruct (IH t1 H1 H2 Hnc' H4 H5 H6) as (A & B & C & D). fold t1.
    split; [exact A|]. split; [exact B|]. split; [|rewrite D; exact H7].
    intros x. rewrite C, H3. destruct x; cbn [conn_eqb existsb andb orb]; rewrite ?orb_false_r; try reflexivity.
    destruct (Nat.eqb d y), (is_open (CDst d) t), (existsb (Nat.eqb d) ds); reflexivity.
Qed.
End Folds.

(* the relation only looks at the core of the tracking state and at which plugins are open *)
Lemma Rel_transfer m s s' t t' : Rel m s t ->
  wc s' = wc s -> cc s' = cc s -> Stop.taken (base s') = Stop.taken (base s) ->
  Stop.pack (base s') = Stop.pack (base s) -> Stop.stored (base s') = Stop.stored (base s) ->
  Stop.stopreq (base s') = Stop.stopreq (base s) -> Stop.why (base s') = Stop.why (base s) ->
  Stop.status (base s') = Stop.status (base s) -> core t' = core t ->
  lifecycle_bad t' = false -> NoDup (opened t') ->
  is_open (CSrc 1) t' = Stop.plugin_up (base s') ->
  (forall i, i < m -> is_open (CDst (S i)) t' = negb (Stop.downtorn (base s'))) ->
  is_open (CDlq 1) t' = negb (Stop.downtorn (base s')) ->
  (forall x, is_open x t' = true -> is_open x t = true) ->
  Rel m s' t'.
Proof.
  intros [] Fwc Fcc Ftk Fpk Fst Frq Fwy Fss Hc Hl Hn Ho1 Ho2 Ho3 Hsub. unfold core in Hc.
  injection Hc as E1 E2 E3 E4 E5 E6 E7 E8 E9 E10 E11 E12 E13 E14.
  constructor; rewrite ?E1, ?E2, ?E3, ?E4, ?E5, ?E6, ?E7, ?E8, ?E9, ?E10, ?E11, ?E12, ?E13, ?E14,
    ?Fwc, ?Fcc, ?Ftk, ?Fpk, ?Fst, ?Frq, ?Fwy, ?Fss; try assumption.
  intros x Hx. apply r_oonly0. apply Hsub. exact Hx.
Qed.

(* ---------- the initial state ---------- *)
Lemma existsb_S_seq d m : existsb (Nat.eqb d) (map S (rev (seq 0 m))) = match d with 0 => false | S i => Nat.ltb i m end.
Proof.
  destruct d as [|i].
  - induction (rev (seq 0 m)) as [|x l IH]; simpl; auto.
  - destruct (Nat.ltb_spec i m) as [H|H].
    + apply existsb_exists. exists (S i). split; [|apply Nat.eqb_refl]. apply in_map, in_rev. rewrite rev_involutive. apply in_seq. lia.
    + destruct (existsb (Nat.eqb (S i)) (map S (rev (seq 0 m)))) eqn:E; [|reflexivity].
      apply existsb_exists in E. destruct E as (x & Hin & Hx). apply Nat.eqb_eq in Hx. subst x.
      apply in_map_iff in Hin. destruct Hin as (j & Ej & Hj). inversion Ej; subst j. apply in_rev in Hj. apply in_seq in Hj. lia.
Qed.

Lemma NoDup_map_S l : NoDup l -> NoDup (map S l).
Proof.
  induction 1 as [|x l Hni Hn IH]; cbn [map]; constructor; [|exact IH].
  intros Hin. apply in_map_iff in Hin. destruct Hin as (y & Ey & Hy). inversion Ey; subst. contradiction.
Qed.

Lemma Rel_init e m : Rel m (ginit e m) (track (cfgof e m) (trace (ginit e m))).
Proof.
  set (c := cfgof e m).
  assert (Htr : trace (ginit e m) =
    [ECall KStart 0; EOpen (CDlq 1) 0] ++ map (fun d => EOpen (CDst d) 0) (map S (rev (seq 0 m))) ++
    [EOpen (CSrc 1) 0; EStatus StRunning false]).
  { unfold trace, ginit. cbn [evs]. change (EStatus StRunning false :: EOpen (CSrc 1) 0 :: ?l) with ([EStatus StRunning false; EOpen (CSrc 1) 0] ++ l).
    rewrite rev_app_distr, rev_app_distr. cbn [rev app]. rewrite <- map_rev, map_map. reflexivity. }
  rewrite Htr. unfold track. rewrite !fold_left_app.
  set (t2 := fold_left (tstep c) [ECall KStart 0; EOpen (CDlq 1) 0] t0).
  assert (Ht2 : t2 = mkT [CDlq 1] [] [] [] [] [] [] [] [] false false false false false false false [] false) by reflexivity.
  set (ds := map S (rev (seq 0 m))).
  assert (Hnd : NoDup ds).
  { unfold ds. apply NoDup_map_S, NoDup_rev, seq_NoDup. }
  assert (P1 : NoDup (opened t2)) by (rewrite Ht2; cbn [opened]; constructor; [simpl; tauto|constructor]).
  assert (P2 : lifecycle_bad t2 = false) by (rewrite Ht2; reflexivity).
  assert (P4 : forall d, In d ds -> is_open (CDst d) t2 = false) by (intros d _; rewrite Ht2; reflexivity).
  assert (P5 : dpend t2 = []) by (rewrite Ht2; reflexivity).
  assert (P6 : qpend t2 = []) by (rewrite Ht2; reflexivity).
  destruct (open_fold c ds t2 P1 P2 Hnd P4 P5 P6) as (A & B & C & D).
  set (t3 := fold_left (tstep c) (map (fun d => EOpen (CDst d) 0) ds) t2) in *.
  unfold core in D. rewrite Ht2 in D. cbn [bad pack_unhandled pack_disorder pack_closed lastread lastpack stored dpend qpend dok qok wrote graceful fnil] in D.
  injection D as E1 E2 E3 E4 E5 E6 E7 E8 E9 E10 E11 E12 E13 E14.
  assert (Hsrc : is_open (CSrc 1) t3 = false) by (rewrite C, Ht2; reflexivity).
  assert (Hdlq : is_open (CDlq 1) t3 = true) by (rewrite C, Ht2; reflexivity).
  assert (Hdst : forall d, is_open (CDst d) t3 = match d with 0 => false | S i => Nat.ltb i m end).
  { intros d. rewrite C, Ht2. cbn [is_open opened mem conn_eqb orb]. unfold ds. apply existsb_S_seq. }
  cbn [fold_left].
  constructor; tsimpl; unfold is_open in *; tsimpl;
    rewrite ?E1, ?E2, ?E3, ?E4, ?E5, ?E6, ?E7, ?E8, ?E9, ?E10, ?E11, ?E12, ?E13, ?E14; cbn [filter lookup update Nat.eqb orb negb andb conn_eqb];
    try reflexivity; try assumption; try discriminate; try tauto.
  - rewrite Hsrc, A. reflexivity.
  - intros i Hi. unfold pd, ginit. cbn [filter cc wc]. assert (E : nth i (repeat 0 m) 0 = 0) by apply nth_repeat. rewrite E. symmetry. apply pendl_nil.
  - intros x [].
  - intros i k Hi. unfold ginit. cbn [mem cc]. assert (E : nth i (repeat 0 m) 0 = 0) by apply nth_repeat. rewrite E.
    destruct k; [reflexivity|]. cbn [Nat.leb]. reflexivity.
  - intros p [].
  - intros i Hi. cbn [mem conn_eqb orb]. rewrite (Hdst (S i)). apply Nat.ltb_lt. exact Hi.
  - intros x Hx. cbn [mem] in Hx. destruct (conn_eqb x (CSrc 1)) eqn:Ex; [apply conn_eqb_eq in Ex; auto|]. cbn [orb] in Hx.
    destruct x as [s0|d|q|p i].
    + exfalso. rewrite C, Ht2 in Hx. cbn in Hx. discriminate.
    + right; right. rewrite (Hdst d) in Hx. destruct d as [|i]; [discriminate|]. exists i. split; [apply Nat.ltb_lt; exact Hx|reflexivity].
    + right; left. rewrite C, Ht2 in Hx. cbn in Hx. apply orb_true_iff in Hx. destruct Hx as [Hx|Hx]; [|discriminate].
      apply orb_true_iff in Hx. destruct Hx as [Hx|Hx]; [|discriminate]. apply Nat.eqb_eq in Hx. subst q. reflexivity.
    + exfalso. rewrite C, Ht2 in Hx. cbn in Hx. discriminate.
  - constructor; [|exact B]. intros Hin. apply mem_In in Hin. congruence.
Qed.

Lemma NoDup_map_CDst l : NoDup l -> NoDup (map (fun i => CDst (S i)) l).
Proof.
  induction 1 as [|x l Hni Hn IH]; cbn [map]; constructor; [|exact IH].
  intros Hin. apply in_map_iff in Hin. destruct Hin as (y & Ey & Hy). inversion Ey; subst. contradiction.
Qed.

Lemma NoDup_snoc {A} (l : list A) x : NoDup l -> ~ In x l -> NoDup (l ++ [x]).
Proof.
  induction 1 as [|y l Hni Hn IH]; intros Hx; cbn [app]; [constructor; [simpl; tauto|constructor]|].
  constructor; [|apply IH; intros H; apply Hx; right; exact H].
  intros Hin. apply in_app_or in Hin. destruct Hin as [Hin|[<-|[]]]; [contradiction|]. apply Hx. left. reflexivity.
Qed.

(* ---------- one step ---------- *)
Lemma track_added c s added evs' : evs' = added ++ evs s ->
  track c (rev evs') = fold_left (tstep c) (rev added) (track c (trace s)).
Proof. intros ->. unfold trace. rewrite rev_app_distr. apply track_app. Qed.

Ltac fld :=
  try reflexivity; cbn [base wc cc evs]; unfold Stop.plugin_up; StopProofs.fsimpl;
  repeat match goal with
         | H : Stop.ph _ = _ |- _ => rewrite H
         | H : Stop.status _ = _ |- _ => rewrite H
         | H : Stop.dirty _ = _ |- _ => rewrite H
         | H : Stop.downtorn _ = _ |- _ => rewrite H
         | H : Stop.stopreq _ = _ |- _ => rewrite H
         end; try reflexivity.

Ltac open_via Hs E :=
  unfold gstep, via in Hs;
  match type of Hs with context [Stop.step ?b ?x] => destruct (Stop.step b x) as [b'|] eqn:E; [|discriminate] end;
  injection Hs as <-; unfold trace; cbn [evs].

Section Step.
Variables (e : bool) (m : nat).
Let c := cfgof e m.

Lemma sim_silent_step s s' : greach e m s -> Rel m s (track c (trace s)) ->
  evs s' = evs s -> wc s' = wc s -> cc s' = cc s ->
  Stop.taken (base s') = Stop.taken (base s) -> Stop.pack (base s') = Stop.pack (base s) ->
  Stop.stored (base s') = Stop.stored (base s) -> Stop.plugin_up (base s') = Stop.plugin_up (base s) ->
  Stop.downtorn (base s') = Stop.downtorn (base s) -> Stop.stopreq (base s') = Stop.stopreq (base s) ->
  Stop.why (base s') = Stop.why (base s) -> Stop.status (base s') = Stop.status (base s) ->
  Rel m s' (track c (trace s')).
Proof.
  intros _ R He. unfold trace. rewrite He. intros. eapply sim_silent; eauto.
Qed.

Lemma step_emit s s' : greach e m s -> Rel m s (track c (trace s)) -> gstep s GEmit = Some s' -> Rel m s' (track c (trace s')).
Proof.
  intros Hr R Hs. unfold gstep, via in Hs. destruct (Stop.step (base s) Stop.AEmit) as [b'|] eqn:E; [|discriminate].
  injection Hs as <-. StopProofs.step_cases E. eapply sim_silent_step; eauto; fld.
Qed.

Lemma step_read s s' : greach e m s -> Rel m s (track c (trace s)) -> gstep s GRead = Some s' -> Rel m s' (track c (trace s')).
Proof.
  intros Hr R Hs. open_via Hs E. rewrite (track_added c s [ERead 1 (S (Stop.taken (base s)))]) by reflexivity.
  cbn [rev app fold_left]. StopProofs.step_cases E; apply (ev_read e m s _ _ R); fld.
Qed.

Lemma step_write s s' i : greach e m s -> Rel m s (track c (trace s)) -> gstep s (GWrite i) = Some s' -> Rel m s' (track c (trace s')).
Proof.
  intros Hr R Hs. destruct (Cnt_reach e m s Hr) as (L1 & L2 & Hc).
  unfold gstep in Hs.
  destruct (Nat.ltb i (length (wc s)) && Nat.ltb (nth i (wc s) 0) (Stop.taken (base s)) && negb (Stop.downtorn (base s))) eqn:G; [|discriminate].
  injection Hs as <-. apply andb_true_iff in G. destruct G as [G G3]. apply andb_true_iff in G. destruct G as [G1 G2].
  apply Nat.ltb_lt in G1, G2. apply negb_true_iff in G3. unfold trace. cbn [evs].
  rewrite (track_added c s [EDWrite (S i) 1 (S (nth i (wc s) 0))]) by reflexivity. cbn [rev app fold_left].
  destruct (Hc i ltac:(lia)) as (A & B & C).
  apply (ev_write e m s _ _ i R); try reflexivity; try assumption; lia.
Qed.

Lemma step_conf s s' i : greach e m s -> Rel m s (track c (trace s)) -> gstep s (GConf i) = Some s' -> Rel m s' (track c (trace s')).
Proof.
  intros Hr R Hs. destruct (Cnt_reach e m s Hr) as (L1 & L2 & Hc).
  unfold gstep in Hs.
  destruct (Nat.ltb i (length (cc s)) && Nat.ltb (nth i (cc s) 0) (nth i (wc s) 0) && negb (Stop.downtorn (base s))) eqn:G; [|discriminate].
  injection Hs as <-. apply andb_true_iff in G. destruct G as [G G3]. apply andb_true_iff in G. destruct G as [G1 G2].
  apply Nat.ltb_lt in G1, G2. unfold trace. cbn [evs].
  rewrite (track_added c s [EDConf (S i) 1 (S (nth i (cc s) 0)) true]) by reflexivity. cbn [rev app fold_left].
  apply (ev_conf e m s _ _ i R); try reflexivity; try assumption; lia.
Qed.

Lemma step_handled s s' : greach e m s -> Rel m s (track c (trace s)) -> gstep s GHandled = Some s' -> Rel m s' (track c (trace s')).
Proof.
  intros Hr R Hs. unfold gstep in Hs. destruct (forallb _ (cc s)); [|discriminate].
  unfold via in Hs. destruct (Stop.step (base s) Stop.AHandled) as [b'|] eqn:E; [|discriminate].
  injection Hs as <-. StopProofs.step_cases E. eapply sim_silent_step; eauto; fld.
Qed.

Lemma step_eack s s' : greach e m s -> Rel m s (track c (trace s)) -> gstep s GEAck = Some s' -> Rel m s' (track c (trace s')).
Proof.
  intros Hr R Hs. unfold gstep, via in Hs. destruct (Stop.step (base s) Stop.AEAck) as [b'|] eqn:E; [|discriminate].
  injection Hs as <-. StopProofs.step_cases E. eapply sim_silent_step; eauto; fld.
Qed.

Lemma commit_or_silent s b' added : greach e m s -> Rel m s (track c (trace s)) ->
  added = (if Stop.dirty (base s) then [ECommit [(1, Stop.eack (base s))]] else []) ->
  Stop.taken b' = Stop.taken (base s) -> Stop.pack b' = Stop.pack (base s) ->
  Stop.stored b' = (if Stop.dirty (base s) then Stop.eack (base s) else Stop.stored (base s)) ->
  Stop.plugin_up b' = Stop.plugin_up (base s) -> Stop.downtorn b' = Stop.downtorn (base s) ->
  Stop.stopreq b' = Stop.stopreq (base s) -> Stop.why b' = Stop.why (base s) -> Stop.status b' = Stop.status (base s) ->
  Rel m (mkG b' (wc s) (cc s) (added ++ evs s)) (track c (rev (added ++ evs s))).
Proof.
  intros Hr R -> Ft Fp Fs Fu Fd Fq Fw Fss. destruct (gen_commit_guard e m s Hr) as [G1 G2].
  destruct (Stop.dirty (base s)).
  - rewrite (track_added c s [ECommit [(1, Stop.eack (base s))]]) by reflexivity. cbn [rev app fold_left].
    apply (ev_commit e m s _ _ _ R G1 G2); cbn [base wc cc]; try reflexivity; assumption.
  - cbn [app]. eapply sim_silent; eauto; cbn [base wc cc evs]; try reflexivity; assumption.
Qed.

Lemma step_flush s s' : greach e m s -> Rel m s (track c (trace s)) -> gstep s GFlush = Some s' -> Rel m s' (track c (trace s')).
Proof.
  intros Hr R Hs. open_via Hs E. unfold commit_ev.
  apply (commit_or_silent s b' _ Hr R eq_refl); StopProofs.step_cases E; fld.
Qed.

Lemma step_deliver s s' : greach e m s -> Rel m s (track c (trace s)) -> gstep s GDeliver = Some s' -> Rel m s' (track c (trace s')).
Proof.
  intros Hr R Hs. destruct (gen_ack_guard e m s s' Hr Hs) as (_ & G1 & G2 & G3).
  open_via Hs E. rewrite (track_added c s [EPack 1 (S (Stop.pack (base s)))]) by reflexivity. cbn [rev app fold_left].
  StopProofs.step_cases E; apply (ev_pack e m s _ _ R G1 G2 G3); fld.
Qed.

Lemma step_stopcall s s' : greach e m s -> Rel m s (track c (trace s)) -> gstep s GStopCall = Some s' -> Rel m s' (track c (trace s')).
Proof.
  intros Hr R Hs. open_via Hs E. rewrite (track_added c s [ECall KStopWait 1]) by reflexivity. cbn [rev app fold_left].
  StopProofs.step_cases E; apply (ev_stopcall e m s _ _ 1 R); fld.
Qed.

Lemma step_stopsrc s s' : greach e m s -> Rel m s (track c (trace s)) -> gstep s GStopSrc = Some s' -> Rel m s' (track c (trace s')).
Proof.
  intros Hr R Hs. open_via Hs E. destruct (Stop.v1 (base s)) eqn:Hv.
  - StopProofs.step_cases E; try congruence. cbn [app]. eapply sim_silent; eauto; cbn [base wc cc evs]; fld.
  - unfold commit_ev. apply (commit_or_silent s b' _ Hr R eq_refl); StopProofs.step_cases E; try congruence; fld.
Qed.

Lemma step_loopend s s' : greach e m s -> Rel m s (track c (trace s)) -> gstep s GLoopEnd = Some s' -> Rel m s' (track c (trace s')).
Proof.
  intros Hr R Hs. unfold gstep, via in Hs. destruct (Stop.step (base s) Stop.ALoopEnd) as [b'|] eqn:E; [|discriminate].
  injection Hs as <-. StopProofs.step_cases E. eapply sim_silent_step; eauto; fld.
Qed.

Lemma step_tearbegin s s' : greach e m s -> Rel m s (track c (trace s)) -> gstep s GTearBegin = Some s' -> Rel m s' (track c (trace s')).
Proof.
  intros Hr R Hs. open_via Hs E. unfold commit_ev.
  apply (commit_or_silent s b' _ Hr R eq_refl); StopProofs.step_cases E; fld.
Qed.

Lemma step_tearflushed s s' : greach e m s -> Rel m s (track c (trace s)) -> gstep s GTearFlushed = Some s' -> Rel m s' (track c (trace s')).
Proof.
  intros Hr R Hs. unfold gstep, via in Hs. destruct (Stop.step (base s) Stop.ATearFlushed) as [b'|] eqn:E; [|discriminate].
  injection Hs as <-. StopProofs.step_cases E. eapply sim_silent_step; eauto; fld.
Qed.

Lemma step_cut s s' : greach e m s -> Rel m s (track c (trace s)) -> gstep s GCut = Some s' -> Rel m s' (track c (trace s')).
Proof.
  intros Hr R Hs. unfold gstep, via in Hs. destruct (Stop.step (base s) Stop.ACut) as [b'|] eqn:E; [|discriminate].
  injection Hs as <-. StopProofs.step_cases E. eapply sim_silent_step; eauto; fld.
Qed.

Lemma step_teardrained s s' : greach e m s -> Rel m s (track c (trace s)) -> gstep s GTearDrained = Some s' -> Rel m s' (track c (trace s')).
Proof.
  intros Hr R Hs. open_via Hs E. rewrite (track_added c s [ETd (CSrc 1)]) by reflexivity. cbn [rev app fold_left].
  StopProofs.step_cases E; apply (ev_td_src e m s _ _ R); fld.
Qed.

Lemma step_abortsrc s s' : greach e m s -> Rel m s (track c (trace s)) -> gstep s GAbortSrc = Some s' -> Rel m s' (track c (trace s')).
Proof.
  intros Hr R Hs. open_via Hs E. rewrite (track_added c s [ETd (CSrc 1)]) by reflexivity. cbn [rev app fold_left].
  StopProofs.step_cases E; apply (ev_td_src e m s _ _ R); fld.
Qed.

Lemma step_cleanup s s' : greach e m s -> Rel m s (track c (trace s)) -> gstep s GCleanup = Some s' -> Rel m s' (track c (trace s')).
Proof.
  intros Hr R Hs. pose proof (r_fnil _ _ _ R) as Hf. open_via Hs E.
  StopProofs.step_cases E;
    match goal with |- Rel _ _ (track _ (rev (?a :: _))) => rewrite (track_added c s [a]) by reflexivity end;
    cbn [rev app fold_left];
    (apply (ev_status e m s _ _ _ _ R); [intros Hx; destruct (Hf Hx) as [Hw _]; try congruence; reflexivity|..]); fld.
Qed.

Lemma step_force s s' : greach e m s -> Rel m s (track c (trace s)) -> gstep s GForce = Some s' -> Rel m s' (track c (trace s')).
Proof.
  intros Hr R Hs. pose proof (gen_no_transient e m s Hr) as Hn. open_via Hs E.
  rewrite (track_added c s [ERet KForce RNil 2 []; ECall KForce 2]) by reflexivity. cbn [rev app fold_left].
  StopProofs.step_cases E; try congruence; apply (ev_force e m s _ _ 2 R); fld.
Qed.

Lemma step_return s s' : greach e m s -> Rel m s (track c (trace s)) -> gstep s GReturn = Some s' -> Rel m s' (track c (trace s')).
Proof.
  intros Hr R Hs. destruct (gen_return_guard e m s s' Hr Hs) as (_ & Hd & Hsp & Hall).
  destruct Hd as (D1 & D2 & D3 & D4 & D5 & _).
  open_via Hs E. rewrite (track_added c s [ERet KStopWait RNil 1 [(1, Stop.stored (base s))]]) by reflexivity.
  cbn [rev app fold_left]. cbn [base wc cc] in *.
  StopProofs.step_cases E; StopProofs.fsimpl; apply (ev_ret e m s _ _ 1 R); try (constructor; fld);
    try (intros i Hi; destruct (Hall i Hi); congruence); try lia;
    try (unfold Stop.plugin_up; rewrite D5; reflexivity).
  destruct (StopProofs.JK_reach e (base s) (base_reachable e m s Hr)) as [_ HK].
  destruct (StopProofs.k_user _ HK Heqp) as [Hd _]. exact Hd.
Qed.

Lemma step_downtear s s' : greach e m s -> Rel m s (track c (trace s)) -> gstep s GDownTear = Some s' -> Rel m s' (track c (trace s')).
Proof.
  intros Hr R Hs. destruct (Cnt_reach e m s Hr) as (L1 & _ & _). open_via Hs E. rewrite L1. clear L1.
  set (cs := map (fun i => CDst (S i)) (rev (seq 0 m)) ++ [CDlq 1]).
  assert (Hev : rev (down_evs m) = map ETd cs).
  { unfold down_evs, cs. cbn [rev]. rewrite map_app, <- map_rev, !map_map. reflexivity. }
  rewrite (track_added c s (down_evs m)) by reflexivity. rewrite Hev.
  StopProofs.step_cases E. StopProofs.bools.
  match goal with |- Rel _ ?sx _ => set (s1 := sx) end.
  assert (Hd0 : Stop.downtorn (base s) = false) by assumption.
  assert (Hd1 : Stop.downtorn (base s1) = true) by reflexivity.
  assert (Hup : Stop.plugin_up (base s1) = Stop.plugin_up (base s)) by (unfold s1; fld).
  pose proof R as [].
  assert (Hin : forall x, In x cs <-> (x = CDlq 1 \/ exists i, i < m /\ x = CDst (S i))).
  { intros x. unfold cs. rewrite in_app_iff, in_map_iff. split.
    - intros [(i & <- & Hi)|[<-|[]]]; [right; exists i; split; [apply in_rev in Hi; apply in_seq in Hi; lia|reflexivity]|left; reflexivity].
    - intros [->|(i & Hi & ->)]; [right; left; reflexivity|left; exists i; split; [reflexivity|apply in_rev; rewrite rev_involutive; apply in_seq; lia]]. }
  assert (Hnd : NoDup cs).
  { unfold cs. apply NoDup_snoc.
    - apply NoDup_map_CDst, NoDup_rev, seq_NoDup.
    - intros Hx. apply in_map_iff in Hx. destruct Hx as (y & Ey & _). discriminate. }
  assert (Hop : forall x, In x cs -> is_open x (track c (trace s)) = true).
  { intros x Hx. apply Hin in Hx. destruct Hx as [->|(i & Hi & ->)]; [rewrite r_odlq0|rewrite (r_odst0 i Hi)]; rewrite Hd0; reflexivity. }
  destruct (td_fold c cs _ r_nodup0 r_lb0 Hnd Hop) as (A & B & C & D).
  eapply (Rel_transfer m s s1); eauto; try (unfold s1; fld; fail).
  - rewrite C, Hup, r_osrc0. destruct (mem conn_eqb (CSrc 1) cs) eqn:M; [|rewrite andb_true_r; reflexivity].
    apply mem_In, Hin in M. destruct M as [M|(i & _ & M)]; discriminate.
  - intros i Hi. rewrite C, Hd1. assert (M : mem conn_eqb (CDst (S i)) cs = true) by (apply mem_In, Hin; right; exists i; auto).
    rewrite M, andb_false_r. reflexivity.
  - rewrite C, Hd1. assert (M : mem conn_eqb (CDlq 1) cs = true) by (apply mem_In, Hin; left; reflexivity).
    rewrite M, andb_false_r. reflexivity.
  - intros x Hx. rewrite C in Hx. apply andb_true_iff in Hx. tauto.
Qed.
End Step.

(* ---------- the simulation theorem ---------- *)
Lemma sim_step e m s a s' : greach e m s -> Rel m s (track (cfgof e m) (trace s)) -> gstep s a = Some s' ->
  Rel m s' (track (cfgof e m) (trace s')).
Proof.
  intros Hr R Hs. destruct a.
  - eapply step_emit; eauto.
  - eapply step_read; eauto.
  - eapply step_write; eauto.
  - eapply step_conf; eauto.
  - eapply step_handled; eauto.
  - eapply step_eack; eauto.
  - eapply step_flush; eauto.
  - eapply step_deliver; eauto.
  - eapply step_stopcall; eauto.
  - eapply step_stopsrc; eauto.
  - eapply step_loopend; eauto.
  - eapply step_tearbegin; eauto.
  - eapply step_tearflushed; eauto.
  - eapply step_teardrained; eauto.
  - eapply step_downtear; eauto.
  - eapply step_cleanup; eauto.
  - eapply step_return; eauto.
  - eapply step_force; eauto.
  - eapply step_cut; eauto.
  - eapply step_abortsrc; eauto.
Qed.

Lemma sim_reach e m l : forall s, grun (ginit e m) l = Some s ->
  greach e m s /\ Rel m s (track (cfgof e m) (trace s)).
Proof.
  induction l as [|a l IH] using rev_ind; intros s Hl.
  - cbn [grun] in Hl. injection Hl as <-. split; [exists []; reflexivity|apply Rel_init].
  - rewrite grun_app in Hl. destruct (grun (ginit e m) l) as [s0|] eqn:E0; [|discriminate].
    cbn [grun] in Hl. destruct (gstep s0 a) as [s1|] eqn:E1; [|discriminate]. injection Hl as <-.
    destruct (IH s0 eq_refl) as [Hr R]. split; [eapply stepped_reach; eauto|eapply sim_step; eauto].
Qed.

(* every trace the generative model can emit, under every schedule, for every number of destinations
   and both engines, is accepted by the acceptor the harness logs are judged with *)
Theorem gen_trace_accepted e m l s : grun (ginit e m) l = Some s -> accept (cfgof e m) (trace s) = true.
Proof.
  intros Hl. destruct (sim_reach e m l s Hl) as [_ R]. unfold accept. rewrite (r_bad _ _ _ R). reflexivity.
Qed.

(* ---------- composition with "accepted log => monitor" ---------- *)
(* every trace of the generative model satisfies the log clauses of Mon_C06 (the safety part: whenever
   StopAndWait returned nil the pipeline was drained; "a healthy stop comes back" is liveness, it is the
   [healthy] flag of the monitor and is judged on observed runs) *)
Corollary gen_trace_satisfies_mon_c06 e m l s : grun (ginit e m) l = Some s ->
  mon_c06 (cfgof e m) false false (trace s) = true.
Proof.
  intros Hl. pose proof (gen_trace_accepted e m l s Hl) as Ha. unfold mon_c06. cbn [negb andb].
  destruct (split_at_ret (trace s) []) as [[[[pre r] snap] rest]|] eqn:E; [|reflexivity].
  destruct r; try reflexivity.
  eapply (accepted_log_satisfies_mon_c06 (cfgof e m)); eauto.
Qed.

Corollary gen_trace_return_drained e m l s pre snap rest : grun (ginit e m) l = Some s ->
  split_at_ret (trace s) [] = Some (pre, RNil, snap, rest) ->
  drained e false 1 snap (track (cfgof e m) pre) = true.
Proof.
  intros Hl Hs. exact (accepted_log_satisfies_mon_c06 (cfgof e m) _ _ _ _ (gen_trace_accepted e m l s Hl) Hs).
Qed.

(* ... and the log clauses of Mon_C12: no ack for an unhandled record, out of order or to a torn-down
   plugin anywhere in the trace, and every status written after a force stop that returned nil is
   the one the monitor demands *)
Corollary gen_trace_acks_only_handled e m l s : grun (ginit e m) l = Some s ->
  let t := track (cfgof e m) (trace s) in
  pack_unhandled t = false /\ pack_disorder t = false /\ pack_closed t = false.
Proof. intros Hl. apply accepted_log_acks_only_handled. eapply gen_trace_accepted; eauto. Qed.

Corollary gen_trace_status_after_force e m l s pre st f rest : grun (ginit e m) l = Some s ->
  trace s = pre ++ EStatus st f :: rest -> fnil (track (cfgof e m) pre) = true ->
  force_status_ok (graceful (track (cfgof e m) pre)) st f = true.
Proof.
  intros Hl Ht Hf. pose proof (gen_trace_accepted e m l s Hl) as Ha. rewrite Ht in Ha.
  change (pre ++ EStatus st f :: rest) with (pre ++ [EStatus st f] ++ rest) in Ha. rewrite app_assoc in Ha.
  apply accept_prefix_closed in Ha. eapply accepted_status_after_force; eauto.
Qed.
