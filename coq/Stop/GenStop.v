(* A generative model of the stop / force-stop protocol that EMITS the event vocabulary of
   Stop/Events.v: one source connector (source 1) x M destinations (1..M) and the DLQ connector
   (opened and torn down; no dead letters: every destination confirms), both engines.
   The protocol part is Stop.v's transition system (embedded as [base]); on top of it every
   destination d has its own write and confirm counters (a destination receives the records in
   order and answers in order; the destinations are interleaved arbitrarily), and a record counts as
   handled only after every destination confirmed it.  Definitions only; proofs in GenStopProofs.v. *)
From Verif Require Stop.Stop.
From Verif Require Import Base.CaseCheck Stop.Events.

Record g := mkG {
  base : Stop.st;
  wc : list nat;          (* per destination: records written *)
  cc : list nat;          (* per destination: records confirmed *)
  evs : list ev           (* newest first *)
}.

Inductive gact :=
| GEmit | GRead | GWrite (i : nat) | GConf (i : nat) | GHandled | GEAck | GFlush | GDeliver
| GStopCall | GStopSrc | GLoopEnd | GTearBegin | GTearFlushed | GTearDrained | GDownTear | GCleanup | GReturn
| GForce | GCut | GAbortSrc.

Fixpoint bump (i : nat) (l : list nat) : list nat :=
  match l, i with
  | [], _ => []
  | x :: r, 0 => S x :: r
  | x :: r, S j => x :: bump j r
  end.

Definition via (s : g) (a : Stop.act) (added : list ev) : option g :=
  match Stop.step (base s) a with
  | Some b' => Some (mkG b' (wc s) (cc s) (added ++ evs s))
  | None => None
  end.

(* the store transaction a flush commits, if the batch holds anything *)
Definition commit_ev (b : Stop.st) : list ev :=
  if Stop.dirty b then [ECommit [(1, Stop.eack b)]] else [].

Definition down_evs (m : nat) : list ev :=
  ETd (CDlq 1) :: map (fun i => ETd (CDst (S i))) (seq 0 m).

Definition gstep (s : g) (a : gact) : option g :=
  let b := base s in
  match a with
  | GEmit => via s Stop.AEmit []
  | GRead => via s Stop.ATake [ERead 1 (S (Stop.taken b))]
  | GWrite i =>
      if Nat.ltb i (length (wc s)) && Nat.ltb (nth i (wc s) 0) (Stop.taken b) && negb (Stop.downtorn b)
      then Some (mkG b (bump i (wc s)) (cc s) (EDWrite (S i) 1 (S (nth i (wc s) 0)) :: evs s))
      else None
  | GConf i =>
      if Nat.ltb i (length (cc s)) && Nat.ltb (nth i (cc s) 0) (nth i (wc s) 0) && negb (Stop.downtorn b)
      then Some (mkG b (wc s) (bump i (cc s)) (EDConf (S i) 1 (S (nth i (cc s) 0)) true :: evs s))
      else None
  | GHandled =>
      (* the oldest unhandled record has been confirmed by every destination *)
      if forallb (fun c => Nat.ltb (Stop.handled b) c) (cc s) then via s Stop.AHandled [] else None
  | GEAck => via s Stop.AEAck []
  | GFlush => via s Stop.AFlush (commit_ev b)
  | GDeliver => via s Stop.ADeliver [EPack 1 (S (Stop.pack b))]
  | GStopCall => via s Stop.AStopCall [ECall KStopWait 1]
  | GStopSrc => via s Stop.AStopSrc (if Stop.v1 b then [] else commit_ev b)
  | GLoopEnd => via s Stop.ALoopEnd []
  | GTearBegin => via s Stop.ATearBegin (commit_ev b)
  | GTearFlushed => via s Stop.ATearFlushed []
  | GTearDrained => via s Stop.ATearDrained [ETd (CSrc 1)]
  | GDownTear => via s Stop.ADownTear (down_evs (length (wc s)))
  | GCleanup =>
      via s Stop.ACleanup
        [match Stop.why b with
         | Stop.RNone => EStatus StUserStopped false
         | Stop.RFatalForce => EStatus StDegraded true
         | Stop.RTransient => EStatus StRecovering false
         end]
  | GReturn => via s Stop.AReturn [ERet KStopWait RNil 1 [(1, Stop.stored b)]]
  | GForce => via s Stop.AForce [ERet KForce RNil 2 []; ECall KForce 2]
  | GCut => via s Stop.ACut []
  | GAbortSrc => via s Stop.AAbortSrc [ETd (CSrc 1)]
  end.

(* Start: every plugin is opened (the source at position 0), the status says running *)
Definition ginit (engine_v1 : bool) (m : nat) : g :=
  mkG (Stop.init engine_v1) (repeat 0 m) (repeat 0 m)
      (EStatus StRunning false :: EOpen (CSrc 1) 0 ::
       map (fun i => EOpen (CDst (S i)) 0) (seq 0 m) ++ [EOpen (CDlq 1) 0; ECall KStart 0]).

Fixpoint grun (s : g) (l : list gact) : option g :=
  match l with
  | [] => Some s
  | a :: r => match gstep s a with Some s' => grun s' r | None => None end
  end.

(* the observable trace, oldest event first *)
Definition trace (s : g) : list ev := rev (evs s).
