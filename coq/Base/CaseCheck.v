(* Shared helpers for the correspondence case files written by the Go harness.
   A case file defines [cases : list (nat * C)] and evaluates [failing chk cases] with
   vm_compute; the result lists (case index, code) for every case whose code is not 0.
   code bit 0 (1): the model's output differs from the implementation's observed output
   code bit 1 (2): the property monitor rejects the observed output                      *)
From Coq Require Export List Arith Bool ZArith.
Export ListNotations.

Definition code (agree monitor_ok : bool) : nat :=
  (if agree then 0 else 1) + (if monitor_ok then 0 else 2).

Fixpoint failing {I C} (chk : C -> nat) (cs : list (I * C)) : list (I * nat) :=
  match cs with
  | [] => []
  | (i, c) :: r =>
      let k := chk c in
      if Nat.eqb k 0 then failing chk r else (i, k) :: failing chk r
  end.

Fixpoint list_eqb {A} (eqb : A -> A -> bool) (l1 l2 : list A) : bool :=
  match l1, l2 with
  | [], [] => true
  | a :: r1, b :: r2 => eqb a b && list_eqb eqb r1 r2
  | _, _ => false
  end.

Lemma list_eqb_eq {A} (eqb : A -> A -> bool) :
  (forall a b, eqb a b = true <-> a = b) ->
  forall l1 l2, list_eqb eqb l1 l2 = true <-> l1 = l2.
Proof.
  intros H. induction l1 as [|a l1 IH]; intros l2; destruct l2 as [|b l2]; simpl;
    try (split; congruence).
  rewrite andb_true_iff, H, IH. split; [intros [-> ->]; reflexivity|intros E; inversion E; auto].
Qed.
