(* Routing of rejected records to the DLQ and of acknowledgments to the source.
   v1: pkg/lifecycle/stream/source_acker.go (ack / nack handlers, ticket order, fail latch)
       + stream/dlq.go DLQHandlerNode.Ack / Nack
   v2: pkg/lifecycle-poc/funnel/worker.go Worker.Ack / Worker.Nack, doTaskAttempt's tainted loop
       (maximal runs of equal flag), funnel/dlq.go DLQ.Nack / sendToDLQ
   A record is (rejected?, would its DLQ write fail?). Records are numbered in source order.
   Definitions only; proofs in RoutingProofs.v. *)
From Verif Require Import Base.CaseCheck Dlq.Window.

Inductive ev := DlqOk (k : nat) | SrcAck (k : nat).

Notation rec := (bool * bool)%type (only parsing).          (* (is_nack, dlq_write_fails) *)

(* terminal state of the pass: None = still running, Some fatal = stopped with an error *)
Definition term := option bool.

(* ---------- spec, in the words of the property ----------
   handled = how many records (a prefix, in source order) got their final outcome and were
   acknowledged to the source; the pipeline stops at the first rejection that is not
   tolerated or whose DLQ write fails, and that record stays unacknowledged. *)
Fixpoint spec_route (size t : nat) (s : sp) (rs : list rec) : nat * bool :=
  match rs with
  | [] => (0, false)
  | (x, df) :: r =>
      let (s', d) := spec_step size t s x in
      if x && (negb d || df) then (0, true)
      else let (m, st) := spec_route size t s' r in (S m, st)
  end.

(* what the source and the DLQ must have seen when the first m records were handled *)
Fixpoint events_of (k : nat) (rs : list rec) (m : nat) : list ev :=
  match m, rs with
  | S m', (x, _) :: r =>
      (if x then [DlqOk k; SrcAck k] else [SrcAck k]) ++ events_of (S k) r m'
  | _, _ => []
  end.

Definition acks_of (es : list ev) : list nat :=
  flat_map (fun e => match e with SrcAck k => [k] | _ => [] end) es.
Definition dlqs_of (es : list ev) : list nat :=
  flat_map (fun e => match e with DlqOk k => [k] | _ => [] end) es.

(* ---------- v1 ---------- *)
(* handlers run in ticket (= source) order whatever the order Ack()/Nack() were called in;
   [fail] is SourceAckerNode.fail *)
Fixpoint route_v1 (w : win) (fail : bool) (k : nat) (rs : list rec) : list ev * term :=
  match rs with
  | [] => ([], None)
  | (x, df) :: r =>
      if fail then ([], None)   (* every later handler returns an error, nothing is forwarded *)
      else if x then
        let (w', ok) := nack1 w in
        if negb ok then ([], Some (0 <? thr w))         (* threshold: fatal iff thr > 0 *)
        else if df then ([], Some true)                 (* DLQ write failed: fatal (DLQHandlerNode.Nack wraps it) *)
        else let (es, tm) := route_v1 w' false (S k) r in (DlqOk k :: SrcAck k :: es, tm)
      else
        let (es, tm) := route_v1 (ack1 w) false (S k) r in (SrcAck k :: es, tm)
  end.

(* ---------- v2 ---------- *)
(* a maximal run of records with the same flag, as subBatchByFlag cuts them *)
Fixpoint take_run (x : bool) (rs : list rec) : list rec * list rec :=
  match rs with
  | (y, df) :: r =>
      if Bool.eqb x y then let (a, b) := take_run x r in ((y, df) :: a, b) else ([], rs)
  | [] => ([], [])
  end.

Fixpoint first_fail (dfs : list bool) : nat :=
  match dfs with
  | [] => 0
  | df :: r => if df then 0 else S (first_fail r)
  end.

Definition seq_ev (mk : nat -> ev) (k n : nat) : list ev := map mk (seq k n).

Fixpoint dlq_oks (k : nat) (dfs : list bool) : list ev :=
  match dfs with
  | [] => []
  | df :: r => (if df then [] else [DlqOk k]) ++ dlq_oks (S k) r
  end.

(* one batch; [fuel] bounds the number of runs (<= length of the batch).
   dlq_write_fails of a record here means: the DLQ destination's acknowledgment for that
   record carries an error (sendToDLQ counts the leading acked records) *)
Fixpoint route_batch (fuel : nat) (w : win) (k : nat) (rs : list rec)
  : win * nat * list ev * term :=
  match fuel with
  | 0 => (w, k, [], None)
  | S fuel' =>
    match rs with
    | [] => (w, k, [], None)
    | (x, df) :: r =>
        let (run, rest) := take_run x rs in
        let n := length run in
        if x then
          let (w', acc) := nackN w n in
          let f := first_fail (firstn acc (map snd run)) in
          (* the DLQ destination confirms every written record that is not bad, also the
             ones after the first bad one; only the leading f are counted as delivered *)
          let es := dlq_oks k (firstn acc (map snd run)) ++ seq_ev SrcAck k f in
          if f <? acc then (w', k + f, es, Some true)              (* DLQ write failed: fatal *)
          else if acc <? n then (w', k + f, es, Some (0 <? thr w)) (* threshold exceeded *)
          else
            let '(w'', k', es', tm) := route_batch fuel' w' (k + n) rest in
            (w'', k', es ++ es', tm)
        else
          let w' := ackN w n in
          let '(w'', k', es', tm) := route_batch fuel' w' (k + n) rest in
          (w'', k', seq_ev SrcAck k n ++ es', tm)
    end
  end.

Fixpoint route_v2 (w : win) (k : nat) (batches : list (list rec)) : list ev * term :=
  match batches with
  | [] => ([], None)
  | b :: r =>
      let '(w', k', es, tm) := route_batch (length b) w k b in
      match tm with
      | Some _ => (es, tm)
      | None => let (es', tm') := route_v2 w' k' r in (es ++ es', tm')
      end
  end.

(* a DLQ confirmation never comes after the acknowledgment of the same record *)
Fixpoint dlq_first (acked : list nat) (es : list ev) : bool :=
  match es with
  | [] => true
  | SrcAck k :: r => dlq_first (k :: acked) r
  | DlqOk k :: r => negb (existsb (Nat.eqb k) acked) && dlq_first acked r
  end.

(* indices (from k) of the rejected records among the first m *)
Fixpoint nacks_below (k : nat) (rs : list rec) (m : nat) : list nat :=
  match m, rs with
  | S m', (x, _) :: r => (if x then [k] else []) ++ nacks_below (S k) r m'
  | _, _ => []
  end.

(* the property, as a predicate on what source and DLQ observed *)
Fixpoint increasing (l : list nat) : bool :=
  match l with
  | a :: ((b :: _) as r) => (a <? b) && increasing r
  | _ => true
  end.

(* - exactly the first m records were acknowledged, in source order, once;
   - every rejected one among them was confirmed by the DLQ before its acknowledgment;
   - DLQ confirmations come in source order, each record at most once, only for rejected
     records (a confirmation may exist for a record at or beyond m when the pipeline
     stopped: that record stays unacknowledged);
   - the pipeline stopped iff the spec says so. *)
Definition route_ok (size t : nat) (rs : list rec) (es : list ev) (stopped : bool) : bool :=
  let (m, st) := spec_route size t init_sp rs in
  list_eqb Nat.eqb (acks_of es) (seq 0 m)
  && list_eqb Nat.eqb (filter (fun k => k <? m) (dlqs_of es)) (nacks_below 0 rs m)
  && increasing (dlqs_of es)
  && forallb (fun k => fst (nth k rs (false, false))) (dlqs_of es)
  && Bool.eqb stopped st
  && dlq_first [] es.
