(* Model of the DLQ nack window of both engines.
   v1: pkg/lifecycle/stream/dlq.go        (dlqWindow.Ack / Nack / store, one outcome per call)
   v2: pkg/lifecycle-poc/funnel/dlq.go    (dlqWindow.Ack n / Nack n / store, counted, with the
                                           nackCount = 0 shortcut in Ack)
   The spec is the property text of C07: a rejection is tolerated iff the rejections among the
   most recent [size] outcomes, counting it, do not exceed [thr]; size 0 removes the limit.
   Definitions only (proofs are in WindowProofs.v) so that the model stays runnable. *)
From Coq Require Export List Arith Bool Lia.
Export ListNotations.

Record win := mkWin { buf : list bool; cur : nat; thr : nat; nacks : nat }.

(* newDLQWindow: size>0 && threshold==0 => size := 1 *)
Definition norm_size (size t : nat) : nat :=
  if (0 <? size) && (t =? 0) then 1 else size.

Definition new_win (size t : nat) : win :=
  mkWin (repeat false (norm_size size t)) 0 t 0.

Definition set_nth (n : nat) (x : bool) (l : list bool) : list bool :=
  firstn n l ++ x :: skipn (S n) l.

(* one trip through the body of the ring update: move cursor, compare, write, count *)
Definition put (w : win) (x : bool) : win :=
  let c := (cur w + 1) mod length (buf w) in
  if Bool.eqb (nth c (buf w) false) x
  then mkWin (buf w) c (thr w) (nacks w)
  else mkWin (set_nth c x (buf w)) c (thr w)
             (if x then nacks w + 1 else nacks w - 1).

(* ---------- v1 ---------- *)
Definition store1 (w : win) (x : bool) : win :=
  if (length (buf w) =? 0) || (thr w <? nacks w) then w else put w x.

Definition ack1 (w : win) : win := store1 w false.
Definition nack1 (w : win) : win * bool :=
  let w' := store1 w true in (w', nacks w' <=? thr w').

(* ---------- v2 ---------- *)
(* the for-loop of store(count, nacked); [i] is the loop index; Some i = early return i *)
Fixpoint loopN (w : win) (n : nat) (x : bool) (i : nat) : win * option nat :=
  match n with
  | 0 => (w, None)
  | S n' =>
      let w' := put w x in
      if x && (thr w' <? nacks w') then (w', Some i)
      else loopN w' n' x (S i)
  end.

Definition storeN (w : win) (count : nat) (x : bool) : win * nat :=
  if length (buf w) =? 0 then (w, count)
  else if thr w <? nacks w then (w, 0)
  else match loopN w count x 0 with
       | (w', Some i) => (w', i)
       | (w', None) => (w', count)
       end.

Definition ackN (w : win) (count : nat) : win :=
  if nacks w =? 0 then w else fst (storeN w count false).
Definition nackN (w : win) (count : nat) : win * nat := storeN w count true.

(* ---------- spec ---------- *)
Record sp := mkSp { hist : list bool; frozen : bool }.   (* hist oldest first, true = nack *)

Definition lastn {A} (n : nat) (l : list A) : list A := skipn (length l - n) l.
Definition count_true (l : list bool) : nat := length (filter (fun b => b) l).

Definition tolerated (size t : nat) (h : list bool) : bool :=
  (size =? 0) || (count_true (lastn size (h ++ [true])) <=? t).

(* outcome: true = rejection. result: was it tolerated (acks are always "tolerated") *)
Definition spec_step (size t : nat) (s : sp) (x : bool) : sp * bool :=
  if frozen s then (s, negb x)
  else if x then
         if tolerated size t (hist s) then (mkSp (hist s ++ [true]) false, true)
         else (mkSp (hist s) true, false)
       else (mkSp (hist s ++ [false]) false, true).

Fixpoint run_spec (size t : nat) (s : sp) (ops : list bool) : list bool :=
  match ops with
  | [] => []
  | x :: r => let (s', d) := spec_step size t s x in d :: run_spec size t s' r
  end.

Definition v1_step (w : win) (x : bool) : win * bool :=
  if x then nack1 w else (ack1 w, true).

Fixpoint run_v1 (w : win) (ops : list bool) : list bool :=
  match ops with
  | [] => []
  | x :: r => let (w', d) := v1_step w x in d :: run_v1 w' r
  end.

(* v2 consumes the same outcome stream in chunks: (is_nack, count).  Its decisions, flattened:
   an ack chunk of n gives n "true"; a nack chunk of n with k accepted gives k "true" and
   n-k "false". *)
Definition v2_step (w : win) (c : bool * nat) : win * list bool :=
  let (x, n) := c in
  if x then let (w', k) := nackN w n in (w', repeat true k ++ repeat false (n - k))
  else (ackN w n, repeat true n).

Fixpoint run_v2 (w : win) (cs : list (bool * nat)) : list bool :=
  match cs with
  | [] => []
  | c :: r => let (w', d) := v2_step w c in d ++ run_v2 w' r
  end.

Definition expand (cs : list (bool * nat)) : list bool :=
  flat_map (fun c => repeat (fst c) (snd c)) cs.

Definition init_sp : sp := mkSp [] false.
