(* Proofs about the DLQ window model: both engines refine the property-level spec. *)
From Verif Require Import Dlq.Window.

(* ---------- list toolkit ---------- *)
Lemma count_true_app l1 l2 : count_true (l1 ++ l2) = count_true l1 + count_true l2.
Proof. unfold count_true. rewrite filter_app, app_length. reflexivity. Qed.

Lemma count_true_cons b l : count_true (b :: l) = (if b then 1 else 0) + count_true l.
Proof. unfold count_true. destruct b; simpl; reflexivity. Qed.

Lemma count_true_repeat_false n : count_true (repeat false n) = 0.
Proof. induction n as [|n IH]; [reflexivity|]. simpl repeat. rewrite count_true_cons, IH. reflexivity. Qed.

Lemma count0_tl_snoc q : q <> [] -> count_true q = 0 -> tl q ++ [false] = q.
Proof.
  induction q as [|a q IH]; intros Hne Hc; [congruence|].
  rewrite count_true_cons in Hc. destruct a; [simpl in Hc; lia|]. simpl in Hc.
  simpl tl. destruct q as [|b q']; [reflexivity|].
  specialize (IH ltac:(congruence) Hc). simpl tl in IH.
  rewrite count_true_cons in Hc. destruct b; [simpl in Hc; lia|].
  simpl. f_equal. exact IH.
Qed.

Lemma lastn_length {A} n (l : list A) : n <= length l -> length (lastn n l) = n.
Proof. intros H. unfold lastn. rewrite skipn_length. lia. Qed.

Lemma lastn_0 {A} (l : list A) : lastn 0 l = [].
Proof. unfold lastn. rewrite Nat.sub_0_r. apply skipn_all. Qed.

Lemma lastn_all {A} n (l : list A) : length l <= n -> lastn n l = l.
Proof. intros H. unfold lastn. replace (length l - n) with 0 by lia. reflexivity. Qed.

Lemma tl_skipn {A} k (l : list A) : tl (skipn k l) = skipn (S k) l.
Proof.
  revert l; induction k as [|k IH]; intros l.
  - destruct l; reflexivity.
  - destruct l as [|a l]; [reflexivity|]. simpl skipn at 1. rewrite IH. reflexivity.
Qed.

Lemma lastn_snoc {A} n (l : list A) x :
  0 < n -> n <= length l -> lastn n (l ++ [x]) = tl (lastn n l) ++ [x].
Proof.
  intros Hn Hl. unfold lastn. rewrite app_length. simpl length.
  replace (length l + 1 - n) with (S (length l - n)) by lia.
  rewrite tl_skipn. rewrite skipn_app.
  replace (S (length l - n) - length l) with 0 by lia. reflexivity.
Qed.

Lemma lastn_app_long {A} n (p l : list A) : n <= length l -> lastn n (p ++ l) = lastn n l.
Proof.
  intros H. unfold lastn. rewrite app_length, skipn_app.
  replace (length p + length l - n - length p) with (length l - n) by lia.
  rewrite skipn_all2 by lia. reflexivity.
Qed.

Lemma count_true_skipn_repeat_false k n : count_true (skipn k (repeat false n)) = 0.
Proof.
  revert k; induction n as [|n IH]; intros k; destruct k; simpl; try reflexivity.
  - rewrite count_true_cons, count_true_repeat_false. reflexivity.
  - apply IH.
Qed.

Lemma count_lastn_pad n l :
  count_true (lastn n (repeat false n ++ l)) = count_true (lastn n l).
Proof.
  destruct (le_lt_dec n (length l)) as [H|H].
  - rewrite lastn_app_long by exact H. reflexivity.
  - rewrite (lastn_all n l) by lia. unfold lastn.
    rewrite app_length, repeat_length, skipn_app, repeat_length.
    replace (n + length l - n - n) with 0 by lia. simpl skipn.
    rewrite count_true_app, count_true_skipn_repeat_false. reflexivity.
Qed.

Lemma count_lastn_snoc_true_pos n l : 0 < n -> 1 <= count_true (lastn n (l ++ [true])).
Proof.
  intros Hn. unfold lastn. rewrite app_length. simpl length.
  rewrite skipn_app. rewrite count_true_app.
  replace (length l + 1 - n - length l) with 0 by lia. simpl skipn.
  rewrite (count_true_cons true []). simpl. lia.
Qed.

(* ---------- the ring as a queue ---------- *)
Definition view (w : win) : list bool :=
  skipn (S (cur w)) (buf w) ++ firstn (S (cur w)) (buf w).

Lemma view_length w : length (view w) = length (buf w).
Proof. unfold view. rewrite app_length, skipn_length, firstn_length. lia. Qed.

Lemma count_view w : count_true (view w) = count_true (buf w).
Proof.
  unfold view. rewrite count_true_app, Nat.add_comm, <- count_true_app, firstn_skipn. reflexivity.
Qed.

Lemma nth_split_at (l : list bool) c :
  c < length l -> l = firstn c l ++ nth c l false :: skipn (S c) l.
Proof.
  revert c; induction l as [|a l IH]; intros c Hc; simpl in Hc; [lia|].
  destruct c as [|c]; [reflexivity|]. simpl. f_equal. apply IH. lia.
Qed.

Lemma set_nth_length c x l : c < length l -> length (set_nth c x l) = length l.
Proof.
  intros H. unfold set_nth. rewrite app_length. cbn [length]. rewrite firstn_length, skipn_length. lia.
Qed.

Lemma set_nth_same c l : c < length l -> set_nth c (nth c l false) l = l.
Proof. intros H. unfold set_nth. symmetry. apply nth_split_at. exact H. Qed.

Lemma view_set_nth c x l :
  c < length l ->
  skipn (S c) (set_nth c x l) ++ firstn (S c) (set_nth c x l)
  = skipn (S c) l ++ firstn c l ++ [x].
Proof.
  intros H. unfold set_nth.
  assert (Hl : length (firstn c l) = c) by (rewrite firstn_length; lia).
  rewrite skipn_app, firstn_app, Hl.
  replace (S c - c) with 1 by lia.
  rewrite (skipn_all2 (n := S c) (firstn c l)) by lia.
  rewrite (firstn_all2 (n := S c) (firstn c l)) by lia.
  cbn [skipn firstn app]. reflexivity.
Qed.

(* the queue before the update, seen from the slot the cursor moves to *)
Lemma view_from_next w :
  0 < length (buf w) -> cur w < length (buf w) ->
  let c := (cur w + 1) mod length (buf w) in
  view w = (nth c (buf w) false :: skipn (S c) (buf w)) ++ firstn c (buf w).
Proof.
  intros Hn Hc c. unfold view. subst c.
  destruct (Nat.eq_dec (S (cur w)) (length (buf w))) as [E|E].
  - replace (cur w + 1) with (length (buf w)) by lia. rewrite Nat.mod_same by lia.
    rewrite skipn_all2 by lia. rewrite firstn_all2 by lia. simpl.
    rewrite app_nil_r. destruct (buf w) as [|a l]; [simpl in Hn; lia|]. reflexivity.
  - rewrite Nat.mod_small by lia. replace (cur w + 1) with (S (cur w)) by lia.
    rewrite (nth_split_at (buf w) (S (cur w))) at 1 by lia.
    assert (Hl : length (firstn (S (cur w)) (buf w)) = S (cur w)) by (rewrite firstn_length; lia).
    rewrite skipn_app, Hl. rewrite (skipn_all2 (n := S (cur w)) (firstn (S (cur w)) (buf w))) by lia.
    replace (S (cur w) - S (cur w)) with 0 by lia. reflexivity.
Qed.

Definition wf (w : win) : Prop :=
  0 < length (buf w) /\ cur w < length (buf w) /\ nacks w = count_true (view w).

Lemma put_abs w x :
  wf w ->
  wf (put w x) /\ view (put w x) = tl (view w) ++ [x]
  /\ length (buf (put w x)) = length (buf w) /\ thr (put w x) = thr w.
Proof.
  intros (Hn & Hc & Hk).
  pose proof (view_from_next w Hn Hc) as Hv. cbv zeta in Hv.
  set (c := (cur w + 1) mod length (buf w)) in *.
  assert (Hc' : c < length (buf w)) by (apply Nat.mod_upper_bound; lia).
  assert (Hbuf : view (put w x) = tl (view w) ++ [x]
                 /\ length (buf (put w x)) = length (buf w) /\ cur (put w x) = c
                 /\ thr (put w x) = thr w).
  { unfold put. fold c. destruct (Bool.eqb (nth c (buf w) false) x) eqn:E.
    - apply Bool.eqb_prop in E. unfold view at 1. simpl buf; simpl cur; simpl thr.
      rewrite <- (set_nth_same c (buf w) Hc') at 1 2. rewrite E.
      rewrite view_set_nth by exact Hc'. rewrite Hv. simpl tl.
      rewrite app_assoc. auto.
    - unfold view at 1. simpl buf; simpl cur; simpl thr.
      rewrite view_set_nth by exact Hc'. rewrite Hv. simpl tl.
      rewrite set_nth_length by exact Hc'. rewrite app_assoc. auto. }
  destruct Hbuf as (Hview & Hlen & Hcur & Hthr).
  split; [|auto].
  unfold wf. rewrite Hlen, Hcur. split; [exact Hn|]. split; [exact Hc'|].
  rewrite Hview, Hv.
  assert (Hnk : nacks (put w x)
                = if Bool.eqb (nth c (buf w) false) x then nacks w
                  else if x then nacks w + 1 else nacks w - 1).
  { unfold put. fold c. destruct (Bool.eqb (nth c (buf w) false) x); reflexivity. }
  rewrite Hnk, Hk, Hv.
  generalize (skipn (S c) (buf w)) (firstn c (buf w)) (nth c (buf w) false).
  intros T A y. cbn [tl app].
  rewrite !count_true_app, !count_true_cons, !count_true_app.
  change (count_true []) with 0.
  destruct y; destruct x; cbn [Bool.eqb]; lia.
Qed.

(* ---------- the refinement invariant ---------- *)
Definition Inv (size t : nat) (w : win) (s : sp) : Prop :=
  thr w = t /\
  if frozen s then 0 < length (buf w) /\ t < nacks w
  else length (buf w) = norm_size size t
       /\ (0 < norm_size size t -> wf w)
       /\ nacks w <= t
       /\ (0 < norm_size size t ->
           view w = lastn (norm_size size t) (repeat false (norm_size size t) ++ hist s)).

Lemma norm_size_0 size t : norm_size size t = 0 <-> size = 0.
Proof.
  unfold norm_size. destruct size; simpl; [tauto|]. destruct (t =? 0); simpl; split; intros; lia.
Qed.

Lemma Inv_init size t : Inv size t (new_win size t) init_sp.
Proof.
  unfold Inv, new_win, init_sp. simpl. split; [reflexivity|].
  rewrite repeat_length. split; [reflexivity|].
  assert (Hv : 0 < norm_size size t ->
               view (mkWin (repeat false (norm_size size t)) 0 t 0) = repeat false (norm_size size t)).
  { intros H. unfold view. simpl. destruct (norm_size size t) as [|n]; [lia|]. simpl.
    clear. induction n as [|n IH]; [reflexivity|]. simpl. f_equal. exact IH. }
  split; [|split; [lia|]].
  - intros H. unfold wf. simpl. rewrite repeat_length. split; [exact H|]. split; [exact H|].
    rewrite Hv by exact H. rewrite count_true_repeat_false. reflexivity.
  - intros H. rewrite Hv by exact H. rewrite app_nil_r. rewrite lastn_all; [reflexivity|].
    rewrite repeat_length. lia.
Qed.

(* what the spec decides, expressed on the queue *)
Lemma tolerated_queue size t h :
  0 < norm_size size t ->
  tolerated size t h
  = (count_true (lastn (norm_size size t) (repeat false (norm_size size t) ++ h ++ [true])) <=? t).
Proof.
  intros Hpos. unfold tolerated.
  assert (Hs : size <> 0) by (intros E; apply (norm_size_0 size t) in E; lia).
  destruct (size =? 0) eqn:E0; [apply Nat.eqb_eq in E0; lia|]. simpl orb.
  rewrite count_lastn_pad.
  unfold norm_size in *. destruct (0 <? size) eqn:E1; [|apply Nat.ltb_ge in E1; lia].
  destruct (t =? 0) eqn:E2; simpl andb in *; cbv iota in *; [|reflexivity].
  apply Nat.eqb_eq in E2. subst t.
  pose proof (count_lastn_snoc_true_pos size h ltac:(lia)).
  pose proof (count_lastn_snoc_true_pos 1 h ltac:(lia)).
  destruct (Nat.leb_spec (count_true (lastn size (h ++ [true]))) 0);
  destruct (Nat.leb_spec (count_true (lastn 1 (h ++ [true]))) 0); try reflexivity; lia.
Qed.

Lemma queue_snoc n h x :
  0 < n ->
  lastn n (repeat false n ++ h ++ [x]) = tl (lastn n (repeat false n ++ h)) ++ [x].
Proof.
  intros Hn. rewrite app_assoc. apply lastn_snoc; [exact Hn|].
  rewrite app_length, repeat_length. lia.
Qed.

(* one outcome, engine v1 *)
Lemma v1_step_refines size t w s x :
  Inv size t w s ->
  let (w', d) := v1_step w x in
  let (s', d') := spec_step size t s x in
  d = d' /\ Inv size t w' s'.
Proof.
  intros (Ht & HI). unfold v1_step, spec_step, nack1, ack1, store1.
  destruct (frozen s) eqn:Ef.
  - (* frozen: nothing changes, every nack refused *)
    destruct HI as (Hlen & Hk).
    assert (E1 : (length (buf w) =? 0) = false) by (apply Nat.eqb_neq; lia).
    assert (E2 : (thr w <? nacks w) = true) by (apply Nat.ltb_lt; lia).
    rewrite E1, E2. simpl orb. cbv iota.
    destruct x; simpl negb.
    + split; [apply Nat.leb_gt; lia|]. unfold Inv. rewrite Ef. auto.
    + split; [reflexivity|]. unfold Inv. rewrite Ef. auto.
  - destruct HI as (Hlen & Hwf & Hk & Hview).
    destruct (Nat.eq_dec (norm_size size t) 0) as [Z|NZ].
    + (* window disabled *)
      assert (E1 : (length (buf w) =? 0) = true) by (apply Nat.eqb_eq; lia).
      rewrite E1. simpl orb. cbv iota.
      assert (Hsz : size = 0) by (apply (norm_size_0 size t); exact Z).
      destruct x.
      * unfold tolerated. subst size. simpl orb. cbv iota.
        split; [apply Nat.leb_le; lia|]. unfold Inv. simpl frozen. cbv iota.
        repeat split; auto; lia.
      * split; [reflexivity|]. unfold Inv. simpl frozen. cbv iota. repeat split; auto; lia.
    + assert (Hpos : 0 < norm_size size t) by lia.
      specialize (Hwf Hpos). specialize (Hview Hpos).
      assert (E1 : (length (buf w) =? 0) = false) by (apply Nat.eqb_neq; lia).
      assert (E2 : (thr w <? nacks w) = false) by (apply Nat.ltb_ge; lia).
      rewrite E1, E2. simpl orb. cbv iota.
      destruct (put_abs w x Hwf) as (Hwf' & Hv' & Hl' & Ht').
      assert (Hq : view (put w x)
                   = lastn (norm_size size t) (repeat false (norm_size size t) ++ hist s ++ [x])).
      { rewrite Hv', Hview. symmetry. apply queue_snoc. exact Hpos. }
      destruct x.
      * rewrite (tolerated_queue size t (hist s) Hpos). rewrite <- Hq.
        destruct Hwf' as (_ & _ & Hk'). rewrite <- Hk'. rewrite Ht', Ht.
        destruct (Nat.leb_spec (nacks (put w true)) t) as [Hle|Hgt].
        -- split; [reflexivity|]. unfold Inv. simpl frozen. cbv iota. simpl hist.
           split; [congruence|]. split; [congruence|].
           split; [intros _; destruct (put_abs w true Hwf) as (W & _); exact W|].
           split; [exact Hle|]. intros _. exact Hq.
        -- split; [reflexivity|]. unfold Inv. simpl frozen. cbv iota.
           split; [congruence|]. split; lia.
      * split; [reflexivity|]. unfold Inv. simpl frozen. cbv iota. simpl hist.
        split; [congruence|]. split; [congruence|].
        split; [intros _; exact Hwf'|].
        split; [|intros _; exact Hq].
        (* an ack never raises the count *)
        destruct Hwf as (_ & _ & Hk0). destruct Hwf' as (_ & _ & Hk').
        rewrite Hk', Hv'. rewrite Hk0 in Hk.
        destruct (view w) as [|a q]; simpl tl.
        -- cbn. lia.
        -- rewrite count_true_app. change (count_true [false]) with 0.
           rewrite count_true_cons in Hk. lia.
Qed.

Theorem window_v1_refines_spec_from size t w s ops :
  Inv size t w s -> run_v1 w ops = run_spec size t s ops.
Proof.
  revert w s; induction ops as [|x ops IH]; intros w s HI; [reflexivity|].
  cbn [run_v1 run_spec].
  pose proof (v1_step_refines size t w s x HI) as H.
  destruct (v1_step w x) as [w' d]. destruct (spec_step size t s x) as [s' d'].
  destruct H as (Hd & HI'). subst d'. f_equal. apply IH. exact HI'.
Qed.

Theorem window_v1_refines_spec size t ops :
  run_v1 (new_win size t) ops = run_spec size t init_sp ops.
Proof. apply window_v1_refines_spec_from, Inv_init. Qed.

(* ---------- v2: a chunk behaves like that many single outcomes ---------- *)
Lemma run_spec_app size t s l1 l2 :
  run_spec size t s l1 ++ run_spec size t (fold_left (fun s x => fst (spec_step size t s x)) l1 s) l2
  = run_spec size t s (l1 ++ l2).
Proof.
  revert s; induction l1 as [|x l1 IH]; intros s; [reflexivity|].
  cbn [run_spec app fold_left]. destruct (spec_step size t s x) as [s' d] eqn:E. cbn [fst].
  rewrite <- app_comm_cons. f_equal. apply IH.
Qed.

Definition spec_after size t s l := fold_left (fun s x => fst (spec_step size t s x)) l s.

Lemma frozen_run size t s n x :
  frozen s = true ->
  run_spec size t s (repeat x n) = repeat (negb x) n /\ spec_after size t s (repeat x n) = s.
Proof.
  intros Hf. induction n as [|n [IH1 IH2]]; [split; reflexivity|].
  unfold spec_after in *. cbn [repeat run_spec fold_left]. unfold spec_step at 1 3. rewrite Hf.
  cbn [fst]. rewrite IH1, IH2. split; reflexivity.
Qed.

(* the counted loop of v2, started in an unfrozen state with a live window *)
Lemma loopN_refines size t x : forall n w s i,
  Inv size t w s -> frozen s = false -> 0 < norm_size size t ->
  let (w', r) := loopN w n x i in
  let k := match r with Some j => j - i | None => n end in
  run_spec size t s (repeat x n) = repeat true k ++ repeat false (n - k)
  /\ Inv size t w' (spec_after size t s (repeat x n))
  /\ match r with Some j => i <= j /\ j - i < n /\ x = true | None => True end.
Proof.
  induction n as [|n IH]; intros w s i HI Hf Hpos.
  - cbn [loopN repeat run_spec]. unfold spec_after. cbn. auto.
  - cbn [loopN repeat run_spec].
    pose proof (v1_step_refines size t w s x HI) as Hstep.
    unfold v1_step, nack1, ack1, store1 in Hstep.
    destruct HI as (Ht & HI). rewrite Hf in HI. destruct HI as (Hlen & Hwf & Hk & Hview).
    assert (E1 : (length (buf w) =? 0) = false) by (apply Nat.eqb_neq; lia).
    assert (E2 : (thr w <? nacks w) = false) by (apply Nat.ltb_ge; lia).
    rewrite E1, E2 in Hstep. simpl orb in Hstep. cbv iota in Hstep.
    unfold spec_after. cbn [fold_left]. fold (spec_after size t).
    destruct (spec_step size t s x) as [s' d'] eqn:Es.
    destruct x.
    + destruct Hstep as (Hd & HI'). cbn [fst]. simpl andb.
      destruct (thr (put w true) <? nacks (put w true)) eqn:Ex.
      * (* refused at this index *)
        assert (d' = false).
        { rewrite <- Hd. apply Nat.leb_gt. apply Nat.ltb_lt in Ex. exact Ex. }
        rewrite H in *. replace (i - i) with 0 by lia. cbn [repeat app]. rewrite Nat.sub_0_r.
        assert (Hfs : frozen s' = true).
        { unfold spec_step in Es. rewrite Hf in Es.
          destruct (tolerated size t (hist s)); inversion Es; subst; try reflexivity; try discriminate. }
        destruct (frozen_run size t s' n true Hfs) as (R1 & R2).
        unfold spec_after in R2. rewrite R1. simpl negb.
        split; [reflexivity|]. split; [|split; [lia|split; [lia|reflexivity]]].
        unfold spec_after. rewrite R2. exact HI'.
      * assert (d' = true).
        { rewrite <- Hd. apply Nat.leb_le. apply Nat.ltb_ge in Ex. exact Ex. }
        rewrite H in *.
        assert (Hfs : frozen s' = false).
        { unfold spec_step in Es. rewrite Hf in Es.
          destruct (tolerated size t (hist s)); inversion Es; subst; try reflexivity; try discriminate. }
        specialize (IH (put w true) s' (S i) HI' Hfs Hpos).
        destruct (loopN (put w true) n true (S i)) as [w' r].
        destruct IH as (R1 & R2 & R3). rewrite R1.
        destruct r as [j|].
        -- destruct R3 as (Hij & Hjn & _).
           replace (j - i) with (S (j - S i)) by lia. cbn [repeat app].
           replace (S n - S (j - S i)) with (n - (j - S i)) by lia.
           split; [reflexivity|]. split; [exact R2|]. split; [lia|split; [lia|reflexivity]].
        -- cbn [repeat app]. replace (S n - S n) with (n - n) by lia.
           split; [reflexivity|]. split; [exact R2|exact I].
    + destruct Hstep as (Hd & HI'). cbn [fst]. simpl andb. cbv iota.
      assert (H : d' = true) by (rewrite <- Hd; reflexivity). rewrite H in *.
      assert (Hfs : frozen s' = false).
      { unfold spec_step in Es. rewrite Hf in Es. inversion Es; subst. reflexivity. }
      specialize (IH (put w false) s' (S i) HI' Hfs Hpos).
      destruct (loopN (put w false) n false (S i)) as [w' r].
      destruct IH as (R1 & R2 & R3). rewrite R1.
      destruct r as [j|]; [destruct R3 as (_ & _ & Habs); discriminate|].
      cbn [repeat app]. replace (S n - S n) with (n - n) by lia.
      split; [reflexivity|]. split; [exact R2|exact I].
Qed.

(* acks into a window with no nack in it change nothing observable (the v2 shortcut) *)
Lemma ack_shortcut size t w s n :
  Inv size t w s -> frozen s = false -> nacks w = 0 ->
  run_spec size t s (repeat false n) = repeat true n
  /\ Inv size t w (spec_after size t s (repeat false n)).
Proof.
  revert s; induction n as [|n IH]; intros s HI Hf Hz.
  - split; [reflexivity|exact HI].
  - cbn [repeat run_spec]. unfold spec_after. cbn [fold_left]. fold (spec_after size t).
    unfold spec_step. rewrite Hf. cbn [fst].
    set (s' := mkSp (hist s ++ [false]) false).
    assert (HI' : Inv size t w s').
    { destruct HI as (Ht & HI). rewrite Hf in HI. destruct HI as (Hlen & Hwf & Hk & Hview).
      unfold Inv. simpl frozen. cbv iota. simpl hist.
      split; [exact Ht|]. split; [exact Hlen|]. split; [exact Hwf|]. split; [exact Hk|].
      intros Hpos. specialize (Hwf Hpos). specialize (Hview Hpos).
      rewrite queue_snoc by exact Hpos. rewrite <- Hview.
      symmetry. apply count0_tl_snoc.
      - intros E. pose proof (view_length w) as L. rewrite E in L. simpl in L.
        destruct Hwf as (Hn & _). lia.
      - destruct Hwf as (_ & _ & Hc). lia. }
    destruct (IH s' HI' eq_refl Hz) as (R1 & R2). rewrite R1. split; [reflexivity|exact R2].
Qed.

Lemma v2_step_refines size t w s x n :
  Inv size t w s ->
  let (w', ds) := v2_step w (x, n) in
  ds = run_spec size t s (repeat x n) /\ Inv size t w' (spec_after size t s (repeat x n)).
Proof.
  intros HI. unfold v2_step.
  destruct (frozen s) eqn:Hf.
  - (* frozen *)
    destruct (frozen_run size t s n x Hf) as (R1 & R2). rewrite R1, R2.
    pose proof HI as HI0.
    destruct HI as (Ht & HI). rewrite Hf in HI. destruct HI as (Hlen & Hk).
    assert (E1 : (length (buf w) =? 0) = false) by (apply Nat.eqb_neq; lia).
    assert (E2 : (thr w <? nacks w) = true) by (apply Nat.ltb_lt; lia).
    destruct x.
    + unfold nackN, storeN. rewrite E1, E2. cbn [repeat app negb]. rewrite Nat.sub_0_r.
      split; [reflexivity|exact HI0].
    + unfold ackN, storeN. rewrite E1, E2.
      destruct (nacks w =? 0); cbn [fst negb]; split; try reflexivity; exact HI0.
  - destruct (Nat.eq_dec (norm_size size t) 0) as [Z|NZ].
    + (* disabled window: everything tolerated, state untouched *)
      pose proof HI as HI0.
      destruct HI as (Ht & HI). rewrite Hf in HI. destruct HI as (Hlen & Hwf & Hk & Hview).
      assert (E1 : (length (buf w) =? 0) = true) by (apply Nat.eqb_eq; lia).
      assert (Hgen : forall s0, frozen s0 = false -> Inv size t w s0 ->
                run_spec size t s0 (repeat x n) = repeat true n
                /\ Inv size t w (spec_after size t s0 (repeat x n))).
      { clear - Z E1. induction n as [|n IH]; intros s0 Hf0 HI0; [split; [reflexivity|exact HI0]|].
        cbn [repeat run_spec]. unfold spec_after. cbn [fold_left]. fold (spec_after size t).
        pose proof (v1_step_refines size t w s0 x HI0) as Hs.
        unfold v1_step, nack1, ack1, store1 in Hs. rewrite E1 in Hs. simpl orb in Hs. cbv iota in Hs.
        destruct (spec_step size t s0 x) as [s1 d1] eqn:Es. cbn [fst].
        assert (Hd : d1 = true /\ Inv size t w s1 /\ frozen s1 = false).
        { unfold spec_step in Es. rewrite Hf0 in Es.
          assert (Htol : tolerated size t (hist s0) = true).
          { unfold tolerated. apply (norm_size_0 size t) in Z. subst size. reflexivity. }
          destruct x; [rewrite Htol in Es|]; inversion Es; subst; destruct Hs as (_ & Hs);
            (split; [reflexivity|split; [exact Hs|reflexivity]]). }
        destruct Hd as (-> & HI1 & Hf1). destruct (IH s1 Hf1 HI1) as (R1 & R2).
        rewrite R1. split; [reflexivity|exact R2]. }
      destruct (Hgen s Hf HI0) as (R1 & R2). rewrite R1.
      destruct x.
      * unfold nackN, storeN. rewrite E1. rewrite Nat.sub_diag. cbn [repeat]. rewrite app_nil_r.
        split; [reflexivity|exact R2].
      * unfold ackN, storeN. rewrite E1. cbn [fst].
        destruct (nacks w =? 0); split; try reflexivity; exact R2.
    + assert (Hpos : 0 < norm_size size t) by lia.
      pose proof (loopN_refines size t x n w s 0 HI Hf Hpos) as HL.
      pose proof HI as HI0.
      destruct HI as (Ht & HI). rewrite Hf in HI. destruct HI as (Hlen & Hwf & Hk & Hview).
      assert (E1 : (length (buf w) =? 0) = false) by (apply Nat.eqb_neq; lia).
      assert (E2 : (thr w <? nacks w) = false) by (apply Nat.ltb_ge; lia).
      destruct x.
      * unfold nackN, storeN. rewrite E1, E2.
        destruct (loopN w n true 0) as [w' r]. destruct HL as (R1 & R2 & R3).
        destruct r as [j|]; rewrite R1.
        -- rewrite Nat.sub_0_r. split; [reflexivity|exact R2].
        -- split; [reflexivity|exact R2].
      * unfold ackN. destruct (nacks w =? 0) eqn:Ez.
        -- apply Nat.eqb_eq in Ez. destruct (ack_shortcut size t w s n HI0 Hf Ez) as (R1 & R2).
           rewrite R1. split; [reflexivity|exact R2].
        -- unfold storeN. rewrite E1, E2.
           destruct (loopN w n false 0) as [w' r]. destruct HL as (R1 & R2 & R3).
           destruct r as [j|]; [destruct R3 as (_ & _ & Habs); discriminate|].
           cbn [fst]. rewrite R1. rewrite Nat.sub_diag. cbn [repeat]. rewrite app_nil_r.
           split; [reflexivity|exact R2].
Qed.

Lemma spec_after_app size t s l1 l2 :
  spec_after size t s (l1 ++ l2) = spec_after size t (spec_after size t s l1) l2.
Proof. unfold spec_after. apply fold_left_app. Qed.

Theorem window_v2_refines_spec_from size t cs : forall w s,
  Inv size t w s -> run_v2 w cs = run_spec size t s (expand cs).
Proof.
  induction cs as [|[x n] cs IH]; intros w s HI; [reflexivity|].
  cbn [run_v2 expand flat_map fst snd].
  pose proof (v2_step_refines size t w s x n HI) as H.
  destruct (v2_step w (x, n)) as [w' ds]. destruct H as (Hd & HI').
  rewrite <- run_spec_app. fold (spec_after size t s (repeat x n)).
  rewrite Hd. f_equal. apply IH. exact HI'.
Qed.

Theorem window_v2_refines_spec size t cs :
  run_v2 (new_win size t) cs = run_spec size t init_sp (expand cs).
Proof. apply window_v2_refines_spec_from, Inv_init. Qed.

(* identical outcome sequence => identical decisions in both engines, whatever the batching *)
Theorem window_parity size t cs :
  run_v2 (new_win size t) cs = run_v1 (new_win size t) (expand cs).
Proof. rewrite window_v2_refines_spec, window_v1_refines_spec. reflexivity. Qed.

(* ---------- corollaries in the words of the property ---------- *)
Theorem size0_unlimited t ops : run_spec 0 t init_sp ops = map (fun _ => true) ops.
Proof.
  assert (G : forall s, frozen s = false -> run_spec 0 t s ops = map (fun _ => true) ops).
  { induction ops as [|x ops IH]; intros s Hf; [reflexivity|].
    cbn [run_spec map]. unfold spec_step. rewrite Hf. unfold tolerated. simpl orb. cbv iota.
    destruct x; cbn; f_equal; apply IH; reflexivity. }
  apply G. reflexivity.
Qed.

Theorem thr0_tolerates_none size h : 0 < size -> tolerated size 0 h = false.
Proof.
  intros H. unfold tolerated. destruct (size =? 0) eqn:E; [apply Nat.eqb_eq in E; lia|].
  simpl orb. apply Nat.leb_gt. pose proof (count_lastn_snoc_true_pos size h H). lia.
Qed.

Theorem frozen_forever size t s ops :
  frozen s = true -> run_spec size t s ops = map negb ops.
Proof.
  revert s; induction ops as [|x ops IH]; intros s Hf; [reflexivity|].
  cbn [run_spec map]. unfold spec_step. rewrite Hf. f_equal. apply IH. exact Hf.
Qed.

(* a refusal freezes: after the first refused rejection nothing is tolerated any more *)
Theorem refusal_is_final size t s :
  frozen s = false -> tolerated size t (hist s) = false ->
  forall ops, run_spec size t s (true :: ops) = false :: map negb ops.
Proof.
  intros Hf Ht ops. cbn [run_spec]. unfold spec_step. rewrite Hf, Ht. f_equal.
  apply frozen_forever. reflexivity.
Qed.
