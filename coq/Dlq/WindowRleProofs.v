(* The run-length-encoded timestamp-queue form of the window rule (WindowRle.v) takes exactly
   the decisions of the sliding-window spec [run_spec] of Window.v: for every size, threshold
   and run-length-encoded history.  With window_v1_refines_spec / window_v2_refines_spec this
   makes [run_rle] an executable oracle for both engines at any scale. *)
From Coq Require Import List Bool Arith NArith Lia ZifyBool ZifyNat ZifyN.
From Verif Require Import Dlq.Window Dlq.WindowProofs Dlq.WindowRle.
Import ListNotations.

(* ---------- positions of the rejections in a history ---------- *)
Fixpoint pos_true (i : N) (h : list bool) : list N :=
  match h with
  | [] => []
  | b :: r => (if b then [i] else []) ++ pos_true (i + 1) r
  end.

Lemma pos_true_app i h1 h2 :
  pos_true i (h1 ++ h2) = pos_true i h1 ++ pos_true (i + N.of_nat (length h1)) h2.
Proof.
  revert i; induction h1 as [|b h1 IH]; intros i.
  - cbn [app pos_true length]. f_equal. lia.
  - cbn [app pos_true length]. rewrite IH, <- app_assoc. do 3 f_equal. lia.
Qed.

Lemma pos_true_repeat_false i n : pos_true i (repeat false n) = [].
Proof. revert i; induction n as [|n IH]; intros i; [reflexivity|]. cbn [repeat pos_true app]. apply IH. Qed.

Lemma pos_true_length i h : length (pos_true i h) = count_true h.
Proof.
  revert i; induction h as [|b h IH]; intros i; [reflexivity|].
  cbn [pos_true]. rewrite app_length, IH, count_true_cons. destruct b; reflexivity.
Qed.

(* ---------- dropwhile ---------- *)
Fixpoint dropwhile (P : N -> bool) (l : list N) : list N :=
  match l with
  | [] => []
  | p :: r => if P p then dropwhile P r else l
  end.

Lemma dropwhile_ext P Q l : (forall p, P p = Q p) -> dropwhile P l = dropwhile Q l.
Proof. intros H. induction l as [|p l IH]; [reflexivity|]. cbn [dropwhile]. rewrite H, IH. reflexivity. Qed.

Lemma dropwhile_app P l1 l2 :
  dropwhile P (l1 ++ l2)
  = match dropwhile P l1 with [] => dropwhile P l2 | f => f ++ l2 end.
Proof.
  induction l1 as [|p l1 IH]; [cbn; reflexivity|].
  cbn [app dropwhile]. destruct (P p) eqn:E; [exact IH|reflexivity].
Qed.

Lemma dropwhile_snoc_keep P l x : P x = false -> dropwhile P (l ++ [x]) = dropwhile P l ++ [x].
Proof.
  intros Hx. rewrite dropwhile_app. cbn [dropwhile]. rewrite Hx.
  destruct (dropwhile P l); reflexivity.
Qed.

Lemma dropwhile_twice P Q l :
  (forall p, P p = true -> Q p = true) -> dropwhile Q (dropwhile P l) = dropwhile Q l.
Proof.
  intros H. induction l as [|p l IH]; [reflexivity|].
  cbn [dropwhile]. destruct (P p) eqn:E.
  - rewrite IH, (H p E). reflexivity.
  - reflexivity.
Qed.

(* the rejections among the last part of a history = the positions not below the cut *)
Lemma count_skipn_pos h : forall i c,
  length (dropwhile (fun p => (p <? c)%N) (pos_true i h)) = count_true (skipn (N.to_nat (c - i)) h).
Proof.
  induction h as [|b h IH]; intros i c.
  - cbn [pos_true dropwhile length]. rewrite skipn_nil. reflexivity.
  - destruct (N.le_gt_cases c i) as [Hle|Hgt].
    + replace (N.to_nat (c - i)) with 0 by lia. cbn [skipn].
      rewrite count_true_cons. cbn [pos_true]. destruct b; cbn [app dropwhile].
      * replace (i <? c)%N with false by lia. cbn [length]. rewrite pos_true_length. reflexivity.
      * rewrite IH. replace (N.to_nat (c - (i + 1))) with 0 by lia. reflexivity.
    + replace (N.to_nat (c - i)) with (S (N.to_nat (c - (i + 1)))) by lia. cbn [skipn].
      cbn [pos_true]. destruct b; cbn [app dropwhile].
      * replace (i <? c)%N with true by lia. apply IH.
      * apply IH.
Qed.

(* the spec's count, on the positions: the rejection being decided plus the earlier ones that
   are still inside the window *)
Lemma count_window size h :
  (0 < size)%N ->
  count_true (lastn (N.to_nat size) (h ++ [true]))
  = S (length (dropwhile (old size (N.of_nat (length h))) (pos_true 0 h))).
Proof.
  intros Hs. unfold lastn. rewrite app_length. cbn [length].
  set (nw := N.of_nat (length h)).
  replace (length h + 1 - N.to_nat size) with (N.to_nat ((nw + 1 - size) - 0)) by lia.
  rewrite <- count_skipn_pos.
  rewrite pos_true_app. cbn [pos_true app]. replace (0 + N.of_nat (length h))%N with nw by lia.
  rewrite dropwhile_snoc_keep by lia.
  rewrite app_length. cbn [length].
  rewrite (dropwhile_ext (old size nw) (fun p => (p <? nw + 1 - size)%N)); [lia|].
  intros p. unfold old. lia.
Qed.

(* ---------- the queue ---------- *)
Lemma drop_old_spec size nw l : forall e,
  drop_old size nw l (N.of_nat (length l) + e)
  = (dropwhile (old size nw) l, (N.of_nat (length (dropwhile (old size nw) l)) + e)%N).
Proof.
  induction l as [|p l IH]; intros e; [reflexivity|].
  cbn [drop_old dropwhile]. destruct (old size nw p) eqn:E; [|reflexivity].
  replace (N.pred (N.of_nat (length (p :: l)) + e)) with (N.of_nat (length l) + e)%N
    by (cbn [length]; lia).
  apply IH.
Qed.

Lemma evict_spec size s :
  qn s = N.of_nat (length (qlist s)) ->
  let s' := evict size s in
  qlist s' = dropwhile (old size (now s)) (qlist s) /\
  qn s' = N.of_nat (length (qlist s')) /\ now s' = now s /\ qfrozen s' = qfrozen s.
Proof.
  intros Hn. unfold qlist in *. rewrite app_length in Hn.
  unfold evict. rewrite <- rev_alt, Hn, Nat2N.inj_add, drop_old_spec.
  rewrite dropwhile_app.
  destruct (dropwhile (old size (now s)) (qf s)) as [|p f] eqn:Ef.
  - cbn [length]. replace (N.of_nat 0 + N.of_nat (length (rev (qb s))))%N
      with (N.of_nat (length (rev (qb s))) + 0)%N by lia.
    rewrite drop_old_spec. cbn [qf qb qn now qfrozen rev app]. rewrite app_nil_r.
    repeat split. lia.
  - cbn [qf qb qn now qfrozen]. repeat split. rewrite app_length. lia.
Qed.

(* ---------- the abstraction ---------- *)
Definition Rel (size : N) (s : qst) (a : sp) : Prop :=
  qfrozen s = frozen a /\
  now s = N.of_nat (length (hist a)) /\
  qn s = N.of_nat (length (qlist s)) /\
  (size <> 0%N ->
   exists m, (m <= now s)%N /\ qlist s = dropwhile (old size m) (pos_true 0 (hist a))).

Lemma Rel_init size : Rel size q0 init_sp.
Proof.
  repeat split. intros _. exists 0%N. split; [cbn; lia|reflexivity].
Qed.

(* one rejection *)
Lemma nack_refines size t s a :
  Rel size s a ->
  let (s', d) := nack_q size t s in
  let (a', d') := spec_step (N.to_nat size) (N.to_nat t) a true in
  d = d' /\ Rel size s' a' /\
  (now s' = if d then now s + 1 else now s)%N /\ (d = false -> qfrozen s' = true).
Proof.
  intros (Hf & Hnow & Hn & Hq). unfold nack_q, spec_step. rewrite <- Hf.
  destruct (qfrozen s) eqn:Efz.
  { repeat split; auto; try congruence. }
  unfold tolerated.
  destruct (size =? 0)%N eqn:E0.
  { apply N.eqb_eq in E0. subst size. cbn [N.to_nat Nat.eqb orb].
    repeat split; cbn [qfrozen frozen now hist qn qlist qf qb rev app length]; try congruence.
    all: try (rewrite app_length; cbn [length]; lia). }
  apply N.eqb_neq in E0.
  replace (N.to_nat size =? 0) with false by lia. cbn [orb].
  destruct (Hq E0) as (m & Hm & Hql).
  pose proof (evict_spec size s Hn) as (Hel & Hen & Henow & Hefz).
  set (s1 := evict size s) in *.
  assert (Hdrop : qlist s1 = dropwhile (old size (now s)) (pos_true 0 (hist a))).
  { rewrite Hel, Hql. apply dropwhile_twice. intros p. unfold old. lia. }
  rewrite count_window by lia. rewrite <- Hnow, <- Hdrop.
  destruct (qn s1 + 1 <=? t)%N eqn:Et.
  - replace (S (length (qlist s1)) <=? N.to_nat t) with true by lia.
    repeat split; cbn [qfrozen frozen now hist qn qlist qf qb rev app length]; try congruence.
    + rewrite app_length. cbn [length]. lia.
    + rewrite app_assoc, app_length. cbn [length]. fold (qlist s1). lia.
    + intros _. exists (now s). split; [lia|].
      rewrite pos_true_app. cbn [pos_true app]. rewrite <- Hnow, N.add_0_l.
      rewrite dropwhile_snoc_keep by (unfold old; lia).
      rewrite <- Hdrop, Henow. unfold qlist. rewrite app_assoc. reflexivity.
  - replace (S (length (qlist s1)) <=? N.to_nat t) with false by lia.
    repeat split; unfold qlist; cbn [qfrozen frozen now hist qn qf qb]; try congruence.
    + exact Hen.
    + intros _. exists (now s). split; [lia|]. exact Hdrop.
Qed.

(* a run of rejections: the tolerated ones are a prefix, as many as the clock advanced *)
Lemma nacks_refines size t n : forall s a,
  Rel size s a ->
  let s' := nacks_q size t s n in
  exists a', Rel size s' a' /\
    (now s <= now s')%N /\ (now s' <= now s + n)%N /\ (qfrozen s = true -> s' = s) /\
    forall rest,
      run_spec (N.to_nat size) (N.to_nat t) a (repeat true (N.to_nat n) ++ rest)
      = repeat true (N.to_nat (now s' - now s))
        ++ repeat false (N.to_nat (n - (now s' - now s)))
        ++ run_spec (N.to_nat size) (N.to_nat t) a' rest.
Proof.
  unfold nacks_q. induction n as [|n IH] using N.peano_ind; intros s a HR.
  - cbn [N.iter]. exists a. split; [exact HR|]. split; [lia|]. split; [lia|]. split; [reflexivity|].
    intros rest. replace (N.to_nat (now s - now s)) with 0 by lia. reflexivity.
  - rewrite N.iter_succ_r.
    pose proof (nack_refines size t s a HR) as Hstep.
    destruct (nack_q size t s) as [s1 d] eqn:Eq.
    destruct (spec_step (N.to_nat size) (N.to_nat t) a true) as [a1 d'] eqn:Es.
    destruct Hstep as (<- & HR1 & Hnow1 & Hfz1). cbn [fst].
    destruct (IH s1 a1 HR1) as (a' & HR' & Hlo & Hhi & Hfz & Hrun).
    set (s' := N.iter n (fun s0 => fst (nack_q size t s0)) s1) in *.
    exists a'. split; [exact HR'|]. split; [destruct d; lia|]. split; [destruct d; lia|]. split.
    + intros Hf. unfold nack_q in Eq. rewrite Hf in Eq. inversion Eq; subst s1 d.
      apply Hfz. exact Hf.
    + intros rest. rewrite N2Nat.inj_succ. cbn [repeat app run_spec]. rewrite Es, Hrun.
      destruct d.
      * replace (N.to_nat (now s' - now s)) with (S (N.to_nat (now s' - now s1))) by lia.
        cbn [repeat app]. do 4 f_equal. lia.
      * rewrite (Hfz (Hfz1 eq_refl)) in *.
        replace (N.to_nat (now s1 - now s)) with 0 by lia.
        replace (N.to_nat (now s1 - now s1)) with 0 by lia.
        replace (N.to_nat (N.succ n - (now s1 - now s))) with (S (N.to_nat (n - (now s1 - now s1)))) by lia.
        reflexivity.
Qed.

(* a run of acknowledgments *)
Lemma acks_refines size t n : forall s a,
  Rel size s a ->
  exists a', Rel size (acks_q s (N.of_nat n)) a' /\
    forall rest,
      run_spec (N.to_nat size) (N.to_nat t) a (repeat false n ++ rest)
      = repeat true n ++ run_spec (N.to_nat size) (N.to_nat t) a' rest.
Proof.
  induction n as [|n IH]; intros s a HR.
  - exists a. split; [|reflexivity]. destruct HR as (Hf & Hnow & Hn & Hq).
    unfold acks_q. destruct (qfrozen s) eqn:E; [repeat split; auto; congruence|].
    repeat split; cbn [qfrozen now qn qlist qf qb]; auto; try lia.
    intros Hs. destruct (Hq Hs) as (m & Hm & Hql). exists m. split; [lia|exact Hql].
  - destruct HR as (Hf & Hnow & Hn & Hq).
    destruct (qfrozen s) eqn:Efz.
    + (* frozen: nothing moves *)
      destruct (IH s a) as (a' & HR' & Hrun); [repeat split; auto; congruence|].
      exists a. split.
      * unfold acks_q. rewrite Efz. repeat split; auto; congruence.
      * intros rest. cbn [repeat app run_spec]. unfold spec_step at 1. rewrite <- Hf. cbn [negb].
        f_equal.
        pose proof (frozen_run (N.to_nat size) (N.to_nat t) a n false ltac:(congruence)) as [F1 F2].
        rewrite <- run_spec_app. fold (spec_after (N.to_nat size) (N.to_nat t) a (repeat false n)).
        rewrite F1, F2. reflexivity.
    + set (s1 := mkQ (qf s) (qb s) (qn s) (now s + 1) false).
      set (a1 := mkSp (hist a ++ [false]) false).
      assert (HR1 : Rel size s1 a1).
      { unfold s1, a1. repeat split; unfold qlist; cbn [qfrozen frozen now hist qn qf qb]; auto.
        - rewrite app_length. cbn [length]. lia.
        - intros Hs. destruct (Hq Hs) as (m & Hm & Hql). exists m. split; [lia|].
          rewrite pos_true_app. cbn [pos_true app]. rewrite app_nil_r. exact Hql. }
      destruct (IH s1 a1 HR1) as (a' & HR' & Hrun).
      exists a'. split.
      * unfold acks_q in *. rewrite Efz. cbn [qfrozen qf qb qn now] in HR'.
        replace (now s + N.of_nat (S n))%N with (now s + 1 + N.of_nat n)%N by lia. exact HR'.
      * intros rest. cbn [repeat app run_spec]. unfold spec_step at 1. rewrite <- Hf.
        fold a1. rewrite Hrun. reflexivity.
Qed.

Theorem window_rle_refines_spec_from size t cs : forall s a,
  Rel size s a ->
  expandN (run_rle size t s cs) = run_spec (N.to_nat size) (N.to_nat t) a (expandN cs).
Proof.
  induction cs as [|[x n] cs IH]; intros s a HR; [reflexivity|].
  cbn [run_rle rle_step]. destruct x.
  - pose proof (nacks_refines size t n s a HR) as (a' & HR' & Hlo & Hhi & _ & Hrun).
    unfold expandN in *. cbn [flat_map fst snd app]. rewrite Hrun.
    do 2 f_equal. apply IH. exact HR'.
  - pose proof (acks_refines size t (N.to_nat n) s a HR) as (a' & HR' & Hrun).
    rewrite N2Nat.id in HR'.
    unfold expandN in *. cbn [flat_map fst snd app]. rewrite Hrun. f_equal.
    apply IH. exact HR'.
Qed.

(* every size, every threshold, every run-length-encoded history *)
Theorem window_rle_refines_spec size t cs :
  expandN (run_rle size t q0 cs) = run_spec (N.to_nat size) (N.to_nat t) init_sp (expandN cs).
Proof. apply window_rle_refines_spec_from, Rel_init. Qed.

(* ... hence it is what both engine models decide, outcome by outcome (v1) and for the same
   history handed over in counted batches (v2) *)
Theorem window_rle_is_v1 size t cs :
  run_v1 (new_win (N.to_nat size) (N.to_nat t)) (expandN cs) = expandN (run_rle size t q0 cs).
Proof. rewrite window_v1_refines_spec, window_rle_refines_spec. reflexivity. Qed.

Lemma expand_chunks_nat cs : expand (chunks_nat cs) = expandN cs.
Proof.
  unfold expand, expandN, chunks_nat. induction cs as [|c cs IH]; [reflexivity|].
  cbn [map flat_map fst snd]. rewrite IH. reflexivity.
Qed.

Theorem window_rle_is_v2 size t cs :
  run_v2 (new_win (N.to_nat size) (N.to_nat t)) (chunks_nat cs) = expandN (run_rle size t q0 cs).
Proof. rewrite window_v2_refines_spec, expand_chunks_nat, window_rle_refines_spec. reflexivity. Qed.

(* ---------- comparing run-length encodings ---------- *)
Lemma repeat_add {A} (x : A) n m : repeat x (n + m) = repeat x n ++ repeat x m.
Proof. induction n as [|n IH]; [reflexivity|]. cbn [Nat.add repeat app]. rewrite IH. reflexivity. Qed.

Lemma rle_norm_expand cs : expandN (rle_norm cs) = expandN cs.
Proof.
  induction cs as [|[x n] cs IH]; [reflexivity|].
  cbn [rle_norm]. destruct (n =? 0)%N eqn:E0.
  - apply N.eqb_eq in E0. subst n. rewrite IH. reflexivity.
  - unfold expandN in *. cbn [flat_map fst snd]. rewrite <- IH.
    destruct (rle_norm cs) as [|[y m] r']; [reflexivity|].
    destruct (Bool.eqb x y) eqn:Exy; [|reflexivity].
    apply eqb_prop in Exy. subst y. cbn [flat_map fst snd].
    rewrite N2Nat.inj_add, repeat_add, app_assoc. reflexivity.
Qed.

Lemma rle_eqb_eq l1 : forall l2, rle_eqb l1 l2 = true -> l1 = l2.
Proof.
  induction l1 as [|[x n] l1 IH]; intros [|[y m] l2] H; cbn [rle_eqb] in H; try discriminate; [reflexivity|].
  apply andb_true_iff in H. destruct H as [H1 H2]. unfold run_eqb in H1. cbn [fst snd] in H1.
  apply andb_true_iff in H1. destruct H1 as [Hx Hn].
  apply eqb_prop in Hx. apply N.eqb_eq in Hn. subst. f_equal. apply IH. exact H2.
Qed.

(* soundness of the comparison used by [chk]: "same" really means the same decisions *)
Theorem rle_same_sound l1 l2 : rle_same l1 l2 = true -> expandN l1 = expandN l2.
Proof.
  unfold rle_same. intros H. apply rle_eqb_eq in H.
  rewrite <- (rle_norm_expand l1), <- (rle_norm_expand l2), H. reflexivity.
Qed.

(* completeness of the comparison: encodings of the same decisions are always found "same"
   (the checker cannot raise an alarm because of the encoding) *)
Fixpoint canon (l : list (bool * N)) : Prop :=
  match l with
  | [] => True
  | (x, n) :: r =>
      n <> 0%N /\ match r with [] => True | (y, _) :: _ => x <> y end /\ canon r
  end.

Lemma rle_norm_canon l : canon (rle_norm l).
Proof.
  induction l as [|[x n] l IH]; [exact I|].
  cbn [rle_norm]. destruct (n =? 0)%N eqn:E0; [exact IH|]. apply N.eqb_neq in E0.
  destruct (rle_norm l) as [|[y m] r'] eqn:El.
  - cbn. auto.
  - destruct IH as (Hm & Hh & Hr). destruct (Bool.eqb x y) eqn:Exy.
    + apply eqb_prop in Exy. subst y. cbn [canon]. repeat split; [lia|exact Hh|exact Hr].
    + apply eqb_false_iff in Exy. cbn [canon]. repeat split; auto.
Qed.

Lemma expandN_cons x n r : expandN ((x, n) :: r) = repeat x (N.to_nat n) ++ expandN r.
Proof. reflexivity. Qed.

(* a canonical encoding is determined by the list it denotes *)
Lemma repeat_app_split (x : bool) : forall n m A B,
  (match A with [] => True | a :: _ => a <> x end) ->
  (match B with [] => True | b :: _ => b <> x end) ->
  repeat x n ++ A = repeat x m ++ B -> n = m /\ A = B.
Proof.
  induction n as [|n IH]; intros [|m] A B HA HB E; cbn [repeat app] in E.
  - auto.
  - subst A. cbn in HA. congruence.
  - subst B. cbn in HB. congruence.
  - inversion E as [E']. destruct (IH m A B HA HB E') as [-> ->]. auto.
Qed.

Lemma canon_head l x :
  canon l -> (match l with [] => True | (y, _) :: _ => x <> y end) ->
  match expandN l with [] => True | a :: _ => a <> x end.
Proof.
  destruct l as [|[y m] r]; [intros; exact I|].
  intros (Hm & _ & _) Hxy. rewrite expandN_cons.
  destruct (N.to_nat m) eqn:Em; [lia|]. cbn [repeat app]. congruence.
Qed.

Lemma canon_unique l1 : forall l2,
  canon l1 -> canon l2 -> expandN l1 = expandN l2 -> l1 = l2.
Proof.
  induction l1 as [|[x n] r1 IH]; intros [|[y m] r2] H1 H2 E.
  - reflexivity.
  - destruct H2 as (Hm & _ & _). rewrite expandN_cons in E.
    destruct (N.to_nat m) eqn:Em; [lia|]. cbn in E. discriminate.
  - destruct H1 as (Hn & _ & _). rewrite expandN_cons in E.
    destruct (N.to_nat n) eqn:En; [lia|]. cbn in E. discriminate.
  - destruct H1 as (Hn & Hh1 & Hc1). destruct H2 as (Hm & Hh2 & Hc2).
    rewrite !expandN_cons in E.
    assert (x = y).
    { destruct (N.to_nat n) eqn:En; [lia|]. destruct (N.to_nat m) eqn:Em; [lia|].
      cbn in E. congruence. }
    subst y.
    apply repeat_app_split in E.
    + destruct E as [En Er]. f_equal; [f_equal; lia|]. apply IH; assumption.
    + apply canon_head; assumption.
    + apply canon_head; assumption.
Qed.

Lemma rle_eqb_refl l : rle_eqb l l = true.
Proof.
  induction l as [|[x n] l IH]; [reflexivity|]. cbn [rle_eqb]. unfold run_eqb. cbn [fst snd].
  rewrite eqb_reflx, N.eqb_refl, IH. reflexivity.
Qed.

Theorem rle_same_complete l1 l2 : expandN l1 = expandN l2 -> rle_same l1 l2 = true.
Proof.
  intros E. unfold rle_same.
  rewrite (canon_unique (rle_norm l1) (rle_norm l2)); [apply rle_eqb_refl| | |].
  - apply rle_norm_canon.
  - apply rle_norm_canon.
  - rewrite !rle_norm_expand. exact E.
Qed.
