(* Proofs about DLQ routing: engine v1 behaves exactly like the property's rule, for every
   window, every outcome sequence, every DLQ failure point, every order in which the
   downstream nodes call Ack()/Nack() (handlers run in ticket order). *)
From Verif Require Import Base.CaseCheck Dlq.Window Dlq.WindowProofs Dlq.Routing.

Definition is_some {A} (o : option A) : bool := match o with Some _ => true | None => false end.

(* ---------- v1 = spec ---------- *)
Lemma route_v1_refines size t : forall rs w s k,
  Inv size t w s ->
  let (es, tm) := route_v1 w false k rs in
  let (m, st) := spec_route size t s rs in
  es = events_of k rs m /\ st = is_some tm /\ m <= length rs.
Proof.
  induction rs as [|[x df] rs IH]; intros w s k HI.
  - cbn. auto.
  - cbn [route_v1 spec_route].
    pose proof (v1_step_refines size t w s x HI) as Hs. unfold v1_step in Hs.
    destruct x.
    + destruct (nack1 w) as [w' ok] eqn:En. destruct (spec_step size t s true) as [s' d] eqn:Es.
      destruct Hs as (Hd & HI'). subst d.
      destruct ok; cbn [negb andb orb].
      * destruct df; cbn [orb].
        -- cbn. split; [reflexivity|]. split; [reflexivity|lia].
        -- specialize (IH w' s' (S k) HI').
           destruct (route_v1 w' false (S k) rs) as [es tm].
           destruct (spec_route size t s' rs) as [m st].
           destruct IH as (E1 & E2 & E3). subst es. cbn [events_of app length].
           split; [reflexivity|]. split; [exact E2|lia].
      * cbn. split; [reflexivity|]. split; [reflexivity|lia].
    + destruct (spec_step size t s false) as [s' d] eqn:Es.
      destruct Hs as (Hd & HI'). cbn [andb].
      specialize (IH (ack1 w) s' (S k) HI').
      destruct (route_v1 (ack1 w) false (S k) rs) as [es tm].
      destruct (spec_route size t s' rs) as [m st].
      destruct IH as (E1 & E2 & E3). subst es. cbn [events_of app length].
      split; [reflexivity|]. split; [exact E2|lia].
Qed.

Theorem routing_v1_is_spec size t rs :
  let (es, tm) := route_v1 (new_win size t) false 0 rs in
  let (m, st) := spec_route size t init_sp rs in
  es = events_of 0 rs m /\ st = is_some tm.
Proof.
  pose proof (route_v1_refines size t rs (new_win size t) init_sp 0 (Inv_init size t)) as H.
  destruct (route_v1 (new_win size t) false 0 rs) as [es tm].
  destruct (spec_route size t init_sp rs) as [m st]. tauto.
Qed.

(* ---------- the rule's own event list satisfies every clause of the monitor ---------- *)
Lemma acks_events_of : forall rs k m, m <= length rs -> acks_of (events_of k rs m) = seq k m.
Proof.
  induction rs as [|[x df] rs IH]; intros k m Hm; destruct m as [|m]; cbn in *; try reflexivity; try lia.
  unfold acks_of in *. rewrite flat_map_app. destruct x; cbn; f_equal; apply IH; lia.
Qed.

Lemma dlqs_events_of : forall rs k m, dlqs_of (events_of k rs m) = nacks_below k rs m.
Proof.
  induction rs as [|[x df] rs IH]; intros k m; destruct m as [|m]; cbn; try reflexivity.
  unfold dlqs_of in *. rewrite flat_map_app. destruct x; cbn; f_equal; apply IH.
Qed.

Lemma nacks_below_bounds : forall rs k m j, In j (nacks_below k rs m) -> k <= j < k + m.
Proof.
  induction rs as [|[x df] rs IH]; intros k m j Hj; destruct m as [|m]; cbn in Hj; try tauto.
  apply in_app_or in Hj. destruct Hj as [Hj|Hj].
  - destruct x; cbn in Hj; [|tauto]. destruct Hj as [<-|[]]. lia.
  - apply IH in Hj. lia.
Qed.

Lemma increasing_cons_lb a l : (forall j, In j l -> a < j) -> increasing l = true -> increasing (a :: l) = true.
Proof.
  intros Hlb Hinc. destruct l as [|b l]; [reflexivity|].
  change (increasing (a :: b :: l)) with ((a <? b) && increasing (b :: l)).
  rewrite Hinc. rewrite andb_true_r. apply Nat.ltb_lt. apply Hlb. left. reflexivity.
Qed.

Lemma nacks_below_increasing : forall rs k m, increasing (nacks_below k rs m) = true.
Proof.
  induction rs as [|[x df] rs IH]; intros k m; destruct m as [|m]; cbn [nacks_below]; try reflexivity.
  destruct x; cbn [app]; [|apply IH].
  apply increasing_cons_lb; [|apply IH].
  intros j Hj. apply nacks_below_bounds in Hj. lia.
Qed.

Lemma filter_all {A} (p : A -> bool) l : (forall a, In a l -> p a = true) -> filter p l = l.
Proof.
  induction l as [|a l IH]; intros H; [reflexivity|]. cbn. rewrite (H a (or_introl eq_refl)).
  f_equal. apply IH. intros b Hb. apply H. right. exact Hb.
Qed.

Lemma nacks_below_are_nacks : forall rs k m j,
  In j (nacks_below k rs m) -> fst (nth (j - k) rs (false, false)) = true.
Proof.
  induction rs as [|[x df] rs IH]; intros k m j Hj; destruct m as [|m]; cbn in Hj; try tauto.
  apply in_app_or in Hj. destruct Hj as [Hj|Hj].
  - destruct x; cbn in Hj; [|tauto]. destruct Hj as [<-|[]]. rewrite Nat.sub_diag. reflexivity.
  - pose proof (nacks_below_bounds _ _ _ _ Hj) as Hb. specialize (IH _ _ _ Hj).
    replace (j - k) with (S (j - S k)) by lia. exact IH.
Qed.

Lemma dlq_first_events_of : forall rs k m acked,
  (forall j, In j acked -> j < k) -> dlq_first acked (events_of k rs m) = true.
Proof.
  induction rs as [|[x df] rs IH]; intros k m acked Hacked; destruct m as [|m]; cbn [events_of]; try reflexivity.
  assert (Hnext : forall j, In j (k :: acked) -> j < S k).
  { intros j [<-|Hj]; [lia|]. apply Hacked in Hj. lia. }
  destruct x; cbn [app dlq_first].
  - assert (E : existsb (Nat.eqb k) acked = false).
    { destruct (existsb (Nat.eqb k) acked) eqn:E; [|reflexivity].
      apply existsb_exists in E. destruct E as (j & Hj & Ej). apply Nat.eqb_eq in Ej. subst j.
      apply Hacked in Hj. lia. }
    rewrite E. cbn [negb andb]. apply IH. exact Hnext.
  - apply IH. exact Hnext.
Qed.

Theorem spec_events_satisfy_monitor size t rs :
  let (m, st) := spec_route size t init_sp rs in
  route_ok size t rs (events_of 0 rs m) st = true.
Proof.
  unfold route_ok.
  assert (Hm : fst (spec_route size t init_sp rs) <= length rs).
  { pose proof (route_v1_refines size t rs (new_win size t) init_sp 0 (Inv_init size t)) as H.
    destruct (route_v1 (new_win size t) false 0 rs). destruct (spec_route size t init_sp rs). cbn. tauto. }
  destruct (spec_route size t init_sp rs) as [m st]. cbn [fst] in Hm.
  rewrite acks_events_of by exact Hm. rewrite dlqs_events_of.
  assert (E1 : list_eqb Nat.eqb (seq 0 m) (seq 0 m) = true)
    by (apply (list_eqb_eq Nat.eqb Nat.eqb_eq); reflexivity).
  rewrite E1.
  rewrite filter_all.
  2:{ intros a Ha. apply nacks_below_bounds in Ha. apply Nat.ltb_lt. lia. }
  assert (E2 : list_eqb Nat.eqb (nacks_below 0 rs m) (nacks_below 0 rs m) = true)
    by (apply (list_eqb_eq Nat.eqb Nat.eqb_eq); reflexivity).
  rewrite E2, nacks_below_increasing.
  assert (E3 : forallb (fun k => fst (nth k rs (false, false))) (nacks_below 0 rs m) = true).
  { apply forallb_forall. intros j Hj. pose proof (nacks_below_are_nacks _ _ _ _ Hj) as H.
    rewrite Nat.sub_0_r in H. exact H. }
  rewrite E3, Bool.eqb_reflx. cbn [andb].
  apply dlq_first_events_of. intros j [].
Qed.

(* so: whatever v1 does, in whatever order the downstream nodes complete, is what the
   property allows *)
Theorem routing_v1_satisfies_property size t rs :
  let (es, tm) := route_v1 (new_win size t) false 0 rs in
  route_ok size t rs es (is_some tm) = true.
Proof.
  pose proof (routing_v1_is_spec size t rs) as H1.
  pose proof (spec_events_satisfy_monitor size t rs) as H2.
  destruct (route_v1 (new_win size t) false 0 rs) as [es tm].
  destruct (spec_route size t init_sp rs) as [m st].
  destruct H1 as (-> & ->). exact H2.
Qed.

(* a failed DLQ write, or a rejection the window refuses, is never followed by an ack of
   that record or of any later one *)
Theorem spec_stops_at_first_unhandled size t : forall rs s,
  let (m, st) := spec_route size t s rs in
  st = true -> m < length rs /\ fst (nth m rs (false, false)) = true.
Proof.
  induction rs as [|[x df] rs IH]; intros s; cbn [spec_route].
  - intros H; discriminate.
  - destruct (spec_step size t s x) as [s' d].
    destruct (x && (negb d || df)) eqn:E.
    + intros _. cbn. split; [lia|]. destruct x; [reflexivity|discriminate].
    + specialize (IH s'). destruct (spec_route size t s' rs) as [m st].
      intros Hst. destruct (IH Hst) as (H1 & H2). cbn. split; [lia|exact H2].
Qed.

(* ---------- v2: same handled prefix, same stop decision, whatever the batching ---------- *)
Fixpoint leading_true (ds : list bool) : nat :=
  match ds with
  | true :: r => S (leading_true r)
  | _ => 0
  end.

Lemma leading_true_shape a b : leading_true (repeat true a ++ repeat false b) = a.
Proof.
  induction a as [|a IH]; cbn.
  - destruct b; reflexivity.
  - f_equal. exact IH.
Qed.

Lemma run_spec_length size t : forall ops s, length (run_spec size t s ops) = length ops.
Proof.
  induction ops as [|x ops IH]; intros s; [reflexivity|].
  cbn [run_spec]. destruct (spec_step size t s x). cbn. f_equal. apply IH.
Qed.

Definition nack_recs (dfs : list bool) : list rec := map (fun df => (true, df)) dfs.
Definition ack_recs (dfs : list bool) : list rec := map (fun df => (false, df)) dfs.

Lemma spec_route_ack_run size t : forall dfs s rest,
  spec_route size t s (ack_recs dfs ++ rest)
  = let (m, st) := spec_route size t (spec_after size t s (repeat false (length dfs))) rest in
    (length dfs + m, st).
Proof.
  unfold spec_after.
  induction dfs as [|df dfs IH]; intros s rest.
  - cbn. destruct (spec_route size t s rest). reflexivity.
  - cbn [ack_recs map app spec_route length repeat fold_left].
    destruct (spec_step size t s false) as [s' d]. cbn [andb fst].
    fold (ack_recs dfs). rewrite IH.
    destruct (spec_route size t _ rest). reflexivity.
Qed.

Lemma spec_route_nack_run size t : forall dfs s rest,
  spec_route size t s (nack_recs dfs ++ rest)
  = let n := length dfs in
    let acc := leading_true (run_spec size t s (repeat true n)) in
    let f := first_fail (firstn acc dfs) in
    if f <? acc then (f, true)
    else if acc <? n then (acc, true)
    else let (m, st) := spec_route size t (spec_after size t s (repeat true n)) rest in
         (n + m, st).
Proof.
  unfold spec_after.
  induction dfs as [|df dfs IH]; intros s rest.
  - cbn. destruct (spec_route size t s rest). reflexivity.
  - cbn [nack_recs map app spec_route length repeat run_spec fold_left].
    destruct (spec_step size t s true) as [s' d]. cbn [fst].
    destruct d; cbn [negb orb andb leading_true].
    + destruct df; cbn [firstn first_fail].
      * reflexivity.
      * fold (nack_recs dfs). rewrite IH. cbv zeta.
        set (acc := leading_true (run_spec size t s' (repeat true (length dfs)))).
        set (f := first_fail (firstn acc dfs)).
        change (S f <? S acc) with (f <? acc). change (S acc <? S (length dfs)) with (acc <? length dfs).
        destruct (f <? acc); [reflexivity|].
        destruct (acc <? length dfs); [reflexivity|].
        destruct (spec_route size t _ rest). reflexivity.
    + cbn. reflexivity.
Qed.

Lemma take_run_spec x : forall rs run rest,
  take_run x rs = (run, rest) ->
  rs = run ++ rest /\ run = map (fun df => (x, df)) (map snd run).
Proof.
  induction rs as [|[y df] rs IH]; intros run rest H; cbn in H.
  - inversion H. auto.
  - destruct (Bool.eqb x y) eqn:E.
    + apply Bool.eqb_prop in E. subst y.
      destruct (take_run x rs) as [a b] eqn:Et. inversion H; subst.
      destruct (IH a rest eq_refl) as (E1 & E2). cbn. split; [f_equal; exact E1|].
      f_equal. exact E2.
    + inversion H. auto.
Qed.

Lemma acks_of_app a b : acks_of (a ++ b) = acks_of a ++ acks_of b.
Proof. unfold acks_of. apply flat_map_app. Qed.

Lemma acks_of_seq_ack k n : acks_of (seq_ev SrcAck k n) = seq k n.
Proof.
  unfold seq_ev, acks_of. revert k; induction n as [|n IH]; intros k; [reflexivity|].
  cbn. f_equal. apply IH.
Qed.

Lemma acks_of_dlq_oks : forall dfs k, acks_of (dlq_oks k dfs) = [].
Proof.
  induction dfs as [|df dfs IH]; intros k; [reflexivity|].
  cbn [dlq_oks]. rewrite acks_of_app, IH. destruct df; reflexivity.
Qed.

Lemma first_fail_le l : first_fail l <= length l.
Proof. induction l as [|a l IH]; cbn; [lia|]. destruct a; cbn; lia. Qed.

Lemma map_const_repeat {A B} (c : B) (l : list A) : map (fun _ => c) l = repeat c (length l).
Proof. induction l as [|a l IH]; [reflexivity|]. cbn. f_equal. exact IH. Qed.

(* one batch *)
Lemma route_batch_refines size t : forall fuel rs w s k,
  Inv size t w s -> length rs <= fuel ->
  let '(w', k', es, tm) := route_batch fuel w k rs in
  let (m, st) := spec_route size t s rs in
  acks_of es = seq k m /\ is_some tm = st
  /\ (st = false -> m = length rs /\ k' = k + m
                    /\ Inv size t w' (spec_after size t s (map fst rs))).
Proof.
  induction fuel as [|fuel IH]; intros rs w s k HI Hlen.
  - destruct rs; [|cbn in Hlen; lia]. cbn. auto.
  - destruct rs as [|[x df] rs0]; [cbn; auto|].
    cbn [route_batch].
    destruct (take_run x ((x, df) :: rs0)) as [run rest] eqn:Et.
    destruct (take_run_spec _ _ _ _ Et) as (Ers & Erun).
    assert (Hrunlen : 1 <= length run).
    { cbn in Et. rewrite Bool.eqb_reflx in Et. destruct (take_run x rs0). inversion Et. cbn. lia. }
    assert (Hrest : length rest <= fuel).
    { assert (L : length ((x, df) :: rs0) = length run + length rest) by (rewrite Ers, app_length; reflexivity).
      simpl length in L, Hlen. lia. }
    set (dfs := map snd run) in *. set (n := length run).
    assert (Hn : length dfs = n) by (unfold dfs; apply map_length).
    rewrite Ers.
    pose proof (v2_step_refines size t w s x n HI) as Hstep. unfold v2_step in Hstep.
    destruct x.
    + (* a run of rejected records *)
      destruct (nackN w n) as [w' acc] eqn:En.
      destruct Hstep as (Hds & HI').
      assert (Hacc : acc <= n).
      { pose proof (run_spec_length size t (repeat true n) s) as L. rewrite <- Hds in L.
        rewrite app_length, !repeat_length in L. lia. }
      rewrite Erun. fold dfs. fold (nack_recs dfs).
      rewrite spec_route_nack_run. cbv zeta. rewrite Hn. rewrite <- Hds, leading_true_shape.
      set (f := first_fail (firstn acc dfs)).
      assert (Hf : f <= acc).
      { unfold f. pose proof (first_fail_le (firstn acc dfs)) as L. rewrite firstn_length in L. lia. }
      destruct (f <? acc) eqn:Ef.
      * rewrite acks_of_app, acks_of_dlq_oks, acks_of_seq_ack. cbn. split; [reflexivity|].
        split; [reflexivity|]. intros H; discriminate.
      * apply Nat.ltb_ge in Ef. assert (f = acc) by lia.
        destruct (acc <? n) eqn:Ea.
        -- rewrite acks_of_app, acks_of_dlq_oks, acks_of_seq_ack. cbn. split; [congruence|].
           split; [reflexivity|]. intros H'; discriminate.
        -- apply Nat.ltb_ge in Ea. assert (acc = n) by lia. clearbody f. subst acc.
           specialize (IH rest w' (spec_after size t s (repeat true n)) (k + n) HI' Hrest).
           destruct (route_batch fuel w' (k + n) rest) as [[[w'' k''] es'] tm].
           destruct (spec_route size t (spec_after size t s (repeat true n)) rest) as [m st].
           destruct IH as (A1 & A2 & A3).
           rewrite !acks_of_app, acks_of_dlq_oks, acks_of_seq_ack, A1. cbn [app].
           replace f with n by lia.
           split; [rewrite seq_app; reflexivity|]. split; [exact A2|].
           intros Hst. destruct (A3 Hst) as (B1 & B2 & B3).
           rewrite app_length. unfold nack_recs at 1. rewrite map_length, Hn.
           split; [lia|]. split; [lia|].
           rewrite map_app, spec_after_app.
           replace (map fst (nack_recs dfs)) with (repeat true n); [exact B3|].
           unfold nack_recs. rewrite map_map. cbn. rewrite <- Hn. symmetry. apply map_const_repeat.
    + (* a run of accepted records *)
      destruct Hstep as (Hds & HI').
      rewrite Erun. fold dfs. fold (ack_recs dfs).
      rewrite spec_route_ack_run. rewrite Hn.
      specialize (IH rest (ackN w n) (spec_after size t s (repeat false n)) (k + n) HI' Hrest).
      destruct (route_batch fuel (ackN w n) (k + n) rest) as [[[w'' k''] es'] tm].
      destruct (spec_route size t (spec_after size t s (repeat false n)) rest) as [m st].
      destruct IH as (A1 & A2 & A3).
      rewrite acks_of_app, acks_of_seq_ack, A1.
      split; [rewrite seq_app; reflexivity|]. split; [exact A2|].
      intros Hst. destruct (A3 Hst) as (B1 & B2 & B3).
      rewrite app_length. unfold ack_recs at 1. rewrite map_length, Hn.
      split; [lia|]. split; [lia|].
      rewrite map_app, spec_after_app.
      replace (map fst (ack_recs dfs)) with (repeat false n); [exact B3|].
      unfold ack_recs. rewrite map_map. cbn. rewrite <- Hn. symmetry. apply map_const_repeat.
Qed.

Lemma spec_route_app_running size t : forall l1 s l2,
  snd (spec_route size t s l1) = false ->
  spec_route size t s (l1 ++ l2)
  = let (m, st) := spec_route size t (spec_after size t s (map fst l1)) l2 in
    (fst (spec_route size t s l1) + m, st).
Proof.
  unfold spec_after.
  induction l1 as [|[x df] l1 IH]; intros s l2 H.
  - cbn. destruct (spec_route size t s l2). reflexivity.
  - cbn [app spec_route map fst fold_left] in *.
    destruct (spec_step size t s x) as [s' d]. cbn [fst].
    destruct (x && (negb d || df)); [cbn in H; discriminate|].
    destruct (spec_route size t s' l1) as [m1 st1] eqn:E1. cbn [snd fst] in *.
    rewrite IH by (rewrite E1; exact H). rewrite E1. cbn [fst].
    destruct (spec_route size t _ l2). reflexivity.
Qed.

Lemma spec_route_app_stopped size t : forall l1 s l2,
  snd (spec_route size t s l1) = true ->
  spec_route size t s (l1 ++ l2) = spec_route size t s l1.
Proof.
  induction l1 as [|[x df] l1 IH]; intros s l2 H.
  - cbn in H. discriminate.
  - cbn [app spec_route] in *. destruct (spec_step size t s x) as [s' d].
    destruct (x && (negb d || df)); [reflexivity|].
    destruct (spec_route size t s' l1) as [m1 st1] eqn:E1. cbn [snd] in H.
    rewrite IH by (rewrite E1; exact H). rewrite E1. reflexivity.
Qed.

Lemma route_v2_refines size t : forall bs w s k,
  Inv size t w s ->
  let (es, tm) := route_v2 w k bs in
  let (m, st) := spec_route size t s (concat bs) in
  acks_of es = seq k m /\ is_some tm = st.
Proof.
  induction bs as [|b bs IH]; intros w s k HI.
  - cbn. auto.
  - cbn [route_v2 concat].
    pose proof (route_batch_refines size t (length b) b w s k HI (le_n _)) as Hb.
    destruct (route_batch (length b) w k b) as [[[w' k'] es] tm].
    destruct (spec_route size t s b) as [m st] eqn:Eb.
    destruct Hb as (A1 & A2 & A3).
    destruct tm as [fatal|]; cbn [is_some] in A2; subst st.
    + rewrite spec_route_app_stopped by (rewrite Eb; reflexivity). rewrite Eb. auto.
    + destruct (A3 eq_refl) as (B1 & B2 & B3).
      rewrite spec_route_app_running by (rewrite Eb; reflexivity). rewrite Eb. cbn [fst].
      specialize (IH w' (spec_after size t s (map fst b)) k' B3).
      destruct (route_v2 w' k' bs) as [es' tm'].
      destruct (spec_route size t (spec_after size t s (map fst b)) (concat bs)) as [m' st'].
      destruct IH as (C1 & C2). rewrite acks_of_app, A1, C1. subst k'.
      split; [rewrite seq_app; reflexivity|exact C2].
Qed.

(* The source sees acknowledgments for exactly the records the rule says are handled - the
   same prefix, in source order, once - and the pipeline stops in exactly the same cases,
   however the records are cut into batches. *)
Theorem routing_v2_handled_and_stop size t bs :
  let (es, tm) := route_v2 (new_win size t) 0 bs in
  let (m, st) := spec_route size t init_sp (concat bs) in
  acks_of es = seq 0 m /\ is_some tm = st.
Proof. apply route_v2_refines, Inv_init. Qed.

(* hence both engines acknowledge the same records and stop on the same record *)
Theorem routing_parity size t bs :
  let (es1, tm1) := route_v1 (new_win size t) false 0 (concat bs) in
  let (es2, tm2) := route_v2 (new_win size t) 0 bs in
  acks_of es1 = acks_of es2 /\ is_some tm1 = is_some tm2.
Proof.
  pose proof (routing_v1_is_spec size t (concat bs)) as H1.
  pose proof (routing_v2_handled_and_stop size t bs) as H2.
  pose proof (route_v1_refines size t (concat bs) (new_win size t) init_sp 0 (Inv_init size t)) as H3.
  destruct (route_v1 (new_win size t) false 0 (concat bs)) as [es1 tm1].
  destruct (route_v2 (new_win size t) 0 bs) as [es2 tm2].
  destruct (spec_route size t init_sp (concat bs)) as [m st].
  destruct H1 as (E1 & E2). destruct H2 as (F1 & F2). destruct H3 as (_ & _ & Hm).
  subst es1. rewrite acks_events_of by exact Hm. rewrite F1. split; [reflexivity|congruence].
Qed.
