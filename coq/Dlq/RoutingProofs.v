(* Proofs about DLQ routing: engine v1 behaves exactly like the property's rule, for every
   window, every outcome sequence, every DLQ failure point, every order in which the
   downstream nodes call Ack()/Nack() (handlers run in ticket order). *)
From Verif Require Import Base.CaseCheck Dlq.Window Dlq.WindowProofs Dlq.Routing.

Definition is_some {A} (o : option A) : bool := match o with Some _ => true | None => false end.

(* ---------- v1 = spec ---------- *)
Lemma route_v1_refines size t : forall rs w s k,
  Inv size t w s ->
  let (es, tm) := route_v1 w false k rs in
  let (m, st) := spec_route size t s rs in
  es = events_of k rs m /\ st = is_some tm /\ m <= length rs.
Proof.
  induction rs as [|[x df] rs IH]; intros w s k HI.
  - cbn. auto.
  - cbn [route_v1 spec_route].
    pose proof (v1_step_refines size t w s x HI) as Hs. unfold v1_step in Hs.
    destruct x.
    + destruct (nack1 w) as [w' ok] eqn:En. destruct (spec_step size t s true) as [s' d] eqn:Es.
      destruct Hs as (Hd & HI'). subst d.
      destruct ok; cbn [negb andb orb].
      * destruct df; cbn [orb].
        -- cbn. split; [reflexivity|]. split; [reflexivity|lia].
        -- specialize (IH w' s' (S k) HI').
           destruct (route_v1 w' false (S k) rs) as [es tm].
           destruct (spec_route size t s' rs) as [m st].
           destruct IH as (E1 & E2 & E3). subst es. cbn [events_of app length].
           split; [reflexivity|]. split; [exact E2|lia].
      * cbn. split; [reflexivity|]. split; [reflexivity|lia].
    + destruct (spec_step size t s false) as [s' d] eqn:Es.
      destruct Hs as (Hd & HI'). cbn [andb].
      specialize (IH (ack1 w) s' (S k) HI').
      destruct (route_v1 (ack1 w) false (S k) rs) as [es tm].
      destruct (spec_route size t s' rs) as [m st].
      destruct IH as (E1 & E2 & E3). subst es. cbn [events_of app length].
      split; [reflexivity|]. split; [exact E2|lia].
Qed.

Theorem routing_v1_is_spec size t rs :
  let (es, tm) := route_v1 (new_win size t) false 0 rs in
  let (m, st) := spec_route size t init_sp rs in
  es = events_of 0 rs m /\ st = is_some tm.
Proof.
  pose proof (route_v1_refines size t rs (new_win size t) init_sp 0 (Inv_init size t)) as H.
  destruct (route_v1 (new_win size t) false 0 rs) as [es tm].
  destruct (spec_route size t init_sp rs) as [m st]. tauto.
Qed.

(* ---------- the rule's own event list satisfies every clause of the monitor ---------- *)
Lemma acks_events_of : forall rs k m, m <= length rs -> acks_of (events_of k rs m) = seq k m.
Proof.
  induction rs as [|[x df] rs IH]; intros k m Hm; destruct m as [|m]; cbn in *; try reflexivity; try lia.
  unfold acks_of in *. rewrite flat_map_app. destruct x; cbn; f_equal; apply IH; lia.
Qed.

Lemma dlqs_events_of : forall rs k m, dlqs_of (events_of k rs m) = nacks_below k rs m.
Proof.
  induction rs as [|[x df] rs IH]; intros k m; destruct m as [|m]; cbn; try reflexivity.
  unfold dlqs_of in *. rewrite flat_map_app. destruct x; cbn; f_equal; apply IH.
Qed.

Lemma nacks_below_bounds : forall rs k m j, In j (nacks_below k rs m) -> k <= j < k + m.
Proof.
  induction rs as [|[x df] rs IH]; intros k m j Hj; destruct m as [|m]; cbn in Hj; try tauto.
  apply in_app_or in Hj. destruct Hj as [Hj|Hj].
  - destruct x; cbn in Hj; [|tauto]. destruct Hj as [<-|[]]. lia.
  - apply IH in Hj. lia.
Qed.

Lemma increasing_cons_lb a l : (forall j, In j l -> a < j) -> increasing l = true -> increasing (a :: l) = true.
Proof.
  intros Hlb Hinc. destruct l as [|b l]; [reflexivity|].
  change (increasing (a :: b :: l)) with ((a <? b) && increasing (b :: l)).
  rewrite Hinc. rewrite andb_true_r. apply Nat.ltb_lt. apply Hlb. left. reflexivity.
Qed.

Lemma nacks_below_increasing : forall rs k m, increasing (nacks_below k rs m) = true.
Proof.
  induction rs as [|[x df] rs IH]; intros k m; destruct m as [|m]; cbn [nacks_below]; try reflexivity.
  destruct x; cbn [app]; [|apply IH].
  apply increasing_cons_lb; [|apply IH].
  intros j Hj. apply nacks_below_bounds in Hj. lia.
Qed.

Lemma filter_all {A} (p : A -> bool) l : (forall a, In a l -> p a = true) -> filter p l = l.
Proof.
  induction l as [|a l IH]; intros H; [reflexivity|]. cbn. rewrite (H a (or_introl eq_refl)).
  f_equal. apply IH. intros b Hb. apply H. right. exact Hb.
Qed.

Lemma nacks_below_are_nacks : forall rs k m j,
  In j (nacks_below k rs m) -> fst (nth (j - k) rs (false, false)) = true.
Proof.
  induction rs as [|[x df] rs IH]; intros k m j Hj; destruct m as [|m]; cbn in Hj; try tauto.
  apply in_app_or in Hj. destruct Hj as [Hj|Hj].
  - destruct x; cbn in Hj; [|tauto]. destruct Hj as [<-|[]]. rewrite Nat.sub_diag. reflexivity.
  - pose proof (nacks_below_bounds _ _ _ _ Hj) as Hb. specialize (IH _ _ _ Hj).
    replace (j - k) with (S (j - S k)) by lia. exact IH.
Qed.

Lemma dlq_first_events_of : forall rs k m acked,
  (forall j, In j acked -> j < k) -> dlq_first acked (events_of k rs m) = true.
Proof.
  induction rs as [|[x df] rs IH]; intros k m acked Hacked; destruct m as [|m]; cbn [events_of]; try reflexivity.
  assert (Hnext : forall j, In j (k :: acked) -> j < S k).
  { intros j [<-|Hj]; [lia|]. apply Hacked in Hj. lia. }
  destruct x; cbn [app dlq_first].
  - assert (E : existsb (Nat.eqb k) acked = false).
    { destruct (existsb (Nat.eqb k) acked) eqn:E; [|reflexivity].
      apply existsb_exists in E. destruct E as (j & Hj & Ej). apply Nat.eqb_eq in Ej. subst j.
      apply Hacked in Hj. lia. }
    rewrite E. cbn [negb andb]. apply IH. exact Hnext.
  - apply IH. exact Hnext.
Qed.

Theorem spec_events_satisfy_monitor size t rs :
  let (m, st) := spec_route size t init_sp rs in
  route_ok size t rs (events_of 0 rs m) st = true.
Proof.
  unfold route_ok.
  assert (Hm : fst (spec_route size t init_sp rs) <= length rs).
  { pose proof (route_v1_refines size t rs (new_win size t) init_sp 0 (Inv_init size t)) as H.
    destruct (route_v1 (new_win size t) false 0 rs). destruct (spec_route size t init_sp rs). cbn. tauto. }
  destruct (spec_route size t init_sp rs) as [m st]. cbn [fst] in Hm.
  rewrite acks_events_of by exact Hm. rewrite dlqs_events_of.
  assert (E1 : list_eqb Nat.eqb (seq 0 m) (seq 0 m) = true)
    by (apply (list_eqb_eq Nat.eqb Nat.eqb_eq); reflexivity).
  rewrite E1.
  rewrite filter_all.
  2:{ intros a Ha. apply nacks_below_bounds in Ha. apply Nat.ltb_lt. lia. }
  assert (E2 : list_eqb Nat.eqb (nacks_below 0 rs m) (nacks_below 0 rs m) = true)
    by (apply (list_eqb_eq Nat.eqb Nat.eqb_eq); reflexivity).
  rewrite E2, nacks_below_increasing.
  assert (E3 : forallb (fun k => fst (nth k rs (false, false))) (nacks_below 0 rs m) = true).
  { apply forallb_forall. intros j Hj. pose proof (nacks_below_are_nacks _ _ _ _ Hj) as H.
    rewrite Nat.sub_0_r in H. exact H. }
  rewrite E3, Bool.eqb_reflx. cbn [andb].
  apply dlq_first_events_of. intros j [].
Qed.

(* so: whatever v1 does, in whatever order the downstream nodes complete, is what the
   property allows *)
Theorem routing_v1_satisfies_property size t rs :
  let (es, tm) := route_v1 (new_win size t) false 0 rs in
  route_ok size t rs es (is_some tm) = true.
Proof.
  pose proof (routing_v1_is_spec size t rs) as H1.
  pose proof (spec_events_satisfy_monitor size t rs) as H2.
  destruct (route_v1 (new_win size t) false 0 rs) as [es tm].
  destruct (spec_route size t init_sp rs) as [m st].
  destruct H1 as (-> & ->). exact H2.
Qed.

(* a failed DLQ write, or a rejection the window refuses, is never followed by an ack of
   that record or of any later one *)
Theorem spec_stops_at_first_unhandled size t : forall rs s,
  let (m, st) := spec_route size t s rs in
  st = true -> m < length rs /\ fst (nth m rs (false, false)) = true.
Proof.
  induction rs as [|[x df] rs IH]; intros s; cbn [spec_route].
  - intros H; discriminate.
  - destruct (spec_step size t s x) as [s' d].
    destruct (x && (negb d || df)) eqn:E.
    + intros _. cbn. split; [lia|]. destruct x; [reflexivity|discriminate].
    + specialize (IH s'). destruct (spec_route size t s' rs) as [m st].
      intros Hst. destruct (IH Hst) as (H1 & H2). cbn. split; [lia|exact H2].
Qed.

(* ---------- v2: same handled prefix, same stop decision, whatever the batching ---------- *)
Fixpoint leading_true (ds : list bool) : nat :=
  match ds with
  | true :: r => S (leading_true r)
  | _ => 0
  end.

Lemma leading_true_shape a b : leading_true (repeat true a ++ repeat false b) = a.
Proof.
  induction a as [|a IH]; cbn.
  - destruct b; reflexivity.
  - f_equal. exact IH.
Qed.

Lemma run_spec_length size t : forall ops s, length (run_spec size t s ops) = length ops.
Proof.
  induction ops as [|x ops IH]; intros s; [reflexivity|].
  cbn [run_spec]. destruct (spec_step size t s x). cbn. f_equal. apply IH.
Qed.

Definition nack_recs (dfs : list bool) : list rec := map (fun df => (true, df)) dfs.
Definition ack_recs (dfs : list bool) : list rec := map (fun df => (false, df)) dfs.

Lemma spec_route_ack_run size t : forall dfs s rest,
  spec_route size t s (ack_recs dfs ++ rest)
  = let (m, st) := spec_route size t (spec_after size t s (repeat false (length dfs))) rest in
    (length dfs + m, st).
Proof.
  unfold spec_after.
  induction dfs as [|df dfs IH]; intros s rest.
  - cbn. destruct (spec_route size t s rest). reflexivity.
  - cbn [ack_recs map app spec_route length repeat fold_left].
    destruct (spec_step size t s false) as [s' d]. cbn [andb fst].
    fold (ack_recs dfs). rewrite IH.
    destruct (spec_route size t _ rest). reflexivity.
Qed.

Lemma spec_route_nack_run size t : forall dfs s rest,
  spec_route size t s (nack_recs dfs ++ rest)
  = let n := length dfs in
    let acc := leading_true (run_spec size t s (repeat true n)) in
    let f := first_fail (firstn acc dfs) in
    if f <? acc then (f, true)
    else if acc <? n then (acc, true)
    else let (m, st) := spec_route size t (spec_after size t s (repeat true n)) rest in
         (n + m, st).
Proof.
  unfold spec_after.
  induction dfs as [|df dfs IH]; intros s rest.
  - cbn. destruct (spec_route size t s rest). reflexivity.
  - cbn [nack_recs map app spec_route length repeat run_spec fold_left].
    destruct (spec_step size t s true) as [s' d]. cbn [fst].
    destruct d; cbn [negb orb andb leading_true].
    + destruct df; cbn [firstn first_fail].
      * reflexivity.
      * fold (nack_recs dfs). rewrite IH. cbv zeta.
        set (acc := leading_true (run_spec size t s' (repeat true (length dfs)))).
        set (f := first_fail (firstn acc dfs)).
        change (S f <? S acc) with (f <? acc). change (S acc <? S (length dfs)) with (acc <? length dfs).
        destruct (f <? acc); [reflexivity|].
        destruct (acc <? length dfs); [reflexivity|].
        destruct (spec_route size t _ rest). reflexivity.
    + cbn. reflexivity.
Qed.

Lemma take_run_spec x : forall rs run rest,
  take_run x rs = (run, rest) ->
  rs = run ++ rest /\ run = map (fun df => (x, df)) (map snd run).
Proof.
  induction rs as [|[y df] rs IH]; intros run rest H; cbn in H.
  - inversion H. auto.
  - destruct (Bool.eqb x y) eqn:E.
    + apply Bool.eqb_prop in E. subst y.
      destruct (take_run x rs) as [a b] eqn:Et. inversion H; subst.
      destruct (IH a rest eq_refl) as (E1 & E2). cbn. split; [f_equal; exact E1|].
      f_equal. exact E2.
    + inversion H. auto.
Qed.

Lemma acks_of_app a b : acks_of (a ++ b) = acks_of a ++ acks_of b.
Proof. unfold acks_of. apply flat_map_app. Qed.

Lemma acks_of_seq_ack k n : acks_of (seq_ev SrcAck k n) = seq k n.
Proof.
  unfold seq_ev, acks_of. revert k; induction n as [|n IH]; intros k; [reflexivity|].
  cbn. f_equal. apply IH.
Qed.

Lemma acks_of_dlq_oks : forall dfs k, acks_of (dlq_oks k dfs) = [].
Proof.
  induction dfs as [|df dfs IH]; intros k; [reflexivity|].
  cbn [dlq_oks]. rewrite acks_of_app, IH. destruct df; reflexivity.
Qed.

Lemma first_fail_le l : first_fail l <= length l.
Proof. induction l as [|a l IH]; cbn; [lia|]. destruct a; cbn; lia. Qed.

Lemma map_const_repeat {A B} (c : B) (l : list A) : map (fun _ => c) l = repeat c (length l).
Proof. induction l as [|a l IH]; [reflexivity|]. cbn. f_equal. exact IH. Qed.

(* one batch *)
Lemma route_batch_refines size t : forall fuel rs w s k,
  Inv size t w s -> length rs <= fuel ->
  let '(w', k', es, tm) := route_batch fuel w k rs in
  let (m, st) := spec_route size t s rs in
  acks_of es = seq k m /\ is_some tm = st
  /\ (st = false -> m = length rs /\ k' = k + m
                    /\ Inv size t w' (spec_after size t s (map fst rs))).
Proof.
  induction fuel as [|fuel IH]; intros rs w s k HI Hlen.
  - destruct rs; [|cbn in Hlen; lia]. cbn. auto.
  - destruct rs as [|[x df] rs0]; [cbn; auto|].
    cbn [route_batch].
    destruct (take_run x ((x, df) :: rs0)) as [run rest] eqn:Et.
    destruct (take_run_spec _ _ _ _ Et) as (Ers & Erun).
    assert (Hrunlen : 1 <= length run).
    { cbn in Et. rewrite Bool.eqb_reflx in Et. destruct (take_run x rs0). inversion Et. cbn. lia. }
    assert (Hrest : length rest <= fuel).
    { assert (L : length ((x, df) :: rs0) = length run + length rest) by (rewrite Ers, app_length; reflexivity).
      simpl length in L, Hlen. lia. }
    set (dfs := map snd run) in *. set (n := length run).
    assert (Hn : length dfs = n) by (unfold dfs; apply map_length).
    rewrite Ers.
    pose proof (v2_step_refines size t w s x n HI) as Hstep. unfold v2_step in Hstep.
    destruct x.
    + (* a run of rejected records *)
      destruct (nackN w n) as [w' acc] eqn:En.
      destruct Hstep as (Hds & HI').
      assert (Hacc : acc <= n).
      { pose proof (run_spec_length size t (repeat true n) s) as L. rewrite <- Hds in L.
        rewrite app_length, !repeat_length in L. lia. }
      rewrite Erun. fold dfs. fold (nack_recs dfs).
      rewrite spec_route_nack_run. cbv zeta. rewrite Hn. rewrite <- Hds, leading_true_shape.
      set (f := first_fail (firstn acc dfs)).
      assert (Hf : f <= acc).
      { unfold f. pose proof (first_fail_le (firstn acc dfs)) as L. rewrite firstn_length in L. lia. }
      destruct (f <? acc) eqn:Ef.
      * rewrite acks_of_app, acks_of_dlq_oks, acks_of_seq_ack. cbn. split; [reflexivity|].
        split; [reflexivity|]. intros H; discriminate.
      * apply Nat.ltb_ge in Ef. assert (f = acc) by lia.
        destruct (acc <? n) eqn:Ea.
        -- rewrite acks_of_app, acks_of_dlq_oks, acks_of_seq_ack. cbn. split; [congruence|].
           split; [reflexivity|]. intros H'; discriminate.
        -- apply Nat.ltb_ge in Ea. assert (acc = n) by lia. clearbody f. subst acc.
           specialize (IH rest w' (spec_after size t s (repeat true n)) (k + n) HI' Hrest).
           destruct (route_batch fuel w' (k + n) rest) as [[[w'' k''] es'] tm].
           destruct (spec_route size t (spec_after size t s (repeat true n)) rest) as [m st].
           destruct IH as (A1 & A2 & A3).
           rewrite !acks_of_app, acks_of_dlq_oks, acks_of_seq_ack, A1. cbn [app].
           replace f with n by lia.
           split; [rewrite seq_app; reflexivity|]. split; [exact A2|].
           intros Hst. destruct (A3 Hst) as (B1 & B2 & B3).
           rewrite app_length. unfold nack_recs at 1. rewrite map_length, Hn.
           split; [lia|]. split; [lia|].
           rewrite map_app, spec_after_app.
           replace (map fst (nack_recs dfs)) with (repeat true n); [exact B3|].
           unfold nack_recs. rewrite map_map. cbn. rewrite <- Hn. symmetry. apply map_const_repeat.
    + (* a run of accepted records *)
      destruct Hstep as (Hds & HI').
      rewrite Erun. fold dfs. fold (ack_recs dfs).
      rewrite spec_route_ack_run. rewrite Hn.
      specialize (IH rest (ackN w n) (spec_after size t s (repeat false n)) (k + n) HI' Hrest).
      destruct (route_batch fuel (ackN w n) (k + n) rest) as [[[w'' k''] es'] tm].
      destruct (spec_route size t (spec_after size t s (repeat false n)) rest) as [m st].
      destruct IH as (A1 & A2 & A3).
      rewrite acks_of_app, acks_of_seq_ack, A1.
      split; [rewrite seq_app; reflexivity|]. split; [exact A2|].
      intros Hst. destruct (A3 Hst) as (B1 & B2 & B3).
      rewrite app_length. unfold ack_recs at 1. rewrite map_length, Hn.
      split; [lia|]. split; [lia|].
      rewrite map_app, spec_after_app.
      replace (map fst (ack_recs dfs)) with (repeat false n); [exact B3|].
      unfold ack_recs. rewrite map_map. cbn. rewrite <- Hn. symmetry. apply map_const_repeat.
Qed.

Lemma spec_route_app_running size t : forall l1 s l2,
  snd (spec_route size t s l1) = false ->
  spec_route size t s (l1 ++ l2)
  = let (m, st) := spec_route size t (spec_after size t s (map fst l1)) l2 in
    (fst (spec_route size t s l1) + m, st).
Proof.
  unfold spec_after.
  induction l1 as [|[x df] l1 IH]; intros s l2 H.
  - cbn. destruct (spec_route size t s l2). reflexivity.
  - cbn [app spec_route map fst fold_left] in *.
    destruct (spec_step size t s x) as [s' d]. cbn [fst].
    destruct (x && (negb d || df)); [cbn in H; discriminate|].
    destruct (spec_route size t s' l1) as [m1 st1] eqn:E1. cbn [snd fst] in *.
    rewrite IH by (rewrite E1; exact H). rewrite E1. cbn [fst].
    destruct (spec_route size t _ l2). reflexivity.
Qed.

Lemma spec_route_app_stopped size t : forall l1 s l2,
  snd (spec_route size t s l1) = true ->
  spec_route size t s (l1 ++ l2) = spec_route size t s l1.
Proof.
  induction l1 as [|[x df] l1 IH]; intros s l2 H.
  - cbn in H. discriminate.
  - cbn [app spec_route] in *. destruct (spec_step size t s x) as [s' d].
    destruct (x && (negb d || df)); [reflexivity|].
    destruct (spec_route size t s' l1) as [m1 st1] eqn:E1. cbn [snd] in H.
    rewrite IH by (rewrite E1; exact H). rewrite E1. reflexivity.
Qed.

Lemma route_v2_refines size t : forall bs w s k,
  Inv size t w s ->
  let (es, tm) := route_v2 w k bs in
  let (m, st) := spec_route size t s (concat bs) in
  acks_of es = seq k m /\ is_some tm = st.
Proof.
  induction bs as [|b bs IH]; intros w s k HI.
  - cbn. auto.
  - cbn [route_v2 concat].
    pose proof (route_batch_refines size t (length b) b w s k HI (le_n _)) as Hb.
    destruct (route_batch (length b) w k b) as [[[w' k'] es] tm].
    destruct (spec_route size t s b) as [m st] eqn:Eb.
    destruct Hb as (A1 & A2 & A3).
    destruct tm as [fatal|]; cbn [is_some] in A2; subst st.
    + rewrite spec_route_app_stopped by (rewrite Eb; reflexivity). rewrite Eb. auto.
    + destruct (A3 eq_refl) as (B1 & B2 & B3).
      rewrite spec_route_app_running by (rewrite Eb; reflexivity). rewrite Eb. cbn [fst].
      specialize (IH w' (spec_after size t s (map fst b)) k' B3).
      destruct (route_v2 w' k' bs) as [es' tm'].
      destruct (spec_route size t (spec_after size t s (map fst b)) (concat bs)) as [m' st'].
      destruct IH as (C1 & C2). rewrite acks_of_app, A1, C1. subst k'.
      split; [rewrite seq_app; reflexivity|exact C2].
Qed.

(* The source sees acknowledgments for exactly the records the rule says are handled - the
   same prefix, in source order, once - and the pipeline stops in exactly the same cases,
   however the records are cut into batches. *)
Theorem routing_v2_handled_and_stop size t bs :
  let (es, tm) := route_v2 (new_win size t) 0 bs in
  let (m, st) := spec_route size t init_sp (concat bs) in
  acks_of es = seq 0 m /\ is_some tm = st.
Proof. apply route_v2_refines, Inv_init. Qed.

(* hence both engines acknowledge the same records and stop on the same record *)
Theorem routing_parity size t bs :
  let (es1, tm1) := route_v1 (new_win size t) false 0 (concat bs) in
  let (es2, tm2) := route_v2 (new_win size t) 0 bs in
  acks_of es1 = acks_of es2 /\ is_some tm1 = is_some tm2.
Proof.
  pose proof (routing_v1_is_spec size t (concat bs)) as H1.
  pose proof (routing_v2_handled_and_stop size t bs) as H2.
  pose proof (route_v1_refines size t (concat bs) (new_win size t) init_sp 0 (Inv_init size t)) as H3.
  destruct (route_v1 (new_win size t) false 0 (concat bs)) as [es1 tm1].
  destruct (route_v2 (new_win size t) 0 bs) as [es2 tm2].
  destruct (spec_route size t init_sp (concat bs)) as [m st].
  destruct H1 as (E1 & E2). destruct H2 as (F1 & F2). destruct H3 as (_ & _ & Hm).
  subst es1. rewrite acks_events_of by exact Hm. rewrite F1. split; [reflexivity|congruence].
Qed.

(* ---------- v2: the remaining clauses of the monitor ---------- *)
Lemma dlqs_of_app a b : dlqs_of (a ++ b) = dlqs_of a ++ dlqs_of b.
Proof. unfold dlqs_of. apply flat_map_app. Qed.

Lemma dlqs_of_seq_ack k n : dlqs_of (seq_ev SrcAck k n) = [].
Proof.
  unfold seq_ev, dlqs_of. revert k; induction n as [|n IH]; intros k; [reflexivity|].
  cbn. apply IH.
Qed.

(* what the DLQ confirmed in one written run: in order, within the run, rejected records only *)
Definition dlq_block_ok (k n : nat) (l : list nat) : Prop :=
  increasing l = true /\ forall j, In j l -> k <= j < k + n.

Lemma dlqs_of_dlq_oks_bounds : forall dfs k j, In j (dlqs_of (dlq_oks k dfs)) -> k <= j < k + length dfs.
Proof.
  induction dfs as [|df dfs IH]; intros k j Hj; [cbn in Hj; tauto|].
  cbn [dlq_oks] in Hj. rewrite dlqs_of_app in Hj. apply in_app_or in Hj. cbn [length].
  destruct Hj as [Hj|Hj].
  - destruct df; cbn in Hj; [tauto|]. destruct Hj as [<-|[]]. lia.
  - apply IH in Hj. lia.
Qed.

Lemma dlqs_of_dlq_oks_increasing : forall dfs k, increasing (dlqs_of (dlq_oks k dfs)) = true.
Proof.
  induction dfs as [|df dfs IH]; intros k; [reflexivity|].
  cbn [dlq_oks]. rewrite dlqs_of_app. destruct df; cbn [dlqs_of flat_map app]; [apply IH|].
  apply increasing_cons_lb; [|apply IH].
  intros j Hj. apply dlqs_of_dlq_oks_bounds in Hj. lia.
Qed.

Lemma filter_none {A} (p : A -> bool) l : (forall a, In a l -> p a = false) -> filter p l = [].
Proof.
  induction l as [|a l IH]; intros H; [reflexivity|]. cbn. rewrite (H a (or_introl eq_refl)).
  apply IH. intros b Hb. apply H. right. exact Hb.
Qed.

(* below the first bad record, everything written was confirmed *)
Lemma dlqs_of_dlq_oks_below : forall dfs k,
  filter (fun j => j <? k + first_fail dfs) (dlqs_of (dlq_oks k dfs)) = seq k (first_fail dfs).
Proof.
  induction dfs as [|df dfs IH]; intros k; [reflexivity|].
  cbn [dlq_oks first_fail]. rewrite dlqs_of_app. destruct df.
  - cbn [dlqs_of flat_map app seq]. apply filter_none.
    intros j Hj. apply dlqs_of_dlq_oks_bounds in Hj. apply Nat.ltb_ge. lia.
  - cbn [dlqs_of flat_map app seq filter].
    assert (E : (k <? k + S (first_fail dfs)) = true) by (apply Nat.ltb_lt; lia).
    rewrite E. f_equal. replace (k + S (first_fail dfs)) with (S k + first_fail dfs) by lia.
    apply IH.
Qed.

Lemma nacks_below_nack_recs : forall dfs k m rest,
  m <= length dfs -> nacks_below k (nack_recs dfs ++ rest) m = seq k m.
Proof.
  induction dfs as [|df dfs IH]; intros k m rest Hm; destruct m as [|m].
  - destruct rest; reflexivity.
  - cbn [length] in Hm. lia.
  - reflexivity.
  - cbn [length] in Hm. cbn [nack_recs map app nacks_below seq]. f_equal.
    apply (IH (S k) m rest). lia.
Qed.

Lemma nacks_below_ack_recs : forall dfs k m rest,
  m <= length dfs -> nacks_below k (ack_recs dfs ++ rest) m = [].
Proof.
  induction dfs as [|df dfs IH]; intros k m rest Hm; destruct m as [|m].
  - destruct rest; reflexivity.
  - cbn [length] in Hm. lia.
  - reflexivity.
  - cbn [length] in Hm. cbn [ack_recs map app nacks_below].
    apply (IH (S k) m rest). lia.
Qed.

Lemma nacks_below_app : forall l1 k m l2,
  nacks_below k (l1 ++ l2) (length l1 + m)
  = nacks_below k (l1 ++ l2) (length l1) ++ nacks_below (k + length l1) l2 m.
Proof.
  induction l1 as [|[x df] l1 IH]; intros k m l2.
  - cbn. rewrite Nat.add_0_r. destruct m; destruct l2; reflexivity.
  - cbn [app length Nat.add nacks_below]. rewrite IH. rewrite app_assoc.
    replace (k + S (length l1)) with (S k + length l1) by lia. reflexivity.
Qed.

Lemma filter_app_split {A} (p : A -> bool) l1 l2 : filter p (l1 ++ l2) = filter p l1 ++ filter p l2.
Proof. apply filter_app. Qed.

Lemma increasing_app l1 l2 b :
  increasing l1 = true -> increasing l2 = true ->
  (forall j, In j l1 -> j < b) -> (forall j, In j l2 -> b <= j) ->
  increasing (l1 ++ l2) = true.
Proof.
  induction l1 as [|a l1 IH]; intros H1 H2 Hlt Hge; [exact H2|].
  cbn [app]. apply increasing_cons_lb.
  - intros j Hj. apply in_app_or in Hj. destruct Hj as [Hj|Hj].
    + destruct l1 as [|c l1]; [destruct Hj|].
      change (increasing (a :: c :: l1)) with ((a <? c) && increasing (c :: l1)) in H1.
      apply andb_true_iff in H1. destruct H1 as (Hac & Hinc). apply Nat.ltb_lt in Hac.
      destruct Hj as [<-|Hj]; [exact Hac|].
      (* an increasing list is bounded below by its head *)
      clear - Hinc Hj Hac. revert c Hinc Hj Hac. induction l1 as [|d l1 IHl]; intros c Hinc Hj Hac; [destruct Hj|].
      change (increasing (c :: d :: l1)) with ((c <? d) && increasing (d :: l1)) in Hinc.
      apply andb_true_iff in Hinc. destruct Hinc as (Hcd & Hinc). apply Nat.ltb_lt in Hcd.
      destruct Hj as [<-|Hj]; [lia|]. apply (IHl d Hinc Hj). lia.
    + specialize (Hlt a (or_introl eq_refl)). specialize (Hge j Hj). lia.
  - apply IH; auto.
    + destruct l1 as [|c l1]; [reflexivity|].
      change (increasing (a :: c :: l1)) with ((a <? c) && increasing (c :: l1)) in H1.
      apply andb_true_iff in H1. tauto.
    + intros j Hj. apply Hlt. right. exact Hj.
Qed.

Lemma dlq_first_app : forall es1 acked es2,
  dlq_first acked (es1 ++ es2) = dlq_first acked es1 && dlq_first (rev (acks_of es1) ++ acked) es2.
Proof.
  induction es1 as [|[k|k] es1 IH]; intros acked es2.
  - reflexivity.
  - cbn [app dlq_first]. rewrite IH. cbn [acks_of flat_map app]. fold (acks_of es1).
    rewrite andb_assoc. reflexivity.
  - cbn [app dlq_first]. rewrite IH. cbn [acks_of flat_map app]. fold (acks_of es1).
    cbn [rev]. rewrite <- app_assoc. reflexivity.
Qed.

Lemma dlq_first_dlq_oks : forall dfs k acked,
  (forall j, In j acked -> j < k) -> dlq_first acked (dlq_oks k dfs) = true.
Proof.
  induction dfs as [|df dfs IH]; intros k acked H; [reflexivity|].
  cbn [dlq_oks]. destruct df; cbn [app].
  - apply IH. intros j Hj. apply H in Hj. lia.
  - cbn [dlq_first].
    assert (E : existsb (Nat.eqb k) acked = false).
    { destruct (existsb (Nat.eqb k) acked) eqn:E; [|reflexivity].
      apply existsb_exists in E. destruct E as (j & Hj & Ej). apply Nat.eqb_eq in Ej. subst j.
      apply H in Hj. lia. }
    rewrite E. cbn [negb andb]. apply IH. intros j Hj. apply H in Hj. lia.
Qed.

Lemma dlq_first_seq_ack : forall n k acked, dlq_first acked (seq_ev SrcAck k n) = true.
Proof.
  unfold seq_ev. induction n as [|n IH]; intros k acked; [reflexivity|]. cbn. apply IH.
Qed.

Lemma nth_app_nack_recs dfs rest i :
  i < length dfs -> fst (nth i (nack_recs dfs ++ rest) (false, false)) = true.
Proof.
  intros H. rewrite app_nth1 by (unfold nack_recs; rewrite map_length; exact H).
  unfold nack_recs. rewrite (nth_indep _ (false, false) ((fun df => (true, df)) false))
    by (rewrite map_length; exact H).
  rewrite map_nth. reflexivity.
Qed.

Lemma spec_route_le size t : forall rs s, fst (spec_route size t s rs) <= length rs.
Proof.
  induction rs as [|[x df] rs IH]; intros s; cbn [spec_route]; [cbn; lia|].
  destruct (spec_step size t s x) as [s' d]. destruct (x && (negb d || df)); [cbn; lia|].
  specialize (IH s'). destruct (spec_route size t s' rs). cbn in *. lia.
Qed.

Definition batch_mon (k : nat) (rs : list (bool * bool)) (m : nat) (acked : list nat) (es : list ev) : Prop :=
  filter (fun j => j <? k + m) (dlqs_of es) = nacks_below k rs m
  /\ increasing (dlqs_of es) = true
  /\ (forall j, In j (dlqs_of es) ->
        k <= j < k + length rs /\ fst (nth (j - k) rs (false, false)) = true)
  /\ dlq_first acked es = true.

Lemma route_batch_monitor size t : forall fuel rs w s k acked,
  Inv size t w s -> length rs <= fuel -> (forall j, In j acked -> j < k) ->
  let '(w', k', es, tm) := route_batch fuel w k rs in
  batch_mon k rs (fst (spec_route size t s rs)) acked es.
Proof.
  induction fuel as [|fuel IH]; intros rs w s k acked HI Hlen Hacked.
  - destruct rs; [|cbn in Hlen; lia]. unfold batch_mon. cbn.
    split; [reflexivity|split; [reflexivity|split; [intros j []|reflexivity]]].
  - destruct rs as [|[x df] rs0].
    { unfold batch_mon. cbn. split; [reflexivity|split; [reflexivity|split; [intros j []|reflexivity]]]. }
    pose proof (route_batch_refines size t (S fuel) ((x, df) :: rs0) w s k HI Hlen) as Href.
    cbn [route_batch] in *.
    destruct (take_run x ((x, df) :: rs0)) as [run rest] eqn:Et.
    destruct (take_run_spec _ _ _ _ Et) as (Ers & Erun).
    assert (Hrunlen : 1 <= length run).
    { cbn in Et. rewrite Bool.eqb_reflx in Et. destruct (take_run x rs0). inversion Et. cbn. lia. }
    assert (Hrest : length rest <= fuel).
    { assert (L : length ((x, df) :: rs0) = length run + length rest) by (rewrite Ers, app_length; reflexivity).
      simpl length in L, Hlen. lia. }
    set (dfs := map snd run) in *. set (n := length run) in *.
    assert (Hn : length dfs = n) by (unfold dfs; apply map_length).
    rewrite Ers in *.
    pose proof (v2_step_refines size t w s x n HI) as Hstep. unfold v2_step in Hstep.
    destruct x.
    + destruct (nackN w n) as [w' acc] eqn:En.
      destruct Hstep as (Hds & HI').
      assert (Hacc : acc <= n).
      { pose proof (run_spec_length size t (repeat true n) s) as L. rewrite <- Hds in L.
        rewrite app_length, !repeat_length in L. lia. }
      rewrite Erun in *. fold dfs in Href |- *. fold (nack_recs dfs) in Href |- *.
      rewrite spec_route_nack_run in *. cbv zeta in *. rewrite Hn in *.
      rewrite <- Hds, leading_true_shape in *.
      set (wr := firstn acc dfs) in *.
      assert (Hwr : length wr = acc) by (unfold wr; rewrite firstn_length; lia).
      set (f := first_fail wr) in *.
      assert (Hf : f <= acc) by (unfold f; pose proof (first_fail_le wr); lia).
      assert (Hlenall : length (nack_recs dfs ++ rest) = n + length rest)
        by (rewrite app_length; unfold nack_recs; rewrite map_length; lia).
      (* facts about the DLQ confirmations of this run *)
      assert (Hblock : forall j, In j (dlqs_of (dlq_oks k wr)) -> k <= j < k + acc).
      { intros j Hj. apply dlqs_of_dlq_oks_bounds in Hj. lia. }
      assert (Hrunmon : forall m', m' = f ->
                batch_mon k (nack_recs dfs ++ rest) m' acked (dlq_oks k wr ++ seq_ev SrcAck k f)).
      { intros m' ->. unfold batch_mon. rewrite dlqs_of_app, dlqs_of_seq_ack, app_nil_r.
        split; [|split; [|split]].
        - unfold f. rewrite dlqs_of_dlq_oks_below. symmetry. apply nacks_below_nack_recs. lia.
        - apply dlqs_of_dlq_oks_increasing.
        - intros j Hj. apply Hblock in Hj. split; [lia|]. apply nth_app_nack_recs. lia.
        - rewrite dlq_first_app. rewrite dlq_first_dlq_oks by exact Hacked. cbn [andb].
          apply dlq_first_seq_ack. }
      destruct (f <? acc) eqn:Ef.
      * cbn [fst]. apply Hrunmon. reflexivity.
      * apply Nat.ltb_ge in Ef. assert (Hfa : f = acc) by lia.
        destruct (acc <? n) eqn:Ea.
        -- cbn [fst]. apply Hrunmon. lia.
        -- apply Nat.ltb_ge in Ea. assert (Han : acc = n) by lia.
           assert (Hacked' : forall j, In j (rev (acks_of (dlq_oks k wr ++ seq_ev SrcAck k f)) ++ acked) -> j < k + n).
           { intros j Hj. apply in_app_or in Hj. destruct Hj as [Hj|Hj].
             - apply in_rev in Hj. rewrite acks_of_app, acks_of_dlq_oks, acks_of_seq_ack in Hj.
               cbn [app] in Hj. apply in_seq in Hj. lia.
             - apply Hacked in Hj. lia. }
           specialize (IH rest w' (spec_after size t s (repeat true n)) (k + n) _ HI' Hrest Hacked').
           pose proof (spec_route_le size t rest (spec_after size t s (repeat true n))) as Hle.
           destruct (route_batch fuel w' (k + n) rest) as [[[w'' k''] es'] tm].
           destruct (spec_route size t (spec_after size t s (repeat true n)) rest) as [m st].
           cbn [fst] in *. destruct IH as (I1 & I2 & I3 & I4).
           destruct (Hrunmon f eq_refl) as (R1 & R2 & R3 & R4).
           unfold batch_mon. rewrite !dlqs_of_app in *. rewrite dlqs_of_seq_ack, app_nil_r in *.
           split; [|split; [|split]].
           ++ rewrite filter_app.
              rewrite (filter_all _ (dlqs_of (dlq_oks k wr)))
                by (intros j Hj; apply Hblock in Hj; apply Nat.ltb_lt; lia).
              replace (k + (n + m)) with (k + n + m) by lia. rewrite I1.
              replace (n + m) with (length (nack_recs dfs) + m)
                by (unfold nack_recs; rewrite map_length; lia).
              rewrite nacks_below_app.
              replace (length (nack_recs dfs)) with n by (unfold nack_recs; rewrite map_length; lia).
              rewrite nacks_below_nack_recs by lia. f_equal.
              rewrite <- (filter_all (fun j => j <? k + f) (dlqs_of (dlq_oks k wr)))
                by (intros j Hj; apply Hblock in Hj; apply Nat.ltb_lt; lia).
              rewrite R1. rewrite nacks_below_nack_recs by lia. rewrite Hfa, Han. reflexivity.
           ++ apply (increasing_app _ _ (k + n)); auto.
              ** intros j Hj. apply Hblock in Hj. lia.
              ** intros j Hj. apply I3 in Hj. lia.
           ++ intros j Hj. apply in_app_or in Hj. destruct Hj as [Hj|Hj].
              ** apply R3. exact Hj.
              ** destruct (I3 j Hj) as (B1 & B2). rewrite Hlenall. split; [lia|].
                 rewrite app_nth2 by (unfold nack_recs; rewrite map_length; lia).
                 unfold nack_recs at 1. rewrite map_length, Hn.
                 replace (j - k - n) with (j - (k + n)) by lia. exact B2.
           ++ rewrite dlq_first_app. rewrite R4. cbn [andb]. exact I4.
    + destruct Hstep as (Hds & HI').
      rewrite Erun in *. fold dfs in Href |- *. fold (ack_recs dfs) in Href |- *.
      rewrite spec_route_ack_run in *. rewrite Hn in *.
      assert (Hlenall : length (ack_recs dfs ++ rest) = n + length rest)
        by (rewrite app_length; unfold ack_recs; rewrite map_length; lia).
      assert (Hacked' : forall j, In j (rev (acks_of (seq_ev SrcAck k n)) ++ acked) -> j < k + n).
      { intros j Hj. apply in_app_or in Hj. destruct Hj as [Hj|Hj].
        - apply in_rev in Hj. rewrite acks_of_seq_ack in Hj. apply in_seq in Hj. lia.
        - apply Hacked in Hj. lia. }
      specialize (IH rest (ackN w n) (spec_after size t s (repeat false n)) (k + n) _ HI' Hrest Hacked').
      destruct (route_batch fuel (ackN w n) (k + n) rest) as [[[w'' k''] es'] tm].
      destruct (spec_route size t (spec_after size t s (repeat false n)) rest) as [m st].
      cbn [fst] in *. destruct IH as (I1 & I2 & I3 & I4).
      unfold batch_mon. rewrite !dlqs_of_app, dlqs_of_seq_ack. cbn [app].
      split; [|split; [|split]].
      * replace (k + (n + m)) with (k + n + m) by lia. rewrite I1.
        replace (n + m) with (length (ack_recs dfs) + m)
          by (unfold ack_recs; rewrite map_length; lia).
        rewrite nacks_below_app.
        replace (length (ack_recs dfs)) with n by (unfold ack_recs; rewrite map_length; lia).
        rewrite nacks_below_ack_recs by lia. reflexivity.
      * exact I2.
      * intros j Hj. destruct (I3 j Hj) as (B1 & B2). rewrite Hlenall. split; [lia|].
        rewrite app_nth2 by (unfold ack_recs; rewrite map_length; lia).
        unfold ack_recs at 1. rewrite map_length, Hn.
        replace (j - k - n) with (j - (k + n)) by lia. exact B2.
      * rewrite dlq_first_app, dlq_first_seq_ack. cbn [andb]. exact I4.
Qed.

Lemma nacks_below_prefix : forall l1 k m l2,
  m <= length l1 -> nacks_below k (l1 ++ l2) m = nacks_below k l1 m.
Proof.
  induction l1 as [|[x df] l1 IH]; intros k m l2 Hm; destruct m as [|m].
  - destruct l2; reflexivity.
  - cbn [length] in Hm. lia.
  - reflexivity.
  - cbn [length] in Hm. cbn [app nacks_below]. f_equal. apply IH. lia.
Qed.

Lemma batch_mon_weaken k b rest m acked es :
  m <= length b -> batch_mon k b m acked es -> batch_mon k (b ++ rest) m acked es.
Proof.
  intros Hm (M1 & M2 & M3 & M4). unfold batch_mon.
  split; [|split; [exact M2|split; [|exact M4]]].
  - rewrite nacks_below_prefix by exact Hm. exact M1.
  - intros j Hj. destruct (M3 j Hj) as (B1 & B2). rewrite app_length. split; [lia|].
    rewrite app_nth1 by lia. exact B2.
Qed.

Lemma route_v2_monitor size t : forall bs w s k acked,
  Inv size t w s -> (forall j, In j acked -> j < k) ->
  let (es, tm) := route_v2 w k bs in
  batch_mon k (concat bs) (fst (spec_route size t s (concat bs))) acked es.
Proof.
  induction bs as [|b bs IH]; intros w s k acked HI Hacked.
  - unfold batch_mon. cbn. split; [reflexivity|split; [reflexivity|split; [intros j []|reflexivity]]].
  - cbn [route_v2 concat].
    pose proof (route_batch_refines size t (length b) b w s k HI (le_n _)) as Href.
    pose proof (route_batch_monitor size t (length b) b w s k acked HI (le_n _) Hacked) as Hmon.
    pose proof (spec_route_le size t b s) as Hle.
    destruct (route_batch (length b) w k b) as [[[w' k'] es] tm].
    destruct (spec_route size t s b) as [m st] eqn:Eb. cbn [fst] in *.
    destruct Href as (A1 & A2 & A3).
    destruct tm as [fatal|]; cbn [is_some] in A2; subst st.
    + rewrite spec_route_app_stopped by (rewrite Eb; reflexivity). rewrite Eb. cbn [fst].
      apply batch_mon_weaken; assumption.
    + destruct (A3 eq_refl) as (B1 & B2 & B3). subst m k'.
      rewrite spec_route_app_running by (rewrite Eb; reflexivity). rewrite Eb. cbn [fst].
      assert (Hacked' : forall j, In j (rev (acks_of es) ++ acked) -> j < k + length b).
      { intros j Hj. apply in_app_or in Hj. destruct Hj as [Hj|Hj].
        - apply in_rev in Hj. rewrite A1 in Hj. apply in_seq in Hj. lia.
        - apply Hacked in Hj. lia. }
      specialize (IH w' (spec_after size t s (map fst b)) (k + length b) _ B3 Hacked').
      destruct (route_v2 w' (k + length b) bs) as [es' tm'].
      destruct (spec_route size t (spec_after size t s (map fst b)) (concat bs)) as [m' st'].
      cbn [fst] in *.
      destruct Hmon as (M1 & M2 & M3 & M4). destruct IH as (I1 & I2 & I3 & I4).
      assert (Hall : forall j, In j (dlqs_of es) -> j < k + length b) by (intros j Hj; apply M3 in Hj; lia).
      unfold batch_mon. rewrite dlqs_of_app. split; [|split; [|split]].
      * rewrite filter_app.
        rewrite (filter_all _ (dlqs_of es)) by (intros j Hj; apply Hall in Hj; apply Nat.ltb_lt; lia).
        replace (k + (length b + m')) with (k + length b + m') by lia. rewrite I1.
        rewrite nacks_below_app. f_equal.
        rewrite nacks_below_prefix by lia. rewrite <- M1. symmetry. apply filter_all.
        intros j Hj. apply Hall in Hj. apply Nat.ltb_lt. lia.
      * apply (increasing_app _ _ (k + length b)); auto.
        intros j Hj. apply I3 in Hj. lia.
      * intros j Hj. rewrite app_length. apply in_app_or in Hj. destruct Hj as [Hj|Hj].
        -- destruct (M3 j Hj) as (C1 & C2). split; [lia|]. rewrite app_nth1 by lia. exact C2.
        -- destruct (I3 j Hj) as (C1 & C2). split; [lia|]. rewrite app_nth2 by lia.
           replace (j - k - length b) with (j - (k + length b)) by lia. exact C2.
      * rewrite dlq_first_app, M4. cbn [andb]. exact I4.
Qed.

(* v2 satisfies every clause of the property's monitor, for every window, outcome sequence,
   DLQ failure point and batch partition *)
Theorem routing_v2_satisfies_property size t bs :
  let (es, tm) := route_v2 (new_win size t) 0 bs in
  route_ok size t (concat bs) es (is_some tm) = true.
Proof.
  pose proof (routing_v2_handled_and_stop size t bs) as H1.
  pose proof (route_v2_monitor size t bs (new_win size t) init_sp 0 [] (Inv_init size t)
                (fun j (H : In j []) => match H with end)) as H2.
  unfold route_ok.
  destruct (route_v2 (new_win size t) 0 bs) as [es tm].
  destruct (spec_route size t init_sp (concat bs)) as [m st]. cbn [fst] in H2.
  destruct H1 as (A1 & A2). destruct H2 as (M1 & M2 & M3 & M4).
  rewrite A1, A2. cbn [Nat.add] in M1. rewrite M1, M2, M4, Bool.eqb_reflx.
  assert (E1 : list_eqb Nat.eqb (seq 0 m) (seq 0 m) = true)
    by (apply (list_eqb_eq Nat.eqb Nat.eqb_eq); reflexivity).
  assert (E2 : list_eqb Nat.eqb (nacks_below 0 (concat bs) m) (nacks_below 0 (concat bs) m) = true)
    by (apply (list_eqb_eq Nat.eqb Nat.eqb_eq); reflexivity).
  rewrite E1, E2.
  assert (E3 : forallb (fun k => fst (nth k (concat bs) (false, false))) (dlqs_of es) = true).
  { apply forallb_forall. intros j Hj. destruct (M3 j Hj) as (_ & C2). rewrite Nat.sub_0_r in C2. exact C2. }
  rewrite E3. reflexivity.
Qed.
