(* Executable correspondence + monitor for C07 window cases. *)
From Verif Require Import Base.CaseCheck Dlq.Window Dlq.WindowRle Dlq.Routing.

Inductive wcase :=
| W1 (size thr : nat) (ops : list bool) (observed : list bool)
| W2 (size thr : nat) (chunks : list (bool * nat)) (observed : list bool)
(* large windows / long histories: everything is an N, the history and the observed decisions
   are run-length encoded (value, count); engine v1 was driven through every single outcome,
   engine v2 through the same history cut into counted batches (one run = one batch) *)
| L1 (size thr : N) (runs : list (bool * N)) (observed : list (bool * N))
| L2 (size thr : N) (chunks : list (bool * N)) (observed : list (bool * N))
(* routing: records (rejected?, dlq write fails?), observed events, observed (stopped, fatal) *)
| R1 (size thr : nat) (rs : list rec) (es : list ev) (stopped fatal panicked : bool)
| R2 (size thr : nat) (batches : list (list rec)) (via_proc : bool) (es : list ev) (stopped fatal panicked : bool).

Definition beq := Bool.eqb.

Definition ev_eqb (a b : ev) : bool :=
  match a, b with
  | DlqOk i, DlqOk j => Nat.eqb i j
  | SrcAck i, SrcAck j => Nat.eqb i j
  | _, _ => false
  end.
Definition ev_list_eqb := list_eqb ev_eqb.
Definition term_eqb (tm : term) (stopped fatal : bool) : bool :=
  match tm with
  | None => negb stopped
  | Some f => stopped && Bool.eqb f fatal
  end.

Definition chk (c : wcase) : nat :=
  match c with
  | W1 size t ops obs =>
      code (list_eqb beq (run_v1 (new_win size t) ops) obs)
           (list_eqb beq (run_spec size t init_sp ops) obs)
  | W2 size t cs obs =>
      code (list_eqb beq (run_v2 (new_win size t) cs) obs)
           (list_eqb beq (run_spec size t init_sp (expand cs)) obs)
  (* [run_rle] is both engine models (window_rle_is_v1 / window_rle_is_v2) and the property's
     rule (window_rle_refines_spec), in a form that evaluates at this scale: one comparison
     decides both bits *)
  | L1 size t cs obs | L2 size t cs obs =>
      let ok := rle_same (run_rle size t q0 cs) obs in code ok ok
  (* a panic of the engine is never what the model does and never what the property allows *)
  | R1 size t rs es stopped fatal panicked =>
      let (mes, mtm) := route_v1 (new_win size t) false 0 rs in
      code (negb panicked && ev_list_eqb mes es && term_eqb mtm stopped fatal)
           (negb panicked && route_ok size t rs es stopped)
  (* via_proc: the rejections come from a processor; doTaskAttempt marks a processor error
     that the DLQ does not absorb as fatal whatever the threshold *)
  | R2 size t bs via_proc es stopped fatal panicked =>
      let (mes, mtm0) := route_v2 (new_win size t) 0 bs in
      let mtm := match mtm0 with Some f => Some (f || via_proc) | None => None end in
      code (negb panicked && ev_list_eqb mes es && term_eqb mtm stopped fatal)
           (negb panicked && route_ok size t (concat bs) es stopped)
  end.
