(* Executable correspondence + monitor for C07 window cases. *)
From Verif Require Import Base.CaseCheck Dlq.Window.

Inductive wcase :=
| W1 (size thr : nat) (ops : list bool) (observed : list bool)
| W2 (size thr : nat) (chunks : list (bool * nat)) (observed : list bool).

Definition beq := Bool.eqb.

Definition chk (c : wcase) : nat :=
  match c with
  | W1 size t ops obs =>
      code (list_eqb beq (run_v1 (new_win size t) ops) obs)
           (list_eqb beq (run_spec size t init_sp ops) obs)
  | W2 size t cs obs =>
      code (list_eqb beq (run_v2 (new_win size t) cs) obs)
           (list_eqb beq (run_spec size t init_sp (expand cs)) obs)
  end.
