(* An EFFICIENT executable form of the C07 window spec, for windows and histories far beyond
   what the list spec of Window.v can evaluate (sizes and thresholds around and above 2^16,
   histories of 10^5..10^6 outcomes).

   - every number is an [N];
   - the outcome history is run-length encoded: a list of (is_nack, count);
   - the state does not keep the history, only the TIMES (0-based index in the history of
     tolerated outcomes) of the tolerated rejections that can still matter, oldest first, in a
     two-list functional queue with its length, plus the current time and the frozen latch;
   - a run of n acks costs O(1), a nack costs amortised O(1).

   WindowRleProofs.v proves that the decisions are those of [run_spec] of Window.v for every
   size, threshold and run-length-encoded history.  Definitions only. *)
From Coq Require Export List Bool NArith Lia.
From Verif Require Import Dlq.Window.

Record qst := mkQ {
  qf : list N;        (* oldest first *)
  qb : list N;        (* newest first; the queue is qf ++ rev qb *)
  qn : N;             (* length of the queue *)
  now : N;            (* number of tolerated outcomes so far = time of the next one *)
  qfrozen : bool }.

Definition qlist (s : qst) : list N := qf s ++ rev (qb s).
Definition q0 : qst := mkQ [] [] 0 0 false.

(* a rejection at time p is outside the window of the outcome at time nw iff p + size <= nw *)
Definition old (size nw p : N) : bool := (p + size <=? nw)%N.

(* drop the old entries at the head; [k] is the length of the list before, returned after *)
Fixpoint drop_old (size nw : N) (l : list N) (k : N) : list N * N :=
  match l with
  | [] => ([], k)
  | p :: r => if old size nw p then drop_old size nw r (N.pred k) else (l, k)
  end.

Definition evict (size : N) (s : qst) : qst :=
  match drop_old size (now s) (qf s) (qn s) with
  | ([], k) =>
      (* rev_append, not the quadratic List.rev: this list is evaluated *)
      let (f', k') := drop_old size (now s) (rev_append (qb s) []) k in
      mkQ f' [] k' (now s) (qfrozen s)
  | (f', k) => mkQ f' (qb s) k (now s) (qfrozen s)
  end.

(* one rejection *)
Definition nack_q (size t : N) (s : qst) : qst * bool :=
  if qfrozen s then (s, false)
  else if (size =? 0)%N then (mkQ [] [] 0 (now s + 1) false, true)
  else
    let s1 := evict size s in
    if (qn s1 + 1 <=? t)%N
    then (mkQ (qf s1) (now s1 :: qb s1) (qn s1 + 1) (now s1 + 1) false, true)
    else (mkQ (qf s1) (qb s1) (qn s1) (now s1) true, false).

Definition nacks_q (size t : N) (s : qst) (n : N) : qst :=
  N.iter n (fun s => fst (nack_q size t s)) s.

Definition acks_q (s : qst) (n : N) : qst :=
  if qfrozen s then s else mkQ (qf s) (qb s) (qn s) (now s + n) false.

(* one run of the history; the decisions come back run-length encoded as well: the tolerated
   rejections of a run are a prefix of it, and there are as many as the clock advanced *)
Definition rle_step (size t : N) (s : qst) (c : bool * N) : qst * list (bool * N) :=
  let (x, n) := c in
  if x then
    let s' := nacks_q size t s n in
    let k := (now s' - now s)%N in
    (s', [(true, k); (false, (n - k)%N)])
  else (acks_q s n, [(true, n)]).

Fixpoint run_rle (size t : N) (s : qst) (cs : list (bool * N)) : list (bool * N) :=
  match cs with
  | [] => []
  | c :: r => let (s', d) := rle_step size t s c in d ++ run_rle size t s' r
  end.

Definition expandN (cs : list (bool * N)) : list bool :=
  flat_map (fun c => repeat (fst c) (N.to_nat (snd c))) cs.

(* canonical form of a run-length encoding: no empty runs, no two adjacent runs of one value *)
Fixpoint rle_norm (cs : list (bool * N)) : list (bool * N) :=
  match cs with
  | [] => []
  | (x, n) :: r =>
      if (n =? 0)%N then rle_norm r
      else match rle_norm r with
           | (y, m) :: r' => if Bool.eqb x y then (x, (n + m)%N) :: r' else (x, n) :: (y, m) :: r'
           | [] => [(x, n)]
           end
  end.

Definition run_eqb (a b : bool * N) : bool := Bool.eqb (fst a) (fst b) && (snd a =? snd b)%N.

Fixpoint rle_eqb (l1 l2 : list (bool * N)) : bool :=
  match l1, l2 with
  | [], [] => true
  | a :: r1, b :: r2 => run_eqb a b && rle_eqb r1 r2
  | _, _ => false
  end.

(* do two run-length encodings denote the same list of decisions? *)
Definition rle_same (l1 l2 : list (bool * N)) : bool := rle_eqb (rle_norm l1) (rle_norm l2).

(* chunks with nat counts (engine v2 consumes counted batches) *)
Definition chunks_nat (cs : list (bool * N)) : list (bool * nat) :=
  map (fun c => (fst c, N.to_nat (snd c))) cs.
