(* Executable trace acceptor for the lifecycle model (Life/RunMap.v).

   The event log of a run of the real service is a list of labels. The acceptor keeps the SET of
   model states that are compatible with the log read so far (power-set construction with closure
   under the model's internal steps) and accepts when the set never becomes empty.  Every choice
   the real scheduler made (which goroutine ran, which injected error won the tomb) is resolved by
   search; the acceptor is strict about everything the model determines. *)
From Coq Require Import PArith FMapPositive.
From Verif Require Import Life.RunMap.

(* ---------- canonical encoding of a state (for de-duplication) ---------- *)
Definition enc_status (x : status) : nat :=
  match x with Running => 1 | SystemStopped => 2 | UserStopped => 3 | Degraded => 4 | Recovering => 5 end.
Definition enc_cause (c : cause) : nat := match c with CaFatal => 1 | CaTransient => 2 | CaForce => 3 end.
Definition enc_res (r : res) : nat := match r with ResNil => 1 | ResCause c => 1 + enc_cause c | ResRecovery => 5 end.
Definition enc_retc (r : retc) : nat :=
  match r with RetNil => 1 | RetRunning => 2 | RetNotRunning => 3 | RetErr => 4 | RetRes x => 4 + enc_res x end.
Definition enc_onat (x : option nat) : nat := match x with None => 0 | Some n => S n end.
Definition enc_bool (b : bool) : nat := if b then 1 else 0.
Definition enc_phase (p : rphase) : nat := match p with PNew => 0 | PLive => 1 | PEnded => 2 | PDead => 3 end.
Definition enc_src (p : srcst) : nat := match p with SInit => 0 | SOpen => 1 | SClosed => 2 end.
Definition enc_mode (m : smode) : nat := match m with MGraceful => 0 | MShutdown => 1 | MForce => 2 end.
Definition enc_kind (k : ckind) : nat :=
  match k with KStart => 0 | KStop => 1 | KForce => 2 | KStopWait => 3 | KStopAll => 4 | KWait => 5 end.

Definition enc_run (r : run) : list nat :=
  [enc_phase (r_phase r); enc_src (r_src r);
   match r_kill r with None => 0 | Some c => enc_cause c end;
   length (r_cands r)] ++ map enc_cause (r_cands r) ++
  [enc_bool (r_stop r); enc_bool (r_shutreq r); enc_bool (r_intent r); enc_bool (r_gshut r);
   enc_bool (r_started r); match r_res r with None => 0 | Some x => enc_res x end].

Definition enc_spc (p : spc) : list nat :=
  match p with
  | SCheck => [1; 0] | SBuild => [2; 0] | SClear r => [3; r] | SOpenA r => [4; r] | SOpenSrc r => [5; r]
  | SOpenDlq r => [6; r] | SRollback r => [11; r] | SSpawn r => [7; r] | SPublish r => [8; r] | SStatus r => [9; r] | SRegister r => [10; r]
  end.

Definition enc_cpc (p : cpc) : list nat :=
  match p with
  | CWait => [1; 0; 0] | CBackoff => [2; 0; 0] | CWake => [3; 0; 0]
  | CStart q => 4 :: enc_spc q
  | CFailed => [5; 0; 0] | CTail1 e => [6; enc_res e; 0] | CTail2 e => [7; enc_res e; 0] | CTail3 e => [8; enc_res e; 0]
  end.

Definition enc_upc (p : upc) : list nat :=
  match p with
  | UStart q => 1 :: enc_spc q ++ [0]
  | UAllFlag => [2; 0; 0; 0]
  | ULookup m sw => [3; enc_mode m; enc_bool sw; 0]
  | UStatus r m sw => [4; r; enc_mode m; enc_bool sw]
  | UAct r m sw => [5; r; enc_mode m; enc_bool sw]
  | UWLookup => [6; 0; 0; 0] | UWJoin r => [7; r; 0; 0] | UWTerr => [8; 0; 0; 0]
  | URet x => [9; enc_retc x; 0; 0]
  end.

Definition enc_wpc (p : wpc) : list nat :=
  match p with WLookup => [1; 0] | WJoin r => [2; r] | WTerr => [3; 0] | WRet x => [4; enc_retc x] end.

Definition encode (s : st) : list nat :=
  [enc_status (s_status s); enc_onat (s_map s); match s_terr s with None => 0 | Some x => enc_res x end;
   enc_onat (s_guard s); enc_onat (s_proc s); enc_bool (s_shutdown s); s_next s; enc_onat (s_cur s);
   s_next s] ++ flat_map (fun i => enc_run (s_runs s i)) (seq 0 (s_next s)) ++
  flat_map (fun i => match s_cleans s i with None => [0; 0; 0; 0] | Some pc => 1 :: enc_cpc pc end) (seq 0 (s_next s)) ++
  match s_user s with None => [0] | Some (id, k, pc) => [1; id; enc_kind k] ++ enc_upc pc end ++
  [length (s_waits s)] ++ flat_map (fun x => fst x :: enc_wpc (snd x)) (s_waits s).

Fixpoint lnat_eqb (a b : list nat) : bool :=
  match a, b with
  | [], [] => true
  | x :: a', y :: b' => Nat.eqb x y && lnat_eqb a' b'
  | _, _ => false
  end.

(* ---------- candidate actions of a state (everything except issuing a control call) ---------- *)
Definition run_acts_of (i : nat) : list act :=
  [AOpen i; AOpenFail i; AOpenBusy i; ATd i; AEnd i; AConflict i;
   AKill i CaFatal; AKill i CaTransient; AKill i CaForce].

(* the choices that matter at a Start position / a cleanup position / a user-call position *)
Definition choices_spc (pc : spc) : list nat :=
  match pc with
  | SOpenA _ => [0; 1; 2; 3]
  | SOpenSrc _ | SOpenDlq _ | SStatus _ => [0; 1]
  | _ => [0]
  end.
Definition choices_cpc (pc : cpc) : list nat :=
  match pc with
  | CWait | CBackoff => [0; 1]
  | CStart q => choices_spc q
  | _ => [0]
  end.
Definition choices_upc (pc : upc) : list nat :=
  match pc with
  | UStart q => choices_spc q
  | UAct _ _ _ => [0; 1]
  | _ => [0]
  end.

Definition thread_acts (s : st) : list act :=
  (match s_user s with None => [] | Some (_, _, pc) => map AUser (choices_upc pc) end)
  ++ map (fun w => AWaiter (fst w)) (s_waits s)
  ++ flat_map (fun i => match s_cleans s i with
                        | Some pc => map (AClean i) (choices_cpc pc)
                        | None => []
                        end) (seq 0 (s_next s)).

Definition inj_acts (s : st) : list act :=
  flat_map (fun i => [AInject i CaFatal; AInject i CaTransient]) (seq 0 (s_next s)).

Definition all_acts (s : st) : list act :=
  thread_acts s ++ flat_map run_acts_of (seq 0 (s_next s)) ++ inj_acts s.

(* ---------- observations ---------- *)
(* error classes as the harness canonicalises them *)
Inductive ecls := CNil | CRunning | CNotRunning | CForce | CExhausted | CFatal | CTransient | CTimeout.

Definition ecls_eqb (a b : ecls) : bool :=
  match a, b with
  | CNil, CNil | CRunning, CRunning | CNotRunning, CNotRunning | CForce, CForce
  | CExhausted, CExhausted | CFatal, CFatal | CTransient, CTransient | CTimeout, CTimeout => true
  | _, _ => false
  end.

Inductive obs :=
| OStatus (s : status)
| OOpen | OOpenFail (c : conn) | OTd
| OInj (c : cause)                   (* a failure was injected; it may or may not surface *)
| OCall (k : ckind) (id : nat)
| ORet (id : nat) (e : ecls)
| ONotify (e : ecls).

Definition res_matches (r : res) (e : ecls) : bool :=
  match r, e with
  | ResNil, CNil => true
  | ResCause CaFatal, CFatal => true
  | ResCause CaTransient, CTransient => true
  | ResCause CaForce, CForce => true
  | ResRecovery, CExhausted | ResRecovery, CTransient | ResRecovery, CFatal => true
  | _, _ => false
  end.

Definition ret_matches (r : retc) (e : ecls) : bool :=
  match r, e with
  | RetNil, CNil => true
  | RetRunning, CRunning => true
  | RetNotRunning, CNotRunning => true
  | RetErr, CTransient => true
  | RetRes x, _ => res_matches x e
  | _, _ => false
  end.

Definition conn_eqb (x y : conn) : bool :=
  match x, y with KSrc, KSrc | KDst, KDst | KDlq, KDlq | KProc, KProc => true | _, _ => false end.

Definition obs_matches (o : obs) (l : label) : bool :=
  match o, l with
  | OStatus x, LStatus y => status_eqb x y
  | OOpen, LOpen => true
  | OOpenFail x, LOpenFail y => conn_eqb x y
  | OTd, LTd => true
  | OInj x, LInj y => cause_eqb x y
  | ORet i e, LRet j r => Nat.eqb i j && ret_matches r e
  | ONotify e, LNotify r => res_matches r e
  | _, _ => false
  end.

(* ---------- power-set simulation ---------- *)
Definition is_tau (l : label) : bool := match l with LTau => true | _ => false end.

(* the encoding packed into one positive number (base 128 digits, every digit >= 1): the key of a
   state in the visited set *)
Definition key (s : st) : positive :=
  fold_left (fun acc x => (acc * 128 + Pos.of_succ_nat x)%positive) (encode s) 1%positive.

Definition vset := PositiveMap.t unit.

(* add the states of [new] that are not yet in the visited set *)
Fixpoint add_new (new : list st) (acc : list st) (seen : vset) : list st * vset * list st :=
  match new with
  | [] => (acc, seen, [])
  | s :: t =>
      let k := key s in
      if PositiveMap.mem k seen then add_new t acc seen
      else let '(acc', seen', fresh) := add_new t (s :: acc) (PositiveMap.add k tt seen) in (acc', seen', s :: fresh)
  end.

Definition succ_by (c : cfg) (p : label -> bool) (s : st) : list st :=
  flat_map (fun a => match step c s a with
                     | Some (s', l) => if p l then [s'] else []
                     | None => []
                     end) (all_acts s).

(* cap: once the visited set is larger than cap the search stops (the caller then gives the log up) *)
Fixpoint closure (c : cfg) (cap fuel : nat) (frontier acc : list st) (encs : vset) : list st :=
  match fuel with
  | 0 => acc
  | S f =>
      match frontier with
      | [] => acc
      | _ =>
          let nxt := flat_map (succ_by c is_tau) frontier in
          let '(acc', encs', fresh) := add_new nxt acc encs in
          if cap <? length acc' then acc' else closure c cap f fresh acc' encs'
      end
  end.

Definition tau_close (c : cfg) (cap : nat) (X : list st) : list st :=
  let '(acc, encs, fresh) := add_new X [] (PositiveMap.empty unit) in
  closure c cap 64 fresh acc encs.

(* one observation: a call is issued by the environment, an injection is optional, everything else
   must be a step of the model *)
Definition obs_succ (c : cfg) (X : list st) (o : obs) : list st :=
  match o with
  | OCall k id =>
      flat_map (fun s => match step c s (ACall k id) with Some (s', _) => [s'] | None => [] end) X
  | OInj _ => X ++ flat_map (succ_by c (obs_matches o)) X
  | _ => flat_map (succ_by c (obs_matches o)) X
  end.

(* Some true: the log is a trace of the model; Some false: it is not; None: the set of candidate model
   states grew beyond cap, the search was given up (the log is neither accepted nor rejected) *)
Fixpoint accept_from (c : cfg) (cap : nat) (X : list st) (log : list obs) : option bool :=
  match log with
  | [] => Some (negb (match X with [] => true | _ => false end))
  | o :: t =>
      match tau_close c cap (obs_succ c X o) with
      | [] => Some false
      | X' => if cap <? length X' then None else accept_from c cap X' t
      end
  end.

Definition accepts (c : cfg) (cap : nat) (log : list obs) : option bool :=
  accept_from c cap (tau_close c cap [init]) log.

(* index of the first observation that empties the state set (for diagnostics) *)
Fixpoint reject_at (c : cfg) (cap : nat) (X : list st) (log : list obs) (i : nat) : option nat :=
  match log with
  | [] => None
  | o :: t =>
      match tau_close c cap (obs_succ c X o) with
      | [] => Some i
      | X' => if cap <? length X' then None else reject_at c cap X' t (S i)
      end
  end.

Definition rejects_at (c : cfg) (cap : nat) (log : list obs) : option nat :=
  reject_at c cap (tau_close c cap [init]) log 0.
