(* Proofs about the timed back-off model (Life/Backoff.v): for ALL timed histories. *)
From Verif Require Import Life.Backoff.
From Coq Require Import ZifyBool ZifyNat.
Local Open Scope Z_scope.

Definition undec (l : list att) : Z := Z.of_nat (length (filter (fun x => negb (a_dec x)) l)).

Record binv (c : bcfg) (s : bst) : Prop := mkBinv {
  i_past   : Forall (fun x => a_time x <= b_now s) (b_atts s);
  i_ctr    : b_ctr s = undec (b_atts s) + b_refused s;
  i_refnn  : 0 <= b_refused s;
  i_dec    : Forall (fun x => a_dec x = true -> a_time x + a_delay x + b_window c <= b_now s) (b_atts s);
  i_delay  : Forall (fun x => delay_ok c (a_n x) (a_delay x) = true /\ refuses c (a_n x) = false /\ 1 <= a_n x) (b_atts s);
  i_wake   : Forall (fun x => forall tw, a_wake x = Some tw -> a_time x + a_delay x <= tw) (b_atts s)
}.

Lemma filter_len_le {A} (p q : A -> bool) l :
  (forall x, In x l -> p x = true -> q x = true) ->
  (length (filter p l) <= length (filter q l))%nat.
Proof.
  induction l as [|x l IH]; intros H; simpl; [lia|].
  assert (IH' := IH (fun y Hy => H y (or_intror Hy))).
  destruct (p x) eqn:Ep.
  - rewrite (H x (or_introl eq_refl) Ep). simpl. lia.
  - destruct (q x); simpl; lia.
Qed.

Lemma filter_app_len {A} (p : A -> bool) l x :
  length (filter p (l ++ [x])) = (length (filter p l) + (if p x then 1 else 0))%nat.
Proof. rewrite filter_app, app_length. simpl. destruct (p x); simpl; lia. Qed.

Lemma upd_Forall {A} (P : A -> Prop) f i l :
  Forall P l -> (forall x, P x -> P (f x)) -> Forall P (upd i f l).
Proof.
  intros H Hf. revert i. induction H as [|x l Hx Hl IH]; intros i; destruct i; simpl; constructor; auto.
Qed.

Lemma upd_nth {A} f i (l : list A) x :
  nth_error l i = Some x -> nth_error (upd i f l) i = Some (f x).
Proof.
  revert i. induction l as [|y l IH]; intros i H; destruct i; simpl in *; try discriminate.
  - inversion H. reflexivity.
  - apply IH. exact H.
Qed.

Lemma nth_error_Forall {A} (P : A -> Prop) l i x : Forall P l -> nth_error l i = Some x -> P x.
Proof. intros H E. rewrite Forall_forall in H. apply H. eapply nth_error_In. exact E. Qed.

(* marking attempt i as decremented removes exactly one element from the undecremented set *)
Lemma undec_upd_dec i l a :
  nth_error l i = Some a -> a_dec a = false ->
  undec (upd i (fun a => mkAtt (a_time a) (a_n a) (a_delay a) true (a_wake a)) l) = undec l - 1.
Proof.
  unfold undec. revert i. induction l as [|y l IH]; intros i H Hd; destruct i; simpl in *; try discriminate.
  - injection H as ->. rewrite Hd. cbn [negb length]. rewrite Nat2Z.inj_succ. lia.
  - specialize (IH i H Hd). destruct (negb (a_dec y)); cbn [length] in *; rewrite ?Nat2Z.inj_succ; lia.
Qed.

Lemma undec_upd_wake i l t :
  undec (upd i (fun a => mkAtt (a_time a) (a_n a) (a_delay a) (a_dec a) (Some t)) l) = undec l.
Proof.
  unfold undec. revert i. induction l as [|y l IH]; intros i; destruct i; simpl; try reflexivity.
  - destruct (negb (a_dec y)); reflexivity.
  - specialize (IH i). destruct (negb (a_dec y)); simpl; lia.
Qed.

Lemma delay_ok_pos c n d : bcfg_ok c -> delay_ok c n d = true -> b_min c <= d /\ d <= b_max c.
Proof.
  intros (Hmin & Hmm & Hf & Hw & Hr) H. unfold delay_ok, delay_cap in H.
  destruct (b_max c <=? b_min c) eqn:E; lia.
Qed.

Lemma binv_init c : binv c binit.
Proof. constructor; simpl; try constructor; try reflexivity; lia. Qed.

Lemma binv_step c s e s' o : bcfg_ok c -> binv c s -> bstep c s e = Some (s', o) -> binv c s'.
Proof.
  intros Hc [Hp Hctr Hrn Hd Hdl Hw] Hs. destruct e as [dt|d|i|i]; simpl in Hs.
  - destruct (0 <=? dt) eqn:E; [|discriminate]. inversion Hs; subst; clear Hs.
    constructor; simpl; auto.
    + eapply Forall_impl; [|exact Hp]. simpl. intros; lia.
    + eapply Forall_impl; [|exact Hd]. simpl. intros a H1 H2. specialize (H1 H2). lia.
  - destruct (refuses c (b_ctr s + 1)) eqn:Er.
    + inversion Hs; subst; clear Hs. constructor; simpl; auto; lia.
    + destruct (delay_ok c (b_ctr s + 1) d) eqn:Ed; [|discriminate].
      inversion Hs; subst; clear Hs. constructor; simpl; auto.
      * apply Forall_app. split; [exact Hp|]. constructor; [simpl; lia|constructor].
      * unfold undec in *. rewrite filter_app_len. simpl. lia.
      * apply Forall_app. split; [exact Hd|]. constructor; [simpl; discriminate|constructor].
      * apply Forall_app. split; [exact Hdl|]. constructor; [|constructor]. simpl.
        repeat split; auto. unfold undec in Hctr. lia.
      * apply Forall_app. split; [exact Hw|]. constructor; [simpl; discriminate|constructor].
  - destruct (nth_error (b_atts s) i) as [a|] eqn:En; [|discriminate].
    destruct (negb (a_dec a) && (a_time a + a_delay a + b_window c <=? b_now s)) eqn:E; [|discriminate].
    inversion Hs; subst; clear Hs.
    assert (Had : a_dec a = false) by (destruct (a_dec a); simpl in E; [discriminate|reflexivity]).
    constructor; simpl; auto.
    + apply upd_Forall; auto.
    + rewrite (undec_upd_dec i _ a En Had). lia.
    + clear Hp Hdl Hw Hctr. revert i En. induction Hd as [|y l Hy Hl IH]; intros i En; destruct i; simpl in *; try discriminate.
      * injection En as ->. constructor; [|exact Hl]. simpl. intros _. lia.
      * constructor; [exact Hy|]. apply IH. exact En.
    + apply upd_Forall; auto.
    + apply upd_Forall; auto.
  - destruct (nth_error (b_atts s) i) as [a|] eqn:En; [|discriminate].
    destruct (a_wake a) eqn:Eaw; [discriminate|].
    destruct (a_time a + a_delay a <=? b_now s) eqn:E; [|discriminate].
    inversion Hs; subst; clear Hs. constructor; simpl; auto.
    + apply upd_Forall; auto.
    + rewrite undec_upd_wake. exact Hctr.
    + apply upd_Forall; auto.
    + apply upd_Forall; auto.
    + clear Hp Hdl Hd Hctr. revert i En. induction Hw as [|y l Hy Hl IH]; intros i En; destruct i; simpl in *; try discriminate.
      * injection En as ->. constructor; [|exact Hl]. simpl. intros tw Htw. inversion Htw. lia.
      * constructor; [exact Hy|]. apply IH. exact En.
Qed.

Lemma binv_run c evs : bcfg_ok c -> forall s s', binv c s -> brun c s evs = Some s' -> binv c s'.
Proof.
  intros Hc. induction evs as [|e r IH]; intros s s' Hi Hr; simpl in Hr.
  - inversion Hr; subst; exact Hi.
  - destruct (bstep c s e) as [[s1 o]|] eqn:E; [|discriminate].
    eapply IH; [|exact Hr]. eapply binv_step; eauto.
Qed.

(* ---------- the attempt bound ---------- *)

Definition bounded (c : bcfg) (s : bst) : Prop :=
  forall a, started_in a (b_window c) (b_atts s) <= b_maxretries c.

Lemma started_in_le_undec c s a :
  bcfg_ok c -> binv c s -> a <= b_now s -> b_now s <= a + b_window c ->
  started_in a (b_window c) (b_atts s) <= undec (b_atts s).
Proof.
  intros Hc [Hp Hctr Hrn Hd Hdl Hw] H1 H2. unfold started_in, undec.
  apply inj_le. apply filter_len_le. intros x Hx Hin.
  rewrite Forall_forall in Hd, Hdl. specialize (Hd x Hx). destruct (Hdl x Hx) as (Hok & _).
  destruct (delay_ok_pos c _ _ Hc Hok) as [Hlo _]. destruct Hc as (Hmin & _).
  destruct (a_dec x) eqn:E; [|reflexivity]. specialize (Hd eq_refl). lia.
Qed.

Lemma started_in_upd a len i (f : att -> att) l :
  (forall x, a_time (f x) = a_time x) -> started_in a len (upd i f l) = started_in a len l.
Proof.
  intros Hf. unfold started_in. f_equal. revert i.
  induction l as [|y l IH]; intros i; destruct i; simpl; auto.
  - rewrite Hf. destruct ((a <=? a_time y) && (a_time y <=? a + len)); reflexivity.
  - specialize (IH i). destruct ((a <=? a_time y) && (a_time y <=? a + len)); simpl; rewrite IH; reflexivity.
Qed.

Lemma bounded_step c s e s' o :
  bcfg_ok c -> 0 <= b_maxretries c -> binv c s -> bounded c s -> bstep c s e = Some (s', o) -> bounded c s'.
Proof.
  intros Hc Hmr Hi Hb Hs a. destruct e as [dt|d|i|i]; simpl in Hs.
  - destruct (0 <=? dt); [|discriminate]. inversion Hs; subst. apply Hb.
  - destruct (refuses c (b_ctr s + 1)) eqn:Er.
    + inversion Hs; subst. apply Hb.
    + destruct (delay_ok c (b_ctr s + 1) d); [|discriminate]. inversion Hs; subst; clear Hs. simpl.
      unfold started_in. rewrite filter_app_len. simpl.
      destruct ((a <=? b_now s) && (b_now s <=? a + b_window c)) eqn:Ein.
      * assert (Hle := started_in_le_undec c s a Hc Hi ltac:(lia) ltac:(lia)).
        unfold started_in in Hle. destruct Hi as [_ Hctr Hrn _ _ _].
        unfold refuses in Er. lia.
      * specialize (Hb a). unfold started_in in Hb. lia.
  - destruct (nth_error (b_atts s) i) as [x|]; [|discriminate].
    destruct (negb (a_dec x) && _); [|discriminate]. inversion Hs; subst; clear Hs. simpl.
    rewrite started_in_upd by reflexivity. apply Hb.
  - destruct (nth_error (b_atts s) i) as [x|]; [|discriminate].
    destruct (a_wake x); [discriminate|].
    destruct (a_time x + a_delay x <=? b_now s); [|discriminate]. inversion Hs; subst; clear Hs. simpl.
    rewrite started_in_upd by reflexivity. apply Hb.
Qed.

(* attempts_bounded: for every timed history, the number of restart attempts that were started
   (i.e. not refused) in ANY closed interval of length MaxRetriesWindow is at most MaxRetries *)
Theorem attempts_bounded_all c evs s :
  bcfg_ok c -> 0 <= b_maxretries c -> brun c binit evs = Some s ->
  forall a, started_in a (b_window c) (b_atts s) <= b_maxretries c.
Proof.
  intros Hc Hmr. 
  assert (G : forall evs s0 s1, binv c s0 -> bounded c s0 -> brun c s0 evs = Some s1 -> bounded c s1).
  { clear evs s. induction evs as [|e r IH]; intros s0 s1 Hi Hb Hr; simpl in Hr.
    - inversion Hr; subst; exact Hb.
    - destruct (bstep c s0 e) as [[s2 o]|] eqn:E; [|discriminate].
      eapply IH; [| |exact Hr].
      + eapply binv_step; eauto.
      + eapply bounded_step; eauto. }
  intros Hr. eapply G; [apply binv_init| |exact Hr].
  intros a. unfold started_in. simpl. lia.
Qed.

(* with MaxRetries = -1 nothing is ever refused *)
Theorem unbounded_never_refuses c evs s :
  b_maxretries c = -1 -> brun c binit evs = Some s -> b_refused s = 0.
Proof.
  intros Hm. 
  assert (G : forall evs s0 s1, b_refused s0 = 0 -> brun c s0 evs = Some s1 -> b_refused s1 = 0).
  { clear evs s. induction evs as [|e r IH]; intros s0 s1 H0 Hr; simpl in Hr.
    - inversion Hr; subst; exact H0.
    - destruct (bstep c s0 e) as [[s2 o]|] eqn:E; [|discriminate].
      eapply IH; [|exact Hr]. destruct e as [dt|d|i|i]; simpl in E.
      + destruct (0 <=? dt); inversion E; subst; exact H0.
      + unfold refuses in E. rewrite Hm in E. simpl in E.
        destruct (delay_ok c (b_ctr s0 + 1) d); inversion E; subst; exact H0.
      + destruct (nth_error (b_atts s0) i) as [x|]; [|discriminate].
        destruct (negb (a_dec x) && _); inversion E; subst; exact H0.
      + destruct (nth_error (b_atts s0) i) as [x|]; [|discriminate].
        destruct (a_wake x); [discriminate|].
        destruct (a_time x + a_delay x <=? b_now s0); inversion E; subst; exact H0. }
  intros Hr. apply (G evs binit s); [reflexivity|exact Hr].
Qed.

(* transient_restarts_within_bounds: every accepted attempt sleeps for a delay inside
   [Min, Max], bounded by Min*Factor^attempt, and the restart never happens before the delay *)
Theorem delays_within_bounds c evs s :
  bcfg_ok c -> brun c binit evs = Some s ->
  Forall (fun x => b_min c <= a_delay x <= b_max c
                   /\ (b_min c < b_max c -> a_delay x <= b_min c * b_factor c ^ a_n x)
                   /\ (forall tw, a_wake x = Some tw -> a_time x + b_min c <= tw)) (b_atts s).
Proof.
  intros Hc Hr. assert (Hi := binv_run c evs Hc _ _ (binv_init c) Hr).
  destruct Hi as [_ _ _ _ Hdl Hw]. rewrite Forall_forall in *. intros x Hx.
  destruct (Hdl x Hx) as (Hok & _ & _). specialize (Hw x Hx).
  destruct (delay_ok_pos c _ _ Hc Hok) as [Hlo Hhi]. split; [lia|]. split.
  - intros Hlt. unfold delay_ok, delay_cap in Hok.
    destruct (b_max c <=? b_min c) eqn:E; lia.
  - intros tw Htw. specialize (Hw tw Htw). lia.
Qed.

(* an attempt is refused exactly when the shared counter would exceed MaxRetries *)
Lemma refuse_rule c s d :
  bstep c s (Attempt d) = Some (mkBst (b_now s) (b_ctr s + 1) (b_atts s) (b_refused s + 1), ORefused (b_ctr s + 1))
  <-> (b_maxretries c <> -1 /\ b_maxretries c < b_ctr s + 1).
Proof.
  simpl. unfold refuses. split.
  - intros H. destruct (negb (b_maxretries c =? -1) && (b_maxretries c <? b_ctr s + 1)) eqn:E; [lia|].
    destruct (delay_ok c (b_ctr s + 1) d); discriminate.
  - intros [H1 H2].
    replace (negb (b_maxretries c =? -1) && (b_maxretries c <? b_ctr s + 1)) with true by lia.
    reflexivity.
Qed.

(* ---------- the guards at wake-up ---------- *)
Lemma superseded_never_restarts e shut : wake_decision e false shut = Superseded.
Proof. destruct e; reflexivity. Qed.

Lemma shutdown_never_restarts_v2 live : wake_decision V2 live true <> DoStart.
Proof. destruct live; simpl; discriminate. Qed.

Lemma shutdown_restarts_v1 : wake_decision V1 true true = DoStart.
Proof. reflexivity. Qed.

(* ---------- mutation analysis: a counter reset by every restart is unbounded ---------- *)
Fixpoint brun_reset (c : bcfg) (s : bst) (evs : list bev) : option bst :=
  match evs with
  | [] => Some s
  | e :: r => match bstep_reset c s e with
              | Some (s', _) => brun_reset c s' r
              | None => None
              end
  end.

Example reset_counter_unbounded :
  let c := mkBcfg 1 10 2 2 50 in
  exists s, brun_reset c binit [Attempt 1; Tick 2; Attempt 1; Tick 2; Attempt 1; Tick 2; Attempt 1] = Some s
            /\ started_in 0 50 (b_atts s) = 4.
Proof. vm_compute. eexists. split; reflexivity. Qed.

(* ---------- an attempt outside the window is forgotten ---------- *)
(* accepted attempts whose decrement timer (attempt time + delay + MaxRetriesWindow) has not come due yet *)
Definition pending (c : bcfg) (s : bst) : Z :=
  Z.of_nat (length (filter (fun x => b_now s <? a_time x + a_delay x + b_window c) (b_atts s))).

(* every decrement timer that is due has fired (timers are never early - [binv] - and here: not late) *)
Definition timers_fired (c : bcfg) (s : bst) : Prop :=
  Forall (fun x => a_time x + a_delay x + b_window c <= b_now s -> a_dec x = true) (b_atts s).

Lemma undec_le_pending c s : timers_fired c s -> undec (b_atts s) <= pending c s.
Proof.
  unfold timers_fired, undec, pending. intros H. induction (b_atts s) as [|x l IH]; simpl; [lia|].
  inversion H as [|y l' Hy Hl]; subst. specialize (IH Hl).
  destruct (a_dec x) eqn:Ed; simpl.
  - destruct (b_now s <? a_time x + a_delay x + b_window c); cbn [length]; lia.
  - destruct (b_now s <? a_time x + a_delay x + b_window c) eqn:E; cbn [length]; [lia|].
    exfalso. assert (Hx : false = true) by (apply Hy; lia). discriminate.
Qed.

(* in every reachable state of the back-off in which nothing was refused so far: when fewer than MaxRetries
   accepted attempts are still inside their window, the next attempt is accepted *)
Theorem attempt_outside_window_is_forgotten c s d s' o :
  binv c s -> b_refused s = 0 -> timers_fired c s -> pending c s < b_maxretries c ->
  bstep c s (Attempt d) = Some (s', o) -> exists n, o = OAccepted n d.
Proof.
  intros HI Hr Ht Hp H. pose proof (i_ctr c s HI) as Hc. pose proof (undec_le_pending c s Ht) as Hu.
  simpl in H. unfold refuses in H.
  replace (negb (b_maxretries c =? -1) && (b_maxretries c <? b_ctr s + 1)) with false in H by lia.
  destruct (delay_ok c (b_ctr s + 1) d); inversion H. eauto.
Qed.

(* the variant in which a restarted run gets a COPY of the counter (the decrement timers of earlier
   attempts act on the dead run's counter): attempts are never forgotten *)
Definition bstep_byvalue (c : bcfg) (s : bst) (e : bev) : option (bst * bout) :=
  match e with
  | Dec i => match bstep c s e with
             | Some (s', o) => Some (mkBst (b_now s') (b_ctr s) (b_atts s') (b_refused s'), o)
             | None => None
             end
  | _ => bstep c s e
  end.

Fixpoint brun_with (step : bcfg -> bst -> bev -> option (bst * bout)) (c : bcfg) (s : bst) (evs : list bev)
  : option (bst * list bout) :=
  match evs with
  | [] => Some (s, [])
  | e :: r => match step c s e with
              | Some (s', o) => match brun_with step c s' r with Some (s'', os) => Some (s'', o :: os) | None => None end
              | None => None
              end
  end.

(* MaxRetries 1, window 20: two failures 100 apart. The code accepts the second attempt; the by-value
   variant refuses it *)
Example by_value_counter_refuses_isolated_failure :
  let c := mkBcfg 1 5 2 1 20 in
  let evs := [Attempt 1; Tick 1; Wake 0; Tick 100; Dec 0; Attempt 1] in
  (match brun_with bstep c binit evs with Some (_, os) => last os OTick | None => OTick end = OAccepted 1 1)
  /\ (match brun_with bstep_byvalue c binit evs with Some (_, os) => last os OTick | None => OTick end = ORefused 2).
Proof. vm_compute. split; reflexivity. Qed.
