(* Invariants of the lifecycle interleaving model (Life/RunMap.v), by induction over ARBITRARY
   action lists (every schedule). *)
From Verif Require Import Life.RunMap.
From Coq Require Import Lia.

(* ------------------------------------------------------------------ *)
(* destruct every match / if in the goal and in the step hypothesis    *)
Ltac case_step H :=
  repeat match type of H with
  | context [match ?x with _ => _ end] =>
      let E := fresh "E" in destruct x eqn:E; try discriminate H
  | context [if ?x then _ else _] =>
      let E := fresh "E" in destruct x eqn:E; try discriminate H
  end.

(* ------------------------------------------------------------------ *)
(* G: a run whose source plugin is open holds the connector guard      *)
Definition G (s : st) : Prop := forall j, src_open (s_runs s j) = true -> s_guard s = Some j.

Lemma G_init : G init.
Proof. intros j H. simpl in H. discriminate. Qed.

(* generic: updating run i with a run that is not open, guard unchanged *)
Lemma G_upd_closed s i x : G s -> src_open x = false -> G (upd_run s i x).
Proof.
  intros HG Hx j Hj. unfold upd_run, with_runs, fupd in *. simpl in *.
  destruct (Nat.eqb j i) eqn:E; [congruence|]. apply HG. exact Hj.
Qed.

(* updating run i keeping its source state *)
Lemma G_upd_same s i x : G s -> src_open x = src_open (s_runs s i) -> G (upd_run s i x).
Proof.
  intros HG Hx j Hj. unfold upd_run, with_runs, fupd in *. simpl in *.
  destruct (Nat.eqb j i) eqn:E.
  - apply Nat.eqb_eq in E. subst j. apply HG. congruence.
  - apply HG. exact Hj.
Qed.

Lemma G_open s i x : G s -> s_guard s = None -> G (upd_run (with_guard s (Some i)) i x).
Proof.
  intros HG Hn j Hj. unfold upd_run, with_runs, with_guard, fupd in *. simpl in *.
  destruct (Nat.eqb j i) eqn:E.
  - apply Nat.eqb_eq in E. subst j. reflexivity.
  - specialize (HG j Hj). congruence.
Qed.

Lemma G_close s i x : G s -> s_guard s = Some i -> src_open x = false -> G (upd_run (with_guard s None) i x).
Proof.
  intros HG Hg Hx j Hj. unfold upd_run, with_runs, with_guard, fupd in *. simpl in *.
  destruct (Nat.eqb j i) eqn:E; [congruence|].
  specialize (HG j Hj). rewrite Hg in HG. inversion HG. subst. rewrite Nat.eqb_refl in E. discriminate.
Qed.

(* the other state components do not matter *)
Lemma G_ext s s' : s_runs s' = s_runs s -> s_guard s' = s_guard s -> G s -> G s'.
Proof. intros H1 H2 HG j Hj. rewrite H1 in Hj. rewrite H2. apply HG. exact Hj. Qed.

Lemma get_run_some s i r : get_run s i = Some r -> r = s_runs s i.
Proof. unfold get_run. destruct (i <? s_next s); congruence. Qed.

Lemma onat_eqb_eq a b : onat_eqb a b = true -> a = b.
Proof.
  destruct a, b; simpl; try discriminate; auto. intros H. apply Nat.eqb_eq in H. congruence.
Qed.

Ltac unf := unfold finish_clean, set_clean, rel_proc, upd_run, with_runs, with_guard, with_cleans, with_status,
  with_map, with_terr, with_proc, with_shutdown, with_user, with_waits, with_next, with_cur in *.

(* split every match / if of the goal *)
Ltac split_goal :=
  repeat match goal with
  | |- context [match ?x with _ => _ end] => let E := fresh "E" in destruct x eqn:E
  | |- context [if ?x then _ else _] => let E := fresh "E" in destruct x eqn:E
  end.

(* prove G of an updated state from G of the old one *)
Ltac inv_eqs :=
  repeat match goal with
  | H : SNext _ _ _ = SNext _ _ _ |- _ => inversion H; clear H; subst
  | H : SFin _ _ _ = SFin _ _ _ |- _ => inversion H; clear H; subst
  | H : Some _ = Some _ |- _ => inversion H; clear H; subst
  | H : SNext _ _ _ = _ |- _ => discriminate H
  | H : SFin _ _ _ = _ |- _ => discriminate H
  | H : SStuck = _ |- _ => discriminate H
  | H : None = Some _ |- _ => discriminate H
  end.

(* split every match / if occurring in hypothesis H *)
Ltac split_hyp H :=
  repeat match type of H with
  | context [match ?x with _ => _ end] => let E := fresh "E" in destruct x eqn:E
  | context [if ?x then _ else _] => let E := fresh "E" in destruct x eqn:E
  end.

Ltac g_tac HG :=
  try exact I; inv_eqs;
  let j := fresh "j" in let Hj := fresh "Hj" in
  intros j Hj; unf; simpl in *; unfold fupd in *;
  repeat match goal with
  | H : context [if ?x then _ else _] |- _ => let E := fresh "E" in destruct x eqn:E; simpl in *
  | H : context [match ?x with _ => _ end] |- _ => let E := fresh "E" in destruct x eqn:E; simpl in *
  end;
  repeat match goal with
  | H : Nat.eqb _ _ = true |- _ => apply Nat.eqb_eq in H; subst
  | H : onat_eqb _ _ = true |- _ => apply onat_eqb_eq in H
  | H : get_run _ _ = Some _ |- _ => apply get_run_some in H; subst
  end;
  simpl in *; try discriminate; try congruence;
  try (specialize (HG _ Hj); congruence);
  try (exfalso;
       match goal with
       | E : r_src (s_runs ?s0 ?r0) = SOpen |- _ =>
           let H1 := fresh "H1" in
           assert (H1 : s_guard s0 = Some r0) by (apply HG; unfold src_open; rewrite E; reflexivity);
           specialize (HG _ Hj); rewrite H1 in HG; inversion HG; subst;
           match goal with E0 : (?a =? ?a) = false |- _ => rewrite Nat.eqb_refl in E0; discriminate E0 end
       end);
  try (exfalso;
       match goal with
       | H1 : s_guard ?s0 = Some ?r0 |- _ =>
           specialize (HG _ Hj); rewrite H1 in HG; inversion HG; subst;
           match goal with E0 : (?a =? ?a) = false |- _ => rewrite Nat.eqb_refl in E0; discriminate E0 end
       end).

Lemma start_step_G c s pc ch : G s ->
  match start_step c s pc ch with SNext s' _ _ => G s' | SFin s' _ _ => G s' | SStuck => True end.
Proof.
  intros HG. destruct (start_step c s pc ch) eqn:H; [| |exact I];
    destruct pc; simpl in H; split_hyp H; g_tac HG.
  all: match goal with
       | E : src_open _ && onat_eqb (s_guard ?s0) (Some ?r0) = true, Hj : src_open (s_runs ?s0 ?j) = true,
         E2 : (?j =? ?r0) = false |- _ =>
           apply andb_true_iff in E; destruct E as [_ E]; apply onat_eqb_eq in E;
           specialize (HG _ Hj); rewrite E in HG; inversion HG; subst;
           rewrite Nat.eqb_refl in E2; discriminate E2
       end.
Qed.

(* while the map entry is still run i the guard of the failed-recovery arm is open: Degraded is written *)
Lemma close_failed_recovery_owner c s i goto : s_map s = Some i ->
  close_failed_recovery c s i goto = goto (with_status s Degraded) (CTail1 ResRecovery) (LStatus Degraded).
Proof.
  intros Hm. unfold close_failed_recovery, owns_close. rewrite Hm. simpl. rewrite Nat.eqb_refl, orb_true_r. reflexivity.
Qed.

Lemma clean_step_G c s i ch s' l : G s -> clean_step c s i ch = Some (s', l) -> G s'.
Proof.
  intros HG H. unfold clean_step in H.
  destruct (get_run s i) as [r|] eqn:Er; [|discriminate].
  destruct (s_cleans s i) as [pc|] eqn:Ec; [|discriminate].
  destruct pc as [| | |q| | | |].
  4:{ (* CStart: the nested Start *)
      pose proof (start_step_G c s q ch HG) as HS.
      destruct (start_step c s q ch) as [s1 pc1 l1|s1 x l1|]; [| |discriminate].
      - inversion H; subst; clear H. g_tac HS.
      - destruct x; split_hyp H; g_tac HS. }
  all: unfold close_failed_recovery in H; split_hyp H; g_tac HG.
Qed.

Lemma user_step_G c s ch s' l : G s -> user_step c s ch = Some (s', l) -> G s'.
Proof.
  intros HG H. unfold user_step in H.
  destruct (s_user s) as [[[id k] pc]|] eqn:Eu; [|discriminate].
  destruct pc as [q| | | | | | | |].
  1:{ pose proof (start_step_G c s q ch HG) as HS.
      destruct (start_step c s q ch) as [s1 pc1 l1|s1 x l1|]; [| |discriminate];
        inversion H; subst; clear H; g_tac HS. }
  all: split_hyp H; g_tac HG.
Qed.

Lemma waiter_step_G s id s' l : G s -> waiter_step s id = Some (s', l) -> G s'.
Proof. intros HG H. unfold waiter_step in H. split_hyp H; g_tac HG. Qed.

Lemma call_step_G c s k id s' l : G s -> call_step c s k id = Some (s', l) -> G s'.
Proof. intros HG H. unfold call_step in H. split_hyp H; g_tac HG. Qed.

Lemma env_step_G c s a s' l : G s -> env_step c s a = Some (s', l) -> G s'.
Proof.
  intros HG H. unfold env_step in H. destruct a; try discriminate; split_hyp H;
    repeat match goal with H : _ && _ = true |- _ => apply andb_prop in H; destruct H end;
    g_tac HG.
Qed.

Theorem step_G c s a s' l : G s -> step c s a = Some (s', l) -> G s'.
Proof.
  intros HG H. destruct a; unfold step in H.
  - eapply call_step_G; eauto.
  - eapply user_step_G; eauto.
  - eapply waiter_step_G; eauto.
  - eapply clean_step_G; eauto.
  - eapply env_step_G; eauto.
  - eapply env_step_G; eauto.
  - eapply env_step_G; eauto.
  - eapply env_step_G; eauto.
  - eapply env_step_G; eauto.
  - eapply env_step_G; eauto.
  - eapply env_step_G; eauto.
  - eapply env_step_G; eauto.
Qed.

Theorem run_acts_G c acts : forall s s', G s -> run_acts c s acts = Some s' -> G s'.
Proof.
  induction acts as [|a t IH]; intros s s' HG H; simpl in H.
  - inversion H; subst; exact HG.
  - destruct (step c s a) as [[s1 l]|] eqn:E; [|discriminate]. eapply IH; [|exact H]. eapply step_G; eauto.
Qed.

(* ---------- at_most_one_live_run ---------- *)
Lemma filter_all_eq (p : nat -> bool) (g : nat) (l : list nat) :
  NoDup l -> (forall i, In i l -> p i = true -> i = g) -> length (filter p l) <= 1.
Proof.
  intros Hnd H. induction Hnd as [|x l Hx Hnd IH]; simpl; [lia|].
  assert (IH' : length (filter p l) <= 1) by (apply IH; intros; apply H; simpl; auto).
  destruct (p x) eqn:Ep; [|exact IH'].
  simpl. assert (x = g) by (apply H; simpl; auto). subst x.
  assert (filter p l = []) as ->; [|simpl; lia].
  clear IH IH'. induction l as [|y l IHl]; [reflexivity|]. simpl.
  destruct (p y) eqn:Epy.
  - exfalso. apply Hx. assert (y = g) by (apply H; simpl; auto). subst. simpl. auto.
  - apply IHl.
    + intros Hin. apply Hx. simpl. auto.
    + inversion Hnd; assumption.
    + intros i Hi. apply H. simpl in *. tauto.
Qed.

(* for every interleaving, at most one run has its source plugin open *)
Theorem at_most_one_live_run c acts s : run_acts c init acts = Some s -> n_open s <= 1.
Proof.
  intros H. pose proof (run_acts_G c acts init s G_init H) as HG. unfold n_open.
  destruct (s_guard s) as [g|] eqn:Eg.
  - apply (filter_all_eq _ g); [apply seq_NoDup|]. intros i _ Hi. specialize (HG i Hi). congruence.
  - apply (filter_all_eq _ 0); [apply seq_NoDup|]. intros i _ Hi. specialize (HG i Hi). congruence.
Qed.
