(* Executable correspondence (trace acceptance) + property monitors for the C10 / C11 case files.
   bit 0: the lifecycle model (Life/RunMap.v through Life/Accept.v) rejects the observed event log
   bit 1: the property monitor (Life/Mon.v) rejects it; the higher bits name the violated rules. *)
From Verif Require Import Base.CaseCheck Life.RunMap Life.Accept Life.Mon Life.Fanout.
Local Open Scope Z_scope.

Record lcase := mkLcase { lc_cfg : lcfg; lc_log : list lev }.

(* ---- which tomb reason an injected failure can put on the tomb IN THE CODE of each engine ---- *)
Definition cause_of_reason (r : reason) : cause :=
  match r with RFatal => CaFatal | _ => CaTransient end.

(* the class of the error that reaches the tomb for the failures [ms] of one event ([] = none).  More than one member:
   arch-v2, the errors.Join of the failures of one batch pass (Life/Fanout.v: fatal iff a member is fatal). *)
Definition engine_cause (cf : lcfg) (ms : list pfail) : option cause :=
  match ms with
  | [] => None
  | _ => Some (cause_of_reason (join_reason (map (engine_tag (l_engine cf) true) ms)))
  end.

Fixpoint to_obs (cf : lcfg) (log : list (lev * list pfail)) : list obs :=
  match log with
  | [] => []
  | (e, ms) :: t =>
      match e with
      | EvSt _ x => OStatus x :: to_obs cf t
      | EvOpen _ KSrc => OOpen :: to_obs cf t
      | EvOpenFail c =>
          match l_engine cf, c with
          | V1, KSrc => OOpenFail KSrc :: to_obs cf t
          | V1, _ => OInj CaTransient :: to_obs cf t
          | V2, _ => OOpenFail c :: to_obs cf t
          end
      | EvTd _ KSrc => OTd :: to_obs cf t
      | EvInj _ _ =>
          match engine_cause cf ms with
          | Some c => OInj c :: to_obs cf t
          | None => to_obs cf t
          end
      | EvCall k id => OCall k id :: to_obs cf t
      | EvRet _ id x => ORet id x :: to_obs cf t
      | EvNotify x => ONotify x :: to_obs cf t
      | _ => to_obs cf t
      end
  end.

Definition model_cfg (cf : lcfg) : cfg := mkCfg (l_engine cf) (l_proc cf) true repaired true.

(* the acceptor gives a log up when more than [acc_cap] model states are compatible with it *)
Definition acc_cap : nat := 300.

(* false only when the model REJECTS the log (a log that was given up is not counted as a disagreement) *)
Definition accepted (c : lcase) : bool :=
  match accepts (model_cfg (lc_cfg c)) acc_cap (to_obs (lc_cfg c) (annot (lc_cfg c) (lc_log c))) with
  | Some false => false
  | _ => true
  end.

Definition code_of (acc : bool) (v : N) : nat :=
  (if acc then 0 else 1) + (if N.eqb v 0 then 0 else 2) + N.to_nat (N.land v (N.lnot 3 16)).

Definition chk10 (c : lcase) : nat := code_of (accepted c) (mon10 (lc_cfg c) (lc_log c)).
Definition chk11 (c : lcase) : nat := code_of (accepted c) (mon11 (lc_log c)).

(* diagnostics: where the acceptor gives up *)
Definition where_rejected (c : lcase) : option nat :=
  rejects_at (model_cfg (lc_cfg c)) acc_cap (to_obs (lc_cfg c) (annot (lc_cfg c) (lc_log c))).
