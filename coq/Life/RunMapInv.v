(* C11 - the run map of the default engine (pkg/lifecycle, "v1") under the one restriction that no
   Start passes its status check while the status is Recovering ([polite]).  The inductive invariant
   [Inv] says who owns the lifecycle of the pipeline at any instant:

     at most one "holder" exists: a Start (the user's, or the one nested in a recovery) that is past its
     status check, or a cleanup goroutine that has not yet reached its tail; the status, the run map and
     the run that announced Running are determined by the holder; cleanup goroutines in their tail only
     touch terminalErrors and compare-and-delete their OWN entry.

   From [Inv]: running_implies_map_is_live, status_agrees_with_last_run_end, teardown_releases_guards,
   wait_resolves_the_live_run - for every interleaving (induction over arbitrary action lists).
   Without [polite] the statements are refuted (Life/Witness.v). *)
From Verif Require Import Life.RunMap Life.RunMapProofs.
From Coq Require Import Lia.

Definition nontail (p : option cpc) : bool :=
  match p with
  | None | Some (CTail1 _) | Some (CTail2 _) | Some (CTail3 _) => false
  | Some _ => true
  end.

Definition user_start (s : st) : option spc :=
  match s_user s with Some (_, _, UStart pc) => Some pc | _ => None end.

(* the user's Start is past its status check *)
Definition user_holds (s : st) : bool :=
  match user_start s with Some SCheck | None => false | Some _ => true end.

(* some Start (user or nested) stands at pc *)
Definition at_start (s : st) (pc : spc) : Prop :=
  user_start s = Some pc \/ exists i, s_cleans s i = Some (CStart pc).

Definition alive (r : run) : Prop := r_phase r = PLive \/ r_phase r = PEnded.

Definition pre_status (s : st) (nested : bool) : Prop :=
  if nested then s_status s = Recovering else stopped_b (s_status s) = true.

(* what holds while a v1 Start stands at pc *)
Definition spc_ok (s : st) (pc : spc) (nested : bool) : Prop :=
  match pc with
  | SCheck => if nested then s_status s = Recovering else True
  | SBuild => pre_status s nested
  | SClear r | SSpawn r =>
      pre_status s nested /\ r < s_next s /\ r_phase (s_runs s r) = PNew /\ s_cleans s r = None
  | SPublish r =>
      pre_status s nested /\ r < s_next s /\ alive (s_runs s r) /\ s_cleans s r = None
  | SStatus r =>
      pre_status s nested /\ s_map s = Some r /\ r < s_next s /\ alive (s_runs s r) /\ s_cleans s r = None
  | SRegister r =>
      s_status s = Running /\ s_map s = Some r /\ s_cur s = Some r /\ r < s_next s /\ alive (s_runs s r)
      /\ s_cleans s r = None
  | SOpenA _ | SOpenSrc _ | SOpenDlq _ | SRollback _ => False
  end.

(* the nested Start has not replaced the map entry of its cleanup goroutine yet *)
Definition before_publish (pc : spc) : bool :=
  match pc with SCheck | SBuild | SClear _ | SSpawn _ | SPublish _ => true | _ => false end.

Definition clean_ok (s : st) (i : nat) (pc : cpc) : Prop :=
  i < s_next s /\
  match pc with
  | CWait => alive (s_runs s i) /\ s_status s = Running /\ s_map s = Some i /\ s_cur s = Some i
  | CBackoff | CWake | CFailed =>
      r_phase (s_runs s i) = PEnded /\ s_status s = Recovering /\ s_map s = Some i
  | CStart q =>
      r_phase (s_runs s i) = PEnded /\ spc_ok s q true /\ (before_publish q = true -> s_map s = Some i)
  | CTail1 _ | CTail2 _ => r_phase (s_runs s i) = PEnded
  | CTail3 _ => r_phase (s_runs s i) = PEnded /\ s_map s <> Some i
  end.

Definition map_owned (s : st) (m : nat) : Prop :=
  (exists pc, s_cleans s m = Some pc /\ match pc with CTail3 _ => False | _ => True end)
  \/ at_start s (SStatus m) \/ at_start s (SRegister m).

Definition run_ok (s : st) (i : nat) : Prop :=
  match r_phase (s_runs s i) with
  | PNew => at_start s (SClear i) \/ at_start s (SSpawn i)
  | PLive | PEnded =>
      s_cleans s i <> None \/ at_start s (SPublish i) \/ at_start s (SStatus i) \/ at_start s (SRegister i)
  | PDead => s_cleans s i = None
  end.

Record Inv (s : st) : Prop := mkInv {
  i_one   : forall i j, nontail (s_cleans s i) = true -> nontail (s_cleans s j) = true -> i = j;
  i_excl  : user_holds s = true -> forall i, nontail (s_cleans s i) = false;
  i_user  : forall pc, user_start s = Some pc -> spc_ok s pc false;
  i_clean : forall i pc, s_cleans s i = Some pc -> clean_ok s i pc;
  i_idle  : user_holds s = false -> (forall i, nontail (s_cleans s i) = false) -> stopped_b (s_status s) = true;
  i_map   : forall m, s_map s = Some m -> map_owned s m;
  i_run   : forall i, i < s_next s -> run_ok s i;
  i_range : forall i, s_next s <= i -> s_cleans s i = None;
  i_live  : forall i, src_open (s_runs s i) = true -> r_phase (s_runs s i) = PLive /\ i < s_next s;
  i_proc  : forall p, s_proc s = Some p -> p < s_next s /\ (r_phase (s_runs s p) = PNew \/ r_phase (s_runs s p) = PLive)
}.

(* the restriction: the user's Start does not take its status check while the status is Recovering *)
Definition polite (s : st) (a : act) : Prop :=
  match a with
  | AUser _ => user_start s = Some SCheck -> s_status s <> Recovering
  | _ => True
  end.

Lemma Inv_init : Inv init.
Proof.
  constructor; simpl; try discriminate; try (intros; discriminate); try reflexivity; try (intros; lia); auto.
Qed.

Lemma option_eq_dec_nat (a b : option nat) : {a = b} + {a <> b}.
Proof. decide equality. apply Nat.eq_dec. Qed.

(* ------------------------------------------------------------------ *)
(* frame lemmas: a step that only touches one run (and the guards)     *)

Definition pclass (p : rphase) : nat := match p with PNew => 0 | PLive | PEnded => 1 | PDead => 2 end.

Lemma at_start_frame s s' pc :
  s_user s' = s_user s -> s_cleans s' = s_cleans s -> at_start s pc -> at_start s' pc.
Proof. unfold at_start, user_start. intros -> ->. auto. Qed.

(* replace run i by x (same phase class), set guard and proc: everything that does not look at the
   run's other fields survives *)
Lemma Inv_run_update s i x g p :
  Inv s ->
  pclass (r_phase x) = pclass (r_phase (s_runs s i)) ->
  (r_phase (s_runs s i) = PEnded -> r_phase x = PEnded) ->
  (src_open x = true -> r_phase x = PLive /\ i < s_next s) ->
  (forall q, p = Some q -> q < s_next s /\
             (r_phase (fupd (s_runs s) i x q) = PNew \/ r_phase (fupd (s_runs s) i x q) = PLive)) ->
  Inv (with_proc (with_guard (upd_run s i x) g) p).
Proof.
  intros [H1 H2 H3 H4 H5 H6 H7 H8 H9 H10] Hc He Ho Hp.
  assert (Hal : forall j, alive (s_runs s j) -> alive (fupd (s_runs s) i x j)).
  { intros j Hj. unfold fupd. destruct (Nat.eqb j i) eqn:E; [|exact Hj].
    apply Nat.eqb_eq in E. subst j. unfold alive in *.
    destruct (r_phase (s_runs s i)) eqn:E1, (r_phase x) eqn:E2; simpl in Hc; try discriminate; auto;
      destruct Hj; try discriminate; auto; try (specialize (He eq_refl); discriminate). }
  assert (Hnew : forall j, r_phase (s_runs s j) = PNew -> r_phase (fupd (s_runs s) i x j) = PNew).
  { intros j Hj. unfold fupd. destruct (Nat.eqb j i) eqn:E; [|exact Hj].
    apply Nat.eqb_eq in E. subst j. rewrite Hj in Hc. destruct (r_phase x); simpl in Hc; try discriminate; auto. }
  assert (Hend : forall j, r_phase (s_runs s j) = PEnded -> r_phase (fupd (s_runs s) i x j) = PEnded).
  { intros j Hj. unfold fupd. destruct (Nat.eqb j i) eqn:E; [|exact Hj].
    apply Nat.eqb_eq in E. subst j. auto. }
  assert (Hspc : forall pc n, spc_ok s pc n -> spc_ok (with_proc (with_guard (upd_run s i x) g) p) pc n).
  { intros pc n. destruct pc; simpl; auto; intuition auto. }
  constructor; simpl; auto.
  - intros j pc Hj. specialize (H4 j pc Hj). unfold clean_ok in *. simpl.
    destruct H4 as [Hlt H4]. split; [exact Hlt|].
    destruct pc; intuition auto.
  - intros j Hj. specialize (H7 j Hj). unfold run_ok in *. simpl.
    unfold fupd at 1. destruct (Nat.eqb j i) eqn:E; [|exact H7].
    apply Nat.eqb_eq in E. subst j.
    destruct (r_phase (s_runs s i)), (r_phase x); simpl in Hc; try discriminate; auto.
  - intros j Hj. unfold fupd in Hj |- *. destruct (Nat.eqb j i) eqn:E.
    + apply Nat.eqb_eq in E. subst j. apply Ho. exact Hj.
    + apply H9. exact Hj.
Qed.

Lemma andb_true_l a b : a && b = true -> a = true. Proof. destruct a; simpl; auto. Qed.
Lemma andb_true_r a b : a && b = true -> b = true. Proof. destruct a, b; simpl; auto. Qed.

Ltac bools :=
  repeat match goal with
  | H : _ && _ = true |- _ =>
      let H1 := fresh H in let H2 := fresh H in
      pose proof (andb_true_l _ _ H) as H1; pose proof (andb_true_r _ _ H) as H2; clear H
  end.

Lemma is_live_phase r : is_live r = true -> r_phase r = PLive.
Proof. unfold is_live. destruct (r_phase r); try discriminate; auto. Qed.

Lemma env_step_Inv c s a s' l : Inv s -> env_step c s a = Some (s', l) -> Inv s'.
Proof.
  intros HI H. pose proof HI as [H1 H2 H3 H4 H5 H6 H7 H8 H9 H10].
  assert (Hproc_same : forall i x, r_phase x = r_phase (s_runs s i) ->
            forall q, s_proc s = Some q -> q < s_next s /\
             (r_phase (fupd (s_runs s) i x q) = PNew \/ r_phase (fupd (s_runs s) i x q) = PLive)).
  { intros i x Hx q Hq. destruct (H10 q Hq) as [Hlt Hph]. split; [exact Hlt|].
    unfold fupd. destruct (Nat.eqb q i) eqn:E; [|exact Hph].
    apply Nat.eqb_eq in E. subst q. rewrite Hx. exact Hph. }
  unfold env_step in H. destruct a as [| | | |r|r|r|r c0|r c0|r|r|r]; try discriminate.
  all: destruct (get_run s r) as [x|] eqn:Er; try discriminate;
    pose proof (get_run_some _ _ _ Er) as Hx; subst x;
    assert (Hlt : r < s_next s) by (unfold get_run in Er; destruct (r <? s_next s) eqn:E; [apply Nat.ltb_lt; exact E|discriminate]);
    split_hyp H; try discriminate; inversion H; subst; clear H; bools;
    try (unfold rel_proc; simpl;
         match goal with |- context [onat_eqb ?a ?b] => destruct (onat_eqb a b) eqn:Ep end);
    match goal with
    | |- Inv (upd_run (with_guard ?s0 ?g) ?r0 ?x) =>
        change (Inv (with_proc (with_guard (upd_run s0 r0 x) g) (s_proc s0)))
    | |- Inv (with_proc (upd_run ?s0 ?r0 ?x) None) =>
        change (Inv (with_proc (with_guard (upd_run s0 r0 x) (s_guard s0)) None))
    | |- Inv (upd_run ?s0 ?r0 ?x) =>
        change (Inv (with_proc (with_guard (upd_run s0 r0 x) (s_guard s0)) (s_proc s0)))
    end;
    apply Inv_run_update; auto; simpl; try discriminate;
    try (apply Hproc_same; reflexivity);
    try (intros Ho; apply H9; exact Ho);
    try (intros _; split; [apply is_live_phase; assumption|exact Hlt]);
    try (match goal with Hl : is_live _ = true |- _ => rewrite (is_live_phase _ Hl); reflexivity end);
    try (intros q Hq; destruct (H10 q Hq) as [Hq1 Hq2]; (split; [exact Hq1|]);
         unfold fupd;
         match goal with Ep : onat_eqb _ (Some ?r0) = false |- _ =>
           (destruct (Nat.eqb q r0) eqn:E; [|exact Hq2]);
           apply Nat.eqb_eq in E; subst q; rewrite Hq in Ep; simpl in Ep; rewrite Nat.eqb_refl in Ep; discriminate
         end).
Qed.

(* ------------------------------------------------------------------ *)
(* frame: the components Inv does not look at                          *)
Definition same_core (s s' : st) : Prop :=
  s_status s' = s_status s /\ s_map s' = s_map s /\ s_cur s' = s_cur s /\ s_runs s' = s_runs s
  /\ s_cleans s' = s_cleans s /\ s_next s' = s_next s /\ s_proc s' = s_proc s.

Definition idle_user (u : option spc) : Prop := u = None \/ u = Some SCheck.

Lemma at_start_idle s s' pc :
  s_cleans s' = s_cleans s -> idle_user (user_start s) -> idle_user (user_start s') -> pc <> SCheck ->
  at_start s pc -> at_start s' pc.
Proof.
  unfold at_start. intros Hc Hu Hu' Hpc [H|[i H]].
  - destruct Hu as [Hu|Hu]; rewrite Hu in H; congruence.
  - right. exists i. rewrite Hc. exact H.
Qed.

Lemma Inv_idle_user s s' :
  Inv s -> same_core s s' -> idle_user (user_start s) -> idle_user (user_start s') -> Inv s'.
Proof.
  intros [H1 H2 H3 H4 H5 H6 H7 H8 H9 H10] (Es & Em & Ec & Er & Ecl & En & Ep) Hu Hu'.
  assert (Hh : user_holds s = false) by (unfold user_holds; destruct Hu as [-> | ->]; reflexivity).
  assert (Hh' : user_holds s' = false) by (unfold user_holds; destruct Hu' as [-> | ->]; reflexivity).
  assert (Hspc : forall pc n, spc_ok s pc n -> spc_ok s' pc n).
  { intros pc n. unfold spc_ok, pre_status. rewrite Es, Em, Ec, Er, Ecl, En. auto. }
  assert (Hat : forall pc, pc <> SCheck -> at_start s pc -> at_start s' pc).
  { intros pc Hpc. apply at_start_idle; auto. }
  constructor.
  - rewrite Ecl. exact H1.
  - rewrite Hh'. discriminate.
  - intros pc Hpc. destruct Hu' as [Hu'|Hu']; rewrite Hu' in Hpc; inversion Hpc. simpl. exact I.
  - intros i pc Hi. rewrite Ecl in Hi. specialize (H4 i pc Hi). unfold clean_ok in *.
    rewrite Es, Em, Ec, Er, En. destruct H4 as [Ha Hb]. split; [exact Ha|].
    destruct pc; auto. destruct Hb as (Hb1 & Hb2 & Hb3). repeat split; auto.
  - intros _ Hn. rewrite Es. apply H5; [exact Hh|]. rewrite <- Ecl. exact Hn.
  - intros m Hm. rewrite Em in Hm. specialize (H6 m Hm). unfold map_owned in *. rewrite Ecl.
    destruct H6 as [H6|[H6|H6]]; [left; exact H6|right; left|right; right]; apply Hat; auto; discriminate.
  - intros i Hi. rewrite En in Hi. specialize (H7 i Hi). unfold run_ok in *. rewrite Er, Ecl.
    destruct (r_phase (s_runs s i)); auto.
    + destruct H7 as [H7|H7]; [left|right]; apply Hat; auto; discriminate.
    + destruct H7 as [H7|[H7|[H7|H7]]]; [left; exact H7|right; left|right; right; left|right; right; right];
        apply Hat; auto; discriminate.
    + destruct H7 as [H7|[H7|[H7|H7]]]; [left; exact H7|right; left|right; right; left|right; right; right];
        apply Hat; auto; discriminate.
  - rewrite En, Ecl. exact H8.
  - rewrite Er, En. exact H9.
  - rewrite Ep, Er, En. exact H10.
Qed.

Lemma same_core_refl s : same_core s s.
Proof. repeat split. Qed.

Lemma waiter_step_Inv s id s' l : Inv s -> idle_user (user_start s) \/ True -> waiter_step s id = Some (s', l) -> Inv s'.
Proof.
  intros HI _ H. unfold waiter_step in H. split_hyp H; inversion H; subst; clear H.
  all: destruct HI as [H1 H2 H3 H4 H5 H6 H7 H8 H9 H10]; constructor; simpl; auto.
Qed.

Lemma call_step_Inv c s k id s' l : Inv s -> call_step c s k id = Some (s', l) -> Inv s'.
Proof.
  intros HI H. unfold call_step in H. destruct k.
  all: split_hyp H; try discriminate; inversion H; subst; clear H.
  all: try (destruct HI as [H1 H2 H3 H4 H5 H6 H7 H8 H9 H10]; constructor; simpl; auto; fail).
  all: eapply Inv_idle_user; [exact HI|repeat split| |];
       unfold idle_user, user_start; simpl;
       try match goal with E : s_user _ = None |- _ => rewrite E end; auto.
Qed.

(* a run update that keeps phase and source state *)
Lemma Inv_run_same s i x :
  Inv s -> r_phase x = r_phase (s_runs s i) -> src_open x = src_open (s_runs s i) -> Inv (upd_run s i x).
Proof.
  intros HI Hp Ho.
  change (Inv (with_proc (with_guard (upd_run s i x) (s_guard s)) (s_proc s))).
  pose proof HI as [H1 H2 H3 H4 H5 H6 H7 H8 H9 H10].
  apply Inv_run_update; auto.
  - rewrite Hp. reflexivity.
  - intros E. rewrite Hp. exact E.
  - intros E. rewrite Ho in E. rewrite Hp. apply H9. exact E.
  - intros q Hq. destruct (H10 q Hq) as [Hq1 Hq2]. split; [exact Hq1|].
    unfold fupd. destruct (Nat.eqb q i) eqn:E; [|exact Hq2].
    apply Nat.eqb_eq in E. subst q. rewrite Hp. exact Hq2.
Qed.

Lemma user_step_nonstart_Inv c s ch s' l id k pc :
  c_engine c = V1 -> Inv s -> s_user s = Some (id, k, pc) ->
  (forall q, pc <> UStart q) ->
  user_step c s ch = Some (s', l) -> Inv s'.
Proof.
  intros Hv HI Hu Hns H. unfold user_step in H. rewrite Hu in H.
  assert (Hidle : idle_user (user_start s)) by (left; unfold user_start; rewrite Hu; destruct pc; auto; exfalso; eapply Hns; eauto).
  destruct pc as [q| |m sw|r m sw|r m sw| |r| |x]; try (exfalso; eapply Hns; eauto; fail).
  all: try rewrite Hv in H.
  all: split_hyp H; try discriminate; inversion H; subst; clear H.
  all: try (eapply Inv_idle_user; [exact HI|repeat split|exact Hidle|left; reflexivity]; fail).
  all: try (eapply Inv_idle_user; [exact HI|repeat split|exact Hidle|unfold idle_user, user_start; simpl; auto]; fail).
  (* UAct: the run is touched *)
  all: match goal with
       | E : get_run ?s0 ?r0 = Some ?x |- _ => pose proof (get_run_some _ _ _ E); subst x
       end.
  all: match goal with
       | |- Inv (with_user (upd_run ?s0 ?r0 ?x) ?u) =>
           eapply (Inv_idle_user (upd_run s0 r0 x));
             [apply Inv_run_same; [exact HI| |] |repeat split| |]
       end; simpl; auto;
       try (unfold idle_user, user_start; simpl; auto; fail);
       try (unfold idle_user, user_start; simpl; rewrite Hu; auto; fail).
  all: try (match goal with |- context [match ?p with PDead => _ | _ => _ end] => destruct p end; reflexivity).
Qed.

(* ------------------------------------------------------------------ *)
(* the classification of v1 either enters recovery or writes a stopped status *)
Lemma v1_decide_stopped r f :
  enters_recovery v1_arms r f = false ->
  exists x e, decide v1_arms r f RecRestarted = Final x e /\ stopped_b x = true.
Proof.
  destruct r; simpl; intros H; try discriminate.
  - destruct (f_shutdown f); eexists; eexists; split; reflexivity.
  - eexists; eexists; split; reflexivity.
Qed.

(* no cleanup goroutine is past its classification and before its tail while the status is stopped *)
Lemma stopped_no_nontail s : Inv s -> stopped_b (s_status s) = true -> forall i, nontail (s_cleans s i) = false.
Proof.
  intros HI Hs i. destruct (s_cleans s i) as [pc|] eqn:E; [|reflexivity].
  pose proof (i_clean s HI i pc E) as [_ Hc].
  destruct pc as [| | |q| | | |]; simpl; try reflexivity; exfalso.
  - destruct Hc as (_ & Hc & _). rewrite Hc in Hs. discriminate.
  - destruct Hc as (_ & Hc & _). rewrite Hc in Hs. discriminate.
  - destruct Hc as (_ & Hc & _). rewrite Hc in Hs. discriminate.
  - destruct Hc as (_ & Hc & _). destruct q; simpl in Hc; unfold pre_status in Hc;
      try (rewrite Hc in Hs; discriminate);
      try (destruct Hc as (Hc & _); rewrite Hc in Hs; discriminate); try contradiction.
  - destruct Hc as (_ & Hc & _). rewrite Hc in Hs. discriminate.
Qed.

(* the run a Start position talks about *)
Definition pc_run (pc : spc) : option nat :=
  match pc with
  | SClear r | SSpawn r | SPublish r | SStatus r | SRegister r | SOpenA r | SOpenSrc r | SOpenDlq r | SRollback r => Some r
  | SCheck | SBuild => None
  end.

(* transfer of ownership facts about run m when the cleanup of m is unchanged and every Start position
   that talks about m survives *)
Lemma map_owned_transfer s s' m :
  s_cleans s' m = s_cleans s m ->
  (forall pc, pc = SStatus m \/ pc = SRegister m -> at_start s pc -> at_start s' pc) ->
  map_owned s m -> map_owned s' m.
Proof.
  intros Hc Hat H. unfold map_owned in *. rewrite Hc.
  destruct H as [H|[H|H]]; [left; exact H|right; left|right; right]; apply Hat; auto.
Qed.

Lemma run_ok_transfer s s' i :
  s_cleans s' i = s_cleans s i -> r_phase (s_runs s' i) = r_phase (s_runs s i) ->
  (forall pc, pc_run pc = Some i -> at_start s pc -> at_start s' pc) ->
  run_ok s i -> run_ok s' i.
Proof.
  intros Hc Hr Hat H. unfold run_ok in *. rewrite Hc, Hr. destruct (r_phase (s_runs s i)); auto.
  - destruct H as [H|H]; [left|right]; apply Hat; auto.
  - destruct H as [H|[H|[H|H]]]; [left; exact H|right; left|right; right; left|right; right; right];
      apply Hat; auto.
  - destruct H as [H|[H|[H|H]]]; [left; exact H|right; left|right; right; left|right; right; right];
      apply Hat; auto.
Qed.

(* when the user's Start moves from pc to pc', every other Start position survives *)
Lemma at_start_user_move s id k pc pc' s1 :
  s_user s = Some (id, k, UStart pc) -> s_cleans s1 = s_cleans s ->
  forall q, q <> pc -> at_start s q -> at_start (with_user s1 (Some (id, k, UStart pc'))) q.
Proof.
  intros Hu Hc q Hq [H|[i H]].
  - unfold user_start in H. rewrite Hu in H. congruence.
  - right. exists i. simpl. rewrite Hc. exact H.
Qed.

Lemma at_start_user_now s1 id k pc : at_start (with_user s1 (Some (id, k, UStart pc))) pc.
Proof. left. reflexivity. Qed.

(* ------------------------------------------------------------------ *)
(* the user's Start                                                    *)

Lemma user_holds_at s id k q : s_user s = Some (id, k, UStart q) -> q <> SCheck -> user_holds s = true.
Proof. intros H Hq. unfold user_holds, user_start. rewrite H. destruct q; auto; congruence. Qed.

(* facts that survive when only the user's pc changes between two holder pcs *)
Lemma at_start_other s u pc :
  at_start s pc -> user_start s <> Some pc -> at_start (with_user s u) pc.
Proof. unfold at_start. intros [H|[i H]] Hn; [congruence|]. right. exists i. exact H. Qed.

Lemma user_check_Inv s id k :
  Inv s -> s_user s = Some (id, k, UStart SCheck) ->
  status_eqb (s_status s) Running = false -> s_status s <> Recovering ->
  Inv (with_user s (Some (id, k, UStart SBuild))).
Proof.
  intros HI Hu Hr Hrec.
  assert (Hst : stopped_b (s_status s) = true) by (destruct (s_status s); simpl in *; congruence).
  pose proof (stopped_no_nontail s HI Hst) as Hno.
  destruct HI as [H1 H2 H3 H4 H5 H6 H7 H8 H9 H10].
  assert (Hus : user_start s = Some SCheck) by (unfold user_start; rewrite Hu; reflexivity).
  assert (Hat : forall pc, at_start s pc -> pc <> SCheck -> at_start (with_user s (Some (id, k, UStart SBuild))) pc).
  { intros pc Hp Hn. apply at_start_other; [exact Hp|]. rewrite Hus. congruence. }
  constructor; simpl.
  - exact H1.
  - intros _. exact Hno.
  - unfold user_start. simpl. intros pc Hpc. inversion Hpc. subst. simpl. exact Hst.
  - intros i pc Hi. specialize (H4 i pc Hi). unfold clean_ok in *. simpl. exact H4.
  - intros _ _. exact Hst.
  - intros m Hm. apply (map_owned_transfer s _ m); [reflexivity| |exact (H6 m Hm)].
    intros pc Hpc Hp. apply Hat; [exact Hp|]. destruct Hpc; subst; discriminate.
  - intros i Hi. apply (run_ok_transfer s _ i); [reflexivity|reflexivity| |exact (H7 i Hi)].
    intros pc Hpc Hp. apply Hat; [exact Hp|]. destruct pc; simpl in Hpc; discriminate.
  - exact H8.
  - exact H9.
  - exact H10.
Qed.


Lemma pc_run_ne pc pc0 i r : pc_run pc = Some i -> pc_run pc0 = Some r -> i <> r -> pc <> pc0.
Proof. intros H1 H2 Hn E. subst. congruence. Qed.

Lemma pc_run_ne_none pc pc0 i : pc_run pc = Some i -> pc_run pc0 = None -> pc <> pc0.
Proof. intros H1 H2 E. subst. congruence. Qed.

(* SBuild: a fresh run is created *)
Lemma user_build_Inv s id k (proc : bool) :
  Inv s -> s_user s = Some (id, k, UStart SBuild) ->
  (proc = true -> s_proc s = None) ->
  let r := s_next s in
  let s1 := with_next (upd_run s r new_run) (S r) in
  let s2 := if proc then with_proc s1 (Some r) else s1 in
  Inv (with_user s2 (Some (id, k, UStart (SClear r)))).
Proof.
  intros HI Hu Hpn r s1 s2.
  pose proof (user_holds_at s id k SBuild Hu ltac:(discriminate)) as Hh.
  pose proof HI as [H1 H2 H3 H4 H5 H6 H7 H8 H9 H10].
  pose proof (H2 Hh) as Hno.
  assert (Hst : stopped_b (s_status s) = true) by (apply (H3 SBuild); unfold user_start; rewrite Hu; reflexivity).
  assert (Hcl : s_cleans s2 = s_cleans s) by (unfold s2, s1; destruct proc; reflexivity).
  assert (Hru : s_runs s2 = fupd (s_runs s) r new_run) by (unfold s2, s1; destruct proc; reflexivity).
  assert (Hnx : s_next s2 = S r) by (unfold s2, s1; destruct proc; reflexivity).
  assert (Hstt : s_status s2 = s_status s) by (unfold s2, s1; destruct proc; reflexivity).
  assert (Hmp : s_map s2 = s_map s) by (unfold s2, s1; destruct proc; reflexivity).
  assert (Hcu : s_cur s2 = s_cur s) by (unfold s2, s1; destruct proc; reflexivity).
  assert (Hat : forall q i, pc_run q = Some i -> at_start s q -> at_start (with_user s2 (Some (id, k, UStart (SClear r)))) q).
  { intros q i Hq. eapply at_start_user_move; eauto. eapply pc_run_ne_none; eauto. }
  assert (Hold : forall j, j < s_next s -> fupd (s_runs s) r new_run j = s_runs s j).
  { intros j Hj. unfold fupd. destruct (Nat.eqb j r) eqn:E; [apply Nat.eqb_eq in E; unfold r in E; lia|reflexivity]. }
  assert (Hspc : forall pc n, spc_ok s pc n -> spc_ok (with_user s2 (Some (id, k, UStart (SClear r)))) pc n).
  { intros pc n. unfold spc_ok, pre_status, alive. simpl. rewrite Hstt, Hmp, Hcu, Hcl, Hnx, Hru.
    destruct pc; auto; intros Hp; repeat match goal with H : _ /\ _ |- _ => destruct H end;
      repeat split; auto; try lia; try (rewrite Hold; auto). }
  constructor; simpl.
  - rewrite Hcl. exact H1.
  - intros _. rewrite Hcl. exact Hno.
  - unfold user_start. simpl. intros pc Hpc. inversion Hpc. subst pc. simpl. unfold pre_status.
    rewrite Hstt, Hnx, Hru, Hcl. repeat split; auto;
      try (unfold fupd; rewrite Nat.eqb_refl; reflexivity); try (apply H8; unfold r; lia).
  - intros i pc Hi. rewrite Hcl in Hi. pose proof (H4 i pc Hi) as [Hlt Hc].
    unfold clean_ok. simpl. rewrite Hnx, Hstt, Hmp, Hcu, Hru. split; [lia|].
    rewrite (Hold i Hlt). destruct pc; auto.
    destruct Hc as (A & B & C). split; [exact A|]. split; [apply Hspc in B; exact B|exact C].
  - intros Hf. exfalso. unfold user_holds, user_start in Hf. simpl in Hf. discriminate.
  - intros m Hm. rewrite Hmp in Hm. apply (map_owned_transfer s _ m); [simpl; rewrite Hcl; reflexivity| |exact (H6 m Hm)].
    intros pc Hpc. apply (Hat pc m). destruct Hpc; subst; reflexivity.
  - intros i Hi. rewrite Hnx in Hi. destruct (Nat.eq_dec i r) as [->|Hne].
    + unfold run_ok. simpl. rewrite Hru. unfold fupd. rewrite Nat.eqb_refl. simpl. left. left. reflexivity.
    + assert (Hi' : i < s_next s) by (unfold r in *; lia).
      apply (run_ok_transfer s _ i); [simpl; rewrite Hcl; reflexivity|simpl; rewrite Hru, (Hold i Hi'); reflexivity| |exact (H7 i Hi')].
      intros pc Hpc. apply (Hat pc i Hpc).
  - intros i Hi. rewrite Hnx in Hi. rewrite Hcl. apply H8. unfold r in Hi. lia.
  - intros i Hi. rewrite Hru in Hi |- *. rewrite Hnx. unfold fupd in *. destruct (Nat.eqb i r) eqn:E.
    + simpl in Hi. discriminate.
    + destruct (H9 i Hi) as [A B]. split; [exact A|unfold r; lia].
  - intros p Hp. rewrite Hnx, Hru. unfold s2, s1 in Hp. destruct proc; simpl in Hp.
    + inversion Hp. subst p. split; [lia|]. unfold fupd. rewrite Nat.eqb_refl. left. reflexivity.
    + destruct (H10 p Hp) as [A B]. split; [unfold r; lia|]. rewrite (Hold p A). exact B.
Qed.

(* while the user's Start holds, every cleanup goroutine is in its tail: its condition only mentions the
   phase of its own run and, for CTail3, that the map does not point at it *)
Lemma tail_clean_ok s s' i pc :
  nontail (Some pc) = false -> clean_ok s i pc ->
  s_next s' = s_next s -> r_phase (s_runs s' i) = r_phase (s_runs s i) ->
  (s_map s' = s_map s \/ (exists r, s_map s' = Some r /\ r <> i) \/ s_map s' = None) ->
  clean_ok s' i pc.
Proof.
  intros Hn [Hlt Hc] En Er Em. unfold clean_ok. rewrite En, Er. split; [exact Hlt|].
  destruct pc; simpl in Hn; try discriminate; auto.
  destruct Hc as [A B]. split; [exact A|].
  destruct Em as [Em|[[r [Em Hr]]|Em]]; rewrite Em; auto; congruence.
Qed.

Section UserStart.
  Variables (s : st) (id : nat) (k : ckind).
  Hypothesis HI : Inv s.

  (* SClear r -> SSpawn r : terminalErrors.Delete *)
  Lemma user_clear_Inv r :
    s_user s = Some (id, k, UStart (SClear r)) ->
    Inv (with_user (with_terr s None) (Some (id, k, UStart (SSpawn r)))).
  Proof.
    intros Hu.
    pose proof (user_holds_at s id k _ Hu ltac:(discriminate)) as Hh.
    pose proof HI as [H1 H2 H3 H4 H5 H6 H7 H8 H9 H10].
    pose proof (H2 Hh) as Hno.
    assert (Hus : user_start s = Some (SClear r)) by (unfold user_start; rewrite Hu; reflexivity).
    pose proof (H3 _ Hus) as (Hst & Hlt & Hph & Hcn). simpl in Hst.
    assert (Hat : forall q, q <> SClear r -> at_start s q ->
                  at_start (with_user (with_terr s None) (Some (id, k, UStart (SSpawn r)))) q).
    { intros q Hq. eapply at_start_user_move; eauto. }
    constructor; simpl.
    - exact H1.
    - intros _. exact Hno.
    - unfold user_start. simpl. intros pc Hpc. inversion Hpc. subst pc. simpl. repeat split; auto.
    - intros i pc Hi. specialize (H4 i pc Hi). exact H4.
    - intros Hf. exfalso. unfold user_holds, user_start in Hf. simpl in Hf. discriminate.
    - intros m Hm. apply (map_owned_transfer s _ m); [reflexivity| |exact (H6 m Hm)].
      intros pc Hpc Hp. apply Hat; [|exact Hp]. destruct Hpc; subst; discriminate.
    - intros i Hi. destruct (Nat.eq_dec i r) as [->|Hne].
      + unfold run_ok. simpl. rewrite Hph. right. left. reflexivity.
      + apply (run_ok_transfer s _ i); [reflexivity|reflexivity| |exact (H7 i Hi)].
        intros pc Hpc. apply Hat. eapply pc_run_ne; eauto. reflexivity.
    - exact H8.
    - exact H9.
    - exact H10.
  Qed.

  (* SSpawn r -> SPublish r : the node goroutines are started *)
  Lemma user_spawn_Inv r :
    s_user s = Some (id, k, UStart (SSpawn r)) ->
    Inv (with_user (upd_run s r (rw_phase (s_runs s r) PLive)) (Some (id, k, UStart (SPublish r)))).
  Proof.
    intros Hu.
    pose proof (user_holds_at s id k _ Hu ltac:(discriminate)) as Hh.
    pose proof HI as [H1 H2 H3 H4 H5 H6 H7 H8 H9 H10].
    pose proof (H2 Hh) as Hno.
    assert (Hus : user_start s = Some (SSpawn r)) by (unfold user_start; rewrite Hu; reflexivity).
    pose proof (H3 _ Hus) as (Hst & Hlt & Hph & Hcn). simpl in Hst.
    remember (upd_run s r (rw_phase (s_runs s r) PLive)) as s1 eqn:Es1.
    assert (Ecl : s_cleans s1 = s_cleans s) by (subst s1; reflexivity).
    assert (Enx : s_next s1 = s_next s) by (subst s1; reflexivity).
    assert (Est : s_status s1 = s_status s) by (subst s1; reflexivity).
    assert (Emp : s_map s1 = s_map s) by (subst s1; reflexivity).
    assert (Epr : s_proc s1 = s_proc s) by (subst s1; reflexivity).
    assert (Hat : forall q, q <> SSpawn r -> at_start s q ->
                  at_start (with_user s1 (Some (id, k, UStart (SPublish r)))) q).
    { intros q Hq. eapply at_start_user_move; eauto. }
    assert (Hoth : forall j, j <> r -> s_runs s1 j = s_runs s j).
    { intros j Hj. subst s1. unfold upd_run, fupd. simpl. destruct (Nat.eqb j r) eqn:E; [apply Nat.eqb_eq in E; contradiction|reflexivity]. }
    assert (Hr : r_phase (s_runs s1 r) = PLive).
    { subst s1. unfold upd_run, fupd. simpl. rewrite Nat.eqb_refl. reflexivity. }
    assert (Hsrc : src_open (s_runs s1 r) = src_open (s_runs s r)).
    { subst s1. unfold upd_run, fupd. simpl. rewrite Nat.eqb_refl. reflexivity. }
    clear Es1.
    constructor; simpl.
    - rewrite Ecl. exact H1.
    - intros _. rewrite Ecl. exact Hno.
    - unfold user_start. simpl. intros pc Hpc. inversion Hpc. subst pc. simpl. unfold alive.
      rewrite Est, Enx, Ecl, Hr. repeat split; auto.
    - intros i pc Hi. rewrite Ecl in Hi. pose proof (Hno i) as Hn. rewrite Hi in Hn.
      apply (tail_clean_ok s _ i pc Hn (H4 i pc Hi)); [exact Enx| |left; exact Emp].
      simpl. destruct (Nat.eq_dec i r) as [->|Hne]; [congruence|rewrite Hoth; auto].
    - intros Hf. exfalso. unfold user_holds, user_start in Hf. simpl in Hf. discriminate.
    - intros m Hm. rewrite Emp in Hm. apply (map_owned_transfer s _ m); [simpl; rewrite Ecl; reflexivity| |exact (H6 m Hm)].
      intros pc Hpc Hp. apply Hat; [|exact Hp]. destruct Hpc; subst; discriminate.
    - intros i Hi. rewrite Enx in Hi. destruct (Nat.eq_dec i r) as [->|Hne].
      + unfold run_ok. simpl. rewrite Hr. right. left. left. reflexivity.
      + apply (run_ok_transfer s _ i); [simpl; rewrite Ecl; reflexivity|simpl; rewrite Hoth; auto| |exact (H7 i Hi)].
        intros pc Hpc. apply Hat. eapply pc_run_ne; eauto. reflexivity.
    - rewrite Enx, Ecl. exact H8.
    - intros i Hi. rewrite Enx. destruct (Nat.eq_dec i r) as [->|Hne].
      + rewrite Hsrc in Hi. destruct (H9 r Hi) as [A B]. rewrite Hph in A. discriminate.
      + rewrite Hoth in Hi |- * by auto. apply H9. exact Hi.
    - intros p Hp. rewrite Epr in Hp. rewrite Enx. destruct (H10 p Hp) as [A B]. split; [exact A|].
      destruct (Nat.eq_dec p r) as [->|Hne]; [right; exact Hr|rewrite Hoth; auto].
  Qed.

  (* SPublish r -> SStatus r : runningPipelines.Set under publishMu *)
  Lemma user_publish_Inv r :
    s_user s = Some (id, k, UStart (SPublish r)) ->
    Inv (with_user (with_map s (Some r)) (Some (id, k, UStart (SStatus r)))).
  Proof.
    intros Hu.
    pose proof (user_holds_at s id k _ Hu ltac:(discriminate)) as Hh.
    pose proof HI as [H1 H2 H3 H4 H5 H6 H7 H8 H9 H10].
    pose proof (H2 Hh) as Hno.
    assert (Hus : user_start s = Some (SPublish r)) by (unfold user_start; rewrite Hu; reflexivity).
    pose proof (H3 _ Hus) as (Hst & Hlt & Hph & Hcn). simpl in Hst.
    assert (Hat : forall q, q <> SPublish r -> at_start s q ->
                  at_start (with_user (with_map s (Some r)) (Some (id, k, UStart (SStatus r)))) q).
    { intros q Hq. eapply at_start_user_move; eauto. }
    constructor; simpl.
    - exact H1.
    - intros _. exact Hno.
    - unfold user_start. simpl. intros pc Hpc. inversion Hpc. subst pc. simpl. repeat split; auto.
    - intros i pc Hi. pose proof (Hno i) as Hn. rewrite Hi in Hn.
      apply (tail_clean_ok s _ i pc Hn (H4 i pc Hi)); [reflexivity|reflexivity|].
      right. left. exists r. split; [reflexivity|]. intros E. subst i. congruence.
    - intros Hf. exfalso. unfold user_holds, user_start in Hf. simpl in Hf. discriminate.
    - intros m Hm. inversion Hm. subst m. unfold map_owned. right. left. left. reflexivity.
    - intros i Hi. destruct (Nat.eq_dec i r) as [->|Hne].
      + unfold run_ok. simpl. destruct Hph as [Hph|Hph]; rewrite Hph; right; right; left; left; reflexivity.
      + apply (run_ok_transfer s _ i); [reflexivity|reflexivity| |exact (H7 i Hi)].
        intros pc Hpc. apply Hat. eapply pc_run_ne; eauto. reflexivity.
    - exact H8.
    - exact H9.
    - exact H10.
  Qed.

  (* SStatus r -> SRegister r : UpdateStatus(Running) *)
  Lemma user_status_Inv r :
    s_user s = Some (id, k, UStart (SStatus r)) ->
    Inv (with_user (with_cur (with_status s Running) (Some r)) (Some (id, k, UStart (SRegister r)))).
  Proof.
    intros Hu.
    pose proof (user_holds_at s id k _ Hu ltac:(discriminate)) as Hh.
    pose proof HI as [H1 H2 H3 H4 H5 H6 H7 H8 H9 H10].
    pose proof (H2 Hh) as Hno.
    assert (Hus : user_start s = Some (SStatus r)) by (unfold user_start; rewrite Hu; reflexivity).
    pose proof (H3 _ Hus) as (Hst & Hmp & Hlt & Hph & Hcn). simpl in Hst.
    assert (Hat : forall q, q <> SStatus r -> at_start s q ->
                  at_start (with_user (with_cur (with_status s Running) (Some r)) (Some (id, k, UStart (SRegister r)))) q).
    { intros q Hq. eapply at_start_user_move; eauto. }
    constructor; simpl.
    - exact H1.
    - intros _. exact Hno.
    - unfold user_start. simpl. intros pc Hpc. inversion Hpc. subst pc. simpl. repeat split; auto.
    - intros i pc Hi. pose proof (Hno i) as Hn. rewrite Hi in Hn.
      apply (tail_clean_ok s _ i pc Hn (H4 i pc Hi)); [reflexivity|reflexivity|left; reflexivity].
    - intros Hf. exfalso. unfold user_holds, user_start in Hf. simpl in Hf. discriminate.
    - intros m Hm. rewrite Hmp in Hm. inversion Hm. subst m. unfold map_owned. right. right. left. reflexivity.
    - intros i Hi. destruct (Nat.eq_dec i r) as [->|Hne].
      + unfold run_ok. simpl. destruct Hph as [Hph|Hph]; rewrite Hph; right; right; right; left; reflexivity.
      + apply (run_ok_transfer s _ i); [reflexivity|reflexivity| |exact (H7 i Hi)].
        intros pc Hpc. apply Hat. eapply pc_run_ne; eauto. reflexivity.
    - exact H8.
    - exact H9.
    - exact H10.
  Qed.
End UserStart.

Section UserStart2.
  Variables (s : st) (id : nat) (k : ckind).
  Hypothesis HI : Inv s.

  (* SRegister r : the cleanup goroutine is registered, Start returns *)
  Lemma user_register_Inv r x :
    s_user s = Some (id, k, UStart (SRegister r)) ->
    Inv (with_user (set_clean (upd_run s r (rw_started (s_runs s r))) r (Some CWait)) (Some (id, k, URet x))).
  Proof.
    intros Hu.
    pose proof (user_holds_at s id k _ Hu ltac:(discriminate)) as Hh.
    pose proof HI as [H1 H2 H3 H4 H5 H6 H7 H8 H9 H10].
    pose proof (H2 Hh) as Hno.
    assert (Hus : user_start s = Some (SRegister r)) by (unfold user_start; rewrite Hu; reflexivity).
    pose proof (H3 _ Hus) as (Hst & Hmp & Hcu & Hlt & Hph & Hcn).
    remember (set_clean (upd_run s r (rw_started (s_runs s r))) r (Some CWait)) as s1 eqn:Es1.
    assert (Ecl : forall j, s_cleans s1 j = if Nat.eqb j r then Some CWait else s_cleans s j)
      by (intros j; subst s1; reflexivity).
    assert (Enx : s_next s1 = s_next s) by (subst s1; reflexivity).
    assert (Est : s_status s1 = s_status s) by (subst s1; reflexivity).
    assert (Emp : s_map s1 = s_map s) by (subst s1; reflexivity).
    assert (Ecu : s_cur s1 = s_cur s) by (subst s1; reflexivity).
    assert (Epr : s_proc s1 = s_proc s) by (subst s1; reflexivity).
    assert (Eph : forall j, r_phase (s_runs s1 j) = r_phase (s_runs s j)).
    { intros j. subst s1. unfold set_clean, upd_run, fupd. simpl. destruct (Nat.eqb j r) eqn:E; [apply Nat.eqb_eq in E; subst j|]; reflexivity. }
    assert (Eso : forall j, src_open (s_runs s1 j) = src_open (s_runs s j)).
    { intros j. subst s1. unfold set_clean, upd_run, fupd. simpl. destruct (Nat.eqb j r) eqn:E; [apply Nat.eqb_eq in E; subst j|]; reflexivity. }
    clear Es1.
    assert (Hat : forall q, q <> SRegister r -> at_start s q ->
                  at_start (with_user s1 (Some (id, k, URet x))) q).
    { intros q Hq [H|[i H]].
      - rewrite Hus in H. congruence.
      - right. exists i. simpl. rewrite Ecl. destruct (Nat.eqb i r) eqn:E; [|exact H].
        apply Nat.eqb_eq in E. subst i. congruence. }
    constructor; simpl.
    - intros i j Hi Hj. rewrite Ecl in Hi, Hj.
      destruct (Nat.eqb i r) eqn:Ei, (Nat.eqb j r) eqn:Ej.
      + apply Nat.eqb_eq in Ei, Ej. congruence.
      + rewrite (Hno j) in Hj. discriminate.
      + rewrite (Hno i) in Hi. discriminate.
      + rewrite (Hno i) in Hi. discriminate.
    - intros Hf. exfalso. unfold user_holds, user_start in Hf. simpl in Hf. discriminate.
    - unfold user_start. simpl. intros pc Hpc. discriminate.
    - intros i pc Hi. rewrite Ecl in Hi. destruct (Nat.eqb i r) eqn:E.
      + apply Nat.eqb_eq in E. subst i. inversion Hi. subst pc. unfold clean_ok, alive. simpl.
        rewrite Enx, Eph, Est, Emp, Ecu. repeat split; auto.
      + pose proof (Hno i) as Hn. rewrite Hi in Hn.
        apply (tail_clean_ok s _ i pc Hn (H4 i pc Hi)); [exact Enx|simpl; apply Eph|left; exact Emp].
    - intros _ Hn. exfalso. specialize (Hn r). rewrite Ecl, Nat.eqb_refl in Hn. discriminate.
    - intros m Hm. rewrite Emp, Hmp in Hm. inversion Hm. subst m. left. exists CWait. simpl.
      rewrite Ecl, Nat.eqb_refl. split; [reflexivity|exact I].
    - intros i Hi. rewrite Enx in Hi. destruct (Nat.eq_dec i r) as [->|Hne].
      + unfold run_ok. simpl. rewrite Eph, Ecl, Nat.eqb_refl.
        destruct Hph as [Hph|Hph]; rewrite Hph; left; discriminate.
      + apply (run_ok_transfer s _ i); [simpl; rewrite Ecl; apply Nat.eqb_neq in Hne; rewrite Hne; reflexivity|simpl; apply Eph| |exact (H7 i Hi)].
        intros pc Hpc. apply Hat. eapply pc_run_ne; eauto. reflexivity.
    - intros i Hi. rewrite Enx in Hi. rewrite Ecl. destruct (Nat.eqb i r) eqn:E; [apply Nat.eqb_eq in E; lia|apply H8; exact Hi].
    - intros i Hi. rewrite Eso in Hi. rewrite Eph, Enx. apply H9. exact Hi.
    - intros p Hp. rewrite Epr in Hp. rewrite Enx, Eph. apply H10. exact Hp.
  Qed.

  (* a Start that gives up before it has created anything (status Running, or a guard is taken) *)
  Lemma user_abort_Inv q x :
    s_user s = Some (id, k, UStart q) -> (q = SCheck \/ q = SBuild) ->
    Inv (with_user s (Some (id, k, URet x))).
  Proof.
    intros Hu Hq.
    pose proof HI as [H1 H2 H3 H4 H5 H6 H7 H8 H9 H10].
    assert (Hus : user_start s = Some q) by (unfold user_start; rewrite Hu; reflexivity).
    assert (Hat : forall pc i, pc_run pc = Some i -> at_start s pc -> at_start (with_user s (Some (id, k, URet x))) pc).
    { intros pc i Hpc [H|[j H]].
      - rewrite Hus in H. inversion H. subst pc. destruct Hq; subst; discriminate.
      - right. exists j. exact H. }
    constructor; simpl.
    - exact H1.
    - intros Hf. exfalso. unfold user_holds, user_start in Hf. simpl in Hf. discriminate.
    - unfold user_start. simpl. intros pc Hpc. discriminate.
    - intros i pc Hi. specialize (H4 i pc Hi). exact H4.
    - intros _ Hn. destruct Hq as [->| ->].
      + apply H5; [unfold user_holds; rewrite Hus; reflexivity|exact Hn].
      + apply (H3 SBuild Hus).
    - intros m Hm. apply (map_owned_transfer s _ m); [reflexivity| |exact (H6 m Hm)].
      intros pc Hpc. apply (Hat pc m). destruct Hpc; subst; reflexivity.
    - intros i Hi. apply (run_ok_transfer s _ i); [reflexivity|reflexivity| |exact (H7 i Hi)].
      intros pc Hpc. apply (Hat pc i Hpc).
    - exact H8.
    - exact H9.
    - exact H10.
  Qed.
End UserStart2.

Lemma user_step_Inv c s ch s' l :
  c_engine c = V1 -> c_stfail c = false -> Inv s -> polite s (AUser ch) -> user_step c s ch = Some (s', l) -> Inv s'.
Proof.
  intros Hv Hsf HI Hpol H.
  destruct (s_user s) as [[[id k] pc]|] eqn:Hu; [|unfold user_step in H; rewrite Hu in H; discriminate].
  destruct pc as [q| |m sw|r m sw|r m sw| |r| |x].
  2-9: eapply user_step_nonstart_Inv; eauto; intros q0; discriminate.
  unfold user_step in H. rewrite Hu in H.
  destruct q as [| |r|r|r|r|r|r|r|r|r]; simpl in H; rewrite ?Hsf in H; simpl in H; rewrite ?Hv in H.
  - (* SCheck *)
    destruct (status_eqb (s_status s) Running) eqn:Er; inversion H; subst; clear H.
    + eapply user_abort_Inv; eauto.
    + eapply user_check_Inv; eauto. apply Hpol. unfold user_start. rewrite Hu. reflexivity.
  - (* SBuild *)
    destruct (s_guard s) eqn:Eg.
    + inversion H; subst; clear H. eapply user_abort_Inv; eauto.
    + destruct (c_proc c && negb (onat_eqb (s_proc s) None)) eqn:Ep.
      * inversion H; subst; clear H. eapply user_abort_Inv; eauto.
      * inversion H; subst; clear H.
        apply (user_build_Inv s id k (c_proc c)); auto.
        intros Hp. rewrite Hp in Ep. simpl in Ep. apply Bool.negb_false_iff in Ep.
        apply onat_eqb_eq in Ep. exact Ep.
  - (* SClear *) inversion H; subst; clear H. apply user_clear_Inv; auto.
  - (* SOpenA: not a v1 position *)
    exfalso. pose proof (i_user s HI (SOpenA r)) as Hx. unfold user_start in Hx. rewrite Hu in Hx. exact (Hx eq_refl).
  - exfalso. pose proof (i_user s HI (SOpenSrc r)) as Hx. unfold user_start in Hx. rewrite Hu in Hx. exact (Hx eq_refl).
  - exfalso. pose proof (i_user s HI (SOpenDlq r)) as Hx. unfold user_start in Hx. rewrite Hu in Hx. exact (Hx eq_refl).
  - exfalso. pose proof (i_user s HI (SRollback r)) as Hx. unfold user_start in Hx. rewrite Hu in Hx. exact (Hx eq_refl).
  - (* SSpawn *)
    destruct (get_run s r) as [x|] eqn:Er; [|discriminate].
    pose proof (get_run_some _ _ _ Er); subst x. inversion H; subst; clear H. apply user_spawn_Inv; auto.
  - (* SPublish *) inversion H; subst; clear H. apply user_publish_Inv; auto.
  - (* SStatus *) inversion H; subst; clear H. apply user_status_Inv; auto.
  - (* SRegister *)
    destruct (get_run s r) as [x|] eqn:Er; [|discriminate].
    pose proof (get_run_some _ _ _ Er); subst x. inversion H; subst; clear H. apply user_register_Inv; auto.
Qed.

(* ------------------------------------------------------------------ *)
(* the cleanup goroutine                                               *)

Lemma holder_ctx s i pc :
  Inv s -> s_cleans s i = Some pc -> nontail (Some pc) = true ->
  user_holds s = false /\ (forall j, j <> i -> nontail (s_cleans s j) = false).
Proof.
  intros HI Hc Hn. split.
  - destruct (user_holds s) eqn:E; [|reflexivity].
    pose proof (i_excl s HI E i) as Hx. rewrite Hc in Hx. congruence.
  - intros j Hj. destruct (nontail (s_cleans s j)) eqn:E; [|reflexivity].
    exfalso. apply Hj. apply (i_one s HI j i); [exact E|rewrite Hc; exact Hn].
Qed.

Lemma user_idle_of_not_holding s : user_holds s = false -> idle_user (user_start s).
Proof.
  unfold user_holds, idle_user. destruct (user_start s) as [pc|]; [|auto].
  destruct pc; try discriminate. auto.
Qed.

(* the holder cleanup i (not inside a nested Start) moves to pc', possibly writing a status *)
Lemma clean_move_Inv s i pc pc' x :
  Inv s -> s_cleans s i = Some pc -> nontail (Some pc) = true ->
  (forall q, pc = CStart q -> pc_run q = None) ->
  let s' := set_clean (with_status s x) i (Some pc') in
  clean_ok s' i pc' ->
  (nontail (Some pc') = false -> stopped_b x = true) ->
  (match pc' with CTail3 _ => False | CStart q => pc_run q = None | _ => True end) ->
  Inv s'.
Proof.
  intros HI Hc Hn Hnst s' Hok Hst Hshape.
  destruct (holder_ctx s i pc HI Hc Hn) as [Hnu Hoth].
  pose proof HI as [H1 H2 H3 H4 H5 H6 H7 H8 H9 H10].
  assert (Ecl : forall j, s_cleans s' j = if Nat.eqb j i then Some pc' else s_cleans s j) by (intros j; reflexivity).
  assert (Hat : forall q, pc_run q <> None -> at_start s q -> at_start s' q).
  { intros q Hq [H|[j H]]; [left; exact H|]. right. exists j. rewrite Ecl.
    destruct (Nat.eqb j i) eqn:E; [|exact H]. apply Nat.eqb_eq in E. subst j. rewrite Hc in H. inversion H.
    exfalso. apply Hq. eapply Hnst; eauto. }
  constructor.
  - intros a b Ha Hb. rewrite Ecl in Ha, Hb.
    destruct (Nat.eqb a i) eqn:Ea, (Nat.eqb b i) eqn:Eb.
    + apply Nat.eqb_eq in Ea, Eb. congruence.
    + apply Nat.eqb_neq in Eb. rewrite (Hoth b Eb) in Hb. discriminate.
    + apply Nat.eqb_neq in Ea. rewrite (Hoth a Ea) in Ha. discriminate.
    + apply Nat.eqb_neq in Ea. rewrite (Hoth a Ea) in Ha. discriminate.
  - intros Hf. change (user_holds s') with (user_holds s) in Hf. congruence.
  - intros q Hq. change (user_start s') with (user_start s) in Hq.
    destruct (user_idle_of_not_holding s Hnu) as [E|E]; rewrite E in Hq; inversion Hq. exact I.
  - intros j q Hj. rewrite Ecl in Hj. destruct (Nat.eqb j i) eqn:E.
    + apply Nat.eqb_eq in E. subst j. inversion Hj. subst q. exact Hok.
    + apply Nat.eqb_neq in E. pose proof (Hoth j E) as Hn'. rewrite Hj in Hn'.
      apply (tail_clean_ok s s' j q Hn' (H4 j q Hj)); [reflexivity|reflexivity|left; reflexivity].
  - intros _ Hall. simpl. apply Hst. specialize (Hall i). rewrite Ecl, Nat.eqb_refl in Hall. exact Hall.
  - intros m Hm. change (s_map s') with (s_map s) in Hm. specialize (H6 m Hm).
    unfold map_owned in *. rewrite Ecl. destruct (Nat.eqb m i) eqn:E.
    + left. exists pc'. split; [reflexivity|]. destruct pc'; auto.
    + destruct H6 as [H6|[H6|H6]]; [left; exact H6|right; left|right; right]; apply Hat; auto; discriminate.
  - intros j Hj. change (s_next s') with (s_next s) in Hj. specialize (H7 j Hj).
    unfold run_ok in *. change (s_runs s') with (s_runs s). rewrite Ecl.
    destruct (r_phase (s_runs s j)).
    + destruct H7 as [H7|H7]; [left|right]; apply Hat; auto; discriminate.
    + destruct (Nat.eqb j i) eqn:E; [left; discriminate|].
      destruct H7 as [H7|[H7|[H7|H7]]]; [left; exact H7|right; left|right; right; left|right; right; right];
        apply Hat; auto; discriminate.
    + destruct (Nat.eqb j i) eqn:E; [left; discriminate|].
      destruct H7 as [H7|[H7|[H7|H7]]]; [left; exact H7|right; left|right; right; left|right; right; right];
        apply Hat; auto; discriminate.
    + destruct (Nat.eqb j i) eqn:E; [|exact H7].
      apply Nat.eqb_eq in E. subst j. congruence.
  - intros j Hj. change (s_next s') with (s_next s) in Hj. rewrite Ecl.
    destruct (Nat.eqb j i) eqn:E; [|apply H8; exact Hj].
    apply Nat.eqb_eq in E. subst j. pose proof (H4 i pc Hc) as [Hlt _]. lia.
  - exact H9.
  - exact H10.
Qed.

(* changing the pc of an existing cleanup goroutine (and terminalErrors) does not disturb a Start position *)
Lemma spc_ok_set_clean s i pc pc' t q n :
  s_cleans s i = Some pc -> spc_ok s q n ->
  spc_ok (set_clean (with_terr s t) i (Some pc')) q n.
Proof.
  intros Hc. unfold spc_ok, pre_status, set_clean, with_terr, with_cleans. simpl.
  assert (Hf : forall r, s_cleans s r = None -> fupd (s_cleans s) i (Some pc') r = None).
  { intros r Hr. unfold fupd. destruct (Nat.eqb r i) eqn:E; [apply Nat.eqb_eq in E; subst; congruence|exact Hr]. }
  destruct q; auto; intros H; repeat match goal with H : _ /\ _ |- _ => destruct H end; repeat split; auto.
Qed.

(* a cleanup goroutine in its tail moves on; it may clear terminalErrors' counterpart or delete ITS OWN
   map entry *)
Lemma tail_move_Inv s i pc pc' (mp : option nat) :
  Inv s -> s_cleans s i = Some pc -> nontail (Some pc) = false -> nontail (Some pc') = false ->
  (mp = s_map s \/ (s_map s = Some i /\ mp = None)) ->
  (match pc' with CTail3 _ => mp <> Some i | _ => True end) ->
  forall t, Inv (set_clean (with_terr (with_map s mp) t) i (Some pc')).
Proof.
  intros HI Hc Hn Hn' Hmp H3' t.
  pose proof HI as [H1 H2 H3 H4 H5 H6 H7 H8 H9 H10].
  set (s' := set_clean (with_terr (with_map s mp) t) i (Some pc')).
  assert (Ecl : forall j, s_cleans s' j = if Nat.eqb j i then Some pc' else s_cleans s j) by (intros j; reflexivity).
  assert (Ent : forall j, nontail (s_cleans s' j) = nontail (s_cleans s j)).
  { intros j. rewrite Ecl. destruct (Nat.eqb j i) eqn:E; [|reflexivity].
    apply Nat.eqb_eq in E. subst j. rewrite Hc, Hn, Hn'. reflexivity. }
  assert (Hat : forall q, at_start s q -> at_start s' q).
  { intros q [H|[j H]]; [left; exact H|]. right. exists j. rewrite Ecl.
    destruct (Nat.eqb j i) eqn:E; [|exact H]. apply Nat.eqb_eq in E. subst j. rewrite Hc in H. inversion H. subst pc.
    simpl in Hn. discriminate. }
  assert (Hpi : r_phase (s_runs s i) = PEnded /\ i < s_next s).
  { pose proof (H4 i pc Hc) as [Hlt Hx]. split; [|exact Hlt].
    destruct pc; simpl in Hn; try discriminate; try exact Hx. destruct Hx; assumption. }
  assert (Hmapnone : forall j q, j <> i -> s_cleans s j = Some q -> nontail (Some q) = true -> mp = s_map s).
  { intros j q Hj Hq Hnq. destruct Hmp as [E|[E1 E2]]; [exact E|]. exfalso.
    pose proof (H4 j q Hq) as [_ Hx].
    destruct q as [| | |q0| | | |]; simpl in Hnq; try discriminate.
    - destruct Hx as (_ & _ & Hx & _). congruence.
    - destruct Hx as (_ & _ & Hx). congruence.
    - destruct Hx as (_ & _ & Hx). congruence.
    - destruct Hx as (_ & Hx & Hb). destruct q0; simpl in *; try contradiction;
        try (specialize (Hb eq_refl); congruence).
      + destruct Hx as (_ & Hx & _ & _ & Hy). rewrite Hx in E1. inversion E1. subst. congruence.
      + destruct Hx as (_ & Hx & _ & _ & _ & Hy). rewrite Hx in E1. inversion E1. subst. congruence.
    - destruct Hx as (_ & _ & Hx). congruence. }
  constructor.
  - intros a b Ha Hb. rewrite Ent in Ha, Hb. eapply H1; eauto.
  - intros Hf j. rewrite Ent. apply H2. exact Hf.
  - intros q Hq. change (user_start s') with (user_start s) in Hq. specialize (H3 q Hq).
    destruct (user_holds s) eqn:Eh.
    + (* the user's Start holds: the map is its business; a tail only deletes its own entry *)
      destruct q; simpl in *; auto; try contradiction;
        repeat match goal with H : _ /\ _ |- _ => destruct H end; repeat split; auto;
        try (unfold fupd; match goal with |- (if Nat.eqb ?r i then _ else _) = None =>
               destruct (Nat.eqb r i) eqn:E; [apply Nat.eqb_eq in E; subst; congruence|assumption] end);
        try (destruct Hmp as [->|[E1 E2]]; [assumption|];
             match goal with B : s_map s = Some _ |- _ => rewrite B in E1; inversion E1; subst; congruence end).
    + unfold user_holds in Eh. rewrite Hq in Eh. destruct q; try discriminate. exact I.
  - intros j q Hj. rewrite Ecl in Hj. destruct (Nat.eqb j i) eqn:E.
    + apply Nat.eqb_eq in E. subst j. inversion Hj. subst q. destruct Hpi as [Hp Hlt].
      unfold clean_ok. split; [exact Hlt|]. destruct pc'; simpl in Hn'; try discriminate; auto.
    + apply Nat.eqb_neq in E. pose proof (H4 j q Hj) as Hok.
      destruct (nontail (Some q)) eqn:Enq.
      * pose proof (Hmapnone j q E Hj Enq) as Em. subst mp.
        unfold clean_ok in *. destruct Hok as [Hlt Hok]. split; [exact Hlt|].
        destruct q; simpl in Enq; try discriminate; try exact Hok.
        destruct Hok as (A & B & C). split; [exact A|]. split; [|exact C].
        apply (spc_ok_set_clean (with_map s (s_map s)) i pc pc' t); [exact Hc|].
        clear -B. unfold spc_ok, pre_status in *. destruct pc0; auto.
      * apply (tail_clean_ok s s' j q Enq Hok); [reflexivity|reflexivity|].
        destruct Hmp as [->|[E1 E2]]; [left; reflexivity|right; right; exact E2].
  - intros Hu Hall. simpl. apply H5; [exact Hu|]. intros j. rewrite <- Ent. apply Hall.
  - intros m Hm. simpl in Hm. unfold map_owned. rewrite Ecl.
    assert (Hm' : s_map s = Some m) by (destruct Hmp as [E|[E1 E2]]; [rewrite <- E; exact Hm|rewrite E2 in Hm; discriminate]).
    specialize (H6 m Hm'). destruct (Nat.eqb m i) eqn:E.
    + left. exists pc'. split; [reflexivity|]. apply Nat.eqb_eq in E. subst m.
      destruct pc'; auto; try exact I.
    + destruct H6 as [H6|[H6|H6]]; [left; exact H6|right; left|right; right]; apply Hat; auto.
  - intros j Hj. change (s_next s') with (s_next s) in Hj. specialize (H7 j Hj).
    unfold run_ok in *. change (s_runs s') with (s_runs s). rewrite Ecl.
    destruct (r_phase (s_runs s j)) eqn:Ep.
    + destruct H7 as [H7|H7]; [left|right]; apply Hat; auto.
    + destruct (Nat.eqb j i) eqn:E; [left; discriminate|].
      destruct H7 as [H7|[H7|[H7|H7]]]; [left; exact H7|right; left|right; right; left|right; right; right]; apply Hat; auto.
    + destruct (Nat.eqb j i) eqn:E; [left; discriminate|].
      destruct H7 as [H7|[H7|[H7|H7]]]; [left; exact H7|right; left|right; right; left|right; right; right]; apply Hat; auto.
    + destruct (Nat.eqb j i) eqn:E; [|exact H7]. apply Nat.eqb_eq in E. subst j. destruct Hpi. congruence.
  - intros j Hj. change (s_next s') with (s_next s) in Hj. rewrite Ecl.
    destruct (Nat.eqb j i) eqn:E; [|apply H8; exact Hj]. apply Nat.eqb_eq in E. subst j. destruct Hpi. lia.
  - exact H9.
  - exact H10.
Qed.

(* the cleanup goroutine of run i returns from its tail: the tomb of run i is dead *)
Lemma clean_end_Inv s i e x :
  Inv s -> s_cleans s i = Some (CTail3 e) ->
  Inv (set_clean (upd_run s i (rw_dead (s_runs s i) x)) i None).
Proof.
  intros HI Hc.
  pose proof HI as [H1 H2 H3 H4 H5 H6 H7 H8 H9 H10].
  pose proof (H4 i _ Hc) as (Hlt & Hpe & Hmi).
  remember (set_clean (upd_run s i (rw_dead (s_runs s i) x)) i None) as s' eqn:Es'.
  assert (Ecl : forall j, s_cleans s' j = if Nat.eqb j i then None else s_cleans s j) by (intros j; subst s'; reflexivity).
  assert (Eru : forall j, j <> i -> s_runs s' j = s_runs s j).
  { intros j Hj. subst s'. unfold set_clean, upd_run, fupd. simpl. apply Nat.eqb_neq in Hj. rewrite Hj. reflexivity. }
  assert (Eri : r_phase (s_runs s' i) = PDead /\ src_open (s_runs s' i) = src_open (s_runs s i)).
  { subst s'. unfold set_clean, upd_run, fupd. simpl. rewrite Nat.eqb_refl. split; reflexivity. }
  assert (Enx : s_next s' = s_next s) by (subst s'; reflexivity).
  assert (Est : s_status s' = s_status s) by (subst s'; reflexivity).
  assert (Emp : s_map s' = s_map s) by (subst s'; reflexivity).
  assert (Ecu : s_cur s' = s_cur s) by (subst s'; reflexivity).
  assert (Epr : s_proc s' = s_proc s) by (subst s'; reflexivity).
  assert (Eus : s_user s' = s_user s) by (subst s'; reflexivity).
  clear Es'.
  assert (Ent : forall j, nontail (s_cleans s' j) = nontail (s_cleans s j)).
  { intros j. rewrite Ecl. destruct (Nat.eqb j i) eqn:E; [|reflexivity]. apply Nat.eqb_eq in E. subst j. rewrite Hc. reflexivity. }
  assert (Hat : forall q, at_start s q -> at_start s' q).
  { intros q [H|[j H]]; [left; unfold user_start in *; rewrite Eus; exact H|]. right. exists j. rewrite Ecl.
    destruct (Nat.eqb j i) eqn:E; [|exact H]. apply Nat.eqb_eq in E. subst j. congruence. }
  assert (Halive : forall j, j <> i -> alive (s_runs s j) -> alive (s_runs s' j)).
  { intros j Hj Ha. unfold alive. rewrite (Eru j Hj). exact Ha. }
  assert (Hspc : forall q n, spc_ok s q n -> spc_ok s' q n).
  { intros q n. unfold spc_ok, pre_status. rewrite Est, Emp, Ecu, Enx.
    assert (Hne : forall r, s_cleans s r = None -> r <> i) by (intros r Hr E; subst; congruence).
    destruct q; auto; intros H; repeat match goal with H : _ /\ _ |- _ => destruct H end; repeat split; auto;
      try (rewrite Ecl; match goal with Hn : s_cleans s ?r = None |- _ =>
              pose proof (Hne r Hn) as Hr; apply Nat.eqb_neq in Hr; rewrite Hr; exact Hn end);
      try (match goal with Hn : s_cleans s ?r = None |- _ => rewrite (Eru r (Hne r Hn)); assumption end);
      try (match goal with Hn : s_cleans s ?r = None |- _ => apply (Halive r (Hne r Hn)); assumption end). }
  constructor.
  - intros a b Ha Hb. rewrite Ent in Ha, Hb. eapply H1; eauto.
  - intros Hf j. rewrite Ent. apply H2. unfold user_holds, user_start in *. rewrite Eus in Hf. exact Hf.
  - intros q Hq. apply Hspc. apply H3. unfold user_start in *. rewrite Eus in Hq. exact Hq.
  - intros j q Hj. rewrite Ecl in Hj. destruct (Nat.eqb j i) eqn:E; [discriminate|].
    apply Nat.eqb_neq in E. pose proof (H4 j q Hj) as [Hl Hok]. unfold clean_ok. rewrite Enx, Est, Emp, Ecu, (Eru j E).
    split; [exact Hl|]. destruct q as [| | |q0| | | |]; try exact Hok.
    destruct Hok as (A & B & C). split; [exact A|]. split; [apply Hspc; exact B|exact C].
  - intros Hu Hall. rewrite Est. apply H5.
    + unfold user_holds, user_start in *. rewrite Eus in Hu. exact Hu.
    + intros j. rewrite <- Ent. apply Hall.
  - intros m Hm. rewrite Emp in Hm. specialize (H6 m Hm). unfold map_owned in *. rewrite Ecl.
    destruct (Nat.eqb m i) eqn:E; [apply Nat.eqb_eq in E; subst m; contradiction|].
    destruct H6 as [H6|[H6|H6]]; [left; exact H6|right; left|right; right]; apply Hat; auto.
  - intros j Hj. rewrite Enx in Hj. specialize (H7 j Hj). unfold run_ok in *. rewrite Ecl.
    destruct (Nat.eqb j i) eqn:E.
    + apply Nat.eqb_eq in E. subst j. destruct Eri as [Ed _]. rewrite Ed. reflexivity.
    + apply Nat.eqb_neq in E. rewrite (Eru j E). destruct (r_phase (s_runs s j)); auto.
      * destruct H7 as [H7|H7]; [left|right]; apply Hat; auto.
      * destruct H7 as [H7|[H7|[H7|H7]]]; [left; exact H7|right; left|right; right; left|right; right; right]; apply Hat; auto.
      * destruct H7 as [H7|[H7|[H7|H7]]]; [left; exact H7|right; left|right; right; left|right; right; right]; apply Hat; auto.
  - intros j Hj. rewrite Enx in Hj. rewrite Ecl. destruct (Nat.eqb j i); [reflexivity|apply H8; exact Hj].
  - intros j Hj. rewrite Enx. destruct (Nat.eq_dec j i) as [->|Hne].
    + destruct Eri as [_ Eo]. rewrite Eo in Hj. destruct (H9 i Hj) as [A _]. congruence.
    + rewrite (Eru j Hne) in Hj |- *. apply H9. exact Hj.
  - intros p Hp. rewrite Epr in Hp. rewrite Enx. destruct (H10 p Hp) as [A B]. split; [exact A|].
    destruct (Nat.eq_dec p i) as [->|Hne]; [rewrite Hpe in B; destruct B; discriminate|rewrite (Eru p Hne); exact B].
Qed.

(* ------------------------------------------------------------------ *)
(* the Start nested in the cleanup goroutine of run i (recovery)       *)

Lemma at_start_nested_move s s1 i q q' :
  s_cleans s i = Some (CStart q) -> user_start s1 = user_start s ->
  (forall j, s_cleans s1 j = if Nat.eqb j i then Some (CStart q') else s_cleans s j) ->
  forall p, p <> q -> at_start s p -> at_start s1 p.
Proof.
  intros Hc Hu Ecl p Hp [H|[j H]].
  - left. rewrite Hu. exact H.
  - right. exists j. rewrite Ecl. destruct (Nat.eqb j i) eqn:E; [|exact H].
    apply Nat.eqb_eq in E. subst j. rewrite Hc in H. inversion H. congruence.
Qed.

Lemma at_start_nested_now s1 i q' :
  (forall j, s_cleans s1 j = if Nat.eqb j i then Some (CStart q') else s_cleans s1 j) -> True.
Proof. auto. Qed.

(* generic step of the nested Start from q to q', both about run r (or about no run yet) *)
Lemma nested_move_Inv s s1 i q q' :
  Inv s -> s_cleans s i = Some (CStart q) ->
  (forall j, s_cleans s1 j = if Nat.eqb j i then Some (CStart q') else s_cleans s j) ->
  s_user s1 = s_user s -> s_next s1 = s_next s -> s_proc s1 = s_proc s ->
  clean_ok s1 i (CStart q') ->
  (* runs: only the run the Start talks about may change, and only within its phase class or PNew -> PLive *)
  (forall j, pc_run q' <> Some j -> s_runs s1 j = s_runs s j) ->
  (forall j, pc_run q' = Some j -> src_open (s_runs s1 j) = src_open (s_runs s j) /\
                                  (r_phase (s_runs s1 j) = r_phase (s_runs s j) \/
                                   (r_phase (s_runs s j) = PNew /\ r_phase (s_runs s1 j) = PLive))) ->
  (* the map is unchanged or now points at the Start's run *)
  (s_map s1 = s_map s \/ (exists r, pc_run q' = Some r /\ s_map s1 = Some r)) ->
  (* ownership of the Start's own run and of the map entry is re-established by the caller *)
  (forall r, pc_run q' = Some r -> run_ok s1 r) ->
  (forall m, s_map s1 = Some m -> s_map s1 <> s_map s \/ pc_run q = Some m -> map_owned s1 m) ->
  (pc_run q = None \/ pc_run q = pc_run q') ->
  Inv s1.
Proof.
  intros HI Hc Ecl Eus Enx Epr Hok Hru Hrr Hmp Hrun Hmap Hqq.
  assert (Hn : nontail (Some (CStart q)) = true) by reflexivity.
  destruct (holder_ctx s i _ HI Hc Hn) as [Hnu Hoth].
  pose proof HI as [H1 H2 H3 H4 H5 H6 H7 H8 H9 H10].
  assert (Eust : user_start s1 = user_start s) by (unfold user_start; rewrite Eus; reflexivity).
  assert (Ent : forall j, nontail (s_cleans s1 j) = nontail (s_cleans s j)).
  { intros j. rewrite Ecl. destruct (Nat.eqb j i) eqn:E; [|reflexivity]. apply Nat.eqb_eq in E. subst j. rewrite Hc. reflexivity. }
  assert (Hat : forall p, p <> q -> at_start s p -> at_start s1 p).
  { eapply at_start_nested_move; eauto. }
  assert (Hnotrun : forall j pcj, j <> i -> s_cleans s j = Some pcj -> pc_run q' <> Some j).
  { intros j pcj Hj Hcj E. destruct Hok as [_ (_ & Hsp & _)].
    assert (Hnone : s_cleans s1 j = None).
    { destruct q'; simpl in E; inversion E; subst; simpl in Hsp; try contradiction;
        repeat match goal with H : _ /\ _ |- _ => destruct H end; assumption. }
    rewrite Ecl in Hnone. apply Nat.eqb_neq in Hj. rewrite Hj in Hnone. congruence. }
  constructor.
  - intros a b Ha Hb. rewrite Ent in Ha, Hb. eapply H1; eauto.
  - intros Hf. unfold user_holds in *. rewrite Eust in Hf. congruence.
  - intros p Hp. rewrite Eust in Hp. destruct (user_idle_of_not_holding s Hnu) as [E|E]; rewrite E in Hp; inversion Hp. exact I.
  - intros j pcj Hj. rewrite Ecl in Hj. destruct (Nat.eqb j i) eqn:E.
    + apply Nat.eqb_eq in E. subst j. inversion Hj. subst pcj. exact Hok.
    + apply Nat.eqb_neq in E. pose proof (Hoth j E) as Hnt. rewrite Hj in Hnt.
      apply (tail_clean_ok s s1 j pcj Hnt (H4 j pcj Hj)); [exact Enx| |].
      * rewrite (Hru j (Hnotrun j pcj E Hj)). reflexivity.
      * destruct Hmp as [Hmp|[r [Hr Hmp]]]; [left; exact Hmp|].
        right. left. exists r. split; [exact Hmp|]. intros Er. subst r. exact (Hnotrun j pcj E Hj Hr).
  - intros _ Hall. exfalso. specialize (Hall i). rewrite Ecl, Nat.eqb_refl in Hall. discriminate.
  - intros m Hm. destruct (option_eq_dec_nat (s_map s1) (s_map s)) as [Esame|Ediff].
    + destruct (option_eq_dec_nat (pc_run q) (Some m)) as [Eq|Nq]; [apply Hmap; auto|].
      rewrite Esame in Hm. specialize (H6 m Hm). unfold map_owned in *. rewrite Ecl.
      destruct (Nat.eqb m i) eqn:E.
      * left. eexists. split; [reflexivity|exact I].
      * destruct H6 as [H6|[H6|H6]]; [left; exact H6|right; left|right; right]; apply Hat; auto;
          intros Ex; subst q; simpl in Nq; congruence.
    + apply Hmap; auto.
  - intros j Hj. rewrite Enx in Hj.
    destruct (option_eq_dec_nat (pc_run q') (Some j)) as [Eq|Nq]; [apply Hrun; exact Eq|].
    specialize (H7 j Hj). unfold run_ok in *. rewrite (Hru j Nq), Ecl.
    assert (Hqj : forall p, pc_run p = Some j -> p <> q).
    { intros p Hp Ex. subst p. destruct Hqq as [E|E]; congruence. }
    destruct (r_phase (s_runs s j)).
    + destruct H7 as [H7|H7]; [left|right]; apply Hat; auto; apply Hqj; reflexivity.
    + destruct (Nat.eqb j i) eqn:E; [left; discriminate|].
      destruct H7 as [H7|[H7|[H7|H7]]]; [left; exact H7|right; left|right; right; left|right; right; right];
        apply Hat; auto; apply Hqj; reflexivity.
    + destruct (Nat.eqb j i) eqn:E; [left; discriminate|].
      destruct H7 as [H7|[H7|[H7|H7]]]; [left; exact H7|right; left|right; right; left|right; right; right];
        apply Hat; auto; apply Hqj; reflexivity.
    + destruct (Nat.eqb j i) eqn:E; [|exact H7]. apply Nat.eqb_eq in E. subst j. congruence.
  - intros j Hj. rewrite Enx in Hj. rewrite Ecl. destruct (Nat.eqb j i) eqn:E; [|apply H8; exact Hj].
    apply Nat.eqb_eq in E. subst j. pose proof (H4 i _ Hc) as [Hlt _]. lia.
  - intros j Hj. rewrite Enx.
    destruct (option_eq_dec_nat (pc_run q') (Some j)) as [Eq|Nq].
    + destruct (Hrr j Eq) as [Eo Ep]. rewrite Eo in Hj. destruct (H9 j Hj) as [A B]. split; [|exact B].
      destruct Ep as [Ep|[Ep _]]; [rewrite Ep; exact A|congruence].
    + rewrite (Hru j Nq) in Hj |- *. apply H9. exact Hj.
  - intros p Hp. rewrite Epr in Hp. rewrite Enx. destruct (H10 p Hp) as [A B]. split; [exact A|].
    destruct (option_eq_dec_nat (pc_run q') (Some p)) as [Eq|Nq].
    + destruct (Hrr p Eq) as [_ [Ep|[_ Ep]]]; [rewrite Ep; exact B|right; exact Ep].
    + rewrite (Hru p Nq). exact B.
Qed.

Lemma nested_facts s i q :
  Inv s -> s_cleans s i = Some (CStart q) ->
  i < s_next s /\ r_phase (s_runs s i) = PEnded /\ spc_ok s q true /\ (before_publish q = true -> s_map s = Some i)
  /\ user_holds s = false /\ (forall j, j <> i -> nontail (s_cleans s j) = false).
Proof.
  intros HI Hc. pose proof (i_clean s HI i _ Hc) as (A & B & C & D).
  destruct (holder_ctx s i _ HI Hc eq_refl) as [E F]. repeat split; auto.
Qed.

(* nested SBuild: a fresh run is created *)
Lemma nested_build_Inv s i (proc : bool) :
  Inv s -> s_cleans s i = Some (CStart SBuild) ->
  (proc = true -> s_proc s = None) ->
  let r := s_next s in
  let s1 := with_next (upd_run s r new_run) (S r) in
  let s2 := if proc then with_proc s1 (Some r) else s1 in
  Inv (set_clean s2 i (Some (CStart (SClear r)))).
Proof.
  intros HI Hc Hpn r s1 s2.
  destruct (nested_facts s i _ HI Hc) as (Hlt & Hpe & Hsp & Hbp & Hnu & Hoth).
  simpl in Hsp. specialize (Hbp eq_refl).
  pose proof HI as [H1 H2 H3 H4 H5 H6 H7 H8 H9 H10].
  remember (set_clean s2 i (Some (CStart (SClear r)))) as s' eqn:Es'.
  assert (Ecl : forall j, s_cleans s' j = if Nat.eqb j i then Some (CStart (SClear r)) else s_cleans s j)
    by (intros j; subst s'; unfold s2, s1; destruct proc; reflexivity).
  assert (Eru : s_runs s' = fupd (s_runs s) r new_run) by (subst s'; unfold s2, s1; destruct proc; reflexivity).
  assert (Enx : s_next s' = S r) by (subst s'; unfold s2, s1; destruct proc; reflexivity).
  assert (Est : s_status s' = s_status s) by (subst s'; unfold s2, s1; destruct proc; reflexivity).
  assert (Emp : s_map s' = s_map s) by (subst s'; unfold s2, s1; destruct proc; reflexivity).
  assert (Ecu : s_cur s' = s_cur s) by (subst s'; unfold s2, s1; destruct proc; reflexivity).
  assert (Eus : s_user s' = s_user s) by (subst s'; unfold s2, s1; destruct proc; reflexivity).
  assert (Epr : s_proc s' = if proc then Some r else s_proc s) by (subst s'; unfold s2, s1; destruct proc; reflexivity).
  clear Es'.
  assert (Eust : user_start s' = user_start s) by (unfold user_start; rewrite Eus; reflexivity).
  assert (Hold : forall j, j < s_next s -> s_runs s' j = s_runs s j).
  { intros j Hj. rewrite Eru. unfold fupd. destruct (Nat.eqb j r) eqn:E; [apply Nat.eqb_eq in E; unfold r in E; lia|reflexivity]. }
  assert (Hnew : s_runs s' r = new_run) by (rewrite Eru; unfold fupd; rewrite Nat.eqb_refl; reflexivity).
  assert (Ent : forall j, nontail (s_cleans s' j) = nontail (s_cleans s j)).
  { intros j. rewrite Ecl. destruct (Nat.eqb j i) eqn:E; [|reflexivity]. apply Nat.eqb_eq in E. subst j. rewrite Hc. reflexivity. }
  assert (Hat : forall p, p <> SBuild -> at_start s p -> at_start s' p).
  { eapply at_start_nested_move; eauto. }
  assert (Hri : r <> i) by (unfold r; lia).
  constructor.
  - intros a b Ha Hb. rewrite Ent in Ha, Hb. eapply H1; eauto.
  - intros Hf. unfold user_holds in *. rewrite Eust in Hf. congruence.
  - intros p Hp. rewrite Eust in Hp. destruct (user_idle_of_not_holding s Hnu) as [E|E]; rewrite E in Hp; inversion Hp. exact I.
  - intros j pcj Hj. rewrite Ecl in Hj. destruct (Nat.eqb j i) eqn:E.
    + apply Nat.eqb_eq in E. subst j. inversion Hj. subst pcj. unfold clean_ok. rewrite Enx, (Hold i Hlt).
      split; [unfold r; lia|]. split; [exact Hpe|]. split.
      * simpl. unfold pre_status. rewrite Est, Enx, Hnew, Ecl. apply Nat.eqb_neq in Hri. rewrite Hri.
        repeat split; auto; try (apply H8; unfold r; lia).
      * intros _. rewrite Emp. exact Hbp.
    + apply Nat.eqb_neq in E. pose proof (Hoth j E) as Hnt. rewrite Hj in Hnt.
      pose proof (H4 j pcj Hj) as Hokj. destruct Hokj as [Hltj Hcj].
      unfold clean_ok. rewrite Enx, (Hold j Hltj), Emp. split; [unfold r; lia|].
      destruct pcj; simpl in Hnt; try discriminate; exact Hcj.
  - intros _ Hall. exfalso. specialize (Hall i). rewrite Ecl, Nat.eqb_refl in Hall. discriminate.
  - intros m Hm. rewrite Emp in Hm. specialize (H6 m Hm). unfold map_owned in *. rewrite Ecl.
    destruct (Nat.eqb m i) eqn:E; [left; eexists; split; [reflexivity|exact I]|].
    destruct H6 as [H6|[H6|H6]]; [left; exact H6|right; left|right; right]; apply Hat; auto; discriminate.
  - intros j Hj. rewrite Enx in Hj. destruct (Nat.eq_dec j r) as [->|Hne].
    + unfold run_ok. rewrite Hnew. simpl. left. right. exists i. rewrite Ecl, Nat.eqb_refl. reflexivity.
    + assert (Hj' : j < s_next s) by (unfold r in *; lia).
      specialize (H7 j Hj'). unfold run_ok in *. rewrite (Hold j Hj'), Ecl.
      destruct (r_phase (s_runs s j)).
      * destruct H7 as [H7|H7]; [left|right]; apply Hat; auto; discriminate.
      * destruct (Nat.eqb j i) eqn:E; [left; discriminate|].
        destruct H7 as [H7|[H7|[H7|H7]]]; [left; exact H7|right; left|right; right; left|right; right; right]; apply Hat; auto; discriminate.
      * destruct (Nat.eqb j i) eqn:E; [left; discriminate|].
        destruct H7 as [H7|[H7|[H7|H7]]]; [left; exact H7|right; left|right; right; left|right; right; right]; apply Hat; auto; discriminate.
      * destruct (Nat.eqb j i) eqn:E; [|exact H7]. apply Nat.eqb_eq in E. subst j. congruence.
  - intros j Hj. rewrite Enx in Hj. rewrite Ecl. destruct (Nat.eqb j i) eqn:E.
    + apply Nat.eqb_eq in E. subst j. unfold r in Hj. lia.
    + apply H8. unfold r in Hj. lia.
  - intros j Hj. rewrite Enx. destruct (Nat.eq_dec j r) as [->|Hne].
    + rewrite Hnew in Hj. simpl in Hj. discriminate.
    + rewrite Eru in Hj |- *. unfold fupd in *. apply Nat.eqb_neq in Hne. rewrite Hne in *.
      destruct (H9 j Hj) as [A B]. split; [exact A|unfold r; lia].
  - intros p Hp. rewrite Epr in Hp. rewrite Enx. destruct proc.
    + inversion Hp. subst p. split; [lia|]. rewrite Hnew. left. reflexivity.
    + destruct (H10 p Hp) as [A B]. split; [unfold r; lia|]. rewrite (Hold p A). exact B.
Qed.

(* nested SRegister r: the cleanup goroutine of run r is registered, the nested Start returns nil and the
   cleanup goroutine of run i returns without its tail: the tomb of run i is dead *)
Lemma nested_register_Inv s i r x :
  Inv s -> s_cleans s i = Some (CStart (SRegister r)) ->
  let s1 := set_clean (upd_run s r (rw_started (s_runs s r))) r (Some CWait) in
  Inv (set_clean (upd_run s1 i (rw_dead (s_runs s1 i) x)) i None).
Proof.
  intros HI Hc s1.
  destruct (nested_facts s i _ HI Hc) as (Hlt & Hpe & Hsp & _ & Hnu & Hoth).
  destruct Hsp as (Hst & Hmp & Hcu & Hrlt & Hra & Hrn).
  assert (Hri : r <> i) by (intros E; subst; congruence).
  pose proof HI as [H1 H2 H3 H4 H5 H6 H7 H8 H9 H10].
  remember (set_clean (upd_run s1 i (rw_dead (s_runs s1 i) x)) i None) as s' eqn:Es'.
  assert (Ecl : forall j, s_cleans s' j = if Nat.eqb j i then None else if Nat.eqb j r then Some CWait else s_cleans s j).
  { intros j. subst s'. unfold s1, set_clean, upd_run, fupd. simpl. destruct (Nat.eqb j i); reflexivity. }
  assert (Eph : forall j, r_phase (s_runs s' j) = if Nat.eqb j i then PDead else r_phase (s_runs s j)).
  { intros j. subst s'. unfold s1, set_clean, upd_run, fupd. simpl.
    destruct (Nat.eqb j i) eqn:E1; [reflexivity|]. destruct (Nat.eqb j r) eqn:E2; [apply Nat.eqb_eq in E2; subst j|]; reflexivity. }
  assert (Eso : forall j, src_open (s_runs s' j) = src_open (s_runs s j)).
  { intros j. subst s'. unfold s1, set_clean, upd_run, fupd. simpl.
    destruct (Nat.eqb j i) eqn:E1.
    - apply Nat.eqb_eq in E1. subst j. apply Nat.eqb_neq in Hri. rewrite Nat.eqb_sym in Hri. rewrite Hri. reflexivity.
    - destruct (Nat.eqb j r) eqn:E2; [apply Nat.eqb_eq in E2; subst j|]; reflexivity. }
  assert (Enx : s_next s' = s_next s) by (subst s'; reflexivity).
  assert (Est : s_status s' = s_status s) by (subst s'; reflexivity).
  assert (Emp : s_map s' = s_map s) by (subst s'; reflexivity).
  assert (Ecu : s_cur s' = s_cur s) by (subst s'; reflexivity).
  assert (Epr : s_proc s' = s_proc s) by (subst s'; reflexivity).
  assert (Eus : s_user s' = s_user s) by (subst s'; reflexivity).
  clear Es'.
  assert (Eust : user_start s' = user_start s) by (unfold user_start; rewrite Eus; reflexivity).
  assert (Hat : forall p, p <> SRegister r -> at_start s p -> at_start s' p).
  { intros p Hp [H|[j H]]; [left; rewrite Eust; exact H|]. right. exists j. rewrite Ecl.
    destruct (Nat.eqb j i) eqn:E1; [apply Nat.eqb_eq in E1; subst j; rewrite Hc in H; inversion H; congruence|].
    destruct (Nat.eqb j r) eqn:E2; [apply Nat.eqb_eq in E2; subst j; congruence|exact H]. }
  constructor.
  - intros a b Ha Hb. rewrite Ecl in Ha, Hb.
    destruct (Nat.eqb a i) eqn:Ea; [discriminate|]. destruct (Nat.eqb b i) eqn:Eb; [discriminate|].
    apply Nat.eqb_neq in Ea, Eb.
    destruct (Nat.eqb a r) eqn:Ear, (Nat.eqb b r) eqn:Ebr.
    + apply Nat.eqb_eq in Ear, Ebr. congruence.
    + rewrite (Hoth b Eb) in Hb. discriminate.
    + rewrite (Hoth a Ea) in Ha. discriminate.
    + rewrite (Hoth a Ea) in Ha. discriminate.
  - intros Hf. unfold user_holds in *. rewrite Eust in Hf. congruence.
  - intros p Hp. rewrite Eust in Hp. destruct (user_idle_of_not_holding s Hnu) as [E|E]; rewrite E in Hp; inversion Hp. exact I.
  - intros j pcj Hj. rewrite Ecl in Hj. destruct (Nat.eqb j i) eqn:E1; [discriminate|].
    apply Nat.eqb_neq in E1. destruct (Nat.eqb j r) eqn:E2.
    + apply Nat.eqb_eq in E2. subst j. inversion Hj. subst pcj. unfold clean_ok, alive.
      rewrite Enx, Eph, Est, Emp, Ecu. apply Nat.eqb_neq in E1. rewrite E1. repeat split; auto.
    + pose proof (Hoth j E1) as Hnt. rewrite Hj in Hnt. pose proof (H4 j pcj Hj) as [Hl Hcj].
      unfold clean_ok. rewrite Enx, Eph, Emp. apply Nat.eqb_neq in E1. rewrite E1. split; [exact Hl|].
      destruct pcj; simpl in Hnt; try discriminate; exact Hcj.
  - intros _ Hall. exfalso. specialize (Hall r). rewrite Ecl in Hall.
    apply Nat.eqb_neq in Hri. rewrite Hri, Nat.eqb_refl in Hall. discriminate.
  - intros m Hm. rewrite Emp, Hmp in Hm. inversion Hm. subst m. left. exists CWait. rewrite Ecl.
    apply Nat.eqb_neq in Hri. rewrite Hri, Nat.eqb_refl. split; [reflexivity|exact I].
  - intros j Hj. rewrite Enx in Hj. unfold run_ok. rewrite Eph, Ecl.
    destruct (Nat.eqb j i) eqn:E1; [reflexivity|]. apply Nat.eqb_neq in E1.
    destruct (Nat.eqb j r) eqn:E2.
    + apply Nat.eqb_eq in E2. subst j. destruct Hra as [Hra|Hra]; rewrite Hra; left; discriminate.
    + apply Nat.eqb_neq in E2. specialize (H7 j Hj). unfold run_ok in H7.
      assert (Hq : forall p, pc_run p = Some j -> p <> SRegister r) by (intros p Hp Ex; subst p; simpl in Hp; congruence).
      destruct (r_phase (s_runs s j)); auto.
      * destruct H7 as [H7|H7]; [left|right]; apply Hat; auto; apply Hq; reflexivity.
      * destruct H7 as [H7|[H7|[H7|H7]]]; [left; exact H7|right; left|right; right; left|right; right; right]; apply Hat; auto; apply Hq; reflexivity.
      * destruct H7 as [H7|[H7|[H7|H7]]]; [left; exact H7|right; left|right; right; left|right; right; right]; apply Hat; auto; apply Hq; reflexivity.
  - intros j Hj. rewrite Enx in Hj. rewrite Ecl. destruct (Nat.eqb j i); [reflexivity|].
    destruct (Nat.eqb j r) eqn:E2; [apply Nat.eqb_eq in E2; subst j; lia|apply H8; exact Hj].
  - intros j Hj. rewrite Eso in Hj. rewrite Eph, Enx. destruct (H9 j Hj) as [A B].
    destruct (Nat.eqb j i) eqn:E; [apply Nat.eqb_eq in E; subst j; congruence|]. split; assumption.
  - intros p Hp. rewrite Epr in Hp. rewrite Enx, Eph. destruct (H10 p Hp) as [A B]. split; [exact A|].
    destruct (Nat.eqb p i) eqn:E; [apply Nat.eqb_eq in E; subst p; rewrite Hpe in B; destruct B; discriminate|exact B].
Qed.

Lemma stopped_of_final x : stopped_b x = true -> x = UserStopped \/ x = SystemStopped \/ x = Degraded.
Proof. destruct x; simpl; try discriminate; auto. Qed.

Lemma clean_step_Inv c s i ch s' l :
  c_engine c = V1 -> c_stfail c = false -> Inv s -> clean_step c s i ch = Some (s', l) -> Inv s'.
Proof.
  intros Hv Hsf HI H. unfold clean_step in H.
  destruct (get_run s i) as [r|] eqn:Er; [|discriminate].
  pose proof (get_run_some _ _ _ Er) as Hr. subst r.
  destruct (s_cleans s i) as [pc|] eqn:Hc; [|discriminate].
  pose proof (i_clean s HI i pc Hc) as Hok.
  destruct pc as [| | |q| |e|e|e].
  - (* CWait *)
    destruct Hok as (Hlt & Hal & Hst & Hmp & Hcu).
    destruct (r_phase (s_runs s i)) eqn:Ep; try discriminate.
    destruct (r_started (s_runs s i)); [|discriminate].
    rewrite Hv in H. simpl arms_of in H.
    set (rs := if late_read c (s_runs s i) ch then RNil else reason_of c (r_kill (s_runs s i))) in H.
    destruct (enters_recovery v1_arms rs (flags_of c s (s_runs s i))) eqn:Ee.
    + inversion H; subst; clear H.
      apply (clean_move_Inv s i CWait CBackoff Recovering HI Hc eq_refl); [discriminate| |discriminate|exact I].
      unfold clean_ok. simpl. repeat split; auto.
    + destruct (v1_decide_stopped _ _ Ee) as (x & e & Hd & Hx). rewrite Hd in H. inversion H; subst; clear H.
      apply (clean_move_Inv s i CWait (CTail1 _) x HI Hc eq_refl); [discriminate| |intros _; exact Hx|exact I].
      unfold clean_ok. simpl. split; auto.
  - (* CBackoff *)
    destruct Hok as (Hlt & Hpe & Hst & Hmp).
    destruct ch; [|rewrite (close_failed_recovery_owner _ _ _ _ Hmp) in H]; inversion H; subst; clear H.
    + change (Inv (set_clean (with_status s (s_status s)) i (Some CWake))).
      apply (clean_move_Inv s i CBackoff CWake _ HI Hc eq_refl); [discriminate| |discriminate|exact I].
      unfold clean_ok. simpl. repeat split; auto.
    + apply (clean_move_Inv s i CBackoff (CTail1 ResRecovery) Degraded HI Hc eq_refl); [discriminate| |reflexivity|exact I].
      unfold clean_ok. simpl. split; auto.
  - (* CWake *)
    destruct Hok as (Hlt & Hpe & Hst & Hmp).
    rewrite Hmp in H. simpl in H. rewrite Nat.eqb_refl in H. rewrite Hv in H. inversion H; subst; clear H.
    change (Inv (set_clean (with_status s (s_status s)) i (Some (CStart SCheck)))).
    apply (clean_move_Inv s i CWake (CStart SCheck) _ HI Hc eq_refl); [discriminate| |discriminate|reflexivity].
    unfold clean_ok. simpl. repeat split; auto.
  - (* CStart q : the nested Start *)
    destruct Hok as (Hlt & Hpe & Hsp & Hbp).
    destruct q as [| |r|r|r|r|r|r|r|r|r]; simpl in H; rewrite ?Hsf in H; simpl in H; rewrite ?Hv in H; simpl in Hsp; try contradiction.
    + (* SCheck *)
      rewrite Hsp in H. simpl in H. inversion H; subst; clear H.
      change (Inv (set_clean (with_status s (s_status s)) i (Some (CStart SBuild)))).
      apply (clean_move_Inv s i (CStart SCheck) (CStart SBuild) _ HI Hc eq_refl);
        [intros q Hq; inversion Hq; reflexivity| |discriminate|reflexivity].
      unfold clean_ok. simpl. repeat split; auto.
    + (* SBuild *)
      destruct (s_guard s) eqn:Eg.
      * inversion H; subst; clear H.
        change (Inv (set_clean (with_status s (s_status s)) i (Some CFailed))).
        apply (clean_move_Inv s i (CStart SBuild) CFailed _ HI Hc eq_refl);
          [intros q Hq; inversion Hq; reflexivity| |discriminate|exact I].
        unfold clean_ok. simpl. repeat split; auto.
      * destruct (c_proc c && negb (onat_eqb (s_proc s) None)) eqn:Epb.
        -- inversion H; subst; clear H.
           change (Inv (set_clean (with_status s (s_status s)) i (Some CFailed))).
           apply (clean_move_Inv s i (CStart SBuild) CFailed _ HI Hc eq_refl);
             [intros q Hq; inversion Hq; reflexivity| |discriminate|exact I].
           unfold clean_ok. simpl. repeat split; auto.
        -- inversion H; subst; clear H.
           apply (nested_build_Inv s i (c_proc c)); auto.
           intros Hp. rewrite Hp in Epb. simpl in Epb. apply Bool.negb_false_iff in Epb.
           apply onat_eqb_eq in Epb. exact Epb.
    + (* SClear r -> SSpawn r *)
      inversion H; subst; clear H.
      destruct Hsp as (Hst & Hrlt & Hrp & Hrn). specialize (Hbp eq_refl).
      assert (Hri : r <> i) by (intros E; subst; congruence).
      apply (nested_move_Inv s _ i (SClear r) (SSpawn r) HI Hc); try reflexivity; simpl.
      * unfold clean_ok. simpl. unfold fupd. apply Nat.eqb_neq in Hri. rewrite Hri. repeat split; auto.
      * intros j E. split; [reflexivity|left; reflexivity].
      * left. reflexivity.
      * intros r0 E. inversion E. subst r0. unfold run_ok. simpl. rewrite Hrp. right. right. exists i.
        simpl. unfold fupd. rewrite Nat.eqb_refl. reflexivity.
      * intros m Hm [Hd|Hd]; [congruence|]. inversion Hd. subst m. rewrite Hbp in Hm. inversion Hm. congruence.
      * right. reflexivity.
    + (* SSpawn r -> SPublish r *)
      destruct (get_run s r) as [xr|] eqn:Err; [|discriminate].
      pose proof (get_run_some _ _ _ Err). subst xr. inversion H; subst; clear H.
      destruct Hsp as (Hst & Hrlt & Hrp & Hrn). specialize (Hbp eq_refl).
      assert (Hri : r <> i) by (intros E; subst; congruence).
      assert (Hir : (i =? r) = false) by (apply Nat.eqb_neq; auto).
      assert (Hri' : (r =? i) = false) by (apply Nat.eqb_neq; auto).
      apply (nested_move_Inv s _ i (SSpawn r) (SPublish r) HI Hc); try reflexivity; simpl.
      * unfold clean_ok, alive. simpl. unfold fupd. rewrite Hir, Hri', Nat.eqb_refl. simpl. repeat split; auto.
        left. reflexivity.
      * intros j Hj. unfold fupd. destruct (Nat.eqb j r) eqn:E; [apply Nat.eqb_eq in E; subst; congruence|reflexivity].
      * intros j E. inversion E. subst j. unfold fupd. rewrite Nat.eqb_refl. simpl. split; [reflexivity|right; auto].
      * left. reflexivity.
      * intros r0 E. inversion E. subst r0. unfold run_ok. simpl. unfold fupd at 1. rewrite Nat.eqb_refl. simpl.
        right. left. right. exists i. simpl. unfold fupd. rewrite Nat.eqb_refl. reflexivity.
      * intros m Hm [Hd|Hd]; [congruence|]. inversion Hd. subst m. rewrite Hbp in Hm. inversion Hm. congruence.
      * right. reflexivity.
    + (* SPublish r -> SStatus r *)
      inversion H; subst; clear H.
      destruct Hsp as (Hst & Hrlt & Hra & Hrn). specialize (Hbp eq_refl).
      assert (Hri : r <> i) by (intros E; subst; congruence).
      assert (Hri' : (r =? i) = false) by (apply Nat.eqb_neq; auto).
      apply (nested_move_Inv s _ i (SPublish r) (SStatus r) HI Hc); try reflexivity; simpl.
      * unfold clean_ok. simpl. unfold fupd. rewrite Hri'. repeat split; auto. discriminate.
      * intros j E. split; [reflexivity|left; reflexivity].
      * right. exists r. split; reflexivity.
      * intros r0 E. inversion E. subst r0. unfold run_ok. simpl.
        destruct Hra as [Hra|Hra]; rewrite Hra; right; right; left; right; exists i; simpl; unfold fupd; rewrite Nat.eqb_refl; reflexivity.
      * intros m Hm _. inversion Hm. subst m. right. left. right. exists i. simpl. unfold fupd. rewrite Nat.eqb_refl. reflexivity.
      * right. reflexivity.
    + (* SStatus r -> SRegister r *)
      inversion H; subst; clear H.
      destruct Hsp as (Hst & Hmp & Hrlt & Hra & Hrn).
      assert (Hri : r <> i) by (intros E; subst; congruence).
      assert (Hri' : (r =? i) = false) by (apply Nat.eqb_neq; auto).
      apply (nested_move_Inv s _ i (SStatus r) (SRegister r) HI Hc); try reflexivity; simpl.
      * unfold clean_ok. simpl. unfold fupd. rewrite Hri'. repeat split; auto; discriminate.
      * intros j E. split; [reflexivity|left; reflexivity].
      * left. reflexivity.
      * intros r0 E. inversion E. subst r0. unfold run_ok. simpl.
        destruct Hra as [Hra|Hra]; rewrite Hra; right; right; right; right; exists i; simpl; unfold fupd; rewrite Nat.eqb_refl; reflexivity.
      * intros m Hm _. rewrite Hmp in Hm. inversion Hm. subst m. right. right. right. exists i. simpl. unfold fupd. rewrite Nat.eqb_refl. reflexivity.
      * right. reflexivity.
    + (* SRegister r : the nested Start returns nil *)
      destruct (get_run s r) as [xr|] eqn:Err; [|discriminate].
      pose proof (get_run_some _ _ _ Err). subst xr. simpl in H.
      match type of H with context [get_run ?t i] => destruct (get_run t i) as [xi|] eqn:Ei; [|discriminate] end.
      pose proof (get_run_some _ _ _ Ei). subst xi. inversion H; subst; clear H.
      apply (nested_register_Inv s i r _ HI Hc).
  - (* CFailed *)
    destruct Hok as (Hlt & Hpe & Hst & Hmp). rewrite (close_failed_recovery_owner _ _ _ _ Hmp) in H. inversion H; subst; clear H.
    apply (clean_move_Inv s i CFailed (CTail1 ResRecovery) Degraded HI Hc eq_refl); [discriminate| |reflexivity|exact I].
    unfold clean_ok. simpl. split; auto.
  - (* CTail1 *)
    inversion H; subst; clear H. destruct Hok as (Hlt & Hpe).
    change (Inv (set_clean (with_terr (with_map s (s_map s)) (Some e)) i (Some (CTail2 e)))).
    apply (tail_move_Inv s i (CTail1 e) (CTail2 e) (s_map s) HI Hc eq_refl eq_refl); [left; reflexivity|exact I].
  - (* CTail2 *)
    rewrite Hv in H. inversion H; subst; clear H. destruct Hok as (Hlt & Hpe).
    destruct (onat_eqb (s_map s) (Some i)) eqn:Em.
    + apply onat_eqb_eq in Em.
      change (Inv (set_clean (with_terr (with_map s None) (s_terr s)) i (Some (CTail3 e)))).
      apply (tail_move_Inv s i (CTail2 e) (CTail3 e) None HI Hc eq_refl eq_refl); [right; split; auto|discriminate].
    + change (Inv (set_clean (with_terr (with_map s (s_map s)) (s_terr s)) i (Some (CTail3 e)))).
      apply (tail_move_Inv s i (CTail2 e) (CTail3 e) (s_map s) HI Hc eq_refl eq_refl); [left; reflexivity|].
      intros E. rewrite E in Em. simpl in Em. rewrite Nat.eqb_refl in Em. discriminate.
  - (* CTail3 *)
    inversion H; subst; clear H. apply (clean_end_Inv s i e _ HI Hc).
Qed.

(* ------------------------------------------------------------------ *)
(* every step                                                          *)
Theorem step_Inv c s a s' l :
  c_engine c = V1 -> c_stfail c = false -> Inv s -> polite s a -> step c s a = Some (s', l) -> Inv s'.
Proof.
  intros Hv Hsf HI Hp H. destruct a; unfold step in H.
  - eapply call_step_Inv; eauto.
  - eapply user_step_Inv; eauto.
  - eapply waiter_step_Inv; eauto.
  - eapply clean_step_Inv; eauto.
  - eapply env_step_Inv; eauto.
  - eapply env_step_Inv; eauto.
  - eapply env_step_Inv; eauto.
  - eapply env_step_Inv; eauto.
  - eapply env_step_Inv; eauto.
  - eapply env_step_Inv; eauto.
  - eapply env_step_Inv; eauto.
  - eapply env_step_Inv; eauto.
Qed.

(* an interleaving in which no Start takes its status check while the status is Recovering *)
Fixpoint polite_run (c : cfg) (s : st) (acts : list act) : Prop :=
  match acts with
  | [] => True
  | a :: t => polite s a /\ match step c s a with Some (s', _) => polite_run c s' t | None => True end
  end.

Theorem run_Inv c acts : c_engine c = V1 -> c_stfail c = false ->
  forall s s', Inv s -> polite_run c s acts -> run_acts c s acts = Some s' -> Inv s'.
Proof.
  intros Hv Hsf. induction acts as [|a t IH]; intros s s' HI Hp H; simpl in *.
  - inversion H; subst; exact HI.
  - destruct Hp as [Hpa Hpt]. destruct (step c s a) as [[s1 l]|] eqn:E; [|discriminate].
    eapply IH; [|exact Hpt|exact H]. eapply step_Inv; eauto.
Qed.

(* ------------------------------------------------------------------ *)
(* v1: the connector guard is held only by a run whose source is open  *)
Definition GG (s : st) : Prop := forall g, s_guard s = Some g -> src_open (s_runs s g) = true /\ g < s_next s.

Lemma GG_init : GG init. Proof. intros g H. discriminate. Qed.

(* a Start step of v1 never touches the guard or the source state of an existing run *)
Lemma start_step_GG c s pc ch :
  c_engine c = V1 -> c_stfail c = false -> GG s ->
  match start_step c s pc ch with
  | SNext s' _ _ | SFin s' _ _ =>
      match pc with SOpenA _ | SOpenSrc _ | SOpenDlq _ | SRollback _ => True | _ => GG s' end
  | SStuck => True
  end.
Proof.
  intros Hv Hsf HG. destruct pc as [| |r|r|r|r|r|r|r|r|r]; simpl; rewrite ?Hsf; simpl; rewrite ?Hv.
  - destruct (status_eqb (s_status s) Running); exact HG.
  - destruct (s_guard s) eqn:Eg; [exact HG|].
    destruct (c_proc c && negb (onat_eqb (s_proc s) None)); [exact HG|].
    intros g Hg. destruct (c_proc c); simpl in Hg; rewrite Eg in Hg; discriminate.
  - exact HG.
  - destruct ch as [|[|[|ch]]]; try destruct (c_proc c); try destruct (f_proc_open (c_fix c)); try (match goal with |- context [existsb ?f ?l] => destruct (existsb f l) end); exact I.
  - destruct (get_run s r); [|exact I]. destruct ch; [destruct (s_guard s)|]; exact I.
  - destruct ch; [exact I|]. destruct (f_dlq_open (c_fix c)); exact I.
  - destruct (get_run s r); [|exact I]. match goal with |- context [if ?b then _ else _] => destruct b end; exact I.
  - destruct (get_run s r) as [x|] eqn:E; [|exact I]. apply get_run_some in E. subst x.
    intros g Hg. simpl in *. destruct (HG g Hg) as [A B]. split; [|exact B].
    unfold fupd. destruct (Nat.eqb g r) eqn:E; [apply Nat.eqb_eq in E; subst; exact A|exact A].
  - exact HG.
  - exact HG.
  - destruct (get_run s r) as [x|] eqn:E; [|exact I]. apply get_run_some in E. subst x.
    intros g Hg. simpl in *. destruct (HG g Hg) as [A B]. split; [|exact B].
    unfold fupd. destruct (Nat.eqb g r) eqn:E; [apply Nat.eqb_eq in E; subst; exact A|exact A].
Qed.

Lemma GG_upd_same s i x :
  GG s -> src_open x = src_open (s_runs s i) -> GG (upd_run s i x).
Proof.
  intros HG Hx g Hg. simpl in *. destruct (HG g Hg) as [A B]. split; [|exact B].
  unfold fupd. destruct (Nat.eqb g i) eqn:E; [apply Nat.eqb_eq in E; subst; congruence|exact A].
Qed.

Lemma GG_ext s s' : s_guard s' = s_guard s -> s_runs s' = s_runs s -> s_next s' = s_next s -> GG s -> GG s'.
Proof. intros E1 E2 E3 HG g Hg. rewrite E1 in Hg. rewrite E2, E3. apply HG. exact Hg. Qed.

Lemma not_v2_pc s pc n : spc_ok s pc n -> match pc with SOpenA _ | SOpenSrc _ | SOpenDlq _ | SRollback _ => False | _ => True end.
Proof. destruct pc; simpl; auto. Qed.

Lemma step_GG c s a s' l :
  c_engine c = V1 -> c_stfail c = false -> Inv s -> GG s -> step c s a = Some (s', l) -> GG s'.
Proof.
  intros Hv Hsf HI HG H. destruct a; unfold step in H.
  - (* call *) unfold call_step in H. split_hyp H; try discriminate; inversion H; subst; clear H;
      (eapply GG_ext; [| | |exact HG]; reflexivity).
  - (* user *)
    unfold user_step in H. destruct (s_user s) as [[[id k] pc]|] eqn:Hu; [|discriminate].
    destruct pc as [q| |m sw|r m sw|r m sw| |r| |x].
    + pose proof (start_step_GG c s q choice Hv Hsf HG) as HS.
      pose proof (not_v2_pc s q false (i_user s HI q ltac:(unfold user_start; rewrite Hu; reflexivity))) as Hq.
      destruct (start_step c s q choice) as [s1 pc1 l1|s1 x1 l1|]; [| |discriminate];
        inversion H; subst; clear H; (eapply GG_ext; [| | |destruct q; try contradiction; exact HS]; reflexivity).
    + inversion H; subst; clear H. eapply GG_ext; [| | |exact HG]; reflexivity.
    + split_hyp H; inversion H; subst; clear H; (eapply GG_ext; [| | |exact HG]; reflexivity).
    + split_hyp H; inversion H; subst; clear H; (eapply GG_ext; [| | |exact HG]; reflexivity).
    + rewrite Hv in H. destruct (get_run s r) as [x|] eqn:Er; [|discriminate].
      apply get_run_some in Er. subst x.
      split_hyp H; try discriminate; inversion H; subst; clear H;
        try (eapply GG_ext; [| | |exact HG]; reflexivity);
        (eapply GG_ext; [| | |apply (GG_upd_same s r); [exact HG|]]; try reflexivity);
        try (match goal with |- context [match ?p with PDead => _ | _ => _ end] => destruct p end; reflexivity).
    + split_hyp H; inversion H; subst; clear H; (eapply GG_ext; [| | |exact HG]; reflexivity).
    + split_hyp H; try discriminate; inversion H; subst; clear H; (eapply GG_ext; [| | |exact HG]; reflexivity).
    + inversion H; subst; clear H. eapply GG_ext; [| | |exact HG]; reflexivity.
    + inversion H; subst; clear H. eapply GG_ext; [| | |exact HG]; reflexivity.
  - (* waiter *) unfold waiter_step in H. split_hyp H; try discriminate; inversion H; subst; clear H;
      (eapply GG_ext; [| | |exact HG]; reflexivity).
  - (* cleanup *)
    unfold clean_step in H. destruct (get_run s r) as [x|] eqn:Er; [|discriminate].
    apply get_run_some in Er. subst x.
    destruct (s_cleans s r) as [pc|] eqn:Hc; [|discriminate].
    destruct pc as [| | |q| |e|e|e].
    4:{ pose proof (start_step_GG c s q choice Hv Hsf HG) as HS.
        pose proof (i_clean s HI r _ Hc) as (_ & _ & Hsp & _).
        pose proof (not_v2_pc s q true Hsp) as Hq.
        destruct (start_step c s q choice) as [s1 pc1 l1|s1 x1 l1|]; [| |discriminate].
        - inversion H; subst; clear H. eapply GG_ext; [| | |destruct q; try contradiction; exact HS]; reflexivity.
        - assert (HS1 : GG s1) by (destruct q; try contradiction; exact HS).
          destruct x1; split_hyp H; try discriminate; inversion H; subst; clear H;
            try (eapply GG_ext; [| | |exact HS1]; reflexivity).
          match goal with E : get_run s1 r = Some ?x |- _ => apply get_run_some in E; subst end.
          eapply GG_ext; [| | |apply (GG_upd_same s1 r); [exact HS1|]]; reflexivity. }
    all: unfold close_failed_recovery in H; rewrite ?Hv in H; split_hyp H; try discriminate; inversion H; subst; clear H;
      try (eapply GG_ext; [| | |exact HG]; reflexivity).
    all: unfold finish_clean; (eapply GG_ext; [| | |apply (GG_upd_same s r); [exact HG|]]; reflexivity).
  - (* AOpen *)
    unfold env_step in H; destruct (get_run s r) as [x|] eqn:Er; try discriminate;
       assert (Hlt : r < s_next s) by (unfold get_run in Er; destruct (r <? s_next s) eqn:E; [apply Nat.ltb_lt; exact E|discriminate]);
       apply get_run_some in Er; subst x;
       split_hyp H; try discriminate; inversion H; subst; clear H; bools.
    intros g Hg. simpl in *. inversion Hg. subst g. unfold fupd. rewrite Nat.eqb_refl. simpl. split; [reflexivity|exact Hlt].
  - (* AOpenFail *)
    unfold env_step in H; destruct (get_run s r) as [x|] eqn:Er; try discriminate;
       assert (Hlt : r < s_next s) by (unfold get_run in Er; destruct (r <? s_next s) eqn:E; [apply Nat.ltb_lt; exact E|discriminate]);
       apply get_run_some in Er; subst x;
       split_hyp H; try discriminate; inversion H; subst; clear H; bools.
    intros g Hg. simpl in *. destruct (HG g Hg) as [A B]. split; [|exact B]. unfold fupd.
    destruct (Nat.eqb g r) eqn:E; [|exact A]. apply Nat.eqb_eq in E. subst g.
    unfold src_init, src_open in *. destruct (r_src (s_runs s r)); discriminate.
  - (* AOpenBusy *)
    unfold env_step in H; destruct (get_run s r) as [x|] eqn:Er; try discriminate;
       assert (Hlt : r < s_next s) by (unfold get_run in Er; destruct (r <? s_next s) eqn:E; [apply Nat.ltb_lt; exact E|discriminate]);
       apply get_run_some in Er; subst x;
       split_hyp H; try discriminate; inversion H; subst; clear H; bools.
    intros g Hg. simpl in *. destruct (HG g Hg) as [A B]. split; [|exact B]. unfold fupd.
    destruct (Nat.eqb g r) eqn:E; [|exact A]. apply Nat.eqb_eq in E. subst g.
    unfold src_init, src_open in *. destruct (r_src (s_runs s r)); discriminate.
  - (* AInject *)
    unfold env_step in H; destruct (get_run s r) as [x|] eqn:Er; try discriminate;
       assert (Hlt : r < s_next s) by (unfold get_run in Er; destruct (r <? s_next s) eqn:E; [apply Nat.ltb_lt; exact E|discriminate]);
       apply get_run_some in Er; subst x;
       split_hyp H; try discriminate; inversion H; subst; clear H; bools.
    apply GG_upd_same; [exact HG|reflexivity].
  - (* AKill *)
    unfold env_step in H; destruct (get_run s r) as [x|] eqn:Er; try discriminate;
       assert (Hlt : r < s_next s) by (unfold get_run in Er; destruct (r <? s_next s) eqn:E; [apply Nat.ltb_lt; exact E|discriminate]);
       apply get_run_some in Er; subst x;
       split_hyp H; try discriminate; inversion H; subst; clear H; bools.
    apply GG_upd_same; [exact HG|reflexivity].
  - (* ATd *)
    unfold env_step in H; destruct (get_run s r) as [x|] eqn:Er; try discriminate;
       assert (Hlt : r < s_next s) by (unfold get_run in Er; destruct (r <? s_next s) eqn:E; [apply Nat.ltb_lt; exact E|discriminate]);
       apply get_run_some in Er; subst x;
       split_hyp H; try discriminate; inversion H; subst; clear H; bools.
    intros g Hg. simpl in Hg. discriminate.
  - (* AEnd *)
    unfold env_step in H; destruct (get_run s r) as [x|] eqn:Er; try discriminate;
       assert (Hlt : r < s_next s) by (unfold get_run in Er; destruct (r <? s_next s) eqn:E; [apply Nat.ltb_lt; exact E|discriminate]);
       apply get_run_some in Er; subst x;
       split_hyp H; try discriminate; inversion H; subst; clear H; bools.
    all: unfold rel_proc; simpl; match goal with |- context [onat_eqb ?a ?b] => destruct (onat_eqb a b) end.
    all: intros g Hg; simpl in *; destruct (HG g Hg) as [A B]; (split; [|exact B]); unfold fupd;
         (destruct (Nat.eqb g r) eqn:E; [|exact A]); apply Nat.eqb_eq in E; subst g;
         rewrite A in *; discriminate.
  - (* AConflict *)
    unfold env_step in H; destruct (get_run s r) as [x|] eqn:Er; try discriminate;
       assert (Hlt : r < s_next s) by (unfold get_run in Er; destruct (r <? s_next s) eqn:E; [apply Nat.ltb_lt; exact E|discriminate]);
       apply get_run_some in Er; subst x;
       split_hyp H; try discriminate; inversion H; subst; clear H; bools.
    apply GG_upd_same; [exact HG|reflexivity].
Qed.

Theorem run_Inv_GG c acts : c_engine c = V1 -> c_stfail c = false ->
  forall s s', Inv s -> GG s -> polite_run c s acts -> run_acts c s acts = Some s' -> Inv s' /\ GG s'.
Proof.
  intros Hv Hsf. induction acts as [|a t IH]; intros s s' HI HG Hp H; simpl in *.
  - inversion H; subst; auto.
  - destruct Hp as [Hpa Hpt]. destruct (step c s a) as [[s1 l]|] eqn:E; [|discriminate].
    eapply IH; [| |exact Hpt|exact H].
    + eapply step_Inv; eauto.
    + eapply step_GG; eauto.
Qed.

(* ------------------------------------------------------------------ *)
(* consequences                                                        *)

(* search below a bound *)
Lemma find_below (p : nat -> bool) n : (forall i, i < n -> p i = false) \/ (exists i, i < n /\ p i = true).
Proof.
  induction n as [|n IH]; [left; intros; lia|].
  destruct IH as [IH|[i [Hi Hp]]]; [|right; exists i; split; [lia|exact Hp]].
  destruct (p n) eqn:E; [right; exists n; split; [lia|exact E]|].
  left. intros i Hi. destruct (Nat.eq_dec i n) as [->|Hne]; [exact E|apply IH; lia].
Qed.

Lemma holder_exists s : Inv s -> stopped_b (s_status s) = false ->
  user_holds s = true \/ exists i, nontail (s_cleans s i) = true.
Proof.
  intros HI Hs. destruct (user_holds s) eqn:Eu; [left; reflexivity|right].
  destruct (find_below (fun i => nontail (s_cleans s i)) (s_next s)) as [Hall|[i [_ Hi]]]; [|exists i; exact Hi].
  exfalso. assert (Hall' : forall i, nontail (s_cleans s i) = false).
  { intros i. destruct (Nat.lt_ge_cases i (s_next s)) as [A|A]; [apply Hall; exact A|].
    rewrite (i_range s HI i A). reflexivity. }
  rewrite (i_idle s HI Eu Hall') in Hs. discriminate.
Qed.

(* running_implies_map_is_live: whenever the stored status is Running, the run map points at the run
   that announced Running, and the tomb of that run is not dead *)
Theorem running_implies_map_is_live_inv s :
  Inv s -> s_status s = Running ->
  exists r, s_map s = Some r /\ s_cur s = Some r /\ alive (s_runs s r).
Proof.
  intros HI Hs.
  destruct (holder_exists s HI ltac:(rewrite Hs; reflexivity)) as [Hu|[i Hi]].
  - unfold user_holds in Hu. destruct (user_start s) as [pc|] eqn:E; [|discriminate].
    pose proof (i_user s HI pc E) as Hp.
    destruct pc; simpl in Hp; try discriminate; try contradiction;
      unfold pre_status in Hp;
      try (rewrite Hs in Hp; simpl in Hp; discriminate);
      try (destruct Hp as [Hp _]; rewrite Hs in Hp; simpl in Hp; discriminate).
    destruct Hp as (_ & A & B & _ & C & _). exists r. auto.
  - destruct (s_cleans s i) as [pc|] eqn:E; [|discriminate].
    pose proof (i_clean s HI i pc E) as [_ Hc].
    destruct pc as [| | |q| |e|e|e]; simpl in Hi; try discriminate.
    + destruct Hc as (A & _ & B & C). exists i. auto.
    + destruct Hc as (_ & A & _). congruence.
    + destruct Hc as (_ & A & _). congruence.
    + destruct Hc as (_ & Hp & _).
      destruct q; simpl in Hp; try contradiction; unfold pre_status in Hp;
        try congruence; try (destruct Hp as [Hp _]; congruence).
      destruct Hp as (_ & A & B & _ & C & _). exists r. auto.
    + destruct Hc as (_ & A & _). congruence.
Qed.

Lemma forallb_ids s p : forallb p (ids s) = true -> forall i, i < s_next s -> p i = true.
Proof. unfold ids. intros H i Hi. rewrite forallb_forall in H. apply H. apply in_seq. lia. Qed.

(* what quiescence says, per run *)
Lemma quiescent_facts s : quiescent s = true ->
  s_user s = None /\
  (forall i, i < s_next s ->
     match s_cleans s i with None => True | Some pc => pc = CWait /\ is_live (s_runs s i) = true end
     /\ r_phase (s_runs s i) <> PEnded).
Proof.
  unfold quiescent. intros H. apply andb_prop in H. destruct H as [H H3]. apply andb_prop in H. destruct H as [H1 H2].
  split; [destruct (s_user s); [discriminate|reflexivity]|].
  intros i Hi. pose proof (forallb_ids s _ H3 i Hi) as Hq. simpl in Hq.
  apply andb_prop in Hq. destruct Hq as [Ha Hb]. split.
  - destruct (s_cleans s i) as [pc|]; [|exact I]. destruct pc; try discriminate. auto.
  - destruct (r_phase (s_runs s i)); try discriminate.
Qed.

Lemma filter_nil_iff {A} (p : A -> bool) l : filter p l = [] <-> forall x, In x l -> p x = false.
Proof.
  induction l as [|a l IH]; simpl; [tauto|]. destruct (p a) eqn:E.
  - split; [discriminate|]. intros H. specialize (H a (or_introl eq_refl)). congruence.
  - rewrite IH. split; [intros H x [->|Hx]; auto|intros H x Hx; apply H; auto].
Qed.

(* status_agrees_with_last_run_end: once nothing is in flight, the stored status and the run map agree
   with the runs: exactly one live run, Running, and the map points at it - or no live run, a stopped
   status and an empty map *)
Theorem status_agrees_inv s : Inv s -> quiescent s = true -> agrees s = true.
Proof.
  intros HI Hq. destruct (quiescent_facts s Hq) as [Hu Hf].
  assert (Hnu : user_holds s = false) by (unfold user_holds, user_start; rewrite Hu; reflexivity).
  assert (Hns : forall pc, ~ at_start s pc).
  { intros pc [H|[i H]].
    - unfold user_start in H. rewrite Hu in H. discriminate.
    - destruct (Nat.lt_ge_cases i (s_next s)) as [A|A].
      + destruct (Hf i A) as [B _]. rewrite H in B. destruct B. discriminate.
      + rewrite (i_range s HI i A) in H. discriminate. }
  (* every live run has its cleanup goroutine parked at CWait *)
  assert (Hlive : forall i, i < s_next s -> is_live (s_runs s i) = true -> s_cleans s i = Some CWait).
  { intros i Hi Hl. pose proof (i_run s HI i Hi) as Hr. unfold run_ok in Hr.
    rewrite (is_live_phase _ Hl) in Hr. destruct Hr as [Hr|[Hr|[Hr|Hr]]]; try (exfalso; eapply Hns; eauto; fail).
    destruct (Hf i Hi) as [B _]. destruct (s_cleans s i) as [pc|]; [|congruence]. destruct B. congruence. }
  unfold agrees, live_runs.
  destruct (filter (fun i => is_live (s_runs s i)) (ids s)) as [|i rest] eqn:El.
  - (* no live run *)
    assert (Hnone : forall i, nontail (s_cleans s i) = false).
    { intros i. destruct (Nat.lt_ge_cases i (s_next s)) as [A|A]; [|rewrite (i_range s HI i A); reflexivity].
      destruct (Hf i A) as [B _]. destruct (s_cleans s i) as [pc|] eqn:E; [|reflexivity].
      destruct B as [-> Bl]. exfalso. rewrite filter_nil_iff in El.
      rewrite (El i) in Bl; [discriminate|]. unfold ids. apply in_seq. lia. }
    rewrite (i_idle s HI Hnu Hnone). simpl.
    destruct (s_map s) as [m|] eqn:Em; [|reflexivity]. exfalso.
    destruct (i_map s HI m Em) as [[pc [Hc Hp]]|[H|H]]; try (eapply Hns; eauto; fail).
    pose proof (Hnone m) as Hn. rewrite Hc in Hn.
    destruct (Nat.lt_ge_cases m (s_next s)) as [A|A]; [|rewrite (i_range s HI m A) in Hc; discriminate].
    destruct (Hf m A) as [B _]. rewrite Hc in B. destruct B as [-> _]. discriminate.
  - (* a live run i: it is the only one *)
    assert (Hin : In i (ids s) /\ is_live (s_runs s i) = true).
    { apply (filter_In (fun i0 => is_live (s_runs s i0)) i (ids s)). rewrite El. left. reflexivity. }
    destruct Hin as [Hin Hli]. unfold ids in Hin. apply in_seq in Hin.
    pose proof (Hlive i ltac:(lia) Hli) as Hci.
    assert (Hrest : rest = []).
    { destruct rest as [|j rest']; [reflexivity|]. exfalso.
      assert (Hj : In j (ids s) /\ is_live (s_runs s j) = true)
        by (apply (filter_In (fun i0 => is_live (s_runs s i0)) j (ids s)); rewrite El; right; left; reflexivity).
      destruct Hj as [Hj Hlj]. unfold ids in Hj. apply in_seq in Hj.
      pose proof (Hlive j ltac:(lia) Hlj) as Hcj.
      assert (i = j) by (apply (i_one s HI); [rewrite Hci|rewrite Hcj]; reflexivity). subst j.
      assert (Hnd : NoDup (filter (fun i0 => is_live (s_runs s i0)) (ids s))) by (apply NoDup_filter; apply seq_NoDup).
      rewrite El in Hnd. inversion Hnd. apply H1. left. reflexivity. }
    subst rest. pose proof (i_clean s HI i CWait Hci) as (_ & _ & A & B & _).
    rewrite A, B. simpl. rewrite Nat.eqb_refl. reflexivity.
Qed.

(* teardown_releases_guards: once nothing is in flight and no run is live, the connector guard and the
   processor's running flag are free: a new Start is not refused by them *)
Theorem guards_released_inv s :
  Inv s -> GG s -> quiescent s = true -> live_runs s = [] -> guards_free s = true.
Proof.
  intros HI HG Hq Hl. destruct (quiescent_facts s Hq) as [Hu Hf].
  unfold live_runs in Hl. rewrite filter_nil_iff in Hl.
  unfold guards_free. destruct (s_guard s) as [g|] eqn:Eg.
  - exfalso. destruct (HG g Eg) as [A B]. destruct (i_live s HI g A) as [C _].
    specialize (Hl g ltac:(unfold ids; apply in_seq; lia)). unfold is_live in Hl. rewrite C in Hl. discriminate.
  - simpl. destruct (s_proc s) as [p|] eqn:Ep; [|reflexivity]. exfalso.
    destruct (i_proc s HI p Ep) as [A [B|B]].
    + pose proof (i_run s HI p A) as Hr. unfold run_ok in Hr. rewrite B in Hr.
      assert (Hns : forall pc, ~ at_start s pc).
      { intros pc [H|[i H]].
        - unfold user_start in H. rewrite Hu in H. discriminate.
        - destruct (Nat.lt_ge_cases i (s_next s)) as [A'|A'].
          + destruct (Hf i A') as [B' _]. rewrite H in B'. destruct B'. discriminate.
          + rewrite (i_range s HI i A') in H. discriminate. }
      destruct Hr as [Hr|Hr]; eapply Hns; eauto.
    + specialize (Hl p ltac:(unfold ids; apply in_seq; lia)). unfold is_live in Hl. rewrite B in Hl. discriminate.
Qed.

(* wait_returns_that_runs_result, part 2: a WaitPipeline that joined run r returns the result of r's tomb *)
Lemma wait_returns_joined_result s id r s' l :
  get_wait (s_waits s) id = Some (WJoin r) -> waiter_step s id = Some (s', l) ->
  exists x, r_res (s_runs s r) = Some x /\ r < s_next s /\ l = LTau.
Proof.
  intros Hw H. unfold waiter_step in H. rewrite Hw in H.
  destruct (get_run s r) as [xr|] eqn:Er; [|discriminate].
  assert (Hlt : r < s_next s) by (unfold get_run in Er; destruct (r <? s_next s) eqn:E; [apply Nat.ltb_lt; exact E|discriminate]).
  apply get_run_some in Er. subst xr.
  destruct (r_res (s_runs s r)) as [x|]; [|discriminate]. inversion H. exists x. auto.
Qed.
