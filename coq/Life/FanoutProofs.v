(* C10 - the joined error of a fan-out pass is fatal iff a branch error is, whatever the order in which the branches
   finished; a fatal cause on any branch therefore degrades and never enters recovery.  The first-error policy
   (the pool with .WithFirstError()) is refuted. *)
From Coq Require Import List Bool Permutation.
From Verif Require Import Err.Tree Err.TreeProofs.
From Verif Require Import Life.Classify Life.ClassifyProofs Life.Fanout.
Import ListNotations.

Lemma is_fatalo_reason o : Tree.is_fatalo o = Classify.is_fatal (reason_of_oerr o).
Proof. destruct o as [e|]; [|reflexivity]. simpl. destruct (Tree.is_fatal e); reflexivity. Qed.

Lemma is_some_reason o : Tree.is_some o = negb (reason_eqb RNil (reason_of_oerr o)).
Proof. destruct o as [e|]; [|reflexivity]. simpl. destruct (Tree.is_fatal e); reflexivity. Qed.

(* ---------- fatal iff any ---------- *)
Theorem fanout_fatal_iff_any done :
  Tree.is_fatalo (do_next_task JoinAll done) = existsb Tree.is_fatalo done.
Proof.
  destruct done as [|o [|o' t]].
  - reflexivity.
  - simpl. rewrite orb_false_r. reflexivity.
  - unfold do_next_task, pool_wait. apply mk_join_fatal.
Qed.

Lemma fanout_some_iff_any done :
  Tree.is_some (do_next_task JoinAll done) = existsb Tree.is_some done.
Proof.
  destruct done as [|o [|o' t]].
  - reflexivity.
  - simpl. rewrite orb_false_r. reflexivity.
  - unfold do_next_task, pool_wait. apply mk_join_some.
Qed.

Lemma existsb_map {A B} (f : B -> bool) (g : A -> B) l : existsb f (map g l) = existsb (fun x => f (g x)) l.
Proof. induction l as [|x l IH]; simpl; [reflexivity|]. rewrite IH. reflexivity. Qed.

Lemma forallb_negb_existsb {A} (f : A -> bool) l : forallb f l = negb (existsb (fun x => negb (f x)) l).
Proof. induction l as [|x l IH]; simpl; [reflexivity|]. rewrite IH, negb_orb, negb_involutive. reflexivity. Qed.

(* the class of the joined error is the join of the classes *)
Theorem fanout_reason done :
  reason_of_oerr (do_next_task JoinAll done) = join_reason (map reason_of_oerr done).
Proof.
  unfold join_reason. rewrite existsb_map.
  rewrite <- (existsb_ext _ _ _ is_fatalo_reason) by exact done.
  rewrite <- fanout_fatal_iff_any.
  rewrite forallb_negb_existsb, existsb_map.
  assert (E : existsb (fun x => negb (reason_eqb RNil (reason_of_oerr x))) done = existsb Tree.is_some done).
  { apply existsb_ext. intros o. symmetry. apply is_some_reason. }
  rewrite E, <- fanout_some_iff_any.
  destruct (do_next_task JoinAll done) as [e|]; simpl; [|reflexivity].
  destruct (Tree.is_fatal e); reflexivity.
Qed.

Lemma existsb_perm {A} (f : A -> bool) l l' : Permutation l l' -> existsb f l = existsb f l'.
Proof.
  induction 1 as [|x l l' _ IH|x y l|l l' l'' _ IH1 _ IH2]; simpl.
  - reflexivity.
  - rewrite IH. reflexivity.
  - destruct (f x), (f y); reflexivity.
  - rewrite IH1. exact IH2.
Qed.

Lemma join_reason_perm rs rs' : Permutation rs rs' -> join_reason rs = join_reason rs'.
Proof.
  intros H. unfold join_reason. rewrite !forallb_negb_existsb.
  rewrite (existsb_perm _ _ _ H), (existsb_perm (fun x => negb (reason_eqb RNil x)) _ _ H). reflexivity.
Qed.

(* the order in which the branches finish does not matter *)
Theorem fanout_order_irrelevant done done' :
  Permutation done done' ->
  reason_of_oerr (do_next_task JoinAll done) = reason_of_oerr (do_next_task JoinAll done').
Proof. intros H. rewrite !fanout_reason. apply join_reason_perm. apply Permutation_map. exact H. Qed.

Lemma join_reason_fatal rs : existsb Classify.is_fatal rs = true -> join_reason rs = RFatal.
Proof. intros H. unfold join_reason. rewrite H. reflexivity. Qed.

Lemma join_reason_transient rs :
  existsb Classify.is_fatal rs = false -> existsb (fun r => negb (reason_eqb RNil r)) rs = true ->
  join_reason rs = RTransient.
Proof. intros H1 H2. unfold join_reason. rewrite H1, forallb_negb_existsb, H2. reflexivity. Qed.

(* ---------- a fatal cause on ANY branch degrades, whatever else failed, in whatever order, and whatever
   reaches the tomb after the worker's error ---------- *)
Theorem fanout_fatal_degrades_no_restart arms done later f rec :
  fatal_first arms = true ->
  existsb Tree.is_fatalo done = true ->
  let r := tomb_err (kills (reason_of_oerr (do_next_task JoinAll done) :: later)) in
  decide arms r f rec = Final Degraded TFatal /\ enters_recovery arms r f = false.
Proof.
  intros Ha Hf r. subst r. rewrite kills_first. cbn [tomb_err].
  assert (E : reason_of_oerr (do_next_task JoinAll done) = RFatal).
  { pose proof (fanout_fatal_iff_any done) as H. rewrite Hf, is_fatalo_reason in H.
    destruct (reason_of_oerr (do_next_task JoinAll done)); try discriminate. reflexivity. }
  rewrite E. apply fatal_degrades_generic. exact Ha.
Qed.

(* the worker goroutine's own Kills: Do's error first; a fatal member of the pass keeps the tomb fatal *)
Theorem worker_fatal_pass_kills_fatal done closeErr :
  existsb Tree.is_fatalo done = true ->
  tomb_err (kills (worker_kills (do_next_task JoinAll done) closeErr)) = RFatal.
Proof.
  intros Hf. pose proof (fanout_fatal_iff_any done) as H. rewrite Hf in H.
  unfold worker_kills. destruct (do_next_task JoinAll done) as [e|]; [|discriminate].
  cbn [app]. rewrite kills_first. cbn [tomb_err reason_of_oerr]. cbn [Tree.is_fatalo] in H. rewrite H. reflexivity.
Qed.

(* only transient branch errors: the pass's error is transient and recovers *)
Theorem fanout_transient_recovers arms done :
  has_recover arms = true ->
  existsb Tree.is_fatalo done = false -> existsb Tree.is_some done = true ->
  reason_of_oerr (do_next_task JoinAll done) = RTransient
  /\ enters_recovery arms (reason_of_oerr (do_next_task JoinAll done)) (mkFlags false false) = true.
Proof.
  intros Ha Hf Hs.
  assert (E : reason_of_oerr (do_next_task JoinAll done) = RTransient).
  { pose proof (fanout_fatal_iff_any done) as H1. pose proof (fanout_some_iff_any done) as H2. rewrite Hf in H1. rewrite Hs in H2.
    destruct (do_next_task JoinAll done) as [e|]; [|discriminate]. cbn in H1 |- *. rewrite H1. reflexivity. }
  split; [exact E|]. rewrite E. apply (transient_recovers_generic arms RTransient Ha); [reflexivity|discriminate].
Qed.

(* ---------- the first-error policy drops the fatal marker of a branch that fails later ---------- *)
Definition w_transient_then_fatal : list Tree.oerr :=
  [Some (Tree.Wrap (Tree.Leaf 0)); Some (Tree.Wrap (Tree.FatalN (Tree.Leaf 0)))].

Theorem fanout_first_error_refuted :
  existsb Tree.is_fatalo w_transient_then_fatal = true
  /\ reason_of_oerr (do_next_task FirstError w_transient_then_fatal) = RTransient
  /\ enters_recovery v2_arms (reason_of_oerr (do_next_task FirstError w_transient_then_fatal)) (mkFlags false false) = true
  /\ decide v2_arms (reason_of_oerr (do_next_task FirstError w_transient_then_fatal)) (mkFlags false false) RecRestarted = Restart
  (* while the same branch results, joined, degrade; and the other finishing order hides the defect *)
  /\ decide v2_arms (reason_of_oerr (do_next_task JoinAll w_transient_then_fatal)) (mkFlags false false) RecRestarted = Final Degraded TFatal
  /\ reason_of_oerr (do_next_task FirstError (rev w_transient_then_fatal)) = RFatal.
Proof. vm_compute. repeat split; reflexivity. Qed.

(* the first-error policy is right exactly when the first failing branch is a fatal one or none is *)
Theorem fanout_first_error_class done :
  reason_of_oerr (do_next_task FirstError done)
  = match Tree.first_some (fun o : Tree.oerr => o) done with
    | None => RNil
    | Some e => if Tree.is_fatal e then RFatal else RTransient
    end.
Proof.
  destruct done as [|o [|o' t]]; [reflexivity| |reflexivity].
  simpl. destruct o; reflexivity.
Qed.
