(* C10 - the cleanup decision of both lifecycle services.

   Modelled code
     v1: pkg/lifecycle/service.go      runPipeline, cleanup goroutine: `switch err { case tomb.ErrStillAlive: ...
                                       default: if cerrors.IsFatalError(err) {Degraded} else {recoverPipeline ...} }`
     v2: pkg/lifecycle-poc/service.go  runPipeline, cleanup goroutine: the same outer switch, inner
                                       `switch { case IsFatalError: case isGracefulShutdown: case intentionalStop: default: recover }`

   The decision is a function of
     - the class of the tomb's first Kill reason (tomb.v2 keeps the first reason only),
     - the graceful-shutdown flag (v1: run-local, set when a node returned ErrGracefulShutdown;
       v2: Service.isGracefulShutdown, set by StopAll),
     - the intentional-stop flag (v2 only: rp.intentionalStop),
     - the result of recoverPipeline/StartWithBackoff when the recover arm is taken.
   The ORDER of the guards of the error branch is data: it is regenerated from the source tree
   (out/C10/gen/GenLifecycle.v) and the theorems below are stated for any order that passes the
   boolean checks [fatal_first] / [stops_before_recover], which are decided by computation on the
   generated order on every run.  Definitions only; proofs are in ClassifyProofs.v. *)
From Coq Require Export List Bool Arith.
Export ListNotations.

Inductive reason :=
| RNil          (* tomb.ErrStillAlive: nobody killed the tomb, every node returned nil *)
| RFatal        (* first reason satisfies cerrors.IsFatalError *)
| RTransient    (* any other error *)
| RCtxCancel.   (* context.Canceled reaching the tomb first: not fatal for IsFatalError *)

Inductive status := Running | SystemStopped | UserStopped | Degraded | Recovering.

(* guard kinds of the arms of the error branch, in source order *)
Inductive guard := GFatal | GShutdown | GIntentional | GRecover.

(* what recoverPipeline returned *)
Inductive recres :=
| RecRestarted       (* nil: restarted, or superseded by another run: cleanup returns without its tail *)
| RecShutdown        (* v2: errGracefulShutdownDuringRecovery *)
| RecFailed.         (* retries exhausted (fatal ErrPipelineCannotRecover) or the nested Start failed *)

Record flags := mkFlags { f_shutdown : bool; f_intentional : bool }.

(* class of the terminal error recorded in terminalErrors / passed to the failure handlers *)
Inductive terr := TNil | TFatal | TRecovery.

Inductive outcome :=
| Final (s : status) (e : terr)   (* status written, then the cleanup tail runs (record error, delete entry, notify) *)
| Restart                         (* status Recovering was written, recovery returned nil: NO tail, NO terminal status *)
| NoArm.                          (* no arm matched: Go falls out of the switch, tail runs with the raw error, status untouched *)

Definition reason_eqb (a b : reason) : bool :=
  match a, b with
  | RNil, RNil | RFatal, RFatal | RTransient, RTransient | RCtxCancel, RCtxCancel => true
  | _, _ => false
  end.

Definition status_eqb (a b : status) : bool :=
  match a, b with
  | Running, Running | SystemStopped, SystemStopped | UserStopped, UserStopped
  | Degraded, Degraded | Recovering, Recovering => true
  | _, _ => false
  end.

Definition guard_eqb (a b : guard) : bool :=
  match a, b with
  | GFatal, GFatal | GShutdown, GShutdown | GIntentional, GIntentional | GRecover, GRecover => true
  | _, _ => false
  end.

Definition is_fatal (r : reason) : bool := reason_eqb r RFatal.

Definition guard_holds (g : guard) (r : reason) (f : flags) : bool :=
  match g with
  | GFatal => is_fatal r
  | GShutdown => f_shutdown f
  | GIntentional => f_intentional f
  | GRecover => true
  end.

Definition arm_body (g : guard) (rec : recres) : outcome :=
  match g with
  | GFatal => Final Degraded TFatal
  | GShutdown => Final SystemStopped TNil
  | GIntentional => Final UserStopped TNil
  | GRecover =>
      match rec with
      | RecRestarted => Restart
      | RecShutdown => Final SystemStopped TNil
      | RecFailed => Final Degraded TRecovery
      end
  end.

(* the error branch: first arm whose guard holds *)
Fixpoint decide_err (arms : list guard) (r : reason) (f : flags) (rec : recres) : outcome :=
  match arms with
  | [] => NoArm
  | g :: rest => if guard_holds g r f then arm_body g rec else decide_err rest r f rec
  end.

(* the whole cleanup decision *)
Definition decide (arms : list guard) (r : reason) (f : flags) (rec : recres) : outcome :=
  match r with
  | RNil => Final (if f_shutdown f then SystemStopped else UserStopped) TNil
  | _ => decide_err arms r f rec
  end.

(* does the decision call recoverPipeline at all (status Recovering is written, back-off starts) *)
Fixpoint enters_recovery_err (arms : list guard) (r : reason) (f : flags) : bool :=
  match arms with
  | [] => false
  | g :: rest => if guard_holds g r f then guard_eqb g GRecover else enters_recovery_err rest r f
  end.

Definition enters_recovery (arms : list guard) (r : reason) (f : flags) : bool :=
  match r with RNil => false | _ => enters_recovery_err arms r f end.

(* ---- the arm orders as they stand in the code today (the generated file must agree with the
        boolean checks below; equality with these lists is not required) ---- *)
Definition v1_arms : list guard := [GFatal; GRecover].
Definition v2_arms : list guard := [GFatal; GShutdown; GIntentional; GRecover].

(* ---- reflective conditions on an arm order ---- *)

(* the fatal check is the first arm: nothing can pre-empt it *)
Definition fatal_first (arms : list guard) : bool :=
  match arms with GFatal :: _ => true | _ => false end.

(* a recover arm exists *)
Definition has_recover (arms : list guard) : bool := existsb (guard_eqb GRecover) arms.

(* guard g occurs strictly before the first recover arm *)
Fixpoint before_recover (g : guard) (arms : list guard) : bool :=
  match arms with
  | [] => false
  | a :: rest => if guard_eqb a GRecover then false
                 else if guard_eqb a g then true else before_recover g rest
  end.

Definition stops_before_recover (arms : list guard) : bool :=
  before_recover GShutdown arms && before_recover GIntentional arms.

(* ---- Kill sites: which reason class does a force stop put on the tomb ---- *)
(* wraps = the Kill(...) argument of the force-stop site is cerrors.FatalError(...) (generated) *)
Definition force_reason (wraps : bool) : reason := if wraps then RFatal else RTransient.

(* ---- tomb.v2 latch: Kill keeps the first reason, later Kills are no-ops ---- *)
Definition kill (t : option reason) (r : reason) : option reason :=
  match t with None => Some r | Some _ => t end.
Definition tomb_err (t : option reason) : reason :=
  match t with None => RNil | Some r => r end.
Definition kills (rs : list reason) : option reason := fold_left kill rs None.

Inductive engine := V1 | V2.
Definition arms_of (e : engine) : list guard := match e with V1 => v1_arms | V2 => v2_arms end.

(* ---- which failures reach the tomb with a fatal tag, per engine ----
   What fails, as the property text names it.  [dlq_on]: the DLQ nack threshold is positive. *)
Inductive pfail :=
| FThreshold            (* a rejection the DLQ window no longer tolerates, threshold > 0 *)
| FDstRejectDlqOff      (* destination rejects a record, DLQ switched off (threshold 0) *)
| FProcNotAbsorbed (dlq_on : bool)   (* processor error that the DLQ does not absorb *)
| FDlqWriteAfterDst     (* the DLQ write fails, the record had been rejected by a destination *)
| FDlqWriteAfterProc    (* the DLQ write fails, the record had been rejected by a processor *)
| FForceStop
| FExhausted            (* StartWithBackoff: attempt > MaxRetries *)
| FSrcRead | FDstWrite | FTeardown | FOpen.

(* the property's list of fatal causes *)
Definition property_fatal (k : pfail) : bool :=
  match k with
  | FThreshold | FProcNotAbsorbed _ | FDlqWriteAfterDst | FDlqWriteAfterProc | FForceStop | FExhausted => true
  | FDstRejectDlqOff | FSrcRead | FDstWrite | FTeardown | FOpen => false
  end.

(* the class of the error as the code of each engine hands it to the tomb / to the cleanup
   (read from: stream/dlq.go Nack, stream/processor.go, stream/destination_acker.go, funnel/dlq.go Nack,
   funnel/worker.go, service.go stopForceful / stopRunnablePipeline / StartWithBackoff).
   force_wraps: the force-stop Kill site wraps its error in cerrors.FatalError (generated). *)
Definition engine_tag (e : engine) (force_wraps : bool) (k : pfail) : reason :=
  match k with
  | FThreshold => RFatal
  | FDstRejectDlqOff => RTransient
  | FProcNotAbsorbed _ =>
      (* v1 ProcessorNode: return cerrors.FatalError(nackErr); v2 Worker.doTaskAttempt wraps a processor-originated
         nack error in FatalError (fix a8c7aa9; before it the raw error of a switched-off DLQ was recovered) *)
      RFatal
  | FDlqWriteAfterDst =>
      (* v2 DLQ.Nack: cerrors.FatalError(err); v1 DLQHandlerNode.Nack wraps the failed write in FatalError
         (fix feff813; before it the write error was returned unwrapped and recovered) *)
      RFatal
  | FDlqWriteAfterProc => RFatal
  | FForceStop => force_reason force_wraps
  | FExhausted => RFatal
  | FSrcRead | FDstWrite | FTeardown | FOpen => RTransient
  end.

(* ---- semantic comparison of two arm orders (all 4 x 4 x 3 inputs) ---- *)
Definition terr_eqb (a b : terr) : bool :=
  match a, b with TNil, TNil | TFatal, TFatal | TRecovery, TRecovery => true | _, _ => false end.
Definition outcome_eqb (a b : outcome) : bool :=
  match a, b with
  | Final s e, Final s' e' => status_eqb s s' && terr_eqb e e'
  | Restart, Restart | NoArm, NoArm => true
  | _, _ => false
  end.
Definition all_reasons : list reason := [RNil; RFatal; RTransient; RCtxCancel].
Definition all_flags : list flags := [mkFlags false false; mkFlags false true; mkFlags true false; mkFlags true true].
Definition all_recs : list recres := [RecRestarted; RecShutdown; RecFailed].
Definition decide_agree (a b : list guard) : bool :=
  forallb (fun r => forallb (fun f => forallb (fun rec =>
     outcome_eqb (decide a r f rec) (decide b r f rec)
     && Bool.eqb (enters_recovery a r f) (enters_recovery b r f)) all_recs) all_flags) all_reasons.
