(* C10 - timed model of StartWithBackoff (identical text in both services):

     attempt := rp.recoveryAttempts.Add(1)                       -- counter shared across restarts (Start carries
                                                                    backoff and recoveryAttempts over from the entry
                                                                    it finds in runningPipelines)
     if MaxRetries != -1 && attempt > MaxRetries { return FatalError(ErrPipelineCannotRecover) }   -- no timer armed:
                                                                    the increment of a refused attempt is never undone
     duration := rp.backoff.ForAttempt(float64(attempt))         -- jpillora/backoff, Jitter: in [Min, min(Max, Min*Factor^attempt)]
     time.AfterFunc(duration+MaxRetriesWindow, func(){ rp.recoveryAttempts.Add(-1) })
     select { <-ctx.Done | <-time.After(duration) }
     actualRp, ok := runningPipelines.Get(id); if !ok || actualRp != rp { return nil }       -- "am I still the live run"
     (v2 only) if isGracefulShutdown { return errGracefulShutdownDuringRecovery }
     return s.Start(ctx, id)

   Time is an integer (any unit). Timers may fire late, never early: [Dec] and [Wake] are separate
   events that are only enabled once their due time has passed. Definitions only. *)
From Coq Require Export ZArith List Bool Lia.
From Verif Require Export Life.Classify.
Export ListNotations.
Local Open Scope Z_scope.

Record bcfg := mkBcfg {
  b_min : Z; b_max : Z; b_factor : Z;
  b_maxretries : Z;        (* -1 = unbounded (InfiniteRetriesErrRecovery) *)
  b_window : Z }.

Definition bcfg_ok (c : bcfg) : Prop :=
  0 < b_min c /\ b_min c <= b_max c /\ 1 <= b_factor c /\ 0 <= b_window c /\ -1 <= b_maxretries c.

(* upper end of the jitter interval of ForAttempt(n) *)
Definition delay_cap (c : bcfg) (n : Z) : Z := Z.min (b_max c) (b_min c * b_factor c ^ n).

Definition delay_ok (c : bcfg) (n d : Z) : bool :=
  if b_max c <=? b_min c then d =? b_max c
  else (b_min c <=? d) && (d <=? delay_cap c n).

Record att := mkAtt {
  a_time : Z;            (* when StartWithBackoff was entered *)
  a_n : Z;               (* value of the counter after the increment *)
  a_delay : Z;
  a_dec : bool;          (* the decrement timer has fired *)
  a_wake : option Z }.   (* when the sleep ended *)

Record bst := mkBst {
  b_now : Z;
  b_ctr : Z;             (* rp.recoveryAttempts *)
  b_atts : list att;     (* accepted attempts, oldest first *)
  b_refused : Z }.       (* attempts refused so far *)

Definition binit : bst := mkBst 0 0 [] 0.

Inductive wake_res := DoStart | Superseded | ShutdownStop.

(* decision taken when the sleep ends. live: runningPipelines[id] is still this rp *)
Definition wake_decision (e : engine) (live shutdown : bool) : wake_res :=
  if negb live then Superseded
  else match e with
       | V1 => DoStart
       | V2 => if shutdown then ShutdownStop else DoStart
       end.

Definition recres_of_wake (w : wake_res) (start_ok : bool) : recres :=
  match w with
  | Superseded => RecRestarted
  | ShutdownStop => RecShutdown
  | DoStart => if start_ok then RecRestarted else RecFailed
  end.

Inductive bev :=
| Tick (dt : Z)
| Attempt (d : Z)
| Dec (i : nat)
| Wake (i : nat).

Inductive bout := OTick | OAccepted (n d : Z) | ORefused (n : Z) | ODec | OWoke (slept : Z).

Fixpoint upd {A} (i : nat) (f : A -> A) (l : list A) : list A :=
  match l, i with
  | [], _ => []
  | x :: r, O => f x :: r
  | x :: r, S j => x :: upd j f r
  end.

Definition refuses (c : bcfg) (n : Z) : bool :=
  negb (b_maxretries c =? -1) && (b_maxretries c <? n).

Definition bstep (c : bcfg) (s : bst) (e : bev) : option (bst * bout) :=
  match e with
  | Tick dt =>
      if 0 <=? dt then Some (mkBst (b_now s + dt) (b_ctr s) (b_atts s) (b_refused s), OTick) else None
  | Attempt d =>
      let n := b_ctr s + 1 in
      if refuses c n then Some (mkBst (b_now s) n (b_atts s) (b_refused s + 1), ORefused n)
      else if delay_ok c n d
           then Some (mkBst (b_now s) n (b_atts s ++ [mkAtt (b_now s) n d false None]) (b_refused s), OAccepted n d)
           else None
  | Dec i =>
      match nth_error (b_atts s) i with
      | Some a =>
          if negb (a_dec a) && (a_time a + a_delay a + b_window c <=? b_now s)
          then Some (mkBst (b_now s) (b_ctr s - 1)
                           (upd i (fun a => mkAtt (a_time a) (a_n a) (a_delay a) true (a_wake a)) (b_atts s))
                           (b_refused s), ODec)
          else None
      | None => None
      end
  | Wake i =>
      match nth_error (b_atts s) i with
      | Some a =>
          match a_wake a with
          | Some _ => None
          | None =>
              if a_time a + a_delay a <=? b_now s
              then Some (mkBst (b_now s) (b_ctr s)
                               (upd i (fun a => mkAtt (a_time a) (a_n a) (a_delay a) (a_dec a) (Some (b_now s))) (b_atts s))
                               (b_refused s), OWoke (b_now s - a_time a))
              else None
          end
      | None => None
      end
  end.

Fixpoint brun (c : bcfg) (s : bst) (evs : list bev) : option bst :=
  match evs with
  | [] => Some s
  | e :: r => match bstep c s e with
              | Some (s', _) => brun c s' r
              | None => None
              end
  end.

(* number of accepted attempts that were started in the closed interval [a, a + len] *)
Definition started_in (a len : Z) (l : list att) : Z :=
  Z.of_nat (length (filter (fun x => (a <=? a_time x) && (a_time x <=? a + len)) l)).

(* ---- variant used by the mutation analysis: a counter that is reset by every restart ---- *)
Definition bstep_reset (c : bcfg) (s : bst) (e : bev) : option (bst * bout) :=
  match e with
  | Attempt d => bstep c (mkBst (b_now s) 0 (b_atts s) (b_refused s)) e
  | _ => bstep c s e
  end.
