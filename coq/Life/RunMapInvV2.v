(* C11 - the run map of the arch-v2 engine (pkg/lifecycle-poc) in its REPAIRED variant (compare-and-delete of
   the cleanup, 838f9f1; failed opens release what they took, 7f15ba5 / 6946e0c), under the same restriction
   as for the default engine: no Start passes its status check while the status is Recovering ([polite],
   the finding that is still open in both engines).

   The engine differs from v1 in the order of Start: sink.Open and worker.Open run BEFORE anything is
   published (a failed open makes Start fail), the cleanup goroutine is registered together with the
   workers (it is inert until startupDone is closed), the run is published, and the status write is the
   last step.  The inductive invariant [Inv2] has the same shape as [Inv] of Life/RunMapInv.v: at most one
   holder (a Start past its status check, or a cleanup goroutine between its classification and its tail)
   owns status, run map and the announced run.

   From [Inv2]: running_implies_map_is_live, wait_returns_that_runs_result, status_agrees_with_last_run_end,
   teardown_releases_guards for every polite interleaving of the repaired v2 model. *)
From Verif Require Import Life.RunMap Life.RunMapProofs Life.RunMapInv.
From Coq Require Import Lia.

Record v2_repaired (c : cfg) : Prop := mkV2R {
  v2_engine : c_engine c = V2;
  v2_cad : f_cad (c_fix c) = true;
  v2_proc_open : f_proc_open (c_fix c) = true;
  v2_dlq_open : f_dlq_open (c_fix c) = true }.

(* the cleanup goroutine of run i owns the lifecycle: it is past startupDone and before its tail *)
Definition holder (s : st) (i : nat) : bool :=
  match s_cleans s i with
  | Some CWait => r_started (s_runs s i)
  | Some CBackoff | Some CWake | Some (CStart _) | Some CFailed => true
  | _ => false
  end.

Definition before_publish2 (pc : spc) : bool :=
  match pc with SStatus _ | SRegister _ => false | _ => true end.

(* what holds while a v2 Start stands at pc *)
Definition spc_ok2 (s : st) (pc : spc) (nested : bool) : Prop :=
  match pc with
  | SCheck => if nested then s_status s = Recovering else True
  | SBuild => pre_status s nested
  | SClear r | SOpenA r | SOpenSrc r | SOpenDlq r | SRollback r | SSpawn r =>
      pre_status s nested /\ r < s_next s /\ r_phase (s_runs s r) = PNew /\ s_cleans s r = None
      /\ r_started (s_runs s r) = false
  | SPublish r =>
      pre_status s nested /\ r < s_next s /\ alive (s_runs s r) /\ s_cleans s r = Some CWait
      /\ r_started (s_runs s r) = false
  | SStatus r =>
      pre_status s nested /\ s_map s = Some r /\ r < s_next s /\ alive (s_runs s r) /\ s_cleans s r = Some CWait
      /\ r_started (s_runs s r) = false
  | SRegister _ => False
  end.

Definition clean_ok2 (s : st) (i : nat) (pc : cpc) : Prop :=
  i < s_next s /\
  match pc with
  | CWait =>
      alive (s_runs s i) /\
      if r_started (s_runs s i) then s_status s = Running /\ s_map s = Some i /\ s_cur s = Some i
      else at_start s (SPublish i) \/ at_start s (SStatus i)
  | CBackoff | CWake | CFailed =>
      r_phase (s_runs s i) = PEnded /\ s_status s = Recovering /\ s_map s = Some i
  | CStart q =>
      r_phase (s_runs s i) = PEnded /\ spc_ok2 s q true /\ (before_publish2 q = true -> s_map s = Some i)
  | CTail1 _ | CTail2 _ => r_phase (s_runs s i) = PEnded
  | CTail3 _ => r_phase (s_runs s i) = PEnded /\ s_map s <> Some i
  end.

Definition map_owned2 (s : st) (m : nat) : Prop :=
  exists pc, s_cleans s m = Some pc /\ match pc with CTail3 _ => False | _ => True end.

Definition run_ok2 (s : st) (i : nat) : Prop :=
  match r_phase (s_runs s i) with
  | PNew => s_cleans s i = None
  | PLive | PEnded => s_cleans s i <> None
  | PDead => s_cleans s i = None
  end.

(* the Start positions at which the source of run j is already open although j is not live yet *)
Definition live_witness (s : st) (j : nat) : Prop :=
  at_start s (SOpenDlq j) \/ at_start s (SRollback j) \/ at_start s (SSpawn j).

Record Inv2 (s : st) : Prop := mkInv2 {
  j_one   : forall i j, holder s i = true -> holder s j = true -> i = j;
  j_excl  : user_holds s = true -> forall i, holder s i = false;
  j_user  : forall pc, user_start s = Some pc -> spc_ok2 s pc false;
  j_clean : forall i pc, s_cleans s i = Some pc -> clean_ok2 s i pc;
  j_idle  : user_holds s = false -> (forall i, holder s i = false) -> stopped_b (s_status s) = true;
  j_map   : forall m, s_map s = Some m -> map_owned2 s m;
  j_run   : forall i, i < s_next s -> run_ok2 s i;
  j_range : forall i, s_next s <= i -> s_cleans s i = None;
  j_live  : forall i, src_open (s_runs s i) = true ->
              i < s_next s /\ (r_phase (s_runs s i) = PLive \/ (r_phase (s_runs s i) = PNew /\ live_witness s i));
  j_proc  : forall p, s_proc s = Some p ->
              p < s_next s /\ (r_phase (s_runs s p) = PLive \/
                               (r_phase (s_runs s p) = PNew /\ exists pc, pc_run pc = Some p /\ at_start s pc))
}.

Lemma Inv2_init : Inv2 init.
Proof.
  constructor; simpl; try discriminate; try (intros; discriminate); try reflexivity; try (intros; lia); auto.
Qed.

(* ------------------------------------------------------------------ *)
(* threads that execute Start                                          *)
Inductive tid := TU | TC (i : nat).

Definition thread_at (s : st) (t : tid) (pc : spc) : Prop :=
  match t with TU => user_start s = Some pc | TC i => s_cleans s i = Some (CStart pc) end.

Definition nested_t (t : tid) : bool := match t with TU => false | TC _ => true end.

Lemma at_start_thread s pc : at_start s pc <-> exists t, thread_at s t pc.
Proof.
  unfold at_start. split.
  - intros [H|[i H]]; [exists TU|exists (TC i)]; exact H.
  - intros [[|i] H]; [left|right; exists i]; exact H.
Qed.

Lemma thread_at_fun s t p q : thread_at s t p -> thread_at s t q -> p = q.
Proof. destruct t; simpl; congruence. Qed.

Lemma holder_frame s s' i :
  s_cleans s' i = s_cleans s i -> r_started (s_runs s' i) = r_started (s_runs s i) -> holder s' i = holder s i.
Proof. unfold holder. intros -> ->. reflexivity. Qed.

(* ------------------------------------------------------------------ *)
(* frame: one run is replaced, the guards are set                      *)
Lemma Inv2_run_update s i x g p :
  Inv2 s ->
  pclass (r_phase x) = pclass (r_phase (s_runs s i)) ->
  (r_phase (s_runs s i) = PEnded -> r_phase x = PEnded) ->
  r_started x = r_started (s_runs s i) ->
  (src_open x = true -> src_open (s_runs s i) = true /\ r_phase x = r_phase (s_runs s i)) ->
  (forall q, p = Some q -> s_proc s = Some q /\ (q = i -> r_phase x = r_phase (s_runs s i))) ->
  Inv2 (with_proc (with_guard (upd_run s i x) g) p).
Proof.
  intros [H1 H2 H3 H4 H5 H6 H7 H8 H9 H10] Hc He Hs Ho Hp.
  assert (Hal : forall j, alive (s_runs s j) -> alive (fupd (s_runs s) i x j)).
  { intros j Hj. unfold fupd. destruct (Nat.eqb j i) eqn:E; [|exact Hj].
    apply Nat.eqb_eq in E. subst j. unfold alive in *.
    destruct (r_phase (s_runs s i)) eqn:E1, (r_phase x) eqn:E2; simpl in Hc; try discriminate; auto;
      destruct Hj; try discriminate; auto; try (specialize (He eq_refl); discriminate). }
  assert (Hph : forall j ph, (ph = PNew \/ ph = PEnded \/ ph = PDead) ->
             r_phase (s_runs s j) = ph -> r_phase (fupd (s_runs s) i x j) = ph).
  { intros j ph Hk Hj. unfold fupd. destruct (Nat.eqb j i) eqn:E; [|exact Hj].
    apply Nat.eqb_eq in E. subst j. destruct Hk as [Hk|[Hk|Hk]]; subst ph.
    - rewrite Hj in Hc. destruct (r_phase x); simpl in Hc; try discriminate; auto.
    - auto.
    - rewrite Hj in Hc. destruct (r_phase x); simpl in Hc; try discriminate; auto. }
  assert (Hst : forall j, r_started (fupd (s_runs s) i x j) = r_started (s_runs s j)).
  { intros j. unfold fupd. destruct (Nat.eqb j i) eqn:E; [|reflexivity]. apply Nat.eqb_eq in E. subst j. exact Hs. }
  assert (Hcls : forall j, pclass (r_phase (fupd (s_runs s) i x j)) = pclass (r_phase (s_runs s j))).
  { intros j. unfold fupd. destruct (Nat.eqb j i) eqn:E; [|reflexivity]. apply Nat.eqb_eq in E. subst j. exact Hc. }
  assert (Hspc : forall pc n, spc_ok2 s pc n -> spc_ok2 (with_proc (with_guard (upd_run s i x) g) p) pc n).
  { intros pc n. destruct pc; simpl; auto; rewrite ?Hst; intuition auto. }
  assert (Hhold : forall j, holder (with_proc (with_guard (upd_run s i x) g) p) j = holder s j).
  { intros j. unfold holder. simpl. rewrite Hst. reflexivity. }
  assert (Hat : forall pc, at_start s pc -> at_start (with_proc (with_guard (upd_run s i x) g) p) pc).
  { intros pc Hpc. exact Hpc. }
  constructor; simpl; auto.
  - intros a b. rewrite !Hhold. apply H1.
  - intros Hu a. rewrite Hhold. apply H2. exact Hu.
  - intros j pc Hj. specialize (H4 j pc Hj). unfold clean_ok2 in *. simpl.
    destruct H4 as [Hlt H4]. split; [exact Hlt|]. rewrite ?Hst.
    destruct pc; intuition auto.
  - intros Hu Hall. apply H5; [exact Hu|]. intros a. rewrite <- Hhold. apply Hall.
  - intros j Hj. specialize (H7 j Hj). unfold run_ok2 in *. simpl.
    pose proof (Hcls j) as Hcj.
    destruct (r_phase (s_runs s j)), (r_phase (fupd (s_runs s) i x j)); simpl in Hcj; try discriminate; auto.
  - intros j Hj. unfold fupd in Hj. destruct (Nat.eqb j i) eqn:E.
    + apply Nat.eqb_eq in E. subst j. destruct (Ho Hj) as [Ho1 Ho2]. destruct (H9 i Ho1) as [A B]. split; [exact A|].
      unfold fupd. rewrite Nat.eqb_refl. rewrite Ho2. exact B.
    + destruct (H9 j Hj) as [A B]. split; [exact A|]. unfold fupd. rewrite E. exact B.
  - intros q Hq. destruct (Hp q Hq) as [Hp1 Hp2]. destruct (H10 q Hp1) as [A B]. split; [exact A|].
    unfold fupd. destruct (Nat.eqb q i) eqn:E; [|exact B]. apply Nat.eqb_eq in E. subst q.
    rewrite (Hp2 eq_refl). exact B.
Qed.

Lemma is_v1_v2 c : c_engine c = V2 -> is_v1 c = false.
Proof. unfold is_v1. intros ->. reflexivity. Qed.

(* ------------------------------------------------------------------ *)
(* the environment (records, failures, teardown, the workers return)   *)
Lemma env_step_Inv2 c s a s' l : c_engine c = V2 -> Inv2 s -> env_step c s a = Some (s', l) -> Inv2 s'.
Proof.
  intros Hv HI H. pose proof (is_v1_v2 c Hv) as Hv1.
  unfold env_step in H. destruct a as [| | | |r|r|r|r c0|r c0|r|r|r]; try discriminate.
  all: destruct (get_run s r) as [x|] eqn:Er; try discriminate;
    pose proof (get_run_some _ _ _ Er) as Hx; subst x;
    rewrite ?Hv1 in H; simpl in H; try discriminate.
  - (* AInject *)
    destruct (is_live (s_runs s r)) eqn:El; [|discriminate]. inversion H; subst; clear H.
    change (Inv2 (with_proc (with_guard (upd_run s r (rw_cands (s_runs s r) (r_cands (s_runs s r) ++ [c0]))) (s_guard s)) (s_proc s))).
    apply Inv2_run_update; auto; simpl; auto.
  - (* AKill *)
    destruct (is_live (s_runs s r) && existsb (cause_eqb c0) (r_cands (s_runs s r))) eqn:El; [|discriminate].
    inversion H; subst; clear H.
    match goal with |- Inv2 (upd_run ?s0 ?r0 ?x) =>
      change (Inv2 (with_proc (with_guard (upd_run s0 r0 x) (s_guard s0)) (s_proc s0))) end.
    apply Inv2_run_update; auto; simpl; auto.
  - (* ATd *)
    match type of H with (if ?b then _ else _) = _ => destruct b eqn:El; [|discriminate] end.
    inversion H; subst; clear H.
    match goal with |- Inv2 (upd_run (with_guard ?s0 ?g) ?r0 ?x) =>
      change (Inv2 (with_proc (with_guard (upd_run s0 r0 x) g) (s_proc s0))) end.
    apply Inv2_run_update; auto; simpl; auto. intros Ho. discriminate.
  - (* AEnd *)
    match type of H with (if ?b then _ else _) = _ => destruct b eqn:El; [|discriminate] end.
    inversion H; subst; clear H. bools.
    assert (Hph : r_phase (s_runs s r) = PLive) by (apply is_live_phase; assumption).
    unfold rel_proc. simpl.
    match goal with |- context [onat_eqb ?a ?b] => destruct (onat_eqb a b) eqn:Ep end.
    + match goal with |- Inv2 (with_proc (upd_run ?s0 ?r0 ?x) None) =>
        change (Inv2 (with_proc (with_guard (upd_run s0 r0 x) (s_guard s0)) None)) end.
      apply Inv2_run_update; auto; simpl; try rewrite Hph; auto; try discriminate.
    + match goal with |- Inv2 (upd_run ?s0 ?r0 ?x) =>
        change (Inv2 (with_proc (with_guard (upd_run s0 r0 x) (s_guard s0)) (s_proc s0))) end.
      apply Inv2_run_update; auto; simpl; try rewrite Hph; auto; try discriminate.
      intros q Hq. split; [exact Hq|]. intros ->. rewrite Hq in Ep. simpl in Ep. rewrite Nat.eqb_refl in Ep. discriminate.
Qed.

(* ------------------------------------------------------------------ *)
(* frame: the components Inv2 does not look at, the user call is not a Start past its check *)
Lemma Inv2_idle_user s s' :
  Inv2 s -> same_core s s' -> idle_user (user_start s) -> idle_user (user_start s') -> Inv2 s'.
Proof.
  intros [H1 H2 H3 H4 H5 H6 H7 H8 H9 H10] (Es & Em & Ec & Er & Ecl & En & Ep) Hu Hu'.
  assert (Hh : user_holds s = false) by (unfold user_holds; destruct Hu as [-> | ->]; reflexivity).
  assert (Hh' : user_holds s' = false) by (unfold user_holds; destruct Hu' as [-> | ->]; reflexivity).
  assert (Hspc : forall pc n, spc_ok2 s pc n -> spc_ok2 s' pc n).
  { intros pc n. unfold spc_ok2, pre_status. rewrite Es, Em, Er, Ecl, En. auto. }
  assert (Hat : forall pc, pc <> SCheck -> at_start s pc -> at_start s' pc).
  { intros pc Hpc. apply at_start_idle; auto. }
  assert (Hhold : forall j, holder s' j = holder s j) by (intros j; unfold holder; rewrite Ecl, Er; reflexivity).
  constructor.
  - intros a b. rewrite !Hhold. apply H1.
  - rewrite Hh'. discriminate.
  - intros pc Hpc. destruct Hu' as [Hu'|Hu']; rewrite Hu' in Hpc; inversion Hpc. simpl. exact I.
  - intros i pc Hi. rewrite Ecl in Hi. specialize (H4 i pc Hi). unfold clean_ok2 in *.
    rewrite Es, Em, Ec, Er, En. destruct H4 as [Ha Hb]. split; [exact Ha|].
    destruct pc; auto.
    + destruct Hb as [Hb1 Hb2]. split; [exact Hb1|]. destruct (r_started (s_runs s i)); [exact Hb2|].
      destruct Hb2 as [Hb2|Hb2]; [left|right]; apply Hat; auto; discriminate.
    + destruct Hb as (Hb1 & Hb2 & Hb3). repeat split; auto.
  - intros _ Hn. rewrite Es. apply H5; [exact Hh|]. intros j. rewrite <- Hhold. apply Hn.
  - intros m Hm. rewrite Em in Hm. specialize (H6 m Hm). unfold map_owned2 in *. rewrite Ecl. exact H6.
  - intros i Hi. rewrite En in Hi. specialize (H7 i Hi). unfold run_ok2 in *. rewrite Er, Ecl. exact H7.
  - rewrite En, Ecl. exact H8.
  - rewrite Er, En. intros i Hi. destruct (H9 i Hi) as [A B]. split; [exact A|].
    destruct B as [B|[B C]]; [left; exact B|right; split; [exact B|]].
    unfold live_witness in *. destruct C as [C|[C|C]]; [left|right; left|right; right]; apply Hat; auto; discriminate.
  - rewrite Ep, Er, En. intros p Hp. destruct (H10 p Hp) as [A B]. split; [exact A|].
    destruct B as [B|[B [pc [C D]]]]; [left; exact B|right; split; [exact B|]].
    exists pc. split; [exact C|]. apply Hat; [|exact D]. intros E. subst pc. discriminate.
Qed.

Lemma waiter_step_Inv2 s id s' l : Inv2 s -> waiter_step s id = Some (s', l) -> Inv2 s'.
Proof.
  intros HI H. unfold waiter_step in H. split_hyp H; inversion H; subst; clear H.
  all: destruct HI as [H1 H2 H3 H4 H5 H6 H7 H8 H9 H10]; constructor; simpl; auto.
Qed.

Lemma call_step_Inv2 c s k id s' l : Inv2 s -> call_step c s k id = Some (s', l) -> Inv2 s'.
Proof.
  intros HI H. unfold call_step in H. destruct k.
  all: split_hyp H; try discriminate; inversion H; subst; clear H.
  all: try (destruct HI as [H1 H2 H3 H4 H5 H6 H7 H8 H9 H10]; constructor; simpl; auto; fail).
  all: eapply Inv2_idle_user; [exact HI|repeat split| |];
       unfold idle_user, user_start; simpl;
       try match goal with E : s_user _ = None |- _ => rewrite E end; auto.
Qed.

(* the user's Stop / StopAll / StopAndWait / force stop: one run is touched (flags, source, tomb) *)
Lemma user_step_nonstart_Inv2 c s ch s' l id k pc :
  c_engine c = V2 -> Inv2 s -> s_user s = Some (id, k, pc) ->
  (forall q, pc <> UStart q) ->
  user_step c s ch = Some (s', l) -> Inv2 s'.
Proof.
  intros Hv HI Hu Hns H. unfold user_step in H. rewrite Hu in H. pose proof (is_v1_v2 c Hv) as Hv1.
  assert (Hidle : idle_user (user_start s)) by (left; unfold user_start; rewrite Hu; destruct pc; auto; exfalso; eapply Hns; eauto).
  destruct pc as [q| |m sw|r m sw|r m sw| |r| |x]; try (exfalso; eapply Hns; eauto; fail).
  all: try rewrite Hv in H; try rewrite Hv1 in H.
  all: split_hyp H; try discriminate; inversion H; subst; clear H.
  all: try (eapply Inv2_idle_user; [exact HI|repeat split|exact Hidle|left; reflexivity]; fail).
  all: try (eapply Inv2_idle_user; [exact HI|repeat split|exact Hidle|unfold idle_user, user_start; simpl; auto]; fail).
  (* UAct: the run is touched *)
  all: match goal with
       | E : get_run ?s0 ?r0 = Some ?x |- _ => pose proof (get_run_some _ _ _ E); subst x
       end.
  all: match goal with
       | |- Inv2 (with_user (upd_run (with_guard ?s0 ?g) ?r0 ?x) ?u) =>
           eapply (Inv2_idle_user (with_proc (with_guard (upd_run s0 r0 x) g) (s_proc s0)));
             [apply Inv2_run_update; [exact HI| | | | |] |repeat split| |]
       | |- Inv2 (with_user (upd_run ?s0 ?r0 ?x) ?u) =>
           eapply (Inv2_idle_user (with_proc (with_guard (upd_run s0 r0 x) (s_guard s0)) (s_proc s0)));
             [apply Inv2_run_update; [exact HI| | | | |] |repeat split| |]
       end; simpl; auto;
       try (unfold idle_user, user_start; simpl; auto; fail);
       try (unfold idle_user, user_start; simpl; rewrite Hu; auto; fail);
       try (intros; discriminate).
  all: try (match goal with |- context [match ?p with PDead => _ | _ => _ end] => destruct p end; simpl; auto; fail).
Qed.
