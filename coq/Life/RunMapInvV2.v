(* C11 - the run map of the arch-v2 engine (pkg/lifecycle-poc) in its REPAIRED variant (compare-and-delete of
   the cleanup, 838f9f1; failed opens release what they took, 7f15ba5 / 6946e0c), under the same restriction
   as for the default engine: no Start passes its status check while the status is Recovering ([polite],
   the finding that is still open in both engines).

   The engine differs from v1 in the order of Start: sink.Open and worker.Open run BEFORE anything is
   published (a failed open makes Start fail), the cleanup goroutine is registered together with the
   workers (it is inert until startupDone is closed), the run is published, and the status write is the
   last step.  The inductive invariant [Inv2] has the same shape as [Inv] of Life/RunMapInv.v: at most one
   holder (a Start past its status check, or a cleanup goroutine between its classification and its tail)
   owns status, run map and the announced run.

   From [Inv2]: running_implies_map_is_live, wait_returns_that_runs_result, status_agrees_with_last_run_end,
   teardown_releases_guards for every polite interleaving of the repaired v2 model. *)
From Verif Require Import Life.RunMap Life.RunMapProofs Life.RunMapInv.
From Coq Require Import Lia.

Record v2_repaired (c : cfg) : Prop := mkV2R {
  v2_engine : c_engine c = V2;
  v2_cad : f_cad (c_fix c) = true;
  v2_proc_open : f_proc_open (c_fix c) = true;
  v2_dlq_open : f_dlq_open (c_fix c) = true;
  v2_no_stfail : c_stfail c = false }.   (* no failing status write: see the findings keyed failed-running-write *)

(* the cleanup goroutine of run i owns the lifecycle: it is past startupDone and before its tail *)
Definition holder (s : st) (i : nat) : bool :=
  match s_cleans s i with
  | Some CWait => r_started (s_runs s i)
  | Some CBackoff | Some CWake | Some (CStart _) | Some CFailed => true
  | _ => false
  end.

Definition before_publish2 (pc : spc) : bool :=
  match pc with SStatus _ | SRegister _ => false | _ => true end.

(* what holds while a v2 Start stands at pc *)
Definition spc_ok2 (s : st) (pc : spc) (nested : bool) : Prop :=
  match pc with
  | SCheck => if nested then s_status s = Recovering else True
  | SBuild => pre_status s nested
  | SClear r | SOpenA r | SOpenSrc r | SOpenDlq r | SRollback r | SSpawn r =>
      pre_status s nested /\ r < s_next s /\ r_phase (s_runs s r) = PNew /\ s_cleans s r = None
      /\ r_started (s_runs s r) = false
  | SPublish r =>
      pre_status s nested /\ r < s_next s /\ alive (s_runs s r) /\ s_cleans s r = Some CWait
      /\ r_started (s_runs s r) = false
  | SStatus r =>
      pre_status s nested /\ s_map s = Some r /\ r < s_next s /\ alive (s_runs s r) /\ s_cleans s r = Some CWait
      /\ r_started (s_runs s r) = false
  | SRegister _ => False
  end.

Definition clean_ok2 (s : st) (i : nat) (pc : cpc) : Prop :=
  i < s_next s /\
  match pc with
  | CWait =>
      alive (s_runs s i) /\
      if r_started (s_runs s i) then s_status s = Running /\ s_map s = Some i /\ s_cur s = Some i
      else at_start s (SPublish i) \/ at_start s (SStatus i)
  | CBackoff | CWake | CFailed =>
      r_phase (s_runs s i) = PEnded /\ s_status s = Recovering /\ s_map s = Some i
  | CStart q =>
      r_phase (s_runs s i) = PEnded /\ spc_ok2 s q true /\ (before_publish2 q = true -> s_map s = Some i)
  | CTail1 _ | CTail2 _ => r_phase (s_runs s i) = PEnded
  | CTail3 _ => r_phase (s_runs s i) = PEnded /\ s_map s <> Some i
  end.

Definition map_owned2 (s : st) (m : nat) : Prop :=
  exists pc, s_cleans s m = Some pc /\ match pc with CTail3 _ => False | _ => True end.

Definition run_ok2 (s : st) (i : nat) : Prop :=
  match r_phase (s_runs s i) with
  | PNew => s_cleans s i = None
  | PLive | PEnded => s_cleans s i <> None
  | PDead => s_cleans s i = None
  end.

(* the Start positions at which the source of run j is already open although j is not live yet *)
Definition live_witness (s : st) (j : nat) : Prop :=
  at_start s (SOpenDlq j) \/ at_start s (SRollback j) \/ at_start s (SSpawn j).

Record Inv2 (s : st) : Prop := mkInv2 {
  j_one   : forall i j, holder s i = true -> holder s j = true -> i = j;
  j_excl  : user_holds s = true -> forall i, holder s i = false;
  j_user  : forall pc, user_start s = Some pc -> spc_ok2 s pc false;
  j_clean : forall i pc, s_cleans s i = Some pc -> clean_ok2 s i pc;
  j_idle  : user_holds s = false -> (forall i, holder s i = false) -> stopped_b (s_status s) = true;
  j_map   : forall m, s_map s = Some m -> map_owned2 s m;
  j_run   : forall i, i < s_next s -> run_ok2 s i;
  j_range : forall i, s_next s <= i -> s_cleans s i = None;
  j_live  : forall i, src_open (s_runs s i) = true ->
              i < s_next s /\ (r_phase (s_runs s i) = PLive \/ (r_phase (s_runs s i) = PNew /\ live_witness s i));
  j_proc  : forall p, s_proc s = Some p ->
              p < s_next s /\ (r_phase (s_runs s p) = PLive \/
                               (r_phase (s_runs s p) = PNew /\ exists pc, pc_run pc = Some p /\ at_start s pc))
}.

Lemma Inv2_init : Inv2 init.
Proof.
  constructor; simpl; try discriminate; try (intros; discriminate); try reflexivity; try (intros; lia); auto.
Qed.

(* ------------------------------------------------------------------ *)
(* threads that execute Start                                          *)
Inductive tid := TU | TC (i : nat).

Definition thread_at (s : st) (t : tid) (pc : spc) : Prop :=
  match t with TU => user_start s = Some pc | TC i => s_cleans s i = Some (CStart pc) end.

Definition nested_t (t : tid) : bool := match t with TU => false | TC _ => true end.

Lemma tid_eq_dec (a b : tid) : {a = b} + {a <> b}.
Proof. decide equality. apply Nat.eq_dec. Qed.

Lemma spc_eq_dec (a b : spc) : {a = b} + {a <> b}.
Proof. decide equality; apply Nat.eq_dec. Qed.

Lemma at_start_thread s pc : at_start s pc <-> exists t, thread_at s t pc.
Proof.
  unfold at_start. split.
  - intros [H|[i H]]; [exists TU|exists (TC i)]; exact H.
  - intros [[|i] H]; [left|right; exists i]; exact H.
Qed.

Lemma thread_at_fun s t p q : thread_at s t p -> thread_at s t q -> p = q.
Proof. destruct t; simpl; congruence. Qed.

Lemma holder_frame s s' i :
  s_cleans s' i = s_cleans s i -> r_started (s_runs s' i) = r_started (s_runs s i) -> holder s' i = holder s i.
Proof. unfold holder. intros -> ->. reflexivity. Qed.

(* ------------------------------------------------------------------ *)
(* frame: one run is replaced, the guards are set                      *)
Lemma Inv2_run_update s i x g p :
  Inv2 s ->
  pclass (r_phase x) = pclass (r_phase (s_runs s i)) ->
  (r_phase (s_runs s i) = PEnded -> r_phase x = PEnded) ->
  r_started x = r_started (s_runs s i) ->
  (src_open x = true -> src_open (s_runs s i) = true /\ r_phase x = r_phase (s_runs s i)) ->
  (forall q, p = Some q -> s_proc s = Some q /\ (q = i -> r_phase x = r_phase (s_runs s i))) ->
  Inv2 (with_proc (with_guard (upd_run s i x) g) p).
Proof.
  intros [H1 H2 H3 H4 H5 H6 H7 H8 H9 H10] Hc He Hs Ho Hp.
  assert (Hal : forall j, alive (s_runs s j) -> alive (fupd (s_runs s) i x j)).
  { intros j Hj. unfold fupd. destruct (Nat.eqb j i) eqn:E; [|exact Hj].
    apply Nat.eqb_eq in E. subst j. unfold alive in *.
    destruct (r_phase (s_runs s i)) eqn:E1, (r_phase x) eqn:E2; simpl in Hc; try discriminate; auto;
      destruct Hj; try discriminate; auto; try (specialize (He eq_refl); discriminate). }
  assert (Hph : forall j ph, (ph = PNew \/ ph = PEnded \/ ph = PDead) ->
             r_phase (s_runs s j) = ph -> r_phase (fupd (s_runs s) i x j) = ph).
  { intros j ph Hk Hj. unfold fupd. destruct (Nat.eqb j i) eqn:E; [|exact Hj].
    apply Nat.eqb_eq in E. subst j. destruct Hk as [Hk|[Hk|Hk]]; subst ph.
    - rewrite Hj in Hc. destruct (r_phase x); simpl in Hc; try discriminate; auto.
    - auto.
    - rewrite Hj in Hc. destruct (r_phase x); simpl in Hc; try discriminate; auto. }
  assert (Hst : forall j, r_started (fupd (s_runs s) i x j) = r_started (s_runs s j)).
  { intros j. unfold fupd. destruct (Nat.eqb j i) eqn:E; [|reflexivity]. apply Nat.eqb_eq in E. subst j. exact Hs. }
  assert (Hcls : forall j, pclass (r_phase (fupd (s_runs s) i x j)) = pclass (r_phase (s_runs s j))).
  { intros j. unfold fupd. destruct (Nat.eqb j i) eqn:E; [|reflexivity]. apply Nat.eqb_eq in E. subst j. exact Hc. }
  assert (Hspc : forall pc n, spc_ok2 s pc n -> spc_ok2 (with_proc (with_guard (upd_run s i x) g) p) pc n).
  { intros pc n. destruct pc; simpl; auto; rewrite ?Hst; intuition auto. }
  assert (Hhold : forall j, holder (with_proc (with_guard (upd_run s i x) g) p) j = holder s j).
  { intros j. unfold holder. simpl. rewrite Hst. reflexivity. }
  assert (Hat : forall pc, at_start s pc -> at_start (with_proc (with_guard (upd_run s i x) g) p) pc).
  { intros pc Hpc. exact Hpc. }
  constructor; simpl; auto.
  - intros a b. rewrite !Hhold. apply H1.
  - intros Hu a. rewrite Hhold. apply H2. exact Hu.
  - intros j pc Hj. specialize (H4 j pc Hj). unfold clean_ok2 in *. simpl.
    destruct H4 as [Hlt H4]. split; [exact Hlt|]. rewrite ?Hst.
    destruct pc; intuition auto.
  - intros Hu Hall. apply H5; [exact Hu|]. intros a. rewrite <- Hhold. apply Hall.
  - intros j Hj. specialize (H7 j Hj). unfold run_ok2 in *. simpl.
    pose proof (Hcls j) as Hcj.
    destruct (r_phase (s_runs s j)), (r_phase (fupd (s_runs s) i x j)); simpl in Hcj; try discriminate; auto.
  - intros j Hj. unfold fupd in Hj. destruct (Nat.eqb j i) eqn:E.
    + apply Nat.eqb_eq in E. subst j. destruct (Ho Hj) as [Ho1 Ho2]. destruct (H9 i Ho1) as [A B]. split; [exact A|].
      unfold fupd. rewrite Nat.eqb_refl. rewrite Ho2. exact B.
    + destruct (H9 j Hj) as [A B]. split; [exact A|]. unfold fupd. rewrite E. exact B.
  - intros q Hq. destruct (Hp q Hq) as [Hp1 Hp2]. destruct (H10 q Hp1) as [A B]. split; [exact A|].
    unfold fupd. destruct (Nat.eqb q i) eqn:E; [|exact B]. apply Nat.eqb_eq in E. subst q.
    rewrite (Hp2 eq_refl). exact B.
Qed.

Lemma is_v1_v2 c : c_engine c = V2 -> is_v1 c = false.
Proof. unfold is_v1. intros ->. reflexivity. Qed.

(* ------------------------------------------------------------------ *)
(* the environment (records, failures, teardown, the workers return)   *)
Lemma env_step_Inv2 c s a s' l : c_engine c = V2 -> Inv2 s -> env_step c s a = Some (s', l) -> Inv2 s'.
Proof.
  intros Hv HI H. pose proof (is_v1_v2 c Hv) as Hv1.
  unfold env_step in H. destruct a as [| | | |r|r|r|r c0|r c0|r|r|r]; try discriminate.
  all: destruct (get_run s r) as [x|] eqn:Er; try discriminate;
    pose proof (get_run_some _ _ _ Er) as Hx; subst x;
    rewrite ?Hv1 in H; simpl in H; try discriminate.
  - (* AInject *)
    destruct (is_live (s_runs s r)) eqn:El; [|discriminate]. inversion H; subst; clear H.
    change (Inv2 (with_proc (with_guard (upd_run s r (rw_cands (s_runs s r) (r_cands (s_runs s r) ++ [c0]))) (s_guard s)) (s_proc s))).
    apply Inv2_run_update; auto; simpl; auto.
  - (* AKill *)
    destruct (is_live (s_runs s r) && existsb (cause_eqb c0) (r_cands (s_runs s r))) eqn:El; [|discriminate].
    inversion H; subst; clear H.
    match goal with |- Inv2 (upd_run ?s0 ?r0 ?x) =>
      change (Inv2 (with_proc (with_guard (upd_run s0 r0 x) (s_guard s0)) (s_proc s0))) end.
    apply Inv2_run_update; auto; simpl; auto.
  - (* ATd *)
    match type of H with (if ?b then _ else _) = _ => destruct b eqn:El; [|discriminate] end.
    inversion H; subst; clear H.
    match goal with |- Inv2 (upd_run (with_guard ?s0 ?g) ?r0 ?x) =>
      change (Inv2 (with_proc (with_guard (upd_run s0 r0 x) g) (s_proc s0))) end.
    apply Inv2_run_update; auto; simpl; auto. intros Ho. discriminate.
  - (* AEnd *)
    match type of H with (if ?b then _ else _) = _ => destruct b eqn:El; [|discriminate] end.
    inversion H; subst; clear H. bools.
    assert (Hph : r_phase (s_runs s r) = PLive) by (apply is_live_phase; assumption).
    unfold rel_proc. simpl.
    match goal with |- context [onat_eqb ?a ?b] => destruct (onat_eqb a b) eqn:Ep end.
    + match goal with |- Inv2 (with_proc (upd_run ?s0 ?r0 ?x) None) =>
        change (Inv2 (with_proc (with_guard (upd_run s0 r0 x) (s_guard s0)) None)) end.
      apply Inv2_run_update; auto; simpl; try rewrite Hph; auto; try discriminate.
    + match goal with |- Inv2 (upd_run ?s0 ?r0 ?x) =>
        change (Inv2 (with_proc (with_guard (upd_run s0 r0 x) (s_guard s0)) (s_proc s0))) end.
      apply Inv2_run_update; auto; simpl; try rewrite Hph; auto; try discriminate.
      intros q Hq. split; [exact Hq|]. intros ->. rewrite Hq in Ep. simpl in Ep. rewrite Nat.eqb_refl in Ep. discriminate.
Qed.

(* ------------------------------------------------------------------ *)
(* frame: the components Inv2 does not look at, the user call is not a Start past its check *)
Lemma Inv2_idle_user s s' :
  Inv2 s -> same_core s s' -> idle_user (user_start s) -> idle_user (user_start s') -> Inv2 s'.
Proof.
  intros [H1 H2 H3 H4 H5 H6 H7 H8 H9 H10] (Es & Em & Ec & Er & Ecl & En & Ep) Hu Hu'.
  assert (Hh : user_holds s = false) by (unfold user_holds; destruct Hu as [-> | ->]; reflexivity).
  assert (Hh' : user_holds s' = false) by (unfold user_holds; destruct Hu' as [-> | ->]; reflexivity).
  assert (Hspc : forall pc n, spc_ok2 s pc n -> spc_ok2 s' pc n).
  { intros pc n. unfold spc_ok2, pre_status. rewrite Es, Em, Er, Ecl, En. auto. }
  assert (Hat : forall pc, pc <> SCheck -> at_start s pc -> at_start s' pc).
  { intros pc Hpc. apply at_start_idle; auto. }
  assert (Hhold : forall j, holder s' j = holder s j) by (intros j; unfold holder; rewrite Ecl, Er; reflexivity).
  constructor.
  - intros a b. rewrite !Hhold. apply H1.
  - rewrite Hh'. discriminate.
  - intros pc Hpc. destruct Hu' as [Hu'|Hu']; rewrite Hu' in Hpc; inversion Hpc. simpl. exact I.
  - intros i pc Hi. rewrite Ecl in Hi. specialize (H4 i pc Hi). unfold clean_ok2 in *.
    rewrite Es, Em, Ec, Er, En. destruct H4 as [Ha Hb]. split; [exact Ha|].
    destruct pc; auto.
    + destruct Hb as [Hb1 Hb2]. split; [exact Hb1|]. destruct (r_started (s_runs s i)); [exact Hb2|].
      destruct Hb2 as [Hb2|Hb2]; [left|right]; apply Hat; auto; discriminate.
    + destruct Hb as (Hb1 & Hb2 & Hb3). repeat split; auto.
  - intros _ Hn. rewrite Es. apply H5; [exact Hh|]. intros j. rewrite <- Hhold. apply Hn.
  - intros m Hm. rewrite Em in Hm. specialize (H6 m Hm). unfold map_owned2 in *. rewrite Ecl. exact H6.
  - intros i Hi. rewrite En in Hi. specialize (H7 i Hi). unfold run_ok2 in *. rewrite Er, Ecl. exact H7.
  - rewrite En, Ecl. exact H8.
  - rewrite Er, En. intros i Hi. destruct (H9 i Hi) as [A B]. split; [exact A|].
    destruct B as [B|[B C]]; [left; exact B|right; split; [exact B|]].
    unfold live_witness in *. destruct C as [C|[C|C]]; [left|right; left|right; right]; apply Hat; auto; discriminate.
  - rewrite Ep, Er, En. intros p Hp. destruct (H10 p Hp) as [A B]. split; [exact A|].
    destruct B as [B|[B [pc [C D]]]]; [left; exact B|right; split; [exact B|]].
    exists pc. split; [exact C|]. apply Hat; [|exact D]. intros E. subst pc. discriminate.
Qed.

Lemma waiter_step_Inv2 s id s' l : Inv2 s -> waiter_step s id = Some (s', l) -> Inv2 s'.
Proof.
  intros HI H. unfold waiter_step in H. split_hyp H; inversion H; subst; clear H.
  all: destruct HI as [H1 H2 H3 H4 H5 H6 H7 H8 H9 H10]; constructor; simpl; auto.
Qed.

Lemma call_step_Inv2 c s k id s' l : Inv2 s -> call_step c s k id = Some (s', l) -> Inv2 s'.
Proof.
  intros HI H. unfold call_step in H. destruct k.
  all: split_hyp H; try discriminate; inversion H; subst; clear H.
  all: try (destruct HI as [H1 H2 H3 H4 H5 H6 H7 H8 H9 H10]; constructor; simpl; auto; fail).
  all: eapply Inv2_idle_user; [exact HI|repeat split| |];
       unfold idle_user, user_start; simpl;
       try match goal with E : s_user _ = None |- _ => rewrite E end; auto.
Qed.

(* the user's Stop / StopAll / StopAndWait / force stop: one run is touched (flags, source, tomb) *)
Lemma user_step_nonstart_Inv2 c s ch s' l id k pc :
  c_engine c = V2 -> Inv2 s -> s_user s = Some (id, k, pc) ->
  (forall q, pc <> UStart q) ->
  user_step c s ch = Some (s', l) -> Inv2 s'.
Proof.
  intros Hv HI Hu Hns H. unfold user_step in H. rewrite Hu in H. pose proof (is_v1_v2 c Hv) as Hv1.
  assert (Hidle : idle_user (user_start s)) by (left; unfold user_start; rewrite Hu; destruct pc; auto; exfalso; eapply Hns; eauto).
  destruct pc as [q| |m sw|r m sw|r m sw| |r| |x]; try (exfalso; eapply Hns; eauto; fail).
  all: try rewrite Hv in H; try rewrite Hv1 in H.
  all: split_hyp H; try discriminate; inversion H; subst; clear H.
  all: try (eapply Inv2_idle_user; [exact HI|repeat split|exact Hidle|left; reflexivity]; fail).
  all: try (eapply Inv2_idle_user; [exact HI|repeat split|exact Hidle|unfold idle_user, user_start; simpl; auto]; fail).
  (* UAct: the run is touched *)
  all: match goal with
       | E : get_run ?s0 ?r0 = Some ?x |- _ => pose proof (get_run_some _ _ _ E); subst x
       end.
  all: match goal with
       | |- Inv2 (with_user (upd_run (with_guard ?s0 ?g) ?r0 ?x) ?u) =>
           eapply (Inv2_idle_user (with_proc (with_guard (upd_run s0 r0 x) g) (s_proc s0)));
             [apply Inv2_run_update; [exact HI| | | | |] |repeat split| |]
       | |- Inv2 (with_user (upd_run ?s0 ?r0 ?x) ?u) =>
           eapply (Inv2_idle_user (with_proc (with_guard (upd_run s0 r0 x) (s_guard s0)) (s_proc s0)));
             [apply Inv2_run_update; [exact HI| | | | |] |repeat split| |]
       end; simpl; auto;
       try (unfold idle_user, user_start; simpl; auto; fail);
       try (unfold idle_user, user_start; simpl; rewrite Hu; auto; fail);
       try (intros; discriminate).
  all: try (match goal with |- context [match ?p with PDead => _ | _ => _ end] => destruct p end; simpl; auto; fail).
Qed.

(* ------------------------------------------------------------------ *)
(* holders and threads                                                 *)
Lemma stopped_no_holder s : Inv2 s -> stopped_b (s_status s) = true -> forall i, holder s i = false.
Proof.
  intros HI Hs i. unfold holder. destruct (s_cleans s i) as [pc|] eqn:E; [|reflexivity].
  pose proof (j_clean s HI i pc E) as [_ Hc].
  destruct pc as [| | |q| | | |]; try reflexivity.
  - destruct (r_started (s_runs s i)); [|reflexivity]. destruct Hc as (_ & Hc & _). rewrite Hc in Hs. discriminate.
  - exfalso. destruct Hc as (_ & Hc & _). rewrite Hc in Hs. discriminate.
  - exfalso. destruct Hc as (_ & Hc & _). rewrite Hc in Hs. discriminate.
  - exfalso. destruct Hc as (_ & Hc & _). destruct q; simpl in Hc; unfold pre_status in Hc;
      try (rewrite Hc in Hs; discriminate);
      try (destruct Hc as (Hc & _); rewrite Hc in Hs; discriminate); try contradiction.
  - exfalso. destruct Hc as (_ & Hc & _). rewrite Hc in Hs. discriminate.
Qed.

Definition set_thread (s : st) (t : tid) (pc : spc) : st :=
  match t with
  | TU => match s_user s with Some (id, k, _) => with_user s (Some (id, k, UStart pc)) | None => s end
  | TC i => set_clean s i (Some (CStart pc))
  end.

(* a thread that owns the lifecycle: the user's Start past its check, or any nested Start *)
Definition owning (t : tid) (q : spc) : Prop := nested_t t = true \/ q <> SCheck.

Lemma thread_ctx s t q :
  Inv2 s -> thread_at s t q -> owning t q ->
  (forall j, TC j <> t -> holder s j = false)
  /\ (t <> TU -> user_holds s = false)
  /\ spc_ok2 s q (nested_t t)
  /\ (forall i, t = TC i -> i < s_next s /\ r_phase (s_runs s i) = PEnded /\ (before_publish2 q = true -> s_map s = Some i)).
Proof.
  intros HI Ht Ho. destruct t as [|i]; simpl in *.
  - assert (Hh : user_holds s = true).
    { unfold user_holds. rewrite Ht. destruct Ho as [Ho|Ho]; [discriminate|]. destruct q; auto; congruence. }
    split; [|split; [|split]].
    + intros j _. apply (j_excl s HI Hh).
    + intros E. congruence.
    + apply (j_user s HI q Ht).
    + intros k E. discriminate.
  - assert (Hh : holder s i = true) by (unfold holder; rewrite Ht; reflexivity).
    pose proof (j_clean s HI i _ Ht) as (A & B & C & D).
    split; [|split; [|split]].
    + intros j Hj. destruct (holder s j) eqn:E; [|reflexivity]. exfalso. apply Hj. f_equal. apply (j_one s HI); auto.
    + intros _. destruct (user_holds s) eqn:E; [|reflexivity]. rewrite (j_excl s HI E i) in Hh. discriminate.
    + exact C.
    + intros k E. inversion E. subst k. auto.
Qed.

Lemma user_idle_of_not_holding2 s : user_holds s = false -> idle_user (user_start s).
Proof. apply user_idle_of_not_holding. Qed.

Definition live_pc (pc : spc) : bool := match pc with SOpenDlq _ | SRollback _ | SSpawn _ => true | _ => false end.

Lemma live_witness_pc s j : live_witness s j <-> exists pc, live_pc pc = true /\ pc_run pc = Some j /\ at_start s pc.
Proof.
  unfold live_witness. split.
  - intros [H|[H|H]]; eexists; (split; [|split; [|exact H]]); reflexivity.
  - intros [pc [A [B C]]]. destruct pc; simpl in A, B; try discriminate; inversion B; subst; auto.
Qed.

(* generic step of a Start thread t from q to q' (same run, or no run on both sides) *)
Lemma thread_move_Inv2 s s1 t q q' :
  Inv2 s -> thread_at s t q -> owning t q ->
  s_user s1 = s_user s -> s_next s1 = s_next s -> s_status s1 = s_status s -> s_cur s1 = s_cur s ->
  s_proc s1 = s_proc s ->
  (forall j, pc_run q' <> Some j -> s_runs s1 j = s_runs s j /\ s_cleans s1 j = s_cleans s j) ->
  (forall r, pc_run q' = Some r ->
      (r_phase (s_runs s1 r) = r_phase (s_runs s r) \/ (r_phase (s_runs s r) = PNew /\ r_phase (s_runs s1 r) = PLive))
      /\ (s_cleans s1 r = s_cleans s r \/ (s_cleans s r = None /\ s_cleans s1 r = Some CWait))
      /\ (src_open (s_runs s1 r) = true -> src_open (s_runs s r) = true \/ q' = SOpenDlq r)
      /\ (live_pc q = true -> live_pc q' = true \/ r_phase (s_runs s1 r) = PLive)) ->
  (s_map s1 = s_map s \/ (exists r, q' = SStatus r /\ s_map s1 = Some r)) ->
  pc_run q = pc_run q' -> q' <> SCheck -> before_publish2 q = true ->
  spc_ok2 (set_thread s1 t q') q' (nested_t t) ->
  Inv2 (set_thread s1 t q').
Proof.
  intros HI Ht Ho Eus Enx Est Ecu Epr Hoth Hrun Hmap Hqq Hq' Hbq Hok'.
  destruct (thread_ctx s t q HI Ht Ho) as (C1 & C2 & Hok & C4).
  pose proof HI as [H1 H2 H3 H4 H5 H6 H7 H8 H9 H10].
  set (s' := set_thread s1 t q') in *.
  (* projections of s' *)
  assert (P_next : s_next s' = s_next s) by (unfold s', set_thread; destruct t; [destruct (s_user s1) as [[[? ?] ?]|]|]; simpl; auto).
  assert (P_status : s_status s' = s_status s) by (unfold s', set_thread; destruct t; [destruct (s_user s1) as [[[? ?] ?]|]|]; simpl; auto).
  assert (P_cur : s_cur s' = s_cur s) by (unfold s', set_thread; destruct t; [destruct (s_user s1) as [[[? ?] ?]|]|]; simpl; auto).
  assert (P_proc : s_proc s' = s_proc s) by (unfold s', set_thread; destruct t; [destruct (s_user s1) as [[[? ?] ?]|]|]; simpl; auto).
  assert (P_map : s_map s' = s_map s1) by (unfold s', set_thread; destruct t; [destruct (s_user s1) as [[[? ?] ?]|]|]; simpl; auto).
  assert (P_runs : s_runs s' = s_runs s1) by (unfold s', set_thread; destruct t; [destruct (s_user s1) as [[[? ?] ?]|]|]; simpl; auto).
  assert (P_cl : forall j, TC j <> t -> s_cleans s' j = s_cleans s1 j).
  { intros j Hj. unfold s', set_thread. destruct t as [|i]; [destruct (s_user s1) as [[[? ?] ?]|]; reflexivity|].
    simpl. unfold fupd. destruct (Nat.eqb j i) eqn:E; [apply Nat.eqb_eq in E; subst; congruence|reflexivity]. }
  assert (P_cli : forall i, t = TC i -> s_cleans s' i = Some (CStart q')).
  { intros i ->. unfold s'. simpl. unfold fupd. rewrite Nat.eqb_refl. reflexivity. }
  assert (P_us : t <> TU -> user_start s' = user_start s).
  { intros Hn. unfold s', set_thread. destruct t; [congruence|]. unfold user_start. simpl. rewrite Eus. reflexivity. }
  assert (P_ut : t = TU -> user_start s' = Some q').
  { intros ->. unfold s', set_thread. simpl in Ht. unfold user_start in Ht. rewrite <- Eus in Ht.
    destruct (s_user s1) as [[[? ?] ?]|]; [reflexivity|discriminate]. }
  (* the run of the thread is not the thread's own cleanup goroutine *)
  assert (Hri : forall r i, pc_run q' = Some r -> t = TC i -> r <> i).
  { intros r i Hr -> E. subst r. rewrite <- Hqq in Hr. simpl in Ht.
    destruct q; simpl in Hr; inversion Hr; subst; simpl in Hok;
      repeat match goal with H : _ /\ _ |- _ => destruct H end; try contradiction; congruence. }
  assert (Hnow : at_start s' q').
  { destruct t as [|i]; [left; apply P_ut; reflexivity|right; exists i; apply P_cli; reflexivity]. }
  assert (Hat : forall pc, pc <> q -> at_start s pc -> at_start s' pc).
  { intros pc Hpc [H|[j H]].
    - destruct t as [|i]; [simpl in Ht; congruence|]. left. rewrite P_us by discriminate. exact H.
    - destruct (tid_eq_dec (TC j) t) as [E|E].
      + subst t. simpl in Ht. congruence.
      + right. exists j. rewrite (P_cl j E).
        destruct (option_eq_dec_nat (pc_run q') (Some j)) as [Er|Er].
        * exfalso. rewrite <- Hqq in Er.
          destruct q; simpl in Er; inversion Er; subst; simpl in Hok;
            repeat match goal with H : _ /\ _ |- _ => destruct H end; try contradiction; congruence.
        * rewrite (proj2 (Hoth j Er)). exact H. }
  (* the thread's run, seen from the new position *)
  assert (Hst' : forall r, pc_run q' = Some r -> r_started (s_runs s1 r) = false /\ r < s_next s).
  { intros r Hr. rewrite <- P_runs. rewrite <- P_next.
    destruct q'; simpl in Hr; inversion Hr; subst; simpl in Hok';
      repeat match goal with H : _ /\ _ |- _ => destruct H end; try contradiction; auto. }
  assert (Hhold : forall j, TC j <> t -> holder s' j = false).
  { intros j Hj. unfold holder. rewrite (P_cl j Hj), P_runs.
    destruct (option_eq_dec_nat (pc_run q') (Some j)) as [Er|Er].
    - destruct (Hst' j Er) as [A _]. rewrite A.
      destruct (Hrun j Er) as (_ & [B|[_ B]] & _); [|rewrite B; reflexivity].
      rewrite B. pose proof (C1 j Hj) as Hh. unfold holder in Hh.
      assert (Es : r_started (s_runs s j) = false).
      { rewrite <- Hqq in Er. destruct q; simpl in Er; inversion Er; subst; simpl in Hok;
          repeat match goal with H : _ /\ _ |- _ => destruct H end; try contradiction; auto. }
      rewrite Es in Hh. destruct (s_cleans s j) as [[]|]; auto.
    - destruct (Hoth j Er) as [A B]. rewrite A, B. apply C1. exact Hj. }
  constructor.
  - intros a b Ha Hb.
    destruct (tid_eq_dec (TC a) t) as [Ea|Ea]; [|rewrite (Hhold a Ea) in Ha; discriminate].
    destruct (tid_eq_dec (TC b) t) as [Eb|Eb]; [|rewrite (Hhold b Eb) in Hb; discriminate].
    congruence.
  - intros Hu a. destruct (tid_eq_dec (TC a) t) as [Ea|Ea]; [|apply Hhold; exact Ea].
    exfalso. subst t. unfold user_holds in Hu. rewrite P_us in Hu by discriminate.
    specialize (C2 ltac:(discriminate)). unfold user_holds in C2. congruence.
  - intros pc Hpc. destruct t as [|i].
    + rewrite (P_ut eq_refl) in Hpc. inversion Hpc. subst pc. exact Hok'.
    + rewrite P_us in Hpc by discriminate.
      destruct (user_idle_of_not_holding s (C2 ltac:(discriminate))) as [E|E]; rewrite E in Hpc; inversion Hpc. exact I.
  - intros j pc Hj. destruct (tid_eq_dec (TC j) t) as [Ej|Ej].
    + subst t. rewrite (P_cli j eq_refl) in Hj. inversion Hj. subst pc.
      destruct (C4 j eq_refl) as (A & B & C). unfold clean_ok2. rewrite P_next. split; [exact A|].
      assert (Er : pc_run q' <> Some j) by (intros E; eapply Hri; eauto).
      rewrite P_runs, (proj1 (Hoth j Er)). split; [exact B|]. split; [exact Hok'|].
      intros Hb. rewrite P_map. destruct Hmap as [Hm|[r [Hr Hm]]]; [rewrite Hm; apply C; exact Hbq|].
      subst q'. discriminate.
    + rewrite (P_cl j Ej) in Hj.
      destruct (option_eq_dec_nat (pc_run q') (Some j)) as [Er|Er].
      * (* the thread's run *)
        destruct (Hst' j Er) as [Hs Hlt]. unfold clean_ok2. rewrite P_next. split; [exact Hlt|].
        assert (Hpc : pc = CWait /\ alive (s_runs s1 j) /\ (q' = SPublish j \/ q' = SStatus j)).
        { rewrite <- P_runs. rewrite <- (P_cl j Ej) in Hj.
          destruct q'; simpl in Er; inversion Er; subst; simpl in Hok';
            repeat match goal with H : _ /\ _ |- _ => destruct H end; try contradiction; try congruence;
            (split; [congruence|split; [assumption|auto]]). }
        destruct Hpc as (-> & Hal & Hq2). rewrite P_runs. split; [exact Hal|]. rewrite Hs.
        destruct Hq2 as [Hq2|Hq2]; [left|right]; rewrite <- Hq2; exact Hnow.
      * destruct (Hoth j Er) as [A B]. rewrite B in Hj. pose proof (H4 j pc Hj) as [Hlt Hc].
        pose proof (C1 j Ej) as Hh. unfold holder in Hh. rewrite Hj in Hh.
        unfold clean_ok2. rewrite P_next, P_runs, A, P_status, P_cur, P_map. split; [exact Hlt|].
        destruct pc as [| | |q0| |e|e|e]; try discriminate; try exact Hc.
        -- destruct Hc as [Hc1 Hc2]. split; [exact Hc1|]. rewrite Hh in Hc2 |- *.
           destruct Hc2 as [Hc2|Hc2]; [left|right]; (apply Hat; [|exact Hc2]); intros E; subst q;
             apply Er; rewrite <- Hqq; reflexivity.
        -- destruct Hc as [Hc1 Hc2]. split; [exact Hc1|].
           destruct Hmap as [Hm|[r [Hr Hm]]]; [rewrite Hm; exact Hc2|]. rewrite Hm. subst q'. simpl in Er. congruence.
  - intros Hu Hall. exfalso. destruct t as [|i].
    + unfold user_holds in Hu. rewrite (P_ut eq_refl) in Hu. destruct q'; try discriminate. congruence.
    + specialize (Hall i). unfold holder in Hall. rewrite (P_cli i eq_refl) in Hall. discriminate.
  - intros m Hm. rewrite P_map in Hm. unfold map_owned2.
    destruct (tid_eq_dec (TC m) t) as [Em|Em].
    + subst t. rewrite (P_cli m eq_refl). eexists. split; [reflexivity|exact I].
    + rewrite (P_cl m Em). destruct Hmap as [Hm1|[r [Hr Hm1]]].
      * rewrite Hm1 in Hm. destruct (H6 m Hm) as [pc [A B]].
        destruct (option_eq_dec_nat (pc_run q') (Some m)) as [Er|Er].
        -- destruct (Hrun m Er) as (_ & [C|[C _]] & _); [rewrite C; exists pc; auto|congruence].
        -- rewrite (proj2 (Hoth m Er)). exists pc. auto.
      * rewrite Hm1 in Hm. inversion Hm. subst m. subst q'. simpl in Hok'.
        destruct Hok' as (_ & _ & _ & _ & A & _). rewrite (P_cl r Em) in A. rewrite A. exists CWait. auto.
  - intros j Hj. rewrite P_next in Hj. unfold run_ok2. rewrite P_runs.
    destruct (tid_eq_dec (TC j) t) as [Ej|Ej].
    + subst t. rewrite (P_cli j eq_refl).
      assert (Er : pc_run q' <> Some j) by (intros E; eapply Hri; eauto).
      rewrite (proj1 (Hoth j Er)). destruct (C4 j eq_refl) as (_ & B & _). rewrite B. discriminate.
    + rewrite (P_cl j Ej). destruct (option_eq_dec_nat (pc_run q') (Some j)) as [Er|Er].
      * rewrite <- P_runs. rewrite <- (P_cl j Ej).
        destruct q'; simpl in Er; inversion Er; subst; simpl in Hok';
          repeat match goal with H : _ /\ _ |- _ => destruct H end; try contradiction;
          try (match goal with H : r_phase _ = PNew |- _ => rewrite H; assumption end);
          (match goal with H : alive _ |- _ => destruct H as [H|H]; rewrite H end;
           match goal with H : s_cleans _ _ = Some CWait |- _ => rewrite H; discriminate end).
      * destruct (Hoth j Er) as [A B]. rewrite A, B. apply H7. exact Hj.
  - intros j Hj. rewrite P_next in Hj.
    assert (Ej : TC j <> t).
    { intros E. subst t. destruct (C4 j eq_refl) as (A & _). lia. }
    rewrite (P_cl j Ej).
    assert (Er : pc_run q' <> Some j) by (intros E; destruct (Hst' j E); lia).
    rewrite (proj2 (Hoth j Er)). apply H8. exact Hj.
  - intros j Hj. rewrite P_runs in Hj. rewrite P_next, P_runs.
    destruct (option_eq_dec_nat (pc_run q') (Some j)) as [Er|Er].
    + destruct (Hst' j Er) as [_ Hlt]. split; [exact Hlt|].
      destruct (Hrun j Er) as ([Hp|[_ Hp]] & _ & Hsrc & Hlp); [|left; exact Hp].
      destruct (live_pc q') eqn:Elq.
      * destruct (r_phase (s_runs s1 j)) eqn:Ep1; auto.
        -- right. split; [reflexivity|]. apply live_witness_pc. exists q'. auto.
        -- exfalso. rewrite <- P_runs in Ep1.
           destruct q'; simpl in Er, Elq; inversion Er; subst; try discriminate; simpl in Hok';
             repeat match goal with H : _ /\ _ |- _ => destruct H end; congruence.
        -- exfalso. rewrite <- P_runs in Ep1.
           destruct q'; simpl in Er, Elq; inversion Er; subst; try discriminate; simpl in Hok';
             repeat match goal with H : _ /\ _ |- _ => destruct H end; congruence.
      * destruct (Hsrc Hj) as [Ho1|Ho1]; [|subst q'; discriminate].
        destruct (H9 j Ho1) as [_ [B|[B C]]]; [left; congruence|].
        apply live_witness_pc in C. destruct C as [pc [C1' [C2' C3']]].
        destruct (spc_eq_dec pc q) as [->|Hne].
        -- destruct (Hlp C1') as [D|D]; [congruence|left; exact D].
        -- right. split; [congruence|]. apply live_witness_pc. exists pc. auto.
    + destruct (Hoth j Er) as [A _]. rewrite A in Hj |- *. destruct (H9 j Hj) as [B [C|[C D]]]; (split; [exact B|]); [left; exact C|].
      right. split; [exact C|]. apply live_witness_pc in D. destruct D as [pc [D1 [D2 D3]]].
      apply live_witness_pc. exists pc. repeat split; auto. apply Hat; [|exact D3].
      intros E. subst pc. apply Er. rewrite <- Hqq. exact D2.
  - intros p Hp. rewrite P_proc in Hp. rewrite P_next, P_runs. destruct (H10 p Hp) as [A B]. split; [exact A|].
    destruct (option_eq_dec_nat (pc_run q') (Some p)) as [Er|Er].
    + destruct (Hrun p Er) as ([Hph|[_ Hph]] & _); [|left; exact Hph].
      rewrite Hph. destruct B as [B|[B _]]; [left; exact B|right; split; [exact B|]]. exists q'. auto.
    + rewrite (proj1 (Hoth p Er)). destruct B as [B|[B [pc [C D]]]]; [left; exact B|right; split; [exact B|]].
      exists pc. split; [exact C|]. apply Hat; [|exact D]. intros E. subst pc. apply Er. rewrite <- Hqq. exact C.
Qed.

(* ------------------------------------------------------------------ *)
(* the user's Start takes its status check                             *)
Lemma user_check_Inv2 s id k :
  Inv2 s -> s_user s = Some (id, k, UStart SCheck) ->
  status_eqb (s_status s) Running = false -> s_status s <> Recovering ->
  Inv2 (with_user s (Some (id, k, UStart SBuild))).
Proof.
  intros HI Hu Hr Hrec.
  assert (Hst : stopped_b (s_status s) = true) by (destruct (s_status s); simpl in *; congruence).
  pose proof (stopped_no_holder s HI Hst) as Hno.
  destruct HI as [H1 H2 H3 H4 H5 H6 H7 H8 H9 H10].
  assert (Hus : user_start s = Some SCheck) by (unfold user_start; rewrite Hu; reflexivity).
  assert (Hat : forall pc, at_start s pc -> pc <> SCheck -> at_start (with_user s (Some (id, k, UStart SBuild))) pc).
  { intros pc Hp Hn. apply at_start_other; [exact Hp|]. rewrite Hus. congruence. }
  constructor; simpl.
  - exact H1.
  - intros _. exact Hno.
  - unfold user_start. simpl. intros pc Hpc. inversion Hpc. subst. simpl. exact Hst.
  - intros i pc Hi. specialize (H4 i pc Hi). unfold clean_ok2 in *. simpl.
    destruct H4 as [A B]. split; [exact A|]. destruct pc; auto.
    destruct B as [B1 B2]. split; [exact B1|]. destruct (r_started (s_runs s i)); [exact B2|].
    destruct B2 as [B2|B2]; [left|right]; apply Hat; auto; discriminate.
  - intros _ _. exact Hst.
  - exact H6.
  - exact H7.
  - exact H8.
  - intros i Hi. destruct (H9 i Hi) as [A B]. split; [exact A|]. destruct B as [B|[B C]]; [left; exact B|right; split; [exact B|]].
    unfold live_witness in *. destruct C as [C|[C|C]]; [left|right; left|right; right]; apply Hat; auto; discriminate.
  - intros p Hp. destruct (H10 p Hp) as [A B]. split; [exact A|].
    destruct B as [B|[B [pc [C D]]]]; [left; exact B|right; split; [exact B|]]. exists pc. split; [exact C|].
    apply Hat; [exact D|]. intros E. subst pc. discriminate.
Qed.

(* ------------------------------------------------------------------ *)
(* SBuild: a fresh run is created                                      *)
Lemma thread_build_Inv2 s t (proc : bool) :
  Inv2 s -> thread_at s t SBuild ->
  (proc = true -> s_proc s = None) ->
  let r := s_next s in
  let s1 := with_next (upd_run s r new_run) (S r) in
  let s2 := if proc then with_proc s1 (Some r) else s1 in
  Inv2 (set_thread s2 t (SClear r)).
Proof.
  intros HI Ht Hpn r s1 s2.
  assert (Ho : owning t SBuild) by (right; discriminate).
  destruct (thread_ctx s t SBuild HI Ht Ho) as (C1 & C2 & Hok & C4).
  pose proof HI as [H1 H2 H3 H4 H5 H6 H7 H8 H9 H10].
  set (s' := set_thread s2 t (SClear r)).
  assert (Q_us : s_user s2 = s_user s) by (unfold s2, s1; destruct proc; reflexivity).
  assert (P_next : s_next s' = S r) by (unfold s', set_thread, s2, s1; destruct t; [destruct proc; simpl; destruct (s_user s) as [[[? ?] ?]|]|destruct proc]; simpl; auto).
  assert (P_status : s_status s' = s_status s) by (unfold s', set_thread, s2, s1; destruct t; [destruct proc; simpl; destruct (s_user s) as [[[? ?] ?]|]|destruct proc]; simpl; auto).
  assert (P_cur : s_cur s' = s_cur s) by (unfold s', set_thread, s2, s1; destruct t; [destruct proc; simpl; destruct (s_user s) as [[[? ?] ?]|]|destruct proc]; simpl; auto).
  assert (P_map : s_map s' = s_map s) by (unfold s', set_thread, s2, s1; destruct t; [destruct proc; simpl; destruct (s_user s) as [[[? ?] ?]|]|destruct proc]; simpl; auto).
  assert (P_proc : s_proc s' = if proc then Some r else s_proc s) by (unfold s', set_thread, s2, s1; destruct t; [destruct proc; simpl; destruct (s_user s) as [[[? ?] ?]|]|destruct proc]; simpl; auto).
  assert (P_runs : s_runs s' = fupd (s_runs s) r new_run) by (unfold s', set_thread, s2, s1; destruct t; [destruct proc; simpl; destruct (s_user s) as [[[? ?] ?]|]|destruct proc]; simpl; auto).
  assert (P_cl : forall j, TC j <> t -> s_cleans s' j = s_cleans s j).
  { intros j Hj. unfold s', set_thread. destruct t as [|i].
    - unfold s2, s1. destruct proc; simpl; destruct (s_user s) as [[[? ?] ?]|]; reflexivity.
    - simpl. unfold fupd. destruct (Nat.eqb j i) eqn:E; [apply Nat.eqb_eq in E; subst; congruence|].
      unfold s2, s1. destruct proc; reflexivity. }
  assert (P_cli : forall i, t = TC i -> s_cleans s' i = Some (CStart (SClear r))).
  { intros i ->. unfold s'. simpl. unfold fupd. rewrite Nat.eqb_refl. reflexivity. }
  assert (P_us : t <> TU -> user_start s' = user_start s).
  { intros Hn. unfold s', set_thread. destruct t; [congruence|]. unfold user_start. simpl. rewrite Q_us. reflexivity. }
  assert (P_ut : t = TU -> user_start s' = Some (SClear r)).
  { intros ->. unfold s', set_thread. simpl in Ht. unfold user_start in Ht. rewrite <- Q_us in Ht.
    destruct (s_user s2) as [[[? ?] ?]|]; [reflexivity|discriminate]. }
  assert (Hold : forall j, j < s_next s -> fupd (s_runs s) r new_run j = s_runs s j).
  { intros j Hj. unfold fupd. destruct (Nat.eqb j r) eqn:E; [apply Nat.eqb_eq in E; unfold r in E; lia|reflexivity]. }
  assert (Hnew : fupd (s_runs s) r new_run r = new_run) by (unfold fupd; rewrite Nat.eqb_refl; reflexivity).
  assert (Hri : forall i, t = TC i -> i < r) by (intros i E; destruct (C4 i E) as [A _]; exact A).
  assert (Hnow : at_start s' (SClear r)).
  { destruct t as [|i]; [left; apply P_ut; reflexivity|right; exists i; apply P_cli; reflexivity]. }
  assert (Hat : forall pc, pc <> SBuild -> at_start s pc -> at_start s' pc).
  { intros pc Hpc [H|[j H]].
    - destruct t as [|i]; [simpl in Ht; congruence|]. left. rewrite P_us by discriminate. exact H.
    - destruct (tid_eq_dec (TC j) t) as [E|E].
      + subst t. simpl in Ht. congruence.
      + right. exists j. rewrite (P_cl j E). exact H. }
  assert (Hhold : forall j, TC j <> t -> holder s' j = false).
  { intros j Hj. unfold holder. rewrite (P_cl j Hj), P_runs.
    destruct (Nat.lt_ge_cases j (s_next s)) as [A|A].
    - rewrite (Hold j A). apply C1. exact Hj.
    - rewrite (H8 j A). reflexivity. }
  assert (Hpre : pre_status s (nested_t t)) by exact Hok.
  assert (Hpre' : pre_status s' (nested_t t)) by (unfold pre_status in *; rewrite P_status; exact Hpre).
  constructor.
  - intros a b Ha Hb.
    destruct (tid_eq_dec (TC a) t) as [Ea|Ea]; [|rewrite (Hhold a Ea) in Ha; discriminate].
    destruct (tid_eq_dec (TC b) t) as [Eb|Eb]; [|rewrite (Hhold b Eb) in Hb; discriminate].
    congruence.
  - intros Hu a. destruct (tid_eq_dec (TC a) t) as [Ea|Ea]; [|apply Hhold; exact Ea].
    exfalso. subst t. unfold user_holds in Hu. rewrite P_us in Hu by discriminate.
    specialize (C2 ltac:(discriminate)). unfold user_holds in C2. congruence.
  - intros pc Hpc. destruct t as [|i].
    + rewrite (P_ut eq_refl) in Hpc. inversion Hpc. subst pc. unfold spc_ok2. rewrite P_next, P_runs, Hnew.
      rewrite (P_cl r ltac:(discriminate)). repeat split; auto; try (apply H8; unfold r; lia).
    + rewrite P_us in Hpc by discriminate.
      destruct (user_idle_of_not_holding s (C2 ltac:(discriminate))) as [E|E]; rewrite E in Hpc; inversion Hpc. exact I.
  - intros j pc Hj. destruct (tid_eq_dec (TC j) t) as [Ej|Ej].
    + subst t. rewrite (P_cli j eq_refl) in Hj. inversion Hj. subst pc.
      destruct (C4 j eq_refl) as (A & B & C). unfold clean_ok2. rewrite P_next. split; [lia|].
      rewrite P_runs, (Hold j A). split; [exact B|]. split.
      * assert (Ecr : s_cleans s' r = None).
        { rewrite (P_cl r); [apply H8; unfold r; lia|]. intros E. inversion E. specialize (Hri j eq_refl). lia. }
        unfold spc_ok2. rewrite P_runs, Hnew, Ecr, P_next. repeat split; auto.
      * intros _. rewrite P_map. apply C. reflexivity.
    + rewrite (P_cl j Ej) in Hj. pose proof (H4 j pc Hj) as [Hlt Hc].
      pose proof (C1 j Ej) as Hh. unfold holder in Hh. rewrite Hj in Hh.
      unfold clean_ok2. rewrite P_next, P_runs, (Hold j Hlt), P_status, P_cur, P_map. split; [lia|].
      destruct pc as [| | |q0| |e|e|e]; try discriminate; try exact Hc.
      destruct Hc as [Hc1 Hc2]. split; [exact Hc1|]. rewrite Hh in Hc2 |- *.
      destruct Hc2 as [Hc2|Hc2]; [left|right]; (apply Hat; [discriminate|exact Hc2]).
  - intros Hu Hall. exfalso. destruct t as [|i].
    + unfold user_holds in Hu. rewrite (P_ut eq_refl) in Hu. discriminate.
    + specialize (Hall i). unfold holder in Hall. rewrite (P_cli i eq_refl) in Hall. discriminate.
  - intros m Hm. rewrite P_map in Hm. unfold map_owned2. destruct (H6 m Hm) as [pc [A B]].
    destruct (tid_eq_dec (TC m) t) as [Em|Em].
    + subst t. rewrite (P_cli m eq_refl). eexists. split; [reflexivity|exact I].
    + rewrite (P_cl m Em). exists pc. auto.
  - intros j Hj. rewrite P_next in Hj. unfold run_ok2. rewrite P_runs.
    destruct (Nat.eq_dec j r) as [->|Hne].
    + rewrite Hnew. simpl. rewrite P_cl; [apply H8; unfold r; lia|]. intros E. subst t. specialize (Hri r eq_refl). lia.
    + assert (Hj' : j < s_next s) by (unfold r in *; lia). rewrite (Hold j Hj').
      destruct (tid_eq_dec (TC j) t) as [Ej|Ej].
      * subst t. rewrite (P_cli j eq_refl). destruct (C4 j eq_refl) as (_ & B & _). rewrite B. discriminate.
      * rewrite (P_cl j Ej). apply H7. exact Hj'.
  - intros j Hj. rewrite P_next in Hj. rewrite P_cl; [apply H8; unfold r in Hj; lia|].
    intros E. subst t. specialize (Hri j eq_refl). lia.
  - intros j Hj. rewrite P_runs in Hj. rewrite P_next, P_runs. unfold fupd in *. destruct (Nat.eqb j r) eqn:E.
    + simpl in Hj. discriminate.
    + destruct (H9 j Hj) as [A B]. split; [unfold r; lia|].
      destruct B as [B|[B C]]; [left; exact B|right; split; [exact B|]].
      unfold live_witness in *. destruct C as [C|[C|C]]; [left|right; left|right; right]; apply Hat; auto; discriminate.
  - intros p Hp. rewrite P_proc in Hp. rewrite P_next, P_runs. destruct proc.
    + inversion Hp. subst p. split; [lia|]. rewrite Hnew. right. split; [reflexivity|]. exists (SClear r). auto.
    + destruct (H10 p Hp) as [A B]. split; [unfold r; lia|]. rewrite (Hold p A).
      destruct B as [B|[B [pc [C D]]]]; [left; exact B|right; split; [exact B|]]. exists pc. split; [exact C|].
      apply Hat; [|exact D]. intros E. subst pc. discriminate.
Qed.

(* while a thread owns the lifecycle, every other Start stands at its status check *)
Lemma other_threads s t q :
  Inv2 s -> thread_at s t q -> owning t q -> forall pc, at_start s pc -> pc = q \/ pc = SCheck.
Proof.
  intros HI Ht Ho pc Hpc. destruct (thread_ctx s t q HI Ht Ho) as (C1 & C2 & _ & _).
  apply at_start_thread in Hpc. destruct Hpc as [t2 Ht2].
  destruct (tid_eq_dec t2 t) as [->|Hne]; [left; eapply thread_at_fun; eauto|].
  destruct t2 as [|j]; simpl in Ht2.
  - right. specialize (C2 ltac:(congruence)).
    destruct (user_idle_of_not_holding s C2) as [E|E]; rewrite E in Ht2; congruence.
  - exfalso. pose proof (C1 j Hne) as Hh. unfold holder in Hh. rewrite Ht2 in Hh. discriminate.
Qed.

Lemma spc_pre s q n : spc_ok2 s q n -> (n = true \/ q <> SCheck) -> pre_status s n.
Proof.
  intros H Ho. destruct q; simpl in H; try contradiction; try (destruct H as [H _]; exact H); try exact H.
  destruct n; [exact H|]. destruct Ho; congruence.
Qed.

Definition pre_spawn (pc : spc) : bool :=
  match pc with SBuild | SClear _ | SOpenA _ | SOpenSrc _ | SOpenDlq _ | SRollback _ | SSpawn _ => true | _ => false end.

Definition end_fail (s : st) (t : tid) (x : retc) : st :=
  match t with
  | TU => match s_user s with Some (id, k, _) => with_user s (Some (id, k, URet x)) | None => s end
  | TC i => set_clean s i (Some CFailed)
  end.

(* a Start that fails before anything was published (a guard is taken, an open fails) *)
Lemma thread_abort_Inv2 s s1 t q x :
  Inv2 s -> thread_at s t q -> owning t q -> pre_spawn q = true ->
  s_user s1 = s_user s -> s_next s1 = s_next s -> s_status s1 = s_status s -> s_cur s1 = s_cur s ->
  s_map s1 = s_map s -> s_cleans s1 = s_cleans s ->
  (forall j, r_phase (s_runs s1 j) = r_phase (s_runs s j) /\ r_started (s_runs s1 j) = r_started (s_runs s j)
             /\ (src_open (s_runs s1 j) = true -> src_open (s_runs s j) = true)) ->
  (forall r, pc_run q = Some r -> live_pc q = true -> src_open (s_runs s1 r) = false) ->
  (forall p, s_proc s1 = Some p -> s_proc s = Some p /\ pc_run q <> Some p) ->
  Inv2 (end_fail s1 t x).
Proof.
  intros HI Ht Ho Hps Eus Enx Est Ecu Emp Ecl Hru Hclose Hpr.
  destruct (thread_ctx s t q HI Ht Ho) as (C1 & C2 & Hok & C4).
  assert (Hown : nested_t t = true \/ q <> SCheck) by exact Ho.
  pose proof (spc_pre s q _ Hok Hown) as Hpre.
  pose proof HI as [H1 H2 H3 H4 H5 H6 H7 H8 H9 H10].
  set (s' := end_fail s1 t x).
  assert (P_next : s_next s' = s_next s) by (unfold s', end_fail; destruct t; [destruct (s_user s1) as [[[? ?] ?]|]|]; simpl; auto).
  assert (P_status : s_status s' = s_status s) by (unfold s', end_fail; destruct t; [destruct (s_user s1) as [[[? ?] ?]|]|]; simpl; auto).
  assert (P_cur : s_cur s' = s_cur s) by (unfold s', end_fail; destruct t; [destruct (s_user s1) as [[[? ?] ?]|]|]; simpl; auto).
  assert (P_map : s_map s' = s_map s) by (unfold s', end_fail; destruct t; [destruct (s_user s1) as [[[? ?] ?]|]|]; simpl; auto).
  assert (P_proc : s_proc s' = s_proc s1) by (unfold s', end_fail; destruct t; [destruct (s_user s1) as [[[? ?] ?]|]|]; simpl; auto).
  assert (P_runs : s_runs s' = s_runs s1) by (unfold s', end_fail; destruct t; [destruct (s_user s1) as [[[? ?] ?]|]|]; simpl; auto).
  assert (P_cl : forall j, TC j <> t -> s_cleans s' j = s_cleans s j).
  { intros j Hj. unfold s', end_fail. destruct t as [|i]; [destruct (s_user s1) as [[[? ?] ?]|]; simpl; rewrite Ecl; reflexivity|].
    simpl. unfold fupd. destruct (Nat.eqb j i) eqn:E; [apply Nat.eqb_eq in E; subst; congruence|rewrite Ecl; reflexivity]. }
  assert (P_cli : forall i, t = TC i -> s_cleans s' i = Some CFailed).
  { intros i ->. unfold s'. simpl. unfold fupd. rewrite Nat.eqb_refl. reflexivity. }
  assert (P_us : t <> TU -> user_start s' = user_start s).
  { intros Hn. unfold s', end_fail. destruct t; [congruence|]. unfold user_start. simpl. rewrite Eus. reflexivity. }
  assert (P_ut : t = TU -> user_start s' = None).
  { intros ->. unfold s', end_fail. simpl in Ht. unfold user_start in Ht |- *. rewrite <- Eus in Ht.
    destruct (s_user s1) as [[[? ?] ?]|]; [reflexivity|discriminate]. }
  assert (P_uh : user_holds s' = false).
  { unfold user_holds. destruct t as [|i]; [rewrite (P_ut eq_refl); reflexivity|].
    rewrite P_us by discriminate. apply (C2 ltac:(discriminate)). }
  assert (Hat : forall pc, pc <> q -> at_start s pc -> at_start s' pc).
  { intros pc Hpc [H|[j H]].
    - destruct t as [|i]; [simpl in Ht; congruence|]. left. rewrite P_us by discriminate. exact H.
    - destruct (tid_eq_dec (TC j) t) as [E|E].
      + subst t. simpl in Ht. congruence.
      + right. exists j. rewrite (P_cl j E). exact H. }
  assert (Hhold : forall j, TC j <> t -> holder s' j = false).
  { intros j Hj. unfold holder. rewrite (P_cl j Hj), P_runs. rewrite (proj1 (proj2 (Hru j))). apply C1. exact Hj. }
  assert (Hqn : forall j, q <> SPublish j /\ q <> SStatus j) by (intros j; split; intros E; subst q; discriminate).
  constructor.
  - intros a b Ha Hb.
    destruct (tid_eq_dec (TC a) t) as [Ea|Ea]; [|rewrite (Hhold a Ea) in Ha; discriminate].
    destruct (tid_eq_dec (TC b) t) as [Eb|Eb]; [|rewrite (Hhold b Eb) in Hb; discriminate].
    congruence.
  - rewrite P_uh. discriminate.
  - intros pc Hpc. destruct t as [|i].
    + rewrite (P_ut eq_refl) in Hpc. discriminate.
    + rewrite P_us in Hpc by discriminate.
      destruct (user_idle_of_not_holding s (C2 ltac:(discriminate))) as [E|E]; rewrite E in Hpc; inversion Hpc. exact I.
  - intros j pc Hj. destruct (tid_eq_dec (TC j) t) as [Ej|Ej].
    + subst t. rewrite (P_cli j eq_refl) in Hj. inversion Hj. subst pc.
      destruct (C4 j eq_refl) as (A & B & C). unfold clean_ok2. rewrite P_next, P_runs, P_status, P_map.
      rewrite (proj1 (Hru j)). repeat split; auto. apply C. destruct q; simpl in Hps |- *; congruence.
    + rewrite (P_cl j Ej) in Hj. pose proof (H4 j pc Hj) as [Hlt Hc].
      pose proof (C1 j Ej) as Hh. unfold holder in Hh. rewrite Hj in Hh.
      unfold clean_ok2. rewrite P_next, P_runs, P_status, P_cur, P_map. split; [exact Hlt|].
      destruct (Hru j) as (Rp & Rs & _). unfold alive. rewrite Rp, Rs.
      destruct pc as [| | |q0| |e|e|e]; try discriminate; try exact Hc.
      destruct Hc as [Hc1 Hc2]. split; [exact Hc1|]. rewrite Hh in Hc2 |- *.
      destruct Hc2 as [Hc2|Hc2]; [left|right]; (apply Hat; [|exact Hc2]); intros E; destruct (Hqn j); congruence.
  - intros _ Hall. rewrite P_status. destruct t as [|i].
    + exact Hpre.
    + exfalso. specialize (Hall i). unfold holder in Hall. rewrite (P_cli i eq_refl) in Hall. discriminate.
  - intros m Hm. rewrite P_map in Hm. unfold map_owned2. destruct (H6 m Hm) as [pc [A B]].
    destruct (tid_eq_dec (TC m) t) as [Em|Em].
    + subst t. rewrite (P_cli m eq_refl). eexists. split; [reflexivity|exact I].
    + rewrite (P_cl m Em). exists pc. auto.
  - intros j Hj. rewrite P_next in Hj. unfold run_ok2. rewrite P_runs, (proj1 (Hru j)).
    destruct (tid_eq_dec (TC j) t) as [Ej|Ej].
    + subst t. rewrite (P_cli j eq_refl). destruct (C4 j eq_refl) as (_ & B & _). rewrite B. discriminate.
    + rewrite (P_cl j Ej). apply H7. exact Hj.
  - intros j Hj. rewrite P_next in Hj. rewrite P_cl; [apply H8; exact Hj|].
    intros E. subst t. destruct (C4 j eq_refl) as (A & _). lia.
  - intros j Hj. rewrite P_runs in Hj. rewrite P_next, P_runs. destruct (Hru j) as (Rp & _ & Ro). rewrite Rp.
    destruct (H9 j (Ro Hj)) as [A B]. split; [exact A|].
    destruct B as [B|[B C]]; [left; exact B|right; split; [exact B|]].
    apply live_witness_pc in C. destruct C as [pc [D1 [D2 D3]]]. apply live_witness_pc.
    exists pc. repeat split; auto. apply Hat; [|exact D3]. intros E. subst pc.
    rewrite (Hclose j D2 D1) in Hj. discriminate.
  - intros p Hp. rewrite P_proc in Hp. rewrite P_next, P_runs. destruct (Hpr p Hp) as [A B]. rewrite (proj1 (Hru p)).
    destruct (H10 p A) as [C D]. split; [exact C|].
    destruct D as [D|[D [pc [E F]]]]; [left; exact D|right; split; [exact D|]]. exists pc. split; [exact E|].
    apply Hat; [|exact F]. intros G. subst pc. congruence.
Qed.

(* the status write: the Start returns nil, the cleanup goroutine of the new run takes over *)
Definition end_ok (s : st) (t : tid) : st :=
  match t with
  | TU => match s_user s with Some (id, k, _) => with_user s (Some (id, k, URet RetNil)) | None => s end
  | TC i => finish_clean s i (s_runs s i) ResNil
  end.

Lemma thread_finish_Inv2 s t r :
  Inv2 s -> thread_at s t (SStatus r) ->
  let s1 := upd_run (with_cur (with_status s Running) (Some r)) r (rw_started (s_runs s r)) in
  Inv2 (end_ok s1 t).
Proof.
  intros HI Ht s1.
  assert (Ho : owning t (SStatus r)) by (right; discriminate).
  destruct (thread_ctx s t _ HI Ht Ho) as (C1 & C2 & Hok & C4).
  pose proof (other_threads s t _ HI Ht Ho) as C5.
  destruct Hok as (Hpre & Hmp & Hlt & Hal & Hcr & Hsr).
  pose proof HI as [H1 H2 H3 H4 H5 H6 H7 H8 H9 H10].
  assert (Hri : forall i, t = TC i -> r <> i).
  { intros i -> E. subst i. simpl in Ht. congruence. }
  set (s' := end_ok s1 t).
  assert (P_next : s_next s' = s_next s) by (unfold s', end_ok, s1; destruct t; [simpl; destruct (s_user s) as [[[? ?] ?]|]|]; simpl; auto).
  assert (P_status : s_status s' = Running) by (unfold s', end_ok, s1; destruct t; [simpl; destruct (s_user s) as [[[? ?] ?]|]|]; simpl; auto).
  assert (P_cur : s_cur s' = Some r) by (unfold s', end_ok, s1; destruct t; [simpl; destruct (s_user s) as [[[? ?] ?]|]|]; simpl; auto).
  assert (P_map : s_map s' = Some r) by (unfold s', end_ok, s1; destruct t; [simpl; destruct (s_user s) as [[[? ?] ?]|]|]; simpl; auto).
  assert (P_proc : s_proc s' = s_proc s) by (unfold s', end_ok, s1; destruct t; [simpl; destruct (s_user s) as [[[? ?] ?]|]|]; simpl; auto).
  assert (P_run_r : s_runs s' r = rw_started (s_runs s r)).
  { unfold s', end_ok, s1. destruct t as [|i]; [simpl; destruct (s_user s) as [[[? ?] ?]|]; simpl; unfold fupd; rewrite Nat.eqb_refl; reflexivity|].
    simpl. unfold fupd. pose proof (Hri i eq_refl) as Hn. apply Nat.eqb_neq in Hn. rewrite Hn, Nat.eqb_refl. reflexivity. }
  assert (P_run_o : forall j, j <> r -> TC j <> t -> s_runs s' j = s_runs s j).
  { intros j Hj Ht'. unfold s', end_ok, s1. apply Nat.eqb_neq in Hj.
    destruct t as [|i]; [simpl; destruct (s_user s) as [[[? ?] ?]|]; simpl; unfold fupd; rewrite Hj; reflexivity|].
    simpl. unfold fupd. destruct (Nat.eqb j i) eqn:E; [apply Nat.eqb_eq in E; subst; congruence|]. rewrite Hj. reflexivity. }
  assert (P_run_i : forall i, t = TC i -> r_phase (s_runs s' i) = PDead /\ src_open (s_runs s' i) = src_open (s_runs s i)).
  { intros i ->. unfold s'. simpl. unfold fupd. rewrite Nat.eqb_refl. pose proof (Hri i eq_refl) as Hn.
    assert (E : (i =? r) = false) by (apply Nat.eqb_neq; congruence). rewrite E. split; reflexivity. }
  assert (P_cl : forall j, TC j <> t -> s_cleans s' j = s_cleans s j).
  { intros j Hj. unfold s', end_ok, s1. destruct t as [|i]; [simpl; destruct (s_user s) as [[[? ?] ?]|]; reflexivity|].
    simpl. unfold fupd. destruct (Nat.eqb j i) eqn:E; [apply Nat.eqb_eq in E; subst; congruence|reflexivity]. }
  assert (P_cli : forall i, t = TC i -> s_cleans s' i = None).
  { intros i ->. unfold s'. simpl. unfold fupd. rewrite Nat.eqb_refl. reflexivity. }
  assert (P_uh : user_holds s' = false).
  { unfold user_holds, user_start. destruct t as [|i].
    - simpl in Ht. unfold user_start in Ht. unfold s', end_ok, s1. simpl.
      destruct (s_user s) as [[[? ?] ?]|]; [reflexivity|discriminate].
    - specialize (C2 ltac:(discriminate)). unfold user_holds, user_start in C2. unfold s'. simpl. exact C2. }
  assert (P_ust : forall pc, user_start s' = Some pc -> pc = SCheck).
  { intros pc Hpc. unfold user_holds in P_uh. rewrite Hpc in P_uh. destruct pc; try discriminate. reflexivity. }
  assert (Hrt : TC r <> t) by (intros E; symmetry in E; eapply Hri; eauto).
  assert (Hhr : holder s' r = true).
  { unfold holder. rewrite (P_cl r Hrt), Hcr, P_run_r. reflexivity. }
  assert (Hhold : forall j, j <> r -> holder s' j = false).
  { intros j Hj. destruct (tid_eq_dec (TC j) t) as [E|E].
    - unfold holder. rewrite (P_cli j (eq_sym E)). reflexivity.
    - unfold holder. rewrite (P_cl j E), (P_run_o j Hj E). apply C1. exact E. }
  assert (Hnoat : forall pc, at_start s pc -> pc = SStatus r \/ pc = SCheck) by exact C5.
  constructor.
  - intros a b Ha Hb.
    destruct (Nat.eq_dec a r) as [->|Na]; [|rewrite (Hhold a Na) in Ha; discriminate].
    destruct (Nat.eq_dec b r) as [->|Nb]; [|rewrite (Hhold b Nb) in Hb; discriminate]. reflexivity.
  - rewrite P_uh. discriminate.
  - intros pc Hpc. rewrite (P_ust pc Hpc). exact I.
  - intros j pc Hj. destruct (tid_eq_dec (TC j) t) as [Ej|Ej]; [rewrite (P_cli j (eq_sym Ej)) in Hj; discriminate|].
    rewrite (P_cl j Ej) in Hj. unfold clean_ok2. rewrite P_next, P_status, P_map, P_cur.
    destruct (Nat.eq_dec j r) as [->|Nj].
    + rewrite Hcr in Hj. inversion Hj. subst pc. rewrite P_run_r. simpl. split; [exact Hlt|].
      split; [exact Hal|]. auto.
    + pose proof (H4 j pc Hj) as [Hl Hc]. rewrite (P_run_o j Nj Ej). split; [exact Hl|].
      pose proof (C1 j Ej) as Hh. unfold holder in Hh. rewrite Hj in Hh.
      destruct pc as [| | |q0| |e|e|e]; try discriminate; try exact Hc.
      * exfalso. destruct Hc as [_ Hc]. rewrite Hh in Hc.
        destruct Hc as [Hc|Hc]; destruct (Hnoat _ Hc) as [E|E]; inversion E; congruence.
      * destruct Hc as [Hc1 Hc2]. split; [exact Hc1|]. congruence.
  - intros _ Hall. rewrite (Hall r) in Hhr. discriminate.
  - intros m Hm. rewrite P_map in Hm. inversion Hm. subst m. unfold map_owned2. rewrite (P_cl r Hrt), Hcr.
    exists CWait. auto.
  - intros j Hj. rewrite P_next in Hj. unfold run_ok2.
    destruct (tid_eq_dec (TC j) t) as [Ej|Ej].
    + destruct (P_run_i j (eq_sym Ej)) as [A _]. rewrite A. apply P_cli. auto.
    + rewrite (P_cl j Ej). destruct (Nat.eq_dec j r) as [->|Nj].
      * rewrite P_run_r. simpl. rewrite Hcr. destruct Hal as [A|A]; rewrite A; discriminate.
      * rewrite (P_run_o j Nj Ej). apply H7. exact Hj.
  - intros j Hj. rewrite P_next in Hj. rewrite P_cl; [apply H8; exact Hj|].
    intros E. subst t. destruct (C4 j eq_refl) as (A & _). lia.
  - intros j Hj. rewrite P_next.
    assert (Hoj : src_open (s_runs s j) = true /\ r_phase (s_runs s' j) = r_phase (s_runs s j)).
    { destruct (tid_eq_dec (TC j) t) as [Ej|Ej].
      - destruct (P_run_i j (eq_sym Ej)) as [A B]. rewrite B in Hj. exfalso.
        destruct (C4 j (eq_sym Ej)) as (_ & C & _). destruct (H9 j Hj) as [_ [D|[D _]]]; congruence.
      - destruct (Nat.eq_dec j r) as [->|Nj].
        + rewrite P_run_r in Hj |- *. simpl in *. auto.
        + rewrite (P_run_o j Nj Ej) in Hj |- *. auto. }
    destruct Hoj as [Ho1 Ho2]. rewrite Ho2. destruct (H9 j Ho1) as [A B]. split; [exact A|].
    destruct B as [B|[B C]]; [left; exact B|exfalso].
    apply live_witness_pc in C. destruct C as [pc [D1 [D2 D3]]].
    destruct (Hnoat pc D3) as [E|E]; subst pc; discriminate.
  - intros p Hp. rewrite P_proc in Hp. rewrite P_next. destruct (H10 p Hp) as [A B]. split; [exact A|].
    destruct B as [B|[B [pc [C D]]]].
    + left. destruct (tid_eq_dec (TC p) t) as [Ep|Ep].
      * exfalso. destruct (C4 p (eq_sym Ep)) as (_ & E & _). congruence.
      * destruct (Nat.eq_dec p r) as [->|Np]; [rewrite P_run_r; exact B|rewrite (P_run_o p Np Ep); exact B].
    + exfalso. destruct (Hnoat pc D) as [E|E]; subst pc; simpl in C; inversion C. subst p.
      destruct Hal as [F|F]; congruence.
Qed.

(* ------------------------------------------------------------------ *)
(* one step of Start, executed by thread t                             *)
Lemma rel_proc_same s r :
  s_user (rel_proc s r) = s_user s /\ s_next (rel_proc s r) = s_next s /\ s_status (rel_proc s r) = s_status s
  /\ s_cur (rel_proc s r) = s_cur s /\ s_map (rel_proc s r) = s_map s /\ s_cleans (rel_proc s r) = s_cleans s
  /\ s_runs (rel_proc s r) = s_runs s /\ s_guard (rel_proc s r) = s_guard s.
Proof. unfold rel_proc. destruct (onat_eqb (s_proc s) (Some r)); repeat split. Qed.

Lemma rel_proc_proc s r p : s_proc (rel_proc s r) = Some p -> s_proc s = Some p /\ p <> r.
Proof.
  unfold rel_proc. destruct (onat_eqb (s_proc s) (Some r)) eqn:E; simpl; [discriminate|].
  intros H. split; [exact H|]. intros ->. rewrite H in E. simpl in E. rewrite Nat.eqb_refl in E. discriminate.
Qed.

Lemma set_thread_user s id k x pc :
  s_user s = Some (id, k, x) -> set_thread s TU pc = with_user s (Some (id, k, UStart pc)).
Proof. intros H. unfold set_thread. rewrite H. reflexivity. Qed.

Lemma end_fail_user s id k x r : s_user s = Some (id, k, x) -> end_fail s TU r = with_user s (Some (id, k, URet r)).
Proof. intros H. unfold end_fail. rewrite H. reflexivity. Qed.

Lemma end_ok_user s id k x : s_user s = Some (id, k, x) -> end_ok s TU = with_user s (Some (id, k, URet RetNil)).
Proof. intros H. unfold end_ok. rewrite H. reflexivity. Qed.

Definition start_result (s1 : st) (t : tid) (res : sres) : Prop :=
  match res with
  | SNext s1 q' _ => Inv2 (set_thread s1 t q')
  | SFin s1 RetNil _ => Inv2 (end_ok s1 t)
  | SFin s1 x _ => Inv2 (end_fail s1 t x)
  | SStuck => True
  end.

(* projections of set_thread that the side conditions need *)
Lemma set_thread_proj s t pc :
  s_next (set_thread s t pc) = s_next s /\ s_status (set_thread s t pc) = s_status s
  /\ s_map (set_thread s t pc) = s_map s /\ s_runs (set_thread s t pc) = s_runs s.
Proof. unfold set_thread. destruct t; [destruct (s_user s) as [[[? ?] ?]|]|]; repeat split. Qed.

Lemma set_thread_cleans s t pc j : TC j <> t -> s_cleans (set_thread s t pc) j = s_cleans s j.
Proof.
  intros H. unfold set_thread. destruct t as [|i]; [destruct (s_user s) as [[[? ?] ?]|]; reflexivity|].
  simpl. unfold fupd. destruct (Nat.eqb j i) eqn:E; [apply Nat.eqb_eq in E; subst; congruence|reflexivity].
Qed.

Lemma start_step_thread c s t q ch :
  v2_repaired c -> Inv2 s -> thread_at s t q -> owning t q ->
  start_result s t (start_step c s q ch).
Proof.
  intros [Hv Hcad Hpo Hdo Hsf] HI Ht Ho.
  destruct (thread_ctx s t q HI Ht Ho) as (C1 & C2 & Hok & C4).
  pose proof (spc_pre s q _ Hok Ho) as Hpre.
  assert (Hrt : forall r, pc_run q = Some r -> TC r <> t).
  { intros r Hr E. subst t. simpl in Ht.
    destruct q; simpl in Hr; inversion Hr; subst; simpl in Hok;
      repeat match goal with H : _ /\ _ |- _ => destruct H end; try contradiction; congruence. }
  (* the new position's condition, for a Start position that talks about run r *)
  assert (Hspc : forall s1 q', pc_run q' = Some (match pc_run q with Some r => r | None => 0 end) ->
            pc_run q <> None ->
            spc_ok2 (set_thread s1 t q') q' (nested_t t) <->
            match q' with
            | SClear r | SOpenA r | SOpenSrc r | SOpenDlq r | SRollback r | SSpawn r =>
                pre_status s1 (nested_t t) /\ r < s_next s1 /\ r_phase (s_runs s1 r) = PNew /\ s_cleans s1 r = None
                /\ r_started (s_runs s1 r) = false
            | SPublish r => pre_status s1 (nested_t t) /\ r < s_next s1 /\ alive (s_runs s1 r) /\ s_cleans s1 r = Some CWait
                            /\ r_started (s_runs s1 r) = false
            | SStatus r => pre_status s1 (nested_t t) /\ s_map s1 = Some r /\ r < s_next s1 /\ alive (s_runs s1 r)
                           /\ s_cleans s1 r = Some CWait /\ r_started (s_runs s1 r) = false
            | SRegister _ => False
            | _ => True
            end).
  { intros s1 q' Hr Hn. destruct (pc_run q) as [r|] eqn:Eq; [|congruence].
    destruct (set_thread_proj s1 t q') as (B1 & B2 & B3 & B4).
    pose proof (set_thread_cleans s1 t q' r (Hrt r eq_refl)) as B5.
    destruct q'; simpl in Hr; inversion Hr; subst; unfold spc_ok2, pre_status; rewrite ?B1, ?B2, ?B3, ?B4, ?B5; tauto. }
  unfold start_result.
  destruct q as [| |r|r|r|r|r|r|r|r|r]; simpl start_step; rewrite ?Hsf; simpl andb; cbv iota; rewrite ?Hv.
  - (* SCheck: only a nested Start owns here *)
    destruct Ho as [Ho|Ho]; [|congruence]. destruct t as [|i]; [discriminate|]. simpl in Hok.
    rewrite Hok. simpl.
    apply (thread_move_Inv2 s s (TC i) SCheck SBuild); auto; try discriminate; try (left; reflexivity).
    all: try (intros r Hr; discriminate).
    all: try (simpl; unfold pre_status; simpl; exact Hok).
  - (* SBuild *)
    destruct (s_guard s) eqn:Eg.
    + apply (thread_abort_Inv2 s s t SBuild RetErr); auto; try discriminate.
      all: intros p Hp; split; [exact Hp|discriminate].
    + destruct (c_proc c && negb (onat_eqb (s_proc s) None)) eqn:Ep.
      * apply (thread_abort_Inv2 s s t SBuild RetErr); auto; try discriminate.
        all: intros p Hp; split; [exact Hp|discriminate].
      * apply (thread_build_Inv2 s t (c_proc c)); auto.
        intros Hp. rewrite Hp in Ep. simpl in Ep. apply Bool.negb_false_iff in Ep. apply onat_eqb_eq in Ep. exact Ep.
  - (* SClear r -> SOpenA r *)
    simpl in Hok. destruct Hok as (A1 & A2 & A3 & A4 & A5).
    apply (thread_move_Inv2 s (with_terr s None) t (SClear r) (SOpenA r)); auto; try discriminate; try (left; reflexivity).
    all: try (apply Hspc; [reflexivity|discriminate|]; unfold pre_status in *; simpl; repeat split; auto; fail).
    all: intros r0 Hr; inversion Hr; subst r0; simpl; repeat split; auto; try discriminate.
  - (* SOpenA r *)
    simpl in Hok. destruct Hok as (A1 & A2 & A3 & A4 & A5).
    destruct (rel_proc_same s r) as (R1 & R2 & R3 & R4 & R5 & R6 & R7 & R8).
    assert (Habort : Inv2 (end_fail (rel_proc s r) t RetErr)).
    { apply (thread_abort_Inv2 s (rel_proc s r) t (SOpenA r) RetErr); auto.
      - intros j. rewrite R7. auto.
      - intros r0 _ Hl. discriminate.
      - intros p Hp. destruct (rel_proc_proc s r p Hp) as [B1 B2]. split; [exact B1|]. simpl. congruence. }
    destruct ch as [|[|[|ch]]].
    + apply (thread_move_Inv2 s s t (SOpenA r) (SOpenSrc r)); auto; try discriminate; try (left; reflexivity).
      all: try (apply Hspc; [reflexivity|discriminate|]; unfold pre_status in *; simpl; repeat split; auto; fail).
      all: intros r0 Hr; inversion Hr; subst r0; simpl; repeat split; auto; try discriminate.
    + destruct (c_proc c); [|exact I]. rewrite Hpo. exact Habort.
    + exact Habort.
    + match goal with |- context [existsb ?f ?l] => destruct (existsb f l) end; [exact Habort|exact I].
  - (* SOpenSrc r *)
    simpl in Hok. destruct Hok as (A1 & A2 & A3 & A4 & A5).
    destruct (rel_proc_same s r) as (R1 & R2 & R3 & R4 & R5 & R6 & R7 & R8).
    assert (Habort : Inv2 (end_fail (rel_proc s r) t RetErr)).
    { apply (thread_abort_Inv2 s (rel_proc s r) t (SOpenSrc r) RetErr); auto.
      - intros j. rewrite R7. auto.
      - intros r0 _ Hl. discriminate.
      - intros p Hp. destruct (rel_proc_proc s r p Hp) as [B1 B2]. split; [exact B1|]. simpl. congruence. }
    destruct (get_run s r) as [x|] eqn:Er; [|exact I]. apply get_run_some in Er. subst x.
    destruct ch as [|ch]; [|exact Habort].
    destruct (s_guard s) eqn:Eg; [exact Habort|].
    set (s1 := upd_run (with_guard s (Some r)) r (rw_src (s_runs s r) SOpen)).
    assert (Es1 : s_runs s1 r = rw_src (s_runs s r) SOpen) by (unfold s1; simpl; unfold fupd; rewrite Nat.eqb_refl; reflexivity).
    apply (thread_move_Inv2 s s1 t (SOpenSrc r) (SOpenDlq r)); auto; try discriminate; try (left; reflexivity).
    all: try (apply Hspc; [reflexivity|discriminate|]; rewrite Es1; unfold pre_status in *; simpl; repeat split; auto; fail).
    + intros j Hj. unfold s1. simpl. unfold fupd. destruct (Nat.eqb j r) eqn:E; [apply Nat.eqb_eq in E; subst; simpl in Hj; congruence|auto].
    + intros r0 Hr. inversion Hr. subst r0. rewrite Es1. simpl. repeat split; auto; try discriminate.
  - (* SOpenDlq r *)
    simpl in Hok. destruct Hok as (A1 & A2 & A3 & A4 & A5).
    destruct ch as [|ch].
    + apply (thread_move_Inv2 s s t (SOpenDlq r) (SSpawn r)); auto; try discriminate; try (left; reflexivity).
      all: try (apply Hspc; [reflexivity|discriminate|]; unfold pre_status in *; simpl; repeat split; auto; fail).
      all: intros r0 Hr; inversion Hr; subst r0; simpl; repeat split; auto; try discriminate.
    + rewrite Hdo.
      apply (thread_move_Inv2 s s t (SOpenDlq r) (SRollback r)); auto; try discriminate; try (left; reflexivity).
      all: try (apply Hspc; [reflexivity|discriminate|]; unfold pre_status in *; simpl; repeat split; auto; fail).
      all: intros r0 Hr; inversion Hr; subst r0; simpl; repeat split; auto; try discriminate.
  - (* SRollback r *)
    simpl in Hok. destruct Hok as (A1 & A2 & A3 & A4 & A5).
    destruct (get_run s r) as [x|] eqn:Er; [|exact I]. apply get_run_some in Er. subst x.
    destruct (src_open (s_runs s r) && onat_eqb (s_guard s) (Some r)) eqn:Ec; [|exact I].
    set (s0 := upd_run (with_guard s None) r (rw_src (s_runs s r) SClosed)).
    destruct (rel_proc_same s0 r) as (R1 & R2 & R3 & R4 & R5 & R6 & R7 & R8).
    apply (thread_abort_Inv2 s (rel_proc s0 r) t (SRollback r) RetErr); auto.
    + intros j. rewrite R7. unfold s0. simpl. unfold fupd. destruct (Nat.eqb j r) eqn:E; [|auto].
      apply Nat.eqb_eq in E. subst j. simpl. repeat split; auto; try discriminate.
    + intros r0 Hr _. inversion Hr. subst r0. rewrite R7. unfold s0. simpl. unfold fupd. rewrite Nat.eqb_refl. reflexivity.
    + intros p Hp. destruct (rel_proc_proc s0 r p Hp) as [B1 B2]. split; [exact B1|]. simpl. congruence.
  - (* SSpawn r *)
    simpl in Hok. destruct Hok as (A1 & A2 & A3 & A4 & A5).
    destruct (get_run s r) as [x|] eqn:Er; [|exact I]. apply get_run_some in Er. subst x.
    set (s1 := set_clean (upd_run s r (rw_phase (s_runs s r) PLive)) r (Some CWait)).
    assert (Es1 : s_runs s1 r = rw_phase (s_runs s r) PLive) by (unfold s1; simpl; unfold fupd; rewrite Nat.eqb_refl; reflexivity).
    assert (Ec1 : s_cleans s1 r = Some CWait) by (unfold s1; simpl; unfold fupd; rewrite Nat.eqb_refl; reflexivity).
    apply (thread_move_Inv2 s s1 t (SSpawn r) (SPublish r)); auto; try discriminate; try (left; reflexivity).
    all: try (apply Hspc; [reflexivity|discriminate|]; rewrite Es1, Ec1; unfold alive, pre_status in *; simpl; repeat split; auto; fail).
    + intros j Hj. unfold s1. simpl. unfold fupd. destruct (Nat.eqb j r) eqn:E; [apply Nat.eqb_eq in E; subst; simpl in Hj; congruence|auto].
    + intros r0 Hr. inversion Hr. subst r0. rewrite Es1, Ec1. simpl. repeat split; auto; try (intros _; right; reflexivity).
  - (* SPublish r *)
    simpl in Hok. destruct Hok as (A1 & A2 & A3 & A4 & A5).
    apply (thread_move_Inv2 s (with_map s (Some r)) t (SPublish r) (SStatus r)); auto; try discriminate.
    all: try (apply Hspc; [reflexivity|discriminate|]; unfold pre_status in *; simpl; repeat split; auto; fail).
    all: try (right; exists r; auto; fail).
    all: intros r0 Hr; inversion Hr; subst r0; simpl; repeat split; auto; try discriminate.
  - (* SStatus r *)
    simpl in Hok. destruct Hok as (A1 & A2 & A3 & A4 & A5 & A6).
    assert (Eg : get_run (with_cur (with_status s Running) (Some r)) r = Some (s_runs s r)).
    { unfold get_run. simpl. apply Nat.ltb_lt in A3. rewrite A3. reflexivity. }
    rewrite Eg. apply (thread_finish_Inv2 s t r HI Ht).
  - (* SRegister: not a v2 position *)
    simpl in Hok. contradiction.
Qed.

Lemma start_step_user c s q ch :
  match start_step c s q ch with
  | SNext s1 _ _ | SFin s1 _ _ => s_user s1 = s_user s
  | SStuck => True
  end.
Proof.
  destruct (start_step c s q ch) eqn:H; [| |exact I];
    destruct q; simpl in H; split_hyp H; inv_eqs; unfold rel_proc; simpl;
    repeat match goal with |- context [if ?x then _ else _] => destruct x; simpl end; reflexivity.
Qed.

Lemma user_step_Inv2 c s ch s' l :
  v2_repaired c -> Inv2 s -> polite s (AUser ch) -> user_step c s ch = Some (s', l) -> Inv2 s'.
Proof.
  intros Hc HI Hpol H. pose proof (v2_engine c Hc) as Hv.
  destruct (s_user s) as [[[id k] pc]|] eqn:Hu; [|unfold user_step in H; rewrite Hu in H; discriminate].
  destruct pc as [q| |m sw|r m sw|r m sw| |r| |x].
  2-9: eapply user_step_nonstart_Inv2; eauto; intros q0; discriminate.
  unfold user_step in H. rewrite Hu in H.
  assert (Ht : thread_at s TU q) by (simpl; unfold user_start; rewrite Hu; reflexivity).
  destruct (spc_eq_dec q SCheck) as [->|Hq].
  - simpl in H. destruct (status_eqb (s_status s) Running) eqn:Er; inversion H; subst; clear H.
    + eapply Inv2_idle_user; [exact HI| | |]; try (repeat split; fail);
        unfold idle_user, user_start; simpl; rewrite ?Hu; auto.
    + eapply user_check_Inv2; eauto; try (apply Hpol; unfold user_start; rewrite Hu; reflexivity).
  - pose proof (start_step_thread c s TU q ch Hc HI Ht (or_intror Hq)) as HS.
    pose proof (start_step_user c s q ch) as HU.
    destruct (start_step c s q ch) as [s1 pc1 l1|s1 x1 l1|]; [| |discriminate]; inversion H; subst; clear H.
    + simpl in HS. rewrite HU, Hu in HS. exact HS.
    + rewrite Hu in HU. destruct x1; simpl in HS; rewrite HU in HS; exact HS.
Qed.

(* ------------------------------------------------------------------ *)
(* the cleanup goroutine outside a nested Start                        *)
Definition holder_pc (pc : cpc) : bool :=
  match pc with CBackoff | CWake | CStart _ | CFailed => true | _ => false end.

Lemma at_start_clean_move s s' i pc :
  s_cleans s i = Some pc -> (forall q, pc <> CStart q) ->
  user_start s' = user_start s ->
  (forall j, j <> i -> s_cleans s' j = s_cleans s j) ->
  forall p, at_start s p -> at_start s' p.
Proof.
  intros Hc Hn Eu Ecl p [H|[j H]]; [left; rewrite Eu; exact H|].
  right. exists j. destruct (Nat.eq_dec j i) as [->|Hne]; [rewrite Hc in H; inversion H; subst; exfalso; eapply Hn; eauto|].
  rewrite (Ecl j Hne). exact H.
Qed.

(* the holder cleanup i (not inside a nested Start) moves to pc', possibly writing a status *)
Lemma clean_move_Inv2 s i pc pc' x :
  Inv2 s -> s_cleans s i = Some pc -> holder s i = true -> (forall q, pc <> CStart q) ->
  let s' := set_clean (with_status s x) i (Some pc') in
  clean_ok2 s' i pc' ->
  (holder_pc pc' = false -> stopped_b x = true) ->
  (match pc' with CTail3 _ | CWait => False | CStart q => pc_run q = None | _ => True end) ->
  Inv2 s'.
Proof.
  intros HI Hc Hh Hns s' Hok Hst Hshape.
  pose proof HI as [H1 H2 H3 H4 H5 H6 H7 H8 H9 H10].
  assert (Hoth : forall j, j <> i -> holder s j = false).
  { intros j Hj. destruct (holder s j) eqn:E; [|reflexivity]. exfalso. apply Hj. apply H1; auto. }
  assert (Hnu : user_holds s = false).
  { destruct (user_holds s) eqn:E; [|reflexivity]. rewrite (H2 eq_refl i) in Hh. discriminate. }
  assert (Ecl : forall j, s_cleans s' j = if Nat.eqb j i then Some pc' else s_cleans s j) by (intros j; reflexivity).
  assert (Ecl' : forall j, j <> i -> s_cleans s' j = s_cleans s j).
  { intros j Hj. rewrite Ecl. apply Nat.eqb_neq in Hj. rewrite Hj. reflexivity. }
  assert (Hat : forall p, at_start s p -> at_start s' p).
  { eapply at_start_clean_move; eauto. }
  assert (Hhi : holder s' i = holder_pc pc').
  { unfold holder. rewrite Ecl, Nat.eqb_refl. destruct pc'; simpl in *; try reflexivity; contradiction. }
  assert (Hho : forall j, j <> i -> holder s' j = false).
  { intros j Hj. unfold holder. rewrite (Ecl' j Hj). apply Hoth. exact Hj. }
  constructor.
  - intros a b Ha Hb.
    destruct (Nat.eq_dec a i) as [->|Na]; [|rewrite (Hho a Na) in Ha; discriminate].
    destruct (Nat.eq_dec b i) as [->|Nb]; [|rewrite (Hho b Nb) in Hb; discriminate]. reflexivity.
  - intros Hf. change (user_holds s') with (user_holds s) in Hf. congruence.
  - intros q Hq. change (user_start s') with (user_start s) in Hq.
    destruct (user_idle_of_not_holding s Hnu) as [E|E]; rewrite E in Hq; inversion Hq. exact I.
  - intros j q Hj. rewrite Ecl in Hj. destruct (Nat.eqb j i) eqn:E.
    + apply Nat.eqb_eq in E. subst j. inversion Hj. subst q. exact Hok.
    + apply Nat.eqb_neq in E. pose proof (Hoth j E) as Hn'. unfold holder in Hn'. rewrite Hj in Hn'.
      pose proof (H4 j q Hj) as [Hlt Hcq]. unfold clean_ok2. split; [exact Hlt|].
      change (s_runs s') with (s_runs s). change (s_map s') with (s_map s). change (s_cur s') with (s_cur s).
      destruct q as [| | |q0| |e|e|e]; try discriminate; try exact Hcq.
      destruct Hcq as [A B]. split; [exact A|]. rewrite Hn' in B |- *.
      destruct B as [B|B]; [left|right]; apply Hat; exact B.
  - intros _ Hall. simpl. apply Hst. rewrite <- Hhi. apply Hall.
  - intros m Hm. change (s_map s') with (s_map s) in Hm. destruct (H6 m Hm) as [q [A B]].
    unfold map_owned2. rewrite Ecl. destruct (Nat.eqb m i) eqn:E.
    + exists pc'. split; [reflexivity|]. destruct pc'; auto.
    + exists q. auto.
  - intros j Hj. change (s_next s') with (s_next s) in Hj. specialize (H7 j Hj).
    unfold run_ok2 in *. change (s_runs s') with (s_runs s). rewrite Ecl.
    destruct (Nat.eqb j i) eqn:E; [|exact H7]. apply Nat.eqb_eq in E. subst j. rewrite Hc in H7.
    destruct (r_phase (s_runs s i)); try discriminate; try congruence.
  - intros j Hj. change (s_next s') with (s_next s) in Hj. rewrite Ecl.
    destruct (Nat.eqb j i) eqn:E; [|apply H8; exact Hj].
    apply Nat.eqb_eq in E. subst j. pose proof (H4 i pc Hc) as [Hlt _]. lia.
  - intros j Hj. change (s_runs s') with (s_runs s) in *. change (s_next s') with (s_next s).
    destruct (H9 j Hj) as [A B]. split; [exact A|]. destruct B as [B|[B C]]; [left; exact B|right; split; [exact B|]].
    unfold live_witness in *. destruct C as [C|[C|C]]; [left|right; left|right; right]; apply Hat; exact C.
  - intros p Hp. change (s_proc s') with (s_proc s) in Hp. change (s_runs s') with (s_runs s). change (s_next s') with (s_next s).
    destruct (H10 p Hp) as [A B]. split; [exact A|].
    destruct B as [B|[B [q [C D]]]]; [left; exact B|right; split; [exact B|]]. exists q. split; [exact C|apply Hat; exact D].
Qed.

Definition tail_pc (pc : cpc) : bool := match pc with CTail1 _ | CTail2 _ | CTail3 _ => true | _ => false end.

(* a cleanup goroutine in its tail moves on; it may write terminalErrors or delete ITS OWN map entry *)
Lemma tail_move_Inv2 s i pc pc' (mp : option nat) :
  Inv2 s -> s_cleans s i = Some pc -> tail_pc pc = true -> tail_pc pc' = true ->
  (mp = s_map s \/ (s_map s = Some i /\ mp = None)) ->
  (match pc' with CTail3 _ => mp <> Some i | _ => True end) ->
  forall t, Inv2 (set_clean (with_terr (with_map s mp) t) i (Some pc')).
Proof.
  intros HI Hc Hn Hn' Hmp H3' t.
  pose proof HI as [H1 H2 H3 H4 H5 H6 H7 H8 H9 H10].
  set (s' := set_clean (with_terr (with_map s mp) t) i (Some pc')).
  assert (Ecl : forall j, s_cleans s' j = if Nat.eqb j i then Some pc' else s_cleans s j) by (intros j; reflexivity).
  assert (Ehold : forall j, holder s' j = holder s j).
  { intros j. unfold holder. rewrite Ecl. change (s_runs s') with (s_runs s). destruct (Nat.eqb j i) eqn:E; [|reflexivity].
    apply Nat.eqb_eq in E. subst j. rewrite Hc. destruct pc, pc'; simpl in *; try discriminate; reflexivity. }
  assert (Hat : forall q, at_start s q -> at_start s' q).
  { apply (at_start_clean_move s s' i pc); auto.
    - intros q E. subst pc. discriminate.
    - intros j Hj. rewrite Ecl. apply Nat.eqb_neq in Hj. rewrite Hj. reflexivity. }
  assert (Hpi : r_phase (s_runs s i) = PEnded /\ i < s_next s).
  { pose proof (H4 i pc Hc) as [Hlt Hx]. split; [|exact Hlt].
    destruct pc; simpl in Hn; try discriminate; try exact Hx. destruct Hx; assumption. }
  (* if somebody else relies on the map entry, this tail does not delete it *)
  assert (Hkeep : forall m, s_map s = Some m -> m <> i -> mp = s_map s).
  { intros m Hm Hne. destruct Hmp as [E|[E1 E2]]; [exact E|congruence]. }
  assert (Hspc : forall q n, spc_ok2 s q n -> spc_ok2 s' q n).
  { intros q n Hq. destruct q; simpl in *; auto;
      repeat match goal with H : _ /\ _ |- _ => destruct H end; repeat split; auto;
      try (unfold fupd; match goal with |- (if Nat.eqb ?r i then _ else _) = _ =>
             destruct (Nat.eqb r i) eqn:E; [apply Nat.eqb_eq in E; subst; rewrite Hc in *;
               repeat match goal with H : Some _ = _ |- _ => inversion H; clear H; subst end;
               simpl in Hn; discriminate|assumption] end).
    (* SStatus r: map = Some r *)
    match goal with Hm : s_map s = Some ?r |- _ =>
      rewrite (Hkeep r Hm); [exact Hm|intros E; subst; rewrite Hc in *;
        repeat match goal with H : Some _ = _ |- _ => inversion H; clear H; subst end; simpl in Hn; discriminate] end. }
  constructor.
  - intros a b. rewrite !Ehold. apply H1.
  - intros Hf j. rewrite Ehold. apply H2. exact Hf.
  - intros q Hq. change (user_start s') with (user_start s) in Hq. apply Hspc. apply H3. exact Hq.
  - intros j q Hj. rewrite Ecl in Hj. destruct (Nat.eqb j i) eqn:E.
    + apply Nat.eqb_eq in E. subst j. inversion Hj. subst q. destruct Hpi as [Hp Hlt].
      unfold clean_ok2. split; [exact Hlt|]. destruct pc'; simpl in Hn'; try discriminate; auto.
    + apply Nat.eqb_neq in E. pose proof (H4 j q Hj) as [Hlt Hok]. unfold clean_ok2. split; [exact Hlt|].
      change (s_runs s') with (s_runs s). change (s_status s') with (s_status s). change (s_cur s') with (s_cur s).
      change (s_map s') with mp.
      destruct q as [| | |q0| |e|e|e].
      * destruct Hok as [A B]. split; [exact A|]. destruct (r_started (s_runs s j)).
        -- destruct B as (B1 & B2 & B3). rewrite (Hkeep j B2 E). auto.
        -- destruct B as [B|B]; [left|right]; apply Hat; exact B.
      * destruct Hok as (A & B & C). rewrite (Hkeep j C E). auto.
      * destruct Hok as (A & B & C). rewrite (Hkeep j C E). auto.
      * destruct Hok as (A & B & C). split; [exact A|]. split; [apply Hspc; exact B|].
        intros Hb. rewrite (Hkeep j (C Hb) E). apply C. exact Hb.
      * destruct Hok as (A & B & C). rewrite (Hkeep j C E). auto.
      * exact Hok.
      * exact Hok.
      * destruct Hok as [A B]. split; [exact A|]. destruct Hmp as [->|[_ ->]]; [exact B|discriminate].
  - intros Hu Hall. simpl. apply H5; [exact Hu|]. intros j. rewrite <- Ehold. apply Hall.
  - intros m Hm. change (s_map s') with mp in Hm. unfold map_owned2. rewrite Ecl.
    assert (Hm' : s_map s = Some m) by (destruct Hmp as [E|[E1 E2]]; [rewrite <- E; exact Hm|rewrite E2 in Hm; discriminate]).
    destruct (H6 m Hm') as [q [A B]]. destruct (Nat.eqb m i) eqn:E.
    + apply Nat.eqb_eq in E. subst m. exists pc'. split; [reflexivity|]. destruct pc'; auto.
    + exists q. auto.
  - intros j Hj. change (s_next s') with (s_next s) in Hj. specialize (H7 j Hj).
    unfold run_ok2 in *. change (s_runs s') with (s_runs s). rewrite Ecl.
    destruct (Nat.eqb j i) eqn:E; [|exact H7]. apply Nat.eqb_eq in E. subst j. destruct Hpi as [Hp _]. rewrite Hp. discriminate.
  - intros j Hj. change (s_next s') with (s_next s) in Hj. rewrite Ecl.
    destruct (Nat.eqb j i) eqn:E; [|apply H8; exact Hj]. apply Nat.eqb_eq in E. subst j. destruct Hpi. lia.
  - intros j Hj. change (s_runs s') with (s_runs s) in *. change (s_next s') with (s_next s).
    destruct (H9 j Hj) as [A B]. split; [exact A|]. destruct B as [B|[B C]]; [left; exact B|right; split; [exact B|]].
    unfold live_witness in *. destruct C as [C|[C|C]]; [left|right; left|right; right]; apply Hat; exact C.
  - intros p Hp. change (s_proc s') with (s_proc s) in Hp. change (s_runs s') with (s_runs s). change (s_next s') with (s_next s).
    destruct (H10 p Hp) as [A B]. split; [exact A|].
    destruct B as [B|[B [q [C D]]]]; [left; exact B|right; split; [exact B|]]. exists q. split; [exact C|apply Hat; exact D].
Qed.

(* the cleanup goroutine of run i returns from its tail: the tomb of run i is dead *)
Lemma clean_end_Inv2 s i e x :
  Inv2 s -> s_cleans s i = Some (CTail3 e) ->
  Inv2 (set_clean (upd_run s i (rw_dead (s_runs s i) x)) i None).
Proof.
  intros HI Hc.
  pose proof HI as [H1 H2 H3 H4 H5 H6 H7 H8 H9 H10].
  pose proof (H4 i _ Hc) as (Hlt & Hpe & Hmi).
  remember (set_clean (upd_run s i (rw_dead (s_runs s i) x)) i None) as s' eqn:Es'.
  assert (Ecl : forall j, s_cleans s' j = if Nat.eqb j i then None else s_cleans s j) by (intros j; subst s'; reflexivity).
  assert (Eru : forall j, j <> i -> s_runs s' j = s_runs s j).
  { intros j Hj. subst s'. unfold set_clean, upd_run, fupd. simpl. apply Nat.eqb_neq in Hj. rewrite Hj. reflexivity. }
  assert (Eri : r_phase (s_runs s' i) = PDead /\ src_open (s_runs s' i) = src_open (s_runs s i)).
  { subst s'. unfold set_clean, upd_run, fupd. simpl. rewrite Nat.eqb_refl. split; reflexivity. }
  assert (Enx : s_next s' = s_next s) by (subst s'; reflexivity).
  assert (Est : s_status s' = s_status s) by (subst s'; reflexivity).
  assert (Emp : s_map s' = s_map s) by (subst s'; reflexivity).
  assert (Ecu : s_cur s' = s_cur s) by (subst s'; reflexivity).
  assert (Epr : s_proc s' = s_proc s) by (subst s'; reflexivity).
  assert (Eus : s_user s' = s_user s) by (subst s'; reflexivity).
  clear Es'.
  assert (Eust : user_start s' = user_start s) by (unfold user_start; rewrite Eus; reflexivity).
  assert (Ehold : forall j, holder s' j = holder s j).
  { intros j. unfold holder. rewrite Ecl. destruct (Nat.eqb j i) eqn:E.
    - apply Nat.eqb_eq in E. subst j. rewrite Hc. reflexivity.
    - apply Nat.eqb_neq in E. rewrite (Eru j E). reflexivity. }
  assert (Hat : forall q, at_start s q -> at_start s' q).
  { apply (at_start_clean_move s s' i (CTail3 e)); auto.
    - intros q E. discriminate.
    - intros j Hj. rewrite Ecl. apply Nat.eqb_neq in Hj. rewrite Hj. reflexivity. }
  assert (Hne : forall r pcr, s_cleans s r = pcr -> pcr <> Some (CTail3 e) -> r <> i) by (intros r pcr Hr Hn E; subst; congruence).
  assert (Hspc : forall q n, spc_ok2 s q n -> spc_ok2 s' q n).
  { intros q n. unfold spc_ok2, pre_status, alive. rewrite Est, Emp, Enx.
    destruct q; auto; intros H; repeat match goal with H : _ /\ _ |- _ => destruct H end;
      match goal with
      | Hn : s_cleans s ?r = None |- _ => pose proof (Hne r _ Hn ltac:(discriminate)) as Hr
      | Hn : s_cleans s ?r = Some CWait |- _ => pose proof (Hne r _ Hn ltac:(discriminate)) as Hr
      end;
      rewrite Ecl; pose proof Hr as Hr'; apply Nat.eqb_neq in Hr'; rewrite Hr', (Eru _ Hr); repeat split; auto. }
  constructor.
  - intros a b. rewrite !Ehold. apply H1.
  - intros Hf j. rewrite Ehold. apply H2. unfold user_holds in *. rewrite Eust in Hf. exact Hf.
  - intros q Hq. apply Hspc. apply H3. rewrite Eust in Hq. exact Hq.
  - intros j q Hj. rewrite Ecl in Hj. destruct (Nat.eqb j i) eqn:E; [discriminate|].
    apply Nat.eqb_neq in E. pose proof (H4 j q Hj) as [Hl Hok]. unfold clean_ok2. rewrite Enx, Est, Emp, Ecu, (Eru j E).
    split; [exact Hl|]. destruct q as [| | |q0| | | |]; try exact Hok.
    + destruct Hok as [A B]. split; [exact A|]. destruct (r_started (s_runs s j)); [exact B|].
      destruct B as [B|B]; [left|right]; apply Hat; exact B.
    + destruct Hok as (A & B & C). split; [exact A|]. split; [apply Hspc; exact B|exact C].
  - intros Hu Hall. rewrite Est. apply H5.
    + unfold user_holds in *. rewrite Eust in Hu. exact Hu.
    + intros j. rewrite <- Ehold. apply Hall.
  - intros m Hm. rewrite Emp in Hm. destruct (H6 m Hm) as [q [A B]]. unfold map_owned2. rewrite Ecl.
    destruct (Nat.eqb m i) eqn:E; [apply Nat.eqb_eq in E; subst m; contradiction|]. exists q. auto.
  - intros j Hj. rewrite Enx in Hj. specialize (H7 j Hj). unfold run_ok2 in *. rewrite Ecl.
    destruct (Nat.eqb j i) eqn:E.
    + apply Nat.eqb_eq in E. subst j. destruct Eri as [Ed _]. rewrite Ed. reflexivity.
    + apply Nat.eqb_neq in E. rewrite (Eru j E). exact H7.
  - intros j Hj. rewrite Enx in Hj. rewrite Ecl. destruct (Nat.eqb j i); [reflexivity|apply H8; exact Hj].
  - intros j Hj. rewrite Enx. destruct (Nat.eq_dec j i) as [->|Hn].
    + destruct Eri as [_ Eo]. rewrite Eo in Hj. destruct (H9 i Hj) as [_ [A|[A _]]]; congruence.
    + rewrite (Eru j Hn) in Hj |- *. destruct (H9 j Hj) as [A B]. split; [exact A|].
      destruct B as [B|[B C]]; [left; exact B|right; split; [exact B|]].
      unfold live_witness in *. destruct C as [C|[C|C]]; [left|right; left|right; right]; apply Hat; exact C.
  - intros p Hp. rewrite Epr in Hp. rewrite Enx. destruct (H10 p Hp) as [A B]. split; [exact A|].
    destruct (Nat.eq_dec p i) as [->|Hn]; [destruct B as [B|[B _]]; congruence|]. rewrite (Eru p Hn).
    destruct B as [B|[B [q [C D]]]]; [left; exact B|right; split; [exact B|]]. exists q. split; [exact C|apply Hat; exact D].
Qed.

(* the classification of v2 either enters recovery or writes a stopped status *)
Lemma v2_decide_stopped r f :
  enters_recovery v2_arms r f = false ->
  exists x e, decide v2_arms r f RecRestarted = Final x e /\ stopped_b x = true.
Proof.
  destruct r, f as [[] []]; simpl; intros H; try discriminate; eexists; eexists; split; reflexivity.
Qed.

Lemma clean_step_Inv2 c s i ch s' l :
  v2_repaired c -> Inv2 s -> clean_step c s i ch = Some (s', l) -> Inv2 s'.
Proof.
  intros Hc2 HI H. pose proof (v2_engine c Hc2) as Hv. unfold clean_step in H.
  destruct (get_run s i) as [x|] eqn:Er; [|discriminate].
  pose proof (get_run_some _ _ _ Er). subst x.
  destruct (s_cleans s i) as [pc|] eqn:Hc; [|discriminate].
  pose proof (j_clean s HI i pc Hc) as Hok.
  destruct pc as [| | |q| |e|e|e].
  - (* CWait *)
    destruct Hok as (Hlt & Hal & Hrest).
    destruct (r_phase (s_runs s i)) eqn:Ep; try discriminate.
    destruct (r_started (s_runs s i)) eqn:Es; [|discriminate].
    destruct Hrest as (Hst & Hmp & Hcu).
    assert (Hh : holder s i = true) by (unfold holder; rewrite Hc, Es; reflexivity).
    assert (Hlr : late_read c (s_runs s i) ch = false) by (unfold late_read; rewrite (is_v1_v2 c Hv); reflexivity).
    rewrite Hlr, Hv in H. simpl arms_of in H.
    destruct (enters_recovery v2_arms (reason_of c (r_kill (s_runs s i))) (flags_of c s (s_runs s i))) eqn:Ee.
    + inversion H; subst; clear H.
      apply (clean_move_Inv2 s i CWait CBackoff Recovering HI Hc Hh); [discriminate| |discriminate|exact I].
      unfold clean_ok2. simpl. repeat split; auto.
    + destruct (v2_decide_stopped _ _ Ee) as (x & e & Hd & Hx). rewrite Hd in H. inversion H; subst; clear H.
      apply (clean_move_Inv2 s i CWait (CTail1 _) x HI Hc Hh); [discriminate| |intros _; exact Hx|exact I].
      unfold clean_ok2. simpl. split; auto.
  - (* CBackoff *)
    destruct Hok as (Hlt & Hpe & Hst & Hmp).
    assert (Hh : holder s i = true) by (unfold holder; rewrite Hc; reflexivity).
    destruct ch; [|rewrite (close_failed_recovery_owner _ _ _ _ Hmp) in H]; inversion H; subst; clear H.
    + change (Inv2 (set_clean (with_status s (s_status s)) i (Some CWake))).
      apply (clean_move_Inv2 s i CBackoff CWake _ HI Hc Hh); [discriminate| |discriminate|exact I].
      unfold clean_ok2. simpl. repeat split; auto.
    + apply (clean_move_Inv2 s i CBackoff (CTail1 ResRecovery) Degraded HI Hc Hh); [discriminate| |reflexivity|exact I].
      unfold clean_ok2. simpl. split; auto.
  - (* CWake *)
    destruct Hok as (Hlt & Hpe & Hst & Hmp).
    assert (Hh : holder s i = true) by (unfold holder; rewrite Hc; reflexivity).
    rewrite Hmp in H. simpl in H. rewrite Nat.eqb_refl in H. rewrite Hv in H.
    destruct (s_shutdown s); inversion H; subst; clear H.
    + apply (clean_move_Inv2 s i CWake (CTail1 ResNil) SystemStopped HI Hc Hh); [discriminate| |reflexivity|exact I].
      unfold clean_ok2. simpl. split; auto.
    + change (Inv2 (set_clean (with_status s (s_status s)) i (Some (CStart SCheck)))).
      apply (clean_move_Inv2 s i CWake (CStart SCheck) _ HI Hc Hh); [discriminate| |discriminate|reflexivity].
      unfold clean_ok2. simpl. repeat split; auto.
  - (* CStart q : the nested Start *)
    assert (Ht : thread_at s (TC i) q) by exact Hc.
    pose proof (start_step_thread c s (TC i) q ch Hc2 HI Ht (or_introl eq_refl)) as HS.
    destruct (start_step c s q ch) as [s1 pc1 l1|s1 x1 l1|]; [| |discriminate].
    + inversion H; subst; clear H. exact HS.
    + destruct x1; simpl in HS.
      * destruct (get_run s1 i) as [ri|] eqn:Eri; [|discriminate]. apply get_run_some in Eri. subst ri.
        inversion H; subst; clear H. exact HS.
      * inversion H; subst; clear H. exact HS.
      * inversion H; subst; clear H. exact HS.
      * inversion H; subst; clear H. exact HS.
      * inversion H; subst; clear H. exact HS.
  - (* CFailed *)
    destruct Hok as (Hlt & Hpe & Hst & Hmp).
    assert (Hh : holder s i = true) by (unfold holder; rewrite Hc; reflexivity).
    rewrite (close_failed_recovery_owner _ _ _ _ Hmp) in H. inversion H; subst; clear H.
    apply (clean_move_Inv2 s i CFailed (CTail1 ResRecovery) Degraded HI Hc Hh); [discriminate| |reflexivity|exact I].
    unfold clean_ok2. simpl. split; auto.
  - (* CTail1 *)
    inversion H; subst; clear H.
    change (Inv2 (set_clean (with_terr (with_map s (s_map s)) (Some e)) i (Some (CTail2 e)))).
    apply (tail_move_Inv2 s i (CTail1 e) (CTail2 e) (s_map s) HI Hc); auto.
  - (* CTail2: compare-and-delete *)
    rewrite Hv, (v2_cad c Hc2) in H. simpl in H.
    destruct (onat_eqb (s_map s) (Some i)) eqn:Em; simpl in H; inversion H; subst; clear H.
    + apply onat_eqb_eq in Em.
      change (Inv2 (set_clean (with_terr (with_map s None) (s_terr s)) i (Some (CTail3 e)))).
      apply (tail_move_Inv2 s i (CTail2 e) (CTail3 e) None HI Hc); auto. discriminate.
    + change (Inv2 (set_clean (with_terr (with_map s (s_map s)) (s_terr s)) i (Some (CTail3 e)))).
      apply (tail_move_Inv2 s i (CTail2 e) (CTail3 e) (s_map s) HI Hc); auto.
      intros E. rewrite E in Em. simpl in Em. rewrite Nat.eqb_refl in Em. discriminate.
  - (* CTail3 *)
    inversion H; subst; clear H. unfold finish_clean. eapply clean_end_Inv2; eauto.
Qed.

Theorem step_Inv2 c s a s' l :
  v2_repaired c -> Inv2 s -> polite s a -> step c s a = Some (s', l) -> Inv2 s'.
Proof.
  intros Hc HI Hp H. pose proof (v2_engine c Hc) as Hv. destruct a; unfold step in H.
  - eapply call_step_Inv2; eauto.
  - eapply user_step_Inv2; eauto.
  - eapply waiter_step_Inv2; eauto.
  - eapply clean_step_Inv2; eauto.
  - eapply env_step_Inv2; eauto.
  - eapply env_step_Inv2; eauto.
  - eapply env_step_Inv2; eauto.
  - eapply env_step_Inv2; eauto.
  - eapply env_step_Inv2; eauto.
  - eapply env_step_Inv2; eauto.
  - eapply env_step_Inv2; eauto.
  - eapply env_step_Inv2; eauto.
Qed.

Theorem run_Inv2 c acts : v2_repaired c ->
  forall s s', Inv2 s -> polite_run c s acts -> run_acts c s acts = Some s' -> Inv2 s'.
Proof.
  intros Hc. induction acts as [|a t IH]; intros s s' HI Hp H; simpl in *.
  - inversion H; subst; auto.
  - destruct Hp as [Hpa Hpt]. destruct (step c s a) as [[s1 l]|] eqn:E; [|discriminate].
    eapply IH; [|exact Hpt|exact H]. eapply step_Inv2; eauto.
Qed.

(* ------------------------------------------------------------------ *)
(* v2: the connector guard is held only by a run whose source is open  *)
Lemma GG_set s s' g :
  s_guard s' = g -> s_next s' = s_next s ->
  (forall j, g = Some j -> src_open (s_runs s' j) = true /\ j < s_next s) -> GG s'.
Proof. intros E1 E2 H j Hj. rewrite E1 in Hj. rewrite E2. apply H. exact Hj. Qed.

Lemma start_step_GG2 c s pc ch :
  c_engine c = V2 -> GG s ->
  match start_step c s pc ch with SNext s' _ _ | SFin s' _ _ => GG s' | SStuck => True end.
Proof.
  intros Hv HG. destruct (start_step c s pc ch) eqn:H; [| |exact I];
    destruct pc; simpl in H; rewrite ?Hv in H; split_hyp H; inv_eqs; unfold rel_proc; simpl;
    repeat match goal with |- context [if ?x then _ else _] => destruct x; simpl end;
    try exact HG;
    try (match goal with E : get_run _ _ = Some _ |- _ =>
           pose proof E as E'; apply get_run_some in E'; subst;
           unfold get_run in E; match type of E with (if ?b then _ else _) = _ => destruct b eqn:Elt; [apply Nat.ltb_lt in Elt|discriminate] end
         end);
    intros g Hg; simpl in *; unfold fupd;
    try discriminate;
    try (inversion Hg; subst; rewrite Nat.eqb_refl; simpl; auto; fail);
    try (let A := fresh "A" in let B := fresh "B" in let Eg := fresh "Eg" in
         destruct (HG g Hg) as [A B]; split; [|first [exact B|lia]];
         match goal with |- context [Nat.eqb g ?r] => destruct (Nat.eqb g r) eqn:Eg end;
         [apply Nat.eqb_eq in Eg; subst; first [exact A|exfalso; lia]|exact A]).
Qed.

Lemma step_GG2 c s a s' l : c_engine c = V2 -> G s -> GG s -> step c s a = Some (s', l) -> GG s'.
Proof.
  intros Hv HG0 HG H. pose proof (is_v1_v2 c Hv) as Hv1. destruct a; unfold step in H.
  - unfold call_step in H. split_hyp H; try discriminate; inversion H; subst; clear H;
      (eapply GG_ext; [| | |exact HG]; reflexivity).
  - unfold user_step in H. destruct (s_user s) as [[[id k] pc]|] eqn:Hu; [|discriminate].
    destruct pc as [q| |m sw|r m sw|r m sw| |r| |x].
    + pose proof (start_step_GG2 c s q choice Hv HG) as HS.
      destruct (start_step c s q choice) as [s1 pc1 l1|s1 x1 l1|]; [| |discriminate];
        inversion H; subst; clear H; (eapply GG_ext; [| | |exact HS]; reflexivity).
    + inversion H; subst; clear H. eapply GG_ext; [| | |exact HG]; reflexivity.
    + split_hyp H; inversion H; subst; clear H; (eapply GG_ext; [| | |exact HG]; reflexivity).
    + split_hyp H; inversion H; subst; clear H; (eapply GG_ext; [| | |exact HG]; reflexivity).
    + rewrite Hv, ?Hv1 in H. destruct (get_run s r) as [x|] eqn:Er; [|discriminate].
      apply get_run_some in Er. subst x.
      split_hyp H; try discriminate; inversion H; subst; clear H;
        try (eapply GG_ext; [| | |exact HG]; reflexivity);
        try (eapply GG_ext; [| | |apply (GG_upd_same s r); [exact HG|]]; try reflexivity;
             try (match goal with |- context [match ?p with PDead => _ | _ => _ end] => destruct p end; reflexivity); fail);
        try (intros g Hg; simpl in Hg; discriminate).
    + split_hyp H; inversion H; subst; clear H; (eapply GG_ext; [| | |exact HG]; reflexivity).
    + split_hyp H; try discriminate; inversion H; subst; clear H; (eapply GG_ext; [| | |exact HG]; reflexivity).
    + inversion H; subst; clear H. eapply GG_ext; [| | |exact HG]; reflexivity.
    + inversion H; subst; clear H. eapply GG_ext; [| | |exact HG]; reflexivity.
  - unfold waiter_step in H. split_hyp H; try discriminate; inversion H; subst; clear H;
      (eapply GG_ext; [| | |exact HG]; reflexivity).
  - unfold clean_step in H. destruct (get_run s r) as [x|] eqn:Er; [|discriminate].
    apply get_run_some in Er. subst x.
    destruct (s_cleans s r) as [pc|] eqn:Hc; [|discriminate].
    destruct pc as [| | |q| |e|e|e].
    4:{ pose proof (start_step_GG2 c s q choice Hv HG) as HS.
        destruct (start_step c s q choice) as [s1 pc1 l1|s1 x1 l1|]; [| |discriminate].
        - inversion H; subst; clear H. eapply GG_ext; [| | |exact HS]; reflexivity.
        - destruct x1; split_hyp H; try discriminate; inversion H; subst; clear H;
            try (eapply GG_ext; [| | |exact HS]; reflexivity).
          match goal with E : get_run s1 r = Some ?x |- _ => apply get_run_some in E; subst end.
          eapply GG_ext; [| | |apply (GG_upd_same s1 r); [exact HS|]]; reflexivity. }
    all: unfold close_failed_recovery in H; rewrite ?Hv in H; split_hyp H; try discriminate; inversion H; subst; clear H;
      try (eapply GG_ext; [| | |exact HG]; reflexivity).
    all: unfold finish_clean; (eapply GG_ext; [| | |apply (GG_upd_same s r); [exact HG|]]; reflexivity).
  - unfold env_step in H. rewrite Hv1 in H. destruct (get_run s r); discriminate.
  - unfold env_step in H. rewrite Hv1 in H. destruct (get_run s r); discriminate.
  - unfold env_step in H. rewrite Hv1 in H. destruct (get_run s r); discriminate.
  - unfold env_step in H; destruct (get_run s r) as [x|] eqn:Er; try discriminate;
       apply get_run_some in Er; subst x; split_hyp H; try discriminate; inversion H; subst; clear H.
    apply GG_upd_same; [exact HG|reflexivity].
  - unfold env_step in H; destruct (get_run s r) as [x|] eqn:Er; try discriminate;
       apply get_run_some in Er; subst x; split_hyp H; try discriminate; inversion H; subst; clear H.
    apply GG_upd_same; [exact HG|reflexivity].
  - unfold env_step in H; destruct (get_run s r) as [x|] eqn:Er; try discriminate;
       apply get_run_some in Er; subst x; split_hyp H; try discriminate; inversion H; subst; clear H.
    intros g Hg. simpl in Hg. discriminate.
  - unfold env_step in H; destruct (get_run s r) as [x|] eqn:Er; try discriminate;
       apply get_run_some in Er; subst x; split_hyp H; try discriminate; inversion H; subst; clear H; bools.
    all: unfold rel_proc; simpl; match goal with |- context [onat_eqb ?a ?b] => destruct (onat_eqb a b) end.
    all: intros g Hg; simpl in *; destruct (HG g Hg) as [A B]; (split; [|exact B]); unfold fupd;
         (destruct (Nat.eqb g r) eqn:E; [|exact A]); apply Nat.eqb_eq in E; subst g;
         match goal with Hn : negb (src_open _) = true |- _ => rewrite A in Hn; discriminate end.
  - unfold env_step in H. rewrite Hv1 in H. destruct (get_run s r); discriminate.
Qed.

Theorem run_Inv2_GG c acts : v2_repaired c ->
  forall s s', Inv2 s -> G s -> GG s -> polite_run c s acts -> run_acts c s acts = Some s' -> Inv2 s' /\ GG s'.
Proof.
  intros Hc. induction acts as [|a t IH]; intros s s' HI HG0 HG Hp H; simpl in *.
  - inversion H; subst; auto.
  - destruct Hp as [Hpa Hpt]. destruct (step c s a) as [[s1 l]|] eqn:E; [|discriminate].
    eapply IH; [| | |exact Hpt|exact H].
    + eapply step_Inv2; eauto.
    + eapply step_G; eauto.
    + eapply step_GG2; eauto. apply (v2_engine c Hc).
Qed.

(* ------------------------------------------------------------------ *)
(* consequences                                                        *)
Lemma holder_exists2 s : Inv2 s -> stopped_b (s_status s) = false ->
  user_holds s = true \/ exists i, holder s i = true.
Proof.
  intros HI Hs. destruct (user_holds s) eqn:Eu; [left; reflexivity|right].
  destruct (find_below (fun i => holder s i) (s_next s)) as [Hall|[i [_ Hi]]]; [|exists i; exact Hi].
  exfalso. assert (Hall' : forall i, holder s i = false).
  { intros i. destruct (Nat.lt_ge_cases i (s_next s)) as [A|A]; [apply Hall; exact A|].
    unfold holder. rewrite (j_range s HI i A). reflexivity. }
  rewrite (j_idle s HI Eu Hall') in Hs. discriminate.
Qed.

(* running_implies_map_is_live: whenever the stored status is Running, the run map points at the run
   that announced Running, and the tomb of that run is not dead *)
Theorem running_implies_map_is_live_inv2 s :
  Inv2 s -> s_status s = Running ->
  exists r, s_map s = Some r /\ s_cur s = Some r /\ alive (s_runs s r).
Proof.
  intros HI Hs.
  destruct (holder_exists2 s HI ltac:(rewrite Hs; reflexivity)) as [Hu|[i Hi]].
  - exfalso. unfold user_holds in Hu. destruct (user_start s) as [pc|] eqn:E; [|discriminate].
    pose proof (j_user s HI pc E) as Hp.
    assert (Hpre : pre_status s false) by (apply (spc_pre s pc false Hp); right; intros ->; discriminate).
    unfold pre_status in Hpre. rewrite Hs in Hpre. discriminate.
  - unfold holder in Hi. destruct (s_cleans s i) as [pc|] eqn:E; [|discriminate].
    pose proof (j_clean s HI i pc E) as [_ Hc].
    destruct pc as [| | |q| |e|e|e]; try discriminate.
    + rewrite Hi in Hc. destruct Hc as (A & _ & B & C). exists i. auto.
    + destruct Hc as (_ & A & _). congruence.
    + destruct Hc as (_ & A & _). congruence.
    + exfalso. destruct Hc as (_ & Hp & _).
      assert (Hpre : pre_status s true) by (apply (spc_pre s q true Hp); left; reflexivity).
      unfold pre_status in Hpre. congruence.
    + destruct Hc as (_ & A & _). congruence.
Qed.

Lemma quiescent_no_start s : Inv2 s -> quiescent s = true -> forall pc, ~ at_start s pc.
Proof.
  intros HI Hq. destruct (quiescent_facts s Hq) as [Hu Hf].
  intros pc [H|[i H]].
  - unfold user_start in H. rewrite Hu in H. discriminate.
  - destruct (Nat.lt_ge_cases i (s_next s)) as [A|A].
    + destruct (Hf i A) as [B _]. rewrite H in B. destruct B. discriminate.
    + rewrite (j_range s HI i A) in H. discriminate.
Qed.

(* status_agrees_with_last_run_end *)
Theorem status_agrees_inv2 s : Inv2 s -> quiescent s = true -> agrees s = true.
Proof.
  intros HI Hq. destruct (quiescent_facts s Hq) as [Hu Hf].
  pose proof (quiescent_no_start s HI Hq) as Hns.
  assert (Hnu : user_holds s = false) by (unfold user_holds, user_start; rewrite Hu; reflexivity).
  (* every live run has its cleanup goroutine parked at CWait, past startupDone *)
  assert (Hlive : forall i, i < s_next s -> is_live (s_runs s i) = true ->
            s_cleans s i = Some CWait /\ r_started (s_runs s i) = true).
  { intros i Hi Hl. pose proof (j_run s HI i Hi) as Hr. unfold run_ok2 in Hr.
    rewrite (is_live_phase _ Hl) in Hr.
    destruct (Hf i Hi) as [B _]. destruct (s_cleans s i) as [pc|] eqn:E; [|congruence]. destruct B as [-> _].
    split; [reflexivity|]. pose proof (j_clean s HI i CWait E) as (_ & _ & C).
    destruct (r_started (s_runs s i)); [reflexivity|]. exfalso. destruct C as [C|C]; eapply Hns; eauto. }
  unfold agrees, live_runs.
  destruct (filter (fun i => is_live (s_runs s i)) (ids s)) as [|i rest] eqn:El.
  - assert (Hnone : forall i, holder s i = false).
    { intros i. unfold holder. destruct (Nat.lt_ge_cases i (s_next s)) as [A|A]; [|rewrite (j_range s HI i A); reflexivity].
      destruct (Hf i A) as [B _]. destruct (s_cleans s i) as [pc|] eqn:E; [|reflexivity].
      destruct B as [-> Bl]. exfalso. rewrite filter_nil_iff in El.
      rewrite (El i) in Bl; [discriminate|]. unfold ids. apply in_seq. lia. }
    rewrite (j_idle s HI Hnu Hnone). simpl.
    destruct (s_map s) as [m|] eqn:Em; [|reflexivity]. exfalso.
    destruct (j_map s HI m Em) as [pc [Hc Hp]].
    destruct (Nat.lt_ge_cases m (s_next s)) as [A|A]; [|rewrite (j_range s HI m A) in Hc; discriminate].
    destruct (Hf m A) as [B _]. rewrite Hc in B. destruct B as [-> Bl].
    rewrite filter_nil_iff in El. rewrite (El m) in Bl; [discriminate|]. unfold ids. apply in_seq. lia.
  - assert (Hin : In i (ids s) /\ is_live (s_runs s i) = true).
    { apply (filter_In (fun i0 => is_live (s_runs s i0)) i (ids s)). rewrite El. left. reflexivity. }
    destruct Hin as [Hin Hli]. unfold ids in Hin. apply in_seq in Hin.
    destruct (Hlive i ltac:(lia) Hli) as [Hci Hsi].
    assert (Hhi : holder s i = true) by (unfold holder; rewrite Hci; exact Hsi).
    assert (Hrest : rest = []).
    { destruct rest as [|j rest']; [reflexivity|]. exfalso.
      assert (Hj : In j (ids s) /\ is_live (s_runs s j) = true)
        by (apply (filter_In (fun i0 => is_live (s_runs s i0)) j (ids s)); rewrite El; right; left; reflexivity).
      destruct Hj as [Hj Hlj]. unfold ids in Hj. apply in_seq in Hj.
      destruct (Hlive j ltac:(lia) Hlj) as [Hcj Hsj].
      assert (i = j) by (apply (j_one s HI); [exact Hhi|unfold holder; rewrite Hcj; exact Hsj]). subst j.
      assert (Hnd : NoDup (filter (fun i0 => is_live (s_runs s i0)) (ids s))) by (apply NoDup_filter; apply seq_NoDup).
      rewrite El in Hnd. inversion Hnd. apply H1. left. reflexivity. }
    subst rest. pose proof (j_clean s HI i CWait Hci) as (_ & _ & C). rewrite Hsi in C. destruct C as (A & B & _).
    rewrite A, B. simpl. rewrite Nat.eqb_refl. reflexivity.
Qed.

(* teardown_releases_guards *)
Theorem guards_released_inv2 s :
  Inv2 s -> GG s -> quiescent s = true -> live_runs s = [] -> guards_free s = true.
Proof.
  intros HI HG Hq Hl. destruct (quiescent_facts s Hq) as [Hu Hf].
  pose proof (quiescent_no_start s HI Hq) as Hns.
  unfold live_runs in Hl. rewrite filter_nil_iff in Hl.
  unfold guards_free. destruct (s_guard s) as [g|] eqn:Eg.
  - exfalso. destruct (HG g Eg) as [A B]. destruct (j_live s HI g A) as [_ [C|[_ C]]].
    + specialize (Hl g ltac:(unfold ids; apply in_seq; lia)). unfold is_live in Hl. rewrite C in Hl. discriminate.
    + unfold live_witness in C. destruct C as [C|[C|C]]; eapply Hns; eauto.
  - simpl. destruct (s_proc s) as [p|] eqn:Ep; [|reflexivity]. exfalso.
    destruct (j_proc s HI p Ep) as [A [B|[_ [pc [_ B]]]]].
    + specialize (Hl p ltac:(unfold ids; apply in_seq; lia)). unfold is_live in Hl. rewrite B in Hl. discriminate.
    + eapply Hns; eauto.
Qed.
