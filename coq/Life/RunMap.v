(* C11 (and the service level of C10) - interleaving model of the lifecycle service of one pipeline.

   Runs are tokens (nat). The state holds what the code holds:
     s_status   pipeline.Instance.status (written by PipelineService.UpdateStatus)
     s_map      runningPipelines[id]             s_terr   terminalErrors[id]
     s_guard    connector.Instance.connector != nil of the source (set by Source.Open, cleared by Teardown)
     s_proc     processor.Instance.running      (set by MakeRunnableProcessor, cleared by Teardown)
     s_shutdown v2 Service.isGracefulShutdown
     s_runs     per run (a total map, meaningful below s_next): tomb reason, stop flags, plugin state,
                result once the tomb is dead
     s_cleans   the cleanup goroutine of each run (program counter), None when not registered / returned
     s_user     the ONE user control call in flight (Start / Stop / StopAndWait / StopAll)
     s_waits    WaitPipeline calls (they may overlap everything)

   Atomic steps are the critical sections of the code:
     v1 pkg/lifecycle/service.go      Start: status check | build (guards) | terminalErrors.Delete | node goroutines
                                      started | publish under publishMu | UpdateStatus(Running) | cleanup registered
                                      cleanup: classify+UpdateStatus | attempt check | wake guard | nested Start ... |
                                      terminalErrors.Set | compare-and-delete under publishMu | notify
     v2 pkg/lifecycle-poc/service.go  Start: ... | sink.Open | worker.Open (source, DLQ) | goroutines + cleanup
                                      registered | publish | UpdateStatus(Running)+close(startupDone)
                                      cleanup: as v1 (the map delete was unconditional as shipped, [f_cad])
   The repairs applied to the code since it was found are flags of the configuration ([fixes]): [repaired] is the
   code as it stands (used by the checks), [shipped] the code as found (used by the _shipped_refuted witnesses).
   Stop/StopAll/StopAndWait/WaitPipeline are split at their map lookup, their status read and their action.
   Everything the engine does with records is abstracted into environment actions on a run:
   a failure is injected, it surfaces (Kill), the source is torn down, all goroutines have returned.
   Status writes are assumed to succeed (store failures are outside this model).

   [step] is a total function: the action names the thread/run and carries every choice.
   Definitions only. *)
From Coq Require Export List Bool Arith Lia.
From Verif Require Export Life.Classify.
Export ListNotations.

Inductive cause := CaFatal | CaTransient | CaForce.
Inductive res := ResNil | ResCause (c : cause) | ResRecovery.
Inductive retc := RetNil | RetRunning | RetNotRunning | RetErr | RetRes (r : res).
Inductive conn := KSrc | KDst | KDlq | KProc.

Inductive rphase := PNew | PLive | PEnded | PDead.
Inductive srcst := SInit | SOpen | SClosed.

Record run := mkRun {
  r_phase : rphase;
  r_src : srcst;
  r_kill : option cause;      (* tomb: first Kill reason *)
  r_cands : list cause;       (* injected failures that have not surfaced *)
  r_stop : bool;              (* a graceful stop is armed *)
  r_shutreq : bool;           (* v1: the armed stop carries ErrGracefulShutdown *)
  r_intent : bool;            (* v2: rp.intentionalStop; v1 (repaired 742a56e): startErr != nil, the Running write of this run failed *)
  r_gshut : bool;             (* v1: run-local isGracefulShutdown (a node returned ErrGracefulShutdown) *)
  r_started : bool;           (* v1: cleanup goroutine registered; v2: startupDone closed *)
  r_res : option res }.       (* tomb dead: what Wait returns *)

Inductive spc :=
| SCheck | SBuild | SClear (r : nat)
| SOpenA (r : nat) | SOpenSrc (r : nat) | SOpenDlq (r : nat)      (* v2 only *)
| SRollback (r : nat)                                             (* v2, repaired: Worker.Open's rollback tears the source down *)
| SSpawn (r : nat) | SPublish (r : nat) | SStatus (r : nat) | SRegister (r : nat).

Inductive cpc :=
| CWait | CBackoff | CWake | CStart (pc : spc) | CFailed
| CTail1 (e : res) | CTail2 (e : res) | CTail3 (e : res).

Inductive smode := MGraceful | MShutdown | MForce.
Inductive ckind := KStart | KStop | KForce | KStopWait | KStopAll | KWait.

Inductive upc :=
| UStart (pc : spc)
| UAllFlag                                  (* v2 StopAll: isGracefulShutdown.Store(true) *)
| ULookup (m : smode) (sw : bool)           (* sw: this is StopAndWait *)
| UStatus (r : nat) (m : smode) (sw : bool)
| UAct (r : nat) (m : smode) (sw : bool)
| UWLookup | UWJoin (r : nat) | UWTerr      (* the WaitPipeline part of StopAndWait *)
| URet (x : retc).                          (* the call returns *)

Inductive wpc := WLookup | WJoin (r : nat) | WTerr | WRet (x : retc).

(* Repairs that were applied to the code; [repaired] is the code as it stands, [shipped] the code as it was
   found. The old behaviours stay in the model so that the refutations remain statements about them. *)
Record fixes := mkFixes {
  f_cad : bool;            (* 838f9f1  v2 cleanup: compare-and-delete of runningPipelines[id] under publishMu *)
  f_proc_open : bool;      (* 7f15ba5  v2 ProcessorTask.Open tears the processor down when its Open fails *)
  f_dlq_open : bool;       (* 6946e0c  v2 Worker.Open's rollback tears the source down *)
  f_force_intent : bool;   (* 9382932  v2 force stop also sets intentionalStop *)
  f_sync_kill : bool;      (* 2f2ec4f  v1 node goroutine Kills the tomb before its deferred nodesWg.Done() *)
  f_stfail : bool;         (* 742a56e (v1) / eff71a0 (v2)  a failed store write of UpdateStatus(StatusRunning) Kills the
                              run's tomb with a fatal error; v1 registers the cleanup goroutine all the same and does not
                              notify the failure handlers a second time *)
  f_own_close : bool }.    (* both engines: the cleanup of a run whose recovery failed (retries exhausted, nested Start
                              failed) writes Degraded only while runningPipelines[id] is still that run (degradeIfCurrent) *)
Definition repaired : fixes := mkFixes true true true true true true true.
Definition shipped : fixes := mkFixes false false false false false false false.
(* the code as it stood before 742a56e / eff71a0 (used by the _failed_write_..._shipped_refuted witnesses) *)
Definition repaired_before_stfail : fixes := mkFixes true true true true true false false.
(* the code as it stood before degradeIfCurrent (used by the _before_own_close_refuted witnesses) *)
Definition repaired_before_own_close : fixes := mkFixes true true true true true true false.

Record cfg := mkCfg { c_engine : engine; c_proc : bool; c_wraps : bool (* force Kill wraps FatalError *); c_fix : fixes;
                      c_stfail : bool (* the store write of UpdateStatus(StatusRunning) may fail (an action of the model) *) }.

Record st := mkSt {
  s_status : status;
  s_map : option nat;
  s_terr : option res;
  s_guard : option nat;
  s_proc : option nat;
  s_shutdown : bool;
  s_runs : nat -> run;                 (* defined for ids below s_next *)
  s_cleans : nat -> option cpc;        (* cleanup goroutine of run i, if it is registered and has not returned *)
  s_user : option (nat * ckind * upc);
  s_waits : list (nat * wpc);
  s_next : nat;
  s_cur : option nat }.     (* ghost: the run whose Start wrote StatusRunning last *)

Definition init : st := mkSt UserStopped None None None None false (fun _ => mkRun PDead SClosed None [] false false false false false None) (fun _ => None) None [] 0 None.

Inductive label :=
| LTau
| LStatus (s : status)
| LOpen | LOpenFail (c : conn) | LTd
| LInj (c : cause)
| LCall (k : ckind) (id : nat)
| LRet (id : nat) (r : retc)
| LNotify (r : res).

Inductive act :=
| ACall (k : ckind) (id : nat)      (* the user issues a control call *)
| AUser (choice : nat)              (* the user call's thread takes its next step *)
| AWaiter (id : nat)                (* a WaitPipeline call takes its next step *)
| AClean (r : nat) (choice : nat)   (* the cleanup goroutine of run r takes its next step *)
| AOpen (r : nat)                   (* v1: the source node opened its plugin *)
| AOpenFail (r : nat)               (* v1: the source plugin failed to open *)
| AOpenBusy (r : nat)               (* v1: Source.Open refused, another instance holds the connector *)
| AInject (r : nat) (c : cause)     (* the environment injects a failure into run r *)
| AKill (r : nat) (c : cause)       (* an injected failure surfaces: first Kill wins *)
| ATd (r : nat)                     (* the source plugin of run r is torn down *)
| AEnd (r : nat)                    (* every node / worker goroutine of run r has returned *)
| AConflict (r : nat).              (* v1: a connector of run r refuses to open, another live run holds it *)

(* ---------- small helpers ---------- *)
Definition onat_eqb (a b : option nat) : bool :=
  match a, b with Some x, Some y => Nat.eqb x y | None, None => true | _, _ => false end.

Definition cause_eqb (a b : cause) : bool :=
  match a, b with CaFatal, CaFatal | CaTransient, CaTransient | CaForce, CaForce => true | _, _ => false end.

Definition fupd {A} (f : nat -> A) (i : nat) (x : A) : nat -> A :=
  fun j => if Nat.eqb j i then x else f j.

Fixpoint get_wait (ws : list (nat * wpc)) (i : nat) : option wpc :=
  match ws with [] => None | (j, pc) :: t => if Nat.eqb j i then Some pc else get_wait t i end.

Fixpoint set_wait (ws : list (nat * wpc)) (i : nat) (pc : wpc) : list (nat * wpc) :=
  match ws with [] => [] | (j, q) :: t => if Nat.eqb j i then (j, pc) :: t else (j, q) :: set_wait t i pc end.

Fixpoint del_wait (ws : list (nat * wpc)) (i : nat) : list (nat * wpc) :=
  match ws with [] => [] | (j, q) :: t => if Nat.eqb j i then t else (j, q) :: del_wait t i end.

Definition new_run : run := mkRun PNew SInit None [] false false false false false None.

Definition reason_of (c : cfg) (k : option cause) : reason :=
  match k with
  | None => RNil
  | Some CaFatal => RFatal
  | Some CaTransient => RTransient
  | Some CaForce => force_reason (c_wraps c)
  end.

Definition flags_of (c : cfg) (s : st) (r : run) : flags :=
  match c_engine c with
  | V1 => mkFlags (r_gshut r) false
  | V2 => mkFlags (s_shutdown s) (r_intent r)
  end.

Definition res_of_terr (k : option cause) (e : terr) : res :=
  match e with
  | TNil => ResNil
  | TFatal => match k with Some c => ResCause c | None => ResNil end
  | TRecovery => ResRecovery
  end.

(* what tomb.Wait returns once the cleanup goroutine has returned [e] *)
Definition tomb_res (k : option cause) (e : res) : res :=
  match k with Some c => ResCause c | None => e end.

(* setters *)
Definition with_status (s : st) (x : status) : st :=
  mkSt x (s_map s) (s_terr s) (s_guard s) (s_proc s) (s_shutdown s) (s_runs s) (s_cleans s) (s_user s) (s_waits s) (s_next s) (s_cur s).
Definition with_map (s : st) (x : option nat) : st :=
  mkSt (s_status s) x (s_terr s) (s_guard s) (s_proc s) (s_shutdown s) (s_runs s) (s_cleans s) (s_user s) (s_waits s) (s_next s) (s_cur s).
Definition with_terr (s : st) (x : option res) : st :=
  mkSt (s_status s) (s_map s) x (s_guard s) (s_proc s) (s_shutdown s) (s_runs s) (s_cleans s) (s_user s) (s_waits s) (s_next s) (s_cur s).
Definition with_guard (s : st) (x : option nat) : st :=
  mkSt (s_status s) (s_map s) (s_terr s) x (s_proc s) (s_shutdown s) (s_runs s) (s_cleans s) (s_user s) (s_waits s) (s_next s) (s_cur s).
Definition with_proc (s : st) (x : option nat) : st :=
  mkSt (s_status s) (s_map s) (s_terr s) (s_guard s) x (s_shutdown s) (s_runs s) (s_cleans s) (s_user s) (s_waits s) (s_next s) (s_cur s).
Definition with_shutdown (s : st) (x : bool) : st :=
  mkSt (s_status s) (s_map s) (s_terr s) (s_guard s) (s_proc s) x (s_runs s) (s_cleans s) (s_user s) (s_waits s) (s_next s) (s_cur s).
Definition with_runs (s : st) (x : nat -> run) : st :=
  mkSt (s_status s) (s_map s) (s_terr s) (s_guard s) (s_proc s) (s_shutdown s) x (s_cleans s) (s_user s) (s_waits s) (s_next s) (s_cur s).
Definition with_cleans (s : st) (x : nat -> option cpc) : st :=
  mkSt (s_status s) (s_map s) (s_terr s) (s_guard s) (s_proc s) (s_shutdown s) (s_runs s) x (s_user s) (s_waits s) (s_next s) (s_cur s).
Definition with_user (s : st) (x : option (nat * ckind * upc)) : st :=
  mkSt (s_status s) (s_map s) (s_terr s) (s_guard s) (s_proc s) (s_shutdown s) (s_runs s) (s_cleans s) x (s_waits s) (s_next s) (s_cur s).
Definition with_waits (s : st) (x : list (nat * wpc)) : st :=
  mkSt (s_status s) (s_map s) (s_terr s) (s_guard s) (s_proc s) (s_shutdown s) (s_runs s) (s_cleans s) (s_user s) x (s_next s) (s_cur s).
Definition with_next (s : st) (x : nat) : st :=
  mkSt (s_status s) (s_map s) (s_terr s) (s_guard s) (s_proc s) (s_shutdown s) (s_runs s) (s_cleans s) (s_user s) (s_waits s) x (s_cur s).
Definition with_cur (s : st) (x : option nat) : st :=
  mkSt (s_status s) (s_map s) (s_terr s) (s_guard s) (s_proc s) (s_shutdown s) (s_runs s) (s_cleans s) (s_user s) (s_waits s) (s_next s) x.

Definition get_run (s : st) (i : nat) : option run :=
  if i <? s_next s then Some (s_runs s i) else None.
Definition upd_run (s : st) (i : nat) (x : run) : st := with_runs s (fupd (s_runs s) i x).
Definition set_clean (s : st) (i : nat) (pc : option cpc) : st := with_cleans s (fupd (s_cleans s) i pc).

Definition rel_proc (s : st) (i : nat) : st :=
  if onat_eqb (s_proc s) (Some i) then with_proc s None else s.

(* run-record setters *)
Definition rw_phase (r : run) (x : rphase) : run :=
  mkRun x (r_src r) (r_kill r) (r_cands r) (r_stop r) (r_shutreq r) (r_intent r) (r_gshut r) (r_started r) (r_res r).
Definition rw_src (r : run) (x : srcst) : run :=
  mkRun (r_phase r) x (r_kill r) (r_cands r) (r_stop r) (r_shutreq r) (r_intent r) (r_gshut r) (r_started r) (r_res r).
Definition rw_kill (r : run) (c : cause) : run :=
  mkRun (r_phase r) (r_src r) (match r_kill r with None => Some c | k => k end) (r_cands r)
        (r_stop r) (r_shutreq r) (r_intent r) (r_gshut r) (r_started r) (r_res r).
Definition rw_cands (r : run) (x : list cause) : run :=
  mkRun (r_phase r) (r_src r) (r_kill r) x (r_stop r) (r_shutreq r) (r_intent r) (r_gshut r) (r_started r) (r_res r).
Definition rw_stop (r : run) (shut : bool) : run :=
  mkRun (r_phase r) (r_src r) (r_kill r) (r_cands r) true (r_shutreq r || shut) (r_intent r) (r_gshut r) (r_started r) (r_res r).
Definition rw_intent (r : run) : run :=
  mkRun (r_phase r) (r_src r) (r_kill r) (r_cands r) (r_stop r) (r_shutreq r) true (r_gshut r) (r_started r) (r_res r).
Definition rw_gshut (r : run) (x : bool) : run :=
  mkRun (r_phase r) (r_src r) (r_kill r) (r_cands r) (r_stop r) (r_shutreq r) (r_intent r) x (r_started r) (r_res r).
Definition rw_started (r : run) : run :=
  mkRun (r_phase r) (r_src r) (r_kill r) (r_cands r) (r_stop r) (r_shutreq r) (r_intent r) (r_gshut r) true (r_res r).
Definition rw_dead (r : run) (x : res) : run :=
  mkRun PDead (r_src r) (r_kill r) (r_cands r) (r_stop r) (r_shutreq r) (r_intent r) (r_gshut r) (r_started r) (Some x).

Definition is_live (r : run) : bool := match r_phase r with PLive => true | _ => false end.
Definition src_open (r : run) : bool := match r_src r with SOpen => true | _ => false end.
Definition is_v1 (c : cfg) : bool := match c_engine c with V1 => true | V2 => false end.

(* ---------- the Start state machine (user call or nested in a cleanup goroutine) ---------- *)
Inductive sres :=
| SNext (s : st) (pc : spc) (l : label)
| SFin (s : st) (r : retc) (l : label)
| SStuck.

Definition start_step (c : cfg) (s : st) (pc : spc) (choice : nat) : sres :=
  match pc with
  | SCheck =>
      if status_eqb (s_status s) Running then SFin s RetRunning LTau else SNext s SBuild LTau
  | SBuild =>
      match s_guard s with
      | Some _ => SFin s RetErr LTau                       (* "connector is running" *)
      | None =>
          if c_proc c && negb (onat_eqb (s_proc s) None) then SFin s RetErr LTau   (* "processor already running" *)
          else
            let i := s_next s in
            let s1 := with_next (upd_run s i new_run) (S i) in
            let s2 := if c_proc c then with_proc s1 (Some i) else s1 in
            SNext s2 (SClear i) LTau
      end
  | SClear i =>
      SNext (with_terr s None) (match c_engine c with V1 => SSpawn i | V2 => SOpenA i end) LTau
  | SOpenA i =>      (* v2 sink.Open: shared processors then the destination *)
      match choice with
      | 0 => SNext s (SOpenSrc i) LTau
      | 1 => if c_proc c
             then SFin (if f_proc_open (c_fix c) then rel_proc s i else s) RetErr (LOpenFail KProc)
                  (* shipped: the processor's running flag is NOT released *)
             else SStuck
      | 2 => SFin (rel_proc s i) RetErr (LOpenFail KDst)
      | _ => (* the destination connector is held by another live run: Destination.Open refuses, no plugin call *)
             if existsb (fun j => negb (Nat.eqb j i) && is_live (s_runs s j)) (seq 0 (s_next s))
             then SFin (rel_proc s i) RetErr LTau else SStuck
      end
  | SOpenSrc i =>    (* v2 worker.Open: source task *)
      match get_run s i with
      | None => SStuck
      | Some r =>
          match choice with
          | 0 => match s_guard s with
                 | None => SNext (upd_run (with_guard s (Some i)) i (rw_src r SOpen)) (SOpenDlq i) LOpen
                 | Some _ => SFin (rel_proc s i) RetErr LTau      (* another instance of the connector is running *)
                 end
          | _ => SFin (rel_proc s i) RetErr (LOpenFail KSrc)
          end
      end
  | SOpenDlq i =>    (* v2 worker.Open: DLQ; on failure the rollback closes the tasks; shipped: the source stays open *)
      match choice with
      | 0 => SNext s (SSpawn i) LTau
      | _ => if f_dlq_open (c_fix c) then SNext s (SRollback i) (LOpenFail KDlq)
             else SFin (rel_proc s i) RetErr (LOpenFail KDlq)
      end
  | SRollback i =>
      match get_run s i with
      | None => SStuck
      | Some r =>
          if src_open r && onat_eqb (s_guard s) (Some i)
          then SFin (rel_proc (upd_run (with_guard s None) i (rw_src r SClosed)) i) RetErr LTd
          else SStuck
      end
  | SSpawn i =>
      match get_run s i with
      | None => SStuck
      | Some r =>
          let s1 := upd_run s i (rw_phase r PLive) in
          let s2 := match c_engine c with
                    | V1 => s1
                    | V2 => set_clean s1 i (Some CWait)
                    end in
          SNext s2 (SPublish i) LTau
      end
  | SPublish i => SNext (with_map s (Some i)) (SStatus i) LTau
  | SStatus i =>
      let s1 := with_cur (with_status s Running) (Some i) in
      if c_stfail c && f_stfail (c_fix c)
         && match get_run s i with Some r => r_started r | None => false end then
        (* repaired: the Running write of run i has failed (below); Start does not return before the run it Killed
           has been finalized by its own cleanup goroutine (rp.t.Wait()) *)
        match get_run s i with
        | Some r => match r_res r with Some _ => SFin s RetErr LTau | None => SStuck end
        | None => SStuck
        end
      else
      if c_stfail c && negb (Nat.eqb choice 0) then
        (* UpdateStatus(StatusRunning) fails in the store AFTER the in-memory status was set (pipeline.Service
           mutates the instance first and does not roll back): Start returns the error.
           v1: the publication is rolled back (compare-and-delete) and runPipeline returns BEFORE the cleanup
               goroutine is registered: the node goroutines of run i keep running, nothing owns them.
           v2: startupDone is closed, the run stays live and published. *)
        if f_stfail (c_fix c) then
          (* repaired (742a56e / eff71a0 + the wait): the run's tomb is Killed with a fatal error (first Kill wins),
             the run is finalized by its own cleanup goroutine and Start waits for that (this program counter is
             kept; [r_started], false at this point of an ordinary Start, marks that the write has failed).
             v1: publication rolled back, Kill, cleanup goroutine registered all the same; [r_intent] (unused by v1
                 otherwise) marks startErr != nil: that cleanup does not call the failure handlers.
             v2: Kill, startupDone closed; the run stays published until its cleanup has run. *)
          match get_run s1 i with
          | None => SStuck
          | Some r =>
              let rk := match r_phase r with PDead => r | _ => rw_kill r CaFatal end in
              match c_engine c with
              | V1 => let s2 := if onat_eqb (s_map s1) (Some i) then with_map s1 None else s1 in
                      SNext (set_clean (upd_run s2 i (rw_intent (rw_started rk))) i (Some CWait)) (SStatus i) (LStatus Running)
              | V2 => SNext (upd_run s1 i (rw_started rk)) (SStatus i) (LStatus Running)
              end
          end
        else
        match c_engine c with
        | V1 => SFin (if onat_eqb (s_map s1) (Some i) then with_map s1 None else s1) RetErr (LStatus Running)
        | V2 => match get_run s1 i with
                | None => SStuck
                | Some r => SFin (upd_run s1 i (rw_started r)) RetErr (LStatus Running)
                end
        end
      else
      match c_engine c with
      | V1 => SNext s1 (SRegister i) (LStatus Running)
      | V2 => match get_run s1 i with
              | None => SStuck
              | Some r => SFin (upd_run s1 i (rw_started r)) RetNil (LStatus Running)
              end
      end
  | SRegister i =>
      match get_run s i with
      | None => SStuck
      | Some r => SFin (set_clean (upd_run s i (rw_started r)) i (Some CWait)) RetNil LTau
      end
  end.


(* v1 records a node's error on the tomb only AFTER the node's deferred nodesWg.Done() (tomb.v2 calls
   Kill(err) in its own bookkeeping once the goroutine function has returned; v2 Kills synchronously
   before Done for exactly this reason): the cleanup goroutine can read tomb.Err() while the error that
   ended the run has not reached the tomb yet. A force stop Kills inside the Stop call and is never late. *)
Definition late_read (c : cfg) (r : run) (choice : nat) : bool :=
  is_v1 c && negb (f_sync_kill (c_fix c)) && match choice with 0 => false | _ => true end
  && match r_kill r with Some CaForce | None => false | Some _ => true end.

(* ---------- cleanup goroutine of run i ---------- *)
Definition finish_clean (s : st) (i : nat) (r : run) (e : res) : st :=
  set_clean (upd_run s i (rw_dead r (tomb_res (r_kill r) e))) i None.

(* the recovery of run i failed: Degraded is written (repaired, degradeIfCurrent: only while the map entry is still
   run i, otherwise a run published since owns the status; compare and write are ONE step because the code does both
   under publishMu, which also covers the publication), then the tail runs with the recovery error *)
Definition owns_close (c : cfg) (s : st) (i : nat) : bool :=
  negb (f_own_close (c_fix c)) || onat_eqb (s_map s) (Some i).

Definition close_failed_recovery (c : cfg) (s : st) (i : nat)
           (goto : st -> cpc -> label -> option (st * label)) : option (st * label) :=
  if owns_close c s i
  then goto (with_status s Degraded) (CTail1 ResRecovery) (LStatus Degraded)
  else goto s (CTail1 ResRecovery) LTau.

Definition clean_step (c : cfg) (s : st) (i : nat) (choice : nat) : option (st * label) :=
  match get_run s i, s_cleans s i with
  | Some r, Some pc =>
      let goto s' pc' l := Some (set_clean s' i (Some pc'), l) in
      match pc with
      | CWait =>
          match r_phase r with
          | PEnded =>
              if r_started r then
                let rs := if late_read c r choice then RNil else reason_of c (r_kill r) in
                let f := flags_of c s r in
                let arms := arms_of (c_engine c) in
                if enters_recovery arms rs f
                then goto (with_status s Recovering) CBackoff (LStatus Recovering)
                else match decide arms rs f RecRestarted with
                     | Final x e => goto (with_status s x) (CTail1 (res_of_terr (r_kill r) e)) (LStatus x)
                     | _ => goto s (CTail1 (tomb_res (r_kill r) ResNil)) LTau
                     end
              else None
          | _ => None
          end
      | CBackoff =>
          match choice with
          | 0 => goto s CWake LTau                                             (* attempt accepted, sleep *)
          | _ => close_failed_recovery c s i goto                                (* attempt > MaxRetries *)
          end
      | CWake =>
          if onat_eqb (s_map s) (Some i) then
            match c_engine c with
            | V2 => if s_shutdown s
                    then goto (with_status s SystemStopped) (CTail1 ResNil) (LStatus SystemStopped)
                    else goto s (CStart SCheck) LTau
            | V1 => goto s (CStart SCheck) LTau
            end
          else Some (finish_clean s i r ResNil, LTau)                          (* superseded: return nil, no tail *)
      | CStart spc0 =>
          match start_step c s spc0 choice with
          | SNext s' pc' l => goto s' (CStart pc') l
          | SFin s' RetNil l =>
              match get_run s' i with
              | Some r' => Some (finish_clean s' i r' ResNil, l)                (* restarted: return nil, no tail *)
              | None => None
              end
          | SFin s' _ l => goto s' CFailed l
          | SStuck => None
          end
      | CFailed => close_failed_recovery c s i goto
      | CTail1 e => goto (with_terr s (Some e)) (CTail2 e) LTau
      | CTail2 e =>
          match c_engine c with
          | V1 => goto (if onat_eqb (s_map s) (Some i) then with_map s None else s) (CTail3 e) LTau
          | V2 => goto (if f_cad (c_fix c) && negb (onat_eqb (s_map s) (Some i)) then s else with_map s None) (CTail3 e) LTau
          end
      | CTail3 e =>
          (* v1, repaired: a run whose Start failed on the Running write (startErr != nil, marked by r_intent) was
             reported to the caller of Start; its cleanup does not call the failure handlers *)
          Some (finish_clean s i r e,
                match e with
                | ResNil => LTau
                | _ => if c_stfail c && is_v1 c && f_stfail (c_fix c) && r_intent r then LTau else LNotify e
                end)
      end
  | _, _ => None
  end.

(* ---------- the user's control call ---------- *)
Definition ret_of_res (x : res) : retc := match x with ResNil => RetNil | _ => RetRes x end.

Definition is_stopall (m : smode) : bool := match m with MShutdown => true | _ => false end.

Definition stoppable (x : status) : bool := status_eqb x Running || status_eqb x Recovering.

Definition user_step (c : cfg) (s : st) (choice : nat) : option (st * label) :=
  match s_user s with
  | None => None
  | Some (id, k, pc) =>
      let goto s' pc' l := Some (with_user s' (Some (id, k, pc')), l) in
      match pc with
      | UStart spc0 =>
          match start_step c s spc0 choice with
          | SNext s' pc' l => goto s' (UStart pc') l
          | SFin s' x l => goto s' (URet x) l
          | SStuck => None
          end
      | UAllFlag => goto (with_shutdown s true) (ULookup MShutdown false) LTau
      | ULookup m sw =>
          match s_map s with
          | Some r => goto s (UStatus r m sw) LTau
          | None => goto s (URet (if is_stopall m then RetNil else RetNotRunning)) LTau
          end
      | UStatus r m sw =>
          if stoppable (s_status s) then goto s (UAct r m sw) LTau
          else goto s (URet (if is_stopall m then RetNil else RetNotRunning)) LTau
      | UAct i m sw =>
          match get_run s i with
          | None => None
          | Some r =>
              let after (s' : st) (x : retc) (l : label) :=
                match x, sw with
                | RetNil, true => goto s' UWLookup l
                | _, _ => goto s' (URet x) l
                end in
              match m with
              | MForce =>
                  let r0 := match r_phase r with PDead => r | _ => rw_kill r CaForce end in
                  let r' := if negb (is_v1 c) && f_force_intent (c_fix c) then rw_intent r0 else r0 in
                  after (upd_run s i r') RetNil LTau
              | _ =>
                  match c_engine c with
                  | V1 =>
                      let quiet (x : retc) := if is_stopall m then RetNil else x in
                      match r_phase r, r_src r with
                      | PNew, _ => None                         (* node state not yet running: Stop waits *)
                      | PLive, SInit => None
                      | PLive, SOpen =>
                          if r_stop r then after s (quiet RetErr) LTau      (* stop already triggered *)
                          else match r_kill r, choice with
                               | Some _, S _ =>
                                   (* the tomb is already dying (force stop, failing sibling): the source
                                      node's context is cancelled, Source.Stop / the injection fails *)
                                   after s (quiet RetErr) LTau
                               | _, _ => after (upd_run s i (rw_stop r (is_stopall m))) RetNil LTau
                               end
                      | _, _ => after s (quiet RetErr) LTau       (* source node is not running *)
                      end
                  | V2 =>
                      let r1 := rw_intent r in
                      match r_phase r, r_src r with
                      | PLive, SOpen =>
                          let r2 := rw_src (rw_stop r1 false) SClosed in
                          after (upd_run (with_guard s None) i r2) (match choice with 0 => RetNil | _ => RetErr end) LTd
                      | _, _ => after (upd_run s i (rw_stop r1 false)) RetNil LTau
                      end
                  end
              end
          end
      | UWLookup =>
          match s_map s with
          | Some r => goto s (UWJoin r) LTau
          | None => goto s UWTerr LTau
          end
      | UWJoin i =>
          match get_run s i with
          | Some r => match r_res r with
                      | Some x => goto s (URet (ret_of_res x)) LTau
                      | None => None
                      end
          | None => None
          end
      | UWTerr => goto s (URet (ret_of_res (match s_terr s with Some x => x | None => ResNil end))) LTau
      | URet x => Some (with_user s None, LRet id x)
      end
  end.

Definition waiter_step (s : st) (id : nat) : option (st * label) :=
  match get_wait (s_waits s) id with
  | None => None
  | Some pc =>
      let goto pc' := Some (with_waits s (set_wait (s_waits s) id pc'), LTau) in
      match pc with
      | WLookup => match s_map s with Some r => goto (WJoin r) | None => goto WTerr end
      | WJoin i =>
          match get_run s i with
          | Some r => match r_res r with Some x => goto (WRet (ret_of_res x)) | None => None end
          | None => None
          end
      | WTerr => goto (WRet (ret_of_res (match s_terr s with Some x => x | None => ResNil end)))
      | WRet x => Some (with_waits s (del_wait (s_waits s) id), LRet id x)
      end
  end.

Definition call_step (c : cfg) (s : st) (k : ckind) (id : nat) : option (st * label) :=
  match k with
  | KWait =>
      match get_wait (s_waits s) id with
      | Some _ => None
      | None => Some (with_waits s (s_waits s ++ [(id, WLookup)]), LCall k id)
      end
  | _ =>
      match s_user s with
      | Some _ => None                     (* control calls are issued one at a time per pipeline *)
      | None =>
          let pc := match k with
                    | KStart => UStart SCheck
                    | KStop => ULookup MGraceful false
                    | KForce => ULookup MForce false
                    | KStopWait => ULookup MGraceful true
                    | KStopAll => match c_engine c with V1 => ULookup MShutdown false | V2 => UAllFlag end
                    | KWait => URet RetNil
                    end in
          Some (with_user s (Some (id, k, pc)), LCall k id)
      end
  end.

Fixpoint remove_cause (c : cause) (l : list cause) : list cause :=
  match l with [] => [] | x :: t => if cause_eqb x c then t else x :: remove_cause c t end.

Definition src_init (r : run) : bool := match r_src r with SInit => true | _ => false end.
Definition ending (r : run) : bool := r_stop r || match r_kill r with Some _ => true | None => false end.
Definition is_ended (r : run) : bool := match r_phase r with PEnded => true | _ => false end.

Definition env_step (c : cfg) (s : st) (a : act) : option (st * label) :=
  match a with
  | AOpen i =>
      match get_run s i with
      | Some r =>
          if is_v1 c && is_live r && src_init r && onat_eqb (s_guard s) None
          then Some (upd_run (with_guard s (Some i)) i (rw_src r SOpen), LOpen) else None
      | None => None
      end
  | AOpenFail i =>
      match get_run s i with
      | Some r =>
          if is_v1 c && is_live r && src_init r
          then Some (upd_run s i (rw_cands (rw_src r SClosed) (r_cands r ++ [CaTransient])), LOpenFail KSrc) else None
      | None => None
      end
  | AOpenBusy i =>
      match get_run s i with
      | Some r =>
          if is_v1 c && is_live r && src_init r && negb (onat_eqb (s_guard s) None)
          then Some (upd_run s i (rw_cands (rw_src r SClosed) (r_cands r ++ [CaTransient])), LTau) else None
      | None => None
      end
  | AInject i x =>
      match get_run s i with
      | Some r => if is_live r then Some (upd_run s i (rw_cands r (r_cands r ++ [x])), LInj x) else None
      | None => None
      end
  | AKill i x =>
      match get_run s i with
      | Some r =>
          if is_live r && existsb (cause_eqb x) (r_cands r)
          then Some (upd_run s i (rw_kill (rw_cands r (remove_cause x (r_cands r))) x), LTau) else None
      | None => None
      end
  | ATd i =>
      match get_run s i with
      | Some r =>
          if is_live r && src_open r && ending r && onat_eqb (s_guard s) (Some i)
          then Some (upd_run (with_guard s None) i (rw_src r SClosed), LTd) else None
      | None => None
      end
  | AConflict i =>
      (* two runs are live at once (a Start admitted during the recovery back-off): the connector guards
         are per connector, so each run can win one connector and lose another; the loser's node fails *)
      match get_run s i with
      | Some r =>
          if is_v1 c && is_live r && negb (ending r) && match r_cands r with [] => true | _ => false end
             && existsb (fun j => negb (Nat.eqb j i) && is_live (s_runs s j)) (seq 0 (s_next s))
          then Some (upd_run s i (rw_cands r (r_cands r ++ [CaTransient])), LTau) else None
      | None => None
      end
  | AEnd i =>
      match get_run s i with
      | Some r =>
          if is_live r && negb (src_open r) && ending r
          then
            let g := is_v1 c && r_shutreq r && match r_kill r with None => true | Some _ => false end in
            Some (rel_proc (upd_run s i (rw_gshut (rw_src (rw_phase r PEnded) SClosed) g)) i, LTau)
          else None
      | None => None
      end
  | _ => None
  end.

Definition step (c : cfg) (s : st) (a : act) : option (st * label) :=
  match a with
  | ACall k id => call_step c s k id
  | AUser ch => user_step c s ch
  | AWaiter id => waiter_step s id
  | AClean i ch => clean_step c s i ch
  | _ => env_step c s a
  end.

Fixpoint run_acts (c : cfg) (s : st) (l : list act) : option st :=
  match l with
  | [] => Some s
  | a :: t => match step c s a with Some (s', _) => run_acts c s' t | None => None end
  end.

(* ---------- state predicates used by the theorems ---------- *)
Definition n_open (s : st) : nat := length (filter (fun i => src_open (s_runs s i)) (seq 0 (s_next s))).

Definition cfg_v1 (proc : bool) : cfg := mkCfg V1 proc true repaired false.
Definition cfg_v2 (proc : bool) : cfg := mkCfg V2 proc true repaired false.
Definition cfg_v1_shipped (proc : bool) : cfg := mkCfg V1 proc true shipped false.
Definition cfg_v2_shipped (proc : bool) : cfg := mkCfg V2 proc true shipped false.
(* the code as it stood before degradeIfCurrent (the closing write of a failed recovery was unconditional) *)
Definition cfg_v1_before_own_close (proc : bool) : cfg := mkCfg V1 proc true repaired_before_own_close false.
Definition cfg_v2_before_own_close (proc : bool) : cfg := mkCfg V2 proc true repaired_before_own_close false.
Definition cfg_v1_io_before_own_close (proc : bool) : cfg := mkCfg V1 proc true repaired_before_own_close true.
Definition cfg_v2_io_before_own_close (proc : bool) : cfg := mkCfg V2 proc true repaired_before_own_close true.
(* with failing status writes enabled *)
Definition cfg_v1_io (proc : bool) : cfg := mkCfg V1 proc true repaired true.
Definition cfg_v2_io (proc : bool) : cfg := mkCfg V2 proc true repaired true.
Definition cfg_v1_io_shipped (proc : bool) : cfg := mkCfg V1 proc true repaired_before_stfail true.
Definition cfg_v2_io_shipped (proc : bool) : cfg := mkCfg V2 proc true repaired_before_stfail true.

(* labels produced by a list of actions (None when an action is not enabled) *)
Fixpoint trace (c : cfg) (s : st) (l : list act) : option (list label * st) :=
  match l with
  | [] => Some ([], s)
  | a :: t =>
      match step c s a with
      | Some (s', lb) =>
          match trace c s' t with
          | Some (ls, s'') => Some (match lb with LTau => ls | _ => lb :: ls end, s'')
          | None => None
          end
      | None => None
      end
  end.

(* ---------- boolean state predicates (C11 statements) ---------- *)
Definition ids (s : st) : list nat := seq 0 (s_next s).
Definition live_runs (s : st) : list nat := filter (fun i => is_live (s_runs s i)) (ids s).

Definition stopped_b (x : status) : bool :=
  match x with UserStopped | SystemStopped | Degraded => true | _ => false end.

(* nothing is in flight: no control call, no wait, every cleanup goroutine is parked behind a run that is
   up and healthy, every run is either dead, never started (a failed Start) or up and healthy *)
Definition quiescent (s : st) : bool :=
  match s_user s with Some _ => false | None => true end
  && match s_waits s with [] => true | _ => false end
  && forallb (fun i =>
       match s_cleans s i with
       | None => true
       | Some CWait => is_live (s_runs s i)
       | Some _ => false
       end
       && match r_phase (s_runs s i) with
          | PDead | PNew => true
          | PLive => negb (ending (s_runs s i)) && match r_cands (s_runs s i) with [] => true | _ => false end
                     && src_open (s_runs s i)
          | PEnded => false
          end) (ids s).

(* the stored status and the run map agree with the runs *)
Definition agrees (s : st) : bool :=
  match live_runs s with
  | [] => stopped_b (s_status s) && onat_eqb (s_map s) None
  | [i] => status_eqb (s_status s) Running && onat_eqb (s_map s) (Some i)
  | _ => false
  end.

Definition guards_free (s : st) : bool := onat_eqb (s_guard s) None && onat_eqb (s_proc s) None.

(* the run map points at the run that announced StatusRunning, and that run's tomb is not dead *)
Definition running_map_ok (s : st) : bool :=
  negb (status_eqb (s_status s) Running)
  || match s_cur s with
     | Some i => onat_eqb (s_map s) (Some i)
     | None => false
     end.
