(* Proofs about the cleanup decision (Life/Classify.v), generic in the arm order. *)
From Verif Require Import Life.Classify.

Lemma guard_eqb_refl g : guard_eqb g g = true.
Proof. destruct g; reflexivity. Qed.

Lemma guard_eqb_eq a b : guard_eqb a b = true -> a = b.
Proof. destruct a, b; simpl; congruence. Qed.

(* ---------- fatal ---------- *)
Lemma fatal_degrades_generic arms :
  fatal_first arms = true ->
  forall f rec, decide arms RFatal f rec = Final Degraded TFatal
                /\ enters_recovery arms RFatal f = false.
Proof.
  intros Hff f rec. destruct arms as [|g rest]; [discriminate|].
  destruct g; try discriminate. simpl. split; reflexivity.
Qed.

(* ---------- a held stop guard that precedes the recover arm pre-empts recovery ---------- *)
Lemma before_recover_blocks g arms r f :
  before_recover g arms = true -> guard_holds g r f = true ->
  enters_recovery_err arms r f = false
  /\ forall rec, decide_err arms r f rec <> Restart.
Proof.
  intros Hb Hg. induction arms as [|a rest IH]; [discriminate|].
  simpl in Hb. destruct (guard_eqb a GRecover) eqn:Ear; [discriminate|].
  simpl. destruct (guard_holds a r f) eqn:Ha.
  - rewrite Ear. split; [reflexivity|]. intros rec.
    destruct a; simpl; try discriminate.
  - destruct (guard_eqb a g) eqn:Eag.
    + apply guard_eqb_eq in Eag. subst a. congruence.
    + apply IH. exact Hb.
Qed.

Lemma user_stop_generic arms :
  before_recover GIntentional arms = true ->
  forall r f rec, f_intentional f = true ->
    decide arms r f rec <> Restart /\ enters_recovery arms r f = false.
Proof.
  intros Hb r f rec Hi.
  destruct (before_recover_blocks GIntentional arms r f Hb Hi) as [H1 H2].
  destruct r; simpl; (split; [try discriminate; apply H2 | try reflexivity; exact H1]).
Qed.

Lemma shutdown_generic arms :
  before_recover GShutdown arms = true ->
  forall r f rec, f_shutdown f = true ->
    decide arms r f rec <> Restart /\ enters_recovery arms r f = false.
Proof.
  intros Hb r f rec Hi.
  destruct (before_recover_blocks GShutdown arms r f Hb Hi) as [H1 H2].
  destruct r; simpl; (split; [try discriminate; apply H2 | try reflexivity; exact H1]).
Qed.

(* the status a stopped run ends in: a non-fatal reason under a stop flag ends in the matching
   stopped status with no error recorded *)
Lemma stop_status_intentional arms r f rec :
  before_recover GIntentional arms = true -> is_fatal r = false ->
  f_shutdown f = false -> f_intentional f = true ->
  decide_err arms r f rec = Final UserStopped TNil.
Proof.
  intros Hb Hnf Hsh Hin. induction arms as [|a rest IH]; [discriminate|].
  simpl in Hb. destruct (guard_eqb a GRecover) eqn:Ear; [discriminate|].
  destruct a; simpl in *; try discriminate.
  - rewrite Hnf. apply IH. exact Hb.
  - rewrite Hsh. apply IH. exact Hb.
  - rewrite Hin. reflexivity.
Qed.

Lemma stop_status_shutdown arms r f rec :
  before_recover GShutdown arms = true -> is_fatal r = false -> f_shutdown f = true ->
  exists s, decide_err arms r f rec = Final s TNil /\
            (s = SystemStopped \/ s = UserStopped /\ f_intentional f = true).
Proof.
  intros Hb Hnf Hsh. induction arms as [|a rest IH]; [discriminate|].
  simpl in Hb. destruct (guard_eqb a GRecover) eqn:Ear; [discriminate|].
  destruct a; simpl in *; try discriminate.
  - rewrite Hnf. apply IH. exact Hb.
  - rewrite Hsh. eexists. split; [reflexivity|]. left. reflexivity.
  - destruct (f_intentional f) eqn:Hin.
    + eexists. split; [reflexivity|]. right. split; reflexivity.
    + apply IH. exact Hb.
Qed.

(* ---------- transient reasons reach the recover arm when no stop flag is up ---------- *)
Lemma transient_recovers_generic arms r :
  has_recover arms = true -> is_fatal r = false -> r <> RNil ->
  enters_recovery arms r (mkFlags false false) = true
  /\ forall rec, decide arms r (mkFlags false false) rec = arm_body GRecover rec.
Proof.
  intros Hr Hnf Hnn.
  assert (H : enters_recovery_err arms r (mkFlags false false) = true
              /\ forall rec, decide_err arms r (mkFlags false false) rec = arm_body GRecover rec).
  { induction arms as [|a rest IH]; [discriminate|].
    simpl in Hr. destruct a; simpl in *.
    - rewrite Hnf. apply IH. exact Hr.
    - apply IH. exact Hr.
    - apply IH. exact Hr.
    - split; reflexivity. }
  destruct r; try (exact H); congruence.
Qed.

(* ---------- tomb latch ---------- *)
Lemma kills_first r rs : kills (r :: rs) = Some r.
Proof.
  unfold kills. simpl. induction rs as [|x rs IH] using rev_ind; [reflexivity|].
  rewrite fold_left_app. simpl. rewrite IH. reflexivity.
Qed.

Lemma first_reason_decides_generic arms r rs f rec :
  decide arms (tomb_err (kills (r :: rs))) f rec = decide arms r f rec.
Proof. rewrite kills_first. reflexivity. Qed.

(* ---------- the arm orders of the code as read today satisfy the conditions ---------- *)
Lemma v1_fatal_first : fatal_first v1_arms = true. Proof. reflexivity. Qed.
Lemma v2_fatal_first : fatal_first v2_arms = true. Proof. reflexivity. Qed.
Lemma v2_stops_before_recover : stops_before_recover v2_arms = true. Proof. reflexivity. Qed.
Lemma v1_no_stop_arms : stops_before_recover v1_arms = false. Proof. reflexivity. Qed.

(* ---------- every one of the property's fatal causes carries the fatal tag ---------- *)
Lemma fatal_causes_tagged e k : property_fatal k = true -> engine_tag e true k = RFatal.
Proof. destruct e, k; simpl; intros H; try discriminate; reflexivity. Qed.

Lemma fatal_causes_degrade e k f rec :
  property_fatal k = true ->
  decide (arms_of e) (engine_tag e true k) f rec = Final Degraded TFatal
  /\ enters_recovery (arms_of e) (engine_tag e true k) f = false.
Proof.
  intros H. rewrite (fatal_causes_tagged e k H). destruct e; apply fatal_degrades_generic; reflexivity.
Qed.

(* the causes the property calls transient stay recoverable *)
Lemma transient_causes_not_tagged e k : property_fatal k = false -> engine_tag e true k = RTransient.
Proof. destruct e, k; simpl; intros H; try discriminate; reflexivity. Qed.

(* a force stop whose Kill site does not wrap FatalError would be recovered (mutation analysis) *)
Lemma unwrapped_force_stop_restarts e :
  decide (arms_of e) (engine_tag e false FForceStop) (mkFlags false false) RecRestarted = Restart.
Proof. destruct e; reflexivity. Qed.

Lemma user_stop_status_v2 r rec :
  is_fatal r = false -> r <> RNil ->
  decide v2_arms r (mkFlags false true) rec = Final UserStopped TNil.
Proof.
  intros Hf Hn. destruct r; try congruence; try discriminate;
    apply (stop_status_intentional v2_arms _ (mkFlags false true) rec eq_refl); reflexivity.
Qed.

Lemma shutdown_status_v2 r f rec :
  is_fatal r = false -> r <> RNil -> f_shutdown f = true ->
  exists s, decide v2_arms r f rec = Final s TNil /\
            (s = SystemStopped \/ s = UserStopped /\ f_intentional f = true).
Proof.
  intros Hf Hn Hs. destruct r; try congruence; try discriminate;
    apply (stop_status_shutdown v2_arms _ f rec eq_refl); auto.
Qed.

(* ---------- two arm orders that agree on every input are interchangeable ---------- *)
Lemma outcome_eqb_eq a b : outcome_eqb a b = true -> a = b.
Proof.
  destruct a as [s e| |], b as [s' e'| |]; simpl; try discriminate; try reflexivity.
  intros H. apply andb_prop in H. destruct H as [H1 H2].
  destruct s, s'; try discriminate; destruct e, e'; try discriminate; reflexivity.
Qed.

Lemma decide_agree_sound a b :
  decide_agree a b = true ->
  forall r f rec, decide a r f rec = decide b r f rec /\ enters_recovery a r f = enters_recovery b r f.
Proof.
  unfold decide_agree. intros H r f rec.
  rewrite forallb_forall in H.
  assert (Hr : In r all_reasons) by (destruct r; simpl; auto).
  specialize (H r Hr). rewrite forallb_forall in H.
  assert (Hf : In f all_flags) by (destruct f as [[] []]; simpl; auto).
  specialize (H f Hf). rewrite forallb_forall in H.
  assert (Hc : In rec all_recs) by (destruct rec; simpl; auto).
  specialize (H rec Hc). apply andb_prop in H. destruct H as [H1 H2].
  split; [apply outcome_eqb_eq; exact H1 | apply Bool.eqb_prop; exact H2].
Qed.
