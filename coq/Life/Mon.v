(* Property monitors for C10 and C11 over the observed event log of the real lifecycle service.

   The log is the linearised list of events written by harness/lib/lifex (status writes, plugin
   Open/Teardown, control calls and their return classes, failure injections, failure-handler
   calls, harness phases), with microsecond time stamps.  A monitor is a fold over the log that
   returns a bit set of violated rules (0 = the property holds on this log).  The rules speak about
   the property only; they do not depend on the engine. *)
From Coq Require Export ZArith List Bool.
From Verif Require Export Life.RunMap Life.Accept Dlq.Window.
Export ListNotations.
Local Open Scope Z_scope.

(* gate points and outcomes of a failure injection *)
Inductive point :=
| PSrcRead | PDstWrite | PDlqWrite | PProcDo
| PSrcTd | PDstTd | PDlqTd.
Inductive outc := OErr | ONack.

Inductive phase := PhFree | PhFinal | PhRestart | PhEnd.

Inductive lev :=
| EvSt (t : Z) (s : status)            (* a status write became visible *)
| EvStRet (t : Z) (s : status)         (* that UpdateStatus call returned to the engine *)
| EvOpen (t : Z) (c : conn)
| EvOpenFail (c : conn)
| EvTd (t : Z) (c : conn)
| EvWrite (c : conn)                   (* destination / DLQ accepted a record *)
| EvCall (k : ckind) (id : nat)
| EvRet (k : ckind) (id : nat) (e : ecls)
| EvInj (p : point) (o : outc)
| EvNotify (e : ecls)
| EvWedge
| EvStFail                             (* the store write of the UpdateStatus(StatusRunning) just seen failed *)
| EvPhase (p : phase).

Record lcfg := mkLcfg {
  l_engine : engine;
  l_proc : bool;
  l_dests : nat;                       (* number of destinations: 1, or 2 = the source fans out (arch-v2, funnel.Worker.doNextTask) *)
  l_dlq_size : nat; l_dlq_thr : nat;
  l_maxretries : Z;                    (* -1 = unbounded *)
  l_min : Z; l_max : Z; l_window : Z   (* microseconds *) }.

Definition kind_eqb (a b : ckind) : bool :=
  match a, b with
  | KStart, KStart | KStop, KStop | KForce, KForce | KStopWait, KStopWait | KStopAll, KStopAll | KWait, KWait => true
  | _, _ => false
  end.

Definition is_src (c : conn) : bool := match c with KSrc => true | _ => false end.
Definition stopped_status (s : status) : bool :=
  match s with UserStopped | SystemStopped | Degraded => true | _ => false end.
Definition is_nil (e : ecls) : bool := ecls_eqb e CNil.

(* ---------- what kind of cause an injected failure is, as the PROPERTY classifies it ----------
   hist: outcomes of the destination in the current run, oldest first, true = rejected (the DLQ
   window of C07 decides whether a rejection is absorbed by the DLQ). *)
Inductive pcause := PNone | PTransient | PFatalThreshold | PFatalProc | PFatalDlqWrite.

Inductive lastrej := LRNone | LRDst | LRProc.

(* which failure of the property's vocabulary an injection is *)
Definition fail_of (cf : lcfg) (hist : list bool) (lr : lastrej) (p : point) (o : outc) : option pfail :=
  let tol := tolerated (l_dlq_size cf) (l_dlq_thr cf) hist in
  let thr := (0 <? l_dlq_thr cf)%nat in
  match p, o with
  | PSrcRead, _ => Some FSrcRead
  | PDstWrite, OErr => Some FDstWrite
  | PDstWrite, ONack => if tol then None else Some (if thr then FThreshold else FDstRejectDlqOff)
  | PProcDo, _ => if tol then None else Some (FProcNotAbsorbed thr)
  | PDlqWrite, _ => Some (match lr with LRProc => FDlqWriteAfterProc | _ => FDlqWriteAfterDst end)
  | PSrcTd, _ | PDstTd, _ | PDlqTd, _ => Some FTeardown
  end.

(* the property's class of ONE failure *)
Definition pcause_of (k : pfail) : pcause :=
  if property_fatal k then
    match k with
    | FThreshold => PFatalThreshold
    | FProcNotAbsorbed _ => PFatalProc
    | _ => PFatalDlqWrite
    end
  else PTransient.

Definition is_reject (p : point) (o : outc) : bool :=
  match p, o with PDstWrite, ONack => true | PProcDo, _ => true | _, _ => false end.

(* ---------- which failure every injection of a log is: one pass over the log ----------
   State: the DLQ window's history of the current run, what rejected last, and - for a pipeline whose source fans
   out to [l_dests] destinations - how many branches of the current batch pass have answered and whether one of them
   has rejected the record.  funnel.multiAckNacker: the record is acknowledged (ONE ack in the DLQ window) when the
   last branch has written it and none rejected it; the FIRST rejection is terminal and goes to the DLQ once, every
   later vote of a sibling for that record is a no-op. *)
Record cst := mkCst { k_hist : list bool; k_lr : lastrej; k_n : nat; k_nacked : bool }.
Definition cst0 : cst := mkCst [] LRNone 0 false.

Definition raw_step (cf : lcfg) (k : cst) (e : lev) : cst * option pfail :=
  let multi := (1 <? l_dests cf)%nat in
  (* a branch of the pass has answered: the pass is over when all of them have *)
  let branch (h : list bool) (lr : lastrej) (nk : bool) :=
    let n' := S (k_n k) in
    if (l_dests cf <=? n')%nat then mkCst h lr 0 false else mkCst h lr n' nk in
  match e with
  | EvSt _ Running => (k, None)
  | EvSt _ _ => (cst0, None)
  | EvOpen _ KSrc => (cst0, None)
  | EvWrite KDst =>
      if multi then
        let last := (l_dests cf <=? S (k_n k))%nat in
        (branch (if last && negb (k_nacked k) then k_hist k ++ [false] else k_hist k) (k_lr k) (k_nacked k), None)
      else (mkCst (k_hist k ++ [false]) (k_lr k) 0 false, None)
  | EvInj p o =>
      match p, o with
      | PDstWrite, ONack =>
          if multi && k_nacked k then (branch (k_hist k) (k_lr k) true, None)       (* a sibling rejected it first: no-op *)
          else
            let f := fail_of cf (k_hist k) (k_lr k) p o in
            if multi then (branch (k_hist k ++ [true]) LRDst true, f)
            else (mkCst (k_hist k ++ [true]) LRDst 0 false, f)
      | PDstWrite, OErr =>
          let f := fail_of cf (k_hist k) (k_lr k) p o in
          if multi then (branch (k_hist k) (k_lr k) (k_nacked k), f) else (k, f)
      | PProcDo, _ =>
          (mkCst (k_hist k ++ [true]) LRProc (k_n k) (k_nacked k), fail_of cf (k_hist k) (k_lr k) p o)
      | _, _ => (k, fail_of cf (k_hist k) (k_lr k) p o)
      end
  | _ => (k, None)
  end.

Fixpoint raw_annot (cf : lcfg) (k : cst) (log : list lev) : list (lev * option pfail) :=
  match log with
  | [] => []
  | e :: t => let '(k', f) := raw_step cf k e in (e, f) :: raw_annot cf k' t
  end.

(* ---------- arch-v2: the failures of one batch pass reach the tomb as ONE error ----------
   The worker of a source is one goroutine: Source read, processors, the destination branches and the DLQ of a batch
   pass run inside Worker.doTask, whose error is the errors.Join of the branch errors (Life/Fanout.v); Worker.Do
   returns at the first failing pass and runPipeline Kills the tomb with that one error before anything else of the
   run can (the connectors' teardown comes after it).  So the failures injected at these points between the first
   one and the end of the run are MEMBERS of one joined error: the first injection is annotated with all of them (in
   log order = the order in which the branches finished), the later ones with none. *)
Definition worker_point (p : point) : bool :=
  match p with PSrcRead | PDstWrite | PDlqWrite | PProcDo => true | _ => false end.

Definition run_end (e : lev) : bool :=
  match e with
  | EvOpen _ KSrc => true
  | EvSt _ Running => false
  | EvSt _ _ => true
  | _ => false
  end.

Fixpoint members_ahead (l : list (lev * option pfail)) : list pfail :=
  match l with
  | [] => []
  | (e, f) :: t =>
      if run_end e then []
      else match e, f with
           | EvInj p _, Some x => if worker_point p then x :: members_ahead t else members_ahead t
           | _, _ => members_ahead t
           end
  end.

Fixpoint join_annot (v2 : bool) (injoin : bool) (l : list (lev * option pfail)) : list (lev * list pfail) :=
  match l with
  | [] => []
  | (e, f) :: t =>
      let inj0 := if run_end e then false else injoin in
      match e, f with
      | EvInj p _, Some x =>
          if v2 && worker_point p then
            if inj0 then (e, []) :: join_annot v2 true t
            else (e, x :: members_ahead t) :: join_annot v2 true t
          else (e, [x]) :: join_annot v2 inj0 t
      | _, _ => (e, []) :: join_annot v2 inj0 t
      end
  end.

Definition is_v2 (cf : lcfg) : bool := match l_engine cf with V2 => true | V1 => false end.

(* every event with the failures it stands for ([] = none; more than one = a joined error of arch-v2) *)
Definition annot (cf : lcfg) (log : list lev) : list (lev * list pfail) :=
  join_annot (is_v2 cf) false (raw_annot cf cst0 log).

(* the property's class of a joined error: fatal as soon as one member is a fatal cause (its kind = the first one's) *)
Definition pcause_join (ms : list pfail) : pcause :=
  match filter property_fatal ms with
  | k :: _ => pcause_of k
  | [] => match ms with [] => PNone | _ => PTransient end
  end.

(* the joined error has a fatal member AND a transient sibling *)
Definition mixed_join (ms : list pfail) : bool :=
  existsb property_fatal ms && existsb (fun k => negb (property_fatal k)) ms.

(* ---------- rule bits ---------- *)
Definition bit (n : nat) : N := N.shiftl 1 (N.of_nat n).
Definition has (v b : N) : bool := negb (N.eqb (N.land v b) 0).

(* C10 *)
Definition R_fatal_restarted      := bit 2.
Definition R_userstop_live        := bit 3.    (* user stop of a live run returned nil, later restarted automatically *)
Definition R_userstop_dead        := bit 4.    (* user stop during the back-off returned nil, later restarted automatically *)
Definition R_shutdown_live        := bit 5.
Definition R_shutdown_dead        := bit 6.
Definition R_stop_status          := bit 7.    (* a stopped run ended in a status that does not match *)
Definition R_attempts             := bit 8.    (* more restart attempts than MaxRetries inside one window *)
Definition R_delay                := bit 9.    (* restart earlier than MinDelay after the attempt *)
Definition R_transient_degraded   := bit 10.   (* a transient cause degraded the pipeline although retries were left *)
Definition R_kind_dlqwrite        := bit 11.
Definition R_kind_proc            := bit 12.
Definition R_kind_threshold       := bit 13.
Definition R_kind_force           := bit 14.
(* C11 *)
Definition Q_two_live             := bit 2.
Definition Q_wait_early           := bit 3.    (* wait returned although the run it had to wait for is still live *)
Definition Q_wait_class           := bit 4.
Definition Q_stop_nothing         := bit 5.    (* stop answered "not running" while the pipeline is Running and its run is live *)
Definition Q_status_live          := bit 6.    (* a terminal / recovering status was written while a run is live *)
Definition Q_final                := bit 7.    (* stored status disagrees with the runs once everything is quiet *)
Definition Q_restart_refused      := bit 8.    (* after the end a new Start is refused *)
Definition Q_wedge                := bit 9.
Definition Q_wait_stale           := bit 10.   (* nothing runs: wait reported a result that is not the last run's *)

(* =====================================================================
   Mon_C10
   ===================================================================== *)
Record m10 := mkM10 {
  a_open : bool;              (* a source plugin is open *)
  a_ustart : bool;            (* a user Start is in flight / returned nil and its source has not opened yet *)
  a_fatal : nat; a_trans : nat;       (* property-level causes seen in the current run *)
  a_kind : N;                 (* kind bit of the first fatal cause of the current run *)
  a_hist : list bool;         (* destination outcomes of the current run, oldest first, true = rejected *)
  a_ended : bool;             (* the current run's source was torn down, its closing status is still to come *)
  a_stopcall : bool;          (* a graceful user stop was issued on a live run (since the last user Start) *)
  a_forcecall : bool;
  a_shutcall : bool;
  a_ustop : option bool;      (* a user stop RETURNED nil: Some true = it acted on a live run, Some false = on a dead one *)
  a_shut : option bool;       (* StopAll returned: Some true = a run was live at the call *)
  a_calls : list (nat * (bool * bool)); (* call id -> (it found a live run, the status was Recovering) when issued *)
  a_attempts : list Z;        (* attempt times (UpdateStatus(Recovering) returned) of restarts that happened *)
  a_lastrec : option Z;
  a_v : N }.

Definition a0 : m10 := mkM10 false false 0 0 0 [] false false false false None None [] [] None 0.

Definition a_flag (c : bool) (b : N) (s : m10) : m10 :=
  if c then mkM10 (a_open s) (a_ustart s) (a_fatal s) (a_trans s) (a_kind s) (a_hist s) (a_ended s) (a_stopcall s)
                  (a_forcecall s) (a_shutcall s) (a_ustop s) (a_shut s) (a_calls s) (a_attempts s) (a_lastrec s)
                  (N.lor (a_v s) b)
  else s.

Fixpoint lookup_b (id : nat) (l : list (nat * (bool * bool))) : bool * bool :=
  match l with [] => (false, false) | (j, x) :: t => if Nat.eqb j id then x else lookup_b id t end.

Definition count_after (t : Z) (l : list Z) : Z := Z.of_nat (length (filter (fun x => t <? x) l)).

Definition kind_bit (c : pcause) : N :=
  match c with
  | PFatalDlqWrite => R_kind_dlqwrite | PFatalProc => R_kind_proc | PFatalThreshold => R_kind_threshold
  | _ => 0%N
  end.

Definition is_stopkind (k : ckind) : bool :=
  match k with KStop | KStopWait => true | _ => false end.

(* cur: the stored status before this event *)
Definition mon10_step (cf : lcfg) (cur : status) (ms : list pfail) (s : m10) (e : lev) : m10 :=
  match e with
  | EvOpen t KSrc =>
      let auto := negb (a_ustart s) in
      let s1 := a_flag (auto && match a_ustop s with Some true => true | _ => false end) R_userstop_live s in
      let s2 := a_flag (auto && match a_ustop s with Some false => true | _ => false end) R_userstop_dead s1 in
      let s3 := a_flag (auto && match a_shut s with Some true => true | _ => false end) R_shutdown_live s2 in
      let s4 := a_flag (auto && match a_shut s with Some false => true | _ => false end) R_shutdown_dead s3 in
      let s5 := match a_lastrec s with
                | Some tr =>
                    if auto then
                      let s' := a_flag (t - tr <? l_min cf) R_delay s4 in
                      (* sound whatever the scheduling delays: attempt j (logged at tj, real start >= tj, delay
                         >= Min) is still counted by the code when this attempt k starts (real start <= t - Min,
                         t = time of this Open) as soon as tj + Min + W > t - Min *)
                      let n := count_after (t - l_window cf - 2 * l_min cf) (a_attempts s) + 1 in
                      a_flag ((0 <=? l_maxretries cf) && (l_maxretries cf <? n)) R_attempts s'
                    else s4
                | None => s4
                end in
      let atts := match a_lastrec s with
                  | Some tr => if auto then tr :: a_attempts s else a_attempts s
                  | None => a_attempts s
                  end in
      mkM10 true false 0 0 0 [] false (a_stopcall s5) (a_forcecall s5) (a_shutcall s5)
            (if auto then None else a_ustop s5) (if auto then None else a_shut s5)
            (a_calls s5) atts None (a_v s5)
  | EvOpen _ _ => s
  | EvOpenFail KSrc =>
      mkM10 (a_open s) false (a_fatal s) (a_trans s) (a_kind s) (a_hist s) (a_ended s) (a_stopcall s) (a_forcecall s)
            (a_shutcall s) (a_ustop s) (a_shut s) (a_calls s) (a_attempts s) (a_lastrec s) (a_v s)
  | EvOpenFail _ => s
  | EvTd _ KSrc =>
      mkM10 false (a_ustart s) (a_fatal s) (a_trans s) (a_kind s) (a_hist s) true (a_stopcall s) (a_forcecall s)
            (a_shutcall s) (a_ustop s) (a_shut s) (a_calls s) (a_attempts s) (a_lastrec s) (a_v s)
  | EvTd _ _ => s
  | EvWrite KDst =>
      mkM10 (a_open s) (a_ustart s) (a_fatal s) (a_trans s) (a_kind s) (a_hist s ++ [false]) (a_ended s) (a_stopcall s)
            (a_forcecall s) (a_shutcall s) (a_ustop s) (a_shut s) (a_calls s) (a_attempts s) (a_lastrec s) (a_v s)
  | EvWrite _ => s
  | EvInj p o =>
      let c := pcause_join ms in
      let h := if is_reject p o then a_hist s ++ [true] else a_hist s in
      let isf := match c with PFatalThreshold | PFatalProc | PFatalDlqWrite => true | _ => false end in
      let ist := match c with PTransient => true | _ => false end in
      mkM10 (a_open s) (a_ustart s) (if isf then S (a_fatal s) else a_fatal s) (if ist then S (a_trans s) else a_trans s)
            (if isf && N.eqb (a_kind s) 0 then kind_bit c else a_kind s) h (a_ended s) (a_stopcall s) (a_forcecall s)
            (a_shutcall s) (a_ustop s) (a_shut s) (a_calls s) (a_attempts s) (a_lastrec s) (a_v s)
  | EvCall k id =>
      (* the call finds a live run: a source is open and the pipeline is reported Running (during a recovery
         restart the source of the new run opens before Running is written: a stop issued then still
         resolves the dead run) *)
      let live := a_open s && status_eqb cur Running in
      let calls := (id, (live, status_eqb cur Recovering)) :: a_calls s in
      match k with
      | KStart =>
          mkM10 (a_open s) true (a_fatal s) (a_trans s) (a_kind s) (a_hist s) (a_ended s) (a_stopcall s)
                (a_forcecall s) (a_shutcall s) (a_ustop s) (a_shut s) calls (a_attempts s) (a_lastrec s) (a_v s)
      | KStop | KStopWait =>
          mkM10 (a_open s) (a_ustart s) (a_fatal s) (a_trans s) (a_kind s) (a_hist s) (a_ended s) true
                (a_forcecall s) (a_shutcall s) (a_ustop s) (a_shut s) calls (a_attempts s) (a_lastrec s) (a_v s)
      | KForce =>
          (* the force stop Kills the tomb of the run it finds: a fatal cause of THAT run (counted when the call
             is issued: by the time the call returns a recovery may already have put a new run up) *)
          mkM10 (a_open s) (a_ustart s) (if live then S (a_fatal s) else a_fatal s) (a_trans s)
                (if live && N.eqb (a_kind s) 0 then R_kind_force else a_kind s) (a_hist s) (a_ended s) (a_stopcall s)
                true (a_shutcall s) (a_ustop s) (a_shut s) calls (a_attempts s) (a_lastrec s) (a_v s)
      | KStopAll =>
          mkM10 (a_open s) (a_ustart s) (a_fatal s) (a_trans s) (a_kind s) (a_hist s) (a_ended s) (a_stopcall s)
                (a_forcecall s) true (a_ustop s) (a_shut s) calls (a_attempts s) (a_lastrec s) (a_v s)
      | KWait =>
          mkM10 (a_open s) (a_ustart s) (a_fatal s) (a_trans s) (a_kind s) (a_hist s) (a_ended s) (a_stopcall s)
                (a_forcecall s) (a_shutcall s) (a_ustop s) (a_shut s) calls (a_attempts s) (a_lastrec s) (a_v s)
      end
  | EvRet k id e =>
      let '(live, wasrec) := lookup_b id (a_calls s) in
      match k with
      | KStart =>
          if is_nil e
          then (* the user has taken over: earlier stop requests no longer apply
               (a shutdown is final: it stays in force) *)
               mkM10 (a_open s) (a_ustart s) (a_fatal s) (a_trans s) (a_kind s) (a_hist s) (a_ended s) false false
                     (a_shutcall s) None (a_shut s) (a_calls s) (a_attempts s) (a_lastrec s) (a_v s)
          else if ecls_eqb e CRunning
               then s   (* refused at the status check: it did nothing, an earlier Start may still be opening *)
               else mkM10 (a_open s) false (a_fatal s) (a_trans s) (a_kind s) (a_hist s) (a_ended s) (a_stopcall s)
                     (a_forcecall s) (a_shutcall s) (a_ustop s) (a_shut s) (a_calls s) (a_attempts s) (a_lastrec s) (a_v s)
      | KStop | KStopWait =>
          if is_nil e
          then (* a stop that resolved the dead run of a recovery, while the restarted run is already up *)
               let s := a_flag (wasrec && a_open s && negb (a_ustart s)) R_userstop_dead s in
               mkM10 (a_open s) (a_ustart s) (a_fatal s) (a_trans s) (a_kind s) (a_hist s) (a_ended s) (a_stopcall s)
                     (a_forcecall s) (a_shutcall s) (Some live) (a_shut s) (a_calls s) (a_attempts s) (a_lastrec s) (a_v s)
          else s
      | KForce =>
          if is_nil e
          then let s := a_flag (wasrec && a_open s && negb (a_ustart s)) R_userstop_dead s in
               mkM10 (a_open s) (a_ustart s) (a_fatal s) (a_trans s) (a_kind s) (a_hist s) (a_ended s)
                     (a_stopcall s) (a_forcecall s) (a_shutcall s) (Some live) (a_shut s) (a_calls s) (a_attempts s)
                     (a_lastrec s) (a_v s)
          else s
      | KStopAll =>
          mkM10 (a_open s) (a_ustart s) (a_fatal s) (a_trans s) (a_kind s) (a_hist s) (a_ended s) (a_stopcall s)
                (a_forcecall s) (a_shutcall s) (a_ustop s) (Some live) (a_calls s) (a_attempts s) (a_lastrec s) (a_v s)
      | KWait => s
      end
  | EvSt t x =>
      match x with
      | Running => s
      | _ =>
          if a_ended s then
            let onlyfatal := (0 <? a_fatal s)%nat && (a_trans s =? 0)%nat in
            let onlytrans := (0 <? a_trans s)%nat && (a_fatal s =? 0)%nat in
            let anystop := a_stopcall s || a_shutcall s in
            (* R1: nothing but fatal causes: the run must degrade *)
            let s1 := a_flag (onlyfatal && negb (status_eqb x Degraded)) (N.lor R_fatal_restarted (a_kind s)) s in
            (* R5: the closing status of a stopped run, and no stopped status without a stop *)
            let bad :=
              match x with
              | UserStopped =>
                  (* v2 (9382932): a force stop also marks the run as intentionally stopped; when it loses the
                     tomb's first-reason race against a transient error the run ends UserStopped *)
                  negb (a_stopcall s) && negb (match l_engine cf with V2 => a_forcecall s | V1 => false end)
              | SystemStopped => negb (a_shutcall s)
              | Degraded => anystop && (a_fatal s =? 0)%nat && negb (a_forcecall s)
              | _ => false
              end in
            let s2 := a_flag bad R_stop_status s1 in
            (* R8: only transient causes, nobody stopped it, retries left: it must recover *)
            let recent := count_after (t - (l_window cf + l_max cf + 20000)) (a_attempts s) in
            let s3 := a_flag (onlytrans && negb anystop && negb (a_forcecall s) && status_eqb x Degraded
                              && ((l_maxretries cf <? 0) || (recent <? l_maxretries cf))) R_transient_degraded s2 in
            mkM10 (a_open s3) (a_ustart s3) 0 0 0 [] false (a_stopcall s3) (a_forcecall s3) (a_shutcall s3)
                  (a_ustop s3) (a_shut s3) (a_calls s3) (a_attempts s3) (a_lastrec s3) (a_v s3)
          else
            (* R8b: the recovery gives up AT ONCE (Degraded follows the Recovering write in less than MinDelay:
               no sleep, so this is the attempt check of StartWithBackoff, not a failed nested Start) although
               fewer than MaxRetries attempts lie inside the preceding window: an attempt older than
               MaxRetriesWindow (+ its delay <= MaxDelay, + 40 ms for a late timer) must have been forgotten *)
            let recent := count_after (t - (l_window cf + l_max cf + 40000)) (a_attempts s) in
            let early :=
              status_eqb x Degraded && status_eqb cur Recovering && (0 <=? l_maxretries cf)
              && (recent <? l_maxretries cf)
              && negb (a_stopcall s || a_forcecall s || a_shutcall s) && negb (a_ustart s)
              && match a_lastrec s with Some tr => t - tr <? l_min cf | None => false end in
            a_flag early R_transient_degraded s
      end
  | EvStRet t x =>
      let lr := match x with
                | Recovering => Some t
                | Running => a_lastrec s
                | _ => None
                end in
      (* an earlier attempt of the same recovery chain whose restarted run died before its source opened
         (it is consumed by EvOpen otherwise) was an accepted attempt all the same *)
      let atts := match x, a_lastrec s with
                  | Recovering, Some tr0 => tr0 :: a_attempts s
                  | _, _ => a_attempts s
                  end in
      mkM10 (a_open s) (a_ustart s) (a_fatal s) (a_trans s) (a_kind s) (a_hist s) (a_ended s) (a_stopcall s)
            (a_forcecall s) (a_shutcall s) (a_ustop s) (a_shut s) (a_calls s) atts lr (a_v s)
  | EvNotify _ | EvWedge | EvStFail | EvPhase _ => s
  end.

(* every event together with the status stored before it *)
Fixpoint annotate {A} (cur : status) (log : list (lev * A)) : list (status * (lev * A)) :=
  match log with
  | [] => []
  | e :: t => (cur, e) :: annotate (match fst e with EvSt _ x => x | _ => cur end) t
  end.

Definition mon10 (cf : lcfg) (log : list lev) : N :=
  a_v (fold_left (fun s ce => mon10_step cf (fst ce) (snd (snd ce)) s (fst (snd ce))) (annotate UserStopped (annot cf log)) a0).

(* =====================================================================
   Mon_C11
   ===================================================================== *)
Record m11 := mkM11 {
  b_open : bool;
  b_seq : nat;                         (* number of source opens so far *)
  b_status : status;
  b_lastend : list (nat * status);     (* run number -> the closing status written after its source was torn down *)
  b_pend : option nat;                 (* the run whose source was torn down and whose closing status is to come *)
  b_calls : list (nat * (bool * bool * nat));   (* call id -> (source open, status Running, seq) when issued *)
  b_restart : bool;                    (* the harness is in its restart phase *)
  b_act : nat;                         (* number of status writes and Start calls / returns so far *)
  b_startfl : bool;                    (* a Start call is in flight *)
  b_wq : list (nat * nat);             (* waits issued while everything was quiet: call id -> b_act when issued *)
  b_stfail : bool;                     (* the Running write of the run now coming up failed in the store: the engine is
                                          winding that run down by itself, a Stop has nothing to act on (the in-memory
                                          status says Running only because pipeline.Service sets it before the write) *)
  b_v : N }.

Definition b0 : m11 := mkM11 false 0 UserStopped [] None [] false 0 false [] false 0.

Definition b_flag (c : bool) (b : N) (s : m11) : m11 :=
  if c then mkM11 (b_open s) (b_seq s) (b_status s) (b_lastend s) (b_pend s) (b_calls s) (b_restart s)
                  (b_act s) (b_startfl s) (b_wq s) (b_stfail s) (N.lor (b_v s) b) else s.

Fixpoint lookup_c (id : nat) (l : list (nat * (bool * bool * nat))) : bool * bool * nat :=
  match l with [] => (false, false, 0%nat) | (j, x) :: t => if Nat.eqb j id then x else lookup_c id t end.

Fixpoint lookup_end (k : nat) (l : list (nat * status)) : option status :=
  match l with [] => None | (j, x) :: t => if Nat.eqb j k then Some x else lookup_end k t end.

Fixpoint lookup_q (id : nat) (l : list (nat * nat)) : option nat :=
  match l with [] => None | (j, x) :: t => if Nat.eqb j id then Some x else lookup_q id t end.

Definition class_matches (e : ecls) (st : status) : bool :=
  match st with Recovering => true | _ =>     (* not a final status: the recovery decides later *)
  match e with
  | CNil => match st with UserStopped | SystemStopped => true | _ => false end
  | CFatal | CForce | CExhausted => match st with Degraded => true | _ => false end
  | _ => true
  end end.

Definition mon11_step (s : m11) (e : lev) : m11 :=
  match e with
  | EvOpen _ KSrc =>
      let s1 := b_flag (b_open s) Q_two_live s in
      mkM11 true (S (b_seq s1)) (b_status s1) (b_lastend s1) (b_pend s1) (b_calls s1) (b_restart s1)
            (b_act s1) (b_startfl s1) (b_wq s1) (b_stfail s1) (b_v s1)
  | EvTd _ KSrc =>
      mkM11 false (b_seq s) (b_status s) (b_lastend s) (Some (b_seq s)) (b_calls s) (b_restart s)
            (b_act s) (b_startfl s) (b_wq s) false (b_v s)
  | EvSt _ x =>
      let closing := negb (status_eqb x Running) in
      let s1 := b_flag (closing && b_open s) Q_status_live s in
      let ends := match b_pend s1 with
                  | Some k => if closing then (k, x) :: b_lastend s1 else b_lastend s1
                  | None => b_lastend s1
                  end in
      mkM11 (b_open s1) (b_seq s1) x ends (if closing then None else b_pend s1) (b_calls s1) (b_restart s1)
            (S (b_act s1)) (b_startfl s1) (b_wq s1) (closing && b_stfail s1) (b_v s1)
  | EvStFail =>
      mkM11 (b_open s) (b_seq s) (b_status s) (b_lastend s) (b_pend s) (b_calls s) (b_restart s)
            (b_act s) (b_startfl s) (b_wq s) true (b_v s)
  | EvCall k id =>
      let isstart := kind_eqb k KStart in
      let quiet := negb (b_open s) && stopped_status (b_status s) && negb (b_startfl s)
                   && match b_pend s with None => true | Some _ => false end in
      mkM11 (b_open s) (b_seq s) (b_status s) (b_lastend s) (b_pend s)
            ((id, (b_open s, status_eqb (b_status s) Running, b_seq s)) :: b_calls s) (b_restart s)
            (if isstart then S (b_act s) else b_act s) (b_startfl s || isstart)
            (if kind_eqb k KWait && quiet then (id, b_act s) :: b_wq s else b_wq s) (b_stfail s) (b_v s)
  | EvRet k id e =>
      let '(wasopen, wasrunning, seq) := lookup_c id (b_calls s) in
      let same_live := wasopen && wasrunning && b_open s && Nat.eqb (b_seq s) seq in
      match k with
      | KWait =>
          let s1 := b_flag same_live Q_wait_early s in
          (* the closing status of the run that was up when the wait was issued *)
          let okclass :=
            match lookup_end seq (b_lastend s) with
            | None => true                               (* not known (yet): nothing to compare *)
            | Some st => class_matches e st
            end in
          let s2 := b_flag (negb same_live && wasopen && wasrunning && negb okclass) Q_wait_class s1 in
          (* a wait issued and answered while nothing ran, nothing was being started and no status was written:
             it reports the result of the LAST run, whose closing status is the stored status *)
          let stale :=
            match lookup_q id (b_wq s), b_lastend s with
            | Some n, (k0, st) :: _ =>
                Nat.eqb n (b_act s) && negb (b_open s) && Nat.eqb k0 (b_seq s) && status_eqb st (b_status s)
                && negb (class_matches e st)
            | _, _ => false
            end in
          b_flag stale Q_wait_stale s2
      | KStop | KStopWait | KForce =>
          b_flag (same_live && ecls_eqb e CNotRunning && negb (b_stfail s)) Q_stop_nothing s
      | KStart =>
          let s1 := b_flag (b_restart s && negb (is_nil e)) Q_restart_refused s in
          mkM11 (b_open s1) (b_seq s1) (b_status s1) (b_lastend s1) (b_pend s1) (b_calls s1) (b_restart s1)
                (S (b_act s1)) false (b_wq s1) (b_stfail s1) (b_v s1)
      | KStopAll => s
      end
  | EvPhase PhFinal =>
      b_flag (negb (if b_open s then status_eqb (b_status s) Running else stopped_status (b_status s))) Q_final s
  | EvPhase PhRestart => mkM11 (b_open s) (b_seq s) (b_status s) (b_lastend s) (b_pend s) (b_calls s) true
                               (b_act s) (b_startfl s) (b_wq s) (b_stfail s) (b_v s)
  | EvPhase PhEnd => b_flag (b_open s || negb (stopped_status (b_status s))) Q_final s
  | EvWedge => b_flag true Q_wedge s
  | _ => s
  end.

Definition mon11 (log : list lev) : N := b_v (fold_left mon11_step log b0).
