(* Concrete interleavings of the lifecycle model (Life/RunMap.v) that refute property statements
   for the code as it stands.  Each witness is a list of model actions; the lemmas are closed by
   computation.  The same histories are driven against the real services by the harness
   (corpus/C10, corpus/C11). *)
From Verif Require Import Life.RunMap.

Definition is_stop_kind (k : ckind) : bool :=
  match k with KStop | KForce | KStopWait | KStopAll => true | _ => false end.

(* after a stop call (stop / force stop / stop-and-wait / StopAll) has RETURNED nil, a source is
   opened again although no user Start was issued in between *)
Fixpoint reopen_without_start (ls : list label) : bool :=
  match ls with
  | [] => false
  | LOpen :: _ => true
  | LCall KStart _ :: _ => false
  | _ :: t => reopen_without_start t
  end.

Fixpoint stop_returned_nil (id : nat) (ls : list label) : option (list label) :=
  match ls with
  | [] => None
  | LRet j RetNil :: t => if Nat.eqb j id then Some t else stop_returned_nil id t
  | _ :: t => stop_returned_nil id t
  end.

Fixpoint restart_after_stop (ls : list label) : bool :=
  match ls with
  | [] => false
  | LCall k id :: t =>
      (if is_stop_kind k
       then match stop_returned_nil id t with Some rest => reopen_without_start rest | None => false end
       else false) || restart_after_stop t
  | _ :: t => restart_after_stop t
  end.

Definition refutes_stop (c : cfg) (acts : list act) : bool :=
  match trace c init acts with Some (ls, _) => restart_after_stop ls | None => false end.

Definition user n : list act := repeat (AUser 0) n.
Definition clean i n : list act := repeat (AClean i 0) n.
Definition start_v1 (id : nat) : list act := ACall KStart id :: user 8.
Definition start_v2 (id : nat) : list act := ACall KStart id :: user 10.
Definition fail_v1 (i : nat) (c : cause) : list act := [AInject i c; AKill i c; ATd i; AEnd i].

(* ---------- C10 ---------- *)

(* S4 (v1): a transient error that surfaces during the drain of a graceful user stop is recovered *)
Definition w_stop_drain_v1 : list act :=
  start_v1 0 ++ [AOpen 0; AInject 0 CaTransient; ACall KStop 1] ++ user 4 ++
  [AKill 0 CaTransient; ATd 0; AEnd 0] ++ clean 0 10 ++ [AOpen 1].

(* the same during a shutdown (StopAll) *)
Definition w_shutdown_drain_v1 : list act :=
  start_v1 0 ++ [AOpen 0; AInject 0 CaTransient; ACall KStopAll 1] ++ user 4 ++
  [AKill 0 CaTransient; ATd 0; AEnd 0] ++ clean 0 10 ++ [AOpen 1].

(* S5: a force stop issued during the back-off returns nil and the sleeping recovery restarts *)
Definition w_force_in_backoff_v1 : list act :=
  start_v1 0 ++ [AOpen 0] ++ fail_v1 0 CaTransient ++ clean 0 1 ++ [ACall KForce 1] ++ user 4 ++ clean 0 9 ++ [AOpen 1].
Definition w_stop_in_backoff_v2 : list act :=
  start_v2 0 ++ fail_v1 0 CaTransient ++ clean 0 1 ++ [ACall KStop 1] ++ user 4 ++ clean 0 11.
Definition w_force_in_backoff_v2 : list act :=
  start_v2 0 ++ fail_v1 0 CaTransient ++ clean 0 1 ++ [ACall KForce 1] ++ user 4 ++ clean 0 11.

(* v1: StopAll during the back-off does not stop the recovery *)
Definition w_shutdown_in_backoff_v1 : list act :=
  start_v1 0 ++ [AOpen 0] ++ fail_v1 0 CaTransient ++ clean 0 1 ++ [ACall KStopAll 1] ++ user 4 ++ clean 0 9 ++ [AOpen 1].

Lemma stop_drain_restarts_v1 : refutes_stop (cfg_v1 false) w_stop_drain_v1 = true.
Proof. vm_compute. reflexivity. Qed.
Lemma shutdown_drain_restarts_v1 : refutes_stop (cfg_v1 false) w_shutdown_drain_v1 = true.
Proof. vm_compute. reflexivity. Qed.
Lemma force_in_backoff_restarts_v1 : refutes_stop (cfg_v1 false) w_force_in_backoff_v1 = true.
Proof. vm_compute. reflexivity. Qed.
Lemma stop_in_backoff_restarts_v2 : refutes_stop (cfg_v2 false) w_stop_in_backoff_v2 = true.
Proof. vm_compute. reflexivity. Qed.
Lemma force_in_backoff_restarts_v2 : refutes_stop (cfg_v2 false) w_force_in_backoff_v2 = true.
Proof. vm_compute. reflexivity. Qed.
Lemma shutdown_in_backoff_restarts_v1 : refutes_stop (cfg_v1 false) w_shutdown_in_backoff_v1 = true.
Proof. vm_compute. reflexivity. Qed.

(* v2 does stop the recovery when StopAll comes during the back-off *)
Definition w_shutdown_in_backoff_v2 : list act :=
  start_v2 0 ++ fail_v1 0 CaTransient ++ clean 0 1 ++ [ACall KStopAll 1] ++ user 5 ++ clean 0 5.
Lemma shutdown_in_backoff_stops_v2 :
  match trace (cfg_v2 false) init w_shutdown_in_backoff_v2 with
  | Some (ls, s) => negb (restart_after_stop ls) && status_eqb (s_status s) SystemStopped
  | None => false
  end = true.
Proof. vm_compute. reflexivity. Qed.

(* ---------- C11 ---------- *)
Definition final (c : cfg) (acts : list act) : option st := run_acts c init acts.

(* v2: the cleanup goroutine deletes the map entry unconditionally. A Start admitted after the closing
   status of run 0 publishes run 1; the old cleanup's Delete then removes run 1's entry. *)
Definition w_blind_delete_v2 : list act :=
  start_v2 0 ++ fail_v1 0 CaFatal ++ clean 0 1 ++ start_v2 1 ++ clean 0 3.

Lemma blind_delete_v2 :
  match final (cfg_v2_shipped true) w_blind_delete_v2 with
  | Some s => quiescent s && status_eqb (s_status s) Running && onat_eqb (s_map s) None
              && onat_eqb (s_cur s) (Some 1) && is_live (s_runs s 1)
              && negb (running_map_ok s) && negb (agrees s)
  | None => false
  end = true.
Proof. vm_compute. reflexivity. Qed.

(* repaired (838f9f1, compare-and-delete): the same schedule leaves run 1's entry in place *)
Lemma blind_delete_repaired_v2 :
  match final (cfg_v2 true) w_blind_delete_v2 with
  | Some s => quiescent s && status_eqb (s_status s) Running && onat_eqb (s_map s) (Some 1)
              && running_map_ok s && agrees s
  | None => false
  end = true.
Proof. vm_compute. reflexivity. Qed.

(* ... after which Stop finds nothing and WaitPipeline returns the previous run's recorded result at once *)
Definition w_blind_delete_calls_v2 : list act :=
  w_blind_delete_v2 ++ [ACall KStop 2] ++ user 2 ++ [ACall KWait 3; AWaiter 3; AWaiter 3; AWaiter 3].

Fixpoint has_label (l : label -> bool) (ls : list label) : bool :=
  match ls with [] => false | x :: t => l x || has_label l t end.

Lemma blind_delete_calls_v2 :
  match trace (cfg_v2_shipped true) init w_blind_delete_calls_v2 with
  | Some (ls, s) =>
      is_live (s_runs s 1) && status_eqb (s_status s) Running
      && has_label (fun l => match l with LRet 2 RetNotRunning => true | _ => false end) ls
      && has_label (fun l => match l with LRet 3 (RetRes (ResCause CaFatal)) => true | _ => false end) ls
  | None => false
  end = true.
Proof. vm_compute. reflexivity. Qed.

(* v2: worker.Open fails at the DLQ: the rollback does not tear the source down. Nothing is running,
   the connector guard stays taken, every later Start is refused *)
Definition w_dlq_open_leak_v2 : list act := [ACall KStart 0] ++ user 5 ++ [AUser 1; AUser 0].
Lemma dlq_open_leak_v2 :
  match final (cfg_v2_shipped false) w_dlq_open_leak_v2 with
  | Some s => quiescent s && match live_runs s with [] => true | _ => false end && negb (guards_free s)
  | None => false
  end = true.
Proof. vm_compute. reflexivity. Qed.

Definition w_dlq_open_leak_restart_v2 : list act := w_dlq_open_leak_v2 ++ [ACall KStart 1] ++ user 3.
Lemma dlq_open_leak_refuses_start_v2 :
  match trace (cfg_v2_shipped false) init w_dlq_open_leak_restart_v2 with
  | Some (ls, _) => has_label (fun l => match l with LRet 1 RetErr => true | _ => false end) ls
  | None => false
  end = true.
Proof. vm_compute. reflexivity. Qed.

(* repaired (6946e0c): the rollback tears the source down (one more step of the Start), the guards are free and
   the next Start is admitted *)
Definition w_dlq_open_fail_v2 : list act := [ACall KStart 0] ++ user 5 ++ [AUser 1; AUser 0; AUser 0].
Lemma dlq_open_fail_repaired_v2 :
  match trace (cfg_v2 false) init (w_dlq_open_fail_v2 ++ start_v2 1) with
  | Some (ls, s) => quiescent s && guards_free (match final (cfg_v2 false) w_dlq_open_fail_v2 with Some s0 => s0 | None => s end)
                    && has_label (fun l => match l with LRet 1 RetNil => true | _ => false end) ls
                    && has_label (fun l => match l with LTd => true | _ => false end) ls
  | None => false
  end = true.
Proof. vm_compute. reflexivity. Qed.

(* v2: a processor whose Open fails keeps its running flag *)
Definition w_proc_open_leak_v2 : list act := [ACall KStart 0] ++ user 3 ++ [AUser 1; AUser 0].
Lemma proc_open_leak_v2 :
  match final (cfg_v2_shipped true) w_proc_open_leak_v2 with
  | Some s => quiescent s && match live_runs s with [] => true | _ => false end && negb (guards_free s)
  | None => false
  end = true.
Proof. vm_compute. reflexivity. Qed.

(* repaired (7f15ba5): the failed Open tears the processor down *)
Lemma proc_open_fail_repaired_v2 :
  match final (cfg_v2 true) w_proc_open_leak_v2 with
  | Some s => quiescent s && match live_runs s with [] => true | _ => false end && guards_free s
  | None => false
  end = true.
Proof. vm_compute. reflexivity. Qed.

(* both engines: Start is admitted while the status is Recovering. When the retries are exhausted
   (or the nested Start fails) the old cleanup wrote Degraded over the run the user just started.
   Repaired (degradeIfCurrent, [f_own_close]): the closing write of a failed recovery is skipped once another run
   has been published; the same schedules end Running with the user's run live *)
Definition w_start_in_backoff_v1 : list act :=
  start_v1 0 ++ [AOpenFail 0; AKill 0 CaTransient; AEnd 0] ++ clean 0 1 ++ start_v1 1 ++ [AClean 0 1] ++ clean 0 3 ++ [AOpen 1].
Lemma start_in_backoff_degrades_live_run_v1 :
  match final (cfg_v1_before_own_close true) w_start_in_backoff_v1 with
  | Some s => quiescent s && status_eqb (s_status s) Degraded && is_live (s_runs s 1) && negb (agrees s)
  | None => false
  end = true.
Proof. vm_compute. reflexivity. Qed.

Definition w_start_in_backoff_v2 : list act :=
  start_v2 0 ++ fail_v1 0 CaTransient ++ clean 0 1 ++ start_v2 1 ++ [AClean 0 1] ++ clean 0 3.
Lemma start_in_backoff_degrades_live_run_v2 :
  match final (cfg_v2_before_own_close true) w_start_in_backoff_v2 with
  | Some s => quiescent s && status_eqb (s_status s) Degraded && is_live (s_runs s 1) && negb (agrees s)
  | None => false
  end = true.
Proof. vm_compute. reflexivity. Qed.

Lemma start_in_backoff_repaired :
  (match final (cfg_v1 true) w_start_in_backoff_v1 with
   | Some s => quiescent s && status_eqb (s_status s) Running && is_live (s_runs s 1) && agrees s && running_map_ok s
   | None => false
   end = true)
  /\ (match final (cfg_v2 true) w_start_in_backoff_v2 with
      | Some s => quiescent s && status_eqb (s_status s) Running && is_live (s_runs s 1) && agrees s && running_map_ok s
      | None => false
      end = true).
Proof. vm_compute. split; reflexivity. Qed.

(* both engines, a POLITE history (no Start admitted while Recovering): the Running write of the recovery restart
   fails. The restarted run (1) is Killed and finalized as Degraded by its own cleanup goroutine (742a56e / eff71a0);
   Degraded admits a new Start; the user starts run 2; THEN the recovering run's cleanup (0), whose nested Start has
   returned the error, wrote Degraded a second time - over run 2. Repaired (degradeIfCurrent): the map entry is no
   longer run 0, the second write is skipped. *)
Definition w_stfail_restart_then_start_v1 : list act :=
  start_v1 0 ++ [AOpen 0] ++ fail_v1 0 CaTransient ++ clean 0 8 ++ [AClean 0 1; AOpen 1; ATd 1; AEnd 1] ++ clean 1 4
  ++ clean 0 1 ++ start_v1 1 ++ [AOpen 2] ++ clean 0 4.
Definition w_stfail_restart_then_start_v2 : list act :=
  start_v2 0 ++ fail_v1 0 CaTransient ++ clean 0 11 ++ [AClean 0 1; ATd 1; AEnd 1] ++ clean 1 4
  ++ clean 0 1 ++ start_v2 1 ++ clean 0 4.
Lemma second_degraded_write_over_new_run :
  (match final (cfg_v1_io_before_own_close true) w_stfail_restart_then_start_v1 with
   | Some s => quiescent s && status_eqb (s_status s) Degraded && is_live (s_runs s 2) && negb (agrees s)
   | None => false
   end = true)
  /\ (match final (cfg_v2_io_before_own_close true) w_stfail_restart_then_start_v2 with
      | Some s => quiescent s && status_eqb (s_status s) Degraded && is_live (s_runs s 2) && negb (agrees s)
      | None => false
      end = true).
Proof. vm_compute. split; reflexivity. Qed.
Lemma second_degraded_write_skipped_repaired :
  (match final (cfg_v1_io true) w_stfail_restart_then_start_v1 with
   | Some s => quiescent s && status_eqb (s_status s) Running && is_live (s_runs s 2) && agrees s && running_map_ok s
   | None => false
   end = true)
  /\ (match final (cfg_v2_io true) w_stfail_restart_then_start_v2 with
      | Some s => quiescent s && status_eqb (s_status s) Running && is_live (s_runs s 2) && agrees s && running_map_ok s
      | None => false
      end = true).
Proof. vm_compute. split; reflexivity. Qed.

(* v1: the user's Start and the recovery's nested Start both pass the status check: two runs are
   published, the map ends up pointing at the other one *)
Definition w_double_start_v1 : list act :=
  start_v1 0 ++ [AOpenFail 0; AKill 0 CaTransient; AEnd 0] ++ clean 0 8 ++ [AOpenFail 1; AKill 1 CaTransient; AEnd 1; ACall KStart 1] ++ user 5 ++ clean 0 1.
Lemma double_start_v1 :
  match final (cfg_v1 true) w_double_start_v1 with
  | Some s => status_eqb (s_status s) Running && negb (running_map_ok s)
  | None => false
  end = true.
Proof. vm_compute. reflexivity. Qed.

(* v2: StopAll racing a recovery restart that has already passed its shutdown check: StopAll acts on
   the dead run in the map and returns, the nested Start then publishes a new run that nothing stops *)
Definition w_shutdown_races_restart_v2 : list act :=
  start_v2 0 ++ fail_v1 0 CaTransient ++ clean 0 3 ++ [ACall KStopAll 1] ++ user 5 ++ clean 0 9.
Lemma shutdown_races_restart_v2 : refutes_stop (cfg_v2 false) w_shutdown_races_restart_v2 = true.
Proof. vm_compute. reflexivity. Qed.

(* v1: a node's error reaches the tomb only after the node's nodesWg.Done(): the cleanup goroutine can read
   tomb.ErrStillAlive for a run that died of a failure and report it as stopped by the user: the error is
   dropped, nothing recovers, nothing degrades *)
Definition w_late_kill_v1 : list act :=
  start_v1 0 ++ [AOpen 0; AInject 0 CaTransient; AKill 0 CaTransient; ATd 0; AEnd 0; AClean 0 1] ++ clean 0 3.
Lemma failure_reported_as_user_stopped_v1 :
  match trace (cfg_v1_shipped false) init w_late_kill_v1 with
  | Some (ls, s) =>
      status_eqb (s_status s) UserStopped
      && negb (has_label (fun l => match l with LCall KStart 0 => false | LCall _ _ => true | _ => false end) ls)
      && has_label (fun l => match l with LInj CaTransient => true | _ => false end) ls
      && negb (has_label (fun l => match l with LStatus Recovering | LStatus Degraded => true | _ => false end) ls)
  | None => false
  end = true.
Proof. vm_compute. reflexivity. Qed.

(* repaired (2f2ec4f): the node Kills the tomb before Done; whatever the cleanup's choice, the run recovers *)
Lemma failure_recovers_repaired_v1 :
  match trace (cfg_v1 false) init (start_v1 0 ++ [AOpen 0; AInject 0 CaTransient; AKill 0 CaTransient; ATd 0; AEnd 0; AClean 0 1]) with
  | Some (_, s) => status_eqb (s_status s) Recovering
  | None => false
  end = true.
Proof. vm_compute. reflexivity. Qed.

(* v2: a force stop that loses the tomb's first-reason race (a transient error was recorded first) was
   restarted by the recovery; repaired (9382932): the force path also marks the run as intentionally stopped *)
Definition w_force_loses_race_v2 : list act :=
  start_v2 0 ++ [AInject 0 CaTransient; AKill 0 CaTransient; ACall KForce 1] ++ user 4 ++ [ATd 0; AEnd 0] ++ clean 0 11.
Lemma force_loses_race_restarts_shipped_v2 : refutes_stop (cfg_v2_shipped false) w_force_loses_race_v2 = true.
Proof. vm_compute. reflexivity. Qed.
Definition w_force_loses_race_repaired_v2 : list act :=
  start_v2 0 ++ [AInject 0 CaTransient; AKill 0 CaTransient; ACall KForce 1] ++ user 4 ++ [ATd 0; AEnd 0] ++ clean 0 4.
Lemma force_loses_race_stops_repaired_v2 :
  match trace (cfg_v2 false) init w_force_loses_race_repaired_v2 with
  | Some (ls, s) => negb (restart_after_stop ls) && status_eqb (s_status s) UserStopped && quiescent s
  | None => false
  end = true.
Proof. vm_compute. reflexivity. Qed.

(* v2 Kills synchronously before Done: the same schedule (same choice at the cleanup's read) recovers *)
Lemma no_late_read_v2 :
  match trace (cfg_v2 false) init (start_v2 0 ++ [AInject 0 CaTransient; AKill 0 CaTransient; ATd 0; AEnd 0; AClean 0 1]) with
  | Some (_, s) => status_eqb (s_status s) Recovering
  | None => false
  end = true.
Proof. vm_compute. reflexivity. Qed.

(* ---------- a failing store write of UpdateStatus(StatusRunning) (c_stfail) ----------
   The code as it stood before 742a56e / eff71a0 ([cfg_v?_io_shipped]); the repaired code follows below. *)
(* v1: the write fails at the user's Start: the publication is rolled back and runPipeline returns before the
   cleanup goroutine is registered. The node goroutines run on: status Running, no map entry, nothing can
   stop the run *)
Definition w_stfail_start_v1 : list act := [ACall KStart 0] ++ user 5 ++ [AUser 1; AUser 0; AOpen 0].
Lemma stfail_start_leaks_run_v1 :
  match trace (cfg_v1_io_shipped true) init (w_stfail_start_v1 ++ [ACall KStop 1] ++ user 2) with
  | Some (ls, s) => quiescent s && status_eqb (s_status s) Running && onat_eqb (s_map s) None && is_live (s_runs s 0)
                    && negb (agrees s)
                    && has_label (fun l => match l with LRet 0 RetErr => true | _ => false end) ls
                    && has_label (fun l => match l with LRet 1 RetNotRunning => true | _ => false end) ls
  | None => false
  end = true.
Proof. vm_compute. reflexivity. Qed.

(* both engines: the write fails at a recovery restart: the nested Start fails, the old cleanup writes Degraded,
   the new run is live (v1: unpublished and without a cleanup goroutine; v2: published, under Degraded) *)
Definition w_stfail_restart_v1 : list act :=
  start_v1 0 ++ [AOpen 0] ++ fail_v1 0 CaTransient ++ clean 0 8 ++ [AClean 0 1] ++ clean 0 4 ++ [AOpen 1].
Lemma stfail_restart_leaks_run_v1 :
  match final (cfg_v1_io_shipped true) w_stfail_restart_v1 with
  | Some s => quiescent s && status_eqb (s_status s) Degraded && is_live (s_runs s 1) && negb (agrees s)
  | None => false
  end = true.
Proof. vm_compute. reflexivity. Qed.

Definition w_stfail_restart_v2 : list act :=
  start_v2 0 ++ fail_v1 0 CaTransient ++ clean 0 11 ++ [AClean 0 1] ++ clean 0 4.
Lemma stfail_restart_leaks_run_v2 :
  match final (cfg_v2_io_shipped true) w_stfail_restart_v2 with
  | Some s => quiescent s && status_eqb (s_status s) Degraded && is_live (s_runs s 1) && negb (agrees s)
              && negb (guards_free s)
  | None => false
  end = true.
Proof. vm_compute. reflexivity. Qed.

(* v2, the write fails at the user's Start: Start returns the error but the run is live, published and past
   startupDone: a Stop ends it in the ordinary way *)
Definition w_stfail_start_v2 : list act :=
  [ACall KStart 0] ++ user 8 ++ [AUser 1; AUser 0; ACall KStop 1] ++ user 4 ++ [AEnd 0] ++ clean 0 4.
Lemma stfail_start_stoppable_v2 :
  match trace (cfg_v2_io_shipped true) init w_stfail_start_v2 with
  | Some (ls, s) => quiescent s && agrees s && guards_free s && status_eqb (s_status s) UserStopped
                    && has_label (fun l => match l with LRet 0 RetErr => true | _ => false end) ls
                    && has_label (fun l => match l with LRet 1 RetNil => true | _ => false end) ls
  | None => false
  end = true.
Proof. vm_compute. reflexivity. Qed.

(* ---------- the same failures on the code as repaired (742a56e / eff71a0 + the wait in runPipeline) ----------
   The run whose Running write failed is Killed with a fatal error and finalized by its own cleanup goroutine, and
   Start does not return before that: everything ends quiescent, the status (Degraded) agrees with the runs, the
   guards are free, Start returned the error AFTER the closing status; v1 does not call the failure handlers for
   it, v2 does. *)
Definition w_stfail_start_repaired_v1 : list act :=
  [ACall KStart 0] ++ user 5 ++ [AUser 1; AOpen 0; ATd 0; AEnd 0] ++ clean 0 4 ++ user 2.
Definition w_stfail_start_repaired_v2 : list act :=
  [ACall KStart 0] ++ user 8 ++ [AUser 1; ATd 0; AEnd 0] ++ clean 0 4 ++ user 2.
Definition w_stfail_restart_repaired_v1 : list act :=
  start_v1 0 ++ [AOpen 0] ++ fail_v1 0 CaTransient ++ clean 0 8 ++ [AClean 0 1; AOpen 1; ATd 1; AEnd 1] ++ clean 1 4 ++ clean 0 5.
Definition w_stfail_restart_repaired_v2 : list act :=
  start_v2 0 ++ fail_v1 0 CaTransient ++ clean 0 11 ++ [AClean 0 1; ATd 1; AEnd 1] ++ clean 1 4 ++ clean 0 5.

(* the closing status of the failed run is in the trace before the return of the Start that failed *)
Fixpoint closing_before_ret (ls : list label) : bool :=
  match ls with
  | [] => false
  | LStatus Degraded :: _ => true
  | LRet 0 _ :: _ => false
  | _ :: t => closing_before_ret t
  end.

Lemma stfail_start_repaired_v1 :
  match trace (cfg_v1_io true) init w_stfail_start_repaired_v1 with
  | Some (ls, s) => quiescent s && agrees s && guards_free s && status_eqb (s_status s) Degraded
                    && onat_eqb (s_map s) None && closing_before_ret ls
                    && has_label (fun l => match l with LRet 0 RetErr => true | _ => false end) ls
                    && negb (has_label (fun l => match l with LNotify _ => true | _ => false end) ls)
  | None => false
  end = true.
Proof. vm_compute. reflexivity. Qed.

Lemma stfail_start_repaired_v2 :
  match trace (cfg_v2_io true) init w_stfail_start_repaired_v2 with
  | Some (ls, s) => quiescent s && agrees s && guards_free s && status_eqb (s_status s) Degraded
                    && onat_eqb (s_map s) None && closing_before_ret ls
                    && has_label (fun l => match l with LRet 0 RetErr => true | _ => false end) ls
                    && has_label (fun l => match l with LNotify (ResCause CaFatal) => true | _ => false end) ls
  | None => false
  end = true.
Proof. vm_compute. reflexivity. Qed.

(* v1 as it stands: the failing Running write rolls the publication back at once, while the Killed run is still
   winding down and its Start has not returned. A WaitPipeline issued in that window finds no entry and no terminal
   error and answers nil although the status says Running and the run is live (arch-v2 keeps the run published and
   the wait joins it). Open finding v1/failed-running-write/at-start/wait-answered-during-wind-down. *)
Definition w_wait_during_failed_start_v1 : list act :=
  [ACall KStart 0] ++ user 5 ++ [AUser 1; AOpen 0; ACall KWait 1; AWaiter 1; AWaiter 1; AWaiter 1].
Lemma wait_during_failed_start_returns_nil_v1 :
  match trace (cfg_v1_io true) init w_wait_during_failed_start_v1 with
  | Some (ls, s) => status_eqb (s_status s) Running && onat_eqb (s_map s) None && is_live (s_runs s 0)
                    && has_label (fun l => match l with LRet 1 RetNil => true | _ => false end) ls
                    && negb (has_label (fun l => match l with LRet 0 _ => true | _ => false end) ls)
  | None => false
  end = true.
Proof. vm_compute. reflexivity. Qed.

(* the Start that failed cannot return while the run it Killed is still live *)
Lemma stfail_start_blocks_until_finalized :
  (trace (cfg_v1_io true) init ([ACall KStart 0] ++ user 5 ++ [AUser 1; AUser 0]) = None)
  /\ (trace (cfg_v2_io true) init ([ACall KStart 0] ++ user 8 ++ [AUser 1; AUser 0]) = None)
  /\ (trace (cfg_v1_io true) init (start_v1 0 ++ [AOpen 0] ++ fail_v1 0 CaTransient ++ clean 0 8 ++ [AClean 0 1; AClean 0 0]) = None).
Proof. vm_compute. repeat split. Qed.

Lemma stfail_restart_repaired_v1 :
  match final (cfg_v1_io true) w_stfail_restart_repaired_v1 with
  | Some s => quiescent s && agrees s && guards_free s && status_eqb (s_status s) Degraded
              && match live_runs s with [] => true | _ => false end
  | None => false
  end = true.
Proof. vm_compute. reflexivity. Qed.

Lemma stfail_restart_repaired_v2 :
  match final (cfg_v2_io true) w_stfail_restart_repaired_v2 with
  | Some s => quiescent s && agrees s && guards_free s && status_eqb (s_status s) Degraded
              && match live_runs s with [] => true | _ => false end
  | None => false
  end = true.
Proof. vm_compute. reflexivity. Qed.
