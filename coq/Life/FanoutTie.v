(* C10 - the joined error of a fan-out pass as the checker uses it: the class the MODEL hands to the acceptor
   ([Check.engine_cause]) and the class the property MONITOR uses ([Mon.pcause_join]) are both "fatal iff a member
   is one of the property's fatal causes", and such an error degrades without entering recovery. *)
From Coq Require Import List Bool.
From Verif Require Import Life.Classify Life.ClassifyProofs Life.Fanout Life.FanoutProofs Life.RunMap Life.Mon Life.Check.
Import ListNotations.

Definition pcause_fatal (c : pcause) : bool :=
  match c with PFatalThreshold | PFatalProc | PFatalDlqWrite => true | _ => false end.

Lemma pcause_of_fatal k : pcause_fatal (pcause_of k) = property_fatal k.
Proof. destruct k; reflexivity. Qed.

Lemma filter_nil_existsb {A} (f : A -> bool) l : filter f l = [] -> existsb f l = false.
Proof.
  induction l as [|x l IH]; simpl; [reflexivity|]. destruct (f x) eqn:E; [discriminate|]. exact IH.
Qed.

Lemma filter_hd_true {A} (f : A -> bool) l x r : filter f l = x :: r -> f x = true /\ existsb f l = true.
Proof.
  induction l as [|y l IH]; simpl; [discriminate|]. destruct (f y) eqn:E.
  - intros H. inversion H; subst. split; [exact E|reflexivity].
  - intros H. destruct (IH H) as [H1 H2]. split; [exact H1|exact H2].
Qed.

(* the monitor: a joined failure is a fatal cause iff one of its members is *)
Theorem pcause_join_fatal_iff_any ms : pcause_fatal (pcause_join ms) = existsb property_fatal ms.
Proof.
  unfold pcause_join. destruct (filter property_fatal ms) as [|k r] eqn:E.
  - rewrite (filter_nil_existsb _ _ E). destruct ms; reflexivity.
  - destruct (filter_hd_true _ _ _ _ E) as [H1 H2]. rewrite H2, pcause_of_fatal. exact H1.
Qed.

Lemma tags_fatal e ms :
  existsb Classify.is_fatal (map (engine_tag e true) ms) = existsb property_fatal ms.
Proof.
  induction ms as [|k ms IH]; simpl; [reflexivity|]. rewrite IH. f_equal.
  destruct (property_fatal k) eqn:E.
  - rewrite (fatal_causes_tagged e k E). reflexivity.
  - rewrite (transient_causes_not_tagged e k E). reflexivity.
Qed.

Lemma tags_not_nil e ms : ms <> [] ->
  existsb (fun r => negb (reason_eqb RNil r)) (map (engine_tag e true) ms) = true.
Proof.
  destruct ms as [|k ms]; [congruence|]. intros _. simpl.
  destruct (property_fatal k) eqn:E.
  - rewrite (fatal_causes_tagged e k E). reflexivity.
  - rewrite (transient_causes_not_tagged e k E). reflexivity.
Qed.

(* the model: the error handed to the tomb for the members [ms] of one pass *)
Theorem engine_cause_join cf ms : ms <> [] ->
  engine_cause cf ms = Some (if existsb property_fatal ms then CaFatal else CaTransient).
Proof.
  intros Hn. unfold engine_cause. destruct ms as [|k r]; [congruence|]. f_equal.
  destruct (existsb property_fatal (k :: r)) eqn:E.
  - rewrite join_reason_fatal; [reflexivity|]. rewrite tags_fatal. exact E.
  - rewrite join_reason_transient; [reflexivity| |].
    + rewrite tags_fatal. exact E.
    + apply tags_not_nil. discriminate.
Qed.

(* monitor and model classify every joined failure alike *)
Theorem joined_classes_agree cf ms : ms <> [] ->
  engine_cause cf ms = Some (if pcause_fatal (pcause_join ms) then CaFatal else CaTransient).
Proof. intros Hn. rewrite pcause_join_fatal_iff_any. apply engine_cause_join. exact Hn. Qed.

(* a pass with a fatal member: whatever the siblings did, in whatever order, whatever reaches the tomb later, whatever
   the stop flags: Degraded with the cause recorded, recovery is not entered (both engines' arm orders) *)
Theorem joined_fatal_degrades_no_restart e ms later f rec :
  existsb property_fatal ms = true ->
  let r := tomb_err (kills (join_reason (map (engine_tag e true) ms) :: later)) in
  decide (arms_of e) r f rec = Final Degraded TFatal /\ enters_recovery (arms_of e) r f = false.
Proof.
  intros H r. subst r. rewrite kills_first. cbn [tomb_err].
  rewrite join_reason_fatal by (rewrite tags_fatal; exact H).
  apply fatal_degrades_generic. destruct e; reflexivity.
Qed.

(* the join the checker performs on classes is the class of the errors.Join of the member errors (Fanout.v) *)
Theorem join_reason_is_error_join done :
  join_reason (map reason_of_oerr done) = reason_of_oerr (do_next_task JoinAll done).
Proof. symmetry. apply fanout_reason. Qed.
