(* C10 - the error of one batch pass of the arch-v2 worker when the source fans out to M destinations.

   Modelled code
     pkg/lifecycle-poc/funnel/worker.go  Worker.doNextTask:
         case 0: return nil        case 1: return w.doTask(Next[0])
         default: p := pool.New().WithErrors(); for each branch: p.Go(func() error { return w.doTask(branch) });
                  return p.Wait()
       sourcegraph/conc ErrorPool: every branch's error is appended (under the pool's mutex, i.e. in the order in
       which the branches FINISH) and Wait returns errors.Join of them - or, with .WithFirstError(), only the first.
       Wait returns after every branch has returned; no branch is cancelled by a sibling's error.
     pkg/lifecycle-poc/service.go  runPipeline, worker goroutine: doErr := w.Do(ctx); if doErr != nil { rp.t.Kill(doErr) };
       closeErr := w.Close(...); Kill(Errorf("...: %w", Join(doErr, closeErr))) - tomb.v2 keeps the first reason.
     cerrors.IsFatalError = errors.As over the tree, Join members included (Err/Tree.v, Err/TreeProofs.v).

   An error value is a tree of Err/Tree.v (None = nil).  The cleanup classifies the tomb's reason with
   [Classify.decide].  Definitions only; proofs in FanoutProofs.v. *)
From Coq Require Export List Bool.
From Verif Require Err.Tree.
From Verif Require Export Life.Classify.
Export ListNotations.

(* which error the branch pool reports *)
Inductive policy :=
| JoinAll        (* pool.New().WithErrors(): errors.Join of every branch's error *)
| FirstError.    (* ... .WithFirstError(): the error of the branch that failed first, the others are dropped *)

(* [done]: the results of the branches in the order in which they finished *)
Definition pool_wait (p : policy) (done : list Tree.oerr) : Tree.oerr :=
  match p with
  | JoinAll => Tree.mk_join done
  | FirstError => Tree.first_some (fun o : Tree.oerr => o) done
  end.

Definition do_next_task (p : policy) (done : list Tree.oerr) : Tree.oerr :=
  match done with
  | [] => None
  | [o] => o
  | _ => pool_wait p done
  end.

(* the class of an error value as the cleanup sees it (cerrors.IsFatalError) *)
Definition reason_of_oerr (o : Tree.oerr) : reason :=
  match o with
  | None => RNil
  | Some e => if Tree.is_fatal e then RFatal else RTransient
  end.

(* the same on classes: the join of the members' classes *)
Definition join_reason (rs : list reason) : reason :=
  if existsb is_fatal rs then RFatal
  else if forallb (reason_eqb RNil) rs then RNil
  else RTransient.

(* the reasons the worker goroutine of runPipeline puts on the tomb, in order: Do's error, then (wrapped) the join
   of Do's error and the error of Worker.Close *)
Definition worker_kills (doErr closeErr : Tree.oerr) : list reason :=
  (match doErr with None => [] | Some _ => [reason_of_oerr doErr] end)
  ++ (match Tree.mk_join [doErr; closeErr] with
      | None => []
      | Some e => [reason_of_oerr (Some (Tree.Wrap e))]
      end).
