(* Soundness of the trace acceptor (Life/Accept.v): every accepted log is explained by an interleaving
   of the lifecycle model (Life/RunMap.v).  So whatever is proved for ALL interleavings of the model
   holds for the behaviour the real service showed on every log the acceptor accepts. *)
From Coq Require Import FMapPositive.
From Verif Require Import Life.RunMap Life.Accept.

(* the model explains a list of observations from state s to state s' *)
Inductive explains (c : cfg) : st -> list obs -> st -> Prop :=
| ex_nil s : explains c s [] s
| ex_tau s a s' log s'' :
    step c s a = Some (s', LTau) -> explains c s' log s'' -> explains c s log s''
| ex_obs s a s' l o log s'' :
    step c s a = Some (s', l) -> obs_matches o l = true -> explains c s' log s'' ->
    explains c s (o :: log) s''
| ex_call s k id s' l log s'' :
    step c s (ACall k id) = Some (s', l) -> explains c s' log s'' ->
    explains c s (OCall k id :: log) s''
| ex_inj_unused s x log s'' :            (* an injected failure that never surfaced *)
    explains c s log s'' -> explains c s (OInj x :: log) s''.

(* s' is reachable from s by internal steps only *)
Inductive tau_reach (c : cfg) : st -> st -> Prop :=
| tr_refl s : tau_reach c s s
| tr_step s a s' s'' : step c s a = Some (s', LTau) -> tau_reach c s' s'' -> tau_reach c s s''.

Lemma tau_reach_trans c s1 s2 s3 : tau_reach c s1 s2 -> tau_reach c s2 s3 -> tau_reach c s1 s3.
Proof. induction 1; intros; eauto using tau_reach. Qed.

Lemma tau_reach_step_r c s1 s2 a s3 : tau_reach c s1 s2 -> step c s2 a = Some (s3, LTau) -> tau_reach c s1 s3.
Proof. intros H1 H2. eapply tau_reach_trans; [exact H1|]. eapply tr_step; [exact H2|apply tr_refl]. Qed.

Lemma explains_tau c s s' log s'' : tau_reach c s s' -> explains c s' log s'' -> explains c s log s''.
Proof. induction 1; intros; eauto using explains. Qed.

(* ---------- succ_by ---------- *)
Lemma succ_by_sound c p s s' :
  In s' (succ_by c p s) -> exists a l, step c s a = Some (s', l) /\ p l = true.
Proof.
  unfold succ_by. intros H. apply in_flat_map in H. destruct H as [a [_ H]].
  destruct (step c s a) as [[s1 l]|] eqn:E; [|contradiction].
  destruct (p l) eqn:Ep; [|contradiction]. destruct H as [H|[]]. subst s1. eauto.
Qed.

Lemma is_tau_true l : is_tau l = true -> l = LTau.
Proof. destruct l; simpl; try discriminate; auto. Qed.

(* ---------- add_new ---------- *)
Lemma add_new_sound new : forall acc seen acc' seen' fresh,
  add_new new acc seen = (acc', seen', fresh) ->
  (forall x, In x fresh -> In x new) /\ (forall x, In x acc' -> In x acc \/ In x new).
Proof.
  induction new as [|s t IH]; intros acc seen acc' seen' fresh H; simpl in H.
  - inversion H; subst. split; [intros x []|auto].
  - destruct (PositiveMap.mem (key s) seen).
    + destruct (IH _ _ _ _ _ H) as [A B]. split.
      * intros x Hx. right. apply A. exact Hx.
      * intros x Hx. destruct (B x Hx); [left|right; right]; assumption.
    + destruct (add_new t (s :: acc) (PositiveMap.add (key s) tt seen)) as [[a1 e1] f1] eqn:E.
      inversion H; subst. destruct (IH _ _ _ _ _ E) as [A B]. split.
      * intros x [Hx|Hx]; [left; exact Hx|right; apply A; exact Hx].
      * intros x Hx. destruct (B x Hx) as [[Hy|Hy]|Hy]; [right; left; exact Hy|left; exact Hy|right; right; exact Hy].
Qed.

(* ---------- closure ---------- *)
Lemma closure_sound c (P : st -> Prop) :
  (forall s a s', P s -> step c s a = Some (s', LTau) -> P s') ->
  forall cap fuel frontier acc encs,
    (forall x, In x frontier -> P x) -> (forall x, In x acc -> P x) ->
    forall x, In x (closure c cap fuel frontier acc encs) -> P x.
Proof.
  intros Hstep cap. induction fuel as [|f IH]; intros frontier acc encs Hf Ha x Hx; simpl in Hx.
  - apply Ha. exact Hx.
  - destruct frontier as [|y fr]; [apply Ha; exact Hx|].
    destruct (add_new (flat_map (succ_by c is_tau) (y :: fr)) acc encs) as [[acc' encs'] fresh] eqn:E.
    destruct (add_new_sound _ _ _ _ _ _ E) as [A B].
    assert (Hnew : forall z, In z (flat_map (succ_by c is_tau) (y :: fr)) -> P z).
    { intros z Hz. apply in_flat_map in Hz. destruct Hz as [w [Hw Hz]].
      destruct (succ_by_sound c _ _ _ Hz) as (a & l & Hs & Hl). apply is_tau_true in Hl. subst l.
      eapply Hstep; [apply Hf; exact Hw|exact Hs]. }
    assert (Hacc' : forall z, In z acc' -> P z).
    { intros z Hz. destruct (B z Hz); [apply Ha|apply Hnew]; assumption. }
    destruct (cap <? length acc'); [apply Hacc'; exact Hx|].
    apply (IH fresh acc' encs'); [|exact Hacc'|exact Hx].
    intros z Hz. apply Hnew. apply A. exact Hz.
Qed.

Lemma tau_close_sound c cap X x : In x (tau_close c cap X) -> exists y, In y X /\ tau_reach c y x.
Proof.
  unfold tau_close. destruct (add_new X [] (PositiveMap.empty unit)) as [[acc encs] fresh] eqn:E.
  destruct (add_new_sound _ _ _ _ _ _ E) as [A B].
  apply (closure_sound c (fun s => exists y, In y X /\ tau_reach c y s) ltac:(intros s a s' [y [Hy Hr]] Hs; exists y; split; [exact Hy|eapply tau_reach_step_r; eauto]) cap).
  - intros z Hz. exists z. split; [apply A; exact Hz|apply tr_refl].
  - intros z Hz. destruct (B z Hz) as [[]|Hn]. exists z. split; [exact Hn|apply tr_refl].
Qed.

(* ---------- one observation ---------- *)
Lemma obs_succ_sound c X o s' :
  In s' (obs_succ c X o) ->
  exists s, In s X /\
    ((exists k id l, o = OCall k id /\ step c s (ACall k id) = Some (s', l))
     \/ (exists a l, step c s a = Some (s', l) /\ obs_matches o l = true)
     \/ (exists x, o = OInj x /\ s' = s)).
Proof.
  assert (Hgen : forall o0, In s' (flat_map (succ_by c (obs_matches o0)) X) ->
            exists s, In s X /\ exists a l, step c s a = Some (s', l) /\ obs_matches o0 l = true).
  { intros o0 H. apply in_flat_map in H. destruct H as [s [Hs H]].
    destruct (succ_by_sound c _ _ _ H) as (a & l & A & B). exists s. split; [exact Hs|]. exists a, l. split; assumption. }
  unfold obs_succ. destruct o as [x| |x| |x|k id|id e|e]; intros H.
  - destruct (Hgen _ H) as (s & Hs & Hx). exists s. split; [exact Hs|right; left; exact Hx].
  - destruct (Hgen _ H) as (s & Hs & Hx). exists s. split; [exact Hs|right; left; exact Hx].
  - destruct (Hgen _ H) as (s & Hs & Hx). exists s. split; [exact Hs|right; left; exact Hx].
  - destruct (Hgen _ H) as (s & Hs & Hx). exists s. split; [exact Hs|right; left; exact Hx].
  - apply in_app_or in H. destruct H as [H|H].
    + exists s'. split; [exact H|]. right. right. exists x. split; reflexivity.
    + destruct (Hgen _ H) as (s & Hs & Hx). exists s. split; [exact Hs|right; left; exact Hx].
  - apply in_flat_map in H. destruct H as [s [Hs H]].
    destruct (step c s (ACall k id)) as [[s1 l]|] eqn:E; [|contradiction].
    destruct H as [H|[]]. subst s1. exists s. split; [exact Hs|left; exists k, id, l; split; [reflexivity|exact E]].
  - destruct (Hgen _ H) as (s & Hs & Hx). exists s. split; [exact Hs|right; left; exact Hx].
  - destruct (Hgen _ H) as (s & Hs & Hx). exists s. split; [exact Hs|right; left; exact Hx].
Qed.

(* ---------- the acceptor ---------- *)
Theorem accept_from_sound c cap log : forall X,
  accept_from c cap X log = Some true -> exists s s', In s X /\ explains c s log s'.
Proof.
  induction log as [|o t IH]; intros X H; cbn [accept_from] in H.
  - destruct X as [|s X']; [simpl in H; discriminate H|]. exists s, s. split; [left; reflexivity|apply ex_nil].
  - destruct (tau_close c cap (obs_succ c X o)) as [|z Z] eqn:E; [discriminate H|].
    destruct (cap <? length (z :: Z)); [discriminate H|].
    destruct (IH _ H) as (s1 & s' & Hin & Hex).
    rewrite <- E in Hin. destruct (tau_close_sound c cap _ _ Hin) as (y & Hy & Hr).
    destruct (obs_succ_sound c _ _ _ Hy) as (s & Hs & Hcase).
    exists s, s'. split; [exact Hs|].
    pose proof (explains_tau c _ _ _ _ Hr Hex) as Hex'.
    destruct Hcase as [(k & id & l & -> & Hst)|[(a & l & Hst & Hm)|(x & -> & ->)]].
    + eapply ex_call; eauto.
    + eapply ex_obs; eauto.
    + apply ex_inj_unused. exact Hex'.
Qed.

(* every accepted log is the observable trace of an interleaving of the model that starts in the initial state *)
Theorem accepts_sound c cap log :
  accepts c cap log = Some true -> exists s', explains c init log s'.
Proof.
  unfold accepts. intros H. destruct (accept_from_sound c cap log _ H) as (s & s' & Hin & Hex).
  destruct (tau_close_sound c cap _ _ Hin) as (y & [Hy|[]] & Hr). subst y.
  exists s'. eapply explains_tau; eauto.
Qed.

(* ... and such an interleaving is a list of model actions *)
Lemma run_acts_cons c s a s' l t s'' :
  step c s a = Some (s', l) -> run_acts c s' t = Some s'' -> run_acts c s (a :: t) = Some s''.
Proof. intros H1 H2. cbn [run_acts]. rewrite H1. exact H2. Qed.

Lemma explains_run c s log s' : explains c s log s' -> exists acts, run_acts c s acts = Some s'.
Proof.
  induction 1.
  - exists []. reflexivity.
  - destruct IHexplains as [acts Ha]. exists (a :: acts). eapply run_acts_cons; eauto.
  - destruct IHexplains as [acts Ha]. exists (a :: acts). eapply run_acts_cons; eauto.
  - destruct IHexplains as [acts Ha]. exists (ACall k id :: acts). eapply run_acts_cons; eauto.
  - exact IHexplains.
Qed.

(* hence: what holds in every reachable state of the model holds in the state the model is in after any
   accepted log *)
Theorem accepted_log_reaches c cap log :
  accepts c cap log = Some true -> exists acts s, run_acts c init acts = Some s.
Proof.
  intros H. destruct (accepts_sound c cap log H) as [s' Hex].
  destruct (explains_run c _ _ _ Hex) as [acts Ha]. eauto.
Qed.
