#!/bin/bash
# MANIFEST.setup_cmd: offline build of everything the checks need.
#  - full .vo build of the Coq development (no -vos/-vok)
#  - warm build of every Go harness against /repo (fills the Go build cache)
set -u
cd "$(dirname "$0")"
export GOFLAGS=-mod=mod GOPROXY=off
unset GOTOOLCHAIN GOSUMDB
mkdir -p out evidence
python3 - <<'PY'
import sys
sys.path.insert(0, ".")
from verifpy import core
ok, log = core.coq_build()
print(log[-3000:])
if not ok:
    print("SETUP: Coq build failed"); sys.exit(1)
import os
bad = 0
for d in sorted(os.listdir("harness/cmd")):
    ok, b, log = core.go_build(d, os.path.join(core.OUT, "setup"))
    print("harness", d, "ok" if ok else "FAILED")
    if not ok:
        print(log[-3000:]); bad += 1
sys.exit(1 if bad else 0)
PY
