#!/bin/bash
# MANIFEST.setup_cmd: offline build of everything the checks need.
#  - full .vo build of the Coq development (coq_makefile + make, no -vos/-vok)
#  - warm build of every Go harness against /repo (fills the Go build cache)
# Fails only when something a CLAIMED property needs does not build.
set -u
cd "$(dirname "$0")"
export GOFLAGS=-mod=mod GOPROXY=off
unset GOTOOLCHAIN GOSUMDB
mkdir -p out evidence
python3 - <<'PY'
import sys, os, json, importlib
sys.path.insert(0, ".")
from verifpy import core
claimed = [c["property_id"] for c in json.load(open("MANIFEST.json"))["checks"]]
props = {}
for pid in claimed:
    props[pid] = importlib.import_module("verifpy.props." + pid.lower()).PROP
# 1. everything, keep going
with core.Lock("coq"):
    vs = core.coq_sources()
    open(os.path.join(core.COQ, "_CoqProject"), "w").write("-Q . Verif\n" + "\n".join(vs) + "\n")
    core.sh(["coq_makefile", "-f", "_CoqProject", "-o", "Makefile"], cwd=core.COQ, timeout=120)
    rc, out = core.sh(["make", "-k", "-j%d" % core.NCPU], cwd=core.COQ, timeout=7200)
print(out[-2500:])
print("SETUP: full Coq build rc=%d" % rc)
# 2. what the claimed properties need must be there
bad = 0
for pid, p in props.items():
    roots = ([p.props_file] if p.props_file else []) + list(p.coq_modules)
    ok, log = core.coq_build([r[:-2] + ".vo" for r in roots])
    print("coq", pid, "ok" if ok else "FAILED")
    if not ok:
        print(log[-2000:]); bad += 1
needed = {p.harness for p in props.values() if p.harness}
for d in sorted(os.listdir("harness/cmd")):
    ok, b, log = core.go_build(d, os.path.join(core.OUT, "setup"))
    print("harness", d, "ok" if ok else ("FAILED" if d in needed else "failed (not claimed)"))
    if not ok and d in needed:
        print(log[-2000:]); bad += 1
sys.exit(1 if bad else 0)
PY
